/-
  Helper lemmas about the lock protocol model `Lmd.LockProto` (property C14, part B).

   * `act_*`   what an enabled action does (guards and successor state), `can_*` the converse (enabledness)
   * `Inv`     the invariant of all reachable states: the lock state agrees with what the processes believe to hold
               (`readers_iff`, `writer_iff`, `waiting_iff`), writers exclude readers (`excl`), and the facts about the
               ghost field `atAcquire` that give the snapshot property
   * `Ordered` the lock order invariant (needs `SortedWants` at the start)
   * `progress` a state satisfying both invariants with an unfinished process has an enabled action
   * `canStep_of_step` / `step_of_canStep`  the executable test `canStep` is exact
-/
import Lmd.LockProto
namespace Lmd.LockProto

theorem getElem?_set_of_some {l : List Proc} {p : Nat} {old : Proc} (x : Proc) (h : l[p]? = some old) (q : Nat) :
    (l.set p x)[q]? = if q = p then some x else l[q]? := by
  have hp : p < l.length := by
    rcases Nat.lt_or_ge p l.length with h' | h'
    · exact h'
    · rw [List.getElem?_eq_none h'] at h; cases h
  rw [List.getElem?_set]
  by_cases e : p = q
  · subst e
    rw [if_pos rfl, if_pos hp, if_pos rfl]
  · have : ¬ q = p := fun e' => e e'.symm
    rw [if_neg e, if_neg this]

/-- the invariant of the reachable states -/
structure Inv (s : State) : Prop where
  readers_iff : ∀ p k, p ∈ s.readers k ↔ ∃ r, s.procs[p]? = some (.reader r) ∧ k ∈ r.held
  writer_iff : ∀ p k, s.writer k = some p ↔
    ∃ w, s.procs[p]? = some (.writer w) ∧ w.lock = k ∧ (w.phase = .holding ∨ w.phase = .written)
  waiting_iff : ∀ p k, p ∈ s.waiting k ↔ ∃ w, s.procs[p]? = some (.writer w) ∧ w.lock = k ∧ w.phase = .waiting
  excl : ∀ p k, s.writer k = some p → s.readers k = []
  done_held : ∀ (p : Nat) (r : Reader), s.procs[p]? = some (.reader r) → r.done = true → r.held = [] ∧ r.want = []
  seen_sub : ∀ (p : Nat) (r : Reader), s.procs[p]? = some (.reader r) → ∀ kv ∈ r.seen, kv ∈ r.atAcquire
  acq_cur : ∀ (p : Nat) (r : Reader), s.procs[p]? = some (.reader r) → ∀ kv ∈ r.atAcquire, kv.1 ∈ r.held → s.version kv.1 = kv.2
  acq_held : ∀ (p : Nat) (r : Reader), s.procs[p]? = some (.reader r) → r.done = false → ∀ kv ∈ r.atAcquire, kv.1 ∈ r.held
  held_acq : ∀ (p : Nat) (r : Reader), s.procs[p]? = some (.reader r) → ∀ k ∈ r.held, ∃ v, (k, v) ∈ r.atAcquire
  acq_fun : ∀ (p : Nat) (r : Reader), s.procs[p]? = some (.reader r) → ∀ kv ∈ r.atAcquire, ∀ kv' ∈ r.atAcquire,
    kv.1 = kv'.1 → kv.2 = kv'.2

theorem act_rAcquire {s s' : State} {p : Nat} (h : act s (.rAcquire p) = some s') :
    ∃ r k rest, s.procs[p]? = some (.reader r) ∧ r.want = k :: rest ∧ s.writer k = none ∧ s.waiting k = [] ∧
      s' = { s with
            procs := s.procs.set p (.reader { r with want := rest, held := k :: r.held,
                                                      atAcquire := (k, s.version k) :: r.atAcquire })
            readers := fun j => if j = k then p :: s.readers j else s.readers j } := by
  simp only [act] at h
  split at h
  · rename_i r hr
    split at h
    · rename_i k rest hw
      split at h
      · rename_i hg
        simp only [Bool.and_eq_true, Option.isNone_iff_eq_none, List.isEmpty_iff] at hg
        exact ⟨r, k, rest, hr, hw, hg.1, hg.2, (Option.some.inj h).symm⟩
      · cases h
    · cases h
  · cases h

theorem inv_rAcquire {s s' : State} {p : Nat} (hi : Inv s) (h : act s (.rAcquire p) = some s') : Inv s' := by
  obtain ⟨r, k, rest, hr, hw, hwr, hwt, rfl⟩ := act_rAcquire h
  have hset := getElem?_set_of_some (.reader { r with want := rest, held := k :: r.held,
                                                      atAcquire := (k, s.version k) :: r.atAcquire }) hr
  obtain ⟨i1, i2, i3, i4, i5, i6, i7, i8, i9, i10⟩ := hi
  constructor <;> simp only [hset] <;> grind


theorem act_rRead {s s' : State} {p k : Nat} (h : act s (.rRead p k) = some s') :
    ∃ r, s.procs[p]? = some (.reader r) ∧ k ∈ r.held ∧
      s' = { s with procs := s.procs.set p (.reader { r with seen := (k, s.version k) :: r.seen }) } := by
  simp only [act] at h
  split at h
  · rename_i r hr
    split at h
    · rename_i hg
      exact ⟨r, hr, hg, (Option.some.inj h).symm⟩
    · cases h
  · cases h

theorem act_rRelease {s s' : State} {p : Nat} (h : act s (.rRelease p) = some s') :
    ∃ r, s.procs[p]? = some (.reader r) ∧ r.want = [] ∧ r.done = false ∧
      s' = { s with
          procs := s.procs.set p (.reader { r with held := [], done := true })
          readers := fun j => (s.readers j).filter (· != p) } := by
  simp only [act] at h
  split at h
  · rename_i r hr
    split at h
    · rename_i hg
      simp only [Bool.and_eq_true, List.isEmpty_iff, Bool.not_eq_true'] at hg
      exact ⟨r, hr, hg.1, hg.2, (Option.some.inj h).symm⟩
    · cases h
  · cases h

theorem act_wAnnounce {s s' : State} {p : Nat} (h : act s (.wAnnounce p) = some s') :
    ∃ w, s.procs[p]? = some (.writer w) ∧ w.phase = .idle ∧
      s' = { s with
          procs := s.procs.set p (.writer { w with phase := .waiting })
          waiting := fun j => if j = w.lock then p :: s.waiting j else s.waiting j } := by
  simp only [act] at h
  split at h
  · rename_i w hw
    split at h
    · rename_i hg
      exact ⟨w, hw, hg, (Option.some.inj h).symm⟩
    · cases h
  · cases h

theorem act_wAcquire {s s' : State} {p : Nat} (h : act s (.wAcquire p) = some s') :
    ∃ w, s.procs[p]? = some (.writer w) ∧ w.phase = .waiting ∧ s.readers w.lock = [] ∧ s.writer w.lock = none ∧
      s' = { s with
          procs := s.procs.set p (.writer { w with phase := .holding })
          writer := fun j => if j = w.lock then some p else s.writer j
          waiting := fun j => if j = w.lock then (s.waiting j).filter (· != p) else s.waiting j } := by
  simp only [act] at h
  split at h
  · rename_i w hw
    split at h
    · rename_i hg
      simp only [Option.isNone_iff_eq_none, List.isEmpty_iff] at hg
      exact ⟨w, hw, hg.1, hg.2.1, hg.2.2, (Option.some.inj h).symm⟩
    · cases h
  · cases h

theorem act_wWrite {s s' : State} {p : Nat} (h : act s (.wWrite p) = some s') :
    ∃ w, s.procs[p]? = some (.writer w) ∧ w.phase = .holding ∧
      s' = { s with
          procs := s.procs.set p (.writer { w with phase := .written })
          version := fun j => if j = w.lock then w.stepNo else s.version j } := by
  simp only [act] at h
  split at h
  · rename_i w hw
    split at h
    · rename_i hg
      exact ⟨w, hw, hg, (Option.some.inj h).symm⟩
    · cases h
  · cases h

theorem act_wRelease {s s' : State} {p : Nat} (h : act s (.wRelease p) = some s') :
    ∃ w, s.procs[p]? = some (.writer w) ∧ w.phase = .written ∧
      s' = { s with
          procs := s.procs.set p (.writer { w with phase := .done })
          writer := fun j => if j = w.lock then none else s.writer j } := by
  simp only [act] at h
  split at h
  · rename_i w hw
    split at h
    · rename_i hg
      exact ⟨w, hw, hg, (Option.some.inj h).symm⟩
    · cases h
  · cases h

theorem inv_rRead {s s' : State} {p k : Nat} (hi : Inv s) (h : act s (.rRead p k) = some s') : Inv s' := by
  obtain ⟨r, hr, hk, rfl⟩ := act_rRead h
  have hset := getElem?_set_of_some (.reader { r with seen := (k, s.version k) :: r.seen }) hr
  obtain ⟨i1, i2, i3, i4, i5, i6, i7, i8, i9, i10⟩ := hi
  constructor <;> simp only [hset] <;> grind

theorem inv_rRelease {s s' : State} {p : Nat} (hi : Inv s) (h : act s (.rRelease p) = some s') : Inv s' := by
  obtain ⟨r, hr, hw, hd, rfl⟩ := act_rRelease h
  have hset := getElem?_set_of_some (.reader { r with held := [], done := true }) hr
  obtain ⟨i1, i2, i3, i4, i5, i6, i7, i8, i9, i10⟩ := hi
  constructor <;> simp only [hset] <;> grind

theorem inv_wAnnounce {s s' : State} {p : Nat} (hi : Inv s) (h : act s (.wAnnounce p) = some s') : Inv s' := by
  obtain ⟨w, hw, hp, rfl⟩ := act_wAnnounce h
  have hset := getElem?_set_of_some (.writer { w with phase := .waiting }) hw
  obtain ⟨i1, i2, i3, i4, i5, i6, i7, i8, i9, i10⟩ := hi
  constructor <;> simp only [hset] <;> grind

theorem inv_wAcquire {s s' : State} {p : Nat} (hi : Inv s) (h : act s (.wAcquire p) = some s') : Inv s' := by
  obtain ⟨w, hw, hp, hrd, hwr, rfl⟩ := act_wAcquire h
  have hset := getElem?_set_of_some (.writer { w with phase := .holding }) hw
  obtain ⟨i1, i2, i3, i4, i5, i6, i7, i8, i9, i10⟩ := hi
  constructor <;> simp only [hset] <;> grind

theorem inv_wWrite {s s' : State} {p : Nat} (hi : Inv s) (h : act s (.wWrite p) = some s') : Inv s' := by
  obtain ⟨w, hw, hp, rfl⟩ := act_wWrite h
  have hset := getElem?_set_of_some (.writer { w with phase := .written }) hw
  obtain ⟨i1, i2, i3, i4, i5, i6, i7, i8, i9, i10⟩ := hi
  have hno : ∀ (q : Nat) (r : Reader), s.procs[q]? = some (.reader r) → w.lock ∉ r.held := by
    intro q r hq hm
    have h1 : s.writer w.lock = some p := (i2 p w.lock).2 ⟨w, hw, rfl, Or.inl hp⟩
    have h2 : q ∈ s.readers w.lock := (i1 q w.lock).2 ⟨r, hq, hm⟩
    rw [i4 p w.lock h1] at h2
    cases h2
  constructor <;> simp only [hset] <;> grind

theorem inv_wRelease {s s' : State} {p : Nat} (hi : Inv s) (h : act s (.wRelease p) = some s') : Inv s' := by
  obtain ⟨w, hw, hp, rfl⟩ := act_wRelease h
  have hset := getElem?_set_of_some (.writer { w with phase := .done }) hw
  obtain ⟨i1, i2, i3, i4, i5, i6, i7, i8, i9, i10⟩ := hi
  have h1 : s.writer w.lock = some p := (i2 p w.lock).2 ⟨w, hw, rfl, Or.inr hp⟩
  constructor <;> simp only [hset] <;> grind


theorem inv_step {s s' : State} (hi : Inv s) (h : Step s s') : Inv s' := by
  obtain ⟨a, ha⟩ := h
  cases a with
  | rAcquire p => exact inv_rAcquire hi ha
  | rRead p k => exact inv_rRead hi ha
  | rRelease p => exact inv_rRelease hi ha
  | wAnnounce p => exact inv_wAnnounce hi ha
  | wAcquire p => exact inv_wAcquire hi ha
  | wWrite p => exact inv_wWrite hi ha
  | wRelease p => exact inv_wRelease hi ha

theorem fresh_reader {s : State} (h : Initial s) {p : Nat} {r : Reader} (hp : s.procs[p]? = some (.reader r)) :
    r.held = [] ∧ r.seen = [] ∧ r.atAcquire = [] ∧ r.done = false := by
  have := h.fresh _ (List.mem_of_getElem? hp)
  simpa [Proc.fresh, and_assoc] using this

theorem fresh_writer {s : State} (h : Initial s) {p : Nat} {w : Writer} (hp : s.procs[p]? = some (.writer w)) :
    w.phase = .idle := by
  have := h.fresh _ (List.mem_of_getElem? hp)
  simpa [Proc.fresh] using this

theorem inv_init {s : State} (h : Initial s) : Inv s := by
  have hr := @fresh_reader s h
  have hw := @fresh_writer s h
  have h1 := h.readers
  have h2 := h.writer
  have h3 := h.waiting
  constructor <;> grind

theorem inv_reach {s0 s : State} (h0 : Initial s0) (h : Reach s0 s) : Inv s := by
  induction h with
  | refl => exact inv_init h0
  | step _ st ih => exact inv_step ih st

/-- the lock order: what a reader still wants is strictly increasing and above everything it holds -/
structure Ordered (s : State) : Prop where
  want_sorted : ∀ (p : Nat) (r : Reader), s.procs[p]? = some (.reader r) → r.want.Pairwise (· < ·)
  held_lt : ∀ (p : Nat) (r : Reader), s.procs[p]? = some (.reader r) → ∀ h ∈ r.held, ∀ k ∈ r.want, h < k

theorem ordered_step {s s' : State} (ho : Ordered s) (h : Step s s') : Ordered s' := by
  obtain ⟨a, ha⟩ := h
  obtain ⟨o1, o2⟩ := ho
  cases a with
  | rAcquire p =>
    obtain ⟨r, k, rest, hr, hw, hwr, hwt, rfl⟩ := act_rAcquire ha
    have hset := getElem?_set_of_some
      (.reader { r with want := rest, held := k :: r.held, atAcquire := (k, s.version k) :: r.atAcquire }) hr
    have h1 := o1 p r hr
    have h2 := o2 p r hr
    rw [hw] at h1 h2
    rw [List.pairwise_cons] at h1
    constructor
    · intro q r' hq
      simp only [hset] at hq
      by_cases e : q = p
      · rw [if_pos e] at hq
        cases hq
        exact h1.2
      · rw [if_neg e] at hq
        exact o1 q r' hq
    · intro q r' hq
      simp only [hset] at hq
      by_cases e : q = p
      · rw [if_pos e] at hq
        cases hq
        intro h hh k' hk'
        rcases List.mem_cons.1 hh with rfl | hh
        · exact h1.1 k' hk'
        · exact h2 h hh k' (List.mem_cons_of_mem _ hk')
      · rw [if_neg e] at hq
        exact o2 q r' hq
  | rRead p k =>
    obtain ⟨r, hr, hk, rfl⟩ := act_rRead ha
    have hset := getElem?_set_of_some (.reader { r with seen := (k, s.version k) :: r.seen }) hr
    constructor <;> simp only [hset] <;> grind
  | rRelease p =>
    obtain ⟨r, hr, hw, hd, rfl⟩ := act_rRelease ha
    have hset := getElem?_set_of_some (.reader { r with held := [], done := true }) hr
    constructor <;> simp only [hset] <;> grind
  | wAnnounce p =>
    obtain ⟨w, hw, hp, rfl⟩ := act_wAnnounce ha
    have hset := getElem?_set_of_some (.writer { w with phase := .waiting }) hw
    constructor <;> simp only [hset] <;> grind
  | wAcquire p =>
    obtain ⟨w, hw, hp, hrd, hwr, rfl⟩ := act_wAcquire ha
    have hset := getElem?_set_of_some (.writer { w with phase := .holding }) hw
    constructor <;> simp only [hset] <;> grind
  | wWrite p =>
    obtain ⟨w, hw, hp, rfl⟩ := act_wWrite ha
    have hset := getElem?_set_of_some (.writer { w with phase := .written }) hw
    constructor <;> simp only [hset] <;> grind
  | wRelease p =>
    obtain ⟨w, hw, hp, rfl⟩ := act_wRelease ha
    have hset := getElem?_set_of_some (.writer { w with phase := .done }) hw
    constructor <;> simp only [hset] <;> grind

theorem ordered_init {s : State} (h : Initial s) (hs : SortedWants s) : Ordered s := by
  constructor
  · intro p r hp
    exact hs _ (List.mem_of_getElem? hp) r rfl
  · intro p r hp x hx
    rw [(fresh_reader h hp).1] at hx
    cases hx

theorem ordered_reach {s0 s : State} (h0 : Initial s0) (hs : SortedWants s0) (h : Reach s0 s) : Ordered s := by
  induction h with
  | refl => exact ordered_init h0 hs
  | step _ st ih => exact ordered_step ih st


/-! ## enabledness -/

theorem can_rAcquire {s : State} {p : Nat} {r : Reader} {k : Nat} {rest : List Nat}
    (hr : s.procs[p]? = some (.reader r)) (hw : r.want = k :: rest) (h1 : s.writer k = none)
    (h2 : s.waiting k = []) : ∃ s', act s (.rAcquire p) = some s' := by
  simp only [act, hr, hw, h1, h2]
  exact ⟨_, rfl⟩

theorem can_rRead {s : State} {p k : Nat} {r : Reader}
    (hr : s.procs[p]? = some (.reader r)) (hk : k ∈ r.held) : ∃ s', act s (.rRead p k) = some s' := by
  simp only [act, hr, hk]
  exact ⟨_, rfl⟩

theorem can_rRelease {s : State} {p : Nat} {r : Reader}
    (hr : s.procs[p]? = some (.reader r)) (hw : r.want = []) (hd : r.done = false) :
    ∃ s', act s (.rRelease p) = some s' := by
  simp only [act, hr, hw, hd]
  exact ⟨_, rfl⟩

theorem can_wAnnounce {s : State} {p : Nat} {w : Writer}
    (hw : s.procs[p]? = some (.writer w)) (hp : w.phase = .idle) : ∃ s', act s (.wAnnounce p) = some s' := by
  simp only [act, hw, hp]
  exact ⟨_, rfl⟩

theorem can_wAcquire {s : State} {p : Nat} {w : Writer}
    (hw : s.procs[p]? = some (.writer w)) (hp : w.phase = .waiting) (h1 : s.readers w.lock = [])
    (h2 : s.writer w.lock = none) : ∃ s', act s (.wAcquire p) = some s' := by
  simp only [act, hw, hp, h1, h2]
  exact ⟨_, rfl⟩

theorem can_wWrite {s : State} {p : Nat} {w : Writer}
    (hw : s.procs[p]? = some (.writer w)) (hp : w.phase = .holding) : ∃ s', act s (.wWrite p) = some s' := by
  simp only [act, hw, hp]
  exact ⟨_, rfl⟩

theorem can_wRelease {s : State} {p : Nat} {w : Writer}
    (hw : s.procs[p]? = some (.writer w)) (hp : w.phase = .written) : ∃ s', act s (.wRelease p) = some s' := by
  simp only [act, hw, hp]
  exact ⟨_, rfl⟩

/-! ## progress -/

/-- all lock numbers of the writers are below some bound -/
theorem writer_locks_bounded : ∀ (l : List Proc), ∃ M, ∀ x ∈ l, ∀ w, x = Proc.writer w → w.lock < M
  | [] => ⟨0, fun _ h => by cases h⟩
  | x :: rest => by
    obtain ⟨M, hM⟩ := writer_locks_bounded rest
    cases x with
    | reader r =>
      refine ⟨M, fun y hy w hw => ?_⟩
      rcases List.mem_cons.1 hy with rfl | hy
      · cases hw
      · exact hM y hy w hw
    | writer w0 =>
      refine ⟨max M (w0.lock + 1), fun y hy w hw => ?_⟩
      rcases List.mem_cons.1 hy with rfl | hy
      · cases hw
        omega
      · have := hM y hy w hw
        omega

/-- a writer waits for lock `k` -/
def WaitsFor (s : State) (k : Nat) : Prop :=
  ∃ (p : Nat) (w : Writer), s.procs[p]? = some (.writer w) ∧ w.lock = k ∧ w.phase = .waiting

theorem progress {s : State} (hi : Inv s) (ho : Ordered s)
    (hun : ∃ (p : Nat) (x : Proc), s.procs[p]? = some x ∧ x.finished = false) : ∃ s', ProgressStep s s' := by
  apply Classical.byContradiction
  intro hno
  have stuck : ∀ a, a.isProgress = true → ¬ ∃ s', act s a = some s' := fun a hp ⟨s', h⟩ => hno ⟨s', a, hp, h⟩
  -- a writer is waiting or done
  have hwr : ∀ (p : Nat) (w : Writer), s.procs[p]? = some (.writer w) → w.phase = .waiting ∨ w.phase = .done := by
    intro p w hw
    cases hp : w.phase with
    | idle => exact absurd (can_wAnnounce hw hp) (stuck _ rfl)
    | waiting => exact Or.inl rfl
    | holding => exact absurd (can_wWrite hw hp) (stuck _ rfl)
    | written => exact absurd (can_wRelease hw hp) (stuck _ rfl)
    | done => exact Or.inr rfl
  -- no lock is held by a writer
  have hnw : ∀ k, s.writer k = none := by
    intro k
    cases hk : s.writer k with
    | none => rfl
    | some q =>
      obtain ⟨w, hw, _, hph⟩ := (hi.writer_iff q k).1 hk
      rcases hwr q w hw with h | h <;> rcases hph with h' | h' <;> rw [h] at h' <;> cases h'
  -- a reader that is not done wants a lock for which a writer waits
  have hrd : ∀ (p : Nat) (r : Reader), s.procs[p]? = some (.reader r) → r.done = false →
      ∃ k rest, r.want = k :: rest ∧ WaitsFor s k := by
    intro p r hr hd
    cases hw : r.want with
    | nil => exact absurd (can_rRelease hr hw hd) (stuck _ rfl)
    | cons k rest =>
      refine ⟨k, rest, rfl, ?_⟩
      cases hwt : s.waiting k with
      | nil => exact absurd (can_rAcquire hr hw (hnw k) hwt) (stuck _ rfl)
      | cons q qs =>
        have : q ∈ s.waiting k := by rw [hwt]; exact List.mem_cons_self
        obtain ⟨w, h1, h2, h3⟩ := (hi.waiting_iff q k).1 this
        exact ⟨q, w, h1, h2, h3⟩
  -- behind a waiting writer there is a waiting writer for a larger lock
  have chain : ∀ k, WaitsFor s k → ∃ k', k < k' ∧ WaitsFor s k' := by
    intro k ⟨p, w, hw, hl, hp⟩
    cases hrs : s.readers k with
    | nil =>
      subst hl
      exact absurd (can_wAcquire hw hp hrs (hnw _)) (stuck _ rfl)
    | cons q qs =>
      have : q ∈ s.readers k := by rw [hrs]; exact List.mem_cons_self
      obtain ⟨r, hr, hk⟩ := (hi.readers_iff q k).1 this
      have hd : r.done = false := by
        cases hd : r.done with
        | false => rfl
        | true =>
          rw [(hi.done_held q r hr hd).1] at hk
          cases hk
      obtain ⟨k', rest, hw', hwf⟩ := hrd q r hr hd
      exact ⟨k', ho.held_lt q r hr k hk k' (by rw [hw']; exact List.mem_cons_self), hwf⟩
  have far : ∀ n k, WaitsFor s k → ∃ k', k + n ≤ k' ∧ WaitsFor s k' := by
    intro n
    induction n with
    | zero => exact fun k h => ⟨k, Nat.le_refl _, h⟩
    | succ n ih =>
      intro k h
      obtain ⟨k1, h1, hw1⟩ := ih k h
      obtain ⟨k2, h2, hw2⟩ := chain k1 hw1
      exact ⟨k2, by omega, hw2⟩
  -- some writer waits
  have some_waits : ∃ k, WaitsFor s k := by
    obtain ⟨p, x, hx, hf⟩ := hun
    cases x with
    | reader r =>
      obtain ⟨k, _, _, h⟩ := hrd p r hx hf
      exact ⟨k, h⟩
    | writer w =>
      rcases hwr p w hx with h | h
      · exact ⟨w.lock, p, w, hx, rfl, h⟩
      · simp [Proc.finished, h] at hf
  obtain ⟨k, hk⟩ := some_waits
  obtain ⟨M, hM⟩ := writer_locks_bounded s.procs
  obtain ⟨k', hk', p, w, hw, hl, _⟩ := far M k hk
  have := hM _ (List.mem_of_getElem? hw) w rfl
  omega


/-! ## the executable tests -/

theorem lt_of_getElem?_eq_some {l : List Proc} {p : Nat} {x : Proc} (h : l[p]? = some x) : p < l.length := by
  rcases Nat.lt_or_ge p l.length with h' | h'
  · exact h'
  · rw [List.getElem?_eq_none h'] at h
    cases h

theorem canStep_iff (s : State) :
    canStep s = true ↔ ∃ p, p < s.procs.length ∧ ∃ a ∈ candidates s p, enabled s a = true := by
  simp only [canStep, List.any_eq_true, List.mem_range]

theorem step_of_canStep {s : State} (h : canStep s = true) : ∃ s', Step s s' := by
  obtain ⟨p, _, a, _, ha⟩ := (canStep_iff s).1 h
  unfold enabled at ha
  obtain ⟨s', hs'⟩ := Option.isSome_iff_exists.1 ha
  exact ⟨s', a, hs'⟩

theorem canStep_of_step {s s' : State} (h : Step s s') : canStep s = true := by
  obtain ⟨a, ha⟩ := h
  have hen : enabled s a = true := by
    unfold enabled
    rw [ha]
    rfl
  rw [canStep_iff]
  cases a with
  | rAcquire p =>
    obtain ⟨r, k, rest, hr, _⟩ := act_rAcquire ha
    exact ⟨p, lt_of_getElem?_eq_some hr, _, by simp [candidates, progressCandidates], hen⟩
  | rRead p k =>
    obtain ⟨r, hr, hk, _⟩ := act_rRead ha
    refine ⟨p, lt_of_getElem?_eq_some hr, _, ?_, hen⟩
    simp only [candidates, hr, List.mem_append, List.mem_map]
    exact Or.inr ⟨k, hk, rfl⟩
  | rRelease p =>
    obtain ⟨r, hr, _⟩ := act_rRelease ha
    exact ⟨p, lt_of_getElem?_eq_some hr, _, by simp [candidates, progressCandidates], hen⟩
  | wAnnounce p =>
    obtain ⟨w, hw, _⟩ := act_wAnnounce ha
    exact ⟨p, lt_of_getElem?_eq_some hw, _, by simp [candidates, progressCandidates], hen⟩
  | wAcquire p =>
    obtain ⟨w, hw, _⟩ := act_wAcquire ha
    exact ⟨p, lt_of_getElem?_eq_some hw, _, by simp [candidates, progressCandidates], hen⟩
  | wWrite p =>
    obtain ⟨w, hw, _⟩ := act_wWrite ha
    exact ⟨p, lt_of_getElem?_eq_some hw, _, by simp [candidates, progressCandidates], hen⟩
  | wRelease p =>
    obtain ⟨w, hw, _⟩ := act_wRelease ha
    exact ⟨p, lt_of_getElem?_eq_some hw, _, by simp [candidates, progressCandidates], hen⟩

theorem reach_exec {s0 : State} : ∀ (as : List Action) {s s' : State}, Reach s0 s → exec s as = some s' → Reach s0 s'
  | [], s, s', h, he => by
    simp only [exec, Option.some.injEq] at he
    exact he ▸ h
  | a :: as, s, s', h, he => by
    simp only [exec] at he
    cases ha : act s a with
    | none => rw [ha] at he; cases he
    | some s1 =>
      rw [ha] at he
      exact reach_exec as (Reach.step h ⟨a, ha⟩) he

theorem initial_initState (procs : List Proc) (version : Nat → Nat) (h : procs.all Proc.fresh = true) :
    Initial (initState procs version) :=
  ⟨fun x hx => List.all_eq_true.1 h x hx, fun _ => rfl, fun _ => rfl, fun _ => rfl⟩

theorem exists_unfinished_of_not_allFinished {s : State} (h : allFinished s = false) :
    ∃ (p : Nat) (x : Proc), s.procs[p]? = some x ∧ x.finished = false := by
  unfold allFinished at h
  have : ¬ ∀ x ∈ s.procs, Proc.finished x = true := fun hall => by
    rw [List.all_eq_true.2 hall] at h
    cases h
  apply Classical.byContradiction
  intro hno
  apply this
  intro x hx
  obtain ⟨p, hp⟩ := List.getElem?_of_mem hx
  cases hf : x.finished with
  | true => rfl
  | false => exact absurd ⟨p, x, hp, hf⟩ hno


theorem progressStep_step {s s' : State} (h : ProgressStep s s') : Step s s' := by
  obtain ⟨a, _, ha⟩ := h
  exact ⟨a, ha⟩

theorem canProgress_iff (s : State) :
    canProgress s = true ↔ ∃ p, p < s.procs.length ∧ ∃ a ∈ progressCandidates p, enabled s a = true := by
  simp only [canProgress, List.any_eq_true, List.mem_range]

theorem progressStep_of_canProgress {s : State} (h : canProgress s = true) : ∃ s', ProgressStep s s' := by
  obtain ⟨p, _, a, hm, ha⟩ := (canProgress_iff s).1 h
  unfold enabled at ha
  obtain ⟨s', hs'⟩ := Option.isSome_iff_exists.1 ha
  refine ⟨s', a, ?_, hs'⟩
  simp only [progressCandidates, List.mem_cons, List.not_mem_nil, or_false] at hm
  rcases hm with rfl | rfl | rfl | rfl | rfl | rfl <;> rfl

theorem canProgress_of_progressStep {s s' : State} (h : ProgressStep s s') : canProgress s = true := by
  obtain ⟨a, hp, ha⟩ := h
  have hen : enabled s a = true := by
    unfold enabled
    rw [ha]
    rfl
  rw [canProgress_iff]
  cases a with
  | rAcquire p =>
    obtain ⟨r, k, rest, hr, _⟩ := act_rAcquire ha
    exact ⟨p, lt_of_getElem?_eq_some hr, _, by simp [progressCandidates], hen⟩
  | rRead p k => cases hp
  | rRelease p =>
    obtain ⟨r, hr, _⟩ := act_rRelease ha
    exact ⟨p, lt_of_getElem?_eq_some hr, _, by simp [progressCandidates], hen⟩
  | wAnnounce p =>
    obtain ⟨w, hw, _⟩ := act_wAnnounce ha
    exact ⟨p, lt_of_getElem?_eq_some hw, _, by simp [progressCandidates], hen⟩
  | wAcquire p =>
    obtain ⟨w, hw, _⟩ := act_wAcquire ha
    exact ⟨p, lt_of_getElem?_eq_some hw, _, by simp [progressCandidates], hen⟩
  | wWrite p =>
    obtain ⟨w, hw, _⟩ := act_wWrite ha
    exact ⟨p, lt_of_getElem?_eq_some hw, _, by simp [progressCandidates], hen⟩
  | wRelease p =>
    obtain ⟨w, hw, _⟩ := act_wRelease ha
    exact ⟨p, lt_of_getElem?_eq_some hw, _, by simp [progressCandidates], hen⟩

theorem sortedWants_of_B {s : State} (h : sortedWantsB s = true) : SortedWants s := by
  intro x hx r hr
  have := List.all_eq_true.1 h x hx
  subst hr
  simpa using this

/-! ## the remaining work -/

theorem sum_map_set {f : Proc → Nat} {old : Proc} (x : Proc) :
    ∀ {l : List Proc} {p : Nat}, l[p]? = some old → ((l.set p x).map f).sum + f old = (l.map f).sum + f x
  | [], p, h => by cases h
  | y :: ys, 0, h => by
    simp only [List.getElem?_cons_zero, Option.some.injEq] at h
    subst h
    simp only [List.set_cons_zero, List.map_cons, List.sum_cons]
    omega
  | y :: ys, p + 1, h => by
    simp only [List.getElem?_cons_succ] at h
    have := sum_map_set (f := f) x h
    simp only [List.set_cons_succ, List.map_cons, List.sum_cons]
    omega

/-- an action other than a read takes one unit off the remaining work; a read leaves it unchanged -/
theorem work_act {s s' : State} (hi : Inv s) {a : Action} (h : act s a = some s') :
    work s' + (if a.isProgress then 1 else 0) = work s := by
  unfold work
  cases a with
  | rAcquire p =>
    obtain ⟨r, k, rest, hr, hw, _, _, rfl⟩ := act_rAcquire h
    have := sum_map_set (f := Proc.work)
      (.reader { r with want := rest, held := k :: r.held, atAcquire := (k, s.version k) :: r.atAcquire }) hr
    have hd : r.done = false := by
      cases hd : r.done with
      | false => rfl
      | true =>
        rw [(hi.done_held p r hr hd).2] at hw
        cases hw
    have e1 : Proc.work
        (.reader { r with want := rest, held := k :: r.held, atAcquire := (k, s.version k) :: r.atAcquire }) =
        rest.length + 1 := by
      simp [Proc.work, hd]
    have e2 : Proc.work (.reader r) = rest.length + 2 := by
      simp [Proc.work, hd, hw]
    rw [e1, e2] at this
    simp only [Action.isProgress, if_true]
    omega
  | rRead p k =>
    obtain ⟨r, hr, _, rfl⟩ := act_rRead h
    have := sum_map_set (f := Proc.work) (.reader { r with seen := (k, s.version k) :: r.seen }) hr
    simp only [Proc.work] at this
    simp only [Action.isProgress, Bool.false_eq_true, if_false]
    omega
  | rRelease p =>
    obtain ⟨r, hr, hw, hd, rfl⟩ := act_rRelease h
    have := sum_map_set (f := Proc.work) (.reader { r with held := [], done := true }) hr
    have e1 : Proc.work (.reader { r with held := [], done := true }) = 0 := by
      simp [Proc.work]
    have e2 : Proc.work (.reader r) = 1 := by
      simp [Proc.work, hd, hw]
    rw [e1, e2] at this
    simp only [Action.isProgress, if_true]
    omega
  | wAnnounce p =>
    obtain ⟨w, hw, hp, rfl⟩ := act_wAnnounce h
    have := sum_map_set (f := Proc.work) (.writer { w with phase := .waiting }) hw
    simp only [Proc.work, hp] at this
    simp only [Action.isProgress, if_true]
    omega
  | wAcquire p =>
    obtain ⟨w, hw, hp, _, _, rfl⟩ := act_wAcquire h
    have := sum_map_set (f := Proc.work) (.writer { w with phase := .holding }) hw
    simp only [Proc.work, hp] at this
    simp only [Action.isProgress, if_true]
    omega
  | wWrite p =>
    obtain ⟨w, hw, hp, rfl⟩ := act_wWrite h
    have := sum_map_set (f := Proc.work) (.writer { w with phase := .written }) hw
    simp only [Proc.work, hp] at this
    simp only [Action.isProgress, if_true]
    omega
  | wRelease p =>
    obtain ⟨w, hw, hp, rfl⟩ := act_wRelease h
    have := sum_map_set (f := Proc.work) (.writer { w with phase := .done }) hw
    simp only [Proc.work, hp] at this
    simp only [Action.isProgress, if_true]
    omega


theorem inv_exec : ∀ (as : List Action) {s s' : State}, Inv s → exec s as = some s' → Inv s'
  | [], s, s', h, he => by
    simp only [exec, Option.some.injEq] at he
    exact he ▸ h
  | a :: as, s, s', h, he => by
    simp only [exec] at he
    cases ha : act s a with
    | none => rw [ha] at he; cases he
    | some s1 =>
      rw [ha] at he
      exact inv_exec as (inv_step h ⟨a, ha⟩) he

/-- along an execution the actions other than reads are paid for by the remaining work -/
theorem exec_work : ∀ (as : List Action) {s s' : State}, Inv s → exec s as = some s' →
    (as.filter Action.isProgress).length + work s' = work s
  | [], s, s', _, he => by
    simp only [exec, Option.some.injEq] at he
    subst he
    simp
  | a :: as, s, s', h, he => by
    simp only [exec] at he
    cases ha : act s a with
    | none => rw [ha] at he; cases he
    | some s1 =>
      rw [ha] at he
      have h1 := exec_work as (inv_step h ⟨a, ha⟩) he
      have h2 := work_act h ha
      cases hp : a.isProgress with
      | true =>
        rw [hp] at h2
        simp only [List.filter_cons, hp, if_true, List.length_cons]
        simp only [if_true] at h2
        omega
      | false =>
        rw [hp] at h2
        simp only [List.filter_cons, hp, Bool.false_eq_true, if_false]
        simp only [Bool.false_eq_true, if_false] at h2
        omega

theorem procWork_eq_zero_iff (x : Proc) : x.work = 0 ↔ x.finished = true := by
  cases x with
  | reader r =>
    cases hd : r.done <;> simp [Proc.work, Proc.finished, hd]
  | writer w =>
    cases hp : w.phase <;> simp [Proc.work, Proc.finished, hp]

theorem sum_eq_zero_iff : ∀ (l : List Nat), l.sum = 0 ↔ ∀ x ∈ l, x = 0
  | [] => by simp
  | a :: rest => by
    have := sum_eq_zero_iff rest
    simp only [List.sum_cons, List.mem_cons, forall_eq_or_imp]
    constructor
    · intro h
      exact ⟨by omega, this.1 (by omega)⟩
    · intro h
      have := this.2 h.2
      omega

/-- no work is left exactly when all processes have finished -/
theorem work_eq_zero_iff (s : State) : work s = 0 ↔ allFinished s = true := by
  unfold work allFinished
  rw [sum_eq_zero_iff, List.all_eq_true]
  constructor
  · intro h x hx
    exact (procWork_eq_zero_iff x).1 (h _ (List.mem_map_of_mem hx))
  · intro h n hn
    obtain ⟨x, hx, rfl⟩ := List.mem_map.1 hn
    exact (procWork_eq_zero_iff x).2 (h x hx)

end Lmd.LockProto
