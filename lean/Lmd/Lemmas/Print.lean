/-
  Lmd.Lemmas.Print — the token view of header lines for C17: the tokens `Filter.print` emits
  (`emit`), the stack machine of the header-line parser on tokens (`run`), and the lemmas that tie
  both to the model (`Filter.print`, `groupOp`, `negateTop`).
-/
import Lmd.Print
import Lmd.Stats
import Std.Data.String.ToNat

namespace Lmd.C17
open Lmd

/-! ## tokens -/

/-- one header line of the filter language, with the leaf line kept abstract -/
inductive Tok
  | leaf (l : Leaf)                 -- `Filter: <column> <op> <value>`
  | grp (isAnd : Bool) (n : Nat)    -- `And: n` / `Or: n`
  | neg                             -- `Negate:`
  deriving Inhabited

def Tok.isNeg : Tok → Bool
  | .neg => true
  | _ => false

mutual
  /-- the header lines of a filter tree in the order `Filter.print` writes them: members first,
      then the group line, then one `Negate:` if the node carries the mark -/
  def emit : Filter → List Tok
    | .leaf l n => Tok.leaf l :: (if n then [Tok.neg] else [])
    | .grp a fs n => emitList fs ++ Tok.grp a fs.length :: (if n then [Tok.neg] else [])
  def emitList : List Filter → List Tok
    | [] => []
    | f :: fs => emit f ++ emitList fs
end

theorem emitList_eq_flatMap (fs : List Filter) : emitList fs = fs.flatMap emit := by
  induction fs with
  | nil => simp [emitList]
  | cons f fs ih => simp [emitList, ih]

theorem emitList_append (as bs : List Filter) : emitList (as ++ bs) = emitList as ++ emitList bs := by
  simp [emitList_eq_flatMap]

/-- the text of one token; `stats = true` gives the Stats flavour of the keywords -/
def Tok.line (stats : Bool) : Tok → String
  | .leaf l => l.printLine (if stats then "Stats" else "Filter")
  | .grp a n => (if stats then "Stats" else "") ++ (if a then "And" else "Or") ++ ": " ++ toString n ++ "\n"
  | .neg => if stats then "StatsNegate:\n" else "Negate:\n"

/-- the text of a token list: the lines one after the other -/
def lines (stats : Bool) (ts : List Tok) : String := String.join (ts.map (Tok.line stats))

theorem lines_nil (stats : Bool) : lines stats [] = "" := by simp [lines]

theorem lines_append (stats : Bool) (a b : List Tok) : lines stats (a ++ b) = lines stats a ++ lines stats b := by
  simp [lines, String.join_append]

theorem lines_cons (stats : Bool) (t : Tok) (ts : List Tok) :
    lines stats (t :: ts) = Tok.line stats t ++ lines stats ts := by
  simp [lines, String.join_cons]

/-! ## well-formed trees -/

mutual
  /-- every group has at least one member (the parser cannot build an empty group: `And: 0` is ignored) -/
  def WellFormed : Filter → Prop
    | .leaf _ _ => True
    | .grp _ fs _ => fs ≠ [] ∧ WellFormedList fs
  def WellFormedList : List Filter → Prop
    | [] => True
    | f :: fs => WellFormed f ∧ WellFormedList fs
end

theorem wellFormedList_iff (fs : List Filter) : WellFormedList fs ↔ ∀ f ∈ fs, WellFormed f := by
  induction fs with
  | nil => simp [WellFormedList]
  | cons f fs ih => simp [WellFormedList, ih]

/-! ## the stack machine -/

/-- one header line applied to the filter stack (bottom first), as `parseHeaderLine` does for
    `Filter:`, `And:`/`Or:` and `Negate:` -/
def step (q : Quirks) (st : List Filter) : Tok → Option (List Filter)
  | .leaf l => some (st ++ [.leaf l false])
  | .grp a n =>
    if n = 0 then some st
    else if st.length < n then none
    else some (st.take (st.length - n) ++ [.grp a (st.drop (st.length - n)) false])
  | .neg => if st.isEmpty then none else some (mapLast (Filter.setNeg q) st)

def run (q : Quirks) : List Tok → List Filter → Option (List Filter)
  | [], st => some st
  | t :: ts, st =>
    match step q st t with
    | some st' => run q ts st'
    | none => none

theorem run_append (q : Quirks) (a b : List Tok) (st : List Filter) :
    run q (a ++ b) st = (run q a st).bind (run q b) := by
  induction a generalizing st with
  | nil => simp [run]
  | cons t ts ih =>
    simp only [List.cons_append, run]
    cases step q st t with
    | none => simp
    | some st' => simp [ih]

theorem mapLast_append_singleton {α} (f : α → α) (st : List α) (x : α) :
    mapLast f (st ++ [x]) = st ++ [f x] := by
  induction st with
  | nil => simp [mapLast]
  | cons a st ih =>
    cases st with
    | nil => simp [mapLast]
    | cons b st => simp only [List.cons_append, mapLast] at ih ⊢; rw [ih]

theorem step_leaf (q : Quirks) (st : List Filter) (l : Leaf) :
    step q st (.leaf l) = some (st ++ [.leaf l false]) := rfl

theorem step_grp_full (q : Quirks) (st fs : List Filter) (a : Bool) (h : fs ≠ []) :
    step q (st ++ fs) (.grp a fs.length) = some (st ++ [.grp a fs false]) := by
  have hl : fs.length ≠ 0 := by simpa using h
  simp [step, hl]

theorem step_neg_top (q : Quirks) (st : List Filter) (f : Filter) :
    step q (st ++ [f]) .neg = some (st ++ [f.setNeg q]) := by
  simp [step, mapLast_append_singleton]

/-! ## the model's stack operations are these steps -/

theorem digits_foldl (ds : List Char) (init : Nat) :
    ds.foldl (fun a c => a * 10 + (c.toNat - 48)) init = Nat.ofDigitChars 10 ds init := by
  induction ds generalizing init with
  | nil => simp
  | cons c cs ih =>
    simp only [List.foldl_cons, Nat.ofDigitChars_cons, ih]
    have : ('0' : Char).toNat = 48 := rfl
    rw [this, Nat.mul_comm]

theorem isDigit_eq (c : Char) : isDigit c = c.isDigit := by
  simp [isDigit, Char.isDigit, Char.le_def]

/-- `strconv.Atoi` reads back what `%d` printed -/
theorem atoi_toString (n : Nat) : atoi? (toString n) = some (n : Int) := by
  have hd : ∀ c ∈ Nat.toDigits 10 n, isDigit c = true := fun c hc => by
    rw [isDigit_eq]; exact Nat.isDigit_of_mem_toDigits (by omega) (by omega) hc
  unfold atoi?
  have e : (toString n).toList = Nat.toDigits 10 n := by simp
  rw [e]
  cases h : Nat.toDigits 10 n with
  | nil => exact absurd h Nat.toDigits_ne_nil
  | cons c cs =>
    have hc : isDigit c = true := hd c (by rw [h]; exact List.mem_cons_self)
    have h1 : c ≠ '-' := by intro e; rw [e] at hc; exact absurd hc (by decide)
    have h2 : c ≠ '+' := by intro e; rw [e] at hc; exact absurd hc (by decide)
    have hall : (c :: cs).all isDigit = true := by
      rw [List.all_eq_true]; intro x hx; exact hd x (by rw [h]; exact hx)
    have hval : (c :: cs).foldl (fun a c => a * 10 + (c.toNat - 48)) 0 = n := by
      rw [digits_foldl, ← h]; exact Nat.ofDigitChars_ten_toDigits
    dsimp only
    split
    · rename_i heq; simp at heq; exact absurd heq.1 h1
    · rename_i heq; simp at heq; exact absurd heq.1 h2
    · simp only [hall, hval]
      simp

/-- `parseFilterGroupOp` on a line whose argument reads as the number `n` is the `grp` step -/
theorem groupOp_eq_step (q : Quirks) (a : Bool) (v : String) (n : Nat) (st : List Filter)
    (h : atoi? v = some (n : Int)) : (groupOp a v st).toOption = step q st (.grp a n) := by
  unfold groupOp step
  rw [h]
  by_cases h0 : n = 0
  · subst h0; simp [Except.toOption, pure, Except.pure]
  · have h1 : ¬ ((n : Int) < 0) := by omega
    have h2 : ((n : Int) == 0) = false := by simp; omega
    by_cases h3 : st.length < n
    · simp [h0, h1, h2, h3, Except.toOption, throw, throwThe, MonadExceptOf.throw]
    · simp [h0, h1, h2, h3, Except.toOption, pure, Except.pure]

/-- `ParseFilterNegate` is the `neg` step -/
theorem negateTop_eq_step (q : Quirks) (st : List Filter) :
    (negateTop q st).toOption = step q st .neg := by
  unfold negateTop step
  cases st <;> simp [Except.toOption, pure, Except.pure, throw, throwThe, MonadExceptOf.throw]

/-! ## the round trip -/

mutual
  theorem run_emit (q : Quirks) (hq : q.negOr = false) :
      ∀ (f : Filter), WellFormed f → ∀ st : List Filter, run q (emit f) st = some (st ++ [f])
    | .leaf l n, _, st => by
      cases n
      · simp [emit, run, step]
      · simp [emit, run, step, mapLast_append_singleton, Filter.setNeg, hq]
    | .grp a fs n, wf, st => by
      obtain ⟨hne, wfs⟩ := wf
      rw [emit, run_append, run_emitList q hq fs wfs st]
      cases n
      · simp [run, step_grp_full q st fs a hne]
      · simp [run, step_grp_full q st fs a hne, step_neg_top, Filter.setNeg, hq]
  theorem run_emitList (q : Quirks) (hq : q.negOr = false) :
      ∀ (fs : List Filter), WellFormedList fs → ∀ st : List Filter, run q (emitList fs) st = some (st ++ fs)
    | [], _, st => by simp [emitList, run]
    | f :: fs, wf, st => by
      obtain ⟨wf1, wf2⟩ := wf
      rw [emitList, run_append, run_emit q hq f wf1 st]
      simp [run_emitList q hq fs wf2]
end

/-! ## printing -/

mutual
  theorem print_emit (stats : Bool) :
      ∀ (f : Filter), WellFormed f → Filter.print stats f = lines stats (emit f)
    | .leaf l n, _ => by
      cases n <;> simp [Filter.print, emit, lines, Tok.line, String.join_cons]
    | .grp a fs n, wf => by
      obtain ⟨hne, wfs⟩ := wf
      have ih := printList_emit stats fs wfs
      cases fs with
      | nil => exact absurd rfl hne
      | cons f fs =>
        have hp : Filter.print stats (.grp a (f :: fs) n) =
            Filter.printList stats (f :: fs) ++ (if stats then "Stats" else "") ++ (if a then "And" else "Or")
              ++ ": " ++ toString (f :: fs).length ++ "\n"
              ++ (if n then (if stats then "StatsNegate:\n" else "Negate:\n") else "") := by
          rw [Filter.print]; simp
        rw [hp, ih, emit, lines_append, lines_cons]
        cases n <;> simp [Tok.line, lines, String.append_assoc]
  theorem printList_emit (stats : Bool) :
      ∀ (fs : List Filter), WellFormedList fs → Filter.printList stats fs = lines stats (emitList fs)
    | [], _ => by simp [Filter.printList, emitList, lines]
    | f :: fs, wf => by
      obtain ⟨wf1, wf2⟩ := wf
      rw [Filter.printList, emitList, lines_append, print_emit stats f wf1, printList_emit stats fs wf2]
end

/-! ## negation marks -/

mutual
  /-- number of nodes of a tree -/
  def nodeCount : Filter → Nat
    | .leaf _ _ => 1
    | .grp _ fs _ => nodeCountList fs + 1
  def nodeCountList : List Filter → Nat
    | [] => 0
    | f :: fs => nodeCount f + nodeCountList fs
end

mutual
  /-- number of nodes that carry the `Negate:` mark -/
  def negCount : Filter → Nat
    | .leaf _ n => if n then 1 else 0
    | .grp _ fs n => negCountList fs + (if n then 1 else 0)
  def negCountList : List Filter → Nat
    | [] => 0
    | f :: fs => negCount f + negCountList fs
end

mutual
  theorem negCount_le : ∀ f : Filter, negCount f ≤ nodeCount f
    | .leaf _ n => by cases n <;> simp [negCount, nodeCount]
    | .grp _ fs n => by
      have := negCountList_le fs
      cases n <;> simp [negCount, nodeCount] <;> omega
  theorem negCountList_le : ∀ fs : List Filter, negCountList fs ≤ nodeCountList fs
    | [] => by simp [negCountList, nodeCountList]
    | f :: fs => by
      have := negCount_le f
      have := negCountList_le fs
      simp [negCountList, nodeCountList]; omega
end

mutual
  theorem countP_emit : ∀ f : Filter, (emit f).countP Tok.isNeg = negCount f
    | .leaf _ n => by cases n <;> simp [emit, negCount, Tok.isNeg]
    | .grp _ fs n => by
      have := countP_emitList fs
      cases n <;> simp [emit, negCount, Tok.isNeg, List.countP_cons, this]
  theorem countP_emitList : ∀ fs : List Filter, (emitList fs).countP Tok.isNeg = negCountList fs
    | [] => by simp [emitList, negCountList]
    | f :: fs => by
      simp [emitList, negCountList, countP_emit f, countP_emitList fs]
end

/-- no two `Negate:` lines directly after each other -/
def noNegNeg : List Tok → Bool
  | .neg :: .neg :: _ => false
  | _ :: rest => noNegNeg rest
  | [] => true

/-- the token list is empty or starts with a token that is not `Negate:` -/
def headNotNeg : List Tok → Bool
  | .neg :: _ => false
  | _ => true

theorem noNegNeg_append (a b : List Tok) (ha : noNegNeg a = true) (hb : noNegNeg b = true)
    (hh : headNotNeg b = true) : noNegNeg (a ++ b) = true := by
  induction a with
  | nil => simpa using hb
  | cons t ts ih =>
    cases ts with
    | nil =>
      cases b with
      | nil => simpa using ha
      | cons u us =>
        cases u with
        | neg => simp [headNotNeg] at hh
        | leaf l => cases t <;> simpa [noNegNeg] using hb
        | grp x y => cases t <;> simpa [noNegNeg] using hb
    | cons t2 ts2 =>
      cases t with
      | neg =>
        cases t2 with
        | neg => simp [noNegNeg] at ha
        | leaf l => simp only [List.cons_append, noNegNeg] at ha ih ⊢; exact ih ha
        | grp x y => simp only [List.cons_append, noNegNeg] at ha ih ⊢; exact ih ha
      | leaf l => simp only [List.cons_append, noNegNeg] at ha ih ⊢; exact ih ha
      | grp x y => simp only [List.cons_append, noNegNeg] at ha ih ⊢; exact ih ha

theorem headNotNeg_append (a b : List Tok) (ha : headNotNeg a = true) (hb : headNotNeg b = true) :
    headNotNeg (a ++ b) = true := by
  cases a with
  | nil => simpa using hb
  | cons t ts => cases t <;> simp_all [headNotNeg]

mutual
  theorem emit_shape : ∀ f : Filter, noNegNeg (emit f) = true ∧ headNotNeg (emit f) = true
    | .leaf _ n => by cases n <;> simp [emit, noNegNeg, headNotNeg]
    | .grp a fs n => by
      obtain ⟨h1, h2⟩ := emitList_shape fs
      rw [emit]
      constructor
      · apply noNegNeg_append _ _ h1
        · cases n <;> simp [noNegNeg]
        · simp [headNotNeg]
      · apply headNotNeg_append _ _ h2; simp [headNotNeg]
  theorem emitList_shape : ∀ fs : List Filter, noNegNeg (emitList fs) = true ∧ headNotNeg (emitList fs) = true
    | [] => by simp [emitList, noNegNeg, headNotNeg]
    | f :: fs => by
      obtain ⟨h1, h2⟩ := emit_shape f
      obtain ⟨h3, h4⟩ := emitList_shape fs
      rw [emitList]
      exact ⟨noNegNeg_append _ _ h1 h3 h4, headNotNeg_append _ _ h2 h4⟩
end

/-! ## header lines -/

theorem trimLeft_digits (n : Nat) : trimLeftSpaces (" " ++ toString n) = toString n := by
  have e : (" " ++ toString n).toList = ' ' :: Nat.toDigits 10 n := by simp
  unfold trimLeftSpaces
  rw [e]
  cases h : Nat.toDigits 10 n with
  | nil => exact absurd h Nat.toDigits_ne_nil
  | cons c cs =>
    have hc : c.isDigit = true :=
      Nat.isDigit_of_mem_toDigits (b := 10) (n := n) (by omega) (by omega) (by rw [h]; exact List.mem_cons_self)
    have : c ≠ ' ' := by intro e; rw [e] at hc; exact absurd hc (by decide)
    rw [Nat.toString_eq_ofList_toDigits, h]
    simp [dropWhileL, this]

theorem cut_and (s : String) : cut ':' ("And: " ++ s) = ("And", some (" " ++ s)) := by
  have e : ("And: " ++ s).toList = 'A' :: 'n' :: 'd' :: ':' :: ' ' :: s.toList := by simp
  unfold cut
  rw [e]
  simp [cutL]

theorem cut_or (s : String) : cut ':' ("Or: " ++ s) = ("Or", some (" " ++ s)) := by
  have e : ("Or: " ++ s).toList = 'O' :: 'r' :: ':' :: ' ' :: s.toList := by simp
  unfold cut
  rw [e]
  simp [cutL]

theorem cut_filter (s : String) : cut ':' ("Filter: " ++ s) = ("Filter", some (" " ++ s)) := by
  have e : ("Filter: " ++ s).toList = 'F' :: 'i' :: 'l' :: 't' :: 'e' :: 'r' :: ':' :: ' ' :: s.toList := by simp
  unfold cut
  rw [e]
  simp [cutL]

/-- the line `And: n` is `parseFilterGroupOp` with the number `n` on the filter stack -/
theorem headerLine_and (o : ParseOpts) (t : Table) (req : Request) (n : Nat) :
    parseHeaderLine o t req ("And: " ++ toString n)
      = (groupOp true (toString n) req.filter).map (fun f => { req with filter := f }) := by
  unfold parseHeaderLine
  rw [cut_and]
  have : goLower "And" = "and" := by decide
  simp only [this, trimLeft_digits]
  cases groupOp true (toString n) req.filter <;> rfl

theorem headerLine_or (o : ParseOpts) (t : Table) (req : Request) (n : Nat) :
    parseHeaderLine o t req ("Or: " ++ toString n)
      = (groupOp false (toString n) req.filter).map (fun f => { req with filter := f }) := by
  unfold parseHeaderLine
  rw [cut_or]
  have : goLower "Or" = "or" := by decide
  simp only [this, trimLeft_digits]
  cases groupOp false (toString n) req.filter <;> rfl

theorem headerLine_negate (o : ParseOpts) (t : Table) (req : Request) :
    parseHeaderLine o t req "Negate:"
      = (negateTop o.q req.filter).map (fun f => { req with filter := f }) := by
  unfold parseHeaderLine
  have c : cut ':' "Negate:" = ("Negate", some "") := by decide
  rw [c]
  have : goLower "Negate" = "negate" := by decide
  simp only [this]
  cases negateTop o.q req.filter <;> rfl

theorem headerLine_filter (o : ParseOpts) (t : Table) (req : Request) (v : String) :
    parseHeaderLine o t req ("Filter: " ++ v)
      = (parseFilterLeaf o t (trimLeftSpaces (" " ++ v))).map
          (fun l => { req with filter := req.filter ++ [.leaf l false], numFilter := req.numFilter + 1 }) := by
  unfold parseHeaderLine
  rw [cut_filter]
  have : goLower "Filter" = "filter" := by decide
  simp only [this]
  cases parseFilterLeaf o t (trimLeftSpaces (" " ++ v)) <;> rfl

theorem toOption_map {ε α β} (f : α → β) (x : Except ε α) : (x.map f).toOption = x.toOption.map f := by
  cases x <;> rfl

/-! ## whole lines through `parseHeaderLines` -/

theorem dropWhileL_head {p : Char → Bool} {c : Char} {cs : List Char} (h : p c = false) :
    dropWhileL p (c :: cs) = c :: cs := by simp [dropWhileL, h]

theorem trimSpace_id (a b : Char) (mid : List Char) (ha : isGoSpace a = false) (hb : isGoSpace b = false) :
    trimSpace (String.ofList (a :: (mid ++ [b]))) = String.ofList (a :: (mid ++ [b])) := by
  unfold trimSpace
  rw [String.toList_ofList, dropWhileL_head ha]
  have : (a :: (mid ++ [b])).reverse = b :: (mid.reverse ++ [a]) := by simp
  rw [this, dropWhileL_head hb, ← this, List.reverse_reverse]

theorem digit_not_space {c : Char} (h : c.isDigit = true) : isGoSpace c = false := by
  simp only [Char.isDigit, Bool.and_eq_true, decide_eq_true_eq] at h
  obtain ⟨h1, h2⟩ := h
  rw [ge_iff_le, UInt32.le_iff_toNat_le] at h1
  rw [UInt32.le_iff_toNat_le] at h2
  have e0 : ('0' : Char).val.toNat = 48 := rfl
  have e9 : ('9' : Char).val.toNat = 57 := rfl
  have hn : c.toNat = c.val.toNat := rfl
  have ne : ∀ d : Char, d.toNat < 48 → (c == d) = false := by
    intro d hd
    simp only [beq_eq_false_iff_ne, ne_eq]
    intro e; subst e; omega
  simp [isGoSpace, ne]
  omega

/-- the printed group line survives `strings.TrimSpace` -/
theorem trimSpace_grp_line (kw : String) (k : Char) (ks : List Char) (hk : kw.toList = k :: ks)
    (hks : isGoSpace k = false) (n : Nat) :
    trimSpace (kw ++ toString n) = kw ++ toString n := by
  have hd := Nat.toDigits_ne_nil (b := 10) (n := n)
  obtain ⟨init, last, e⟩ : ∃ init last, Nat.toDigits 10 n = init ++ [last] := by
    rcases List.eq_nil_or_concat (Nat.toDigits 10 n) with h | ⟨i, l, h⟩
    · exact absurd h hd
    · exact ⟨i, l, by simpa using h⟩
  have hl : last.isDigit = true :=
    Nat.isDigit_of_mem_toDigits (b := 10) (n := n) (by omega) (by omega) (by rw [e]; simp)
  have es : kw ++ toString n = String.ofList (k :: ((ks ++ init) ++ [last])) := by
    apply String.toList_injective
    simp [hk, e]
  rw [es]
  exact trimSpace_id k last _ hks (digit_not_space hl)

/-- `line` is a header line that `parseHeaderLines` hands unchanged to `parseHeaderLine`, where it acts
    on the filter stack as the token `tok` -/
def LineOf (o : ParseOpts) (t : Table) (line : String) (tok : Tok) : Prop :=
  trimSpace line = line ∧ line ≠ "" ∧
    ∀ req : Request, (parseHeaderLine o t req line).toOption.map (·.filter) = step o.q req.filter tok

theorem parseHeaderLines_run (o : ParseOpts) (t : Table) (hdr : Tok → String) (ts : List Tok)
    (h : ∀ tok ∈ ts, LineOf o t (hdr tok) tok) (req : Request) :
    (parseHeaderLines o t req (ts.map hdr)).toOption.map (·.filter) = run o.q ts req.filter := by
  induction ts generalizing req with
  | nil => simp [parseHeaderLines, run, pure, Except.pure, Except.toOption]
  | cons tok ts ih =>
    obtain ⟨h1, h2, h3⟩ := h tok List.mem_cons_self
    have hne : (hdr tok == "") = false := by simpa using h2
    rw [List.map_cons, parseHeaderLines]
    simp only [h1, hne, Bool.false_eq_true, if_false, run]
    have := h3 req
    cases hp : parseHeaderLine o t req (hdr tok) with
    | error e =>
      rw [hp] at this
      have hs : step o.q req.filter tok = none := by simpa [Except.toOption] using this.symm
      rw [hs]; rfl
    | ok r =>
      rw [hp] at this
      have hs : step o.q req.filter tok = some r.filter := by simpa [Except.toOption] using this.symm
      rw [hs]
      exact ih (fun x hx => h x (List.mem_cons_of_mem _ hx)) r

theorem lineOf_grp (o : ParseOpts) (t : Table) (a : Bool) (n : Nat) :
    LineOf o t ((if a then "And: " else "Or: ") ++ toString n) (.grp a n) := by
  refine ⟨?_, ?_, ?_⟩
  · cases a
    · exact trimSpace_grp_line "Or: " 'O' _ rfl (by decide) n
    · exact trimSpace_grp_line "And: " 'A' _ rfl (by decide) n
  · intro h
    have := congrArg String.length h
    cases a <;> simp at this
  · intro req
    cases a
    · simp only [Bool.false_eq_true, if_false, headerLine_or, toOption_map,
        groupOp_eq_step o.q false (toString n) n req.filter (atoi_toString n), Option.map_map]
      cases step o.q req.filter (.grp false n) <;> rfl
    · simp only [if_true, headerLine_and, toOption_map,
        groupOp_eq_step o.q true (toString n) n req.filter (atoi_toString n), Option.map_map]
      cases step o.q req.filter (.grp true n) <;> rfl

theorem lineOf_neg (o : ParseOpts) (t : Table) : LineOf o t "Negate:" .neg := by
  refine ⟨by decide, by decide, ?_⟩
  intro req
  rw [headerLine_negate, toOption_map, negateTop_eq_step, Option.map_map]
  cases step o.q req.filter .neg <;> rfl

/-- the header line of a token without the newline, given the text of the leaf lines -/
def tokHeader (ll : Leaf → String) : Tok → String
  | .leaf l => ll l
  | .grp a n => (if a then "And: " else "Or: ") ++ toString n
  | .neg => "Negate:"

theorem tokHeader_line (ll : Leaf → String) (tok : Tok)
    (h : ∀ l, tok = .leaf l → ll l ++ "\n" = l.printLine "Filter") :
    tokHeader ll tok ++ "\n" = Tok.line false tok := by
  cases tok with
  | leaf l => exact h l rfl
  | grp a n => cases a <;> simp [tokHeader, Tok.line, String.append_assoc]
  | neg => rfl

/-! ## the Stats stack -/

theorem statsAsFilters_counters (fs : List Filter) : statsAsFilters (fs.map StatsEntry.counter) = some fs := by
  induction fs with
  | nil => rfl
  | cons f fs ih => simp [statsAsFilters, ih]

/-- `StatsAnd: n` / `StatsOr: n` over `n > 0` counter entries builds the same group as `And: n` / `Or: n` -/
theorem statsGroupOp_counters (o : ParseOpts) (t : Table) (a : Bool) (v : String)
    (keep : List StatsEntry) (fs : List Filter) (hne : fs ≠ [])
    (h : atoi? v = some (fs.length : Int)) :
    statsGroupOp o t a v (keep ++ fs.map StatsEntry.counter) = pure (keep ++ [.counter (.grp a fs false)]) := by
  have hl : fs.length ≠ 0 := by simpa using hne
  have h0 : ((some (fs.length : Int) : Option Int) == some 0) = false := by
    simp; omega
  have h1 : ¬ ((fs.length : Int) < 0) := by omega
  unfold statsGroupOp
  rw [h]
  simp [h0, h1, statsAsFilters_counters]
  intro hlt
  omega

/-! ## queries read only some fields of a request -/

theorem selectBackends_congr (ds : Dataset) (t : Table) (r1 r2 : Request) (hb : r1.backends = r2.backends) :
    selectBackends ds t r1 = selectBackends ds t r2 := by
  simp only [selectBackends, hb]

theorem resultLimit_congr (r1 r2 : Request) (hs : r1.sort = r2.sort) (hl : r1.limit = r2.limit)
    (ho : r1.offset = r2.offset) (ht : r1.table = r2.table) : resultLimit r1 = resultLimit r2 := by
  unfold resultLimit isDefaultSortOrder
  rw [hs, hl, ho, ht]

theorem gatherRows_congr (m : EvalMode) (cx : Ctx) (t : Table) (r1 r2 : Request)
    (hf : r1.filter = r2.filter) (hs : r1.sort = r2.sort) (hl : r1.limit = r2.limit)
    (ho : r1.offset = r2.offset) (ha : r1.authUser = r2.authUser)
    (ht : r1.table = r2.table) (hfmt : r1.outFmt = r2.outFmt) :
    gatherRows m cx t r1 = gatherRows m cx t r2 := by
  simp only [gatherRows, resultLimit_congr r1 r2 hs hl ho ht, hf, hs, ha, hfmt]

theorem gatherStats_congr (m : StatsMode) (cx : Ctx) (t : Table) (r1 r2 : Request) (cols : List Column)
    (hf : r1.filter = r2.filter) (hs : r1.stats = r2.stats) (ha : r1.authUser = r2.authUser) :
    gatherStats m cx t r1 cols = gatherStats m cx t r2 cols := by
  simp only [gatherStats, hf, hs, ha]

end Lmd.C17
