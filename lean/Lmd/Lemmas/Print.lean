/-
  Lmd.Lemmas.Print — the token view of header lines for C17: the tokens `Filter.print` emits
  (`emit`), the stack machine of the header-line parser on tokens (`run`), and the lemmas that tie
  both to the model (`Filter.print`, `groupOp`, `negateTop`).
-/
import Lmd.Print
import Std.Data.String.ToNat

namespace Lmd.C17
open Lmd

/-! ## tokens -/

/-- one header line of the filter language, with the leaf line kept abstract -/
inductive Tok
  | leaf (l : Leaf)                 -- `Filter: <column> <op> <value>`
  | grp (isAnd : Bool) (n : Nat)    -- `And: n` / `Or: n`
  | neg                             -- `Negate:`
  deriving Inhabited

def Tok.isNeg : Tok → Bool
  | .neg => true
  | _ => false

mutual
  /-- the header lines of a filter tree in the order `Filter.print` writes them: members first,
      then the group line, then one `Negate:` if the node carries the mark -/
  def emit : Filter → List Tok
    | .leaf l n => Tok.leaf l :: (if n then [Tok.neg] else [])
    | .grp a fs n => emitList fs ++ Tok.grp a fs.length :: (if n then [Tok.neg] else [])
  def emitList : List Filter → List Tok
    | [] => []
    | f :: fs => emit f ++ emitList fs
end

theorem emitList_eq_flatMap (fs : List Filter) : emitList fs = fs.flatMap emit := by
  induction fs with
  | nil => simp [emitList]
  | cons f fs ih => simp [emitList, ih]

theorem emitList_append (as bs : List Filter) : emitList (as ++ bs) = emitList as ++ emitList bs := by
  simp [emitList_eq_flatMap]

/-- the text of one token; `stats = true` gives the Stats flavour of the keywords -/
def Tok.line (stats : Bool) : Tok → String
  | .leaf l => l.printLine (if stats then "Stats" else "Filter")
  | .grp a n => (if stats then "Stats" else "") ++ (if a then "And" else "Or") ++ ": " ++ toString n ++ "\n"
  | .neg => if stats then "StatsNegate:\n" else "Negate:\n"

/-- the text of a token list: the lines one after the other -/
def lines (stats : Bool) (ts : List Tok) : String := String.join (ts.map (Tok.line stats))

theorem lines_nil (stats : Bool) : lines stats [] = "" := by simp [lines]

theorem lines_append (stats : Bool) (a b : List Tok) : lines stats (a ++ b) = lines stats a ++ lines stats b := by
  simp [lines, String.join_append]

theorem lines_cons (stats : Bool) (t : Tok) (ts : List Tok) :
    lines stats (t :: ts) = Tok.line stats t ++ lines stats ts := by
  simp [lines, String.join_cons]

/-! ## well-formed trees -/

mutual
  /-- every group has at least one member (the parser cannot build an empty group: `And: 0` is ignored) -/
  def WellFormed : Filter → Prop
    | .leaf _ _ => True
    | .grp _ fs _ => fs ≠ [] ∧ WellFormedList fs
  def WellFormedList : List Filter → Prop
    | [] => True
    | f :: fs => WellFormed f ∧ WellFormedList fs
end

theorem wellFormedList_iff (fs : List Filter) : WellFormedList fs ↔ ∀ f ∈ fs, WellFormed f := by
  induction fs with
  | nil => simp [WellFormedList]
  | cons f fs ih => simp [WellFormedList, ih]

/-! ## the stack machine -/

/-- one header line applied to the filter stack (bottom first), as `parseHeaderLine` does for
    `Filter:`, `And:`/`Or:` and `Negate:` -/
def step (q : Quirks) (st : List Filter) : Tok → Option (List Filter)
  | .leaf l => some (st ++ [.leaf l false])
  | .grp a n =>
    if n = 0 then some st
    else if st.length < n then none
    else some (st.take (st.length - n) ++ [.grp a (st.drop (st.length - n)) false])
  | .neg => if st.isEmpty then none else some (mapLast (Filter.setNeg q) st)

def run (q : Quirks) : List Tok → List Filter → Option (List Filter)
  | [], st => some st
  | t :: ts, st =>
    match step q st t with
    | some st' => run q ts st'
    | none => none

theorem run_append (q : Quirks) (a b : List Tok) (st : List Filter) :
    run q (a ++ b) st = (run q a st).bind (run q b) := by
  induction a generalizing st with
  | nil => simp [run]
  | cons t ts ih =>
    simp only [List.cons_append, run]
    cases step q st t with
    | none => simp
    | some st' => simp [ih]

theorem mapLast_append_singleton {α} (f : α → α) (st : List α) (x : α) :
    mapLast f (st ++ [x]) = st ++ [f x] := by
  induction st with
  | nil => simp [mapLast]
  | cons a st ih =>
    cases st with
    | nil => simp [mapLast]
    | cons b st => simp only [List.cons_append, mapLast] at ih ⊢; rw [ih]

theorem step_leaf (q : Quirks) (st : List Filter) (l : Leaf) :
    step q st (.leaf l) = some (st ++ [.leaf l false]) := rfl

theorem step_grp_full (q : Quirks) (st fs : List Filter) (a : Bool) (h : fs ≠ []) :
    step q (st ++ fs) (.grp a fs.length) = some (st ++ [.grp a fs false]) := by
  have hl : fs.length ≠ 0 := by simpa using h
  simp [step, hl]

theorem step_neg_top (q : Quirks) (st : List Filter) (f : Filter) :
    step q (st ++ [f]) .neg = some (st ++ [f.setNeg q]) := by
  simp [step, mapLast_append_singleton]

/-! ## the model's stack operations are these steps -/

theorem digits_foldl (ds : List Char) (init : Nat) :
    ds.foldl (fun a c => a * 10 + (c.toNat - 48)) init = Nat.ofDigitChars 10 ds init := by
  induction ds generalizing init with
  | nil => simp
  | cons c cs ih =>
    simp only [List.foldl_cons, Nat.ofDigitChars_cons, ih]
    have : ('0' : Char).toNat = 48 := rfl
    rw [this, Nat.mul_comm]

theorem isDigit_eq (c : Char) : isDigit c = c.isDigit := by
  simp [isDigit, Char.isDigit, Char.le_def]

/-- `strconv.Atoi` reads back what `%d` printed -/
theorem atoi_toString (n : Nat) : atoi? (toString n) = some (n : Int) := by
  have hd : ∀ c ∈ Nat.toDigits 10 n, isDigit c = true := fun c hc => by
    rw [isDigit_eq]; exact Nat.isDigit_of_mem_toDigits (by omega) (by omega) hc
  unfold atoi?
  have e : (toString n).toList = Nat.toDigits 10 n := by simp
  rw [e]
  cases h : Nat.toDigits 10 n with
  | nil => exact absurd h Nat.toDigits_ne_nil
  | cons c cs =>
    have hc : isDigit c = true := hd c (by rw [h]; exact List.mem_cons_self)
    have h1 : c ≠ '-' := by intro e; rw [e] at hc; exact absurd hc (by decide)
    have h2 : c ≠ '+' := by intro e; rw [e] at hc; exact absurd hc (by decide)
    have hall : (c :: cs).all isDigit = true := by
      rw [List.all_eq_true]; intro x hx; exact hd x (by rw [h]; exact hx)
    have hval : (c :: cs).foldl (fun a c => a * 10 + (c.toNat - 48)) 0 = n := by
      rw [digits_foldl, ← h]; exact Nat.ofDigitChars_ten_toDigits
    dsimp only
    split
    · rename_i heq; simp at heq; exact absurd heq.1 h1
    · rename_i heq; simp at heq; exact absurd heq.1 h2
    · simp only [hall, hval]
      simp

/-- `parseFilterGroupOp` on a line whose argument reads as the number `n` is the `grp` step -/
theorem groupOp_eq_step (q : Quirks) (a : Bool) (v : String) (n : Nat) (st : List Filter)
    (h : atoi? v = some (n : Int)) : (groupOp a v st).toOption = step q st (.grp a n) := by
  unfold groupOp step
  rw [h]
  by_cases h0 : n = 0
  · subst h0; simp [Except.toOption, pure, Except.pure]
  · have h1 : ¬ ((n : Int) < 0) := by omega
    have h2 : ((n : Int) == 0) = false := by simp; omega
    by_cases h3 : st.length < n
    · simp [h0, h1, h2, h3, Except.toOption, throw, throwThe, MonadExceptOf.throw]
    · simp [h0, h1, h2, h3, Except.toOption, pure, Except.pure]

/-- `ParseFilterNegate` is the `neg` step -/
theorem negateTop_eq_step (q : Quirks) (st : List Filter) :
    (negateTop q st).toOption = step q st .neg := by
  unfold negateTop step
  cases st <;> simp [Except.toOption, pure, Except.pure, throw, throwThe, MonadExceptOf.throw]

/-! ## the round trip -/

mutual
  theorem run_emit (q : Quirks) (hq : q.negOr = false) :
      ∀ (f : Filter), WellFormed f → ∀ st : List Filter, run q (emit f) st = some (st ++ [f])
    | .leaf l n, _, st => by
      cases n
      · simp [emit, run, step]
      · simp [emit, run, step, mapLast_append_singleton, Filter.setNeg, hq]
    | .grp a fs n, wf, st => by
      obtain ⟨hne, wfs⟩ := wf
      rw [emit, run_append, run_emitList q hq fs wfs st]
      cases n
      · simp [run, step_grp_full q st fs a hne]
      · simp [run, step_grp_full q st fs a hne, step_neg_top, Filter.setNeg, hq]
  theorem run_emitList (q : Quirks) (hq : q.negOr = false) :
      ∀ (fs : List Filter), WellFormedList fs → ∀ st : List Filter, run q (emitList fs) st = some (st ++ fs)
    | [], _, st => by simp [emitList, run]
    | f :: fs, wf, st => by
      obtain ⟨wf1, wf2⟩ := wf
      rw [emitList, run_append, run_emit q hq f wf1 st]
      simp [run_emitList q hq fs wf2]
end

/-! ## printing -/

mutual
  theorem print_emit (stats : Bool) :
      ∀ (f : Filter), WellFormed f → Filter.print stats f = lines stats (emit f)
    | .leaf l n, _ => by
      cases n <;> simp [Filter.print, emit, lines, Tok.line, String.join_cons]
    | .grp a fs n, wf => by
      obtain ⟨hne, wfs⟩ := wf
      have ih := printList_emit stats fs wfs
      cases fs with
      | nil => exact absurd rfl hne
      | cons f fs =>
        have hp : Filter.print stats (.grp a (f :: fs) n) =
            Filter.printList stats (f :: fs) ++ (if stats then "Stats" else "") ++ (if a then "And" else "Or")
              ++ ": " ++ toString (f :: fs).length ++ "\n"
              ++ (if n then (if stats then "StatsNegate:\n" else "Negate:\n") else "") := by
          rw [Filter.print]; simp
        rw [hp, ih, emit, lines_append, lines_cons]
        cases n <;> simp [Tok.line, lines, String.append_assoc]
  theorem printList_emit (stats : Bool) :
      ∀ (fs : List Filter), WellFormedList fs → Filter.printList stats fs = lines stats (emitList fs)
    | [], _ => by simp [Filter.printList, emitList, lines]
    | f :: fs, wf => by
      obtain ⟨wf1, wf2⟩ := wf
      rw [Filter.printList, emitList, lines_append, print_emit stats f wf1, printList_emit stats fs wf2]
end

/-! ## negation marks -/

mutual
  /-- number of nodes of a tree -/
  def nodeCount : Filter → Nat
    | .leaf _ _ => 1
    | .grp _ fs _ => nodeCountList fs + 1
  def nodeCountList : List Filter → Nat
    | [] => 0
    | f :: fs => nodeCount f + nodeCountList fs
end

mutual
  /-- number of nodes that carry the `Negate:` mark -/
  def negCount : Filter → Nat
    | .leaf _ n => if n then 1 else 0
    | .grp _ fs n => negCountList fs + (if n then 1 else 0)
  def negCountList : List Filter → Nat
    | [] => 0
    | f :: fs => negCount f + negCountList fs
end

mutual
  theorem negCount_le : ∀ f : Filter, negCount f ≤ nodeCount f
    | .leaf _ n => by cases n <;> simp [negCount, nodeCount]
    | .grp _ fs n => by
      have := negCountList_le fs
      cases n <;> simp [negCount, nodeCount] <;> omega
  theorem negCountList_le : ∀ fs : List Filter, negCountList fs ≤ nodeCountList fs
    | [] => by simp [negCountList, nodeCountList]
    | f :: fs => by
      have := negCount_le f
      have := negCountList_le fs
      simp [negCountList, nodeCountList]; omega
end

mutual
  theorem countP_emit : ∀ f : Filter, (emit f).countP Tok.isNeg = negCount f
    | .leaf _ n => by cases n <;> simp [emit, negCount, Tok.isNeg]
    | .grp _ fs n => by
      have := countP_emitList fs
      cases n <;> simp [emit, negCount, Tok.isNeg, List.countP_cons, this]
  theorem countP_emitList : ∀ fs : List Filter, (emitList fs).countP Tok.isNeg = negCountList fs
    | [] => by simp [emitList, negCountList]
    | f :: fs => by
      simp [emitList, negCountList, countP_emit f, countP_emitList fs]
end

/-- no two `Negate:` lines directly after each other -/
def noNegNeg : List Tok → Bool
  | .neg :: .neg :: _ => false
  | _ :: rest => noNegNeg rest
  | [] => true

/-- the token list is empty or starts with a token that is not `Negate:` -/
def headNotNeg : List Tok → Bool
  | .neg :: _ => false
  | _ => true

theorem noNegNeg_append (a b : List Tok) (ha : noNegNeg a = true) (hb : noNegNeg b = true)
    (hh : headNotNeg b = true) : noNegNeg (a ++ b) = true := by
  induction a with
  | nil => simpa using hb
  | cons t ts ih =>
    cases ts with
    | nil =>
      cases b with
      | nil => simpa using ha
      | cons u us =>
        cases u with
        | neg => simp [headNotNeg] at hh
        | leaf l => cases t <;> simpa [noNegNeg] using hb
        | grp x y => cases t <;> simpa [noNegNeg] using hb
    | cons t2 ts2 =>
      cases t with
      | neg =>
        cases t2 with
        | neg => simp [noNegNeg] at ha
        | leaf l => simp only [List.cons_append, noNegNeg] at ha ih ⊢; exact ih ha
        | grp x y => simp only [List.cons_append, noNegNeg] at ha ih ⊢; exact ih ha
      | leaf l => simp only [List.cons_append, noNegNeg] at ha ih ⊢; exact ih ha
      | grp x y => simp only [List.cons_append, noNegNeg] at ha ih ⊢; exact ih ha

theorem headNotNeg_append (a b : List Tok) (ha : headNotNeg a = true) (hb : headNotNeg b = true) :
    headNotNeg (a ++ b) = true := by
  cases a with
  | nil => simpa using hb
  | cons t ts => cases t <;> simp_all [headNotNeg]

mutual
  theorem emit_shape : ∀ f : Filter, noNegNeg (emit f) = true ∧ headNotNeg (emit f) = true
    | .leaf _ n => by cases n <;> simp [emit, noNegNeg, headNotNeg]
    | .grp a fs n => by
      obtain ⟨h1, h2⟩ := emitList_shape fs
      rw [emit]
      constructor
      · apply noNegNeg_append _ _ h1
        · cases n <;> simp [noNegNeg]
        · simp [headNotNeg]
      · apply headNotNeg_append _ _ h2; simp [headNotNeg]
  theorem emitList_shape : ∀ fs : List Filter, noNegNeg (emitList fs) = true ∧ headNotNeg (emitList fs) = true
    | [] => by simp [emitList, noNegNeg, headNotNeg]
    | f :: fs => by
      obtain ⟨h1, h2⟩ := emit_shape f
      obtain ⟨h3, h4⟩ := emitList_shape fs
      rw [emitList]
      exact ⟨noNegNeg_append _ _ h1 h3 h4, headNotNeg_append _ _ h2 h4⟩
end

end Lmd.C17
