/-
  Lmd.Lemmas.EntrySeqLemmas — helper lemmas for the sequence-level statements of C12 (comments and
  downtimes follow additions and removals):

  * `syncSeq`: `syncEntries` folded over a sequence of backend states; ids, uniqueness, where every
    row of the result comes from;
  * `syncEntries` under permutations of the reply and of the cached rows; sorting by id;
  * `entryStep` / `entrySeq`: the cache step `c.set name (syncEntries …)` followed by `rebuildLists`,
    and what it does to one host / service row.
-/
import Lmd.Lemmas.SyncLemmas

namespace Lmd.EntrySeq
open Lmd.SyncLemmas

/-! ## 1. `syncEntries` folded over a sequence of backend states -/

/-- the table has a numeric, locally stored `id` column -/
def IdCol (tab : Table) : Prop := ∃ c, tab.col? "id" = some c ∧ c.storage = .loc ∧ c.dtype = .int64

/-- the comments (downtimes) table after the backend states `states` were synchronised one after the
    other, starting from the cached rows `cached` -/
def syncSeq (tab : Table) (cached : List Row) (states : List (List ReplyRow)) : List Row :=
  states.foldl (syncEntries tab) cached

theorem syncSeq_nil (tab : Table) (cached : List Row) : syncSeq tab cached [] = cached := rfl

theorem syncSeq_cons (tab : Table) (cached : List Row) (s : List ReplyRow) (rest : List (List ReplyRow)) :
    syncSeq tab cached (s :: rest) = syncSeq tab (syncEntries tab cached s) rest := rfl

theorem syncSeq_snoc (tab : Table) (cached : List Row) (pre : List (List ReplyRow)) (last : List ReplyRow) :
    syncSeq tab cached (pre ++ [last]) = syncEntries tab (syncSeq tab cached pre) last := by
  unfold syncSeq; rw [List.foldl_append]; rfl

theorem syncSeq_append (tab : Table) (cached : List Row) (pre post : List (List ReplyRow)) :
    syncSeq tab cached (pre ++ post) = syncSeq tab (syncSeq tab cached pre) post := by
  unfold syncSeq; rw [List.foldl_append]

/-- after the last step the ids are those of the last state -/
theorem syncSeq_ids_last {tab : Table} (hid : IdCol tab) (cached : List Row) (pre : List (List ReplyRow))
    (last : List ReplyRow) (i : Int) :
    i ∈ (syncSeq tab cached (pre ++ [last])).map (·.int "id") ↔ i ∈ last.map replyId := by
  rw [syncSeq_snoc]; exact mem_syncEntries_ids hid _ _ i

theorem syncEntries_nodup {tab : Table} (hid : IdCol tab) {cached : List Row} {backend : List ReplyRow}
    (hc : (cached.map (·.int "id")).Nodup) (hb : (backend.map replyId).Nodup) :
    ((syncEntries tab cached backend).map (·.int "id")).Nodup := by
  rw [syncEntries_ids hid, List.nodup_append]
  refine ⟨hc.filter _, hb.filter _, ?_⟩
  intro a ha b hb' e
  subst e
  have h1 := (List.mem_filter.mp ha).1
  have h2 := (List.mem_filter.mp hb').2
  simp only [List.contains_eq_mem, Bool.not_eq_true', decide_eq_false_iff_not] at h2
  exact h2 h1

theorem syncSeq_nodup {tab : Table} (hid : IdCol tab) :
    ∀ (states : List (List ReplyRow)) (cached : List Row), (cached.map (·.int "id")).Nodup →
      (∀ s ∈ states, (s.map replyId).Nodup) → ((syncSeq tab cached states).map (·.int "id")).Nodup
  | [], _, hc, _ => hc
  | s :: rest, cached, hc, hs => by
    rw [syncSeq_cons]
    exact syncSeq_nodup hid rest _ (syncEntries_nodup hid hc (hs s (by simp)))
      (fun s' h' => hs s' (List.mem_cons_of_mem _ h'))

/-- where a row of the result comes from: it was cached at the start and every state had its id, or it
    is the coerced row `r` of some state `s` of the sequence, its id was not in the table before that
    step, and every later state had its id -/
theorem syncSeq_origin {tab : Table} (hid : IdCol tab) :
    ∀ (states : List (List ReplyRow)) (cached : List Row) (row : Row), row ∈ syncSeq tab cached states →
      (row ∈ cached ∧ ∀ s ∈ states, row.int "id" ∈ s.map replyId) ∨
      ∃ pre s post r, states = pre ++ s :: post ∧ r ∈ s ∧ row = coerceRow tab r ∧
        replyId r ∉ (syncSeq tab cached pre).map (·.int "id") ∧ ∀ s' ∈ post, replyId r ∈ s'.map replyId
  | [], cached, row, h => .inl ⟨h, fun _ hs => by cases hs⟩
  | s0 :: rest, cached, row, h => by
    rw [syncSeq_cons] at h
    rcases syncSeq_origin hid rest _ row h with ⟨hm, hall⟩ | ⟨pre, s, post, r, he, hr, hrow, hnot, hpost⟩
    · rcases mem_syncEntries.mp hm with ⟨hc, hb⟩ | ⟨r, hr, hn, e⟩
      · refine .inl ⟨hc, fun s hs => ?_⟩
        rcases List.mem_cons.mp hs with rfl | hs'
        · exact hb
        · exact hall s hs'
      · refine .inr ⟨[], s0, rest, r, rfl, hr, e.symm, hn, fun s' hs' => ?_⟩
        have := hall s' hs'
        rw [← e, coerceRow_int_id hid] at this
        exact this
    · exact .inr ⟨s0 :: pre, s, post, r, by rw [he]; rfl, hr, hrow, hnot, hpost⟩

/-- a member of a list whose image under `f` has no duplicates is determined by its image -/
theorem eq_of_nodup_map {α β : Type} (f : α → β) :
    ∀ {l : List α}, (l.map f).Nodup → ∀ {a b : α}, a ∈ l → b ∈ l → f a = f b → a = b
  | [], _, _, _, ha, _, _ => by cases ha
  | x :: l, hn, a, b, ha, hb, e => by
    rw [List.map_cons, List.nodup_cons] at hn
    rcases List.mem_cons.mp ha with ha' | ha' <;> rcases List.mem_cons.mp hb with hb' | hb'
    · rw [ha', hb']
    · exact absurd (List.mem_map.mpr ⟨b, hb', by rw [← e, ha']⟩) hn.1
    · exact absurd (List.mem_map.mpr ⟨a, ha', by rw [e, hb']⟩) hn.1
    · exact eq_of_nodup_map f hn.2 ha' hb' e

theorem nodup_of_nodup_map {α β : Type} (f : α → β) : ∀ {l : List α}, (l.map f).Nodup → l.Nodup
  | [], _ => List.nodup_nil
  | x :: l, hn => by
    rw [List.map_cons, List.nodup_cons] at hn
    rw [List.nodup_cons]
    exact ⟨fun hx => hn.1 (List.mem_map.mpr ⟨x, hx, rfl⟩), nodup_of_nodup_map f hn.2⟩

/-- the entries the last state names are immutable: a cached row with the id of a row `r` of the last
    state is the cached form of `r`, and so is every row with that id in any state of the sequence -/
def Stable (tab : Table) (cached : List Row) (states : List (List ReplyRow)) (last : List ReplyRow) : Prop :=
  ∀ r ∈ last, (∀ c ∈ cached, c.int "id" = replyId r → c = coerceRow tab r) ∧
    (∀ s ∈ states, ∀ r' ∈ s, replyId r' = replyId r → coerceRow tab r' = coerceRow tab r)

theorem syncSeq_rows_sub {tab : Table} (hid : IdCol tab) {cached : List Row} {pre : List (List ReplyRow)}
    {last : List ReplyRow} (hst : Stable tab cached (pre ++ [last]) last) (row : Row)
    (h : row ∈ syncSeq tab cached (pre ++ [last])) : row ∈ last.map (coerceRow tab) := by
  have hi : row.int "id" ∈ last.map replyId :=
    (syncSeq_ids_last hid cached pre last _).mp (List.mem_map.mpr ⟨row, h, rfl⟩)
  obtain ⟨r, hr, hri⟩ := List.mem_map.mp hi
  refine List.mem_map.mpr ⟨r, hr, ?_⟩
  rcases syncSeq_origin hid _ _ row h with ⟨hc, _⟩ | ⟨pre', s, post, r', he, hr', hrow, _, _⟩
  · exact ((hst r hr).1 row hc hri.symm).symm
  · have hs : s ∈ pre ++ [last] := by rw [he]; simp
    have hid' : replyId r' = replyId r := by
      rw [hri, hrow, coerceRow_int_id hid]
    rw [hrow]; exact ((hst r hr).2 s hs r' hr' hid').symm

theorem syncSeq_rows_mem {tab : Table} (hid : IdCol tab) {cached : List Row} {pre : List (List ReplyRow)}
    {last : List ReplyRow} (hst : Stable tab cached (pre ++ [last]) last) (row : Row) :
    row ∈ syncSeq tab cached (pre ++ [last]) ↔ row ∈ last.map (coerceRow tab) := by
  refine ⟨syncSeq_rows_sub hid hst row, fun h => ?_⟩
  obtain ⟨r, hr, rfl⟩ := List.mem_map.mp h
  have hi : replyId r ∈ (syncSeq tab cached (pre ++ [last])).map (·.int "id") :=
    (syncSeq_ids_last hid cached pre last _).mpr (List.mem_map.mpr ⟨r, hr, rfl⟩)
  obtain ⟨row', hrow', hri⟩ := List.mem_map.mp hi
  obtain ⟨r'', hr'', e⟩ := List.mem_map.mp (syncSeq_rows_sub hid hst row' hrow')
  have hid' : replyId r'' = replyId r := by
    rw [← hri, ← e, coerceRow_int_id hid]
  have := (hst r hr).2 last (by simp) r'' hr'' hid'
  rw [← this, e]; exact hrow'

/-- when the backend has no id the table does not know, `syncEntries` only removes -/
theorem syncEntries_no_new (tab : Table) (cached : List Row) (backend : List ReplyRow)
    (h : backend.any (fun r => !(cached.map (·.int "id")).contains (replyId r)) = false) :
    syncEntries tab cached backend = cached.filter (fun r => (backend.map replyId).contains (r.int "id")) := by
  rw [syncEntries_eq]
  have : backend.filter (fun r => !(cached.map (·.int "id")).contains (replyId r)) = [] := by
    rw [List.filter_eq_nil_iff]
    intro r hr hc
    exact List.any_eq_false.mp h r hr hc
  rw [this]; simp

/-! ## 2. the order of the reply -/

theorem contains_perm {l l' : List Int} (h : l.Perm l') (i : Int) : l.contains i = l'.contains i := by
  have := h.mem_iff (a := i)
  simp only [List.contains_eq_mem]
  exact decide_eq_decide.mpr this

/-- permuting the cached rows and the reply permutes the result -/
theorem syncEntries_perm (tab : Table) {cached cached' : List Row} {backend backend' : List ReplyRow}
    (hc : cached.Perm cached') (hb : backend.Perm backend') :
    (syncEntries tab cached backend).Perm (syncEntries tab cached' backend') := by
  rw [syncEntries_eq, syncEntries_eq]
  have e1 : (fun r : Row => (backend.map replyId).contains (r.int "id")) =
      fun r => (backend'.map replyId).contains (r.int "id") := by
    funext r; exact contains_perm (hb.map _) _
  have e2 : (fun r : ReplyRow => !(cached.map (·.int "id")).contains (replyId r)) =
      fun r => !(cached'.map (·.int "id")).contains (replyId r) := by
    funext r; rw [contains_perm (hc.map _)]
  rw [e1, e2]
  exact (hc.filter _).append ((hb.filter _).map _)

/-- with the same cached rows: the kept rows are literally the same, the appended rows a permutation -/
theorem syncEntries_reply_perm (tab : Table) (cached : List Row) {backend backend' : List ReplyRow}
    (hb : backend.Perm backend') :
    ∃ new new' : List Row,
      syncEntries tab cached backend =
        cached.filter (fun r => (backend.map replyId).contains (r.int "id")) ++ new ∧
      syncEntries tab cached backend' =
        cached.filter (fun r => (backend.map replyId).contains (r.int "id")) ++ new' ∧
      new.Perm new' := by
  refine ⟨_, _, syncEntries_eq tab cached backend, ?_, (hb.filter _).map _⟩
  rw [syncEntries_eq]
  have e1 : (fun r : Row => (backend'.map replyId).contains (r.int "id")) =
      fun r => (backend.map replyId).contains (r.int "id") := by
    funext r; exact contains_perm (hb.symm.map _) _
  rw [e1]

/-- two sequences of the same length whose states are, position by position, permutations of each other -/
inductive PermSeq : List (List ReplyRow) → List (List ReplyRow) → Prop
  | nil : PermSeq [] []
  | cons {s s' : List ReplyRow} {rest rest' : List (List ReplyRow)} :
      s.Perm s' → PermSeq rest rest' → PermSeq (s :: rest) (s' :: rest')

theorem syncSeq_perm (tab : Table) :
    ∀ {states states' : List (List ReplyRow)} {cached cached' : List Row}, cached.Perm cached' →
      PermSeq states states' → (syncSeq tab cached states).Perm (syncSeq tab cached' states')
  | _, _, _, _, hc, .nil => hc
  | _, _, _, _, hc, .cons h hs => by
    rw [syncSeq_cons, syncSeq_cons]
    exact syncSeq_perm tab (syncEntries_perm tab hc h) hs

/-- the order "by id" -/
def idLe (a b : Row) : Bool := decide (a.int "id" ≤ b.int "id")

/-- rows sorted by id -/
def sortById (l : List Row) : List Row := l.mergeSort idLe

theorem sortById_perm (l : List Row) : (sortById l).Perm l := List.mergeSort_perm l idLe

theorem sortById_pairwise (l : List Row) : (sortById l).Pairwise (fun a b => idLe a b = true) := by
  unfold sortById
  apply List.pairwise_mergeSort
  · intro a b c h1 h2
    simp only [idLe, decide_eq_true_eq] at *
    omega
  · intro a b
    simp only [idLe, Bool.or_eq_true, decide_eq_true_eq]
    omega

/-- two permutations of rows with pairwise different ids are the same list once sorted by id -/
theorem sortById_eq_of_perm {l l' : List Row} (hp : l.Perm l') (hn : (l.map (·.int "id")).Nodup) :
    sortById l = sortById l' := by
  have hp' : (sortById l).Perm (sortById l') := (sortById_perm l).trans (hp.trans (sortById_perm l').symm)
  refine List.Perm.eq_of_pairwise (le := fun a b => idLe a b = true) ?_ (sortById_pairwise l)
    (sortById_pairwise l') hp'
  intro a b ha hb hab hba
  have ha' : a ∈ l := (sortById_perm l).mem_iff.mp ha
  have hb' : b ∈ l := hp.mem_iff.mpr ((sortById_perm l').mem_iff.mp hb)
  simp only [idLe, decide_eq_true_eq] at hab hba
  exact eq_of_nodup_map (·.int "id") hn ha' hb' (by omega)

/-! ## 3. the cache step and the id lists -/

/-- `updateDeltaCommentsOrDowntimes` on the peer's cache for the table `name` (`comments` or
    `downtimes`): the table is brought up to date with `syncEntries`, then the id lists of hosts and
    services are rebuilt -/
def entryStep (name : String) (tab : Table) (c : Cache) (backend : List ReplyRow) : Cache :=
  rebuildLists (c.set name (syncEntries tab (c.get name) backend))

/-- the cache after a sequence of backend states of the table `name` -/
def entrySeq (name : String) (tab : Table) (c : Cache) (states : List (List ReplyRow)) : Cache :=
  states.foldl (entryStep name tab) c

theorem entrySeq_cons (name : String) (tab : Table) (c : Cache) (s : List ReplyRow) (rest : List (List ReplyRow)) :
    entrySeq name tab c (s :: rest) = entrySeq name tab (entryStep name tab c s) rest := rfl

theorem entrySeq_single (name : String) (tab : Table) (c : Cache) (s : List ReplyRow) :
    entrySeq name tab c [s] = entryStep name tab c s := rfl

theorem name_ne {name : String} (hn : name = "comments" ∨ name = "downtimes") :
    name ≠ "hosts" ∧ name ≠ "services" := by
  rcases hn with rfl | rfl <;> exact ⟨by decide, by decide⟩

theorem entryStep_get_name {name : String} (hn : name = "comments" ∨ name = "downtimes") (tab : Table)
    (c : Cache) (backend : List ReplyRow) :
    (entryStep name tab c backend).get name = syncEntries tab (c.get name) backend := by
  unfold entryStep
  rw [rebuildLists_other _ _ (name_ne hn).1 (name_ne hn).2, Cache.get_set_self]

/-- the table of a whole sequence is the folded `syncEntries` -/
theorem entrySeq_get_name {name : String} (hn : name = "comments" ∨ name = "downtimes") (tab : Table) :
    ∀ (states : List (List ReplyRow)) (c : Cache),
      (entrySeq name tab c states).get name = syncSeq tab (c.get name) states
  | [], _ => rfl
  | s :: rest, c => by
    rw [entrySeq_cons, entrySeq_get_name hn tab rest, entryStep_get_name hn, syncSeq_cons]

/-- one host row through a step: it keeps its position and all cells but the two id lists, and its
    `name` list holds the ids of the synchronised entries attached to it -/
theorem entryStep_host_row {name : String} (hn : name = "comments" ∨ name = "downtimes") (tab : Table)
    (c : Cache) (backend : List ReplyRow) (k : Nat) (h : Row) (hk : (c.get "hosts")[k]? = some h) :
    ∃ h', ((entryStep name tab c backend).get "hosts")[k]? = some h' ∧
      h'.cell? name = some (.il (hostIds (syncEntries tab (c.get name) backend) h)) ∧
      ∀ n, n ≠ "comments" → n ≠ "downtimes" → h'.cell? n = h.cell? n := by
  have hH : (entryStep name tab c backend).get "hosts" = _ := rebuildLists_hosts _
  rw [Cache.get_set_other c name "hosts" _ (Ne.symm (name_ne hn).1)] at hH
  refine ⟨_, by rw [hH, List.getElem?_map, hk]; rfl, ?_, fun n h1 h2 => ?_⟩
  · rcases hn with rfl | rfl
    · rw [setCell_cell?_other _ _ _ _ (by decide), setCell_cell?_self, Cache.get_set_self]
    · rw [setCell_cell?_self, Cache.get_set_self]
  · rw [setCell_cell?_other _ _ _ _ h2, setCell_cell?_other _ _ _ _ h1]

/-- one service row through a step -/
theorem entryStep_service_row {name : String} (hn : name = "comments" ∨ name = "downtimes") (tab : Table)
    (c : Cache) (backend : List ReplyRow) (k : Nat) (s : Row) (hk : (c.get "services")[k]? = some s) :
    ∃ s', ((entryStep name tab c backend).get "services")[k]? = some s' ∧
      s'.cell? name = some (.il (serviceIds (syncEntries tab (c.get name) backend) s)) ∧
      ∀ n, n ≠ "comments" → n ≠ "downtimes" → s'.cell? n = s.cell? n := by
  have hS : (entryStep name tab c backend).get "services" = _ := rebuildLists_services _
  rw [Cache.get_set_other c name "services" _ (Ne.symm (name_ne hn).2)] at hS
  refine ⟨_, by rw [hS, List.getElem?_map, hk]; rfl, ?_, fun n h1 h2 => ?_⟩
  · rcases hn with rfl | rfl
    · rw [setCell_cell?_other _ _ _ _ (by decide), setCell_cell?_self, Cache.get_set_self]
    · rw [setCell_cell?_self, Cache.get_set_self]
  · rw [setCell_cell?_other _ _ _ _ h2, setCell_cell?_other _ _ _ _ h1]

theorem strCell_congr {a b : Row} {n : String} (h : a.cell? n = b.cell? n) : strCell a n = strCell b n := by
  unfold strCell; rw [h]

/-- entries never move: the rows already cached agree with every state of the sequence on the object
    they are attached to, and two rows with the same id in any two states of the sequence name the same
    host and service -/
structure NeverMove (cached : List Row) (states : List (List ReplyRow)) : Prop where
  cachedOk : ∀ s ∈ states, Faithful cached s
  statesOk : ∀ s ∈ states, ∀ s' ∈ states, ∀ r ∈ s, ∀ r' ∈ s', replyId r = replyId r' →
    replyStr r "host_name" = replyStr r' "host_name" ∧
    replyStr r "service_description" = replyStr r' "service_description"

theorem NeverMove.sublist {cached : List Row} {states states' : List (List ReplyRow)}
    (h : NeverMove cached states) (hs : ∀ s ∈ states', s ∈ states) : NeverMove cached states' :=
  ⟨fun s m => h.cachedOk s (hs s m), fun s m s' m' => h.statesOk s (hs s m) s' (hs s' m')⟩

theorem NeverMove.step {tab : Table} (ht : EntryTable tab) {cached : List Row} {s : List ReplyRow}
    {rest : List (List ReplyRow)} (h : NeverMove cached (s :: rest)) :
    NeverMove (syncEntries tab cached s) rest := by
  refine ⟨fun s' hs' row hrow r' hr' hi => ?_,
    fun a ha b hb => h.statesOk a (List.mem_cons_of_mem _ ha) b (List.mem_cons_of_mem _ hb)⟩
  rcases mem_syncEntries.mp hrow with ⟨hc, _⟩ | ⟨r, hr, _, e⟩
  · exact h.cachedOk s' (List.mem_cons_of_mem _ hs') row hc r' hr' hi
  · subst e
    rw [coerceRow_int_id ht.id] at hi
    rw [coerceRow_strCell ht.host, coerceRow_strCell ht.svc]
    exact h.statesOk s (by simp) s' (List.mem_cons_of_mem _ hs') r hr r' hr' hi

/-- what the id lists say after the last step of a sequence, relative to the rows the sequence
    started with -/
theorem entrySeq_follow {name : String} (hn : name = "comments" ∨ name = "downtimes") {tab : Table}
    (ht : EntryTable tab) (cur : List ReplyRow) :
    ∀ (pre : List (List ReplyRow)) (c : Cache), NeverMove (c.get name) (pre ++ [cur]) →
      (∀ (k : Nat) (h : Row), (c.get "hosts")[k]? = some h →
        ∃ h' l, ((entrySeq name tab c (pre ++ [cur])).get "hosts")[k]? = some h' ∧
          h'.cell? name = some (.il l) ∧
          (∀ i, i ∈ l ↔ ∃ r ∈ cur, replyId r = i ∧ replyStr r "host_name" = strCell h "name" ∧
            replyStr r "service_description" = "") ∧
          ∀ n, n ≠ "comments" → n ≠ "downtimes" → h'.cell? n = h.cell? n) ∧
      (∀ (k : Nat) (s : Row), (c.get "services")[k]? = some s → strCell s "description" ≠ "" →
        ∃ s' l, ((entrySeq name tab c (pre ++ [cur])).get "services")[k]? = some s' ∧
          s'.cell? name = some (.il l) ∧
          (∀ i, i ∈ l ↔ ∃ r ∈ cur, replyId r = i ∧ replyStr r "host_name" = strCell s "host_name" ∧
            replyStr r "service_description" = strCell s "description") ∧
          ∀ n, n ≠ "comments" → n ≠ "downtimes" → s'.cell? n = s.cell? n)
  | [], c, hm => by
    have hf : Faithful (c.get name) cur := hm.cachedOk cur (by simp)
    rw [List.nil_append, entrySeq_single]
    constructor
    · intro k h hk
      obtain ⟨h', e1, e2, e3⟩ := entryStep_host_row hn tab c cur k h hk
      exact ⟨h', _, e1, e2, fun i => mem_attachedIds_syncEntries ht hf _ _ i, e3⟩
    · intro k s hk hd
      obtain ⟨s', e1, e2, e3⟩ := entryStep_service_row hn tab c cur k s hk
      refine ⟨s', _, e1, e2, fun i => ?_, e3⟩
      have hd' : (strCell s "description" == "") = false := by simpa using hd
      unfold serviceIds
      simp only [hd', Bool.false_eq_true, if_false]
      exact mem_attachedIds_syncEntries ht hf _ _ i
  | s0 :: pre, c, hm => by
    have hm' : NeverMove ((entryStep name tab c s0).get name) (pre ++ [cur]) := by
      rw [entryStep_get_name hn]; exact hm.step ht
    obtain ⟨ihH, ihS⟩ := entrySeq_follow hn ht cur pre (entryStep name tab c s0) hm'
    rw [List.cons_append, entrySeq_cons]
    constructor
    · intro k h hk
      obtain ⟨h1, e1, _, e3⟩ := entryStep_host_row hn tab c s0 k h hk
      obtain ⟨h', l, f1, f2, f3, f4⟩ := ihH k h1 e1
      refine ⟨h', l, f1, f2, fun i => ?_, fun n a b => (f4 n a b).trans (e3 n a b)⟩
      rw [f3 i, strCell_congr (e3 "name" (by decide) (by decide))]
    · intro k s hk hd
      obtain ⟨s1, e1, _, e3⟩ := entryStep_service_row hn tab c s0 k s hk
      have hdesc : strCell s1 "description" = strCell s "description" :=
        strCell_congr (e3 "description" (by decide) (by decide))
      have hhost : strCell s1 "host_name" = strCell s "host_name" :=
        strCell_congr (e3 "host_name" (by decide) (by decide))
      obtain ⟨s', l, f1, f2, f3, f4⟩ := ihS k s1 e1 (by rw [hdesc]; exact hd)
      refine ⟨s', l, f1, f2, fun i => ?_, fun n a b => (f4 n a b).trans (e3 n a b)⟩
      rw [f3 i, hdesc, hhost]

end Lmd.EntrySeq
