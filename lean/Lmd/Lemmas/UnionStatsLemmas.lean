/-
  Lmd.Lemmas.UnionStatsLemmas — the closed form of a Stats answer: after counting the matching rows of all
  selected, available backends, the slot of a stats column under a key is `slotOf`, the accumulator that
  has seen exactly the values of the rows with that key; these rows are the rows the corresponding data
  request returns.
-/
import Lmd.Lemmas.UnionLemmas

namespace Lmd.Union
open Lmd Lmd.Sort Lmd.Dist Lmd.C05

/-! ## 1. the values a stats column sees -/

/-- the values a stats column takes from a list of rows (given as views): a counter takes a `0` from every
    row its filter holds for (Boolean semantics), an aggregate the numeric value of its column -/
def valsOf (q : Quirks) (e : StatsEntry) (V : List View) : List Int :=
  match e with
  | .counter f => (V.filter (fun v => sem q v f)).map (fun _ => 0)
  | .agg _ col _ => V.filterMap (fun v => getFloat v col)

/-- the slot of a stats column that has seen exactly the rows `V` -/
def slotOf (q : Quirks) (e : StatsEntry) (V : List View) : Acc := accOf e.accKind (valsOf q e V)

theorem valsOf_nil (q : Quirks) (e : StatsEntry) : valsOf q e [] = [] := by
  cases e <;> rfl

theorem valsOf_append (q : Quirks) (e : StatsEntry) (V W : List View) :
    valsOf q e (V ++ W) = valsOf q e V ++ valsOf q e W := by
  cases e <;> simp [valsOf]

theorem slotOf_nil (q : Quirks) (e : StatsEntry) : slotOf q e [] = Acc.init e.accKind := by
  simp [slotOf, valsOf_nil, accOf]

theorem slotOf_merge (q : Quirks) (e : StatsEntry) (V W : List View) :
    (slotOf q e V).apply (slotOf q e W).stats (slotOf q e W).count = slotOf q e (V ++ W) := by
  simp only [slotOf, valsOf_append, merge_accOf]

theorem accOf_snoc (k : AccKind) (xs : List Int) (x : Int) : accOf k (xs ++ [x]) = (accOf k xs).apply x 1 := by
  simp [accOf, List.foldl_append]

theorem zipMerge_map (f g : StatsEntry → Acc) :
    ∀ stats : List StatsEntry, zipMerge (stats.map f) (stats.map g) =
      stats.map (fun e => (f e).apply (g e).stats (g e).count)
  | [] => by simp [zipMerge]
  | e :: es => by
    have ih := zipMerge_map f g es
    simp only [zipMerge] at ih ⊢
    simp [ih]

theorem zipMerge_slots (q : Quirks) (stats : List StatsEntry) (V W : List View) :
    zipMerge (stats.map (slotOf q · V)) (stats.map (slotOf q · W)) = stats.map (slotOf q · (V ++ W)) := by
  rw [zipMerge_map]
  apply List.map_congr_left
  intro e _
  exact slotOf_merge q e V W

/-! ## 2. flat counting of a list of rows -/

/-- one row more: the slot of a column that had seen `V` has seen `V ++ [w]` -/
theorem stepSlot_slotOf (q : Quirks) (w : View) (e : StatsEntry) (V : List View) (a' : Acc)
    (h : stepSlot q w e (slotOf q e V) = some a') : a' = slotOf q e (V ++ [w]) := by
  cases e with
  | counter f =>
    simp only [stepSlot, Option.some.injEq] at h
    subst h
    simp only [slotOf, valsOf, StatsEntry.accKind, List.filter_append, List.map_append, accOf_counter]
    by_cases hs : sem q w f = true
    · simp [hs, incr]
    · simp [hs]
  | agg k col n =>
    simp only [stepSlot] at h
    cases hg : getFloat w col with
    | none => simp [hg] at h
    | some x =>
      simp only [hg, Option.map_some, Option.some.injEq] at h
      subst h
      simp only [slotOf, valsOf, StatsEntry.accKind, List.filterMap_append, List.filterMap_cons, hg,
        List.filterMap_nil, accOf_snoc]

theorem slotwise_slotOf (q : Quirks) (w : View) (V : List View) :
    ∀ (stats : List StatsEntry) (x : Accs), slotwise q w stats (stats.map (slotOf q · V)) = some x →
      x = stats.map (slotOf q · (V ++ [w]))
  | [], x, h => by
    simp [slotwise] at h
    simp [h]
  | e :: es, x, h => by
    simp only [List.map_cons, slotwise] at h
    cases hs : stepSlot q w e (slotOf q e V) with
    | none => simp [hs] at h
    | some a' =>
      simp only [hs] at h
      cases hr : slotwise q w es (es.map (slotOf q · V)) with
      | none => simp [hr] at h
      | some r =>
        simp only [hr, Option.map_some, Option.some.injEq] at h
        subst h
        rw [stepSlot_slotOf q w e V a' hs, slotwise_slotOf q w V es r hr]
        rfl

/-- counting the rows `W` one by one (flat list, Boolean semantics) into the slots that have seen `V`
    gives, when no getter panics, the slots that have seen `V ++ W` -/
theorem flatFold_slotOf (q : Quirks) (stats : List StatsEntry) :
    ∀ (W V : List View) (res : Accs),
      W.foldlM (fun accs v => countFlat q false v stats 0 accs) (stats.map (slotOf q · V)) = some res →
      res = stats.map (slotOf q · (V ++ W))
  | [], V, res, h => by
    simp only [List.foldlM_nil] at h
    cases h
    simp
  | w :: W, V, res, h => by
    rw [List.foldlM_cons] at h
    cases hx : countFlat q false w stats 0 (stats.map (slotOf q · V)) with
    | none => simp [hx] at h
    | some x =>
      simp only [hx] at h
      rw [countFlat_slotwise q w stats _ (by simp)] at hx
      have := slotwise_slotOf q w V stats x hx
      subst this
      have := flatFold_slotOf q stats W (V ++ [w]) res h
      simpa using this

theorem gsInit_slotOf (q : Quirks) (req : Request) : gsInit req = req.stats.map (slotOf q · []) := by
  simp only [gsInit, slotOf_nil]

/-! ## 3. one backend -/

/-- every row is counted with the flat stats list under the Boolean semantics (true for the specification
    mode by definition, for the daemon's mode once negation is repaired and no grouping is done, and for
    the grouped form under the congruence hypothesis of `C05.grouping_sound_partial`) -/
def FlatCounting (m : StatsMode) (t : Table) (req : Request) : Prop :=
  ∀ (cx : Ctx) (r : Row) (accs : Accs),
    gsCount m cx t req r accs = countFlat m.q false (mkView cx t r) req.stats 0 accs

theorem flatCounting_spec (m : StatsMode) (t : Table) (req : Request) (hg : m.grouped = false)
    (hp : m.pushDown = false) : FlatCounting m t req := by
  intro cx r accs
  simp [gsCount, hg, hp]

theorem flatCounting_code (m : StatsMode) (t : Table) (req : Request) (hg : m.grouped = false)
    (hq : m.q.negOr = false) : FlatCounting m t req := by
  intro cx r accs
  simp only [gsCount, hg, Bool.false_eq_true, if_false]
  cases hp : m.pushDown
  · rfl
  · exact C05.countFlat_pushDown m.q hq _ _ _ _

theorem flatCounting_grouped (m : StatsMode) (t : Table) (req : Request) (hq : m.q.negOr = false)
    (mk : String → Op → String → String → Bool → Leaf)
    (hs : StatsOK (fun l => l = mk l.col.name l.op l.sval l.tag l.isEmpty) req.stats) :
    FlatCounting m t req := by
  intro cx r accs
  simp only [gsCount]
  cases hopt : (if m.grouped then optimizeStats req.stats else none) with
  | some nodes =>
    simp only []
    have hn : optimizeStats req.stats = some nodes := by
      cases hg : m.grouped
      · simp [hg] at hopt
      · simpa [hg] using hopt
    rw [C05.grouping_sound_of_keyDetermined mk req.stats hs nodes hn m.q _ accs]
    exact C05.countFlat_pushDown m.q hq _ _ _ _
  | none =>
    simp only []
    cases hp : m.pushDown
    · rfl
    · exact C05.countFlat_pushDown m.q hq _ _ _ _

/-- the candidate rows of one backend that pass filter and authorisation and have the key -/
def keyRows (m : StatsMode) (cx : Ctx) (t : Table) (req : Request) (reqCols : List Column) (key : String) :
    List Row :=
  (gsCands m cx t req).filter (fun r => gsOk m cx t req r && gsKey cx t reqCols r == key)

/-- the same rows as views -/
def keyViews (m : StatsMode) (cx : Ctx) (t : Table) (req : Request) (reqCols : List Column) (key : String) :
    List View := (keyRows m cx t req reqCols key).map (mkView cx t)

/-- the slots under a key after the rows `V` have been counted: no entry when there is no such row -/
def slotsOpt (q : Quirks) (stats : List StatsEntry) (V : List View) : Option Accs :=
  if V.isEmpty then none else some (stats.map (slotOf q · V))

theorem gatherStats_lookup (m : StatsMode) (cx : Ctx) (t : Table) (req : Request) (reqCols : List Column)
    (hflat : FlatCounting m t req) (res : StatsMap) (h : gatherStats m cx t req reqCols = some res)
    (key : String) :
    lookup res key = slotsOpt m.q req.stats (keyViews m cx t req reqCols key) := by
  have hp := (C05.groupby_partition m cx t req reqCols res h).2 key
  simp only [] at hp
  unfold slotsOpt keyViews
  rw [List.isEmpty_map]
  change (if (keyRows m cx t req reqCols key).isEmpty = true then _ else _) at hp
  split at hp
  · rename_i he
    rw [if_pos he]; exact hp
  · rename_i he
    rw [if_neg he]
    obtain ⟨slots, hl, hf⟩ := hp
    rw [hl]
    congr 1
    have hfun : (fun accs r => gsCount m cx t req r accs) =
        (fun accs r => countFlat m.q false (mkView cx t r) req.stats 0 accs) := by
      funext accs r; exact hflat cx r accs
    rw [hfun, gsInit_slotOf m.q] at hf
    have hf' : ((keyRows m cx t req reqCols key).map (mkView cx t)).foldlM
        (fun accs v => countFlat m.q false v req.stats 0 accs) (req.stats.map (slotOf m.q · [])) = some slots := by
      rw [List.foldlM_map]; exact hf
    have := flatFold_slotOf m.q req.stats _ [] slots hf'
    simpa using this

/-! ## 4. all backends merged -/

theorem slotsOpt_merge (q : Quirks) (stats : List StatsEntry) (a M : StatsMap) (hn : (keys M).Nodup)
    (key : String) (V0 V : List View) (ha : lookup a key = slotsOpt q stats V0)
    (hM : lookup M key = slotsOpt q stats V) :
    lookup (mergeStats a M) key = slotsOpt q stats (V0 ++ V) := by
  rw [C05.merge_per_key a M hn key, hM, ha]
  unfold slotsOpt
  cases V with
  | nil => simp
  | cons v V =>
    cases V0 with
    | nil => simp
    | cons v0 V0 =>
      simp only [List.isEmpty_cons, Bool.false_eq_true, if_false, List.cons_append]
      rw [zipMerge_slots]
      rfl

theorem crashOf_cons (m : StatsMode) (s : Schema) (ds : Dataset) (t : Table) (req : Request) (b : Backend)
    (bs : List Backend) :
    crashOf m s ds t req (b :: bs) = ((gsOf m s ds t req b).isNone || crashOf m s ds t req bs) := by
  simp [crashOf]

/-- the merged map of a list of backends, key by key -/
theorem foldl_mergeStats_lookup (m : StatsMode) (s : Schema) (ds : Dataset) (t : Table) (req : Request)
    (hflat : FlatCounting m t req) (key : String) :
    ∀ (bs : List Backend) (acc : StatsMap) (V0 : List View),
      crashOf m s ds t req bs = false → lookup acc key = slotsOpt m.q req.stats V0 →
      lookup ((mapsOf m s ds t req bs).foldl mergeStats acc) key =
        slotsOpt m.q req.stats (V0 ++ bs.flatMap (fun b =>
          keyViews m { schema := s, ds := ds, b := b } t req (req.columns.map t.colWithFallback) key))
  | [], acc, V0, _, ha => by simpa [mapsOf] using ha
  | b :: bs, acc, V0, hc, ha => by
    rw [crashOf_cons, Bool.or_eq_false_iff] at hc
    cases hg : gsOf m s ds t req b with
    | none => simp [hg] at hc
    | some M =>
      have hmaps : mapsOf m s ds t req (b :: bs) = M :: mapsOf m s ds t req bs := by
        simp [mapsOf, hg]
      rw [hmaps, List.foldl_cons, List.flatMap_cons, ← List.append_assoc]
      apply foldl_mergeStats_lookup m s ds t req hflat key bs _ _ hc.2
      have hn := (C05.groupby_partition m _ t req _ M hg).1
      exact slotsOpt_merge m.q req.stats acc M hn key V0 _ ha
        (gatherStats_lookup m _ t req _ hflat M hg key)

theorem mergedOf_lookup (m : StatsMode) (s : Schema) (ds : Dataset) (t : Table) (req : Request)
    (hflat : FlatCounting m t req) (bs : List Backend) (hc : crashOf m s ds t req bs = false) (key : String) :
    lookup (mergedOf m s ds t req bs) key =
      slotsOpt m.q req.stats (bs.flatMap (fun b =>
        keyViews m { schema := s, ds := ds, b := b } t req (req.columns.map t.colWithFallback) key)) := by
  have := foldl_mergeStats_lookup m s ds t req hflat key bs [] [] hc (by simp [lookup_nil, slotsOpt])
  simpa [mergedOf] using this

/-! ## 5. the rows the corresponding data request returns -/

/-- the evaluation mode of the corresponding data request: same quirks, same candidate selection, same
    filter evaluation, no per-backend cut -/
def dataMode (m : StatsMode) : EvalMode :=
  { q := m.q, useIndex := m.useIndex, pushDown := m.pushDown, earlyCut := false }

/-- the corresponding data request: same table, filter, auth user and backends; no Stats, Sort, Limit, Offset -/
def dataReq (req : Request) : Request := { req with stats := [], sort := [], limit := none, offset := 0 }

/-- a returned row as the view the filters and stats columns are evaluated on -/
def hitView (s : Schema) (ds : Dataset) (t : Table) (h : Hit) : View :=
  mkView { schema := s, ds := ds, b := h.b } t h.r

/-- the group-by key of a returned row: its values of the request's columns, joined -/
def hitKey (s : Schema) (ds : Dataset) (t : Table) (req : Request) (h : Hit) : String :=
  gsKey { schema := s, ds := ds, b := h.b } t (req.columns.map t.colWithFallback) h.r

theorem dataReq_hits (m : StatsMode) (s : Schema) (ds : Dataset) (t : Table) (req : Request) :
    (dataQuery (dataMode m) s ds t (dataReq req)).hits =
      (availBackends ds t req).flatMap (fun b =>
        ((gsCands m { schema := s, ds := ds, b := b } t req).filter
          (gsOk m { schema := s, ds := ds, b := b } t req)).map
          (fun r => ({ b := b, r := r, keys := [] } : Hit))) := by
  rw [C04.rows_partition (dataMode m) s ds t (dataReq req) rfl rfl rfl]
  rfl

/-- the views of the returned rows with a given key are the views the backends count under that key -/
theorem data_keyViews (m : StatsMode) (s : Schema) (ds : Dataset) (t : Table) (req : Request) (key : String) :
    (((dataQuery (dataMode m) s ds t (dataReq req)).hits.filter
        (fun h => hitKey s ds t req h == key)).map (hitView s ds t)) =
      (availBackends ds t req).flatMap (fun b =>
        keyViews m { schema := s, ds := ds, b := b } t req (req.columns.map t.colWithFallback) key) := by
  rw [dataReq_hits, List.filter_flatMap, List.map_flatMap]
  apply flatMap_congr_mem
  intro b _
  simp only [keyViews, keyRows, List.filter_map, List.map_map, List.filter_filter]
  have : ∀ r, ((fun h => hitKey s ds t req h == key) ∘ fun r => ({ b := b, r := r, keys := [] } : Hit)) r =
      (gsKey { schema := s, ds := ds, b := b } t (req.columns.map t.colWithFallback) r == key) := fun _ => rfl
  congr 1
  apply List.filter_congr
  intro r _
  rw [this r, Bool.and_comm]

/-- all returned rows, as views -/
theorem data_allViews (m : StatsMode) (s : Schema) (ds : Dataset) (t : Table) (req : Request)
    (hc : req.columns = []) :
    ((dataQuery (dataMode m) s ds t (dataReq req)).hits.map (hitView s ds t)) =
      (availBackends ds t req).flatMap (fun b =>
        keyViews m { schema := s, ds := ds, b := b } t req (req.columns.map t.colWithFallback) "") := by
  rw [← data_keyViews]
  congr 1
  symm
  rw [List.filter_eq_self]
  intro h _
  simp [hitKey, hc, gsKey, joinWith]

/-! ## 6. the whole Stats answer, key by key -/

/-- the views of the rows the corresponding data request returns under a key -/
def dataViews (m : StatsMode) (s : Schema) (ds : Dataset) (t : Table) (req : Request) (key : String) :
    List View :=
  ((dataQuery (dataMode m) s ds t (dataReq req)).hits.filter (fun h => hitKey s ds t req h == key)).map
    (hitView s ds t)

/-- with group-by columns: the entry of a key holds the slots that have seen exactly the returned rows with
    that key; no entry when there is no such row -/
theorem stats_lookup_cols (m : StatsMode) (s : Schema) (ds : Dataset) (t : Table) (req : Request)
    (hflat : FlatCounting m t req) (hcols : req.columns ≠ [])
    (hc : (statsQuery m s ds t req).crash = false) (key : String) :
    lookup (statsQuery m s ds t req).rows key = slotsOpt m.q req.stats (dataViews m s ds t req key) := by
  rw [statsQuery_crash] at hc
  have he : req.columns.isEmpty = false := by cases hx : req.columns <;> simp_all
  rw [statsQuery_rows m s ds t req hc, fixRows_isSome_cols req _ he, mergedOf_lookup m s ds t req hflat _ hc,
    dataViews, data_keyViews]

theorem stats_keys_nodup (m : StatsMode) (s : Schema) (ds : Dataset) (t : Table) (req : Request)
    (hc : (statsQuery m s ds t req).crash = false) : (keys (statsQuery m s ds t req).rows).Nodup := by
  rw [statsQuery_crash] at hc
  rw [statsQuery_rows m s ds t req hc]
  have h := mergedOf_spec m s ds t req (availBackends ds t req)
  exact (fixRows_spec req _ h.1 h.2.1).1

/-- a map with distinct keys all of which are empty has at most one entry -/
theorem single_key (M : StatsMap) (hn : (keys M).Nodup) (hk : ∀ k, (lookup M k).isSome = true → k = "") :
    M = match lookup M "" with
      | none => []
      | some x => [("", x)] := by
  cases M with
  | nil => simp [lookup_nil]
  | cons p rest =>
    obtain ⟨k, a⟩ := p
    have hk0 : k = "" := hk k (by simp [lookup_cons])
    subst hk0
    cases rest with
    | nil => simp [lookup_cons]
    | cons p' rest' =>
      obtain ⟨k', a'⟩ := p'
      have : k' = "" := hk k' (by
        rw [lookup_cons]
        split
        · rfl
        · simp [lookup_cons])
      subst this
      simp [keys] at hn

/-- without group-by columns: one line, whose slots have seen exactly the returned rows -/
theorem stats_rows_flat (m : StatsMode) (s : Schema) (ds : Dataset) (t : Table) (req : Request)
    (hflat : FlatCounting m t req) (hcols : req.columns = [])
    (hc : (statsQuery m s ds t req).crash = false) :
    (statsQuery m s ds t req).rows =
      [("", req.stats.map (slotOf m.q · ((dataQuery (dataMode m) s ds t (dataReq req)).hits.map (hitView s ds t))))] := by
  rw [statsQuery_crash] at hc
  have he : req.columns.isEmpty = true := by simp [hcols]
  rw [statsQuery_rows m s ds t req hc, data_allViews m s ds t req hcols]
  have hspec := mergedOf_spec m s ds t req (availBackends ds t req)
  have hkeys : ∀ k, (lookup (mergedOf m s ds t req (availBackends ds t req)) k).isSome = true → k = "" := by
    intro k hk
    rw [hspec.2.2.2 k, List.any_eq_true] at hk
    obtain ⟨M, hM, hs⟩ := hk
    exact mapsOf_key_empty m s ds t req _ he M hM k hs
  have hsk := single_key _ hspec.1 hkeys
  have hl := mergedOf_lookup m s ds t req hflat _ hc ""
  unfold slotsOpt at hl
  by_cases hv : (List.flatMap (fun b => keyViews m { schema := s, ds := ds, b := b } t req
      (List.map t.colWithFallback req.columns) "") (availBackends ds t req)).isEmpty = true
  · rw [if_pos hv] at hl
    rw [hl] at hsk
    rw [hsk, List.isEmpty_iff.mp hv]
    simp [fixRows, he, gsInit_slotOf m.q]
  · rw [if_neg hv] at hl
    rw [hl] at hsk
    rw [hsk]
    simp [fixRows]

/-! ## 7. the answer as the merge of the single-backend answers -/

theorem mergeStats_append (M : StatsMap) : ∀ a : StatsMap, (keys (a ++ M)).Nodup → mergeStats a M = a ++ M := by
  induction M with
  | nil => intro a _; simp [mergeStats]
  | cons p M ih =>
    intro a hn
    obtain ⟨k, sl⟩ := p
    rw [mergeStats_eq_foldl, List.foldl_cons, ← mergeStats_eq_foldl]
    have hk : k ∉ keys a := by
      simp only [keys, List.map_append, List.map_cons, List.nodup_append] at hn
      intro hmem
      exact hn.2.2 k hmem k (by simp) rfl
    have hstep : mergeStep a (k, sl) = a ++ [(k, sl)] := by
      have hl : lookup a k = none := (lookup_none_iff a k).mpr hk
      unfold mergeStep
      cases hf : a.find? (·.1 == k) with
      | none => rfl
      | some x => simp [lookup, hf] at hl
    rw [hstep, ih _ (by simpa using hn)]
    simp

theorem mergeStats_nil_left (M : StatsMap) (hn : (keys M).Nodup) : mergeStats [] M = M := by
  simpa using mergeStats_append M [] (by simpa using hn)

theorem filterMap_eq_map {α β : Type} (f : α → Option β) (g : α → β) :
    ∀ l : List α, (∀ a ∈ l, f a = some (g a)) → l.filterMap f = l.map g
  | [], _ => rfl
  | a :: l, h => by
    rw [List.filterMap_cons, h a (by simp), List.map_cons,
      filterMap_eq_map f g l (fun b hb => h b (List.mem_cons_of_mem _ hb))]

/-- what `Backends: b` answers to a Stats request, for an available backend that does not crash -/
theorem statsQuery_only (m : StatsMode) (s : Schema) (ds : Dataset) (t : Table) (req : Request)
    (ht : C04.Ordinary t) (hid : (ds.backends.map (·.id)).Nodup) (b : Backend) (hb : b ∈ ds.backends)
    (hav : backendAvailable b t = true) (M : StatsMap) (hg : gsOf m s ds t req b = some M) :
    (statsQuery m s ds t (only req b.id)).rows = fixRows req M ∧
      (statsQuery m s ds t (only req b.id)).crash = false := by
  have ha := avail_only ds t req ht hid b hb
  rw [hav, if_pos rfl] at ha
  have hg' : gsOf m s ds t (only req b.id) b = some M := hg
  have hcr : crashOf m s ds t (only req b.id) [b] = false := by simp [crashOf, hg']
  have hn : (keys M).Nodup := (C05.groupby_partition m _ t req _ M hg).1
  constructor
  · rw [statsQuery_rows m s ds t _ (by rw [ha]; exact hcr), ha]
    have : mergedOf m s ds t (only req b.id) [b] = M := by
      simp [mergedOf, mapsOf, hg', mergeStats_nil_left M hn]
    rw [this]
    rfl
  · rw [statsQuery_crash, ha]; exact hcr

/-- under group-by columns the whole answer is the left-to-right `MergeStats` of the single-backend answers -/
theorem rows_eq_merge_singles (m : StatsMode) (s : Schema) (ds : Dataset) (t : Table) (req : Request)
    (ht : C04.Ordinary t) (hid : (ds.backends.map (·.id)).Nodup) (hcols : req.columns ≠ [])
    (hc : (statsQuery m s ds t req).crash = false) :
    (statsQuery m s ds t req).rows =
        ((availBackends ds t req).map (fun b => (statsQuery m s ds t (only req b.id)).rows)).foldl mergeStats [] ∧
      ∀ b ∈ availBackends ds t req, (statsQuery m s ds t (only req b.id)).crash = false := by
  rw [statsQuery_crash] at hc
  have he : req.columns.isEmpty = false := by cases hx : req.columns <;> simp_all
  have hsome : ∀ b ∈ availBackends ds t req, ∃ M, gsOf m s ds t req b = some M := by
    intro b hb
    cases hg : gsOf m s ds t req b with
    | some M => exact ⟨M, rfl⟩
    | none =>
      have : crashOf m s ds t req (availBackends ds t req) = true := by
        simp only [crashOf, List.any_eq_true]
        exact ⟨b, hb, by simp [hg]⟩
      rw [hc] at this; cases this
  have hsingle : ∀ b ∈ availBackends ds t req,
      gsOf m s ds t req b = some (statsQuery m s ds t (only req b.id)).rows ∧
        (statsQuery m s ds t (only req b.id)).crash = false := by
    intro b hb
    obtain ⟨M, hM⟩ := hsome b hb
    obtain ⟨_, hb', hav⟩ := avail_subset ds t req b hb
    have := statsQuery_only m s ds t req ht hid b hb' hav M hM
    rw [this.1, fixRows_isSome_cols req _ he]
    exact ⟨hM, this.2⟩
  refine ⟨?_, fun b hb => (hsingle b hb).2⟩
  rw [statsQuery_rows m s ds t req hc, fixRows_isSome_cols req _ he, mergedOf, mapsOf,
    filterMap_eq_map _ _ _ (fun b hb => (hsingle b hb).1)]

/-! ## 8. order does not matter -/

/-- feeding two values to a slot in either order gives the same slot -/
theorem apply_comm (a : Acc) (x y : Int) : (a.apply x 1).apply y 1 = (a.apply y 1).apply x 1 := by
  obtain ⟨k, st, c⟩ := a
  cases k
  · simp [Acc.apply]
  · simp [Acc.apply]; omega
  · simp [Acc.apply]; omega
  · by_cases hc : c = 0
    · subst hc
      simp only [Acc.apply, Acc.mk.injEq, true_and]
      simp
      split <;> split <;> omega
    · simp only [Acc.apply, Acc.mk.injEq, true_and]
      simp [hc]
      split <;> split <;> (try split) <;> (try split) <;> omega
  · by_cases hc : c = 0
    · subst hc
      simp only [Acc.apply, Acc.mk.injEq, true_and]
      simp
      split <;> split <;> omega
    · simp only [Acc.apply, Acc.mk.injEq, true_and]
      simp [hc]
      split <;> split <;> (try split) <;> (try split) <;> omega

theorem accOf_perm (k : AccKind) {xs ys : List Int} (h : xs.Perm ys) : accOf k xs = accOf k ys :=
  h.foldl_eq' (fun x _ y _ z => apply_comm z x y) _

theorem valsOf_perm (q : Quirks) (e : StatsEntry) {V W : List View} (h : V.Perm W) :
    (valsOf q e V).Perm (valsOf q e W) := by
  cases e with
  | counter f => exact (h.filter _).map _
  | agg k col n => exact h.filterMap _

theorem slotOf_perm (q : Quirks) (e : StatsEntry) {V W : List View} (h : V.Perm W) :
    slotOf q e V = slotOf q e W := accOf_perm _ (valsOf_perm q e h)

theorem slotsOpt_perm (q : Quirks) (stats : List StatsEntry) {V W : List View} (h : V.Perm W) :
    slotsOpt q stats V = slotsOpt q stats W := by
  unfold slotsOpt
  have he : V.isEmpty = W.isEmpty := by
    have := h.length_eq
    cases V <;> cases W <;> simp_all
  rw [he]
  congr 2
  apply List.map_congr_left
  intro e _
  exact slotOf_perm q e h

/-- the views all selected, available backends count under a key, in configuration order -/
def availViews (m : StatsMode) (s : Schema) (ds : Dataset) (t : Table) (req : Request) (key : String) :
    List View :=
  (availBackends ds t req).flatMap (fun b =>
    keyViews m { schema := s, ds := ds, b := b } t req (req.columns.map t.colWithFallback) key)

theorem dataViews_eq (m : StatsMode) (s : Schema) (ds : Dataset) (t : Table) (req : Request) (key : String) :
    dataViews m s ds t req key = availViews m s ds t req key := data_keyViews m s ds t req key

theorem keyViews_congr {cx cx' : Ctx} (h : Lemmas.SameView cx cx') (m : StatsMode) (t : Table) (req : Request)
    (reqCols : List Column) (key : String) :
    keyViews m cx t req reqCols key = keyViews m cx' t req reqCols key := by
  have h1 : checkAuth cx t req.authUser = checkAuth cx' t req.authUser :=
    funext (Lemmas.checkAuth_congr h t _)
  have h2 : mkView cx t = mkView cx' t := funext (Lemmas.mkView_congr h t)
  simp only [keyViews, keyRows, gsCands, gsOk, gsKey, Lemmas.tableRows_congr h, Lemmas.preFiltered_congr h, h1, h2]

/-- a dataset with the same backends in another order -/
structure Reordered (ds ds' : Dataset) : Prop where
  perm : ds'.backends.Perm ds.backends
  sal : ds'.serviceAuthLoose = ds.serviceAuthLoose
  gal : ds'.groupAuthLoose = ds.groupAuthLoose

theorem avail_reordered {ds ds' : Dataset} (t : Table) (req : Request) (ht : C04.Ordinary t)
    (h : Reordered ds ds') : (availBackends ds' t req).Perm (availBackends ds t req) := by
  rw [avail_eq ds' t req ht, avail_eq ds t req ht]
  exact h.perm.filter _

theorem availViews_reordered {ds ds' : Dataset} (m : StatsMode) (s : Schema) (t : Table) (req : Request)
    (ht : C04.Ordinary t) (h : Reordered ds ds') (key : String) :
    (availViews m s ds' t req key).Perm (availViews m s ds t req key) := by
  unfold availViews
  have : ∀ b, keyViews m { schema := s, ds := ds', b := b } t req (req.columns.map t.colWithFallback) key =
      keyViews m { schema := s, ds := ds, b := b } t req (req.columns.map t.colWithFallback) key :=
    fun b => keyViews_congr (cx := { schema := s, ds := ds', b := b }) (cx' := { schema := s, ds := ds, b := b })
      ⟨rfl, rfl, h.sal, h.gal⟩ m t req _ key
  exact (List.Perm.of_eq (flatMap_congr_mem (fun b _ => this b))).trans
    ((avail_reordered t req ht h).flatMap_right _)

theorem crash_reordered {ds ds' : Dataset} (m : StatsMode) (s : Schema) (t : Table) (req : Request)
    (ht : C04.Ordinary t) (h : Reordered ds ds') :
    (statsQuery m s ds' t req).crash = (statsQuery m s ds t req).crash := by
  rw [statsQuery_crash, statsQuery_crash, crashOf, crashOf, gsOf_congr m s ds ds' t req h.sal h.gal]
  exact (avail_reordered t req ht h).any_eq

/-! ## 9. flat Stats: the single line as the slot-wise merge of the single-backend lines -/

theorem foldl_zipMerge_slots (q : Quirks) (stats : List StatsEntry) (Vf : Backend → List View) :
    ∀ (bs : List Backend) (V0 : List View),
      (bs.map (fun b => stats.map (slotOf q · (Vf b)))).foldl zipMerge (stats.map (slotOf q · V0)) =
        stats.map (slotOf q · (V0 ++ bs.flatMap Vf))
  | [], V0 => by simp
  | b :: bs, V0 => by
    simp only [List.map_cons, List.foldl_cons, zipMerge_slots, List.flatMap_cons]
    rw [foldl_zipMerge_slots q stats Vf bs (V0 ++ Vf b), List.append_assoc]

/-- the line `Backends: b` answers to a flat Stats request -/
theorem single_rows_flat (m : StatsMode) (s : Schema) (ds : Dataset) (t : Table) (req : Request)
    (ht : C04.Ordinary t) (hid : (ds.backends.map (·.id)).Nodup) (hflat : FlatCounting m t req)
    (hcols : req.columns = []) (b : Backend) (hb : b ∈ ds.backends) (hav : backendAvailable b t = true)
    (M : StatsMap) (hg : gsOf m s ds t req b = some M) :
    (statsQuery m s ds t (only req b.id)).rows =
        [("", req.stats.map (slotOf m.q ·
          (keyViews m { schema := s, ds := ds, b := b } t req (req.columns.map t.colWithFallback) "")))] ∧
      (statsQuery m s ds t (only req b.id)).crash = false := by
  have hcr := (statsQuery_only m s ds t req ht hid b hb hav M hg).2
  refine ⟨?_, hcr⟩
  have hflat' : FlatCounting m t (only req b.id) := fun cx r accs => hflat cx r accs
  have h1 := stats_rows_flat m s ds t (only req b.id) hflat' hcols hcr
  have e1 : (dataQuery (dataMode m) s ds t (dataReq (only req b.id))).hits.map (hitView s ds t) =
      availViews m s ds t (only req b.id) "" := data_allViews m s ds t (only req b.id) hcols
  have ha := avail_only ds t req ht hid b hb
  rw [hav, if_pos rfl] at ha
  have e2 : availViews m s ds t (only req b.id) "" =
      keyViews m { schema := s, ds := ds, b := b } t req (req.columns.map t.colWithFallback) "" := by
    unfold availViews
    rw [ha]
    simp only [List.flatMap_cons, List.flatMap_nil, List.append_nil]
    rfl
  rw [e1, e2] at h1
  exact h1

theorem flat_rows_merge_singles (m : StatsMode) (s : Schema) (ds : Dataset) (t : Table) (req : Request)
    (ht : C04.Ordinary t) (hid : (ds.backends.map (·.id)).Nodup) (hflat : FlatCounting m t req)
    (hcols : req.columns = []) (hc : (statsQuery m s ds t req).crash = false) :
    ∃ x : Backend → Accs,
      (∀ b ∈ availBackends ds t req,
        (statsQuery m s ds t (only req b.id)).rows = [("", x b)] ∧
          (statsQuery m s ds t (only req b.id)).crash = false) ∧
      (statsQuery m s ds t req).rows =
        [("", ((availBackends ds t req).map x).foldl zipMerge (req.stats.map (fun e => Acc.init e.accKind)))] := by
  refine ⟨fun b => req.stats.map (slotOf m.q ·
    (keyViews m { schema := s, ds := ds, b := b } t req (req.columns.map t.colWithFallback) "")), ?_, ?_⟩
  · intro b hb
    obtain ⟨_, hb', hav⟩ := avail_subset ds t req b hb
    have hc' := hc
    rw [statsQuery_crash] at hc'
    cases hg : gsOf m s ds t req b with
    | some M => exact single_rows_flat m s ds t req ht hid hflat hcols b hb' hav M hg
    | none =>
      have : crashOf m s ds t req (availBackends ds t req) = true := by
        simp only [crashOf, List.any_eq_true]
        exact ⟨b, hb, by simp [hg]⟩
      rw [hc'] at this; cases this
  · have h1 := stats_rows_flat m s ds t req hflat hcols hc
    have e1 : (dataQuery (dataMode m) s ds t (dataReq req)).hits.map (hitView s ds t) =
        availViews m s ds t req "" := data_allViews m s ds t req hcols
    rw [e1] at h1
    have hinit : req.stats.map (fun e => Acc.init e.accKind) = req.stats.map (slotOf m.q · []) := by
      simp only [slotOf_nil]
    have h2 := foldl_zipMerge_slots m.q req.stats (fun b =>
      keyViews m { schema := s, ds := ds, b := b } t req (req.columns.map t.colWithFallback) "")
      (availBackends ds t req) []
    rw [List.nil_append] at h2
    rw [hinit, h2]
    exact h1

end Lmd.Union
