/-
  Helper lemmas about `Lmd.insertById` / `Lmd.affectedTables` / `Lmd.tablesRead` (property C14, part A).

  `lockFold s names acc` is the fold `affectedTables` runs; the lemmas say what is in its result:
   * nothing that was in the accumulator is ever dropped (`subset_lockFold`),
   * nothing is invented (`mem_lockFold`),
   * every name leaves an element with the same table id (`lockFold_has_id`), the name itself if table ids
     are injective on the names (`lockFold_exact`),
   * the result is strictly sorted by table id (`lockFold_sorted`).
  `LeafIn l f` says that the filter term `l` occurs somewhere in the filter tree `f`.
-/
import Lmd.Locks

namespace Lmd.LockLemmas
open Lmd

/-! ## `insertById` -/

/-- strictly increasing table ids -/
def SortedById (s : Schema) (l : List String) : Prop := l.Pairwise (fun a b => tableId s a < tableId s b)

theorem mem_insertById {s : Schema} {x y : String} : ∀ {l : List String}, y ∈ insertById s x l → y = x ∨ y ∈ l
  | [], h => by
    simp only [insertById, List.mem_singleton] at h
    exact Or.inl h
  | z :: zs, h => by
    unfold insertById at h
    split at h
    · rcases List.mem_cons.1 h with h | h
      · exact Or.inl h
      · exact Or.inr h
    · split at h
      · exact Or.inr h
      · rcases List.mem_cons.1 h with h | h
        · exact Or.inr (h ▸ List.mem_cons_self)
        · rcases mem_insertById h with h | h
          · exact Or.inl h
          · exact Or.inr (List.mem_cons_of_mem _ h)

/-- `insertById` never drops an element that is already in the list -/
theorem mem_insertById_of_mem {s : Schema} {x y : String} : ∀ {l : List String}, y ∈ l → y ∈ insertById s x l
  | [], h => by cases h
  | z :: zs, h => by
    unfold insertById
    split
    · exact List.mem_cons_of_mem _ h
    · split
      · exact h
      · rcases List.mem_cons.1 h with h | h
        · exact h ▸ List.mem_cons_self
        · exact List.mem_cons_of_mem _ (mem_insertById_of_mem h)

/-- the inserted name is in the result, unless a name with the same table id was there already -/
theorem insertById_self_or {s : Schema} {x : String} :
    ∀ (l : List String), x ∈ insertById s x l ∨ ∃ y ∈ l, tableId s y = tableId s x
  | [] => by
    simp [insertById]
  | z :: zs => by
    unfold insertById
    split
    · exact Or.inl List.mem_cons_self
    · split
      · rename_i h
        exact Or.inr ⟨z, List.mem_cons_self, (beq_iff_eq.1 h).symm⟩
      · rcases insertById_self_or zs with h | ⟨y, hy, hid⟩
        · exact Or.inl (List.mem_cons_of_mem _ h)
        · exact Or.inr ⟨y, List.mem_cons_of_mem _ hy, hid⟩

/-- after the insertion some element has the table id of the inserted name -/
theorem insertById_has_id {s : Schema} {x : String} (l : List String) :
    ∃ y ∈ insertById s x l, tableId s y = tableId s x := by
  rcases insertById_self_or (s := s) (x := x) l with h | ⟨y, hy, hid⟩
  · exact ⟨x, h, rfl⟩
  · exact ⟨y, mem_insertById_of_mem hy, hid⟩

theorem insertById_sorted {s : Schema} {x : String} :
    ∀ {l : List String}, SortedById s l → SortedById s (insertById s x l)
  | [], _ => by
    simp [insertById, SortedById]
  | z :: zs, h => by
    unfold SortedById at h ⊢
    rw [List.pairwise_cons] at h
    unfold insertById
    split
    · rename_i hlt
      rw [List.pairwise_cons, List.pairwise_cons]
      refine ⟨?_, h.1, h.2⟩
      intro a ha
      rcases List.mem_cons.1 ha with rfl | ha
      · exact hlt
      · exact Nat.lt_trans hlt (h.1 a ha)
    · split
      · rw [List.pairwise_cons]
        exact h
      · rename_i hnlt hne
        rw [List.pairwise_cons]
        refine ⟨?_, insertById_sorted (s := s) (x := x) h.2⟩
        intro a ha
        rcases mem_insertById ha with rfl | ha
        · have hne' : ¬ tableId s a = tableId s z := fun e => hne (beq_iff_eq.2 e)
          omega
        · exact h.1 a ha

/-! ## the fold of `affectedTables` -/

/-- the fold `affectedTables` runs over its list of names -/
def lockFold (s : Schema) (names acc : List String) : List String :=
  names.foldl (fun acc x => insertById s x acc) acc

@[simp] theorem lockFold_nil (s : Schema) (acc : List String) : lockFold s [] acc = acc := rfl
@[simp] theorem lockFold_cons (s : Schema) (x : String) (names acc : List String) :
    lockFold s (x :: names) acc = lockFold s names (insertById s x acc) := rfl

theorem lockFold_append (s : Schema) (as bs acc : List String) :
    lockFold s (as ++ bs) acc = lockFold s bs (lockFold s as acc) := by
  unfold lockFold
  rw [List.foldl_append]

theorem subset_lockFold {s : Schema} {y : String} :
    ∀ (names : List String) {acc : List String}, y ∈ acc → y ∈ lockFold s names acc
  | [], _, h => h
  | _ :: rest, _, h => subset_lockFold rest (mem_insertById_of_mem h)

theorem mem_lockFold {s : Schema} {y : String} :
    ∀ (names : List String) {acc : List String}, y ∈ lockFold s names acc → y ∈ acc ∨ y ∈ names
  | [], _, h => Or.inl h
  | x :: rest, acc, h => by
    rcases mem_lockFold rest (acc := insertById s x acc) h with h | h
    · rcases mem_insertById h with h | h
      · exact Or.inr (h ▸ List.mem_cons_self)
      · exact Or.inl h
    · exact Or.inr (List.mem_cons_of_mem _ h)

theorem lockFold_has_id {s : Schema} {x : String} :
    ∀ (names : List String) (acc : List String), x ∈ names → ∃ y ∈ lockFold s names acc, tableId s y = tableId s x
  | [], _, h => by cases h
  | a :: rest, acc, h => by
    rcases List.mem_cons.1 h with rfl | h
    · obtain ⟨y, hy, hid⟩ := insertById_has_id (s := s) (x := x) acc
      exact ⟨y, subset_lockFold rest hy, hid⟩
    · exact lockFold_has_id rest _ h

/-- table ids are injective on the list: different names have different ids (different locks) -/
def IdsInjective (s : Schema) (names : List String) : Prop :=
  ∀ a ∈ names, ∀ b ∈ names, tableId s a = tableId s b → a = b

theorem lockFold_exact {s : Schema} {x : String} :
    ∀ (names : List String) (acc : List String), IdsInjective s (acc ++ names) → x ∈ names → x ∈ lockFold s names acc
  | [], _, _, h => by cases h
  | a :: rest, acc, hinj, h => by
    rw [lockFold_cons]
    have hinj' : IdsInjective s (insertById s a acc ++ rest) := by
      intro u hu v hv
      have hu' : u ∈ acc ++ a :: rest := by
        rcases List.mem_append.1 hu with hu | hu
        · rcases mem_insertById hu with rfl | hu
          · exact List.mem_append_right _ List.mem_cons_self
          · exact List.mem_append_left _ hu
        · exact List.mem_append_right _ (List.mem_cons_of_mem _ hu)
      have hv' : v ∈ acc ++ a :: rest := by
        rcases List.mem_append.1 hv with hv | hv
        · rcases mem_insertById hv with rfl | hv
          · exact List.mem_append_right _ List.mem_cons_self
          · exact List.mem_append_left _ hv
        · exact List.mem_append_right _ (List.mem_cons_of_mem _ hv)
      exact hinj u hu' v hv'
    rcases List.mem_cons.1 h with rfl | h
    · apply subset_lockFold
      rcases insertById_self_or (s := s) (x := x) acc with h | ⟨y, hy, hid⟩
      · exact h
      · have : y = x :=
          hinj y (List.mem_append_left _ hy) x (List.mem_append_right _ List.mem_cons_self) hid
        exact this ▸ mem_insertById_of_mem hy
    · exact lockFold_exact rest _ hinj' h

theorem lockFold_sorted {s : Schema} :
    ∀ (names : List String) {acc : List String}, SortedById s acc → SortedById s (lockFold s names acc)
  | [], _, h => h
  | _ :: rest, _, h => lockFold_sorted rest (insertById_sorted h)

/-! ## `affectedTables` as a fold -/

/-- the references that `AuthUser` adds to the locked tables -/
def authTables (t : Table) (req : Request) : List String :=
  if req.authUser != "" then t.refs.map (·.table) else []

theorem affectedTables_eq (s : Schema) (t : Table) (req : Request) :
    affectedTables s t req = lockFold s (tablesRead s t req ++ authTables t req) [] := rfl

theorem idsInjective_of_subset {s : Schema} {l l' : List String} (h : IdsInjective s l') (hs : ∀ x ∈ l, x ∈ l') :
    IdsInjective s l := fun a ha b hb e => h a (hs a ha) b (hs b hb) e

/-- in a schema in which different tables have different ids, table ids are injective on every list of
    names of existing tables (in lmd the id of a table is its position in the list of table names) -/
theorem idsInjective_of_schema {s : Schema} {names : List String}
    (hs : ∀ t1 ∈ s.tables, ∀ t2 ∈ s.tables, t1.tid = t2.tid → t1.name = t2.name)
    (hn : ∀ n ∈ names, (s.table? n).isSome = true) : IdsInjective s names := by
  intro a ha b hb e
  have ha' := hn a ha
  have hb' := hn b hb
  rw [Option.isSome_iff_exists] at ha' hb'
  obtain ⟨ta, hta⟩ := ha'
  obtain ⟨tb, htb⟩ := hb'
  unfold tableId at e
  rw [hta, htb] at e
  unfold Schema.table? at hta htb
  have h1 := List.find?_some hta
  have h2 := List.find?_some htb
  have m1 := List.mem_of_find?_eq_some hta
  have m2 := List.mem_of_find?_eq_some htb
  have := hs ta m1 tb m2 e
  rw [← beq_iff_eq.1 h1, ← beq_iff_eq.1 h2]
  exact this

/-! ## filter terms inside filter trees -/

/-- the filter term `l` occurs somewhere in the filter tree -/
inductive LeafIn (l : Leaf) : Filter → Prop
  | here (neg : Bool) : LeafIn l (.leaf l neg)
  | inGrp {isAnd : Bool} {fs : List Filter} {neg : Bool} {f : Filter} : f ∈ fs → LeafIn l f → LeafIn l (.grp isAnd fs neg)

theorem filtersColumns_of_mem {c : Column} {f : Filter} :
    ∀ {fs : List Filter}, f ∈ fs → c ∈ filterColumns f → c ∈ filtersColumns fs
  | [], h, _ => by cases h
  | g :: gs, h, hc => by
    rw [filtersColumns]
    rcases List.mem_cons.1 h with rfl | h
    · exact List.mem_append_left _ hc
    · exact List.mem_append_right _ (filtersColumns_of_mem h hc)

theorem leafIn_filterColumns {l : Leaf} {f : Filter} (h : LeafIn l f) : l.col ∈ filterColumns f := by
  induction h with
  | here neg => simp [filterColumns]
  | inGrp hm _ ih =>
    rw [filterColumns]
    exact filtersColumns_of_mem hm ih

theorem leafIn_filtersColumns {l : Leaf} {f : Filter} {fs : List Filter} (hm : f ∈ fs) (h : LeafIn l f) :
    l.col ∈ filtersColumns fs := filtersColumns_of_mem hm (leafIn_filterColumns h)

theorem statsColumns_counter {c : Column} {f : Filter} :
    ∀ {st : List StatsEntry}, StatsEntry.counter f ∈ st → c ∈ filterColumns f → c ∈ statsColumns st
  | [], h, _ => by cases h
  | e :: rest, h, hc => by
    rcases List.mem_cons.1 h with rfl | h'
    · rw [statsColumns]
      exact List.mem_append_left _ hc
    · cases e with
      | counter g =>
        rw [statsColumns]
        exact List.mem_append_right _ (statsColumns_counter h' hc)
      | agg k c' n =>
        rw [statsColumns]
        exact List.mem_cons_of_mem _ (statsColumns_counter h' hc)

theorem statsColumns_agg {c : Column} {k : AggKind} {n : Bool} :
    ∀ {st : List StatsEntry}, StatsEntry.agg k c n ∈ st → c ∈ statsColumns st
  | [], h => by cases h
  | e :: rest, h => by
    rcases List.mem_cons.1 h with rfl | h'
    · rw [statsColumns]
      exact List.mem_cons_self
    · cases e with
      | counter g =>
        rw [statsColumns]
        exact List.mem_append_right _ (statsColumns_agg h')
      | agg k' c' n' =>
        rw [statsColumns]
        exact List.mem_cons_of_mem _ (statsColumns_agg h')

/-! ## which columns are used, which tables a column reads -/

theorem used_of_request {t : Table} {req : Request} {c : Column} (h : c ∈ requestColumns t req) :
    c ∈ usedColumns t req := by
  simp only [usedColumns, List.mem_append]
  exact Or.inl (Or.inl (Or.inl (Or.inl h)))

theorem used_of_filter {t : Table} {req : Request} {c : Column} (h : c ∈ filtersColumns req.filter) :
    c ∈ usedColumns t req := by
  simp only [usedColumns, List.mem_append]
  exact Or.inl (Or.inl (Or.inl (Or.inr h)))

theorem used_of_stats {t : Table} {req : Request} {c : Column} (h : c ∈ statsColumns req.stats) :
    c ∈ usedColumns t req := by
  simp only [usedColumns, List.mem_append]
  exact Or.inl (Or.inl (Or.inr h))

theorem used_of_wait {t : Table} {req : Request} {c : Column} (h : c ∈ filtersColumns req.waitCondition) :
    c ∈ usedColumns t req := by
  simp only [usedColumns, List.mem_append]
  exact Or.inl (Or.inr h)

theorem used_of_sort {t : Table} {req : Request} {c : Column} {sf : SortField} (hm : sf ∈ req.sort)
    (hc : sf.col = some c) : c ∈ usedColumns t req := by
  simp only [usedColumns, List.mem_append]
  exact Or.inr (List.mem_filterMap.2 ⟨sf, hm, hc⟩)

theorem tablesRead_of_used {s : Schema} {t : Table} {req : Request} {c : Column} {x : String}
    (hc : c ∈ usedColumns t req) (hx : x ∈ columnTables s c) : x ∈ tablesRead s t req := by
  unfold tablesRead
  exact List.mem_cons_of_mem _ (List.mem_flatMap.2 ⟨c, hc, hx⟩)

/-- a reference column reads the table it refers to -/
theorem refTable_mem_columnTables (s : Schema) {c : Column} (h : c.storage = .ref) : c.refTable ∈ columnTables s c := by
  unfold columnTables
  rw [h]
  exact List.mem_cons_self

theorem isCrossVirtual_storage {c : Column} (h : isCrossVirtual c = true) : c.storage = .virt := by
  unfold isCrossVirtual at h
  rw [Bool.and_eq_true] at h
  exact beq_iff_eq.1 h.1

/-- a `*_with_info` / `*_with_state` column reads hosts, services, comments and downtimes -/
theorem cross_mem_columnTables (s : Schema) {c : Column} (h : isCrossVirtual c = true) {x : String}
    (hx : x ∈ crossTables) : x ∈ columnTables s c := by
  unfold columnTables
  rw [isCrossVirtual_storage h]
  simp only [h, if_true]
  exact hx

/-- a reference column whose target is a `*_with_info` / `*_with_state` column reads those four tables too -/
theorem cross_mem_columnTables_ref (s : Schema) {c rc : Column} (h : c.storage = .ref)
    (hrc : (s.table? c.refTable).bind (·.col? c.refCol) = some rc) (hv : isCrossVirtual rc = true) {x : String}
    (hx : x ∈ crossTables) : x ∈ columnTables s c := by
  unfold columnTables
  rw [h]
  simp only [hrc, hv, if_true]
  exact List.mem_cons_of_mem _ hx

end Lmd.LockLemmas
