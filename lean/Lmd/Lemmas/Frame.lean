/-
  Lmd.Lemmas.Frame — helper lemmas for C10: decimal digits of a number, the character list of the
  fixed16 status line, the keep-alive plan, JSON kinds.
-/
import Lmd.Frame
import Lmd.Render
import Std.Data.String.ToNat

namespace Lmd.Frame
open Lmd

/-! ## decimal digits -/

/-- the decimal digits of a number (what `toString` prints) -/
abbrev digits (n : Nat) : List Char := Nat.toDigits 10 n

theorem toString_toList (n : Nat) : (toString n).toList = digits n := by
  simp

theorem toString_length (n : Nat) : (toString n).length = (digits n).length := by
  rw [← String.length_toList, toString_toList]

theorem repr_length (n : Nat) : n.repr.length = (digits n).length := toString_length n

theorem digits_length_le {n k : Nat} (hk : 0 < k) (h : n < 10 ^ k) : (digits n).length ≤ k :=
  (Nat.length_toDigits_le_iff (by omega) hk).2 h

theorem digits_length_gt {n k : Nat} (hk : 0 < k) (h : 10 ^ k ≤ n) : k < (digits n).length := by
  have := (Nat.length_toDigits_le_iff (b := 10) (n := n) (by omega) hk)
  show k < (Nat.toDigits 10 n).length
  omega

/-- a three digit status code prints as three characters -/
theorem digits_length_code {code : Nat} (h1 : 100 ≤ code) (h2 : code ≤ 999) : (digits code).length = 3 := by
  have a := digits_length_le (n := code) (k := 3) (by omega) (by omega)
  have b := digits_length_gt (n := code) (k := 2) (by omega) (by omega)
  omega

theorem digits_isDigit {n : Nat} {c : Char} (h : c ∈ digits n) : c.isDigit = true :=
  Nat.isDigit_of_mem_toDigits (by omega) (by omega) h

theorem digits_ne_nil (n : Nat) : digits n ≠ [] := Nat.toDigits_ne_nil

theorem space_not_digit : (' ' : Char).isDigit = false := by decide

theorem dropWhile_pad (k : Nat) (n : Nat) :
    (List.replicate k ' ' ++ digits n).dropWhile (· == ' ') = digits n := by
  induction k with
  | zero =>
    cases h : digits n with
    | nil => exact absurd h (digits_ne_nil n)
    | cons c cs =>
      have hc : c.isDigit = true := digits_isDigit (n := n) (by rw [h]; exact List.mem_cons_self)
      have : c ≠ ' ' := by
        intro e; rw [e] at hc; exact absurd hc (by decide)
      simp [this]
  | succ k ih =>
    simpa [List.replicate_succ, List.dropWhile_cons] using ih

theorem toNat?_ofList_digits (n : Nat) : (String.ofList (digits n)).toNat? = some n := by
  have := Nat.toNat?_repr n
  rwa [Nat.repr_eq_ofList_toDigits] at this

/-! ## the status line as a character list -/

/-- the eleven character field: the number right-aligned, padded with spaces -/
def field11 (n : Nat) : List Char := List.replicate (11 - (digits n).length) ' ' ++ digits n

theorem padLeft_toList (n : Nat) : (padLeft 11 (toString n)).toList = field11 n := by
  simp [padLeft, field11, repr_length, String.toList_append]

theorem header_toList (code size : Nat) :
    (fixed16Header code size).toList = digits code ++ ' ' :: (field11 (size + 1) ++ ['\n']) := by
  unfold fixed16Header
  rw [String.toList_append, String.toList_append, String.toList_append, padLeft_toList, toString_toList]
  simp

theorem field11_length {n : Nat} (h : n < 10 ^ 11) : (field11 n).length = 11 := by
  have := digits_length_le (n := n) (k := 11) (by omega) h
  simp [field11]; omega

/-! ## bytes -/

theorem utf8ByteSize_ofList (l : List Char) : (String.ofList l).utf8ByteSize = (l.map Char.utf8Size).sum := by
  induction l with
  | nil => simp
  | cons c cs ih =>
    have : String.ofList (c :: cs) = String.singleton c ++ String.ofList cs := by
      rw [String.singleton_eq_ofList, ← String.ofList_append]; rfl
    rw [this, String.utf8ByteSize_append, String.utf8ByteSize_singleton, ih]; simp

theorem ascii_size {c : Char} (h : c.toNat ≤ 127) : c.utf8Size = 1 := by
  have : c.val ≤ 127 := by
    rw [UInt32.le_iff_toNat_le]
    exact h
  simp [Char.utf8Size, this]

theorem digit_ascii {c : Char} (h : c.isDigit = true) : c.toNat ≤ 127 := by
  simp only [Char.isDigit, Bool.and_eq_true, decide_eq_true_eq] at h
  have h2 := h.2
  rw [UInt32.le_iff_toNat_le] at h2
  have : ('9' : Char).val.toNat = 57 := rfl
  show c.val.toNat ≤ 127
  omega

theorem sum_sizes_ascii (l : List Char) (h : ∀ c ∈ l, c.toNat ≤ 127) : (l.map Char.utf8Size).sum = l.length := by
  induction l with
  | nil => rfl
  | cons c cs ih =>
    have h1 := ascii_size (h c List.mem_cons_self)
    have h2 := ih (fun x hx => h x (List.mem_cons_of_mem _ hx))
    simp [h1, h2]; omega

/-- a string of ASCII characters occupies one byte per character -/
theorem utf8ByteSize_ascii (s : String) (h : ∀ c ∈ s.toList, c.toNat ≤ 127) : s.utf8ByteSize = s.length := by
  have e : s.utf8ByteSize = (String.ofList s.toList).utf8ByteSize := by rw [String.ofList_toList]
  rw [e, utf8ByteSize_ofList, sum_sizes_ascii _ h, String.length_toList]

theorem header_ascii (code size : Nat) : ∀ c ∈ (fixed16Header code size).toList, c.toNat ≤ 127 := by
  intro c hc
  rw [header_toList] at hc
  simp only [List.mem_append, List.mem_cons, field11, List.mem_replicate] at hc
  rcases hc with h | h | (⟨_, h⟩ | h) | h | h
  · exact digit_ascii (digits_isDigit h)
  · subst h; decide
  · subst h; decide
  · exact digit_ascii (digits_isDigit h)
  · subst h; decide
  · simp at h

/-! ## the keep-alive plan -/

/-- the request an action refers to -/
def Action.idx : Action → Nat
  | .answer i => i
  | .parseError i => i

def Action.isParseError : Action → Bool
  | .parseError _ => true
  | .answer _ => false

theorem plan_idx (i : Nat) (reqs : List WireReq) (k : Nat) (a : Action)
    (h : (sessionPlan i reqs)[k]? = some a) : Action.idx a = i + k := by
  induction reqs generalizing i k with
  | nil => simp [sessionPlan] at h
  | cons r rest ih =>
    unfold sessionPlan at h
    split at h
    · cases k with
      | zero => simp at h; subst h; rfl
      | succ k => simp at h
    · split at h
      · cases k with
        | zero => simp at h; subst h; rfl
        | succ k =>
          simp only [List.getElem?_cons_succ] at h
          have := ih (i + 1) k h
          omega
      · cases k with
        | zero => simp at h; subst h; rfl
        | succ k => simp at h

theorem plan_length_le (i : Nat) (reqs : List WireReq) : (sessionPlan i reqs).length ≤ reqs.length := by
  induction reqs generalizing i with
  | nil => simp [sessionPlan]
  | cons r rest ih =>
    unfold sessionPlan
    split
    · simp
    · split
      · have := ih (i + 1); simp; omega
      · simp

theorem plan_all_answered (i : Nat) (reqs : List WireReq)
    (hp : ∀ r ∈ reqs, r.parses = true) (hk : ∀ r ∈ reqs.dropLast, r.keepAlive = true) :
    sessionPlan i reqs = (List.range' i reqs.length).map Action.answer := by
  induction reqs generalizing i with
  | nil => simp [sessionPlan]
  | cons r rest ih =>
    have hr : r.parses = true := hp r List.mem_cons_self
    cases rest with
    | nil => cases hka : r.keepAlive <;> simp [sessionPlan, hr, hka]
    | cons r2 rest2 =>
      have hka : r.keepAlive = true := hk r (by simp [List.dropLast])
      have := ih (i + 1) (fun x hx => hp x (List.mem_cons_of_mem _ hx))
        (fun x hx => hk x (by simp only [List.dropLast_cons_cons]; exact List.mem_cons_of_mem _ hx))
      rw [sessionPlan]
      simp only [hr, hka, Bool.not_true, Bool.false_eq_true, if_false, if_true, this]
      simp [List.range'_succ]

/-- the plan of a prefix of the requests is a prefix of the plan -/
theorem plan_prefix (i : Nat) (pre post : List WireReq) :
    sessionPlan i pre <+: sessionPlan i (pre ++ post) := by
  induction pre generalizing i with
  | nil => simp [sessionPlan]
  | cons r rest ih =>
    simp only [List.cons_append]
    unfold sessionPlan
    split
    · exact List.prefix_refl _
    · split
      · exact (List.cons_prefix_cons).2 ⟨rfl, ih (i + 1)⟩
      · exact List.prefix_refl _

/-- every request of `pre` parses and carries keep-alive: the loop is still running after `pre` -/
theorem plan_append_of_alive (i : Nat) (pre post : List WireReq)
    (hp : ∀ r ∈ pre, r.parses = true) (hk : ∀ r ∈ pre, r.keepAlive = true) :
    sessionPlan i (pre ++ post) =
      (List.range' i pre.length).map Action.answer ++ sessionPlan (i + pre.length) post := by
  induction pre generalizing i with
  | nil => simp
  | cons r rest ih =>
    have hr := hp r List.mem_cons_self
    have hka := hk r List.mem_cons_self
    have := ih (i + 1) (fun x hx => hp x (List.mem_cons_of_mem _ hx)) (fun x hx => hk x (List.mem_cons_of_mem _ hx))
    simp only [List.cons_append]
    rw [sessionPlan]
    simp only [hr, hka, Bool.not_true, Bool.false_eq_true, if_false, if_true, this]
    simp [List.range'_succ, Nat.add_assoc, Nat.add_comm 1]

/-- the loop has ended inside `pre`: some request of `pre` lacks keep-alive or does not parse -/
theorem plan_append_of_ended (i : Nat) (pre post : List WireReq)
    (h : ∃ r ∈ pre, r.parses = false ∨ r.keepAlive = false) :
    sessionPlan i (pre ++ post) = sessionPlan i pre := by
  induction pre generalizing i with
  | nil => simp at h
  | cons r rest ih =>
    simp only [List.cons_append]
    rw [sessionPlan, sessionPlan]
    cases hr : r.parses <;> cases hka : r.keepAlive <;> simp
    obtain ⟨x, hx, hx'⟩ := h
    rcases List.mem_cons.1 hx with rfl | hm
    · simp [hr, hka] at hx'
    · exact ih (i + 1) ⟨x, hm, hx'⟩

/-- a parse error can only be the last action -/
theorem plan_parseError_last (i : Nat) (reqs : List WireReq) (k j : Nat)
    (h : (sessionPlan i reqs)[k]? = some (Action.parseError j)) : k + 1 = (sessionPlan i reqs).length := by
  induction reqs generalizing i k with
  | nil => simp [sessionPlan] at h
  | cons r rest ih =>
    rw [sessionPlan] at h ⊢
    cases hr : r.parses <;> cases hka : r.keepAlive <;> simp only [hr, hka] at h ⊢ <;>
      cases k with
      | zero => first | rfl | (exfalso; simp at h)
      | succ k =>
        first
        | (exfalso; simp at h; done)
        | (have h' : (sessionPlan (i + 1) rest)[k]? = some (Action.parseError j) := by simpa using h
           have := ih (i + 1) k h'
           simp; omega)

/-! ## JSON kinds -/

inductive JsonKind | null | bool | num | str | arr | obj
  deriving DecidableEq, Repr

def jsonKind : Lean.Json → JsonKind
  | .null => .null
  | .bool _ => .bool
  | .num _ => .num
  | .str _ => .str
  | .arr _ => .arr
  | .obj _ => .obj

/-- the JSON kind documented for a column type -/
def DataType.jsonKind : DataType → JsonKind
  | .str | .strLarge => .str
  | .int | .int64 | .float => .num
  | .int64List | .strList | .svcMemberList | .ifaceList => .arr
  | .customVar | .json => .obj

end Lmd.Frame
