/-
  Lmd.Lemmas.Sort — generic facts about sorting with a Bool-valued comparison that is a total
  preorder only on a sub-domain `P` (in lmd: the hits of one request, whose key tuples all have
  the same shape).  Everything is stated on plain lists; `Lmd.Props.C06` specialises it to `Hit`.
-/
import Lmd.Query

namespace Lmd.Sort

/-- `le` is a total preorder on the elements satisfying `P` -/
structure TotalPreorderOn {α : Type} (P : α → Prop) (le : α → α → Bool) : Prop where
  total : ∀ a b, P a → P b → le a b = true ∨ le b a = true
  trans : ∀ a b c, P a → P b → P c → le a b = true → le b c = true → le a c = true

theorem TotalPreorderOn.refl {α : Type} {P : α → Prop} {le : α → α → Bool}
    (h : TotalPreorderOn P le) (a : α) (ha : P a) : le a a = true := by
  cases h.total a a ha ha <;> assumption

/-- "ordered": every earlier element is `le` every later one -/
abbrev Ordered {α : Type} (le : α → α → Bool) (l : List α) : Prop :=
  l.Pairwise (fun a b => le a b = true)

/-- tie: `a` and `b` are in the domain and compare equal both ways -/
def Tie {α : Type} (P : α → Prop) (le : α → α → Bool) (a b : α) : Prop :=
  P a ∧ P b ∧ le a b = true ∧ le b a = true

theorem Tie.refl {α : Type} {P : α → Prop} {le : α → α → Bool}
    (h : TotalPreorderOn P le) {a : α} (ha : P a) : Tie P le a a :=
  ⟨ha, ha, h.refl a ha, h.refl a ha⟩

theorem Tie.symm {α : Type} {P : α → Prop} {le : α → α → Bool} {a b : α}
    (h : Tie P le a b) : Tie P le b a :=
  ⟨h.2.1, h.1, h.2.2.2, h.2.2.1⟩

theorem Tie.trans {α : Type} {P : α → Prop} {le : α → α → Bool}
    (h : TotalPreorderOn P le) {a b c : α} (h₁ : Tie P le a b) (h₂ : Tie P le b c) :
    Tie P le a c :=
  ⟨h₁.1, h₂.2.1, h.trans a b c h₁.1 h₁.2.1 h₂.2.1 h₁.2.2.1 h₂.2.2.1,
    h.trans c b a h₂.2.1 h₁.2.1 h₁.1 h₂.2.2.2 h₁.2.2.2⟩

/-! ## position-wise relation of two lists -/

/-- the two lists have the same length and are related by `E` position by position -/
def PosRel {α : Type} (E : α → α → Prop) (l₁ l₂ : List α) : Prop :=
  l₁.length = l₂.length ∧ ∀ i (h₁ : i < l₁.length) (h₂ : i < l₂.length), E l₁[i] l₂[i]

theorem PosRel.nil {α : Type} {E : α → α → Prop} : PosRel E ([] : List α) [] :=
  ⟨rfl, fun i h => absurd h (Nat.not_lt_zero i)⟩

theorem PosRel.cons {α : Type} {E : α → α → Prop} {a b : α} {l₁ l₂ : List α}
    (hab : E a b) (h : PosRel E l₁ l₂) : PosRel E (a :: l₁) (b :: l₂) := by
  refine ⟨by simp [h.1], ?_⟩
  intro i h₁ h₂
  cases i with
  | zero => simpa using hab
  | succ i =>
    simp only [List.getElem_cons_succ]
    exact h.2 i (by simpa using h₁) (by simpa using h₂)

theorem PosRel.of_eq {α : Type} {E : α → α → Prop} (hE : ∀ a, E a a) (l : List α) :
    PosRel E l l := ⟨rfl, fun _ _ _ => hE _⟩

theorem PosRel.of_eq_mem {α : Type} {E : α → α → Prop} (l : List α) (hE : ∀ a ∈ l, E a a) :
    PosRel E l l := ⟨rfl, fun _ _ _ => hE _ (List.getElem_mem _)⟩

theorem PosRel.symm {α : Type} {E : α → α → Prop} (hE : ∀ a b, E a b → E b a) {l₁ l₂ : List α}
    (h : PosRel E l₁ l₂) : PosRel E l₂ l₁ :=
  ⟨h.1.symm, fun i h₁ h₂ => hE _ _ (h.2 i h₂ h₁)⟩

theorem PosRel.trans {α : Type} {E : α → α → Prop} (hE : ∀ a b c, E a b → E b c → E a c)
    {l₁ l₂ l₃ : List α} (h₁₂ : PosRel E l₁ l₂) (h₂₃ : PosRel E l₂ l₃) : PosRel E l₁ l₃ :=
  ⟨h₁₂.1.trans h₂₃.1, fun i h₁ h₃ =>
    hE _ _ _ (h₁₂.2 i h₁ (h₁₂.1 ▸ h₁)) (h₂₃.2 i (h₁₂.1 ▸ h₁) h₃)⟩

theorem PosRel.take {α : Type} {E : α → α → Prop} {l₁ l₂ : List α} (h : PosRel E l₁ l₂) (k : Nat) :
    PosRel E (l₁.take k) (l₂.take k) := by
  refine ⟨by simp [h.1], ?_⟩
  intro i h₁ h₂
  simp only [List.getElem_take]
  exact h.2 i _ _

theorem PosRel.drop {α : Type} {E : α → α → Prop} {l₁ l₂ : List α} (h : PosRel E l₁ l₂) (k : Nat) :
    PosRel E (l₁.drop k) (l₂.drop k) := by
  refine ⟨by simp [h.1], ?_⟩
  intro i h₁ h₂
  simp only [List.getElem_drop]
  exact h.2 _ _ _

theorem PosRel.map {α β : Type} {E : α → α → Prop} {F : β → β → Prop} (f : α → β)
    (hf : ∀ a b, E a b → F (f a) (f b)) {l₁ l₂ : List α} (h : PosRel E l₁ l₂) :
    PosRel F (l₁.map f) (l₂.map f) := by
  refine ⟨by simp [h.1], ?_⟩
  intro i h₁ h₂
  simp only [List.getElem_map]
  exact hf _ _ (h.2 i _ _)

/-! ## mergeSort with a comparison that is a total preorder only on `P` -/

theorem ordered_mergeSort_on {α : Type} {P : α → Prop} {le : α → α → Bool}
    (h : TotalPreorderOn P le) (l : List α) (hl : ∀ a ∈ l, P a) :
    Ordered le (l.mergeSort le) := by
  let le' : {a // P a} → {a // P a} → Bool := fun a b => le a.1 b.1
  have hmap : ((l.attachWith P hl).mergeSort le').map Subtype.val = l.mergeSort le := by
    have := List.map_mergeSort (r := le') (s := le) (f := Subtype.val) (l := l.attachWith P hl)
      (fun _ _ _ _ => rfl)
    rw [this, List.attachWith_map_subtype_val]
  have hp : ((l.attachWith P hl).mergeSort le').Pairwise (fun a b => le' a b = true) :=
    List.pairwise_mergeSort
      (fun a b c hab hbc => h.trans a.1 b.1 c.1 a.2 b.2 c.2 hab hbc)
      (fun a b => by
        cases h.total a.1 b.1 a.2 b.2 with
        | inl h => simp [le', h]
        | inr h => simp [le', h])
      _
  rw [Ordered, ← hmap, List.pairwise_map]
  exact hp


/-! ## an ordered list is determined by its multiset up to ties -/

/-- in two ordered permutations of each other, the elements at equal positions are `le` -/
theorem ordered_perm_le_at {α : Type} {P : α → Prop} {le : α → α → Bool}
    (h : TotalPreorderOn P le) {p₁ s₁ p₂ s₂ : List α} {x y : α}
    (hperm : (p₁ ++ x :: s₁).Perm (p₂ ++ y :: s₂))
    (hP : ∀ a ∈ p₁ ++ x :: s₁, P a)
    (ho₁ : Ordered le (p₁ ++ x :: s₁)) (ho₂ : Ordered le (p₂ ++ y :: s₂))
    (hlen : p₁.length = p₂.length) : le x y = true := by
  have hP₂ : ∀ a ∈ p₂ ++ y :: s₂, P a := fun a ha => hP a (hperm.mem_iff.mpr ha)
  have hPx : P x := hP x (by simp)
  have hPy : P y := hP₂ y (by simp)
  apply Classical.byContradiction
  intro hxy
  let q : α → Bool := fun z => !le x z
  have hcnt := hperm.countP_eq q
  rw [List.countP_append, List.countP_append] at hcnt
  -- left: nothing from `x` onwards is strictly below `x`
  have hz₁ : List.countP q (x :: s₁) = 0 := by
    rw [List.countP_eq_zero]
    intro a ha
    have hxa : le x a = true := by
      rcases List.mem_cons.mp ha with rfl | ha
      · exact h.refl _ hPx
      · exact List.rel_of_pairwise_cons (List.pairwise_append.mp ho₁).2.1 ha
    simp [q, hxa]
  -- right: everything up to and including `y` is strictly below `x`
  have hq₂ : List.countP q p₂ = p₂.length := by
    rw [List.countP_eq_length]
    intro z hz
    have hzy : le z y = true := (List.pairwise_append.mp ho₂).2.2 z hz y (by simp)
    have hPz : P z := hP₂ z (by simp [hz])
    cases hxz : le x z with
    | false => simp [q, hxz]
    | true => exact absurd (h.trans x z y hPx hPz hPy hxz hzy) hxy
  have hy : List.countP q (y :: s₂) ≥ 1 := by
    rw [List.countP_cons]
    have : q y = true := by simpa [q] using hxy
    simp [this]
  have hle : List.countP q p₁ ≤ p₁.length := List.countP_le_length
  omega

/-- **uniqueness up to ties**: two ordered lists that are permutations of each other agree
    position by position up to `Tie` -/
theorem ordered_perm_posRel {α : Type} {P : α → Prop} {le : α → α → Bool}
    (h : TotalPreorderOn P le) {l₁ l₂ : List α} (hperm : l₁.Perm l₂) (hP : ∀ a ∈ l₁, P a)
    (ho₁ : Ordered le l₁) (ho₂ : Ordered le l₂) : PosRel (Tie P le) l₁ l₂ := by
  have hP₂ : ∀ a ∈ l₂, P a := fun a ha => hP a (hperm.mem_iff.mpr ha)
  refine ⟨hperm.length_eq, ?_⟩
  intro i h₁ h₂
  have e₁ : l₁ = l₁.take i ++ l₁[i] :: l₁.drop (i + 1) := by simp
  have e₂ : l₂ = l₂.take i ++ l₂[i] :: l₂.drop (i + 1) := by simp
  have hlen : (l₁.take i).length = (l₂.take i).length := by
    simp [List.length_take, Nat.min_eq_left (Nat.le_of_lt h₁), Nat.min_eq_left (Nat.le_of_lt h₂)]
  refine ⟨hP _ (List.getElem_mem _), hP₂ _ (List.getElem_mem _), ?_, ?_⟩
  · exact ordered_perm_le_at h (by rw [← e₁, ← e₂]; exact hperm) (by rw [← e₁]; exact hP)
      (by rw [← e₁]; exact ho₁) (by rw [← e₂]; exact ho₂) hlen
  · exact ordered_perm_le_at h (by rw [← e₁, ← e₂]; exact hperm.symm) (by rw [← e₂]; exact hP₂)
      (by rw [← e₂]; exact ho₂) (by rw [← e₁]; exact ho₁) hlen.symm


/-! ## the first `k` elements of a merge only need the first `k` elements of each input -/

/-- binary top-k: cutting both inputs to at least `k` elements does not change the first `k`
    elements of the merge (no assumption on `le` is needed) -/
theorem take_merge_take {α : Type} (le : α → α → Bool) :
    ∀ (k : Nat) (xs ys : List α) (j l : Nat), k ≤ j → k ≤ l →
      (List.merge xs ys le).take k = (List.merge (xs.take j) (ys.take l) le).take k := by
  intro k
  induction k with
  | zero => intros; simp
  | succ k ih =>
    intro xs
    induction xs with
    | nil =>
      intro ys j l _ hl
      simp [List.take_take, Nat.min_eq_left hl]
    | cons x xs ihx =>
      intro ys
      induction ys with
      | nil =>
        intro j l hj _
        simp [List.take_take, Nat.min_eq_left hj]
      | cons y ys ihy =>
        intro j l hj hl
        obtain ⟨j, rfl⟩ : ∃ j', j = j' + 1 := ⟨j - 1, by omega⟩
        obtain ⟨l, rfl⟩ : ∃ l', l = l' + 1 := ⟨l - 1, by omega⟩
        simp only [List.take_succ_cons]
        by_cases hxy : le x y = true
        · rw [List.cons_merge_cons_pos _ _ _ hxy, List.cons_merge_cons_pos _ _ _ hxy]
          simp only [List.take_succ_cons, List.cons.injEq, true_and]
          have := ih xs (y :: ys) j (l + 1) (by omega) (by omega)
          simpa only [List.take_succ_cons] using this
        · rw [List.cons_merge_cons_neg _ _ _ hxy, List.cons_merge_cons_neg _ _ _ hxy]
          simp only [List.take_succ_cons, List.cons.injEq, true_and]
          have := ih (x :: xs) ys (j + 1) l (by omega) (by omega)
          simpa only [List.take_succ_cons] using this

/-- n-way merge by folding the binary merge -/
def mergeAll {α : Type} (le : α → α → Bool) : List (List α) → List α
  | [] => []
  | A :: As => List.merge A (mergeAll le As) le

theorem mergeAll_perm {α : Type} (le : α → α → Bool) (As : List (List α)) :
    (mergeAll le As).Perm As.flatten := by
  induction As with
  | nil => simp [mergeAll]
  | cons A As ih =>
    simp only [mergeAll, List.flatten_cons]
    exact (List.merge_perm_append le).trans (List.Perm.append_left A ih)

/-- `List.pairwise_merge` for a comparison that is a total preorder only on `P` -/
theorem ordered_merge_on {α : Type} {P : α → Prop} {le : α → α → Bool}
    (h : TotalPreorderOn P le) (l₁ l₂ : List α) (hP₁ : ∀ a ∈ l₁, P a) (hP₂ : ∀ a ∈ l₂, P a)
    (h₁ : Ordered le l₁) (h₂ : Ordered le l₂) : Ordered le (List.merge l₁ l₂ le) := by
  let le' : {a // P a} → {a // P a} → Bool := fun a b => le a.1 b.1
  have hmap : (List.merge (l₁.attachWith P hP₁) (l₂.attachWith P hP₂) le').map Subtype.val
      = List.merge l₁ l₂ le := by
    have := List.map_merge (r := le') (s := le) (f := Subtype.val)
      (l := l₁.attachWith P hP₁) (l' := l₂.attachWith P hP₂) (fun _ _ _ _ => rfl)
    rw [this, List.attachWith_map_subtype_val, List.attachWith_map_subtype_val]
  have hp : (List.merge (l₁.attachWith P hP₁) (l₂.attachWith P hP₂) le').Pairwise
      (fun a b => le' a b = true) := by
    apply List.pairwise_merge
      (fun a b c hab hbc => h.trans a.1 b.1 c.1 a.2 b.2 c.2 hab hbc)
      (fun a b => by
        cases h.total a.1 b.1 a.2 b.2 with
        | inl h => simp [le', h]
        | inr h => simp [le', h])
    · have : Ordered le ((l₁.attachWith P hP₁).map Subtype.val) := by
        rw [List.attachWith_map_subtype_val]; exact h₁
      rwa [Ordered, List.pairwise_map] at this
    · have : Ordered le ((l₂.attachWith P hP₂).map Subtype.val) := by
        rw [List.attachWith_map_subtype_val]; exact h₂
      rwa [Ordered, List.pairwise_map] at this
  rw [Ordered, ← hmap, List.pairwise_map]
  exact hp

theorem ordered_mergeAll {α : Type} {P : α → Prop} {le : α → α → Bool}
    (h : TotalPreorderOn P le) (As : List (List α)) (hP : ∀ A ∈ As, ∀ a ∈ A, P a)
    (ho : ∀ A ∈ As, Ordered le A) : Ordered le (mergeAll le As) := by
  induction As with
  | nil => simp [mergeAll, Ordered]
  | cons A As ih =>
    have ih' := ih (fun B hB => hP B (List.mem_cons_of_mem _ hB))
      (fun B hB => ho B (List.mem_cons_of_mem _ hB))
    refine ordered_merge_on h A (mergeAll le As) (hP A (by simp)) ?_ (ho A (by simp)) ih'
    intro a ha
    have := (mergeAll_perm le As).mem_iff.mp ha
    obtain ⟨B, hB, haB⟩ := List.mem_flatten.mp this
    exact hP B (List.mem_cons_of_mem _ hB) a haB

/-- n-way top-k on the folded merge, with equality of lists -/
theorem take_mergeAll_take {α : Type} (le : α → α → Bool) (k : Nat) (As : List (List α)) :
    (mergeAll le As).take k = (mergeAll le (As.map (List.take k))).take k := by
  induction As with
  | nil => simp [mergeAll]
  | cons A As ih =>
    simp only [mergeAll, List.map_cons]
    rw [take_merge_take le k A (mergeAll le As) k k (Nat.le_refl _) (Nat.le_refl _), ih]
    have := take_merge_take le k (A.take k) (mergeAll le (As.map (List.take k))) k k
      (Nat.le_refl _) (Nat.le_refl _)
    rw [List.take_take, Nat.min_self] at this
    exact this.symm

/-- n-way top-k for `mergeSort` of the concatenation, up to ties: if every input list is ordered,
    the first `k` elements of the sorted concatenation agree position by position (up to `Tie`)
    with the first `k` elements of the sorted concatenation of the inputs cut to `k` elements -/
theorem take_mergeSort_flatten_take {α : Type} {P : α → Prop} {le : α → α → Bool}
    (h : TotalPreorderOn P le) (As : List (List α)) (hP : ∀ A ∈ As, ∀ a ∈ A, P a)
    (ho : ∀ A ∈ As, Ordered le A) (k : Nat) :
    PosRel (Tie P le) ((As.flatten.mergeSort le).take k)
      (((As.map (List.take k)).flatten.mergeSort le).take k) := by
  have hP' : ∀ A ∈ As.map (List.take k), ∀ a ∈ A, P a := by
    intro A hA a ha
    obtain ⟨B, hB, rfl⟩ := List.mem_map.mp hA
    exact hP B hB a (List.mem_of_mem_take ha)
  have ho' : ∀ A ∈ As.map (List.take k), Ordered le A := by
    intro A hA
    obtain ⟨B, hB, rfl⟩ := List.mem_map.mp hA
    exact (ho B hB).sublist (List.take_sublist _ _)
  have key : ∀ (Bs : List (List α)), (∀ A ∈ Bs, ∀ a ∈ A, P a) → (∀ A ∈ Bs, Ordered le A) →
      PosRel (Tie P le) (Bs.flatten.mergeSort le) (mergeAll le Bs) := by
    intro Bs hPB hoB
    have hPf : ∀ a ∈ Bs.flatten, P a := by
      intro a ha
      obtain ⟨B, hB, haB⟩ := List.mem_flatten.mp ha
      exact hPB B hB a haB
    refine ordered_perm_posRel h ((List.mergeSort_perm _ _).trans (mergeAll_perm le Bs).symm)
      (fun a ha => hPf a (List.mem_mergeSort.mp ha)) (ordered_mergeSort_on h _ hPf)
      (ordered_mergeAll h Bs hPB hoB)
  have t₁ := (key As hP ho).take k
  have t₂ := (key _ hP' ho').take k
  rw [take_mergeAll_take] at t₁
  exact PosRel.trans (E := Tie P le) (fun _ _ _ => Tie.trans h) t₁
    (PosRel.symm (E := Tie P le) (fun _ _ => Tie.symm) t₂)

/-! ## the key comparison of lmd -/

/-- which constructor a sort key was built with (number, string, custom variable) -/
def tag : SortKey → Nat
  | .num _ => 0
  | .str _ => 1
  | .cv _ => 2

/-- the comparison of two custom-variable values: equal, else "" last, else by string order -/
def cvCmp (a b : String) : Ordering :=
  if a == b then .eq else if a == "" then .gt else if b == "" then .lt else compare a b

theorem cmpKeyAsc_cv (a b : String) : cmpKeyAsc (.cv a) (.cv b) = cvCmp a b := rfl

theorem cvCmp_self (a : String) : cvCmp a a = .eq := by simp [cvCmp]

theorem cvCmp_swap (a b : String) : cvCmp b a = (cvCmp a b).swap := by
  unfold cvCmp
  by_cases hab : a = b
  · subst hab; simp
  · have hba : ¬ b = a := fun h => hab h.symm
    by_cases ha : a = ""
    · subst ha; simp [hba, hab]
    · by_cases hb : b = ""
      · subst hb; simp [hba, hab]
      · simp only [beq_iff_eq, hab, hba, ha, hb, if_false]
        exact Std.OrientedCmp.eq_swap

theorem compare_le_trans {α : Type} [Ord α] [Std.TransOrd α] {a b c : α}
    (h₁ : compare a b ≠ .gt) (h₂ : compare b c ≠ .gt) : compare a c ≠ .gt :=
  Ordering.isLE_iff_ne_gt.mp
    (Std.TransCmp.isLE_trans (Ordering.isLE_iff_ne_gt.mpr h₁) (Ordering.isLE_iff_ne_gt.mpr h₂))

theorem compare_swap' {α : Type} [Ord α] [Std.OrientedOrd α] (a b : α) :
    compare b a = (compare a b).swap := Std.OrientedCmp.eq_swap

theorem cvCmp_le_trans (a b c : String) (h₁ : cvCmp a b ≠ .gt) (h₂ : cvCmp b c ≠ .gt) :
    cvCmp a c ≠ .gt := by
  by_cases hab : a = b
  · subst hab; exact h₂
  by_cases hbc : b = c
  · subst hbc; exact h₁
  by_cases hac : a = c
  · subst hac; simp [cvCmp_self]
  by_cases ha : a = ""
  · subst ha; simp [cvCmp, hab] at h₁
  by_cases hb : b = ""
  · subst hb; simp [cvCmp, hbc] at h₂
  by_cases hc : c = ""
  · subst hc; simp [cvCmp, hac]
  simp only [cvCmp, beq_iff_eq, hab, hbc, hac, ha, hb, hc, if_false] at h₁ h₂ ⊢
  exact compare_le_trans h₁ h₂

/-- every key compares equal to itself -/
theorem cmpKeyAsc_self (a : SortKey) : cmpKeyAsc a a = .eq := by
  cases a with
  | num m => exact Std.ReflOrd.compare_self (a := m)
  | str s => exact Std.ReflOrd.compare_self (a := s)
  | cv s => exact cvCmp_self s

/-- exchanging the arguments exchanges the outcome (any two keys) -/
theorem cmpKeyAsc_swap (a b : SortKey) : cmpKeyAsc b a = (cmpKeyAsc a b).swap := by
  cases a with
  | num x => cases b with
    | num y => exact compare_swap' x y
    | _ => rfl
  | str x => cases b with
    | str y => exact compare_swap' x y
    | _ => rfl
  | cv x => cases b with
    | cv y => exact cvCmp_swap x y
    | _ => rfl

/-- "not greater" is transitive on keys built with the same constructor -/
theorem cmpKeyAsc_le_trans (a b c : SortKey) (hab : tag a = tag b) (hbc : tag b = tag c)
    (h₁ : cmpKeyAsc a b ≠ .gt) (h₂ : cmpKeyAsc b c ≠ .gt) : cmpKeyAsc a c ≠ .gt := by
  cases a <;> cases b <;> cases c <;> simp only [tag] at hab hbc <;> try omega
  · exact compare_le_trans (α := Int) h₁ h₂
  · exact compare_le_trans (α := String) h₁ h₂
  · exact cvCmp_le_trans _ _ _ h₁ h₂

/-- one key compared in the requested direction (`true` = descending) -/
def cmpDir (d : Bool) (a b : SortKey) : Ordering :=
  if d then (cmpKeyAsc a b).swap else cmpKeyAsc a b

theorem cmpDir_self (d : Bool) (a : SortKey) : cmpDir d a a = .eq := by
  cases d <;> simp [cmpDir, cmpKeyAsc_self]

theorem cmpDir_swap (d : Bool) (a b : SortKey) : cmpDir d b a = (cmpDir d a b).swap := by
  cases d <;> simp [cmpDir, cmpKeyAsc_swap a b]

theorem cmpDir_le_trans (d : Bool) (a b c : SortKey) (hab : tag a = tag b) (hbc : tag b = tag c)
    (h₁ : cmpDir d a b ≠ .gt) (h₂ : cmpDir d b c ≠ .gt) : cmpDir d a c ≠ .gt := by
  cases d with
  | false => exact cmpKeyAsc_le_trans a b c hab hbc h₁ h₂
  | true =>
    simp only [cmpDir, if_true] at h₁ h₂ ⊢
    have h₁' : cmpKeyAsc b a ≠ .gt := by
      rw [cmpKeyAsc_swap a b]; exact h₁
    have h₂' : cmpKeyAsc c b ≠ .gt := by
      rw [cmpKeyAsc_swap b c]; exact h₂
    have := cmpKeyAsc_le_trans c b a hbc.symm hab.symm h₂' h₁'
    rw [cmpKeyAsc_swap a c] at this
    exact this

theorem cmpDir_eq_trans (d : Bool) (a b c : SortKey) (hab : tag a = tag b) (hbc : tag b = tag c)
    (h₁ : cmpDir d a b = .eq) (h₂ : cmpDir d b c = .eq) : cmpDir d a c = .eq := by
  have t₁ := cmpDir_le_trans d a b c hab hbc (by simp [h₁]) (by simp [h₂])
  have t₂ := cmpDir_le_trans d c b a hbc.symm hab.symm
    (by rw [cmpDir_swap d b c]; simp [h₂]) (by rw [cmpDir_swap d a b]; simp [h₁])
  rw [cmpDir_swap d a c] at t₂
  revert t₁ t₂
  cases cmpDir d a c <;> simp

theorem cmpDir_lt_of_lt_of_le (d : Bool) (a b c : SortKey) (hab : tag a = tag b)
    (hbc : tag b = tag c) (h₁ : cmpDir d a b = .lt) (h₂ : cmpDir d b c ≠ .gt) :
    cmpDir d a c = .lt := by
  have t₁ := cmpDir_le_trans d a b c hab hbc (by simp [h₁]) h₂
  have t₂ : cmpDir d a c ≠ .eq := by
    intro hac
    have := cmpDir_le_trans d b c a hbc (hab.trans hbc).symm h₂
      (by rw [cmpDir_swap d a c]; simp [hac])
    rw [cmpDir_swap d a b, h₁] at this
    simp at this
  revert t₁ t₂
  cases cmpDir d a c <;> simp

theorem cmpDir_lt_of_le_of_lt (d : Bool) (a b c : SortKey) (hab : tag a = tag b)
    (hbc : tag b = tag c) (h₁ : cmpDir d a b ≠ .gt) (h₂ : cmpDir d b c = .lt) :
    cmpDir d a c = .lt := by
  have t₁ := cmpDir_le_trans d a b c hab hbc h₁ (by simp [h₂])
  have t₂ : cmpDir d a c ≠ .eq := by
    intro hac
    have := cmpDir_le_trans d c a b (hab.trans hbc).symm hab
      (by rw [cmpDir_swap d a c]; simp [hac]) h₁
    rw [cmpDir_swap d b c, h₂] at this
    simp at this
  revert t₁ t₂
  cases cmpDir d a c <;> simp

/-- `cmpKeys` is the lexicographic combination of the directed key comparisons -/
theorem cmpKeys_cons (d : Bool) (ds : List Bool) (a b : SortKey) (as bs : List SortKey) :
    cmpKeys (d :: ds) (a :: as) (b :: bs) = (cmpDir d a b).then (cmpKeys ds as bs) := by
  simp only [cmpKeys, cmpDir]
  cases h : cmpKeyAsc a b <;> cases d <;> simp [Ordering.then, Ordering.swap]

theorem cmpKeys_nil_dirs (as bs : List SortKey) : cmpKeys [] as bs = .eq := by
  simp [cmpKeys]

theorem cmpKeys_nil_left (ds : List Bool) (bs : List SortKey) : cmpKeys ds [] bs = .eq := by
  cases ds <;> simp [cmpKeys]

theorem cmpKeys_nil_right (ds : List Bool) (as : List SortKey) : cmpKeys ds as [] = .eq := by
  cases ds <;> cases as <;> simp [cmpKeys]

/-- a key tuple compares equal to itself -/
theorem cmpKeys_self (ds : List Bool) (as : List SortKey) : cmpKeys ds as as = .eq := by
  induction ds generalizing as with
  | nil => exact cmpKeys_nil_dirs _ _
  | cons d ds ih =>
    cases as with
    | nil => exact cmpKeys_nil_left _ _
    | cons a as => rw [cmpKeys_cons, cmpDir_self, ih]; rfl

/-- exchanging the tuples exchanges the outcome (any two tuples) -/
theorem cmpKeys_swap (ds : List Bool) (as bs : List SortKey) :
    cmpKeys ds bs as = (cmpKeys ds as bs).swap := by
  induction ds generalizing as bs with
  | nil => simp [cmpKeys_nil_dirs]
  | cons d ds ih =>
    cases as with
    | nil => simp [cmpKeys_nil_left, cmpKeys_nil_right]
    | cons a as =>
      cases bs with
      | nil => simp [cmpKeys_nil_left, cmpKeys_nil_right]
      | cons b bs => rw [cmpKeys_cons, cmpKeys_cons, Ordering.swap_then, ← ih, ← cmpDir_swap]

/-- "not greater" is transitive on tuples whose keys were built with the same constructors -/
theorem cmpKeys_le_trans (ds : List Bool) (as bs cs : List SortKey)
    (hab : as.map tag = bs.map tag) (hbc : bs.map tag = cs.map tag)
    (h₁ : cmpKeys ds as bs ≠ .gt) (h₂ : cmpKeys ds bs cs ≠ .gt) : cmpKeys ds as cs ≠ .gt := by
  induction ds generalizing as bs cs with
  | nil => simp [cmpKeys_nil_dirs]
  | cons d ds ih =>
    cases as with
    | nil => simp [cmpKeys_nil_left]
    | cons a as =>
      cases bs with
      | nil => simp at hab
      | cons b bs =>
        cases cs with
        | nil => simp at hbc
        | cons c cs =>
          simp only [List.map_cons, List.cons.injEq] at hab hbc
          rw [cmpKeys_cons] at h₁ h₂ ⊢
          have T := cmpDir_le_trans d a b c hab.1 hbc.1
          have E := cmpDir_eq_trans d a b c hab.1 hbc.1
          have L₁ := cmpDir_lt_of_lt_of_le d a b c hab.1 hbc.1
          have L₂ := cmpDir_lt_of_le_of_lt d a b c hab.1 hbc.1
          have ih' := ih as bs cs hab.2 hbc.2
          intro hgt
          rw [Ordering.then_eq_gt] at hgt
          cases h₁' : cmpDir d a b with
          | gt => simp [h₁', Ordering.then] at h₁
          | lt =>
            have h₂' : cmpDir d b c ≠ .gt := by
              intro h; simp [h, Ordering.then] at h₂
            have := L₁ h₁' h₂'
            simp [this] at hgt
          | eq =>
            cases h₂' : cmpDir d b c with
            | gt => simp [h₂', Ordering.then] at h₂
            | lt =>
              have := L₂ (by simp [h₁']) h₂'
              simp [this] at hgt
            | eq =>
              have hac := E h₁' h₂'
              simp only [h₁', h₂', Ordering.then] at h₁ h₂
              simp only [hac, true_and] at hgt
              rcases hgt with hgt | hgt
              · simp at hgt
              · exact ih' h₁ h₂ hgt

/-! ## `Hit.le` is a total preorder on the hits of one request -/

/-- the hits whose key tuple has the constructor signature `sig` -/
def HasSig (sig : List Nat) (h : Hit) : Prop := h.keys.map tag = sig

instance (sig : List Nat) (h : Hit) : Decidable (HasSig sig h) := by
  unfold HasSig; infer_instance

theorem hitLe_iff (dirs : List Bool) (a b : Hit) :
    Hit.le dirs a b = true ↔ cmpKeys dirs a.keys b.keys ≠ .gt := by
  simp [Hit.le]

theorem hitLe_totalPreorderOn (dirs : List Bool) (sig : List Nat) :
    TotalPreorderOn (HasSig sig) (Hit.le dirs) where
  total a b _ _ := by
    rw [hitLe_iff, hitLe_iff, cmpKeys_swap dirs a.keys b.keys]
    cases cmpKeys dirs a.keys b.keys <;> simp
  trans a b c ha hb hc h₁ h₂ := by
    rw [hitLe_iff] at h₁ h₂ ⊢
    exact cmpKeys_le_trans dirs _ _ _ (ha.trans hb.symm) (hb.trans hc.symm) h₁ h₂

/-- a tie between two hits means their key tuples compare equal -/
theorem tie_iff_cmpKeys_eq (dirs : List Bool) (sig : List Nat) (a b : Hit) :
    Tie (HasSig sig) (Hit.le dirs) a b ↔
      HasSig sig a ∧ HasSig sig b ∧ cmpKeys dirs a.keys b.keys = .eq := by
  unfold Tie
  rw [hitLe_iff, hitLe_iff, cmpKeys_swap dirs a.keys b.keys]
  cases cmpKeys dirs a.keys b.keys <;> simp

/-! ## unfolding `gatherRows` and `dataQuery` -/

/-- the rows of one backend that pass filter and authorisation; depends on the request only
    through `filter` and `authUser` -/
def matchingRows (m : EvalMode) (cx : Ctx) (t : Table) (filter : List Filter) (authUser : String) :
    List Row :=
  (if m.useIndex then preFiltered cx t (tableRows cx t) filter else tableRows cx t).filter fun r =>
    rowMatches m (mkView cx t r) filter && checkAuth cx t authUser r

/-- a matching row with its sort keys -/
def mkHit (cx : Ctx) (t : Table) (sort : List SortField) (r : Row) : Hit :=
  { b := cx.b, r := r, keys := sort.map (sortKeyOf (mkView cx t r)) }

/-- all hits of one backend, before any cut -/
def fullHits (m : EvalMode) (cx : Ctx) (t : Table) (req : Request) : List Hit :=
  (matchingRows m cx t req.filter req.authUser).map (mkHit cx t req.sort)

/-- the per-backend cut `gatherRows` applies, if any -/
def peerCut (m : EvalMode) (req : Request) : Option Nat :=
  if m.earlyCut then
    match resultLimit req with
    | some l => if l == 0 then none else some l
    | none => none
  else none

theorem gatherRows_eq (m : EvalMode) (cx : Ctx) (t : Table) (req : Request) :
    gatherRows m cx t req =
      match peerCut m req with
      | none => { hits := fullHits m cx t req, total := (fullHits m cx t req).length }
      | some l =>
        { hits := (fullHits m cx t req).take l,
          total := if req.outFmt == .wrapped then (fullHits m cx t req).length
                   else min (fullHits m cx t req).length (l + 1) } := rfl

theorem length_fullHits (m : EvalMode) (cx : Ctx) (t : Table) (req : Request) :
    (fullHits m cx t req).length = (matchingRows m cx t req.filter req.authUser).length := by
  simp [fullHits]

theorem gatherRows_hits (m : EvalMode) (cx : Ctx) (t : Table) (req : Request) :
    (gatherRows m cx t req).hits =
      match peerCut m req with
      | none => fullHits m cx t req
      | some l => (fullHits m cx t req).take l := by
  rw [gatherRows_eq]; cases peerCut m req <;> rfl

theorem peerCut_of_not_earlyCut (m : EvalMode) (req : Request) (h : m.earlyCut = false) :
    peerCut m req = none := by
  simp [peerCut, h]

theorem gatherRows_total (m : EvalMode) (cx : Ctx) (t : Table) (req : Request)
    (h : m.earlyCut = false ∨ req.outFmt = .wrapped) :
    (gatherRows m cx t req).total = (matchingRows m cx t req.filter req.authUser).length := by
  rw [gatherRows_eq, ← length_fullHits]
  rcases h with h | h
  · rw [peerCut_of_not_earlyCut m req h]
  · cases peerCut m req with
    | none => rfl
    | some l => simp [h]

/-- the selected backends whose table is available, in configuration order -/
def availBackends (ds : Dataset) (t : Table) (req : Request) : List Backend :=
  (selectBackends ds t req).peers.filter (fun b => backendAvailable b t)

def peerResults (m : EvalMode) (s : Schema) (ds : Dataset) (t : Table) (req : Request) :
    List PeerResult :=
  (availBackends ds t req).map fun b => gatherRows m { schema := s, ds := ds, b := b } t req

/-- all hits collected from the backends, in backend order, before sorting -/
def collected (m : EvalMode) (s : Schema) (ds : Dataset) (t : Table) (req : Request) : List Hit :=
  (peerResults m s ds t req).flatMap (·.hits)

def totalOf (m : EvalMode) (s : Schema) (ds : Dataset) (t : Table) (req : Request) : Nat :=
  ((peerResults m s ds t req).map (·.total)).foldl (· + ·) 0

/-- the sort directions of the request -/
def dirsOf (req : Request) : List Bool := req.sort.map (·.desc)

def failedOf (ds : Dataset) (t : Table) (req : Request) : List (String × String) :=
  (selectBackends ds t req).failed ++
    ((selectBackends ds t req).peers.filter (fun b => !backendAvailable b t)).map
      (fun b => (b.id, s!"peer is down: {b.err}"))

/-- the pool as `dataQuery` computes it (the "no sort" branch is shown below to be a sort too) -/
def rawPool (m : EvalMode) (s : Schema) (ds : Dataset) (t : Table) (req : Request) : List Hit :=
  if req.sort.isEmpty then collected m s ds t req
  else (collected m s ds t req).mergeSort (Hit.le (dirsOf req))

/-- offset and limit applied to a pool -/
def window (req : Request) (pool : List Hit) : List Hit :=
  match req.limit with
  | some l => (pool.drop req.offset).take l
  | none => pool.drop req.offset

theorem window_sublist_pool (req : Request) (pool : List Hit) : (window req pool).Sublist pool := by
  unfold window
  cases req.limit with
  | none => exact List.drop_sublist _ _
  | some l => exact (List.take_sublist _ _).trans (List.drop_sublist _ _)

theorem dataQuery_eq (m : EvalMode) (s : Schema) (ds : Dataset) (t : Table) (req : Request) :
    dataQuery m s ds t req =
      if req.offset > totalOf m s ds t req then
        { hits := [], pool := [], total := totalOf m s ds t req, failed := failedOf ds t req }
      else
        { hits := window req (rawPool m s ds t req), pool := rawPool m s ds t req,
          total := totalOf m s ds t req, failed := failedOf ds t req } := rfl

theorem dataQuery_total (m : EvalMode) (s : Schema) (ds : Dataset) (t : Table) (req : Request) :
    (dataQuery m s ds t req).total = totalOf m s ds t req := by
  rw [dataQuery_eq]
  split <;> rfl

theorem dataQuery_beyond (m : EvalMode) (s : Schema) (ds : Dataset) (t : Table) (req : Request)
    (h : req.offset > totalOf m s ds t req) :
    (dataQuery m s ds t req).hits = [] ∧ (dataQuery m s ds t req).pool = [] := by
  rw [dataQuery_eq, if_pos h]
  exact ⟨rfl, rfl⟩

theorem dataQuery_pool_raw (m : EvalMode) (s : Schema) (ds : Dataset) (t : Table) (req : Request)
    (h : req.offset ≤ totalOf m s ds t req) :
    (dataQuery m s ds t req).pool = rawPool m s ds t req := by
  rw [dataQuery_eq, if_neg (Nat.not_lt.mpr h)]

theorem dataQuery_hits (m : EvalMode) (s : Schema) (ds : Dataset) (t : Table) (req : Request)
    (h : req.offset ≤ totalOf m s ds t req) :
    (dataQuery m s ds t req).hits = window req (dataQuery m s ds t req).pool := by
  rw [dataQuery_eq, if_neg (Nat.not_lt.mpr h)]

/-! ### every collected hit has the key signature of the request -/

/-- the constructor a sort field produces -/
def sfTag (sf : SortField) : Nat :=
  match sf.col with
  | none => 1
  | some c =>
    match c.dtype with
    | .int | .int64 | .float => 0
    | .customVar => 2
    | _ => 1

theorem tag_sortKeyOf (v : View) (sf : SortField) : tag (sortKeyOf v sf) = sfTag sf := by
  unfold sortKeyOf sfTag
  cases sf.col with
  | none => rfl
  | some c =>
    simp only []
    cases c.dtype <;> simp only [] <;> (try rfl) <;> (cases v.get c <;> rfl)

/-- the key signature of a request -/
def sigOf (req : Request) : List Nat := req.sort.map sfTag

theorem hasSig_mkHit (cx : Ctx) (t : Table) (req : Request) (r : Row) :
    HasSig (sigOf req) (mkHit cx t req.sort r) := by
  simp [HasSig, sigOf, mkHit, List.map_map, Function.comp_def, tag_sortKeyOf]

theorem hasSig_fullHits (m : EvalMode) (cx : Ctx) (t : Table) (req : Request) :
    ∀ h ∈ fullHits m cx t req, HasSig (sigOf req) h := by
  intro h hh
  obtain ⟨r, _, rfl⟩ := List.mem_map.mp hh
  exact hasSig_mkHit cx t req r

theorem mem_gatherRows_hits (m : EvalMode) (cx : Ctx) (t : Table) (req : Request) (h : Hit)
    (hh : h ∈ (gatherRows m cx t req).hits) : h ∈ fullHits m cx t req := by
  rw [gatherRows_hits] at hh
  cases hc : peerCut m req with
  | none => simpa [hc] using hh
  | some l =>
    rw [hc] at hh
    exact List.mem_of_mem_take hh

theorem hasSig_collected (m : EvalMode) (s : Schema) (ds : Dataset) (t : Table) (req : Request) :
    ∀ h ∈ collected m s ds t req, HasSig (sigOf req) h := by
  intro h hh
  simp only [collected, peerResults, List.mem_flatMap, List.mem_map] at hh
  obtain ⟨_, ⟨b, _, rfl⟩, hh⟩ := hh
  exact hasSig_fullHits m _ t req h (mem_gatherRows_hits m _ t req h hh)

/-- without sort fields every hit has the empty key tuple and `Hit.le` is constantly true, so the
    "no sort" branch of `dataQuery` is the sorted one as well -/
theorem dataQuery_pool (m : EvalMode) (s : Schema) (ds : Dataset) (t : Table) (req : Request)
    (h : req.offset ≤ totalOf m s ds t req) :
    (dataQuery m s ds t req).pool = (collected m s ds t req).mergeSort (Hit.le (dirsOf req)) := by
  rw [dataQuery_pool_raw m s ds t req h, rawPool]
  split
  · rename_i he
    have hs : req.sort = [] := List.isEmpty_iff.mp he
    symm
    apply List.mergeSort_of_pairwise
    apply List.Pairwise.imp (R := fun _ _ => True)
    · intro a b _
      simp [Hit.le, dirsOf, hs, cmpKeys_nil_dirs]
    · exact List.pairwise_of_forall (fun _ _ => trivial)
  · rfl

/-! ## the early cut inside `dataQuery` -/

/-- the same evaluation without the per-backend cut -/
def noCut (m : EvalMode) : EvalMode := { m with earlyCut := false }

theorem fullHits_noCut (m : EvalMode) (cx : Ctx) (t : Table) (req : Request) :
    fullHits (noCut m) cx t req = fullHits m cx t req := rfl

theorem peerCut_noCut (m : EvalMode) (req : Request) : peerCut (noCut m) req = none := rfl

/-- the uncut hit lists of the available backends, in backend order -/
def backendHits (m : EvalMode) (s : Schema) (ds : Dataset) (t : Table) (req : Request) :
    List (List Hit) :=
  (availBackends ds t req).map fun b => fullHits m { schema := s, ds := ds, b := b } t req

theorem collected_of_cut_none (m : EvalMode) (s : Schema) (ds : Dataset) (t : Table) (req : Request)
    (h : peerCut m req = none) : collected m s ds t req = (backendHits m s ds t req).flatten := by
  simp only [collected, peerResults, backendHits, List.flatMap_def, List.map_map]
  congr 1
  apply List.map_congr_left
  intro b _
  simp [gatherRows_hits, h]

theorem collected_of_cut_some (m : EvalMode) (s : Schema) (ds : Dataset) (t : Table) (req : Request)
    (L : Nat) (h : peerCut m req = some L) :
    collected m s ds t req = ((backendHits m s ds t req).map (List.take L)).flatten := by
  simp only [collected, peerResults, backendHits, List.flatMap_def, List.map_map]
  congr 1
  apply List.map_congr_left
  intro b _
  simp [gatherRows_hits, h]

theorem totalOf_eq_sum (m : EvalMode) (s : Schema) (ds : Dataset) (t : Table) (req : Request) :
    totalOf m s ds t req =
      ((availBackends ds t req).map fun b =>
        (gatherRows m { schema := s, ds := ds, b := b } t req).total).sum := by
  rw [totalOf, peerResults, ← List.sum_eq_foldl_nat, List.map_map]
  rfl

theorem totalOf_noCut (m : EvalMode) (s : Schema) (ds : Dataset) (t : Table) (req : Request) :
    totalOf (noCut m) s ds t req = ((backendHits m s ds t req).map List.length).sum := by
  rw [totalOf_eq_sum, backendHits, List.map_map]
  rfl

theorem sum_le_sum_of_forall {α : Type} (l : List α) (f g : α → Nat) (h : ∀ a ∈ l, f a ≤ g a) :
    (l.map f).sum ≤ (l.map g).sum := by
  induction l with
  | nil => simp
  | cons a l ih =>
    simp only [List.map_cons, List.sum_cons]
    have := h a (by simp)
    have := ih (fun b hb => h b (List.mem_cons_of_mem _ hb))
    omega

theorem min_sum_le_sum_min {α : Type} (l : List α) (f : α → Nat) (c : Nat) :
    min (l.map f).sum c ≤ (l.map fun a => min (f a) c).sum := by
  induction l with
  | nil => simp
  | cons a l ih =>
    simp only [List.map_cons, List.sum_cons]
    omega

theorem gatherRows_total_le (m : EvalMode) (cx : Ctx) (t : Table) (req : Request) :
    (gatherRows m cx t req).total ≤ (fullHits m cx t req).length := by
  rw [gatherRows_eq]
  cases peerCut m req with
  | none => exact Nat.le_refl _
  | some l =>
    simp only []
    split
    · exact Nat.le_refl _
    · exact Nat.min_le_left _ _

theorem gatherRows_total_ge (m : EvalMode) (cx : Ctx) (t : Table) (req : Request) (L : Nat)
    (h : peerCut m req = some L) :
    min (fullHits m cx t req).length (L + 1) ≤ (gatherRows m cx t req).total := by
  rw [gatherRows_eq, h]
  simp only []
  split
  · exact Nat.min_le_left _ _
  · exact Nat.le_refl _

/-- the cut never increases the total -/
theorem totalOf_le_noCut (m : EvalMode) (s : Schema) (ds : Dataset) (t : Table) (req : Request) :
    totalOf m s ds t req ≤ totalOf (noCut m) s ds t req := by
  rw [totalOf_eq_sum, totalOf_noCut, backendHits, List.map_map]
  exact sum_le_sum_of_forall _ _ _ (fun b _ => gatherRows_total_le m _ t req)

/-- with a cut at `L` rows per backend the total is still at least `min (true total) (L+1)` -/
theorem totalOf_cut_ge (m : EvalMode) (s : Schema) (ds : Dataset) (t : Table) (req : Request)
    (L : Nat) (h : peerCut m req = some L) :
    min (totalOf (noCut m) s ds t req) (L + 1) ≤ totalOf m s ds t req := by
  rw [totalOf_noCut, totalOf_eq_sum m, backendHits, List.map_map]
  refine Nat.le_trans (min_sum_le_sum_min _ _ (L + 1)) ?_
  exact sum_le_sum_of_forall _ _ _ (fun b _ => gatherRows_total_ge m _ t req L h)

/-- a cut, when applied, is at `limit + offset` rows -/
theorem peerCut_some (m : EvalMode) (req : Request) (L : Nat) (h : peerCut m req = some L) :
    ∃ l, req.limit = some l ∧ L = l + req.offset := by
  unfold peerCut resultLimit at h
  cases hl : req.limit with
  | none => simp [hl] at h
  | some l =>
    refine ⟨l, rfl, ?_⟩
    simp only [hl] at h
    by_cases he : m.earlyCut = true <;> by_cases hd : isDefaultSortOrder req = true <;>
      simp [he, hd] at h
    exact h.2.symm

theorem dataQuery_congr (m m' : EvalMode) (s : Schema) (ds : Dataset) (t : Table) (req : Request)
    (h : peerResults m s ds t req = peerResults m' s ds t req) :
    dataQuery m s ds t req = dataQuery m' s ds t req := by
  rw [dataQuery_eq, dataQuery_eq]
  unfold rawPool collected totalOf
  rw [h]

theorem peerResults_of_cut_none (m : EvalMode) (s : Schema) (ds : Dataset) (t : Table)
    (req : Request) (h : peerCut m req = none) :
    peerResults m s ds t req = peerResults (noCut m) s ds t req := by
  simp only [peerResults]
  apply List.map_congr_left
  intro b _
  rw [gatherRows_eq, gatherRows_eq, h, peerCut_noCut, fullHits_noCut]

/-- soundness of the early cut inside `dataQuery`, up to ties -/
theorem dataQuery_cut_posRel (m : EvalMode) (s : Schema) (ds : Dataset) (t : Table) (req : Request)
    (hord : ∀ A ∈ backendHits m s ds t req, Ordered (Hit.le (dirsOf req)) A) :
    PosRel (Tie (HasSig (sigOf req)) (Hit.le (dirsOf req)))
      (dataQuery m s ds t req).hits (dataQuery (noCut m) s ds t req).hits := by
  have hpre := hitLe_totalPreorderOn (dirsOf req) (sigOf req)
  have hsigB : ∀ A ∈ backendHits m s ds t req, ∀ a ∈ A, HasSig (sigOf req) a := by
    intro A hA a ha
    obtain ⟨b, _, rfl⟩ := List.mem_map.mp hA
    exact hasSig_fullHits m _ t req a ha
  cases hc : peerCut m req with
  | none =>
    rw [dataQuery_congr m (noCut m) s ds t req (peerResults_of_cut_none m s ds t req hc)]
    apply PosRel.of_eq_mem
    intro a ha
    have hmem : a ∈ collected (noCut m) s ds t req := by
      by_cases h : req.offset ≤ totalOf (noCut m) s ds t req
      · rw [dataQuery_hits _ s ds t req h, dataQuery_pool _ s ds t req h] at ha
        exact List.mem_mergeSort.mp ((window_sublist_pool req _).subset ha)
      · rw [(dataQuery_beyond _ s ds t req (Nat.lt_of_not_le h)).1] at ha
        cases ha
    exact Tie.refl hpre (hasSig_collected (noCut m) s ds t req a hmem)
  | some L =>
    obtain ⟨l, hl, hL⟩ := peerCut_some m req L hc
    have hge := totalOf_cut_ge m s ds t req L hc
    have hle := totalOf_le_noCut m s ds t req
    by_cases h : req.offset ≤ totalOf (noCut m) s ds t req
    · have h' : req.offset ≤ totalOf m s ds t req := by omega
      rw [dataQuery_hits _ s ds t req h, dataQuery_pool _ s ds t req h,
        dataQuery_hits _ s ds t req h', dataQuery_pool _ s ds t req h',
        collected_of_cut_some m s ds t req L hc,
        collected_of_cut_none (noCut m) s ds t req (peerCut_noCut m req)]
      have hb : backendHits (noCut m) s ds t req = backendHits m s ds t req := rfl
      rw [hb]
      unfold window
      simp only [hl]
      rw [List.take_drop, List.take_drop]
      have hk : req.offset + l = L := by omega
      rw [hk]
      have := take_mergeSort_flatten_take hpre (backendHits m s ds t req) hsigB hord L
      exact (PosRel.symm (E := Tie (HasSig (sigOf req)) (Hit.le (dirsOf req)))
        (fun _ _ => Tie.symm) this).drop req.offset
    · have h' : ¬ req.offset ≤ totalOf m s ds t req := by omega
      rw [(dataQuery_beyond _ s ds t req (Nat.lt_of_not_le h)).1,
        (dataQuery_beyond _ s ds t req (Nat.lt_of_not_le h')).1]
      exact PosRel.nil

end Lmd.Sort
