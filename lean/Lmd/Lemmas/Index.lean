/-
  Lmd.Lemmas.Index — soundness of index pre-selection (`TryFilterIndex` / `GetPreFilteredData`):
  the keys computed from a filter tree contain the key of every row that satisfies the tree.
-/
import Lmd.Lemmas.Select

namespace Lmd.Lemmas

open Lmd

/-! ### Boolean semantics over an arbitrary leaf predicate, and the leaves of a tree -/

mutual
  /-- `sem` with an arbitrary leaf-level satisfaction predicate -/
  def semG (sat : Leaf → Bool) : Filter → Bool
    | .leaf l n => sat l != n
    | .grp isAnd fs n => (if isAnd then semAllG sat fs else semAnyG sat fs) != n
  def semAllG (sat : Leaf → Bool) : List Filter → Bool
    | [] => true
    | f :: fs => semG sat f && semAllG sat fs
  def semAnyG (sat : Leaf → Bool) : List Filter → Bool
    | [] => false
    | f :: fs => semG sat f || semAnyG sat fs
end

mutual
  /-- with leaf matching as the leaf predicate the generic semantics is `sem` -/
  theorem semG_matchLeaf (q : Quirks) (v : View) : ∀ f : Filter, semG (matchLeaf q v) f = sem q v f
    | .leaf l n => by simp [semG, sem]
    | .grp isAnd fs n => by simp [semG, sem, semAllG_matchLeaf q v fs, semAnyG_matchLeaf q v fs]
  /-- … and the generic conjunction is `semAll` -/
  theorem semAllG_matchLeaf (q : Quirks) (v : View) : ∀ fs : List Filter, semAllG (matchLeaf q v) fs = semAll q v fs
    | [] => by simp [semAllG, semAll]
    | f :: fs => by simp [semAllG, semAll, semG_matchLeaf q v f, semAllG_matchLeaf q v fs]
  /-- … and the generic disjunction is `semAny` -/
  theorem semAnyG_matchLeaf (q : Quirks) (v : View) : ∀ fs : List Filter, semAnyG (matchLeaf q v) fs = semAny q v fs
    | [] => by simp [semAnyG, semAny]
    | f :: fs => by simp [semAnyG, semAny, semG_matchLeaf q v f, semAnyG_matchLeaf q v fs]
end

mutual
  /-- all filter terms occurring in a tree -/
  def leavesOf : Filter → List Leaf
    | .leaf l _ => [l]
    | .grp _ fs _ => leavesOfList fs
  def leavesOfList : List Filter → List Leaf
    | [] => []
    | f :: fs => leavesOf f ++ leavesOfList fs
end

/-! ### `TryFilterIndex` -/

/-- what a successful `tryIndex` run guarantees for one fixed row with key `k`, when `sat` says which
    leaves the row satisfies and every usable leaf the row satisfies lists the row's key -/
theorem tryIndex_sound (f : Leaf → Option (List String)) (sat : Leaf → Bool) (k : String) :
    ∀ (fs : List Filter) (bon : Bool) (found n : Nat) (ks : List String),
      (∀ l ∈ leavesOfList fs, ∀ lk, f l = some lk → sat l = true → k ∈ lk) →
      tryIndex f bon fs found = some (n, ks) →
        found ≤ n ∧
        (bon = false → semAllG sat fs = true → found < n → k ∈ ks) ∧
        (bon = true → semAnyG sat fs = true → k ∈ ks)
  | [], bon, found, n, ks, _, h => by
    simp only [tryIndex, Option.some.injEq, Prod.mk.injEq] at h
    obtain ⟨rfl, rfl⟩ := h
    simp [semAnyG]
  | .leaf l neg :: rest, bon, found, n, ks, hl, h => by
    rw [tryIndex.eq_2] at h
    cases neg with
    | true => simp at h
    | false =>
      simp only [Bool.false_eq_true, if_false] at h
      have hl' : ∀ l' ∈ leavesOfList rest, ∀ lk, f l' = some lk → sat l' = true → k ∈ lk := by
        intro l' hm; exact hl l' (by simp [leavesOfList, hm])
      cases hf : f l with
      | some ks0 =>
        simp only [hf, Option.map_eq_some_iff, Prod.exists] at h
        obtain ⟨n', more, hrec, heq⟩ := h
        simp only [Prod.mk.injEq] at heq
        obtain ⟨rfl, rfl⟩ := heq
        have ih := tryIndex_sound f sat k rest bon (found + 1) n' more hl' hrec
        have hk0 : sat l = true → k ∈ ks0 := hl l (by simp [leavesOfList, leavesOf]) ks0 hf
        refine ⟨by omega, ?_, ?_⟩
        · intro _ hs _
          simp only [semAllG, semG, Bool.and_eq_true, bne_iff_ne, ne_eq, Bool.not_eq_false] at hs
          exact List.mem_append_left _ (hk0 hs.1)
        · intro hb hs
          simp only [semAnyG, semG, Bool.or_eq_true, bne_iff_ne, ne_eq, Bool.not_eq_false] at hs
          rcases hs with hs | hs
          · exact List.mem_append_left _ (hk0 hs)
          · exact List.mem_append_right _ (ih.2.2 hb hs)
      | none =>
        simp only [hf] at h
        cases bon with
        | true => simp at h
        | false =>
          simp only [Bool.false_eq_true, if_false] at h
          have ih := tryIndex_sound f sat k rest false found n ks hl' h
          refine ⟨ih.1, ?_, by simp⟩
          intro _ hs hlt
          simp only [semAllG, Bool.and_eq_true] at hs
          exact ih.2.1 rfl hs.2 hlt
  | .grp isAnd fs' neg :: rest, bon, found, n, ks, hl, h => by
    rw [tryIndex.eq_3] at h
    cases neg with
    | true => simp at h
    | false =>
      simp only [Bool.false_eq_true, if_false] at h
      have hl' : ∀ l' ∈ leavesOfList rest, ∀ lk, f l' = some lk → sat l' = true → k ∈ lk := by
        intro l' hm; exact hl l' (by simp [leavesOfList, hm])
      have hl'' : ∀ l' ∈ leavesOfList fs', ∀ lk, f l' = some lk → sat l' = true → k ∈ lk := by
        intro l' hm; exact hl l' (by simp [leavesOfList, leavesOf, hm])
      cases hg : tryIndexGroup f (!isAnd) fs' with
      | none => simp [hg] at h
      | some ks0 =>
        simp only [hg, Option.map_eq_some_iff, Prod.exists] at h
        obtain ⟨n', more, hrec, heq⟩ := h
        simp only [Prod.mk.injEq] at heq
        obtain ⟨rfl, rfl⟩ := heq
        have ih := tryIndex_sound f sat k rest bon (found + 1) n' more hl' hrec
        -- the group itself
        rw [tryIndexGroup.eq_1] at hg
        have hk0 : semG sat (.grp isAnd fs' false) = true → k ∈ ks0 := by
          intro hs
          cases hi : tryIndex f (!isAnd) fs' 0 with
          | none => simp [hi] at hg
          | some p =>
            obtain ⟨n0, kk⟩ := p
            simp only [hi] at hg
            split at hg
            · rename_i hpos
              simp only [Option.some.injEq] at hg
              subst hg
              have ihg := tryIndex_sound f sat k fs' (!isAnd) 0 n0 kk hl'' hi
              cases isAnd with
              | true =>
                simp only [semG, if_true, bne_iff_ne, ne_eq, Bool.not_eq_false] at hs
                exact ihg.2.1 rfl hs hpos
              | false =>
                simp only [semG, Bool.false_eq_true, if_false, bne_iff_ne, ne_eq, Bool.not_eq_false] at hs
                exact ihg.2.2 rfl hs
            · simp at hg
        refine ⟨by omega, ?_, ?_⟩
        · intro _ hs _
          simp only [semAllG, Bool.and_eq_true] at hs
          exact List.mem_append_left _ (hk0 hs.1)
        · intro hb hs
          simp only [semAnyG, Bool.or_eq_true] at hs
          rcases hs with hs | hs
          · exact List.mem_append_left _ (hk0 hs)
          · exact List.mem_append_right _ (ih.2.2 hb hs)

/-- Soundness of `TryFilterIndex` for a request's filter list (a conjunction): if the index is usable and
    yields `keys`, the key of every row satisfying all filters is among `keys` -/
theorem tryIndexGroup_sound (f : Leaf → Option (List String)) (sat : Leaf → Bool) (k : String)
    (fs : List Filter) (keys : List String)
    (hl : ∀ l ∈ leavesOfList fs, ∀ lk, f l = some lk → sat l = true → k ∈ lk)
    (h : tryIndexGroup f false fs = some keys) (hs : semAllG sat fs = true) : k ∈ keys := by
  rw [tryIndexGroup.eq_1] at h
  cases hi : tryIndex f false fs 0 with
  | none => simp [hi] at h
  | some p =>
    obtain ⟨n0, kk⟩ := p
    simp only [hi] at h
    split at h
    · rename_i hpos
      simp only [Option.some.injEq] at h
      subst h
      exact (tryIndex_sound f sat k fs false 0 n0 kk hl hi).2.1 rfl hs hpos
    · simp at h

/-! ### case folding -/

/-- `Char.ofNat` is the identity on code points below the surrogate range -/
theorem toNat_ofNat_small (n : Nat) (h : n < 0xd800) : (Char.ofNat n).toNat = n := by
  simp [Char.ofNat, Char.toNat, Nat.isValidChar, Char.ofNatAux, h]

/-- lower-casing a character twice is the same as once -/
theorem lowerChar_idem (c : Char) : lowerChar (lowerChar c) = lowerChar c := by
  unfold lowerChar
  simp only []
  split
  · have : (Char.ofNat (c.toNat + 32)).toNat = c.toNat + 32 := toNat_ofNat_small _ (by omega)
    rw [this, if_neg (by omega), if_neg (by omega)]
  · split
    · have : (Char.ofNat (c.toNat + 32)).toNat = c.toNat + 32 := toNat_ofNat_small _ (by omega)
      rw [this, if_neg (by omega), if_neg (by omega)]
    · rfl

/-- character lists equal under simple case folding have the same lower-case image -/
theorem equalFoldL_map : ∀ (a b : List Char), equalFoldL a b = true → a.map lowerChar = b.map lowerChar
  | [], [], _ => rfl
  | [], _ :: _, h => by simp [equalFoldL] at h
  | _ :: _, [], h => by simp [equalFoldL] at h
  | a :: as, b :: bs, h => by
    simp only [equalFoldL, Bool.and_eq_true, beq_iff_eq] at h
    simp [h.1, equalFoldL_map as bs h.2]

/-- strings that are equal under `strings.EqualFold` have the same lower-case form -/
theorem equalFold_goLower {a b : String} (h : equalFold a b = true) : goLower a = goLower b := by
  unfold goLower; rw [equalFoldL_map _ _ h]

/-- `strings.ToLower` is idempotent on the declared alphabet -/
theorem goLower_idem (s : String) : goLower (goLower s) = goLower s := by
  have : lowerChar ∘ lowerChar = lowerChar := funext lowerChar_idem
  simp [goLower, this]

/-- the three places the case-insensitive host index looks at (`x`, its lower-case form, and the stored
    names recorded under that lower-case form) together cover every stored name with the lower-case form of `x` -/
theorem mem_lowerIndex_keys {names : List String} {n x : String} (hn : n ∈ names) (h : goLower n = goLower x) :
    n ∈ x :: goLower x :: lowerIndex names (goLower x) := by
  by_cases hl : goLower n = n
  · rw [← hl, h]; simp
  · have : n ∈ lowerIndex names (goLower x) := by
      simp only [lowerIndex, List.mem_filter, Bool.and_eq_true, beq_iff_eq, bne_iff_ne, ne_eq]
      exact ⟨hn, h, hl⟩
    simp [this]

/-! ### how leaves on locally stored columns read a row -/

/-- the leaf is on a locally stored string column of table `t` that every backend has: neither the leaf's
    copy of the optional flags (`opt`, consulted by `MatchFilter`) nor the column's own optional flags
    (`copt`, consulted by the typed getters since the missing-optional-column repair) are set -/
structure StrLeaf (t : Table) (l : Leaf) : Prop where
  col : t.col? l.col.name = some l.col
  loc : l.col.storage = .loc
  str : l.col.dtype = .str
  opt : l.colOptional = 0
  copt : l.col.optional = 0

/-- a well-typed string leaf on a non-optional column is evaluated on the string `Row.str` yields for its column -/
theorem matchLeaf_strLeaf (q : Quirks) (cx : Ctx) (t : Table) (r : Row) (l : Leaf) (h : StrLeaf t l) :
    matchLeaf q (mkView cx t r) l = matchString l (r.str t l.col.name) := by
  simp [matchLeaf, h.opt, h.copt, matchLeafCore, h.str, mkView, getVal, h.loc, Row.str, h.col]

/-- the leaf is on a string-list column that every backend has and whose getter yields `gs` for the row
    (`val` is about the getter itself, so it already accounts for the column's own optional flags) -/
structure ListLeaf (cx : Ctx) (t : Table) (r : Row) (l : Leaf) (gs : List String) : Prop where
  ty : l.col.dtype = .strList
  opt : l.colOptional = 0
  val : getVal cx t r l.col = .sl gs

/-- a well-typed string-list leaf is evaluated on the list the column's getter yields -/
theorem matchLeaf_listLeaf (q : Quirks) (cx : Ctx) (t : Table) (r : Row) (l : Leaf) (gs : List String)
    (h : ListLeaf cx t r l gs) : matchLeaf q (mkView cx t r) l = matchStringList l gs := by
  simp [matchLeaf, h.opt, matchLeafCore, h.ty, mkView, h.val]

/-- a locally stored, non-optional string-list column (not a lower-case shadow) reads as `Row.strList`,
    whatever the cell holds -/
theorem listLeaf_of_local (cx : Ctx) (t : Table) (r : Row) (l : Leaf)
    (hloc : l.col.storage = .loc) (hty : l.col.dtype = .strList) (hopt : l.colOptional = 0)
    (hcopt : l.col.optional = 0)
    (hlc : hasSuffix l.col.name "_lc" = false)
    (hcell : ∀ v, r.cell? l.col.name = some v → ∃ gs, v = .sl gs) :
    ListLeaf cx t r l (r.strList l.col.name) := by
  refine ⟨hty, hopt, ?_⟩
  simp only [getVal, hcopt, bne_self_eq_false, Bool.false_and, hloc, localVal, hlc, Bool.false_eq_true,
    if_false, Row.strList, hty]
  cases hc : r.cell? l.col.name with
  | none => simp [DataType.zero]
  | some v =>
    obtain ⟨gs, rfl⟩ := hcell v hc
    simp

/-! ### the keys a single leaf contributes contain the key of every row the leaf accepts -/

/-- the host names the index knows -/
def hostNames (cx : Ctx) : List String := (cx.b.rows "hosts").map (fun r => r.str (cx.table "hosts") "name")

/-- every group in `gs` has a hostgroup row that lists host `name` as a member -/
def HostInGroups (cx : Ctx) (name : String) (gs : List String) : Prop :=
  ∀ g ∈ gs, ∃ gr ∈ cx.b.rows "hostgroups", gr.str (cx.table "hostgroups") "name" = g ∧ name ∈ gr.strList "members"

/-- every service group in `gs` has a servicegroup row that lists a service of host `host` with description `desc` -/
def SvcInGroups (cx : Ctx) (host desc : String) (gs : List String) : Prop :=
  ∀ g ∈ gs, ∃ gr ∈ cx.b.rows "servicegroups", gr.str (cx.table "servicegroups") "name" = g ∧ (host, desc) ∈ gr.members "members"

/-- group rows are found through their name, and names are unique -/
def GroupKeyed (cx : Ctx) (table : String) : Prop :=
  (cx.table table).primaryKey = ["name"] ∧ ((cx.b.rows table).map (Row.key (cx.table table))).Nodup

/-- "this leaf's index keys contain `k` whenever the row satisfies the leaf" -/
def LeafSound (q : Quirks) (cx : Ctx) (kind : IndexKind) (t : Table) (r : Row) (k : String) (l : Leaf) : Prop :=
  ∀ ks, leafIndexKeys cx kind t l = some ks → matchLeaf q (mkView cx t r) l = true → k ∈ ks

/-- a stored group row is found by its name when group names are unique keys -/
theorem findByKey_group {cx : Ctx} {table : String} (hk : GroupKeyed cx table) {gr : Row}
    (hm : gr ∈ cx.b.rows table) :
    findByKey (cx.table table) (cx.b.rows table) [gr.str (cx.table table) "name"] = some gr := by
  have := findByKey_of_mem hk.2 hm
  simpa [Row.key, hk.1] using this

/-- hosts table, `name = x` and `name =~ x` -/
theorem leafSound_hosts_name (q : Quirks) (cx : Ctx) (t : Table) (r : Row) (l : Leaf)
    (hl : StrLeaf t l) (hn : l.col.name = "name") (ht : t.name = "hosts")
    (hmem : r.str t "name" ∈ hostNames cx) :
    LeafSound q cx .hosts t r (r.str t "name") l := by
  intro ks hks hm
  rw [matchLeaf_strLeaf q cx t r l hl, hn] at hm
  simp only [leafIndexKeys, hn] at hks
  cases hop : l.op <;> simp only [hop, reduceCtorEq, Option.some.injEq] at hks
  case eq =>
    subst hks
    simp only [matchString, hop, beq_iff_eq] at hm
    simp [hm]
  case eqNc =>
    subst hks
    simp only [matchString, hop] at hm
    simp only [ht, beq_self_eq_true, if_true]
    exact mem_lowerIndex_keys hmem (equalFold_goLower hm)

/-- hosts table, `name_lc = x` and `name_lc =~ x` (what the parser makes of `name ~~ ^x$`) -/
theorem leafSound_hosts_name_lc (q : Quirks) (cx : Ctx) (t : Table) (r : Row) (l : Leaf)
    (hl : StrLeaf t l) (hn : l.col.name = "name_lc") (ht : t.name = "hosts")
    (hmem : r.str t "name" ∈ hostNames cx)
    (hlc : r.str t "name_lc" = goLower (r.str t "name")) :
    LeafSound q cx .hosts t r (r.str t "name") l := by
  intro ks hks hm
  rw [matchLeaf_strLeaf q cx t r l hl, hn, hlc] at hm
  simp only [leafIndexKeys, hn] at hks
  cases hop : l.op <;> simp only [hop, reduceCtorEq, Option.some.injEq] at hks
  case eq =>
    subst hks
    simp only [matchString, hop, beq_iff_eq] at hm
    simp only [ht, beq_self_eq_true, if_true]
    exact mem_lowerIndex_keys hmem (by rw [← hm, goLower_idem])
  case eqNc =>
    subst hks
    simp only [matchString, hop] at hm
    simp only [ht, beq_self_eq_true, if_true]
    have := equalFold_goLower hm
    rw [goLower_idem] at this
    exact mem_lowerIndex_keys hmem this

/-- membership in the member list of the hostgroup found by name -/
theorem mem_hostgroup_keys (cx : Ctx) (l : Leaf) (name : String) (gs : List String)
    (hg : HostInGroups cx name gs) (hk : GroupKeyed cx "hostgroups")
    (hm : matchStringList l gs = true) :
    ∀ ks,
      (match l.op with
        | .ge => some (match findByKey (cx.table "hostgroups") (cx.b.rows "hostgroups") [l.sval] with
            | some g => g.strList "members"
            | none => [])
        | .re | .reNc | .ct | .ctNc =>
          some (((cx.b.rows "hostgroups").filter (fun g => matchString l (g.str (cx.table "hostgroups") "name"))).flatMap
            (fun g => g.strList "members"))
        | _ => none) = some ks → name ∈ ks := by
  intro ks hks
  have hany : ∀ (p : String → Bool), gs.any p = true →
      ∃ gr ∈ cx.b.rows "hostgroups", p (gr.str (cx.table "hostgroups") "name") = true ∧ name ∈ gr.strList "members" := by
    intro p hp
    simp only [List.any_eq_true] at hp
    obtain ⟨g, hgm, hpg⟩ := hp
    obtain ⟨gr, hgr, hname, hmem⟩ := hg g hgm
    exact ⟨gr, hgr, by rw [hname]; exact hpg, hmem⟩
  have hre : gs.any (fun v => matchString l v) = true →
      name ∈ ((cx.b.rows "hostgroups").filter (fun g => matchString l (g.str (cx.table "hostgroups") "name"))).flatMap
            (fun g => g.strList "members") := by
    intro hp
    obtain ⟨gr, hgr, hpg, hmem⟩ := hany _ hp
    simp only [List.mem_flatMap, List.mem_filter]
    exact ⟨gr, ⟨hgr, hpg⟩, hmem⟩
  cases hop : l.op <;> simp only [hop, reduceCtorEq, Option.some.injEq] at hks
  case ge =>
    subst hks
    simp only [matchStringList, hop] at hm
    obtain ⟨gr, hgr, hpg, hmem⟩ := hany _ hm
    have hs : l.sval = gr.str (cx.table "hostgroups") "name" := by simpa using hpg
    rw [hs, findByKey_group hk hgr]
    exact hmem
  case re => subst hks; simp only [matchStringList, hop] at hm; exact hre hm
  case reNc => subst hks; simp only [matchStringList, hop] at hm; exact hre hm
  case ct => subst hks; simp only [matchStringList, hop] at hm; exact hre hm
  case ctNc => subst hks; simp only [matchStringList, hop] at hm; exact hre hm

/-- hosts table, `groups >= g` and `groups ~ pattern`: sound when the hostgroups list the host -/
theorem leafSound_hosts_groups (q : Quirks) (cx : Ctx) (t : Table) (r : Row) (l : Leaf) (gs : List String)
    (hl : ListLeaf cx t r l gs) (hn : l.col.name = "groups")
    (hg : HostInGroups cx (r.str t "name") gs) (hk : GroupKeyed cx "hostgroups") :
    LeafSound q cx .hosts t r (r.str t "name") l := by
  intro ks hks hm
  rw [matchLeaf_listLeaf q cx t r l gs hl] at hm
  simp only [leafIndexKeys, hn] at hks
  exact mem_hostgroup_keys cx l _ gs hg hk hm ks (by rw [← hks]; cases l.op <;> rfl)

/-- services table, `host_groups >= g` and `host_groups ~ pattern` -/
theorem leafSound_services_host_groups (q : Quirks) (cx : Ctx) (t : Table) (r : Row) (l : Leaf) (gs : List String)
    (hl : ListLeaf cx t r l gs) (hn : l.col.name = "host_groups")
    (hg : HostInGroups cx (r.str t "host_name") gs) (hk : GroupKeyed cx "hostgroups") :
    LeafSound q cx .services t r (r.str t "host_name") l := by
  intro ks hks hm
  rw [matchLeaf_listLeaf q cx t r l gs hl] at hm
  simp only [leafIndexKeys, hn] at hks
  exact mem_hostgroup_keys cx l _ gs hg hk hm ks (by rw [← hks]; cases l.op <;> rfl)

/-- services table, `host_name = x` (any data) and `host_name ~ x` (the host must be a known host) -/
theorem leafSound_services_host_name (q : Quirks) (cx : Ctx) (t : Table) (r : Row) (l : Leaf)
    (hl : StrLeaf t l) (hn : l.col.name = "host_name")
    (hmem : l.op = .eq ∨ r.str t "host_name" ∈ hostNames cx) :
    LeafSound q cx .services t r (r.str t "host_name") l := by
  intro ks hks hm
  rw [matchLeaf_strLeaf q cx t r l hl, hn] at hm
  simp only [leafIndexKeys, hn] at hks
  cases hop : l.op <;> simp only [hop, reduceCtorEq, Option.some.injEq] at hks
  case eq =>
    subst hks
    simp only [matchString, hop, beq_iff_eq] at hm
    simp [hm]
  case re =>
    subst hks
    rcases hmem with h | h
    · simp [hop] at h
    · exact List.mem_filter.mpr ⟨h, hm⟩
  case ct =>
    subst hks
    rcases hmem with h | h
    · simp [hop] at h
    · exact List.mem_filter.mpr ⟨h, hm⟩

/-- services table, any indexed operator on `host_name_lc` -/
theorem leafSound_services_host_name_lc (q : Quirks) (cx : Ctx) (t : Table) (r : Row) (l : Leaf)
    (hl : StrLeaf t l) (hn : l.col.name = "host_name_lc")
    (hmem : r.str t "host_name" ∈ hostNames cx)
    (hlc : r.str t "host_name_lc" = goLower (r.str t "host_name")) :
    LeafSound q cx .services t r (r.str t "host_name") l := by
  intro ks hks hm
  rw [matchLeaf_strLeaf q cx t r l hl, hn, hlc] at hm
  simp only [leafIndexKeys, hn] at hks
  have : ks = (cx.b.rows "hosts" |>.map (fun r => r.str (cx.table "hosts") "name")).filter (fun h => matchString l (goLower h)) := by
    cases hop : l.op <;> simp only [hop, reduceCtorEq, Option.some.injEq] at hks <;> exact hks.symm
  rw [this]
  exact List.mem_filter.mpr ⟨hmem, hm⟩

/-- services table, `groups >= g` and `groups ~ pattern`: sound when the servicegroups list the service -/
theorem leafSound_services_groups (q : Quirks) (cx : Ctx) (t : Table) (r : Row) (l : Leaf) (gs : List String)
    (desc : String)
    (hl : ListLeaf cx t r l gs) (hn : l.col.name = "groups")
    (hg : SvcInGroups cx (r.str t "host_name") desc gs) (hk : GroupKeyed cx "servicegroups") :
    LeafSound q cx .services t r (r.str t "host_name") l := by
  intro ks hks hm
  rw [matchLeaf_listLeaf q cx t r l gs hl] at hm
  simp only [leafIndexKeys, hn] at hks
  have hany : ∀ (p : String → Bool), gs.any p = true →
      ∃ gr ∈ cx.b.rows "servicegroups", p (gr.str (cx.table "servicegroups") "name") = true ∧
        r.str t "host_name" ∈ (gr.members "members").map (·.1) := by
    intro p hp
    simp only [List.any_eq_true] at hp
    obtain ⟨g, hgm, hpg⟩ := hp
    obtain ⟨gr, hgr, hname, hmem⟩ := hg g hgm
    exact ⟨gr, hgr, by rw [hname]; exact hpg, List.mem_map.mpr ⟨_, hmem, rfl⟩⟩
  have hre : gs.any (fun v => matchString l v) = true →
      r.str t "host_name" ∈ ((cx.b.rows "servicegroups").filter
          (fun g => matchString l (g.str (cx.table "servicegroups") "name"))).flatMap
            (fun g => (g.members "members").map (·.1)) := by
    intro hp
    obtain ⟨gr, hgr, hpg, hmem⟩ := hany _ hp
    simp only [List.mem_flatMap, List.mem_filter]
    exact ⟨gr, ⟨hgr, hpg⟩, hmem⟩
  cases hop : l.op <;> simp only [hop, reduceCtorEq, Option.some.injEq] at hks
  case ge =>
    simp only [matchStringList, hop] at hm
    obtain ⟨gr, hgr, hpg, hmem⟩ := hany _ hm
    have hs : l.sval = gr.str (cx.table "servicegroups") "name" := by simpa using hpg
    rw [hs, findByKey_group hk hgr] at hks
    simp only [Option.some.injEq] at hks
    subst hks
    exact hmem
  case re => subst hks; simp only [matchStringList, hop] at hm; exact hre hm
  case reNc => subst hks; simp only [matchStringList, hop] at hm; exact hre hm
  case ct => subst hks; simp only [matchStringList, hop] at hm; exact hre hm
  case ctNc => subst hks; simp only [matchStringList, hop] at hm; exact hre hm

/-- tables with a single-column primary key, `key = x` -/
theorem leafSound_primary (q : Quirks) (cx : Ctx) (t : Table) (r : Row) (l : Leaf) (key : String)
    (hl : StrLeaf t l) (hpk : t.primaryKey = [key]) :
    LeafSound q cx .primary t r (r.str t key) l := by
  intro ks hks hm
  rw [matchLeaf_strLeaf q cx t r l hl] at hm
  simp only [leafIndexKeys, hpk] at hks
  split at hks
  · rename_i hkey
    have hkey' : l.col.name = key := by simpa using hkey
    cases hop : l.op <;> simp only [hop, reduceCtorEq, Option.some.injEq] at hks
    subst hks
    simp only [matchString, hop, beq_iff_eq] at hm
    simp [← hkey', hm]
  · simp at hks

/-! ### fetching rows through the index finds every row whose key is listed -/

/-- hosts and single-key tables: a stored row whose key is in the key list is fetched -/
theorem selectByKeys_complete_single (kind : IndexKind) (hkind : kind ≠ .services) (t : Table) (rows : List Row)
    (keys : List String) (key : String) (hpk : t.primaryKey = [key])
    (hnd : (rows.map (Row.key t)).Nodup) (r : Row) (hr : r ∈ rows) (hk : r.str t key ∈ keys) :
    r ∈ selectByKeys kind t rows keys := by
  have hf : findByKey t rows [r.str t key] = some r := by
    have := findByKey_of_mem hnd hr
    simpa [Row.key, hpk] using this
  cases kind
  case services => exact absurd rfl hkind
  all_goals
    simp only [selectByKeys, List.mem_filterMap]
    exact ⟨_, hk, hf⟩

/-- services: a stored service whose host name is in the key list is fetched -/
theorem selectByKeys_complete_services (t : Table) (rows : List Row) (keys : List String)
    (hpk : t.primaryKey = ["host_name", "description"])
    (hnd : (rows.map (Row.key t)).Nodup) (r : Row) (hr : r ∈ rows) (hk : r.str t "host_name" ∈ keys) :
    r ∈ selectByKeys .services t rows keys := by
  have hf : findByKey t rows [r.str t "host_name", r.str t "description"] = some r := by
    have := findByKey_of_mem hnd hr
    simpa [Row.key, hpk] using this
  simp only [selectByKeys, List.mem_flatMap, List.mem_filterMap]
  refine ⟨_, hk, r.str t "description", ?_, hf⟩
  rw [mem_sortDedup]
  exact List.mem_map.mpr ⟨r, List.mem_filter.mpr ⟨hr, by simp⟩, rfl⟩

/-- the string under which the index of table `t` files a row -/
def indexKey (kind : IndexKind) (t : Table) (r : Row) : String :=
  match kind with
  | .hosts => r.str t "name"
  | .services => r.str t "host_name"
  | .primary => r.str t (t.primaryKey.headD "")

/-- the primary key the index of that kind presupposes -/
def KeyShape (t : Table) : Prop :=
  (t.name = "hosts" → t.primaryKey = ["name"]) ∧ (t.name = "services" → t.primaryKey = ["host_name", "description"])

/-- the host index is consulted only for the table named `hosts` -/
theorem indexKind?_hosts {t : Table} (h : indexKind? t = some .hosts) : t.name = "hosts" := by
  unfold indexKind? at h
  split at h
  · simp at h
  · split at h
    · rename_i hn; simpa using hn
    · split at h
      · simp at h
      · split at h <;> simp at h

/-- the service index is consulted only for the table named `services` -/
theorem indexKind?_services {t : Table} (h : indexKind? t = some .services) : t.name = "services" := by
  unfold indexKind? at h
  split at h
  · simp at h
  · split at h
    · simp at h
    · split at h
      · rename_i hn; simpa using hn
      · split at h <;> simp at h

/-- the primary-key index is consulted only for tables with a one-column key -/
theorem indexKind?_primary {t : Table} (h : indexKind? t = some .primary) : ∃ key, t.primaryKey = [key] := by
  unfold indexKind? at h
  split at h
  · simp at h
  · split at h
    · simp at h
    · split at h
      · simp at h
      · split at h
        · rename_i hl
          have hl' : t.primaryKey.length = 1 := by simpa using hl
          match hp : t.primaryKey, hl' with
          | [k], _ => exact ⟨k, rfl⟩
        · simp at h

/-- Completeness of `GetPreFilteredData`, generic in the leaves: with unique keys, a stored row that
    satisfies the filter list is among the candidates, provided every leaf of the filter is sound for it. -/
theorem preFiltered_complete_of_leafSound (q : Quirks) (cx : Ctx) (t : Table) (rows : List Row) (fs : List Filter)
    (r : Row) (hnd : (rows.map (Row.key t)).Nodup) (hshape : KeyShape t) (hr : r ∈ rows)
    (hleaf : ∀ kind, indexKind? t = some kind → ∀ l ∈ leavesOfList fs, LeafSound q cx kind t r (indexKey kind t r) l)
    (hs : semList q (mkView cx t r) fs = true) : r ∈ preFiltered cx t rows fs := by
  rw [preFiltered_eq]
  split
  · exact hr
  · cases hk : indexKind? t with
    | none => exact hr
    | some kind =>
      show r ∈ (match tryIndexGroup (leafIndexKeys cx kind t) false fs with
        | none => rows
        | some keys => selectByKeys kind t rows (sortDedup keys))
      cases hi : tryIndexGroup (leafIndexKeys cx kind t) false fs with
      | none => exact hr
      | some keys =>
        show r ∈ selectByKeys kind t rows (sortDedup keys)
        have hsat : semAllG (matchLeaf q (mkView cx t r)) fs = true := by
          rw [semAllG_matchLeaf, ← semList_eq_semAll]; exact hs
        have hmem : indexKey kind t r ∈ sortDedup keys := by
          rw [mem_sortDedup]
          exact tryIndexGroup_sound (leafIndexKeys cx kind t) (matchLeaf q (mkView cx t r)) _ fs keys
            (fun l hl ks hks hm => hleaf kind hk l hl ks hks hm) hi hsat
        cases kind with
        | hosts =>
          exact selectByKeys_complete_single .hosts (by simp) t rows _ "name" (hshape.1 (indexKind?_hosts hk)) hnd r hr hmem
        | services =>
          exact selectByKeys_complete_services t rows _ (hshape.2 (indexKind?_services hk)) hnd r hr hmem
        | primary =>
          obtain ⟨key, hpk⟩ := indexKind?_primary hk
          have : indexKey .primary t r = r.str t key := by simp [indexKey, hpk]
          rw [this] at hmem
          exact selectByKeys_complete_single .primary (by simp) t rows _ key hpk hnd r hr hmem

/-! ### the indexable leaf shapes and the assumptions under which each is sound -/

/-- Every leaf shape `leafIndexKeys` can use, each with the typing and data assumptions under which its
    keys are proved to contain the row's key:
    * string leaves must sit on the table's own locally stored string column that is not optional, neither
      in the leaf's copy of the flags nor in the column itself (`StrLeaf`, fields `opt` and `copt`);
    * list leaves must sit on a string-list column with no optional flags in the leaf's copy and whose
      getter yields `gs` on this backend (`ListLeaf`);
    * case-insensitive and pattern look-ups need the row's host to be one of the indexed host names;
    * `_lc` columns must hold the lower-case form of their base column;
    * group look-ups need the group tables to list the row (`HostInGroups` / `SvcInGroups`) and group
      names to be unique keys (`GroupKeyed`). -/
inductive Covered (cx : Ctx) (t : Table) (r : Row) : IndexKind → Leaf → Prop
  | hostsName {l : Leaf} : StrLeaf t l → l.col.name = "name" → r.str t "name" ∈ hostNames cx →
      Covered cx t r .hosts l
  | hostsNameLc {l : Leaf} : StrLeaf t l → l.col.name = "name_lc" → r.str t "name" ∈ hostNames cx →
      r.str t "name_lc" = goLower (r.str t "name") → Covered cx t r .hosts l
  | hostsGroups {l : Leaf} {gs : List String} : ListLeaf cx t r l gs → l.col.name = "groups" →
      HostInGroups cx (r.str t "name") gs → GroupKeyed cx "hostgroups" → Covered cx t r .hosts l
  | svcHostName {l : Leaf} : StrLeaf t l → l.col.name = "host_name" →
      (l.op = .eq ∨ r.str t "host_name" ∈ hostNames cx) → Covered cx t r .services l
  | svcHostNameLc {l : Leaf} : StrLeaf t l → l.col.name = "host_name_lc" → r.str t "host_name" ∈ hostNames cx →
      r.str t "host_name_lc" = goLower (r.str t "host_name") → Covered cx t r .services l
  | svcHostGroups {l : Leaf} {gs : List String} : ListLeaf cx t r l gs → l.col.name = "host_groups" →
      HostInGroups cx (r.str t "host_name") gs → GroupKeyed cx "hostgroups" → Covered cx t r .services l
  | svcGroups {l : Leaf} {gs : List String} {desc : String} : ListLeaf cx t r l gs → l.col.name = "groups" →
      SvcInGroups cx (r.str t "host_name") desc gs → GroupKeyed cx "servicegroups" → Covered cx t r .services l
  | primary {l : Leaf} : StrLeaf t l → Covered cx t r .primary l

/-- every `Covered` leaf shape is sound: its keys contain the index key of each row it accepts -/
theorem covered_sound (q : Quirks) (cx : Ctx) (t : Table) (r : Row) (kind : IndexKind) (l : Leaf)
    (hk : indexKind? t = some kind) (hc : Covered cx t r kind l) :
    LeafSound q cx kind t r (indexKey kind t r) l := by
  cases hc with
  | hostsName hl hn hm => exact leafSound_hosts_name q cx t r l hl hn (indexKind?_hosts hk) hm
  | hostsNameLc hl hn hm hlc => exact leafSound_hosts_name_lc q cx t r l hl hn (indexKind?_hosts hk) hm hlc
  | hostsGroups hl hn hg hkey => exact leafSound_hosts_groups q cx t r l _ hl hn hg hkey
  | svcHostName hl hn hm => exact leafSound_services_host_name q cx t r l hl hn hm
  | svcHostNameLc hl hn hm hlc => exact leafSound_services_host_name_lc q cx t r l hl hn hm hlc
  | svcHostGroups hl hn hg hkey => exact leafSound_services_host_groups q cx t r l _ hl hn hg hkey
  | svcGroups hl hn hg hkey => exact leafSound_services_groups q cx t r l _ _ hl hn hg hkey
  | primary hl =>
    obtain ⟨key, hpk⟩ := indexKind?_primary hk
    have : indexKey .primary t r = r.str t key := by simp [indexKey, hpk]
    rw [this]
    exact leafSound_primary q cx t r l key hl hpk

/-- a leaf that contributes no keys is trivially sound -/
theorem leafSound_of_none (q : Quirks) (cx : Ctx) (kind : IndexKind) (t : Table) (r : Row) (k : String) (l : Leaf)
    (h : leafIndexKeys cx kind t l = none) : LeafSound q cx kind t r k l := by
  intro ks hks; rw [h] at hks; simp at hks

/-! ### the model's own consistency assumption implies the group hypotheses -/

/-- `groupsConsistent` (the assumption on backend data recorded in Store.lean) gives `HostInGroups`
    for every stored host and its own `groups` list -/
theorem hostInGroups_of_groupsConsistent (cx : Ctx) (h : groupsConsistent cx.schema cx.b = true)
    (r : Row) (hr : r ∈ cx.b.rows "hosts") :
    HostInGroups cx (r.str (cx.table "hosts") "name") (r.strList "groups") := by
  unfold groupsConsistent at h
  simp only [Bool.and_eq_true] at h
  have h1 := h.1.1.1.1
  simp only [List.all_eq_true, List.any_eq_true, Bool.and_eq_true, beq_iff_eq, List.contains_iff_mem] at h1
  intro g hg
  obtain ⟨gr, hgr, hname, hmem⟩ := h1 r hr g hg
  exact ⟨gr, hgr, hname, hmem⟩

/-- `groupsConsistent` gives `SvcInGroups` for every stored service and its own `groups` list -/
theorem svcInGroups_of_groupsConsistent (cx : Ctx) (h : groupsConsistent cx.schema cx.b = true)
    (r : Row) (hr : r ∈ cx.b.rows "services") :
    SvcInGroups cx (r.str (cx.table "services") "host_name") (r.str (cx.table "services") "description")
      (r.strList "groups") := by
  unfold groupsConsistent at h
  simp only [Bool.and_eq_true] at h
  have h3 := h.1.1.2
  simp only [List.all_eq_true, List.any_eq_true, Bool.and_eq_true, beq_iff_eq] at h3
  intro g hg
  obtain ⟨gr, hgr, hname, hmem⟩ := h3 r hr g hg
  refine ⟨gr, hgr, hname, ?_⟩
  unfold Row.members
  cases hc : gr.cell? "members" with
  | none => simp [hc] at hmem
  | some v =>
    cases v <;> simp only [hc] at hmem <;> first | (simp at hmem; done) | skip
    simp only [List.contains_iff_mem] at hmem
    exact hmem

/-! ### lower-case shadow columns -/

theorem col?_name {t : Table} {n : String} {c : Column} (h : t.col? n = some c) : c.name = n := by
  unfold Table.col? at h
  have := List.find?_some h
  simpa using this

/-- a `<n>_lc` column reads as the lower-case form of column `n` when `n` is a string column and the row
    stores a string (or nothing) there -/
theorem str_lc_eq (t : Table) (r : Row) (n lc : String) (c base : Column)
    (hsuf : hasSuffix lc "_lc" = true) (htrim : trimSuffix lc "_lc" = n) (hn : hasSuffix n "_lc" = false)
    (hc : t.col? lc = some c) (hb : t.col? n = some base) (hty : base.dtype = .str)
    (hcell : ∀ v, r.cell? n = some v → ∃ s, v = .s s) : r.str t lc = goLower (r.str t n) := by
  have hcn := col?_name hc
  have hbn := col?_name hb
  simp only [Row.str, hc, hb, localVal, hcn, hbn, hsuf, hn, htrim, if_true, Bool.false_eq_true, if_false]
  cases hv : r.cell? n with
  | none => simp [hty, DataType.zero, Val.asString, goLower]
  | some v =>
    obtain ⟨s, rfl⟩ := hcell v hv
    simp [Val.asString]

/-- `name_lc` reads as the lower-case form of `name` -/
theorem str_name_lc (t : Table) (r : Row) (c base : Column) (hc : t.col? "name_lc" = some c)
    (hb : t.col? "name" = some base) (hty : base.dtype = .str)
    (hcell : ∀ v, r.cell? "name" = some v → ∃ s, v = .s s) : r.str t "name_lc" = goLower (r.str t "name") :=
  str_lc_eq t r "name" "name_lc" c base (by decide) (by decide) (by decide) hc hb hty hcell

/-- `host_name_lc` reads as the lower-case form of `host_name` -/
theorem str_host_name_lc (t : Table) (r : Row) (c base : Column) (hc : t.col? "host_name_lc" = some c)
    (hb : t.col? "host_name" = some base) (hty : base.dtype = .str)
    (hcell : ∀ v, r.cell? "host_name" = some v → ∃ s, v = .s s) :
    r.str t "host_name_lc" = goLower (r.str t "host_name") :=
  str_lc_eq t r "host_name" "host_name_lc" c base (by decide) (by decide) (by decide) hc hb hty hcell

/-! ### order: the candidates come in key order -/

/-- inserting into a strictly ascending key list keeps it strictly ascending -/
theorem insertSorted_pairwise (s : String) :
    ∀ l : List String, l.Pairwise (· < ·) → (insertSorted s l).Pairwise (· < ·)
  | [], _ => by simp [insertSorted]
  | x :: xs, h => by
    have hx := (List.pairwise_cons.mp h).1
    have hxs := List.Pairwise.of_cons h
    unfold insertSorted
    split
    · rename_i hlt
      refine List.Pairwise.cons ?_ h
      intro y hy
      rcases List.mem_cons.mp hy with rfl | hy
      · exact hlt
      · exact String.lt_trans hlt (hx _ hy)
    · rename_i hnlt
      split
      · exact h
      · rename_i hne
        refine List.Pairwise.cons ?_ (insertSorted_pairwise s xs hxs)
        intro y hy
        rcases (mem_insertSorted s y xs).mp hy with rfl | hy
        · have hle : x ≤ y := String.not_lt.mp hnlt
          apply Classical.byContradiction
          intro hn
          have h' : x = y := String.le_antisymm hle (String.not_lt.mp hn)
          exact hne (by simp [h'])
        · exact hx _ hy

/-- folding `insertSorted` keeps the accumulator strictly ascending -/
theorem foldl_insertSorted_pairwise :
    ∀ (l acc : List String), acc.Pairwise (· < ·) → (l.foldl (fun acc s => insertSorted s acc) acc).Pairwise (· < ·)
  | [], _, h => h
  | x :: xs, acc, h => foldl_insertSorted_pairwise xs _ (insertSorted_pairwise x acc h)

/-- `sortDedup` yields a strictly ascending list -/
theorem sortDedup_pairwise (l : List String) : (sortDedup l).Pairwise (· < ·) :=
  foldl_insertSorted_pairwise l [] List.Pairwise.nil

/-- two lists that are strictly ascending for an irreflexive, asymmetric relation and have the same
    members are equal -/
theorem eq_of_pairwise_of_mem_iff {α : Type} {R : α → α → Prop} (hirr : ∀ a, ¬R a a)
    (hasym : ∀ a b, R a b → ¬R b a) :
    ∀ (l₁ l₂ : List α), l₁.Pairwise R → l₂.Pairwise R → (∀ a, a ∈ l₁ ↔ a ∈ l₂) → l₁ = l₂
  | [], [], _, _, _ => rfl
  | [], y :: ys, _, _, h => by have := (h y).mpr (by simp); simp at this
  | x :: xs, [], _, _, h => by have := (h x).mp (by simp); simp at this
  | x :: xs, y :: ys, h₁, h₂, h => by
    have hx := (List.pairwise_cons.mp h₁).1
    have hy := (List.pairwise_cons.mp h₂).1
    have hxy : x = y := by
      rcases List.mem_cons.mp ((h x).mp (by simp)) with e | hxm
      · exact e
      · rcases List.mem_cons.mp ((h y).mpr (by simp)) with e | hym
        · exact e.symm
        · exact absurd (hx _ hym) (hasym _ _ (hy _ hxm))
    subst hxy
    congr 1
    apply eq_of_pairwise_of_mem_iff hirr hasym xs ys (List.Pairwise.of_cons h₁) (List.Pairwise.of_cons h₂)
    intro a
    constructor
    · intro ha
      rcases List.mem_cons.mp ((h a).mp (List.mem_cons_of_mem _ ha)) with e | h'
      · subst e; exact absurd (hx _ ha) (hirr _)
      · exact h'
    · intro ha
      rcases List.mem_cons.mp ((h a).mpr (List.mem_cons_of_mem _ ha)) with e | h'
      · subst e; exact absurd (hy _ ha) (hirr _)
      · exact h'

/-- strict primary-key order on rows (lexicographic on the key strings) -/
def keyLt (t : Table) (a b : Row) : Prop := a.key t < b.key t

/-- no row sorts before itself -/
theorem keyLt_irrefl (t : Table) (a : Row) : ¬keyLt t a a := List.lt_irrefl _
/-- key order is asymmetric -/
theorem keyLt_asymm (t : Table) (a b : Row) (h : keyLt t a b) : ¬keyLt t b a := List.lt_asymm h

/-- a store sorted strictly by key has unique keys -/
theorem nodup_of_sorted {t : Table} {rows : List Row} (h : rows.Pairwise (keyLt t)) :
    (rows.map (Row.key t)).Nodup := by
  rw [List.Nodup, List.pairwise_map]
  exact h.imp (fun {a b} hab e => by unfold keyLt at hab; rw [e] at hab; exact List.lt_irrefl _ hab)

/-- hosts / single-key tables: rows fetched for ascending keys come in ascending key order -/
theorem selectByKeys_sorted_single (kind : IndexKind) (hkind : kind ≠ .services) (t : Table) (rows : List Row)
    (keys : List String) (hkeys : keys.Pairwise (· < ·)) :
    (selectByKeys kind t rows keys).Pairwise (keyLt t) := by
  have : selectByKeys kind t rows keys = keys.filterMap (fun k => findByKey t rows [k]) := by
    cases kind
    case services => exact absurd rfl hkind
    all_goals rfl
  rw [this]
  refine List.Pairwise.filterMap _ ?_ hkeys
  intro a a' haa b hb b' hb'
  unfold keyLt
  rw [(findByKey_some hb).2, (findByKey_some hb').2]
  simpa [List.cons_lt_cons_iff] using haa

/-- services: rows fetched for ascending host names come in ascending (host, description) order -/
theorem selectByKeys_sorted_services (t : Table) (rows : List Row)
    (keys : List String) (hkeys : keys.Pairwise (· < ·)) :
    (selectByKeys .services t rows keys).Pairwise (keyLt t) := by
  simp only [selectByKeys, List.pairwise_flatMap]
  constructor
  · intro host _
    refine List.Pairwise.filterMap _ ?_ (sortDedup_pairwise _)
    intro a a' haa b hb b' hb'
    unfold keyLt
    rw [(findByKey_some hb).2, (findByKey_some hb').2]
    simp [List.cons_lt_cons_iff, haa]
  · refine hkeys.imp ?_
    intro h₁ h₂ hlt x hx y hy
    simp only [List.mem_filterMap] at hx hy
    obtain ⟨_, _, hfx⟩ := hx
    obtain ⟨_, _, hfy⟩ := hy
    unfold keyLt
    rw [(findByKey_some hfx).2, (findByKey_some hfy).2]
    simp [List.cons_lt_cons_iff, hlt]

/-- the candidates of a key-sorted store are key-sorted -/
theorem preFiltered_sorted (cx : Ctx) (t : Table) (rows : List Row) (fs : List Filter)
    (h : rows.Pairwise (keyLt t)) : (preFiltered cx t rows fs).Pairwise (keyLt t) := by
  rw [preFiltered_eq]
  split
  · exact h
  · cases hk : indexKind? t with
    | none => exact h
    | some kind =>
      show (match tryIndexGroup (leafIndexKeys cx kind t) false fs with
        | none => rows
        | some keys => selectByKeys kind t rows (sortDedup keys)).Pairwise (keyLt t)
      cases hi : tryIndexGroup (leafIndexKeys cx kind t) false fs with
      | none => exact h
      | some keys =>
        show (selectByKeys kind t rows (sortDedup keys)).Pairwise (keyLt t)
        cases kind with
        | services => exact selectByKeys_sorted_services t rows _ (sortDedup_pairwise _)
        | hosts => exact selectByKeys_sorted_single .hosts (by simp) t rows _ (sortDedup_pairwise _)
        | primary => exact selectByKeys_sorted_single .primary (by simp) t rows _ (sortDedup_pairwise _)

/-! ### the candidates contain no row twice -/

/-- rows with pairwise different keys are pairwise different -/
theorem nodup_of_nodup_keys {t : Table} {rows : List Row} (h : (rows.map (Row.key t)).Nodup) : rows.Nodup := by
  rw [List.Nodup, List.pairwise_map] at h
  exact h.imp (fun {a b} hab e => hab (by rw [e]))

/-- no row is fetched twice through the index -/
theorem selectByKeys_nodup (kind : IndexKind) (t : Table) (rows : List Row)
    (keys : List String) (hkeys : keys.Pairwise (· < ·)) : (selectByKeys kind t rows keys).Nodup := by
  have hsorted : (selectByKeys kind t rows keys).Pairwise (keyLt t) := by
    cases kind with
    | services => exact selectByKeys_sorted_services t rows keys hkeys
    | hosts => exact selectByKeys_sorted_single .hosts (by simp) t rows keys hkeys
    | primary => exact selectByKeys_sorted_single .primary (by simp) t rows keys hkeys
  exact hsorted.imp (fun {a b} hab e => by rw [e] at hab; exact keyLt_irrefl t b hab)

/-- the candidate list of a duplicate-free store is duplicate-free -/
theorem preFiltered_nodup (cx : Ctx) (t : Table) (rows : List Row) (fs : List Filter)
    (h : rows.Nodup) : (preFiltered cx t rows fs).Nodup := by
  rw [preFiltered_eq]
  split
  · exact h
  · cases hk : indexKind? t with
    | none => exact h
    | some kind =>
      show (match tryIndexGroup (leafIndexKeys cx kind t) false fs with
        | none => rows
        | some keys => selectByKeys kind t rows (sortDedup keys)).Nodup
      cases hi : tryIndexGroup (leafIndexKeys cx kind t) false fs with
      | none => exact h
      | some keys => exact selectByKeys_nodup kind t rows _ (sortDedup_pairwise _)

/-! ### a backend whose group tables disagree with the hosts' `groups` lists -/
namespace Cex

def groupsCol : Column := { name := "groups", dtype := .strList, storage := .loc }
def hosts : Table := { name := "hosts", cols := [Demo.nameCol, groupsCol], primaryKey := ["name"] }
/-- host `a` says it is in group `g` … -/
def row : Row := { cells := [("name", .s "a"), ("groups", .sl ["g"])] }
/-- … but the backend has no hostgroup `g` -/
def backend : Backend := { id := "b1", name := "b1", tables := [("hosts", [row])] }
def cx : Ctx := { schema := { tables := [hosts] }, ds := { backends := [backend] }, b := backend }
/-- `Filter: groups >= g` -/
def leaf : Leaf := { col := groupsCol, op := .ge, sval := "g" }

end Cex

end Lmd.Lemmas
