/-
  Lmd.Lemmas.ConvergeLemmas — the composition behind C03 "convergence" for one hosts / services delta step:

  * `KeyStatic`, `rowAfter_key`: updates never rewrite a primary-key cell;
  * `Aligned`: the invariant of the positional pairing (cache and sorted backend reply carry the same keys position
    by position, keys distinct); `aligned_step` (a successful `deltaTable` keeps it), `aligned_syncTable` (the
    initial synchronisation establishes it);
  * `applyDelta_aligned`: under `Aligned` a reply that is a filter of the backend's rows is always accepted and
    rewrites exactly the positions of the delivered rows, each from its own backend row;
  * `scanStep_rows`: the same for a whole `deltaTable` step whose full scan is due;
  * `scanChanged_intChanged`, `decision_of_intChanged`, `decision_not_full`: what the decision of
    `prepareDataUpdateSet` is for scan-detected rows and what a skipped / numbers-only decision tells.
-/
import Lmd.Lemmas.PeerLemmas
import Lmd.Lemmas.SyncLemmas

namespace Lmd.PeerL
open Lmd Lmd.SyncLemmas

/-! ## lists -/

/-- positions of a list whose images under `f` are pairwise distinct are determined by the image -/
theorem index_of_nodup_map {α β : Type} (f : α → β) {l : List α} (hn : (l.map f).Nodup) {i j : Nat} {a b : α}
    (hi : l[i]? = some a) (hj : l[j]? = some b) (he : f a = f b) : i = j := by
  rw [List.Nodup, List.pairwise_map, List.pairwise_iff_getElem] at hn
  obtain ⟨hil, rfl⟩ := List.getElem?_eq_some_iff.1 hi
  obtain ⟨hjl, rfl⟩ := List.getElem?_eq_some_iff.1 hj
  rcases Nat.lt_trichotomy i j with h | h | h
  · exact absurd he (hn i j hil hjl h)
  · exact h
  · exact absurd he.symm (hn j i hjl hil h)

theorem nodup_of_index_unique {α : Type} {l : List α}
    (h : ∀ (i j : Nat) (a : α), l[i]? = some a → l[j]? = some a → i = j) : l.Nodup := by
  rw [List.Nodup, List.pairwise_iff_getElem]
  intro i j hi hj hlt he
  have := h i j l[i] (List.getElem?_eq_getElem hi) (by rw [he]; exact List.getElem?_eq_getElem hj)
  omega

theorem mem_range_zip {α : Type} {l : List α} {n : Nat} {x : Nat × α} (h : x ∈ (List.range n).zip l) :
    l[x.1]? = some x.2 := by
  obtain ⟨k, hk⟩ := List.mem_iff_getElem?.1 h
  rw [List.getElem?_zip_eq_some] at hk
  obtain ⟨h1, h2⟩ := hk
  obtain ⟨hkl, hk'⟩ := List.getElem?_eq_some_iff.1 h1
  rw [List.getElem_range] at hk'
  rw [← hk']; exact h2

/-! ## updates never rewrite a primary-key cell -/

/-- No primary-key column of the table — nor the base column of a key column that is a lower-case shadow
    (`…_lc`) — is a column fetched as "Dynamic".  A decidable fact about the schema. -/
def KeyStatic (tab : Table) : Prop :=
  ∀ k ∈ tab.primaryKey, ∀ c ∈ tab.cols, c.fetch = "Dynamic" → c.name ≠ k ∧ c.name ≠ trimSuffix k "_lc"

instance (tab : Table) : Decidable (KeyStatic tab) := by unfold KeyStatic; infer_instance

theorem tableOf_name (w : World) (t : String) : (tableOf w t).name = t := by
  unfold tableOf Schema.table?
  cases h : w.schema.tables.find? (·.name == t) with
  | none => rfl
  | some tab => simpa using List.find?_some h

/-- the dynamic columns of a table are columns of the table fetched as "Dynamic" -/
theorem mem_dynamicCols {w : World} {flags : Nat} {t : String} {c : Column}
    (h : c ∈ dynamicCols w.schema flags (tableOf w t).name) : c ∈ (tableOf w t).cols ∧ c.fetch = "Dynamic" := by
  rw [tableOf_name] at h
  unfold dynamicCols at h
  unfold tableOf
  cases ht : w.schema.table? t with
  | none => rw [ht] at h; cases h
  | some tab =>
    rw [ht] at h
    simp only [List.mem_filter, Bool.and_eq_true, beq_iff_eq] at h
    exact ⟨h.1, h.2.1.2⟩

/-- the string a row shows for column `k` depends on the cell `k` and — for a lower-case shadow column — on the
    cell of its base column only -/
theorem str_congr (tab : Table) (r r' : Row) (k : String) (h1 : r'.cell? k = r.cell? k)
    (h2 : r'.cell? (trimSuffix k "_lc") = r.cell? (trimSuffix k "_lc")) : r'.str tab k = r.str tab k := by
  unfold Row.str
  cases hc : tab.col? k with
  | none => rfl
  | some c =>
    have hn := col?_name hc
    simp only []
    unfold localVal
    rw [hn]
    split
    · split
      · rename_i base hb
        rw [col?_name hb, h2]
      · rw [h1]
    · rw [h1]

/-- a cell that is not named after one of the written columns keeps its value -/
theorem updateRow_cell_static (cols : List Column) (full : Bool) (old : Row) (reply : ReplyRow) (n : String)
    (h : n ∉ cols.map (·.name)) : (updateRow cols full old reply).cell? n = old.cell? n :=
  updateRow_cell_untouched full reply n cols old
    (fun c hc hn => absurd (by rw [← hn]; exact List.mem_map_of_mem hc) h)

/-- whatever the decision, the rewritten row carries the primary key of the cached row -/
theorem rowAfter_key (w : World) (flags : Nat) (t : String) (old : Row) (r : ReplyRow) (hK : KeyStatic (tableOf w t)) :
    (rowAfter w flags (tableOf w t) old r).key (tableOf w t) = old.key (tableOf w t) := by
  unfold rowAfter
  split
  · rfl
  · unfold Row.key
    apply List.map_congr_left
    intro k hk
    have hnot : ∀ n, (n = k ∨ n = trimSuffix k "_lc") →
        n ∉ (dynamicCols w.schema flags (tableOf w t).name).map (·.name) := by
      intro n hn hmem
      obtain ⟨c, hc, rfl⟩ := List.mem_map.1 hmem
      obtain ⟨h1, h2⟩ := mem_dynamicCols hc
      have := hK k hk c h1 h2
      rcases hn with hn | hn
      · exact this.1 hn
      · exact this.2 hn
    exact str_congr _ _ _ k (updateRow_cell_static _ _ _ _ _ (hnot k (.inl rfl)))
      (updateRow_cell_static _ _ _ _ _ (hnot _ (.inr rfl)))

theorem deltaStep_keys (w : World) (flags : Nat) (t : String) (hK : KeyStatic (tableOf w t)) (rows : List Row)
    (x : Nat × ReplyRow) :
    (deltaStep w flags (tableOf w t) rows x).map (·.key (tableOf w t)) = rows.map (·.key (tableOf w t)) := by
  unfold deltaStep
  cases hx : rows[x.1]? with
  | none => rfl
  | some old =>
    simp only []
    apply List.ext_getElem?
    intro j
    rw [List.getElem?_map, List.getElem?_map]
    by_cases hj : x.1 = j
    · subst hj
      have hl : x.1 < rows.length := (List.getElem?_eq_some_iff.1 hx).1
      rw [List.getElem?_set_self hl, hx]
      simp only [Option.map_some]
      rw [rowAfter_key w flags t old x.2 hK]
    · rw [List.getElem?_set_ne hj]

theorem foldl_deltaStep_keys (w : World) (flags : Nat) (t : String) (hK : KeyStatic (tableOf w t)) :
    ∀ (upd : List (Nat × ReplyRow)) (rows : List Row),
      (upd.foldl (deltaStep w flags (tableOf w t)) rows).map (·.key (tableOf w t)) = rows.map (·.key (tableOf w t))
  | [], _ => rfl
  | x :: xs, rows => by
    rw [List.foldl_cons, foldl_deltaStep_keys w flags t hK xs, deltaStep_keys w flags t hK]

/-- an accepted reply leaves the number of rows and every row's primary key as they were -/
theorem applyDelta_keys (w : World) (flags : Nat) (t : String) (hK : KeyStatic (tableOf w t)) (cached : List Row)
    (reply : List ReplyRow) (rows : List Row) (h : applyDelta w flags (tableOf w t) cached reply = some rows) :
    rows.map (·.key (tableOf w t)) = cached.map (·.key (tableOf w t)) := by
  rw [applyDelta_eq] at h
  cases ha : addressed (tableOf w t) cached reply with
  | none => rw [ha] at h; cases h
  | some upd =>
    rw [ha] at h
    simp only [Option.map_some, Option.some.injEq] at h
    subst h
    exact foldl_deltaStep_keys w flags t hK upd cached

/-! ## the invariant of the positional pairing -/

/-- The cached rows of table `t` and the backend's rows sorted by primary key (as a scan / same-size reply is
    paired with the cache) have the same length, carry the same primary key position by position, and the keys of
    the cached rows are pairwise distinct. -/
structure Aligned (w : World) (t : String) (backend : List ReplyRow) (cached : List Row) : Prop where
  len : (sortedReply w t backend).length = cached.length
  key : ∀ (i : Nat) (r : ReplyRow) (old : Row), (sortedReply w t backend)[i]? = some r → cached[i]? = some old →
    old.key (tableOf w t) = replyKey (tableOf w t) r
  nodup : (cached.map (·.key (tableOf w t))).Nodup

theorem sortedReply_perm (w : World) (t : String) (rows : List ReplyRow) : (sortedReply w t rows).Perm rows :=
  sortedDelta_perm (tableOf w t) rows

theorem Aligned.cached_at {w : World} {t : String} {backend : List ReplyRow} {cached : List Row}
    (hA : Aligned w t backend cached) {i : Nat} {r : ReplyRow} (hi : (sortedReply w t backend)[i]? = some r) :
    ∃ old, cached[i]? = some old ∧ old.key (tableOf w t) = replyKey (tableOf w t) r := by
  have hl : i < cached.length := by rw [← hA.len]; exact (List.getElem?_eq_some_iff.1 hi).1
  exact ⟨cached[i], List.getElem?_eq_getElem hl, hA.key i r _ hi (List.getElem?_eq_getElem hl)⟩

/-- a backend row stands at one position of the sorted reply only -/
theorem Aligned.index_unique {w : World} {t : String} {backend : List ReplyRow} {cached : List Row}
    (hA : Aligned w t backend cached) {i j : Nat} {r : ReplyRow}
    (hi : (sortedReply w t backend)[i]? = some r) (hj : (sortedReply w t backend)[j]? = some r) : i = j := by
  obtain ⟨a, ha, hka⟩ := hA.cached_at hi
  obtain ⟨b, hb, hkb⟩ := hA.cached_at hj
  exact index_of_nodup_map _ hA.nodup ha hb (by rw [hka, hkb])

theorem Aligned.backend_nodup {w : World} {t : String} {backend : List ReplyRow} {cached : List Row}
    (hA : Aligned w t backend cached) : backend.Nodup :=
  (sortedReply_perm w t backend).nodup_iff.1 (nodup_of_index_unique fun _ _ _ hi hj => hA.index_unique hi hj)

/-- under `Aligned` the index lookup of a backend row finds the position the row has in the sorted reply -/
theorem lookup_aligned {w : World} {t : String} {backend : List ReplyRow} {cached : List Row}
    (hA : Aligned w t backend cached) {r : ReplyRow} (hr : r ∈ sortedReply w t backend) :
    ∃ j, lookup (tableOf w t) cached r = some (j, r) ∧ (sortedReply w t backend)[j]? = some r := by
  obtain ⟨j, hj⟩ := List.mem_iff_getElem?.1 hr
  obtain ⟨old, hold, hkey⟩ := hA.cached_at hj
  cases hl : lookup (tableOf w t) cached r with
  | none =>
    exfalso
    unfold lookup at hl
    split at hl
    · cases hl
    · rename_i hnone
      have hsome : (cached.zipIdx.reverse.find? (fun (c, _) => c.key (tableOf w t) == replyKey (tableOf w t) r)).isSome := by
        rw [List.find?_isSome]
        exact ⟨(old, j), by rw [List.mem_reverse, List.mk_mem_zipIdx_iff_getElem?]; exact hold, by simpa using hkey⟩
      rw [hnone] at hsome; cases hsome
  | some y =>
    obtain ⟨e, c, hc, hk⟩ := lookup_spec hl
    have : y.1 = j := index_of_nodup_map _ hA.nodup hc hold (by rw [hk, hkey])
    refine ⟨j, ?_, hj⟩
    rw [← this, ← e]

theorem mapM_lookup_aligned {w : World} {t : String} {backend : List ReplyRow} {cached : List Row}
    (hA : Aligned w t backend cached) :
    ∀ (l : List (Row × ReplyRow)), (∀ x ∈ l, x.2 ∈ sortedReply w t backend) →
      ∃ upd, l.mapM (fun x => lookup (tableOf w t) cached x.2) = some upd ∧
        ∀ y ∈ upd, (sortedReply w t backend)[y.1]? = some y.2
  | [], _ => ⟨[], rfl, fun _ h => by cases h⟩
  | a :: l, h => by
    obtain ⟨j, hj, hs⟩ := lookup_aligned hA (h a List.mem_cons_self)
    obtain ⟨upd, hu, hall⟩ := mapM_lookup_aligned hA l (fun x hx => h x (List.mem_cons_of_mem _ hx))
    refine ⟨(j, a.2) :: upd, ?_, ?_⟩
    · rw [List.mapM_cons, hj, hu]; rfl
    · intro y hy
      rcases List.mem_cons.1 hy with rfl | hy
      · exact hs
      · exact hall y hy

/-- under `Aligned` every reply made of backend rows is accepted, and every reply row addresses the position it
    has in the sorted backend reply -/
theorem addressed_aligned {w : World} {t : String} {backend : List ReplyRow} {cached : List Row}
    (hA : Aligned w t backend cached) (pred : ReplyRow → Bool) :
    ∃ upd, addressed (tableOf w t) cached (backend.filter pred) = some upd ∧
      ∀ y ∈ upd, (sortedReply w t backend)[y.1]? = some y.2 := by
  unfold addressed
  split
  · rename_i hl
    have hl' : (backend.filter pred).length = backend.length := by
      have : (sortedDelta (tableOf w t) (backend.filter pred)).length = cached.length := by simpa using hl
      rw [sortedDelta_length, ← hA.len, sortedReply_length] at this
      exact this
    have hall : backend.filter pred = backend := List.filter_eq_self.2 (List.length_filter_eq_length_iff.1 hl')
    rw [hall]
    exact ⟨_, rfl, fun y hy => mem_range_zip hy⟩
  · apply mapM_lookup_aligned hA
    intro x hx
    have h1 : x.2 ∈ (sortedDelta (tableOf w t) (backend.filter pred)).map (·.2) := List.mem_map_of_mem hx
    have h2 := (sortedDelta_perm (tableOf w t) (backend.filter pred)).mem_iff.1 h1
    exact (sortedReply_perm w t backend).mem_iff.2 (List.mem_filter.1 h2).1

/-- Under `Aligned`, a reply that consists of the backend rows selected by `pred` is accepted, and the new table is
    the old one with exactly the positions of the selected rows rewritten, each from the backend row of the same
    position (the same object). -/
theorem applyDelta_aligned (w : World) (flags : Nat) (t : String) (backend : List ReplyRow) (cached : List Row)
    (pred : ReplyRow → Bool) (hA : Aligned w t backend cached) :
    ∃ rows, applyDelta w flags (tableOf w t) cached (backend.filter pred) = some rows ∧
      rows.length = cached.length ∧
      ∀ (i : Nat) (r : ReplyRow) (old : Row), (sortedReply w t backend)[i]? = some r → cached[i]? = some old →
        rows[i]? = some (if pred r then rowAfter w flags (tableOf w t) old r else old) := by
  obtain ⟨upd, hu, hpos⟩ := addressed_aligned hA pred
  obtain ⟨hperm, _, _⟩ := addressed_spec hu
  refine ⟨upd.foldl (deltaStep w flags (tableOf w t)) cached, by rw [applyDelta_eq, hu]; rfl,
    foldl_deltaStep_length w flags _ upd cached, ?_⟩
  -- every addressed row is selected
  have hsel : ∀ y ∈ upd, pred y.2 = true := fun y hy =>
    (List.mem_filter.1 (hperm.mem_iff.1 (List.mem_map_of_mem hy))).2
  -- no two entries address the same position
  have hnd : (upd.map (·.1)).Nodup := by
    have h2 : (upd.map (·.2)).Nodup :=
      hperm.nodup_iff.2 (List.Nodup.sublist List.filter_sublist hA.backend_nodup)
    rw [List.Nodup, List.pairwise_map] at h2 ⊢
    refine List.Pairwise.imp_of_mem (fun {a b} ha hb hne he => hne ?_) h2
    have h3 := hpos a ha
    rw [he, hpos b hb] at h3
    exact (Option.some.inj h3).symm
  intro i r old hi hold
  cases hp : pred r with
  | true =>
    have hm : (i, r) ∈ upd := by
      have hr : r ∈ backend.filter pred :=
        List.mem_filter.2 ⟨(sortedReply_perm w t backend).mem_iff.1 (List.mem_of_getElem? hi), hp⟩
      obtain ⟨y, hy, hy2⟩ := List.mem_map.1 (hperm.mem_iff.2 hr)
      have h3 := hpos y hy
      rw [hy2] at h3
      have : y.1 = i := hA.index_unique h3 hi
      rw [← this, ← hy2]; exact hy
    simpa using foldl_deltaStep_once w flags _ upd cached (i, r) old (onlyOnce_of_nodup upd _ hnd hm) hold
  | false =>
    rw [foldl_deltaStep_other w flags _ i upd cached, hold]
    · rfl
    · intro y hy he
      have h3 := hpos y hy
      rw [he, hi] at h3
      have := hsel y hy
      rw [← Option.some.inj h3, hp] at this
      cases this

/-! ## one hosts / services step -/

/-- the window part of a delta request: the time stamp lies in `[lo, hi)`, or the object is being checked right now
    (when the request asks for that) -/
def windowHit (tsCol : String) (window : Option (Int × Int)) (executing : Bool) (r : ReplyRow) : Bool :=
  match window with
  | some (lo, hi) => (lo ≤ replyInt r tsCol && replyInt r tsCol < hi) || (executing && replyInt r "is_executing" == 1)
  | none => false

theorem deltaReply_eq_filter (rows : List ReplyRow) (tsCol : String) (window : Option (Int × Int)) (executing : Bool)
    (extra : List Int) :
    deltaReply rows tsCol window executing extra =
      rows.filter fun r => windowHit tsCol window executing r || extra.contains (replyInt r "last_check") := rfl

/-- whether a delta request asks for the objects that are being checked (`is_executing = 1`) -/
def stepExecuting (w : World) (flags0 : Nat) : Bool :=
  tsColumn w flags0 == "last_check" && w.cfg.syncIsExecuting && (flags0 &&& flagBit w.schema "Shinken") == 0

theorem plainStep_eq_ok (w : World) (now : Int) (c : Cache) (t : String) (window : Option (Int × Int)) (flags0 : Nat)
    (p : PeerSt) (b : BackendSt) (extra : List Int) (mark : Bool) (hq : (query w now p b).2.2 = none) :
    plainStep w now c t window flags0 p b extra mark =
      match applyDelta w (query w now p b).1.flags (tableOf w t) (c.get t)
          ((b.rows t).filter fun r => windowHit (tsColumn w flags0) window (stepExecuting w flags0) r ||
            extra.contains (replyInt r "last_check")) with
      | none => { p := (query w now p b).1, b := (query w now p b).2.1, cache := c, err := .failed "unknown object" }
      | some rows =>
        { p := if mark then (if t == "hosts" then { (query w now p b).1 with lastFullHostUpdate := now }
                else { (query w now p b).1 with lastFullServiceUpdate := now }) else (query w now p b).1,
          b := (query w now p b).2.1, cache := c.set t rows, err := .none } := by
  unfold plainStep
  simp only [hq]
  rw [query_rows]
  rfl

/-- a delta request that is answered, against an aligned table: it succeeds, and rewrites exactly the positions of
    the delivered rows, each from its own backend row -/
theorem plainStep_aligned (w : World) (now : Int) (c : Cache) (t : String) (window : Option (Int × Int)) (flags0 : Nat)
    (p : PeerSt) (b : BackendSt) (extra : List Int) (mark : Bool) (hq : (query w now p b).2.2 = none)
    (hA : Aligned w t (b.rows t) (c.get t)) :
    (plainStep w now c t window flags0 p b extra mark).err = .none ∧
    (plainStep w now c t window flags0 p b extra mark).b.rows t = b.rows t ∧
    ((plainStep w now c t window flags0 p b extra mark).cache.get t).length = (c.get t).length ∧
    ∀ (i : Nat) (r : ReplyRow) (old : Row), (sortedReply w t (b.rows t))[i]? = some r → (c.get t)[i]? = some old →
      ((plainStep w now c t window flags0 p b extra mark).cache.get t)[i]? =
        some (if windowHit (tsColumn w flags0) window (stepExecuting w flags0) r || extra.contains (replyInt r "last_check")
          then rowAfter w (query w now p b).1.flags (tableOf w t) old r else old) := by
  obtain ⟨rows, h1, h2, h3⟩ := applyDelta_aligned w (query w now p b).1.flags t (b.rows t) (c.get t)
    (fun r => windowHit (tsColumn w flags0) window (stepExecuting w flags0) r || extra.contains (replyInt r "last_check")) hA
  rw [plainStep_eq_ok w now c t window flags0 p b extra mark hq, h1]
  refine ⟨rfl, query_rows w now p b true t, ?_, ?_⟩
  · simpa only [cache_get_set_same] using h2
  · simpa only [cache_get_set_same] using h3

theorem plainStep_ok {w : World} {now : Int} {c : Cache} {t : String} {window : Option (Int × Int)} {flags0 : Nat}
    {p : PeerSt} {b : BackendSt} {extra : List Int} {mark : Bool}
    (h : (plainStep w now c t window flags0 p b extra mark).err = .none) :
    ∃ flags reply rows, applyDelta w flags (tableOf w t) (c.get t) reply = some rows ∧
      (plainStep w now c t window flags0 p b extra mark).cache = c.set t rows ∧
      (plainStep w now c t window flags0 p b extra mark).b.rows t = b.rows t := by
  unfold plainStep at h ⊢
  simp only [] at h ⊢
  split
  · rename_i he; rw [he] at h; cases h
  · rename_i he
    rw [he] at h
    simp only [] at h
    split
    · rename_i ha; rw [ha] at h; cases h
    · rename_i rows ha
      exact ⟨_, _, rows, ha, rfl, query_rows w now p b true t⟩

/-- a successful hosts / services step publishes a table that an accepted reply produced from the old one, and the
    backend's objects are what they were -/
theorem deltaTable_ok {w : World} {now : Int} {p : PeerSt} {b : BackendSt} {c : Cache} {t : String}
    {window : Option (Int × Int)} {threshold : Int} (h : (deltaTable w now p b c t window threshold).err = .none) :
    ∃ flags reply rows, applyDelta w flags (tableOf w t) (c.get t) reply = some rows ∧
      (deltaTable w now p b c t window threshold).cache = c.set t rows ∧
      (deltaTable w now p b c t window threshold).b.rows t = b.rows t := by
  rw [deltaTable_eq] at h ⊢
  simp only [] at h ⊢
  split
  · rename_i hd; rw [if_pos hd] at h; exact plainStep_ok h
  · rename_i hd
    rw [if_neg hd] at h
    split
    · rename_i he; rw [he] at h; cases h
    · rename_i he
      rw [he] at h
      simp only [] at h
      split
      · rename_i hl; rw [if_pos hl] at h; cases h
      · rename_i hl
        rw [if_neg hl] at h
        split
        · rename_i hm
          rw [if_pos hm] at h
          obtain ⟨fl, reply, rows, h1, h2, h3⟩ := plainStep_ok h
          exact ⟨fl, reply, rows, h1, h2, by rw [h3]; exact query_rows w now p b true t⟩
        · rename_i hm
          rw [if_neg hm] at h
          obtain ⟨fl, reply, rows, h1, h2, h3⟩ := plainStep_ok h
          exact ⟨fl, reply, rows, h1, h2, by rw [h3]; exact query_rows w now p b true t⟩

/-- A successful hosts / services step keeps the pairing invariant: the table keeps its rows' primary keys (only
    dynamic columns are rewritten, and no key column is dynamic) and the backend keeps its objects. -/
theorem aligned_step (w : World) (now : Int) (p : PeerSt) (b : BackendSt) (c : Cache) (t : String)
    (window : Option (Int × Int)) (threshold : Int) (hK : KeyStatic (tableOf w t))
    (hA : Aligned w t (b.rows t) (c.get t)) (hok : (deltaTable w now p b c t window threshold).err = .none) :
    Aligned w t ((deltaTable w now p b c t window threshold).b.rows t)
      ((deltaTable w now p b c t window threshold).cache.get t) := by
  obtain ⟨fl, reply, rows, h1, h2, h3⟩ := deltaTable_ok hok
  rw [h2, h3, cache_get_set_same]
  have hk := applyDelta_keys w fl t hK (c.get t) reply rows h1
  have hlen : rows.length = (c.get t).length := by simpa using congrArg List.length hk
  refine ⟨by rw [hA.len, hlen], fun i r new hi hn => ?_, by rw [hk]; exact hA.nodup⟩
  obtain ⟨old, hold, hkey⟩ := hA.cached_at hi
  have := congrArg (fun l => l[i]?) hk
  simp only [List.getElem?_map, hn, hold, Option.map_some, Option.some.injEq] at this
  rw [this, hkey]

/-- the scan columns of a step whose full scan is due -/
def stepScanCols (w : World) (now : Int) (p : PeerSt) (b : BackendSt) : List String :=
  scanColumns (tsColumn w p.flags == "last_check") (((query w now p b).1.flags &&& flagBit w.schema "HasLastUpdateColumn") != 0)

/-- the `last_check` values the full scan of a step asks for -/
def stepMissing (w : World) (now : Int) (p : PeerSt) (b : BackendSt) (c : Cache) (t : String) (threshold : Int) : List Int :=
  scanMissing w t p.flags (query w now p b).1.flags threshold (b.rows t) (c.get t)

/-- the flags in force when the reply of the delta request of a scanning step is applied (a reconnect during one of
    the two requests resets them to the configured ones) -/
def applyFlags (w : World) (now : Int) (p : PeerSt) (b : BackendSt) : Nat :=
  (query w now (query w now p b).1 (query w now p b).2.1).1.flags

/-- the backend rows the delta request of a scanning step delivers: in the window, or with a `last_check` the scan listed -/
def delivered (w : World) (now : Int) (p : PeerSt) (b : BackendSt) (c : Cache) (t : String)
    (window : Option (Int × Int)) (threshold : Int) (r : ReplyRow) : Bool :=
  windowHit (tsColumn w p.flags) window (stepExecuting w p.flags) r ||
    (stepMissing w now p b c t threshold).contains (replyInt r "last_check")

/-- a scan-detected row is delivered -/
theorem delivered_of_scan {w : World} {now : Int} {p : PeerSt} {b : BackendSt} {c : Cache} {t : String}
    {window : Option (Int × Int)} {threshold : Int} {i : Nat} {r : ReplyRow} {old : Row}
    (hi : (sortedReply w t (b.rows t))[i]? = some r) (hold : (c.get t)[i]? = some old)
    (hs : scanChanged (tableOf w t) (stepScanCols w now p b) old r = true) (hlt : replyInt r "last_check" < threshold) :
    delivered w now p b c t window threshold r = true := by
  unfold delivered
  rw [Bool.or_eq_true]
  right
  rw [List.contains_iff_mem]
  unfold stepMissing
  rw [scanMissing_mem]
  refine ⟨(r, old), ?_, rfl, hlt, hs⟩
  rw [List.mem_iff_getElem?]
  exact ⟨i, by rw [List.getElem?_zip_eq_some]; exact ⟨hi, hold⟩⟩

/-- A hosts / services step whose full scan is due, both of whose requests are answered, against an aligned table,
    the scan's list staying under the cap: the step succeeds and rewrites exactly the positions of the delivered rows,
    each from the backend row of the same object. -/
theorem scanStep_rows (w : World) (now : Int) (p : PeerSt) (b : BackendSt) (c : Cache) (t : String)
    (window : Option (Int × Int)) (threshold : Int)
    (hA : Aligned w t (b.rows t) (c.get t))
    (hdue : ¬ lastFullOf p t > now - 60) (hq1 : (query w now p b).2.2 = none)
    (hq2 : (query w now (query w now p b).1 (query w now p b).2.1).2.2 = none)
    (hcap : tsFilterLen (stepMissing w now p b c t threshold) ≤ 150) :
    (deltaTable w now p b c t window threshold).err = .none ∧
    (deltaTable w now p b c t window threshold).b.rows t = b.rows t ∧
    ((deltaTable w now p b c t window threshold).cache.get t).length = (c.get t).length ∧
    ∀ (i : Nat) (r : ReplyRow) (old : Row), (sortedReply w t (b.rows t))[i]? = some r → (c.get t)[i]? = some old →
      ((deltaTable w now p b c t window threshold).cache.get t)[i]? =
        some (if delivered w now p b c t window threshold r
          then rowAfter w (applyFlags w now p b) (tableOf w t) old r else old) := by
  have hlen : ¬ (c.get t).length < (b.rows t).length := by
    have := hA.len; rw [sortedReply_length] at this; omega
  have hrows : (query w now p b).2.1.rows t = b.rows t := query_rows w now p b true t
  have hA' : Aligned w t ((query w now p b).2.1.rows t) (c.get t) := by rw [hrows]; exact hA
  have key : ∀ mark, deltaTable w now p b c t window threshold =
      plainStep w now c t window p.flags (query w now p b).1 (query w now p b).2.1 (stepMissing w now p b c t threshold) mark →
      _ := fun mark e => by
    have := plainStep_aligned w now c t window p.flags (query w now p b).1 (query w now p b).2.1
      (stepMissing w now p b c t threshold) mark hq2 hA'
    rw [← e, hrows] at this
    exact this
  rw [deltaTable_scan w now p b c t window threshold hdue hq1 hlen]
  have hscan := deltaTable_scan w now p b c t window threshold hdue hq1 hlen
  simp only [] at hscan ⊢
  by_cases hm : (scanMissing w t p.flags (query w now p b).1.flags threshold (b.rows t) (c.get t)).isEmpty = true
  · rw [if_pos hm] at hscan ⊢
    have he : stepMissing w now p b c t threshold = [] := by unfold stepMissing; exact List.isEmpty_iff.1 hm
    rw [← hscan]
    exact key false (by rw [hscan, he])
  · rw [if_neg hm] at hscan ⊢
    have hc : ¬ tsFilterLen (scanMissing w t p.flags (query w now p b).1.flags threshold (b.rows t) (c.get t)) > 150 := by
      unfold stepMissing at hcap; omega
    rw [if_neg hc] at hscan ⊢
    rw [← hscan]
    exact key true hscan

/-! ## the decision for scan-detected rows -/

/-- Every scan column that the table has with type int or int64 (the scan ignores columns of other types) is one of
    the dynamic columns the peer refreshes under `flags`.  A decidable fact about schema and flags. -/
def ScanColsDynamic (w : World) (t : String) (scanCols : List String) (flags : Nat) : Prop :=
  ∀ n ∈ scanCols, ∀ col, (tableOf w t).col? n = some col → (col.dtype = .int ∨ col.dtype = .int64) →
    col ∈ dynamicCols w.schema flags (tableOf w t).name

instance decForallSome {α : Type} (o : Option α) (P : α → Prop) [∀ a, Decidable (P a)] :
    Decidable (∀ a, o = some a → P a) :=
  match o with
  | none => isTrue (fun _ h => by cases h)
  | some a => decidable_of_iff (P a) ⟨fun h _ hb => by cases hb; exact h, fun h => h a rfl⟩

instance (w : World) (t : String) (scanCols : List String) (flags : Nat) :
    Decidable (ScanColsDynamic w t scanCols flags) := by unfold ScanColsDynamic; infer_instance

/-- what the scan saw on a dynamic int / int64 column, `checkChangedIntValues` of the update sees too -/
theorem scanChanged_intChanged {w : World} {t : String} {scanCols : List String} {flags : Nat} {old : Row} {r : ReplyRow}
    (hS : ScanColsDynamic w t scanCols flags) (h : scanChanged (tableOf w t) scanCols old r = true) :
    intChanged (dynamicCols w.schema flags (tableOf w t).name) old r = true := by
  unfold scanChanged at h
  rw [List.any_eq_true] at h
  obtain ⟨n, hn, hc⟩ := h
  unfold intChanged
  rw [List.any_eq_true]
  cases hcol : (tableOf w t).col? n with
  | none => rw [hcol] at hc; cases hc
  | some col =>
    rw [hcol] at hc
    simp only [] at hc
    have hname := col?_name hcol
    cases hd : col.dtype <;> rw [hd] at hc <;> simp only [] at hc <;> try (cases hc)
    · exact ⟨col, hS n hn col hcol (.inl hd), by rw [hd, hname]; exact hc⟩
    · exact ⟨col, hS n hn col hcol (.inr hd), by rw [hd, hname]; exact hc⟩

/-- a reply row that differs from the cached row in a dynamic int / int64 column is copied in full -/
theorem decision_of_intChanged {w : World} {flags : Nat} {tab : Table} {old : Row} {r : ReplyRow}
    (h : intChanged (dynamicCols w.schema flags tab.name) old r = true) : decision w flags tab old r = some true := by
  unfold decision
  simp only [h, Bool.or_true, if_true]
  cases hasLU w flags tab <;> cases hasLC tab <;> rfl

/-- a reply row that is not copied in full agrees with the cached row on every dynamic int / int64 column -/
theorem decision_not_full {w : World} {flags : Nat} {tab : Table} {old : Row} {r : ReplyRow}
    (h : decision w flags tab old r ≠ some true) : intChanged (dynamicCols w.schema flags tab.name) old r = false := by
  cases hi : intChanged (dynamicCols w.schema flags tab.name) old r with
  | false => rfl
  | true => exact absurd (decision_of_intChanged hi) h

/-- a reply row is skipped only on a backend with `last_update`, when `last_update`, `last_check` (if the table stores
    it) and every dynamic int / int64 column equal the cached values -/
theorem decision_none {w : World} {flags : Nat} {tab : Table} {old : Row} {r : ReplyRow}
    (h : decision w flags tab old r = none) :
    hasLU w flags tab = true ∧ replyInt r "last_update" = old.int "last_update" ∧
      (hasLC tab = true → replyInt r "last_check" = old.int "last_check") ∧
      intChanged (dynamicCols w.schema flags tab.name) old r = false := by
  have hic := decision_not_full (w := w) (flags := flags) (tab := tab) (old := old) (r := r) (by rw [h]; simp)
  unfold decision at h
  rw [hic] at h
  cases hlu : hasLU w flags tab <;> cases hlc : hasLC tab <;> rw [hlu, hlc] at h <;>
    simp at h ⊢
  · exact ⟨h, hic⟩
  · exact ⟨h.1, h.2, hic⟩

/-- the numbers-only update is only taken on a backend without `last_update`, when `last_check` and every dynamic
    int / int64 column equal the cached values -/
theorem decision_some_false {w : World} {flags : Nat} {tab : Table} {old : Row} {r : ReplyRow}
    (h : decision w flags tab old r = some false) :
    hasLU w flags tab = false ∧ hasLC tab = true ∧ replyInt r "last_check" = old.int "last_check" ∧
      intChanged (dynamicCols w.schema flags tab.name) old r = false := by
  have hic := decision_not_full (w := w) (flags := flags) (tab := tab) (old := old) (r := r) (by rw [h]; simp)
  unfold decision at h
  rw [hic] at h
  cases hlu : hasLU w flags tab <;> cases hlc : hasLC tab <;> rw [hlu, hlc] at h <;>
    simp at h ⊢
  · exact ⟨h, hic⟩

/-! ## agreement of a cached row with its backend row -/

/-- the row holds, in every column of `cols` that the backend row delivers, the coerced delivered value — what
    `UpdateValues` would store for the backend's current value -/
def CellsAgree (cols : List Column) (row : Row) (r : ReplyRow) : Prop :=
  ∀ col ∈ cols, ∀ k j, r.find? (·.1 == col.name) = some (k, j) → row.cell? col.name = some (coerce col.dtype j)

/-- the row shows, in every int / int64 column of `cols` that the backend row delivers, the backend's number
    (with the int8 bounds check for int columns) -/
def IntsAgree (cols : List Column) (row : Row) (r : ReplyRow) : Prop :=
  ∀ col ∈ cols, (r.find? (·.1 == col.name)).isSome = true →
    (col.dtype = .int → row.int col.name = checkInt8 (replyInt r col.name)) ∧
    (col.dtype = .int64 → row.int col.name = replyInt r col.name)

theorem replyInt_of_find {r : ReplyRow} {n k : String} {j : Lean.Json} (h : r.find? (·.1 == n) = some (k, j)) :
    replyInt r n = milliTrunc (jsonToMilli j) := by
  unfold replyInt; rw [h]

theorem int_of_cell {row : Row} {n : String} {v : Int} (h : row.cell? n = some (.i v)) : row.int n = v := by
  unfold Row.int; rw [h]

theorem CellsAgree.ints {cols : List Column} {row : Row} {r : ReplyRow} (h : CellsAgree cols row r) :
    IntsAgree cols row r := by
  intro col hc hsome
  cases hf : r.find? (·.1 == col.name) with
  | none => rw [hf] at hsome; cases hsome
  | some kj =>
    have := h col hc kj.1 kj.2 hf
    constructor
    · intro hd
      rw [hd] at this
      rw [int_of_cell this, replyInt_of_find hf]
    · intro hd
      rw [hd] at this
      rw [int_of_cell this, replyInt_of_find hf]

theorem intsAgree_of_intChanged {cols : List Column} {row : Row} {r : ReplyRow} (h : intChanged cols row r = false) :
    IntsAgree cols row r := fun col hc _ =>
  ⟨fun hd => ((intChanged_false h col hc).1 hd).symm, fun hd => ((intChanged_false h col hc).2 hd).symm⟩

theorem isNumeric_of_int {col : Column} (h : col.dtype = .int ∨ col.dtype = .int64) : isNumericCol col = true := by
  unfold isNumericCol; rcases h with h | h <;> rw [h]

/-- Whatever the decision, after a reply row addressed a cached row the row shows the backend's number in every
    dynamic int / int64 column the reply delivers: a skipped or numbers-only row had them already (that is when those
    decisions are taken), a fully copied row got them. -/
theorem rowAfter_intsAgree (w : World) (flags : Nat) (tab : Table) (old : Row) (r : ReplyRow)
    (hnames : ((dynamicCols w.schema flags tab.name).map (·.name)).Nodup) :
    IntsAgree (dynamicCols w.schema flags tab.name) (rowAfter w flags tab old r) r := by
  unfold rowAfter
  cases hd : decision w flags tab old r with
  | none => exact intsAgree_of_intChanged (decision_none hd).2.2.2
  | some full =>
    simp only []
    intro col hc hsome
    cases hf : r.find? (·.1 == col.name) with
    | none => rw [hf] at hsome; cases hsome
    | some kj =>
      have hw : ∀ (_ : col.dtype = .int ∨ col.dtype = .int64),
          (updateRow (dynamicCols w.schema flags tab.name) full old r).cell? col.name = some (coerce col.dtype kj.2) :=
        fun hty => updateRow_cell_written full r col kj.1 kj.2 _ old hnames hc
          (by rw [isNumeric_of_int hty, Bool.or_true]) hf
      constructor
      · intro hty
        have := hw (.inl hty)
        rw [hty] at this
        rw [int_of_cell this, replyInt_of_find hf]
      · intro hty
        have := hw (.inr hty)
        rw [hty] at this
        rw [int_of_cell this, replyInt_of_find hf]

/-- After a reply row addressed a cached row, the row holds the backend's value in every dynamic column the reply
    delivers — provided a skipped row held them already, and a row updated in its numbers only held the non-numeric
    ones already. -/
theorem rowAfter_cellsAgree (w : World) (flags : Nat) (tab : Table) (old : Row) (r : ReplyRow)
    (hnames : ((dynamicCols w.schema flags tab.name).map (·.name)).Nodup)
    (hnone : decision w flags tab old r = none → CellsAgree (dynamicCols w.schema flags tab.name) old r)
    (hfalse : decision w flags tab old r = some false →
      CellsAgree ((dynamicCols w.schema flags tab.name).filter fun c => !isNumericCol c) old r) :
    CellsAgree (dynamicCols w.schema flags tab.name) (rowAfter w flags tab old r) r := by
  unfold rowAfter
  cases hd : decision w flags tab old r with
  | none => exact hnone hd
  | some full =>
    simp only []
    intro col hc k j hf
    by_cases hw : (full || isNumericCol col) = true
    · exact updateRow_cell_written full r col k j _ old hnames hc hw hf
    · have hfull : full = false := by cases full <;> simp at hw ⊢
      have hnum : isNumericCol col = false := by cases h : isNumericCol col <;> simp [h, hfull] at hw ⊢
      subst hfull
      rw [updateRow_cell_untouched false r col.name _ old (fun c' hc' hne => .inl (by
        rw [nodup_name_eq hnames hc' hc hne, hnum]; rfl))]
      exact hfalse hd col (List.mem_filter.2 ⟨hc, by rw [hnum]; rfl⟩) k j hf

/-- a fully copied row holds the backend's value in every dynamic column the reply delivers -/
theorem rowAfter_full_cellsAgree (w : World) (flags : Nat) (tab : Table) (old : Row) (r : ReplyRow)
    (hnames : ((dynamicCols w.schema flags tab.name).map (·.name)).Nodup)
    (hd : decision w flags tab old r = some true) :
    CellsAgree (dynamicCols w.schema flags tab.name) (rowAfter w flags tab old r) r :=
  rowAfter_cellsAgree w flags tab old r hnames (fun h => by rw [hd] at h; cases h) (fun h => by rw [hd] at h; cases h)

/-! ## the cap of the timestamp filter -/

theorem tsBlocks_length_le (ts : List Int) : (tsBlocks ts).length ≤ ts.length := by
  cases ts with
  | nil => simp [tsBlocks]
  | cons x xs =>
    unfold tsBlocks
    have := go_length xs x x
    simp only [List.length_cons]; omega

theorem tsFilterLen_le (ts : List Int) : tsFilterLen ts ≤ ts.length + 1 := by
  unfold tsFilterLen
  have := tsBlocks_length_le ts
  simp only []
  split <;> omega

theorem eraseDupsBy_loop_length {α : Type} (r : α → α → Bool) :
    ∀ (l acc : List α), (List.eraseDupsBy.loop r l acc).length ≤ l.length + acc.length
  | [], acc => by simp [List.eraseDupsBy.loop]
  | a :: l, acc => by
    unfold List.eraseDupsBy.loop
    split
    · have := eraseDupsBy_loop_length r l acc
      simp only [List.length_cons]; omega
    · have := eraseDupsBy_loop_length r l (a :: acc)
      simp only [List.length_cons] at this ⊢; omega

theorem scanMissing_length_le (w : World) (tname : String) (flags0 flags1 : Nat) (threshold : Int)
    (backend : List ReplyRow) (cached : List Row) :
    (scanMissing w tname flags0 flags1 threshold backend cached).length ≤ backend.length := by
  unfold scanMissing
  simp only []
  refine Nat.le_trans (eraseDupsBy_loop_length _ _ []) ?_
  simp only [List.length_nil, Nat.add_zero, List.length_mergeSort, List.length_map]
  refine Nat.le_trans (List.filter_sublist.length_le) ?_
  rw [List.length_zip, sortedReply_length]
  exact Nat.min_le_left _ _

/-- a backend with fewer than 150 objects in the table never reaches the cap of the timestamp filter -/
theorem stepMissing_under_cap (w : World) (now : Int) (p : PeerSt) (b : BackendSt) (c : Cache) (t : String)
    (threshold : Int) (h : (b.rows t).length < 150) : tsFilterLen (stepMissing w now p b c t threshold) ≤ 150 := by
  have h1 := tsFilterLen_le (stepMissing w now p b c t threshold)
  have h2 := scanMissing_length_le w t p.flags (query w now p b).1.flags threshold (b.rows t) (c.get t)
  unfold stepMissing at h1 ⊢
  omega

/-! ## the initial synchronisation establishes the pairing invariant -/

/-- every primary-key column is a locally stored string column of the table and not a lower-case shadow column -/
def KeyColsPlain (tab : Table) : Prop :=
  ∀ k ∈ tab.primaryKey, hasSuffix k "_lc" = false ∧ ∃ c ∈ tab.cols, tab.col? k = some c ∧ c.storage = .loc ∧ c.dtype = .str

instance (tab : Table) : Decidable (KeyColsPlain tab) := by unfold KeyColsPlain; infer_instance

/-- the key the cache computes for a freshly stored row is the key of the backend row -/
theorem key_coerceRow {tab : Table} (hP : KeyColsPlain tab) (r : ReplyRow) :
    (coerceRow tab r).key tab = replyKey tab r := by
  unfold Row.key replyKey
  apply List.map_congr_left
  intro k hk
  obtain ⟨hlc, c, _, hc, hloc, hty⟩ := hP k hk
  have hn := col?_name hc
  unfold Row.str
  rw [hc]
  simp only []
  unfold localVal
  rw [hn, hlc]
  simp only [Bool.false_eq_true, if_false]
  rw [coerceRow_cell?, hc]
  simp only [hloc, beq_self_eq_true, if_true]
  unfold replyStr
  cases r.find? (·.1 == k) with
  | none => rw [hty]; rfl
  | some kj => rw [hty]; rfl

theorem keyLe_of_noKey {tab : Table} (h : tab.primaryKey = []) (a b : Row) : keyLe tab a b = true := by
  unfold keyLe Row.sortKey; rw [h]; rfl

/-- the table the initial synchronisation stores is the first component of the sorted (row, reply row) pairs -/
theorem syncTable_eq_sortedDelta (tab : Table) (rows : List ReplyRow) :
    syncTable tab rows = (sortedDelta tab rows).map (·.1) := by
  unfold syncTable sortedDelta
  simp only []
  split
  · rename_i he
    have he' : tab.primaryKey = [] := List.isEmpty_iff.1 he
    rw [List.mergeSort_of_pairwise]
    · simp [List.map_map, Function.comp_def]
    · exact List.pairwise_of_forall (fun _ _ => keyLe_of_noKey he' _ _)
  · rw [List.map_mergeSort (s := keyLe tab) (fun _ _ _ _ => rfl)]
    simp [List.map_map, Function.comp_def]

theorem sortedDelta_fst {tab : Table} {rows : List ReplyRow} {x : Row × ReplyRow} (h : x ∈ sortedDelta tab rows) :
    x.1 = coerceRow tab x.2 := by
  unfold sortedDelta at h
  rw [List.mem_mergeSort, List.mem_map] at h
  obtain ⟨r, _, rfl⟩ := h
  rfl

/-- The table `CreateObjectByType` stores for the backend's objects is aligned with them, when the key columns are
    plain string columns and the backend's objects have pairwise distinct primary keys. -/
theorem aligned_syncTable (w : World) (t : String) (rows : List ReplyRow) (hP : KeyColsPlain (tableOf w t))
    (hnd : (rows.map (replyKey (tableOf w t))).Nodup) : Aligned w t rows (syncTable (tableOf w t) rows) := by
  rw [syncTable_eq_sortedDelta]
  have hS : sortedReply w t rows = (sortedDelta (tableOf w t) rows).map (·.2) := rfl
  have hkeys : ∀ x ∈ sortedDelta (tableOf w t) rows, x.1.key (tableOf w t) = replyKey (tableOf w t) x.2 :=
    fun x hx => by rw [sortedDelta_fst hx]; exact key_coerceRow hP x.2
  refine ⟨by rw [hS]; simp, fun i r old hi hold => ?_, ?_⟩
  · rw [hS, List.getElem?_map] at hi
    rw [List.getElem?_map] at hold
    cases hx : (sortedDelta (tableOf w t) rows)[i]? with
    | none => rw [hx] at hi; cases hi
    | some x =>
      rw [hx] at hi hold
      simp only [Option.map_some, Option.some.injEq] at hi hold
      rw [← hi, ← hold]
      exact hkeys x (List.mem_of_getElem? hx)
  · rw [List.map_map]
    have e : (sortedDelta (tableOf w t) rows).map ((fun r : Row => r.key (tableOf w t)) ∘ fun x => x.1) =
        (sortedReply w t rows).map (replyKey (tableOf w t)) := by
      rw [hS, List.map_map]
      exact List.map_congr_left fun x hx => hkeys x hx
    rw [e]
    exact ((sortedReply_perm w t rows).map _).nodup_iff.2 hnd

/-- rewriting every cached row without touching its primary key keeps the pairing invariant -/
theorem Aligned.map_rows {w : World} {t : String} {backend : List ReplyRow} {cached : List Row}
    (hA : Aligned w t backend cached) (f : Row → Row) (hf : ∀ row, (f row).key (tableOf w t) = row.key (tableOf w t)) :
    Aligned w t backend (cached.map f) := by
  refine ⟨by rw [hA.len]; simp, fun i r new hi hn => ?_, ?_⟩
  · rw [List.getElem?_map] at hn
    obtain ⟨old, hold, hkey⟩ := hA.cached_at hi
    rw [hold] at hn
    simp only [Option.map_some, Option.some.injEq] at hn
    rw [← hn, hf, hkey]
  · rw [List.map_map]
    have : ((fun r : Row => r.key (tableOf w t)) ∘ f) = fun r : Row => r.key (tableOf w t) := funext fun row => hf row
    rw [this]
    exact hA.nodup

/-- setting a cell that is no key column leaves the primary key of a row as it was -/
theorem setCell_key {tab : Table} (hP : KeyColsPlain tab) (row : Row) (n : String) (v : Val) (hn : n ∉ tab.primaryKey) :
    (row.setCell n v).key tab = row.key tab := by
  unfold Row.key
  apply List.map_congr_left
  intro k hk
  have hne : k ≠ n := fun e => hn (e ▸ hk)
  have htrim : trimSuffix k "_lc" = k := by unfold trimSuffix; rw [(hP k hk).1]; rfl
  exact str_congr tab row _ k (cell_setCell_other row n k v hne) (by rw [htrim]; exact cell_setCell_other row n k v hne)

/-- After a successful `InitAllTables` the published hosts / services table is aligned with the backend's objects:
    the rows were stored in primary-key order, and the rebuild of the comments / downtimes id lists leaves the keys. -/
theorem aligned_initAllTables (w : World) (now : Int) (p : PeerSt) (b : BackendSt) (t : String)
    (ht : t = "hosts" ∨ t = "services") (hP : KeyColsPlain (tableOf w t))
    (hc : "comments" ∉ (tableOf w t).primaryKey) (hd : "downtimes" ∉ (tableOf w t).primaryKey)
    (hnd : ((b.rows t).map (replyKey (tableOf w t))).Nodup) (hok : (initAllTables w now p b).err = .none) :
    ∃ c : Cache, (initAllTables w now p b).p.cache = some c ∧ Aligned w t ((initAllTables w now p b).b.rows t) (c.get t) := by
  obtain ⟨hb, hs, _⟩ := initAllTables_spec w now p b
  refine ⟨_, (hs hok).1, ?_⟩
  rw [rows_of_tables hb]
  have hA := aligned_syncTable w t (b.rows t) hP hnd
  have hkey : ∀ (v1 v2 : Row → Val) (row : Row),
      ((row.setCell "comments" (v1 row)).setCell "downtimes" (v2 row)).key (tableOf w t) = row.key (tableOf w t) :=
    fun v1 v2 row => by rw [setCell_key hP _ _ _ hd, setCell_key hP _ _ _ hc]
  rcases ht with rfl | rfl
  · rw [rebuildLists_hosts, freshCache_get w b "hosts" (by decide)]
    exact hA.map_rows _ (hkey _ _)
  · rw [rebuildLists_services, freshCache_get w b "services" (by decide)]
    exact hA.map_rows _ (hkey _ _)

/-! ## establishing the invariant for concrete tables -/

/-- the invariant in list form: the keys of the sorted backend rows are the keys of the cached rows, in order, and
    they are pairwise distinct -/
theorem aligned_of_keys {w : World} {t : String} {backend : List ReplyRow} {cached : List Row}
    (hkeys : (sortedReply w t backend).map (replyKey (tableOf w t)) = cached.map (·.key (tableOf w t)))
    (hnd : (cached.map (·.key (tableOf w t))).Nodup) : Aligned w t backend cached := by
  refine ⟨by simpa using congrArg List.length hkeys, fun i r old hi hold => ?_, hnd⟩
  have := congrArg (fun l => l[i]?) hkeys
  simp only [List.getElem?_map, hi, hold, Option.map_some, Option.some.injEq] at this
  exact this.symm

/-- backend rows that arrive in primary-key order stay as they are -/
theorem sortedReply_of_sorted {w : World} {t : String} {rows : List ReplyRow}
    (h : (rows.map fun r => (coerceRow (tableOf w t) r, r)).Pairwise (fun a b => keyLe (tableOf w t) a.1 b.1 = true)) :
    sortedReply w t rows = rows := by
  unfold sortedReply
  rw [List.mergeSort_of_pairwise h]
  simp [List.map_map, Function.comp_def]

end Lmd.PeerL
