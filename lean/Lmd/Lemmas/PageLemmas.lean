/-
  Lmd.Lemmas.PageLemmas — paging (`Limit:` / `Offset:`) of one fixed request, mirror of sort
  directions, and the early cut for requests without sort fields.  Helper lemmas for
  `Lmd.Props.C06Pages` and `Lmd.Props.C07Whole`.
-/
import Lmd.Lemmas.Sort

namespace Lmd.Pages
open Lmd.Sort

/-! ## plain lists -/

/-- the first `n` pages of size `k` of a list, concatenated, are its first `n * k` elements -/
theorem flatMap_pages_take {α : Type} (l : List α) (k : Nat) :
    ∀ n, ((List.range n).flatMap fun i => (l.drop (i * k)).take k) = l.take (n * k) := by
  intro n
  induction n with
  | zero => simp
  | succ n ih =>
    rw [List.range_succ, List.flatMap_append, ih, Nat.succ_mul, List.take_add]
    simp

/-- enough pages of size `k` tile the whole list -/
theorem flatMap_pages {α : Type} (l : List α) (k n : Nat) (h : l.length ≤ n * k) :
    ((List.range n).flatMap fun i => (l.drop (i * k)).take k) = l := by
  rw [flatMap_pages_take, List.take_of_length_le h]

theorem length_le_flatten_of_mem {α : Type} {A : List α} {As : List (List α)} (h : A ∈ As) :
    A.length ≤ As.flatten.length := by
  induction As with
  | nil => cases h
  | cons B Bs ih =>
    simp only [List.flatten_cons, List.length_append]
    rcases List.mem_cons.mp h with rfl | h
    · omega
    · have := ih h; omega

theorem map_take_of_fit {α : Type} (As : List (List α)) (L : Nat) (h : ∀ A ∈ As, A.length ≤ L) :
    As.map (List.take L) = As := by
  induction As with
  | nil => rfl
  | cons B Bs ih =>
    rw [List.map_cons, List.take_of_length_le (h B (by simp)),
      ih (fun A hA => h A (List.mem_cons_of_mem _ hA))]

theorem length_flatten_map_take_le {α : Type} (As : List (List α)) (L : Nat) :
    (As.map (List.take L)).flatten.length ≤ As.flatten.length := by
  induction As with
  | nil => simp
  | cons B Bs ih =>
    simp only [List.map_cons, List.flatten_cons, List.length_append, List.length_take]
    omega

/-- cutting every part to `L` elements does not change the first `k ≤ L` elements of the
    concatenation -/
theorem take_flatten_map_take {α : Type} (L : Nat) (As : List (List α)) :
    ∀ k, k ≤ L → ((As.map (List.take L)).flatten).take k = As.flatten.take k := by
  induction As with
  | nil => intro k _; rfl
  | cons B Bs ih =>
    intro k hk
    simp only [List.map_cons, List.flatten_cons, List.take_append, List.take_take,
      List.length_take]
    rw [Nat.min_eq_left hk]
    by_cases hB : B.length ≤ L
    · rw [Nat.min_eq_right hB, ih _ (by omega)]
    · have h1 : k - min L B.length = 0 := by omega
      have h2 : k - B.length = 0 := by omega
      rw [h1, h2]; simp

/-- two lists related position by position by `E`, permutations of each other, where no two
    different positions of the first are related by `E`, are equal -/
theorem eq_of_posRel_of_distinct {α : Type} {E : α → α → Prop} (hsymm : ∀ a b, E a b → E b a)
    {l₁ l₂ : List α} (hperm : l₁.Perm l₂) (hd : l₁.Pairwise (fun a b => ¬ E a b))
    (h : PosRel E l₁ l₂) : l₁ = l₂ := by
  apply List.ext_getElem h.1
  intro i h₁ h₂
  have hm : l₂[i] ∈ l₁ := hperm.mem_iff.mpr (List.getElem_mem _)
  obtain ⟨j, hj, hje⟩ := List.getElem_of_mem hm
  have hE := h.2 i h₁ h₂
  rw [← hje] at hE
  rcases Nat.lt_trichotomy i j with hlt | heq | hgt
  · exact absurd hE (List.pairwise_iff_getElem.mp hd i j h₁ hj hlt)
  · subst heq; exact hje
  · exact absurd (hsymm _ _ hE) (List.pairwise_iff_getElem.mp hd j i hj h₁ hgt)

/-! ## comparison with flipped directions -/

theorem cmpDir_flip (d : Bool) (a b : SortKey) : cmpDir (!d) a b = (cmpDir d a b).swap := by
  cases d <;> simp [cmpDir]

/-- flipping every direction swaps the outcome of the tuple comparison -/
theorem cmpKeys_flip_all (ds : List Bool) (as bs : List SortKey) :
    cmpKeys (ds.map (!·)) as bs = (cmpKeys ds as bs).swap := by
  induction ds generalizing as bs with
  | nil => simp [cmpKeys_nil_dirs]
  | cons d ds ih =>
    cases as with
    | nil => simp [cmpKeys_nil_left]
    | cons a as =>
      cases bs with
      | nil => simp [cmpKeys_nil_right]
      | cons b bs =>
        rw [List.map_cons, cmpKeys_cons, cmpKeys_cons, Ordering.swap_then, ih, cmpDir_flip]

/-- the comparison of concatenated tuples is the lexicographic combination of the parts -/
theorem cmpKeys_append (p q : List Bool) (ap aq bp bq : List SortKey)
    (ha : ap.length = p.length) (hb : bp.length = p.length) :
    cmpKeys (p ++ q) (ap ++ aq) (bp ++ bq) = (cmpKeys p ap bp).then (cmpKeys q aq bq) := by
  induction p generalizing ap bp with
  | nil =>
    have h1 : ap = [] := List.length_eq_zero_iff.mp ha
    have h2 : bp = [] := List.length_eq_zero_iff.mp hb
    subst h1; subst h2
    simp [cmpKeys_nil_dirs]
  | cons d p ih =>
    cases ap with
    | nil => simp at ha
    | cons a ap =>
      cases bp with
      | nil => simp at hb
      | cons b bp =>
        simp only [List.length_cons, Nat.add_right_cancel_iff] at ha hb
        rw [List.cons_append, List.cons_append, List.cons_append, cmpKeys_cons, cmpKeys_cons,
          ih ap bp ha hb, Ordering.then_assoc]

theorem hitLe_flip_all (ds : List Bool) (a b : Hit) :
    Hit.le (ds.map (!·)) a b = Hit.le ds b a := by
  unfold Hit.le
  rw [cmpKeys_flip_all, ← cmpKeys_swap]

/-- sorting with all directions flipped reverses the sorted list when no two hits tie -/
theorem mergeSort_flip_reverse (dirs : List Bool) (sig : List Nat) (hits : List Hit)
    (hsig : ∀ h ∈ hits, HasSig sig h)
    (hd : hits.Pairwise (fun a b => cmpKeys dirs a.keys b.keys ≠ .eq)) :
    hits.mergeSort (Hit.le (dirs.map (!·))) = (hits.mergeSort (Hit.le dirs)).reverse := by
  have hpre := hitLe_totalPreorderOn (dirs.map (!·)) sig
  have hperm : (hits.mergeSort (Hit.le (dirs.map (!·)))).Perm (hits.mergeSort (Hit.le dirs)).reverse :=
    (List.mergeSort_perm _ _).trans ((List.reverse_perm _).trans (List.mergeSort_perm _ _)).symm
  have hsig₁ : ∀ h ∈ hits.mergeSort (Hit.le (dirs.map (!·))), HasSig sig h :=
    fun h hh => hsig h (List.mem_mergeSort.mp hh)
  have ho₁ := ordered_mergeSort_on hpre hits hsig
  have ho₂ : Ordered (Hit.le (dirs.map (!·))) (hits.mergeSort (Hit.le dirs)).reverse := by
    rw [Ordered, List.pairwise_reverse]
    have := ordered_mergeSort_on (hitLe_totalPreorderOn dirs sig) hits hsig
    exact this.imp (fun {a b} hab => by rw [hitLe_flip_all]; exact hab)
  have hpos := ordered_perm_posRel hpre hperm hsig₁ ho₁ ho₂
  have hpos' : PosRel (fun a b => cmpKeys dirs a.keys b.keys = .eq)
      (hits.mergeSort (Hit.le (dirs.map (!·)))) (hits.mergeSort (Hit.le dirs)).reverse := by
    refine ⟨hpos.1, fun i h₁ h₂ => ?_⟩
    have := ((tie_iff_cmpKeys_eq _ _ _ _).mp (hpos.2 i h₁ h₂)).2.2
    rw [cmpKeys_flip_all] at this
    have key : ∀ o : Ordering, o.swap = .eq → o = .eq := by intro o; cases o <;> simp
    exact key _ this
  have hsymm : ∀ a b : Hit, cmpKeys dirs a.keys b.keys = .eq → cmpKeys dirs b.keys a.keys = .eq := by
    intro a b h; rw [cmpKeys_swap dirs a.keys b.keys, h]; rfl
  refine eq_of_posRel_of_distinct hsymm hperm ?_ hpos'
  refine ((List.mergeSort_perm hits _).pairwise_iff ?_).mpr hd
  intro a b hab h
  exact hab (hsymm _ _ h)

/-! ## requests that select the same rows -/

/-- two requests agree in everything that decides which rows are collected and how they are
    keyed: table, filter, authorised user, sort fields, backends -/
structure SameSel (a b : Request) : Prop where
  table : a.table = b.table
  filter : a.filter = b.filter
  authUser : a.authUser = b.authUser
  sort : a.sort = b.sort
  backends : a.backends = b.backends

theorem SameSel.refl (a : Request) : SameSel a a := ⟨rfl, rfl, rfl, rfl, rfl⟩

theorem SameSel.symm {a b : Request} (h : SameSel a b) : SameSel b a :=
  ⟨h.table.symm, h.filter.symm, h.authUser.symm, h.sort.symm, h.backends.symm⟩

theorem backendHits_congr (m : EvalMode) (s : Schema) (ds : Dataset) (t : Table) {a b : Request}
    (h : SameSel a b) : backendHits m s ds t a = backendHits m s ds t b := by
  simp only [backendHits, availBackends, selectBackends, fullHits, h.filter, h.authUser, h.sort,
    h.backends]

theorem dirsOf_congr {a b : Request} (h : SameSel a b) : dirsOf a = dirsOf b := by
  simp only [dirsOf, h.sort]

theorem isDefaultSortOrder_congr {a b : Request} (h : SameSel a b) :
    isDefaultSortOrder a = isDefaultSortOrder b := by
  simp only [isDefaultSortOrder, h.sort, h.table]

/-- the request asks for a page of size `k`, number `i` (from 0) -/
def pageReq (req : Request) (k i : Nat) : Request := { req with limit := some k, offset := i * k }

/-- the request without `Limit:` and `Offset:` -/
def unpaged (req : Request) : Request := { req with limit := none, offset := 0 }

theorem sameSel_pageReq (req : Request) (k i : Nat) : SameSel (pageReq req k i) req :=
  ⟨rfl, rfl, rfl, rfl, rfl⟩

theorem sameSel_page_unpaged (req : Request) (k i : Nat) :
    SameSel (pageReq req k i) (unpaged req) := ⟨rfl, rfl, rfl, rfl, rfl⟩

theorem sameSel_unpaged (req : Request) : SameSel (unpaged req) req := ⟨rfl, rfl, rfl, rfl, rfl⟩

/-- no per-backend cut is ever applied: the evaluation has none, or the sort order is not the
    table's default order -/
def NoCut (m : EvalMode) (req : Request) : Prop :=
  m.earlyCut = false ∨ isDefaultSortOrder req = false

theorem peerCut_none_of_noCut {m : EvalMode} {req : Request} (h : NoCut m req) :
    peerCut m req = none := by
  unfold peerCut
  rcases h with h | h
  · rw [h]; rfl
  · unfold resultLimit
    cases req.limit with
    | none => simp
    | some l => rw [h]; simp

theorem peerCut_unpaged (m : EvalMode) (req : Request) : peerCut m (unpaged req) = none := by
  unfold peerCut resultLimit unpaged
  cases m.earlyCut <;> simp

theorem noCut_congr {m : EvalMode} {a b : Request} (h : SameSel a b) (hn : NoCut m b) :
    NoCut m a := by
  unfold NoCut at *
  rw [isDefaultSortOrder_congr h]
  exact hn

/-- the sorted pool of all matching rows of the available backends (no cut) -/
def fullPool (m : EvalMode) (s : Schema) (ds : Dataset) (t : Table) (req : Request) : List Hit :=
  (backendHits m s ds t req).flatten.mergeSort (Hit.le (dirsOf req))

theorem fullPool_congr (m : EvalMode) (s : Schema) (ds : Dataset) (t : Table) {a b : Request}
    (h : SameSel a b) : fullPool m s ds t a = fullPool m s ds t b := by
  simp only [fullPool, backendHits_congr m s ds t h, dirsOf_congr h]

theorem length_fullPool (m : EvalMode) (s : Schema) (ds : Dataset) (t : Table) (req : Request) :
    (fullPool m s ds t req).length = (backendHits m s ds t req).flatten.length := by
  simp [fullPool]

theorem sum_map_length {α : Type} (As : List (List α)) :
    (As.map List.length).sum = As.flatten.length := by
  rw [List.length_flatten]

/-- what `gatherRows` delivers when the cut (if any) is not smaller than any backend's result -/
theorem collected_total_of_fit (m : EvalMode) (s : Schema) (ds : Dataset) (t : Table)
    (req : Request)
    (h : peerCut m req = none ∨
      ∃ L, peerCut m req = some L ∧ ∀ A ∈ backendHits m s ds t req, A.length ≤ L) :
    collected m s ds t req = (backendHits m s ds t req).flatten ∧
    totalOf m s ds t req = (backendHits m s ds t req).flatten.length := by
  rcases h with h | ⟨L, h, hfit⟩
  · refine ⟨collected_of_cut_none m s ds t req h, ?_⟩
    have : totalOf m s ds t req = totalOf (noCut m) s ds t req := by
      unfold totalOf
      rw [peerResults_of_cut_none m s ds t req h]
    rw [this, totalOf_noCut, sum_map_length]
  · refine ⟨?_, ?_⟩
    · rw [collected_of_cut_some m s ds t req L h, map_take_of_fit _ _ hfit]
    · rw [totalOf_eq_sum, ← sum_map_length, backendHits, List.map_map]
      congr 1
      apply List.map_congr_left
      intro b hb
      have hlen : (fullHits m { schema := s, ds := ds, b := b } t req).length ≤ L :=
        hfit _ (List.mem_map.mpr ⟨b, hb, rfl⟩)
      rw [gatherRows_eq, h]
      simp only [Function.comp]
      split
      · rfl
      · exact Nat.min_eq_left (by omega)

/-- the answer of `dataQuery` in that situation: the window of the full sorted pool -/
theorem dataQuery_of_fit (m : EvalMode) (s : Schema) (ds : Dataset) (t : Table) (req : Request)
    (h : peerCut m req = none ∨
      ∃ L, peerCut m req = some L ∧ ∀ A ∈ backendHits m s ds t req, A.length ≤ L) :
    (dataQuery m s ds t req).hits = window req (fullPool m s ds t req) ∧
    (dataQuery m s ds t req).total = (backendHits m s ds t req).flatten.length := by
  obtain ⟨hc, ht⟩ := collected_total_of_fit m s ds t req h
  refine ⟨?_, by rw [dataQuery_total, ht]⟩
  by_cases ho : req.offset ≤ totalOf m s ds t req
  · rw [dataQuery_hits m s ds t req ho, dataQuery_pool m s ds t req ho, hc]
    rfl
  · rw [(dataQuery_beyond m s ds t req (Nat.lt_of_not_le ho)).1]
    have hl : (fullPool m s ds t req).length < req.offset := by
      rw [length_fullPool, ← ht]; omega
    unfold window
    cases req.limit <;> simp [List.drop_of_length_le (Nat.le_of_lt hl)]

theorem window_pageReq (req : Request) (k i : Nat) (pool : List Hit) :
    window (pageReq req k i) pool = (pool.drop (i * k)).take k := rfl

theorem window_unpaged (req : Request) (pool : List Hit) : window (unpaged req) pool = pool := by
  simp [window, unpaged]

/-- the length of what was collected never exceeds the number of matching rows -/
theorem length_collected_le (m : EvalMode) (s : Schema) (ds : Dataset) (t : Table)
    (req : Request) :
    (collected m s ds t req).length ≤ (backendHits m s ds t req).flatten.length := by
  cases h : peerCut m req with
  | none => rw [collected_of_cut_none m s ds t req h]; exact Nat.le_refl _
  | some L =>
    rw [collected_of_cut_some m s ds t req L h]
    exact length_flatten_map_take_le _ _

/-- an offset not smaller than the number of matching rows leaves nothing -/
theorem hits_nil_of_offset_ge (m : EvalMode) (s : Schema) (ds : Dataset) (t : Table)
    (req : Request) (h : (backendHits m s ds t req).flatten.length ≤ req.offset) :
    (dataQuery m s ds t req).hits = [] := by
  by_cases ho : req.offset ≤ totalOf m s ds t req
  · rw [dataQuery_hits m s ds t req ho, dataQuery_pool m s ds t req ho]
    have hl : ((collected m s ds t req).mergeSort (Hit.le (dirsOf req))).length ≤ req.offset := by
      rw [List.length_mergeSort]
      exact Nat.le_trans (length_collected_le m s ds t req) h
    unfold window
    cases req.limit <;> simp [List.drop_of_length_le hl]
  · exact (dataQuery_beyond m s ds t req (Nat.lt_of_not_le ho)).1

/-! ## flipped sort directions -/

/-- the request with every sort direction reversed -/
def flipped (req : Request) : Request :=
  { req with sort := req.sort.map fun sf => { sf with desc := !sf.desc } }

theorem dirsOf_flipped (req : Request) : dirsOf (flipped req) = (dirsOf req).map (!·) := by
  simp [dirsOf, flipped, List.map_map, Function.comp_def]

theorem backendHits_flipped (m : EvalMode) (s : Schema) (ds : Dataset) (t : Table)
    (req : Request) : backendHits m s ds t (flipped req) = backendHits m s ds t req := by
  have hk : ∀ (cx : Ctx) (r : Row), mkHit cx t (flipped req).sort r = mkHit cx t req.sort r := by
    intro cx r
    simp only [mkHit, flipped, List.map_map]
    congr 1
  simp only [backendHits, fullHits]
  have h1 : availBackends ds t (flipped req) = availBackends ds t req := rfl
  rw [h1]
  apply List.map_congr_left
  intro b _
  show List.map (mkHit _ t (flipped req).sort) (matchingRows m _ t req.filter req.authUser) = _
  apply List.map_congr_left
  intro r _
  exact hk _ r

/-! ## the early cut without sort fields -/

/-- without sort fields the per-backend cut does not change the returned rows at all -/
theorem dataQuery_cut_nosort_eq (m : EvalMode) (s : Schema) (ds : Dataset) (t : Table)
    (req : Request) (hs : req.sort = []) :
    (dataQuery m s ds t req).hits = (dataQuery (noCut m) s ds t req).hits := by
  have hraw : ∀ m', rawPool m' s ds t req = collected m' s ds t req := by
    intro m'; simp [rawPool, hs]
  cases hc : peerCut m req with
  | none =>
    rw [dataQuery_congr m (noCut m) s ds t req (peerResults_of_cut_none m s ds t req hc)]
  | some L =>
    obtain ⟨l, hl, hL⟩ := peerCut_some m req L hc
    have hge := totalOf_cut_ge m s ds t req L hc
    have hle := totalOf_le_noCut m s ds t req
    by_cases h : req.offset ≤ totalOf (noCut m) s ds t req
    · have h' : req.offset ≤ totalOf m s ds t req := by omega
      rw [dataQuery_hits _ s ds t req h, dataQuery_pool_raw _ s ds t req h,
        dataQuery_hits _ s ds t req h', dataQuery_pool_raw _ s ds t req h', hraw, hraw,
        collected_of_cut_some m s ds t req L hc,
        collected_of_cut_none (noCut m) s ds t req (peerCut_noCut m req)]
      have hb : backendHits (noCut m) s ds t req = backendHits m s ds t req := rfl
      rw [hb]
      unfold window
      simp only [hl]
      rw [List.take_drop, List.take_drop]
      have hk : req.offset + l = L := by omega
      rw [hk, take_flatten_map_take L _ L (Nat.le_refl _)]
    · have h' : ¬ req.offset ≤ totalOf m s ds t req := by omega
      rw [(dataQuery_beyond _ s ds t req (Nat.lt_of_not_le h)).1,
        (dataQuery_beyond _ s ds t req (Nat.lt_of_not_le h')).1]

/-! ## further small facts -/

/-- two different pages of a duplicate-free list share no element -/
theorem pages_disjoint_list {α : Type} (l : List α) (hnd : l.Nodup) (k i j : Nat) (hij : i < j)
    (x : α) (hi : x ∈ (l.drop (i * k)).take k) (hj : x ∈ (l.drop (j * k)).take k) : False := by
  have hle : i * k + k ≤ j * k := by
    have := Nat.mul_le_mul_right k (Nat.succ_le_of_lt hij)
    rwa [Nat.succ_mul] at this
  rw [List.take_drop] at hi
  have h1 : x ∈ l.take (i * k + k) := List.mem_of_mem_drop hi
  have h2 : x ∈ l.take (j * k) := by
    have e : l.take (i * k + k) = (l.take (j * k)).take (i * k + k) := by
      rw [List.take_take, Nat.min_eq_left hle]
    rw [e] at h1
    exact List.mem_of_mem_take h1
  have h3 : x ∈ l.drop (j * k) := List.mem_of_mem_take hj
  have hnd' : (l.take (j * k) ++ l.drop (j * k)).Nodup := by rw [List.take_append_drop]; exact hnd
  exact (List.nodup_append.mp hnd').2.2 x h2 x h3 rfl

theorem peerCut_none_of_limit_none (m : EvalMode) (req : Request) (h : req.limit = none) :
    peerCut m req = none := by
  unfold peerCut resultLimit
  rw [h]
  cases m.earlyCut <;> rfl

theorem peerCut_none_of_limit_zero (m : EvalMode) (req : Request) (h : req.limit = some 0)
    (ho : req.offset = 0) : peerCut m req = none := by
  unfold peerCut resultLimit
  rw [h, ho]
  cases m.earlyCut <;> cases isDefaultSortOrder req <;> rfl

theorem window_whole (req : Request) (pool : List Hit) (hl : req.limit = none)
    (ho : req.offset = 0) : window req pool = pool := by
  simp [window, hl, ho]

end Lmd.Pages
