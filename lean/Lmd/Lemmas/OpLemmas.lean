/-
  Lmd.Lemmas.OpLemmas — helper definitions and lemmas for the operator-level and tree-level laws of
  C01 (Lmd/Props/C01Ops.lean): list forms of the evaluator loops, the `Negate:` operation on trees,
  the dual of a comparison operator, and the per-type duality of the leaf comparison functions.
-/
import Lmd.Props.C01
import Lmd.Lemmas.Index
import Lmd.Lemmas.Sort

namespace Lmd.Lemmas

open Lmd

/-! ### the tree constructors the headers `And:`, `Or:`, `Negate:` produce -/

/-- `And: n` - an unmarked conjunction group -/
def fAnd (fs : List Filter) : Filter := .grp true fs false
/-- `Or: n` - an unmarked disjunction group -/
def fOr (fs : List Filter) : Filter := .grp false fs false
/-- `Negate:` applied to a tree (`ParseFilterNegate`, the model's `Filter.setNeg`) -/
def fNot (q : Quirks) (f : Filter) : Filter := f.setNeg q

/-! ### the loops of `MatchFilter` as `List.all` / `List.any` (every quirk setting) -/

/-- the conjunction loop is `List.all` of the member verdicts under the same inherited negation -/
theorem allF_eq_all (q : Quirks) (v : View) (neg : Bool) :
    ∀ fs : List Filter, allF q v neg fs = fs.all (matchF q v neg)
  | [] => by simp [allF]
  | f :: fs => by simp [allF, allF_eq_all q v neg fs]

/-- the disjunction loop is `List.any` of the member verdicts under the same inherited negation -/
theorem anyF_eq_any (q : Quirks) (v : View) (neg : Bool) :
    ∀ fs : List Filter, anyF q v neg fs = fs.any (matchF q v neg)
  | [] => by simp [anyF]
  | f :: fs => by simp [anyF, anyF_eq_any q v neg fs]

/-- one step of `MatchFilter` at a group node, for every quirk setting, mark and inherited negation -/
theorem matchF_grp (q : Quirks) (v : View) (negIn a n : Bool) (fs : List Filter) :
    matchF q v negIn (.grp a fs n) =
      (if (if combineNeg q negIn n then !a else a) then fs.all (matchF q v (combineNeg q negIn n))
       else fs.any (matchF q v (combineNeg q negIn n))) := by
  simp only [matchF, allF_eq_all, anyF_eq_any]

/-- an unmarked group evaluated without inherited negation: plain `all` / `any` of the members -/
theorem matchF_grp_plain (q : Quirks) (v : View) (a : Bool) (fs : List Filter) :
    matchF q v false (.grp a fs false) =
      (if a then fs.all (matchF q v false) else fs.any (matchF q v false)) := by
  have hc : combineNeg q false false = false := by unfold combineNeg; cases q.negOr <;> rfl
  rw [matchF_grp, hc]
  simp

/-- with negation combined by XOR the evaluator without inherited negation is the Boolean meaning -/
theorem matchF_false_eq_sem (q : Quirks) (hq : q.negOr = false) (v : View) :
    matchF q v false = sem q v := by
  funext f
  rw [C01.matchF_eq_sem q hq v f false]
  cases sem q v f <;> rfl

/-- the Boolean meaning of a group node in list form -/
theorem sem_grp (q : Quirks) (v : View) (a n : Bool) (fs : List Filter) :
    sem q v (.grp a fs n) = ((if a then fs.all (sem q v) else fs.any (sem q v)) != n) := by
  simp only [sem, semAll_eq_all, semAny_eq_any]

/-- `Negate:` flips the Boolean meaning (negation defect repaired) -/
theorem sem_setNeg (q : Quirks) (hq : q.negOr = false) (v : View) (f : Filter) :
    sem q v (f.setNeg q) = !sem q v f := by
  cases f with
  | leaf l n =>
    simp only [Filter.setNeg, hq, sem]
    cases n <;> cases matchLeaf q v l <;> rfl
  | grp a fs n =>
    simp only [Filter.setNeg, hq, sem]
    cases n <;> cases (if a = true then semAll q v fs else semAny q v fs) <;> rfl

/-! ### the dual of an operator -/

/-- the operator a client writes to negate a comparison on a scalar column: `=`/`!=`, `=~`/`!=~`,
    `~`/`!~`, `~~`/`!~~`, `like`/`unlike`, `ilike`/`iunlike`, `<`/`>=`, `>`/`<=`.
    `!>=` has no scalar counterpart (it never matches a scalar) and is mapped to itself. -/
def dualOp : Op → Op
  | .eq => .ne | .ne => .eq
  | .eqNc => .neNc | .neNc => .eqNc
  | .re => .nre | .nre => .re
  | .reNc => .nreNc | .nreNc => .reNc
  | .ct => .nct | .nct => .ct
  | .ctNc => .nctNc | .nctNc => .ctNc
  | .lt => .ge | .ge => .lt
  | .le => .gt | .gt => .le
  | .gcn => .gcn

/-- the pairs of operators that are each other's negation on list columns: `>=` (contains) with `!>=`
    and with `<=` (both "contains not"), and the pattern / substring operators with their `!` forms -/
def listDual : Op → Op → Bool
  | .ge, .gcn | .gcn, .ge | .ge, .le | .le, .ge => true
  | .re, .nre | .nre, .re | .reNc, .nreNc | .nreNc, .reNc => true
  | .ct, .nct | .nct, .ct | .ctNc, .nctNc | .nctNc, .ctNc => true
  | _, _ => false

/-- the six ordering / equality operators -/
def isOrderOp : Op → Bool
  | .eq | .ne | .lt | .le | .gt | .ge => true
  | _ => false

/-- the same filter term with another operator (column, value, pattern, flags unchanged) -/
def withOp (l : Leaf) (o : Op) : Leaf := { l with op := o }

/-- `withOp` sets the operator -/
@[simp] theorem withOp_op (l : Leaf) (o : Op) : (withOp l o).op = o := rfl
/-- `withOp` keeps the column -/
@[simp] theorem withOp_col (l : Leaf) (o : Op) : (withOp l o).col = l.col := rfl
/-- `withOp` keeps the value text -/
@[simp] theorem withOp_sval (l : Leaf) (o : Op) : (withOp l o).sval = l.sval := rfl
/-- `withOp` keeps the custom variable name -/
@[simp] theorem withOp_tag (l : Leaf) (o : Op) : (withOp l o).tag = l.tag := rfl
/-- `withOp` keeps the empty-value flag -/
@[simp] theorem withOp_isEmpty (l : Leaf) (o : Op) : (withOp l o).isEmpty = l.isEmpty := rfl
/-- `withOp` keeps the parsed number -/
@[simp] theorem withOp_num (l : Leaf) (o : Op) : (withOp l o).num = l.num := rfl
/-- `withOp` keeps the compiled pattern -/
@[simp] theorem withOp_rx (l : Leaf) (o : Op) : (withOp l o).rx = l.rx := rfl
/-- `withOp` keeps the copy of the optional flags -/
@[simp] theorem withOp_colOptional (l : Leaf) (o : Op) : (withOp l o).colOptional = l.colOptional := rfl
/-- `withOp` keeps the pattern verdict -/
@[simp] theorem withOp_rxMatch (l : Leaf) (o : Op) (v : String) : (withOp l o).rxMatch v = l.rxMatch v := rfl
/-- `withOp` keeps the right-hand side of an IntCol comparison -/
@[simp] theorem withOp_int8Rhs (q : Quirks) (l : Leaf) (o : Op) : (withOp l o).int8Rhs q = l.int8Rhs q := rfl

/-- taking the dual twice gives the operator back -/
theorem dualOp_dualOp (o : Op) : dualOp (dualOp o) = o := by cases o <;> rfl

/-- the dual of an operator other than `!>=` is not `!>=` -/
theorem dualOp_ne_gcn {o : Op} (h : o ≠ .gcn) : dualOp o ≠ .gcn := by
  cases o <;> simp [dualOp] at h ⊢

/-! ### order facts on strings and integers in `decide` form -/

/-- strings: `a ≥ b` is the negation of `a < b` -/
theorem str_ge_eq_not_lt (a b : String) : decide (a ≥ b) = !decide (a < b) := by
  rw [← decide_not]
  exact decide_eq_decide.mpr String.not_lt.symm

/-- strings: `a > b` is the negation of `a ≤ b` -/
theorem str_gt_eq_not_le (a b : String) : decide (a > b) = !decide (a ≤ b) := by
  rw [← decide_not]
  exact decide_eq_decide.mpr String.not_le.symm

/-- integers: `a ≥ b` is the negation of `a < b` -/
theorem int_ge_eq_not_lt (a b : Int) : decide (a ≥ b) = !decide (a < b) := by
  rw [← decide_not]
  exact decide_eq_decide.mpr (by omega)

/-- integers: `a > b` is the negation of `a ≤ b` -/
theorem int_gt_eq_not_le (a b : Int) : decide (a > b) = !decide (a ≤ b) := by
  rw [← decide_not]
  exact decide_eq_decide.mpr (by omega)

/-! ### duality of the comparison functions, per value type -/

/-- strings: every operator except `!>=` and its dual give opposite verdicts -/
theorem matchString_dual (l : Leaf) (v : String) (h : l.op ≠ .gcn) :
    matchString (withOp l (dualOp l.op)) v = !matchString l v := by
  unfold matchString
  cases ho : l.op <;> simp only [withOp_op, dualOp, withOp_sval, withOp_rxMatch, Bool.not_not]
  case ne => simp [bne]
  case lt => exact str_ge_eq_not_lt v l.sval
  case ge => rw [str_ge_eq_not_lt, Bool.not_not]; exact decide_eq_decide.mpr Iff.rfl
  case le => exact str_gt_eq_not_le v l.sval
  case gt => rw [str_gt_eq_not_le, Bool.not_not]; exact decide_eq_decide.mpr Iff.rfl
  case gcn => exact absurd ho h
  all_goals first | rfl | simp [bne]

/-- `!>=` never matches a string -/
theorem matchString_gcn (l : Leaf) (v : String) (h : l.op = .gcn) : matchString l v = false := by
  unfold matchString; rw [h]

/-- numeric comparison: the dual operator gives the opposite verdict whenever the operator is numeric -/
theorem cmpInt_dual (o : Op) (a b : Int) : cmpInt (dualOp o) a b = (cmpInt o a b).map (!·) := by
  cases o <;> simp only [dualOp, cmpInt, Option.map_some, Option.map_none]
  case ne => simp [bne]
  case eq => simp [bne]
  case lt => rw [int_ge_eq_not_lt]
  case ge => rw [int_ge_eq_not_lt]; simp
  case le => rw [int_gt_eq_not_le]
  case gt => rw [int_gt_eq_not_le]; simp

/-- integers (`MatchInt8` / `MatchInt64`): every operator except `!>=` and its dual give opposite verdicts -/
theorem matchIntWith_dual (l : Leaf) (rhs x : Int) (h : l.op ≠ .gcn) :
    matchIntWith (withOp l (dualOp l.op)) rhs x = !matchIntWith l rhs x := by
  unfold matchIntWith
  rw [withOp_op, cmpInt_dual]
  cases hc : cmpInt l.op x rhs with
  | some b => simp
  | none => simpa using matchString_dual l (intToDec x) h

/-- floats (`MatchFloat`): every operator except `!>=` and its dual give opposite verdicts -/
theorem matchFloat_dual (l : Leaf) (m : Int) (h : l.op ≠ .gcn) :
    matchFloat (withOp l (dualOp l.op)) m = !matchFloat l m := by
  unfold matchFloat
  rw [withOp_op, withOp_num, cmpInt_dual]
  cases hc : cmpInt l.op m l.num with
  | some b => simp
  | none => simpa using matchString_dual l (milliToGo m) h

/-- a filter term with an empty value on a numeric column: only the ordering operators are dual -/
theorem matchEmptyFilter_dual (o : Op) (h : isOrderOp o = true) :
    matchEmptyFilter (dualOp o) = !matchEmptyFilter o := by
  cases o <;> simp [isOrderOp] at h <;> rfl

/-- … the other operators (and their duals) all answer "no match" on an empty value -/
theorem matchEmptyFilter_other (o : Op) (h : isOrderOp o = false) :
    matchEmptyFilter o = false ∧ matchEmptyFilter (dualOp o) = false := by
  cases o <;> simp [isOrderOp] at h <;> exact ⟨rfl, rfl⟩

/-- string lists: the operators paired by `listDual` give opposite verdicts -/
theorem matchStringList_listDual (l : Leaf) (a b : Op) (xs : List String) (h : listDual a b = true) :
    matchStringList (withOp l a) xs = !matchStringList (withOp l b) xs := by
  have hall : ∀ p : String → Bool, (xs.all fun x => !p x) = !xs.any p := by
    intro p; rw [List.not_any_eq_all_not]
  have hany : ∀ p : String → Bool, xs.any p = !(xs.all fun x => !p x) := by
    intro p; rw [hall]; simp
  cases a <;> cases b <;> simp [listDual] at h <;>
    simp only [matchStringList, matchString, withOp_op, withOp_sval, withOp_rxMatch, Bool.not_not] <;>
    first | rfl | exact hany _ | exact hall _

/-- string lists, `=` / `!=`: both only ever match for the empty filter value, where they are opposite -/
theorem matchStringList_eq_ne (l : Leaf) (xs : List String) :
    matchStringList (withOp l .ne) xs = (l.sval == "" && !matchStringList (withOp l .eq) xs) := by
  simp only [matchStringList, withOp_op, withOp_sval]
  cases l.sval == "" <;> simp

/-- string lists: `=~`, `!=~`, `<`, `>` never match -/
theorem matchStringList_never (l : Leaf) (xs : List String)
    (h : l.op = .eqNc ∨ l.op = .neNc ∨ l.op = .lt ∨ l.op = .gt) : matchStringList l xs = false := by
  unfold matchStringList
  rcases h with h | h | h | h <;> rw [h]

/-- number lists: `>=` (contains) and `!>=` are opposite -/
theorem matchIntList_ge_gcn (q : Quirks) (l : Leaf) (xs : List Int) :
    matchIntList q (withOp l .gcn) xs = !matchIntList q (withOp l .ge) xs := by
  simp [matchIntList]

/-- number lists, `=` / `!=`: both only ever match for the empty filter value, where they are opposite -/
theorem matchIntList_eq_ne (q : Quirks) (l : Leaf) (xs : List Int) :
    matchIntList q (withOp l .ne) xs = (l.isEmpty && !matchIntList q (withOp l .eq) xs) := by
  simp only [matchIntList, withOp_op, withOp_isEmpty]
  cases l.isEmpty <;> simp

/-- number lists: every operator other than `=`, `!=`, `>=`, `!>=` never matches -/
theorem matchIntList_never (q : Quirks) (l : Leaf) (xs : List Int)
    (h : l.op ≠ .eq ∧ l.op ≠ .ne ∧ l.op ≠ .ge ∧ l.op ≠ .gcn) : matchIntList q l xs = false := by
  unfold matchIntList
  cases ho : l.op <;> simp_all

/-! ### duality of a whole filter term -/

/-- the value is a number (what the getters of numeric columns return) -/
def isNumVal : Val → Bool
  | .i _ | .f _ => true
  | _ => false

/-- the column types compared as one string: text, JSON text and custom variables -/
def isTextType : DataType → Bool
  | .str | .strLarge | .json | .customVar => true
  | _ => false

/-- the numeric scalar column types -/
def isNumType : DataType → Bool
  | .int | .int64 | .float => true
  | _ => false

/-- `Filter.Match` on a text-like column: dual operator, opposite verdict -/
theorem matchLeafCore_dual_text (q : Quirks) (get : Column → Val) (l : Leaf)
    (ht : isTextType l.col.dtype = true) (h : l.op ≠ .gcn) :
    matchLeafCore q get (withOp l (dualOp l.op)) = !matchLeafCore q get l := by
  unfold matchLeafCore
  simp only [withOp_col, withOp_tag]
  cases hd : l.col.dtype <;> simp [hd, isTextType] at ht <;> simp only []
  case customVar => split <;> exact matchString_dual l _ h
  all_goals exact matchString_dual l _ h

/-- `Filter.Match` on a numeric column, non-empty filter value, the getter returns a number -/
theorem matchLeafCore_dual_num (q : Quirks) (get : Column → Val) (l : Leaf)
    (ht : isNumType l.col.dtype = true) (he : l.isEmpty = false) (hv : isNumVal (get l.col) = true)
    (h : l.op ≠ .gcn) :
    matchLeafCore q get (withOp l (dualOp l.op)) = !matchLeafCore q get l := by
  unfold matchLeafCore
  simp only [withOp_col, withOp_isEmpty, withOp_int8Rhs, withOp_num, he]
  cases hd : l.col.dtype <;> simp [hd, isNumType] at ht <;> simp only [] <;>
    (cases hg : get l.col <;> simp [hg, isNumVal] at hv <;> simp only [Bool.false_eq_true, if_false]) <;>
    first | exact matchIntWith_dual l _ _ h | exact matchFloat_dual l _ h

/-- `Filter.Match` on a numeric column with an empty filter value -/
theorem matchLeafCore_empty_num (q : Quirks) (get : Column → Val) (l : Leaf)
    (ht : isNumType l.col.dtype = true) (he : l.isEmpty = true) :
    matchLeafCore q get l = matchEmptyFilter l.op := by
  unfold matchLeafCore
  cases hd : l.col.dtype <;> simp [hd, isNumType] at ht <;> simp [he]

/-- `Filter.Match` on a string-list column: the `listDual` pairs give opposite verdicts -/
theorem matchLeafCore_listDual (q : Quirks) (get : Column → Val) (l : Leaf) (a b : Op)
    (ht : l.col.dtype = .strList) (h : listDual a b = true) :
    matchLeafCore q get (withOp l a) = !matchLeafCore q get (withOp l b) := by
  unfold matchLeafCore
  simp only [withOp_col, ht]
  split <;> exact matchStringList_listDual l a b _ h

/-- `Filter.Match` on a number-list column: `>=` and `!>=` give opposite verdicts -/
theorem matchLeafCore_intList (q : Quirks) (get : Column → Val) (l : Leaf)
    (ht : l.col.dtype = .int64List) :
    matchLeafCore q get (withOp l .gcn) = !matchLeafCore q get (withOp l .ge) := by
  unfold matchLeafCore
  simp only [withOp_col, ht]
  split <;> exact matchIntList_ge_gcn q l _

/-- the value an absent optional numeric column is compared as is a number -/
theorem optAbsentVal_isNum (d : DataType) (h : isNumType d = true) : isNumVal (optAbsentVal d) = true := by
  cases d <;> simp [isNumType] at h <;> rfl

/-- the placeholder of an absent optional numeric column is a number -/
theorem emptyVal_isNum (d : DataType) (h : isNumType d = true) : isNumVal d.emptyVal = true := by
  cases d <;> simp [isNumType] at h <;> rfl

/-- `!>=` never matches on a scalar column (text-like or numeric) -/
theorem matchLeafCore_gcn_scalar (q : Quirks) (get : Column → Val) (l : Leaf)
    (ht : (isTextType l.col.dtype || isNumType l.col.dtype) = true) (h : l.op = .gcn) :
    matchLeafCore q get l = false := by
  have hs : ∀ x, matchString l x = false := fun x => matchString_gcn l x h
  have hi : ∀ rhs x, matchIntWith l rhs x = false := by
    intro rhs x; unfold matchIntWith; rw [h]; exact hs _
  have hf : ∀ x, matchFloat l x = false := by
    intro x; unfold matchFloat; rw [h]; exact hs _
  have he : matchEmptyFilter l.op = false := by rw [h]; rfl
  unfold matchLeafCore
  cases hd : l.col.dtype <;> simp [hd, isTextType, isNumType] at ht <;> simp only [hs, hi, hf, he]
  all_goals first | rfl | (repeat' split) <;> rfl

/-- the list types of interface lists and service member lists are not filtered: no term ever matches -/
theorem matchLeafCore_unmodelled (q : Quirks) (get : Column → Val) (l : Leaf)
    (ht : l.col.dtype = .ifaceList ∨ l.col.dtype = .svcMemberList) : matchLeafCore q get l = false := by
  unfold matchLeafCore
  rcases ht with ht | ht <;> rw [ht]

/-- is the term evaluated on the `empty` column because the row's backend lacks the optional column? -/
def usesFallback (v : View) (l : Leaf) : Bool := l.colOptional != 0 && !hasFlag v.flags l.colOptional

/-- the getter `MatchFilter` hands to `Filter.Match` for this term -/
def leafGet (q : Quirks) (v : View) (l : Leaf) : Column → Val :=
  if usesFallback v l then
    (if q.optNumZero then (fun _ => optAbsentVal l.col.dtype) else (fun _ => l.col.dtype.emptyVal))
  else v.get

/-- the term `MatchFilter` hands to `Filter.Match` (the duplicate of the fallback loses the parsed number
    under the switch `optNumZero`) -/
def leafEff (q : Quirks) (v : View) (l : Leaf) : Leaf :=
  if usesFallback v l && q.optNumZero then { l with num := 0 } else l

/-- `matchLeaf` is `Filter.Match` on the effective getter and term -/
theorem matchLeaf_eq (q : Quirks) (v : View) (l : Leaf) :
    matchLeaf q v l = matchLeafCore q (leafGet q v l) (leafEff q v l) := by
  unfold matchLeaf leafGet leafEff usesFallback
  cases (l.colOptional != 0 && !hasFlag v.flags l.colOptional) <;> cases q.optNumZero <;> rfl

/-- the effective getter does not depend on the operator -/
theorem leafGet_withOp (q : Quirks) (v : View) (l : Leaf) (o : Op) : leafGet q v (withOp l o) = leafGet q v l := rfl

/-- the effective term of a term with another operator is the effective term with that operator -/
theorem leafEff_withOp (q : Quirks) (v : View) (l : Leaf) (o : Op) :
    leafEff q v (withOp l o) = withOp (leafEff q v l) o := by
  unfold leafEff
  have hu : usesFallback v (withOp l o) = usesFallback v l := rfl
  rw [hu]
  cases (usesFallback v l && q.optNumZero) <;> rfl

/-- the effective term has the same column -/
@[simp] theorem leafEff_col (q : Quirks) (v : View) (l : Leaf) : (leafEff q v l).col = l.col := by
  unfold leafEff; split <;> rfl
/-- the effective term has the same operator -/
@[simp] theorem leafEff_op (q : Quirks) (v : View) (l : Leaf) : (leafEff q v l).op = l.op := by
  unfold leafEff; split <;> rfl
/-- the effective term has the same empty-value flag -/
@[simp] theorem leafEff_isEmpty (q : Quirks) (v : View) (l : Leaf) : (leafEff q v l).isEmpty = l.isEmpty := by
  unfold leafEff; split <;> rfl

/-- the effective getter returns a number on a numeric column whenever the row's own getter does -/
theorem leafGet_isNum (q : Quirks) (v : View) (l : Leaf) (ht : isNumType l.col.dtype = true)
    (hv : isNumVal (v.get l.col) = true) : isNumVal (leafGet q v l l.col) = true := by
  unfold leafGet
  split
  · split
    · exact optAbsentVal_isNum _ ht
    · exact emptyVal_isNum _ ht
  · exact hv

/-- a filter term on a text-like column, including the optional-column fallback: dual operator, opposite verdict -/
theorem matchLeaf_dual_text (q : Quirks) (v : View) (l : Leaf)
    (ht : isTextType l.col.dtype = true) (h : l.op ≠ .gcn) :
    matchLeaf q v (withOp l (dualOp l.op)) = !matchLeaf q v l := by
  rw [matchLeaf_eq, matchLeaf_eq, leafGet_withOp, leafEff_withOp]
  have := matchLeafCore_dual_text q (leafGet q v l) (leafEff q v l) (by simpa using ht) (by simpa using h)
  simpa using this

/-- a filter term on a numeric column with a non-empty value, the row's getter returning a number -/
theorem matchLeaf_dual_num (q : Quirks) (v : View) (l : Leaf)
    (ht : isNumType l.col.dtype = true) (he : l.isEmpty = false) (hv : isNumVal (v.get l.col) = true)
    (h : l.op ≠ .gcn) :
    matchLeaf q v (withOp l (dualOp l.op)) = !matchLeaf q v l := by
  rw [matchLeaf_eq, matchLeaf_eq, leafGet_withOp, leafEff_withOp]
  have := matchLeafCore_dual_num q (leafGet q v l) (leafEff q v l) (by simpa using ht) (by simpa using he)
    (by simpa using leafGet_isNum q v l ht hv) (by simpa using h)
  simpa using this

/-- a filter term on a numeric column with an empty value is decided by its operator alone -/
theorem matchLeaf_empty_num (q : Quirks) (v : View) (l : Leaf)
    (ht : isNumType l.col.dtype = true) (he : l.isEmpty = true) :
    matchLeaf q v l = matchEmptyFilter l.op := by
  rw [matchLeaf_eq]
  have := matchLeafCore_empty_num q (leafGet q v l) (leafEff q v l) (by simpa using ht) (by simpa using he)
  simpa using this

/-- a filter term on a string-list column: the `listDual` pairs give opposite verdicts -/
theorem matchLeaf_listDual (q : Quirks) (v : View) (l : Leaf) (a b : Op)
    (ht : l.col.dtype = .strList) (h : listDual a b = true) :
    matchLeaf q v (withOp l a) = !matchLeaf q v (withOp l b) := by
  rw [matchLeaf_eq, matchLeaf_eq, leafGet_withOp, leafGet_withOp, leafEff_withOp, leafEff_withOp]
  exact matchLeafCore_listDual q (leafGet q v l) (leafEff q v l) a b (by simpa using ht) h

/-- a filter term on a number-list column: `>=` and `!>=` give opposite verdicts -/
theorem matchLeaf_intList (q : Quirks) (v : View) (l : Leaf) (ht : l.col.dtype = .int64List) :
    matchLeaf q v (withOp l .gcn) = !matchLeaf q v (withOp l .ge) := by
  rw [matchLeaf_eq, matchLeaf_eq, leafGet_withOp, leafGet_withOp, leafEff_withOp, leafEff_withOp]
  exact matchLeafCore_intList q (leafGet q v l) (leafEff q v l) (by simpa using ht)

/-- `!>=` never matches on a scalar column, with or without the optional-column fallback -/
theorem matchLeaf_gcn_scalar (q : Quirks) (v : View) (l : Leaf)
    (ht : (isTextType l.col.dtype || isNumType l.col.dtype) = true) (h : l.op = .gcn) :
    matchLeaf q v l = false := by
  rw [matchLeaf_eq]
  exact matchLeafCore_gcn_scalar q _ _ (by simpa using ht) (by simpa using h)

/-- no term ever matches on an interface-list or service-member-list column -/
theorem matchLeaf_unmodelled (q : Quirks) (v : View) (l : Leaf)
    (ht : l.col.dtype = .ifaceList ∨ l.col.dtype = .svcMemberList) : matchLeaf q v l = false := by
  rw [matchLeaf_eq]
  exact matchLeafCore_unmodelled q _ _ (by simpa using ht)

/-- when the dual operator of a scalar filter term is its negation: text-like columns (any operator but
    `!>=`), numeric columns with a non-empty value whose getter returns a number (any operator but `!>=`),
    numeric columns with an empty value (ordering operators only) -/
def DualApplies (v : View) (l : Leaf) : Prop :=
  (isTextType l.col.dtype = true ∧ l.op ≠ .gcn) ∨
  (isNumType l.col.dtype = true ∧ l.isEmpty = false ∧ isNumVal (v.get l.col) = true ∧ l.op ≠ .gcn) ∨
  (isNumType l.col.dtype = true ∧ l.isEmpty = true ∧ isOrderOp l.op = true)

/-- the zero value of a numeric column type is a number -/
theorem zero_isNum (d : DataType) (h : isNumType d = true) : isNumVal d.zero = true := by
  cases d <;> simp [isNumType] at h <;> rfl

/-- the getter of a locally stored numeric column (not a lower-case shadow column) returns a number
    whenever the cached cell, if present, holds a number -/
theorem getVal_isNum_local (cx : Ctx) (t : Table) (r : Row) (c : Column)
    (hloc : c.storage = .loc) (ht : isNumType c.dtype = true) (hlc : hasSuffix c.name "_lc" = false)
    (hcell : ∀ x, r.cell? c.name = some x → isNumVal x = true) :
    isNumVal (getVal cx t r c) = true := by
  unfold getVal
  split
  · exact emptyVal_isNum _ ht
  · simp only [hloc, localVal, hlc, Bool.false_eq_true, ↓reduceIte]
    cases hc : r.cell? c.name with
    | none => exact zero_isNum _ ht
    | some x => exact hcell x hc

/-! ### the row predicate of the per-backend loop -/

/-- the test the row loop applies to a candidate row: the request's filter and authorisation -/
def selects (m : EvalMode) (cx : Ctx) (t : Table) (req : Request) (r : Row) : Bool :=
  rowMatches m (mkView cx t r) req.filter && checkAuth cx t req.authUser r

/-- the candidate rows of the loop: the whole table or the index pre-selection -/
def candidates (m : EvalMode) (cx : Ctx) (t : Table) (req : Request) : List Row :=
  if m.useIndex then preFiltered cx t (tableRows cx t) req.filter else tableRows cx t

/-- the per-backend cut of the loop, if any -/
def cutOf (m : EvalMode) (req : Request) : Option Nat :=
  if m.earlyCut then
    match resultLimit req with
    | some l => if l == 0 then none else some l
    | none => none
  else none

/-- the early cut is off -/
theorem cutOf_none (m : EvalMode) (req : Request) (hc : m.earlyCut = false) : cutOf m req = none := by
  simp [cutOf, hc]

/-- the rows of the per-backend result: the candidates that pass the test, cut after the limit if the
    early cut applies -/
theorem gatherRows_rows (m : EvalMode) (cx : Ctx) (t : Table) (req : Request) :
    (gatherRows m cx t req).hits.map (·.r) =
      match cutOf m req with
      | none => (candidates m cx t req).filter (selects m cx t req)
      | some l => ((candidates m cx t req).filter (selects m cx t req)).take l := by
  have hid : ∀ rows : List Row, (rows.map fun r =>
      ({ b := cx.b, r := r, keys := req.sort.map (sortKeyOf (mkView cx t r)) } : Hit)).map (·.r) = rows := by
    intro rows; simp [List.map_map, Function.comp_def]
  have h : gatherRows m cx t req =
      (match cutOf m req with
       | none =>
         { hits := ((candidates m cx t req).filter (selects m cx t req)).map fun r =>
             ({ b := cx.b, r := r, keys := req.sort.map (sortKeyOf (mkView cx t r)) } : Hit),
           total := (((candidates m cx t req).filter (selects m cx t req)).map fun r =>
             ({ b := cx.b, r := r, keys := req.sort.map (sortKeyOf (mkView cx t r)) } : Hit)).length }
       | some l =>
         { hits := (((candidates m cx t req).filter (selects m cx t req)).map fun r =>
             ({ b := cx.b, r := r, keys := req.sort.map (sortKeyOf (mkView cx t r)) } : Hit)).take l,
           total := if req.outFmt == .wrapped then
               (((candidates m cx t req).filter (selects m cx t req)).map fun r =>
                 ({ b := cx.b, r := r, keys := req.sort.map (sortKeyOf (mkView cx t r)) } : Hit)).length
             else min (((candidates m cx t req).filter (selects m cx t req)).map fun r =>
                 ({ b := cx.b, r := r, keys := req.sort.map (sortKeyOf (mkView cx t r)) } : Hit)).length (l + 1) }) := rfl
  rw [h]
  cases cutOf m req with
  | none => exact hid _
  | some l => simp only [← List.map_take]; exact hid _

/-- with the negation defect repaired the row test is the Boolean meaning of the filter plus authorisation -/
theorem selects_eq_sem (m : EvalMode) (hq : m.q.negOr = false) (cx : Ctx) (t : Table) (req : Request) (r : Row) :
    selects m cx t req r = (semList m.q (mkView cx t r) req.filter && checkAuth cx t req.authUser r) := by
  unfold selects rowMatches
  split
  · rw [C01.matchAll_eq_semList m.q hq]
  · rfl

/-- a list that is strictly ascending for an irreflexive, asymmetric relation and whose members all occur
    in another such list is a sublist of it -/
theorem sublist_of_pairwise_of_subset {α : Type} {R : α → α → Prop} (hirr : ∀ a, ¬R a a)
    (hasym : ∀ a b, R a b → ¬R b a) (l₁ l₂ : List α) (h₁ : l₁.Pairwise R) (h₂ : l₂.Pairwise R)
    (hsub : ∀ a ∈ l₁, a ∈ l₂) : l₁.Sublist l₂ := by
  classical
  have : l₁ = l₂.filter (fun a => decide (a ∈ l₁)) := by
    apply eq_of_pairwise_of_mem_iff hirr hasym _ _ h₁ (List.Pairwise.filter _ h₂)
    intro a
    simp only [List.mem_filter, decide_eq_true_eq]
    exact ⟨fun ha => ⟨hsub a ha, ha⟩, fun ha => ha.2⟩
  rw [this]
  exact List.filter_sublist

/-! ### the whole query: from the returned rows back to the per-backend loops -/

open Lmd.Sort in

/-- a collected hit comes from the loop of one selected, available backend -/
theorem mem_collected_iff (m : EvalMode) (s : Schema) (ds : Dataset) (t : Table) (req : Request) (h : Hit) :
    h ∈ collected m s ds t req ↔
      ∃ b ∈ availBackends ds t req, h ∈ (gatherRows m { schema := s, ds := ds, b := b } t req).hits := by
  simp only [collected, peerResults, List.mem_flatMap, List.mem_map]
  constructor
  · rintro ⟨_, ⟨b, hb, rfl⟩, hin⟩
    exact ⟨b, hb, hin⟩
  · rintro ⟨b, hb, hin⟩
    exact ⟨_, ⟨b, hb, rfl⟩, hin⟩

open Lmd.Sort in
/-- every returned row was collected from some backend -/
theorem dataQuery_hits_subset_collected (m : EvalMode) (s : Schema) (ds : Dataset) (t : Table) (req : Request)
    (h : Hit) (hh : h ∈ (dataQuery m s ds t req).hits) : h ∈ collected m s ds t req := by
  by_cases ho : req.offset ≤ totalOf m s ds t req
  · rw [dataQuery_hits m s ds t req ho] at hh
    have hp := (window_sublist_pool req _).subset hh
    rw [dataQuery_pool m s ds t req ho] at hp
    exact List.mem_mergeSort.mp hp
  · rw [(dataQuery_beyond m s ds t req (Nat.lt_of_not_le ho)).1] at hh
    cases hh

open Lmd.Sort in
/-- without `Limit:` and `Offset:` the returned rows are the collected ones (sorted) -/
theorem mem_dataQuery_hits_iff (m : EvalMode) (s : Schema) (ds : Dataset) (t : Table) (req : Request)
    (hl : req.limit = none) (ho : req.offset = 0) (h : Hit) :
    h ∈ (dataQuery m s ds t req).hits ↔ h ∈ collected m s ds t req := by
  have ho' : req.offset ≤ totalOf m s ds t req := by rw [ho]; exact Nat.zero_le _
  rw [dataQuery_hits m s ds t req ho', dataQuery_pool m s ds t req ho', window, hl, ho]
  simp [List.mem_mergeSort]

/-! ### the parser treats an operator and its dual alike -/


/-- the lower-casing of the value for `ilike` / `iunlike` in `ParseFilter` -/
def lowerStep (op : Op) (l : Leaf) : Leaf :=
  if op == .ctNc || op == .nctNc then { l with sval := goLower l.sval } else l
/-- the `setLowerCaseColumn` step of `ParseFilter` (optimising parser only) -/
def optStep (o : ParseOpts) (t : Table) (l : Leaf) : Leaf :=
  if o.optimize then setLowerCaseColumn t l else l
/-- `ParseFilter` after the header line is split and the operator recognised: column look-up,
    `setFilterValue`, lower-casing, `setLowerCaseColumn`, `setRegexFilter` -/
def buildLeaf (o : ParseOpts) (t : Table) (colName raw : String) (op : Op) (isRegex : Bool) : PM Leaf := do
  let col := t.colWithFallback colName
  let l ← setFilterValue { col := col, op := op, colOptional := col.optional } raw
  let l := optStep o t (lowerStep op l)
  if isRegex then setRegexFilter o.optimize l o.specDots else pure l

/-- `parseFilterLeaf` is: split the line, recognise the operator, then `buildLeaf` -/
theorem parseFilterLeaf_eq (o : ParseOpts) (t : Table) (value : String) :
    parseFilterLeaf o t value =
      match splitN ' ' 3 value with
      | colName :: opText :: rest =>
        match parseOp opText with
        | none => throw (.bad "unrecognized filter operator")
        | some (op, isRegex) => buildLeaf o t colName (match rest with | [] => "" | v :: _ => v) op isRegex
      | _ => throw (.bad "filter header must be Filter: <field> <operator> <value>") := by
  unfold parseFilterLeaf buildLeaf
  rfl

/-- `setFilterValue` keeps the operator -/
theorem setFilterValue_op (l l' : Leaf) (raw : String) (h : setFilterValue l raw = .ok l') : l'.op = l.op := by
  unfold setFilterValue at h
  simp only [pure, Except.pure] at h
  cases hn : isNumericType l.col.dtype
  · simp only [hn, Bool.false_eq_true, ↓reduceIte] at h
    by_cases hcv : (l.col.dtype == DataType.customVar) = true
    · simp only [hcv, ↓reduceIte] at h
      revert h
      cases splitN ' ' 2 (trimSpace raw) with
      | nil => intro h; cases h
      | cons tag rest =>
        cases rest with
        | nil => simp only []; cases (tag == "") <;> intro h <;> cases h <;> rfl
        | cons v tl => simp only []; cases (tag == "") <;> intro h <;> cases h <;> rfl
    · simp only [hcv] at h; cases h; rfl
  · simp only [hn, ↓reduceIte] at h
    split at h
    · revert h
      cases parseMilli? (trimSpace raw) with
      | none => simp only []; cases mayBeGoFloat (trimSpace raw) <;> intro h <;> cases h
      | some x => intro h; cases h; rfl
    · cases h; rfl

/-- `setLowerCaseColumn` maps dual operators to dual operators and treats column and value alike -/
theorem setLowerCaseColumn_dual (t : Table) (l : Leaf) :
    setLowerCaseColumn t (withOp l (dualOp l.op)) =
      withOp (setLowerCaseColumn t l) (dualOp (setLowerCaseColumn t l).op) := by
  obtain ⟨col, op, sval, tag, ie, num, rx, co⟩ := l
  unfold setLowerCaseColumn withOp
  simp only []
  by_cases ht : (t.name != "hosts" && t.name != "services") = true
  · simp only [ht, ↓reduceIte]
  · simp only [ht]
    cases op <;> simp only [dualOp] <;> (try rfl)
    all_goals (cases t.col? (col.name ++ "_lc") <;> cases (sval.toList.contains '\\') <;> rfl)

/-- `setFilterValue` looks at the operator only through `isNumericOp` -/
theorem setFilterValue_withOp (l : Leaf) (o' : Op) (raw : String) (h : isNumericOp o' = isNumericOp l.op) :
    setFilterValue (withOp l o') raw = (setFilterValue l raw).map (fun l' => withOp l' o') := by
  unfold setFilterValue
  simp only [withOp_col, withOp_op, h, pure, Except.pure]
  cases isNumericType l.col.dtype
  · simp only [Bool.false_eq_true, ↓reduceIte]
    by_cases hcv : (l.col.dtype == DataType.customVar) = true
    · simp only [hcv, ↓reduceIte]
      cases splitN ' ' 2 (trimSpace raw) with
      | nil => rfl
      | cons tag rest =>
        cases rest with
        | nil => simp only []; cases (tag == "") <;> rfl
        | cons v tl => simp only []; cases (tag == "") <;> rfl
    · simp only [hcv]; rfl
  · simp only [↓reduceIte]
    split
    · cases parseMilli? (trimSpace raw) with
      | none => simp only []; cases mayBeGoFloat (trimSpace raw) <;> rfl
      | some x => rfl
    · rfl

/-- an operator and its dual are both numeric or both not -/
theorem isNumericOp_dualOp (o : Op) : isNumericOp (dualOp o) = isNumericOp o := by cases o <;> rfl

/-- the lower-casing step treats an operator and its dual alike -/
theorem lowerStep_dual (l : Leaf) :
    lowerStep (dualOp l.op) (withOp l (dualOp l.op)) =
      withOp (lowerStep l.op l) (dualOp (lowerStep l.op l).op) := by
  obtain ⟨col, op, sval, tag, ie, num, rx, co⟩ := l
  cases op <;> rfl

/-- the lower-casing step keeps the operator -/
theorem lowerStep_op (o : Op) (l : Leaf) : (lowerStep o l).op = l.op := by
  unfold lowerStep; split <;> rfl

/-- the lower-case-column step treats an operator and its dual alike -/
theorem optStep_dual (o : ParseOpts) (t : Table) (l : Leaf) :
    optStep o t (withOp l (dualOp l.op)) = withOp (optStep o t l) (dualOp (optStep o t l).op) := by
  unfold optStep
  cases o.optimize
  · rfl
  · exact setLowerCaseColumn_dual t l

/-- for operators that are not pattern operators, building the term with the dual operator gives the
    same term with the dual operator (or the same error) -/
theorem buildLeaf_dual (o : ParseOpts) (t : Table) (c raw : String) (op : Op) :
    buildLeaf o t c raw (dualOp op) false =
      (buildLeaf o t c raw op false).map (fun x => withOp x (dualOp x.op)) := by
  unfold buildLeaf
  simp only [bind, Except.bind, pure, Except.pure, Bool.false_eq_true, ↓reduceIte]
  have h0 : ({ col := t.colWithFallback c, op := dualOp op, colOptional := (t.colWithFallback c).optional } : Leaf) =
      withOp { col := t.colWithFallback c, op := op, colOptional := (t.colWithFallback c).optional } (dualOp op) := rfl
  rw [h0, setFilterValue_withOp _ _ _ (isNumericOp_dualOp op)]
  cases hs : setFilterValue { col := t.colWithFallback c, op := op, colOptional := (t.colWithFallback c).optional } raw with
  | error e => rfl
  | ok l1 =>
    have hop : l1.op = op := setFilterValue_op _ _ _ hs
    subst hop
    simp only [Except.map]
    rw [lowerStep_dual, ← lowerStep_op l1.op l1, optStep_dual]

/-- the unoptimised `setRegexFilter` compiles the same pattern for an operator and its dual -/
theorem setRegexFilter_dual_noopt (l : Leaf) :
    setRegexFilter false (withOp l (dualOp l.op)) false =
      (setRegexFilter false l false).map (fun x => withOp x (dualOp x.op)) := by
  have hnc : (dualOp l.op == .nreNc || dualOp l.op == .reNc) = (l.op == .nreNc || l.op == .reNc) := by
    cases l.op <;> rfl
  unfold setRegexFilter
  simp only [withOp_op, withOp_sval, withOp_col, Bool.false_eq_true, ↓reduceIte, Bool.and_false, Bool.false_and,
    pure, Except.pure, hnc]
  cases compileRegex (if (l.op == Op.nreNc || l.op == Op.reNc) = true then
      "(?i)" ++ trimSuffix (trimPrefix l.sval ".*") ".*" else trimSuffix (trimPrefix l.sval ".*") ".*") <;> rfl

/-- pattern operators, unoptimised parser: building the term with the dual operator gives the same term
    with the dual operator (or the same error) -/
theorem buildLeaf_dual_regex_noopt (o : ParseOpts) (ho : o.optimize = false) (hd : o.specDots = false)
    (t : Table) (c raw : String) (op : Op) :
    buildLeaf o t c raw (dualOp op) true =
      (buildLeaf o t c raw op true).map (fun x => withOp x (dualOp x.op)) := by
  unfold buildLeaf
  simp only [bind, Except.bind, ↓reduceIte, ho, hd]
  have h0 : ({ col := t.colWithFallback c, op := dualOp op, colOptional := (t.colWithFallback c).optional } : Leaf) =
      withOp { col := t.colWithFallback c, op := op, colOptional := (t.colWithFallback c).optional } (dualOp op) := rfl
  rw [h0, setFilterValue_withOp _ _ _ (isNumericOp_dualOp op)]
  cases hs : setFilterValue { col := t.colWithFallback c, op := op, colOptional := (t.colWithFallback c).optional } raw with
  | error e => rfl
  | ok l1 =>
    have hop : l1.op = op := setFilterValue_op _ _ _ hs
    subst hop
    simp only [Except.map]
    rw [lowerStep_dual, ← lowerStep_op l1.op l1, optStep_dual, setRegexFilter_dual_noopt]
    rfl

/-- which operators `parseFilterOp` treats as pattern operators -/
theorem parseOp_isRegex (s : String) (op : Op) (b : Bool) (h : parseOp s = some (op, b)) :
    b = (op == .re || op == .nre || op == .reNc || op == .nreNc) := by
  unfold parseOp at h
  split at h <;> simp at h <;> (obtain ⟨rfl, rfl⟩ := h) <;> rfl


end Lmd.Lemmas
