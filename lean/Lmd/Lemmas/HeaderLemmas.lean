/-
  Lmd.Lemmas.HeaderLemmas — string and line facts for the header part of C17: how a text made of
  lines splits at the line breaks (`splitLines`), which lines `parseHeaderLines` hands on unchanged
  (`GoodLine`), what `strings.Fields` returns on blank-joined words, and what `parseHeaderLine`
  does with each of the plain header lines `Request.print` writes.
-/
import Lmd.Print
import Lmd.Lemmas.Print
import Lmd.Lemmas.SortPrintLemmas
import Batteries.Data.String.Lemmas

namespace Lmd.Headers
open Lmd Lmd.C17 Lmd.SortPrint

/-! ## splitting a text at the line breaks -/

/-- list version of `strings.Split(text, "\n")`: `cur` is the current piece, reversed -/
def splitNL : List Char → List Char → List (List Char)
  | cur, [] => [cur.reverse]
  | cur, c :: r => if c = '\n' then cur.reverse :: splitNL [] r else splitNL (c :: cur) r

/-- the loop of `String.splitOn` for the separator `"\n"`, started at a piece boundary -/
theorem splitOnAux_nl (l m r : List Char) (acc : List String) :
    String.splitOnAux (String.ofList (l ++ m ++ r)) "\n" ⟨String.utf8Len l⟩
        ⟨String.utf8Len l + String.utf8Len m⟩ 0 acc
      = acc.reverse ++ (splitNL m.reverse r).map String.ofList := by
  induction r generalizing l m acc with
  | nil =>
    unfold String.splitOnAux
    have hend : String.Pos.Raw.atEnd (String.ofList (l ++ m ++ []))
        ⟨String.utf8Len l + String.utf8Len m⟩ = true := by
      have := (String.atEnd_of_valid (l ++ m) []).2 rfl
      simpa using this
    rw [if_pos hend]
    have := String.extract_of_valid l m []
    simp only [this, splitNL, List.reverse_reverse, List.map_cons, List.map_nil, List.reverse_cons]
  | cons c r ih =>
    unfold String.splitOnAux
    have hend : ¬ String.Pos.Raw.atEnd (String.ofList (l ++ m ++ c :: r))
        ⟨String.utf8Len l + String.utf8Len m⟩ = true := by
      intro h
      have h' : String.Pos.Raw.atEnd (String.ofList ((l ++ m) ++ c :: r))
          ⟨String.utf8Len (l ++ m)⟩ = true := by
        simpa using h
      exact absurd ((String.atEnd_of_valid (l ++ m) (c :: r)).1 h') (by simp)
    rw [if_neg hend]
    have hget : String.Pos.Raw.get (String.ofList (l ++ m ++ c :: r))
        ⟨String.utf8Len l + String.utf8Len m⟩ = c := by
      have := String.get_of_valid (l ++ m) (c :: r)
      simpa using this
    have hnext : String.Pos.Raw.next (String.ofList (l ++ m ++ c :: r))
        ⟨String.utf8Len l + String.utf8Len m⟩
        = ⟨String.utf8Len l + String.utf8Len m + c.utf8Size⟩ := by
      have := String.next_of_valid (l ++ m) c r
      simpa using this
    have hsep : (0 : String.Pos.Raw).get "\n" = '\n' := by decide
    rw [hget, hsep]
    by_cases hc : c = '\n'
    · subst hc
      have h1 : (('\n' : Char) == '\n') = true := by decide
      have h2 : ((0 : String.Pos.Raw).next "\n").atEnd "\n" = true := by decide
      simp only [h1, if_true, h2, hnext]
      have hu : ({ byteIdx := String.utf8Len l + String.utf8Len m + '\n'.utf8Size } :
            String.Pos.Raw).unoffsetBy (String.Pos.Raw.next "\n" 0)
          = ⟨String.utf8Len l + String.utf8Len m⟩ := by
        have : String.Pos.Raw.next "\n" 0 = ⟨1⟩ := by decide
        rw [this]
        have h' : ('\n' : Char).utf8Size = 1 := by decide
        simp [String.Pos.Raw.unoffsetBy, h']
      rw [hu, String.extract_of_valid l m ('\n' :: r)]
      have e1 : l ++ m ++ '\n' :: r = (l ++ m ++ ['\n']) ++ [] ++ r := by simp
      have e2 : String.utf8Len l + String.utf8Len m + '\n'.utf8Size
          = String.utf8Len (l ++ m ++ ['\n']) := by
        simp [String.utf8Len_append, Nat.add_assoc]
      have e3 : String.utf8Len (l ++ m ++ ['\n'])
          = String.utf8Len (l ++ m ++ ['\n']) + String.utf8Len [] := by simp
      rw [e1, e2]
      conv => lhs; arg 4; rw [e3]
      rw [ih (l ++ m ++ ['\n']) [] (String.ofList m :: acc)]
      simp [splitNL]
    · have h1 : (c == '\n') = false := by simpa using hc
      simp only [h1, Bool.false_eq_true, if_false]
      have hu : ({ byteIdx := String.utf8Len l + String.utf8Len m } : String.Pos.Raw).unoffsetBy 0
          = ⟨String.utf8Len l + String.utf8Len m⟩ := by
        simp [String.Pos.Raw.unoffsetBy]
      rw [hu, hnext]
      have e1 : l ++ m ++ c :: r = l ++ (m ++ [c]) ++ r := by simp
      have e2 : String.utf8Len l + String.utf8Len m + c.utf8Size
          = String.utf8Len l + String.utf8Len (m ++ [c]) := by
        simp [String.utf8Len_append, Nat.add_assoc]
      rw [e1, e2, ih l (m ++ [c]) acc]
      simp [splitNL, hc]

/-- `splitLines` is the list function `splitNL` on the characters of the text -/
theorem splitLines_eq (text : String) :
    splitLines text = (splitNL [] text.toList).map String.ofList := by
  have h := splitOnAux_nl [] [] text.toList []
  have hsep : (("\n" : String) == "") = false := by decide
  simp only [List.nil_append, String.ofList_toList, String.utf8Len_nil, Nat.add_zero,
    List.reverse_nil] at h
  unfold splitLines String.splitOn
  rw [hsep]
  exact h

theorem splitNL_noNL (cur x : List Char) (h : '\n' ∉ x) : splitNL cur x = [cur.reverse ++ x] := by
  induction x generalizing cur with
  | nil => simp [splitNL]
  | cons c cs ih =>
    have hc : c ≠ '\n' := fun e => h (by simp [e])
    have hcs : '\n' ∉ cs := fun m => h (List.mem_cons_of_mem _ m)
    simp [splitNL, hc, ih _ hcs]

theorem splitNL_line (cur x rest : List Char) (h : '\n' ∉ x) :
    splitNL cur (x ++ '\n' :: rest) = (cur.reverse ++ x) :: splitNL [] rest := by
  induction x generalizing cur with
  | nil => simp [splitNL]
  | cons c cs ih =>
    have hc : c ≠ '\n' := fun e => h (by simp [e])
    have hcs : '\n' ∉ cs := fun m => h (List.mem_cons_of_mem _ m)
    simp [splitNL, hc, ih _ hcs]

/-- a text written line by line: every line followed by a line break -/
def unlines (ls : List String) : String := String.join (ls.map (· ++ "\n"))

theorem unlines_nil : unlines [] = "" := by simp [unlines]

theorem unlines_cons (l : String) (ls : List String) : unlines (l :: ls) = l ++ "\n" ++ unlines ls := by
  simp [unlines, String.join_cons]

theorem unlines_singleton (l : String) : unlines [l] = l ++ "\n" := by
  simp [unlines, String.join_cons]

theorem unlines_append (a b : List String) : unlines (a ++ b) = unlines a ++ unlines b := by
  simp [unlines, String.join_append]

theorem unlines_ite (c : Prop) [Decidable c] (a b : List String) :
    unlines (if c then a else b) = if c then unlines a else unlines b := by
  split <;> rfl

theorem splitNL_unlines (ls : List String) (h : ∀ l ∈ ls, '\n' ∉ l.toList) (rest : List Char) :
    splitNL [] ((unlines ls).toList ++ rest) = ls.map String.toList ++ splitNL [] rest := by
  induction ls with
  | nil => simp [unlines_nil]
  | cons l ls ih =>
    have hl : '\n' ∉ l.toList := h l List.mem_cons_self
    have e : (unlines (l :: ls)).toList ++ rest
        = l.toList ++ '\n' :: ((unlines ls).toList ++ rest) := by
      simp [unlines_cons, String.toList_append]
    rw [e, splitNL_line [] _ _ hl, ih (fun x hx => h x (List.mem_cons_of_mem _ hx))]
    simp

/-- The lines of a text that was written line by line and closed with an empty line: the lines
    themselves, then two empty pieces (the empty line and the piece behind the last line break). -/
theorem splitLines_unlines (ls : List String) (h : ∀ l ∈ ls, '\n' ∉ l.toList) :
    splitLines (unlines ls ++ "\n") = ls ++ ["", ""] := by
  rw [splitLines_eq]
  have e : (unlines ls ++ "\n").toList = (unlines ls).toList ++ ['\n'] := by
    simp [String.toList_append]
  rw [e, splitNL_unlines ls h]
  simp [splitNL, List.map_append]

/-! ## lines that `parseHeaderLines` hands on unchanged -/

theorem dropWhileL_of_head {p : Char → Bool} {l : List Char}
    (h : ∀ c, l.head? = some c → p c = false) : dropWhileL p l = l := by
  cases l with
  | nil => rfl
  | cons c cs => simp [dropWhileL, h c rfl]

/-- `strings.TrimSpace` leaves a text alone whose first and last characters are not white space -/
theorem trimSpace_eq_self {s : String} (hh : ∀ c, s.toList.head? = some c → isGoSpace c = false)
    (hl : ∀ c, s.toList.getLast? = some c → isGoSpace c = false) : trimSpace s = s := by
  unfold trimSpace
  rw [dropWhileL_of_head hh,
    dropWhileL_of_head (l := s.toList.reverse) (by simpa [List.head?_reverse] using hl),
    List.reverse_reverse, String.ofList_toList]

/-- a proper header line: `strings.TrimSpace` does not change it, it is not empty (an empty line
    ends the header section) and it contains no line break -/
structure GoodLine (l : String) : Prop where
  trim : trimSpace l = l
  ne : l ≠ ""
  nonl : '\n' ∉ l.toList

/-- a header value that survives being written behind `Header: ` and read back: not empty, no line
    break, no blank in front (the parser strips those), no white space at the end (the line is
    trimmed) -/
structure GoodValue (v : String) : Prop where
  ne : v ≠ ""
  nonl : '\n' ∉ v.toList
  head : ∀ c, v.toList.head? = some c → c ≠ ' '
  last : ∀ c, v.toList.getLast? = some c → isGoSpace c = false

theorem toList_ne_nil {v : String} (h : v ≠ "") : v.toList ≠ [] := by
  intro e
  apply h
  apply String.toList_injective
  simpa using e

/-- `Header: value` is a proper line when the header word starts with a non-space character, has no
    line break and the value is a proper value -/
theorem goodLine_hdr {h v : String} {k : Char} {ks : List Char} (hk : h.toList = k :: ks)
    (hks : isGoSpace k = false) (hnl : '\n' ∉ h.toList) (gv : GoodValue v) : GoodLine (h ++ v) := by
  have hv := toList_ne_nil gv.ne
  refine ⟨trimSpace_eq_self ?_ ?_, ?_, ?_⟩
  · intro c hc
    rw [String.toList_append, hk] at hc
    simp at hc
    rw [← hc]; exact hks
  · intro c hc
    rw [String.toList_append, List.getLast?_append] at hc
    cases hl : v.toList.getLast? with
    | none => exact absurd (List.getLast?_eq_none_iff.mp hl) hv
    | some d =>
      rw [hl] at hc
      simp at hc
      rw [← hc]; exact gv.last d hl
  · intro e
    have := congrArg String.toList e
    rw [String.toList_append, hk] at this
    simp at this
  · rw [String.toList_append]
    intro m
    rcases List.mem_append.mp m with m | m
    · exact hnl m
    · exact gv.nonl m

theorem trimLeft_blank {v : String} (h : ∀ c, v.toList.head? = some c → c ≠ ' ') :
    trimLeftSpaces (" " ++ v) = v := by
  unfold trimLeftSpaces
  have e : (" " ++ v).toList = ' ' :: v.toList := by simp [String.toList_append]
  rw [e]
  have h1 : dropWhileL (fun x => x == ' ') (' ' :: v.toList) = dropWhileL (fun x => x == ' ') v.toList := by
    simp [dropWhileL]
  rw [h1, dropWhileL_of_head (fun c hc => by simpa using h c hc), String.ofList_toList]

/-! ### numbers -/

theorem digits_toString (n : Nat) : ∀ c ∈ (toString n).toList, c.isDigit = true := by
  intro c hc
  have e : (toString n).toList = Nat.toDigits 10 n := by simp
  rw [e] at hc
  exact Nat.isDigit_of_mem_toDigits (by omega) (by omega) hc

theorem mem_of_getLast? {α} {l : List α} {a : α} (h : l.getLast? = some a) : a ∈ l := by
  rw [List.getLast?_eq_head?_reverse] at h
  have := List.mem_of_mem_head? (l := l.reverse) (a := a) (by simp [h])
  simpa using this

theorem mem_of_head? {α} {l : List α} {a : α} (h : l.head? = some a) : a ∈ l :=
  List.mem_of_mem_head? (by simp [h])

/-- a printed number is a proper header value -/
theorem goodValue_toString (n : Nat) : GoodValue (toString n) := by
  have hd := digits_toString n
  refine ⟨?_, ?_, ?_, ?_⟩
  · intro e
    have h1 : (toString n).toList = Nat.toDigits 10 n := by simp
    rw [e] at h1
    exact Nat.toDigits_ne_nil h1.symm
  · intro m
    exact absurd (hd _ m) (by decide)
  · intro c hc e
    have := hd c (mem_of_head? hc)
    rw [e] at this
    exact absurd this (by decide)
  · intro c hc
    exact digit_not_space (hd c (mem_of_getLast? hc))

theorem parseNat_toString (n m : Nat) (h : m ≤ n) : parseNat (toString n) m = .ok n := by
  unfold parseNat
  rw [atoi_toString]
  have : ¬ ((n : Int) < (m : Int)) := by omega
  simp [this, pure, Except.pure]

/-! ### words joined by blanks (`Columns:`, `Backends:`) -/

/-- a column or backend name that `strings.Fields` returns as one field: not empty, no white space -/
def wordOk (w : String) : Bool := w != "" && w.toList.all (fun c => !isGoSpace c)

theorem wordOk_ne {w : String} (h : wordOk w = true) : w.toList ≠ [] := by
  simp only [wordOk, Bool.and_eq_true, bne_iff_ne, ne_eq] at h
  exact toList_ne_nil h.1

theorem wordOk_chars {w : String} (h : wordOk w = true) : ∀ c ∈ w.toList, isGoSpace c = false := by
  simp only [wordOk, Bool.and_eq_true, List.all_eq_true, Bool.not_eq_true'] at h
  exact h.2

theorem fieldsL_word (acc w rest : List Char) (hw : ∀ c ∈ w, isGoSpace c = false) :
    fieldsL acc (w ++ rest) = fieldsL (w.reverse ++ acc) rest := by
  induction w generalizing acc with
  | nil => simp
  | cons c cs ih =>
    have hc : isGoSpace c = false := hw c List.mem_cons_self
    rw [List.cons_append, fieldsL]
    simp only [hc, Bool.false_eq_true, if_false]
    rw [ih _ (fun x hx => hw x (List.mem_cons_of_mem _ hx))]
    simp

theorem joinWith_cons_cons (sep a b : String) (r : List String) :
    joinWith sep (a :: b :: r) = a ++ sep ++ joinWith sep (b :: r) := by
  rw [joinWith]
  intro h
  cases h

theorem fieldsL_joinWith (w : String) (ws : List String) (h : ∀ x ∈ w :: ws, wordOk x = true) :
    fieldsL [] (joinWith " " (w :: ws)).toList = (w :: ws).map String.toList := by
  induction ws generalizing w with
  | nil =>
    have hw := h w List.mem_cons_self
    have hne := wordOk_ne hw
    have := fieldsL_word [] w.toList [] (wordOk_chars hw)
    simp only [List.append_nil] at this
    simp only [joinWith, this, fieldsL]
    simp [hne]
  | cons b r ih =>
    have hw := h w List.mem_cons_self
    have hne := wordOk_ne hw
    have e : (joinWith " " (w :: b :: r)).toList = w.toList ++ ' ' :: (joinWith " " (b :: r)).toList := by
      rw [joinWith_cons_cons]
      simp [String.toList_append]
    rw [e, fieldsL_word [] w.toList _ (wordOk_chars hw), fieldsL]
    have hsp : isGoSpace ' ' = true := by decide
    simp only [hsp, if_true, List.append_nil, List.isEmpty_reverse]
    have : w.toList.isEmpty = false := by simpa using hne
    simp only [this, Bool.false_eq_true, if_false, List.reverse_reverse]
    rw [ih b (fun x hx => h x (List.mem_cons_of_mem _ hx))]
    simp

/-- `strings.Fields` takes a blank-joined list of proper words apart again -/
theorem fields_joinWith (ws : List String) (h : ∀ x ∈ ws, wordOk x = true) :
    fields (joinWith " " ws) = ws := by
  cases ws with
  | nil => decide
  | cons w ws =>
    unfold fields
    rw [fieldsL_joinWith w ws h]
    simp

theorem mem_joinWith {c : Char} (ws : List String) (hc : c ∈ (joinWith " " ws).toList) :
    c = ' ' ∨ ∃ w ∈ ws, c ∈ w.toList := by
  induction ws with
  | nil => simp [joinWith] at hc
  | cons w r ih =>
    cases r with
    | nil => right; exact ⟨w, by simp, by simpa [joinWith] using hc⟩
    | cons b r =>
      rw [joinWith_cons_cons] at hc
      simp only [String.toList_append, List.mem_append] at hc
      rcases hc with (hc | hc) | hc
      · right; exact ⟨w, by simp, hc⟩
      · left
        have : (" " : String).toList = [' '] := rfl
        rw [this] at hc
        simpa using hc
      · rcases ih hc with h | ⟨x, hx, hcx⟩
        · left; exact h
        · right; exact ⟨x, List.mem_cons_of_mem _ hx, hcx⟩

theorem joinWith_head (w : String) (ws : List String) (hne : w.toList ≠ []) :
    (joinWith " " (w :: ws)).toList.head? = w.toList.head? := by
  cases ws with
  | nil => simp [joinWith]
  | cons b r =>
    rw [joinWith_cons_cons]
    simp only [String.toList_append, List.append_assoc, List.head?_append]
    cases h : w.toList.head? with
    | none => exact absurd (List.head?_eq_none_iff.mp h) hne
    | some d => simp

theorem joinWith_last (w : String) (ws : List String) (h : ∀ x ∈ w :: ws, x.toList ≠ []) :
    ∃ x ∈ w :: ws, (joinWith " " (w :: ws)).toList.getLast? = x.toList.getLast? := by
  induction ws generalizing w with
  | nil => exact ⟨w, by simp, by simp [joinWith]⟩
  | cons b r ih =>
    obtain ⟨x, hx, e⟩ := ih b (fun y hy => h y (List.mem_cons_of_mem _ hy))
    refine ⟨x, List.mem_cons_of_mem _ hx, ?_⟩
    rw [joinWith_cons_cons, String.toList_append, List.getLast?_append, e]
    have hxne : x.toList ≠ [] := h x (List.mem_cons_of_mem _ hx)
    cases hl : x.toList.getLast? with
    | none => exact absurd (List.getLast?_eq_none_iff.mp hl) hxne
    | some d => simp

/-- a non-empty list of proper words, joined by blanks, is a proper header value -/
theorem goodValue_words (ws : List String) (hne : ws ≠ []) (h : ∀ x ∈ ws, wordOk x = true) :
    GoodValue (joinWith " " ws) := by
  obtain ⟨w, r, rfl⟩ := List.exists_cons_of_ne_nil hne
  have hw := h w List.mem_cons_self
  have hwne := wordOk_ne hw
  have hhead := joinWith_head w r hwne
  refine ⟨?_, ?_, ?_, ?_⟩
  · intro e
    rw [e] at hhead
    cases hh : w.toList.head? with
    | none => exact absurd (List.head?_eq_none_iff.mp hh) hwne
    | some d => rw [hh] at hhead; simp at hhead
  · intro m
    rcases mem_joinWith _ m with e | ⟨x, hx, hcx⟩
    · exact absurd e (by decide)
    · have := wordOk_chars (h x hx) _ hcx
      exact absurd this (by decide)
  · intro c hc e
    rw [hhead] at hc
    have := wordOk_chars hw c (mem_of_head? hc)
    rw [e] at this
    exact absurd this (by decide)
  · intro c hc
    obtain ⟨x, hx, e⟩ := joinWith_last w r (fun y hy => wordOk_ne (h y hy))
    rw [e] at hc
    exact wordOk_chars (h x hx) c (mem_of_getLast? hc)

/-! ### free-text values (`AuthUser:`, `WaitTrigger:`, `WaitObject:`) -/

/-- a free-text header value that is read back as it was written: no line break, no blank in
    front, no white space at the end (the empty text qualifies: it is not printed at all) -/
def valueOk (v : String) : Bool :=
  !v.toList.contains '\n' && v.toList.head? != some ' '
    && !((v.toList.getLast?.map isGoSpace).getD false)

theorem goodValue_of_valueOk {v : String} (h : valueOk v = true) (hne : v ≠ "") : GoodValue v := by
  simp only [valueOk, Bool.and_eq_true, Bool.not_eq_true', bne_iff_ne, ne_eq] at h
  obtain ⟨⟨h1, h2⟩, h3⟩ := h
  refine ⟨hne, ?_, ?_, ?_⟩
  · intro m
    have : v.toList.contains '\n' = true := by simpa using m
    rw [this] at h1
    exact absurd h1 (by decide)
  · intro c hc e
    rw [hc, e] at h2
    exact h2 rfl
  · intro c hc
    rw [hc] at h3
    simpa using h3

/-! ## the header lines one by one -/

theorem cut_hdr (h v : String) (hh : ':' ∉ h.toList) :
    cut ':' (h ++ ": " ++ v) = (h, some (" " ++ v)) := by
  have e : h ++ ": " ++ v = h ++ String.ofList [':'] ++ (" " ++ v) := by
    apply String.toList_injective
    simp [String.toList_append]
  rw [e, cut_append _ hh]

/-- `ResponseHeader: fixed16` sets the flag and nothing else -/
theorem headerLine_fixed16 (o : ParseOpts) (t : Table) (req : Request) :
    parseHeaderLine o t req "ResponseHeader: fixed16" = .ok { req with fixed16 := true } := by
  unfold parseHeaderLine
  have c : cut ':' "ResponseHeader: fixed16" = ("ResponseHeader", some " fixed16") := by decide
  have e : goLower "ResponseHeader" = "responseheader" := by decide
  have a : trimLeftSpaces " fixed16" = "fixed16" := by decide
  simp only [c, e, a]
  rfl

/-- `OutputFormat: <name>` with the name lmd prints for a format other than the default sets
    that format and nothing else -/
theorem headerLine_outfmt (o : ParseOpts) (t : Table) (req : Request) (f : OutFmt) (hf : f ≠ .dflt) :
    parseHeaderLine o t req ("OutputFormat: " ++ f.text) = .ok { req with outFmt := f } := by
  unfold parseHeaderLine
  have e0 : ("OutputFormat: " : String) = "OutputFormat" ++ ": " := by decide
  rw [e0, cut_hdr _ _ (by decide)]
  have e : goLower "OutputFormat" = "outputformat" := by decide
  cases f with
  | dflt => exact absurd rfl hf
  | json =>
    have a : trimLeftSpaces (" " ++ OutFmt.text .json) = "json" := by decide
    simp only [e, a]; rfl
  | wrapped =>
    have a : trimLeftSpaces (" " ++ OutFmt.text .wrapped) = "wrapped_json" := by decide
    simp only [e, a]; rfl
  | python =>
    have a : trimLeftSpaces (" " ++ OutFmt.text .python) = "python" := by decide
    simp only [e, a]; rfl
  | python3 =>
    have a : trimLeftSpaces (" " ++ OutFmt.text .python3) = "python3" := by decide
    simp only [e, a]; rfl

/-- `Columns: a b c` appends the names to the column list and changes nothing else -/
theorem headerLine_columns (o : ParseOpts) (t : Table) (req : Request) (cols : List String)
    (hne : cols ≠ []) (h : ∀ x ∈ cols, wordOk x = true) :
    parseHeaderLine o t req ("Columns: " ++ joinWith " " cols)
      = .ok { req with columns := req.columns ++ cols } := by
  unfold parseHeaderLine
  have e0 : ("Columns: " : String) = "Columns" ++ ": " := by decide
  rw [e0, cut_hdr _ _ (by decide)]
  have e : goLower "Columns" = "columns" := by decide
  simp only [e, trimLeft_blank (goodValue_words cols hne h).head, fields_joinWith cols h]
  rfl

/-- `Backends: a b` sets the backend list and changes nothing else -/
theorem headerLine_backends (o : ParseOpts) (t : Table) (req : Request) (bs : List String)
    (hne : bs ≠ []) (h : ∀ x ∈ bs, wordOk x = true) :
    parseHeaderLine o t req ("Backends: " ++ joinWith " " bs) = .ok { req with backends := bs } := by
  unfold parseHeaderLine
  have e0 : ("Backends: " : String) = "Backends" ++ ": " := by decide
  rw [e0, cut_hdr _ _ (by decide)]
  have e : goLower "Backends" = "backends" := by decide
  simp only [e, trimLeft_blank (goodValue_words bs hne h).head, fields_joinWith bs h]
  rfl

/-- `Limit: n` sets the limit to `n` (also for `n = 0`) and changes nothing else -/
theorem headerLine_limit (o : ParseOpts) (t : Table) (req : Request) (n : Nat) :
    parseHeaderLine o t req ("Limit: " ++ toString n) = .ok { req with limit := some n } := by
  unfold parseHeaderLine
  have e0 : ("Limit: " : String) = "Limit" ++ ": " := by decide
  rw [e0, cut_hdr _ _ (by decide)]
  have e : goLower "Limit" = "limit" := by decide
  simp only [e, trimLeft_digits, parseNat_toString n 0 (Nat.zero_le _)]
  rfl

/-- `Offset: n` sets the offset and changes nothing else -/
theorem headerLine_offset (o : ParseOpts) (t : Table) (req : Request) (n : Nat) :
    parseHeaderLine o t req ("Offset: " ++ toString n) = .ok { req with offset := n } := by
  unfold parseHeaderLine
  have e0 : ("Offset: " : String) = "Offset" ++ ": " := by decide
  rw [e0, cut_hdr _ _ (by decide)]
  have e : goLower "Offset" = "offset" := by decide
  simp only [e, trimLeft_digits, parseNat_toString n 0 (Nat.zero_le _)]
  rfl

/-- `ColumnHeaders: on` sets the flag and nothing else -/
theorem headerLine_colHeaders (o : ParseOpts) (t : Table) (req : Request) :
    parseHeaderLine o t req "ColumnHeaders: on" = .ok { req with colHeaders := true } := by
  unfold parseHeaderLine
  have c : cut ':' "ColumnHeaders: on" = ("ColumnHeaders", some " on") := by decide
  have e : goLower "ColumnHeaders" = "columnheaders" := by decide
  have a : trimLeftSpaces " on" = "on" := by decide
  simp only [c, e, a]
  rfl

/-- `KeepAlive: on` sets the flag and nothing else -/
theorem headerLine_keepAlive (o : ParseOpts) (t : Table) (req : Request) :
    parseHeaderLine o t req "KeepAlive: on" = .ok { req with keepAlive := true } := by
  unfold parseHeaderLine
  have c : cut ':' "KeepAlive: on" = ("KeepAlive", some " on") := by decide
  have e : goLower "KeepAlive" = "keepalive" := by decide
  have a : trimLeftSpaces " on" = "on" := by decide
  simp only [c, e, a]
  rfl

/-- `WaitTrigger: <text>` sets the trigger to the text and changes nothing else -/
theorem headerLine_waitTrigger (o : ParseOpts) (t : Table) (req : Request) (v : String)
    (hv : ∀ c, v.toList.head? = some c → c ≠ ' ') :
    parseHeaderLine o t req ("WaitTrigger: " ++ v) = .ok { req with waitTrigger := v } := by
  unfold parseHeaderLine
  have e0 : ("WaitTrigger: " : String) = "WaitTrigger" ++ ": " := by decide
  rw [e0, cut_hdr _ _ (by decide)]
  have e : goLower "WaitTrigger" = "waittrigger" := by decide
  simp only [e, trimLeft_blank hv]
  rfl

/-- `WaitObject: <text>` sets the object and changes nothing else -/
theorem headerLine_waitObject (o : ParseOpts) (t : Table) (req : Request) (v : String)
    (hv : ∀ c, v.toList.head? = some c → c ≠ ' ') :
    parseHeaderLine o t req ("WaitObject: " ++ v) = .ok { req with waitObject := v } := by
  unfold parseHeaderLine
  have e0 : ("WaitObject: " : String) = "WaitObject" ++ ": " := by decide
  rw [e0, cut_hdr _ _ (by decide)]
  have e : goLower "WaitObject" = "waitobject" := by decide
  simp only [e, trimLeft_blank hv]
  rfl

/-- `WaitTimeout: n` with `n ≥ 1` sets the timeout and changes nothing else -/
theorem headerLine_waitTimeout (o : ParseOpts) (t : Table) (req : Request) (n : Nat) (hn : 1 ≤ n) :
    parseHeaderLine o t req ("WaitTimeout: " ++ toString n) = .ok { req with waitTimeout := n } := by
  unfold parseHeaderLine
  have e0 : ("WaitTimeout: " : String) = "WaitTimeout" ++ ": " := by decide
  rw [e0, cut_hdr _ _ (by decide)]
  have e : goLower "WaitTimeout" = "waittimeout" := by decide
  simp only [e, trimLeft_digits, parseNat_toString n 1 hn]
  rfl

/-- `WaitConditionNegate:` (with the colon) sets the flag and nothing else -/
theorem headerLine_waitNegate (o : ParseOpts) (t : Table) (req : Request) :
    parseHeaderLine o t req "WaitConditionNegate:" = .ok { req with waitConditionNegate := true } := by
  unfold parseHeaderLine
  have c : cut ':' "WaitConditionNegate:" = ("WaitConditionNegate", some "") := by decide
  have e : goLower "WaitConditionNegate" = "waitconditionnegate" := by decide
  simp only [c, e]
  rfl

/-- without the colon the line is a syntax error -/
theorem headerLine_waitNegate_nocolon (o : ParseOpts) (t : Table) (req : Request) :
    parseHeaderLine o t req "WaitConditionNegate" = .error (.bad "syntax error") := by
  unfold parseHeaderLine
  have c : cut ':' "WaitConditionNegate" = ("WaitConditionNegate", none) := by decide
  simp only [c]
  rfl

/-- `AuthUser: <name>` with a non-empty name sets the user and changes nothing else -/
theorem headerLine_authUser (o : ParseOpts) (t : Table) (req : Request) (v : String) (hne : v ≠ "")
    (hv : ∀ c, v.toList.head? = some c → c ≠ ' ') :
    parseHeaderLine o t req ("AuthUser: " ++ v) = .ok { req with authUser := v } := by
  unfold parseHeaderLine
  have e0 : ("AuthUser: " : String) = "AuthUser" ++ ": " := by decide
  rw [e0, cut_hdr _ _ (by decide)]
  have e : goLower "AuthUser" = "authuser" := by decide
  have hb : (v != "") = true := by simpa using hne
  simp only [e, trimLeft_blank hv, hb]
  rfl

/-- `WaitCondition: <column> <op> <value>` whose text parses to the leaf `l` appends the
    unmarked leaf to the wait condition, counts one more filter line and changes nothing else -/
theorem headerLine_waitCondition (o : ParseOpts) (t : Table) (req : Request) (v : String) :
    parseHeaderLine o t req ("WaitCondition: " ++ v)
      = (parseFilterLeaf o t (trimLeftSpaces (" " ++ v))).map (fun l =>
          { req with waitCondition := req.waitCondition ++ [.leaf l false],
                     numFilter := req.numFilter + 1 }) := by
  unfold parseHeaderLine
  have e0 : ("WaitCondition: " : String) = "WaitCondition" ++ ": " := by decide
  rw [e0, cut_hdr _ _ (by decide)]
  have e : goLower "WaitCondition" = "waitcondition" := by decide
  simp only [e]
  cases parseFilterLeaf o t (trimLeftSpaces (" " ++ v)) <;> rfl

end Lmd.Headers
