/-
  Lmd.Lemmas.TotalLemmas — helper lemmas for the property C09: where the markers of a Go panic
  (`Val.crash`, `getFloat = none`, `StatsResult.crash`) can and cannot occur.
-/
import Lmd.Stats
import Lmd.Commands
import Lmd.Lemmas.Select

namespace Lmd.Total
open Lmd
open Lean (Json)

/-! ## the marker -/

/-- the value is the marker "the Go getter would panic here" -/
def isCrash : Val → Bool
  | .crash _ => true
  | _ => false

theorem isCrash_iff (v : Val) : isCrash v = true ↔ ∃ w, v = .crash w := by
  cases v <;> simp [isCrash]

theorem isCrash_false_iff (v : Val) : isCrash v = false ↔ ∀ w, v ≠ .crash w := by
  cases v <;> simp [isCrash]

/-- no cell of the row holds the marker -/
def RowClean (r : Row) : Prop := ∀ c ∈ r.cells, isCrash c.2 = false

/-- no row of any table of the backend holds the marker -/
def BackendClean (b : Backend) : Prop := ∀ p ∈ b.tables, ∀ r ∈ p.2, RowClean r

/-! ## coercion -/

theorem coerce_clean (t : DataType) (j : Json) : isCrash (coerce t j) = false := by
  cases t <;> try rfl
  cases j <;> rfl

theorem zero_clean (t : DataType) : isCrash t.zero = false := by cases t <;> rfl

theorem emptyVal_clean (t : DataType) : isCrash t.emptyVal = false := by cases t <;> rfl

theorem coerceRow_clean (t : Table) (r : ReplyRow) : RowClean (coerceRow t r) := by
  intro c hc
  simp only [coerceRow, List.mem_filterMap] at hc
  obtain ⟨⟨n, j⟩, _, h⟩ := hc
  simp only at h
  split at h
  · split at h
    · simp only [Option.some.injEq] at h
      subst h
      exact coerce_clean _ _
    · simp at h
  · simp at h

theorem syncTable_clean (t : Table) (reply : List ReplyRow) : ∀ r ∈ syncTable t reply, RowClean r := by
  intro r hr
  have hmem : r ∈ reply.map (coerceRow t) := by
    unfold syncTable at hr
    simp only at hr
    split at hr
    · exact hr
    · exact (List.mergeSort_perm _ _).mem_iff.1 hr
  obtain ⟨rr, _, rfl⟩ := List.mem_map.1 hmem
  exact coerceRow_clean t rr

theorem setCell_clean (r : Row) (n : String) (v : Val) (hr : RowClean r) (hv : isCrash v = false) :
    RowClean (r.setCell n v) := by
  intro c hc
  simp only [Row.setCell, List.mem_append, List.mem_filter, List.mem_singleton] at hc
  rcases hc with ⟨h, _⟩ | h
  · exact hr c h
  · subst h; exact hv

theorem buildIdLists_clean (name : String) (entries hosts services : List Row)
    (hh : ∀ r ∈ hosts, RowClean r) (hs : ∀ r ∈ services, RowClean r) :
    (∀ r ∈ (buildIdLists name entries hosts services).1, RowClean r) ∧
    (∀ r ∈ (buildIdLists name entries hosts services).2, RowClean r) := by
  constructor
  · intro r hr
    simp only [buildIdLists, List.mem_map] at hr
    obtain ⟨h, hm, rfl⟩ := hr
    exact setCell_clean _ _ _ (hh h hm) rfl
  · intro r hr
    simp only [buildIdLists, List.mem_map] at hr
    obtain ⟨s, hm, rfl⟩ := hr
    exact setCell_clean _ _ _ (hs s hm) rfl

theorem syncBackend_clean_aux (synced : List (String × List Row))
    (hs : ∀ p ∈ synced, ∀ r ∈ p.2, RowClean r) :
    let get := fun (n : String) => match synced.find? (·.1 == n) with | some (_, rs) => rs | none => []
    let b1 := buildIdLists "comments" (get "comments") (get "hosts") (get "services")
    let b2 := buildIdLists "downtimes" (get "downtimes") b1.1 b1.2
    ∀ p ∈ synced.map (fun (x : String × List Row) =>
        if x.1 == "hosts" then (x.1, b2.1) else if x.1 == "services" then (x.1, b2.2) else (x.1, x.2)),
      ∀ r ∈ p.2, RowClean r := by
  intro get b1 b2 p hp r hr
  have hget : ∀ n, ∀ r ∈ get n, RowClean r := by
    intro n r hr
    simp only [get] at hr
    split at hr
    · rename_i a rs hf
      exact hs _ (List.mem_of_find?_eq_some hf) r hr
    · cases hr
  have h1 := buildIdLists_clean "comments" (get "comments") (get "hosts") (get "services")
    (hget "hosts") (hget "services")
  have h2 := buildIdLists_clean "downtimes" (get "downtimes") b1.1 b1.2 h1.1 h1.2
  obtain ⟨x, hx, rfl⟩ := List.mem_map.1 hp
  split at hr
  · exact h2.1 r hr
  · split at hr
    · exact h2.2 r hr
    · exact hs x hx r hr

/-- every row of the cache `syncBackend` builds from backend replies is free of the marker -/
theorem syncBackend_clean (s : Schema) (tables : List (String × List ReplyRow)) :
    ∀ p ∈ syncBackend s tables, ∀ r ∈ p.2, RowClean r := by
  have hsynced : ∀ p ∈ tables.map (fun (x : String × List ReplyRow) =>
      (x.1, syncTable ((s.table? x.1).getD { name := x.1, cols := [] }) x.2)), ∀ r ∈ p.2, RowClean r := by
    intro p hp r hr
    obtain ⟨x, _, rfl⟩ := List.mem_map.1 hp
    exact syncTable_clean _ _ r hr
  exact syncBackend_clean_aux _ hsynced

/-! ## getters -/

theorem cell?_clean {r : Row} (hr : RowClean r) {n : String} {v : Val} (h : r.cell? n = some v) :
    isCrash v = false := by
  simp only [Row.cell?, Option.map_eq_some_iff] at h
  obtain ⟨c, hc, rfl⟩ := h
  exact hr c (List.mem_of_find?_eq_some hc)

theorem localVal_clean (t : Table) (r : Row) (c : Column) (hr : RowClean r) :
    isCrash (localVal t r c) = false := by
  have hget : ∀ n (d : DataType), isCrash ((r.cell? n).getD d.zero) = false := by
    intro n d
    cases h : r.cell? n with
    | none => exact zero_clean d
    | some v => exact cell?_clean hr h
  unfold localVal
  split
  · split
    · split <;> rfl
    · exact hget _ _
  · exact hget _ _

/-- a stored marker is the only way a local column can yield it -/
theorem localVal_crash (t : Table) (r : Row) (c : Column) (h : isCrash (localVal t r c) = true) :
    ∃ cell ∈ r.cells, isCrash cell.2 = true := by
  apply Classical.byContradiction
  intro hn
  have hr : RowClean r := by
    intro cell hc
    cases hcr : isCrash cell.2 with
    | false => rfl
    | true => exact absurd ⟨cell, hc, hcr⟩ hn
  rw [localVal_clean t r c hr] at h
  cases h

theorem virtVal_clean (cx : Ctx) (t : Table) (r : Row) (c : Column) (v : Val)
    (h : virtVal cx t r c = some v) : isCrash v = false := by
  unfold virtVal at h
  simp only at h
  repeat' split at h
  all_goals first
    | (simp only [Option.some.injEq] at h; subst h; rfl)
    | (simp at h)

theorem findByKey_mem {t : Table} {rows : List Row} {key : List String} {r : Row}
    (h : findByKey t rows key = some r) : r ∈ rows := by
  unfold findByKey at h
  exact List.mem_reverse.1 (List.mem_of_find?_eq_some h)

theorem rows_clean {b : Backend} (hb : BackendClean b) (table : String) : ∀ r ∈ b.rows table, RowClean r := by
  intro r hr
  unfold Backend.rows at hr
  split at hr
  · rename_i n rs hf
    exact hb _ (List.mem_of_find?_eq_some hf) r hr
  · cases hr

theorem refRow_clean {cx : Ctx} (hb : BackendClean cx.b) {t : Table} {r rr : Row} {rt : String}
    (h : refRow cx t r rt = some rr) : RowClean rr := by
  unfold refRow at h
  split at h
  · cases h
  · exact rows_clean hb rt rr (findByKey_mem h)

/-- the column is read at all (an optional column the backend lacks reads as the empty value) -/
def present (cx : Ctx) (c : Column) : Bool := !(c.optional != 0 && !hasFlag cx.b.flags c.optional)

/-- `getVal` with the optional-column test named -/
theorem getVal_eq (cx : Ctx) (t : Table) (r : Row) (c : Column) :
    getVal cx t r c =
      if present cx c = false then c.dtype.emptyVal else
      match c.storage with
      | .loc => localVal t r c
      | .virt => (virtVal cx t r c).getD (.crash s!"virtual column {c.name} not modelled")
      | .ref =>
        match refRow cx t r c.refTable with
        | none => c.dtype.emptyVal
        | some rr =>
          match (cx.table c.refTable).col? c.refCol with
          | none => .crash "refcol"
          | some rc =>
            match rc.storage with
            | .loc => localVal (cx.table c.refTable) rr rc
            | .virt => (virtVal cx (cx.table c.refTable) rr rc).getD (.crash s!"virtual column {rc.name} not modelled")
            | .ref => .crash "nested ref" := by
  unfold getVal present
  cases h : (c.optional != 0 && !hasFlag cx.b.flags c.optional) <;> simp
  · rfl

theorem getD_crash_iff (o : Option Val) (w : String) (ho : ∀ v, o = some v → isCrash v = false) :
    isCrash (o.getD (.crash w)) = true ↔ o = none := by
  cases o with
  | none => simp [isCrash]
  | some v => simp [ho v rfl]

theorem virt_getD_crash_iff (cx : Ctx) (t : Table) (r : Row) (c : Column) (w : String) :
    isCrash ((virtVal cx t r c).getD (.crash w)) = true ↔ virtVal cx t r c = none :=
  getD_crash_iff _ w (fun v hv => virtVal_clean cx t r c v hv)

/-- exactly when `getVal` yields the marker: the column is read, and it is a local column whose stored
    cell is the marker, an unmodelled virtual column, or a reference whose row exists and whose target
    column is missing, itself a reference, an unmodelled virtual column, or a local column whose stored
    cell is the marker -/
theorem getVal_crash_iff (cx : Ctx) (t : Table) (r : Row) (c : Column) :
    isCrash (getVal cx t r c) = true ↔
      present cx c = true ∧
      ((c.storage = .loc ∧ isCrash (localVal t r c) = true) ∨
       (c.storage = .virt ∧ virtVal cx t r c = none) ∨
       (c.storage = .ref ∧ ∃ rr, refRow cx t r c.refTable = some rr ∧
          ((cx.table c.refTable).col? c.refCol = none ∨
           ∃ rc, (cx.table c.refTable).col? c.refCol = some rc ∧
             (rc.storage = .ref ∨
              (rc.storage = .virt ∧ virtVal cx (cx.table c.refTable) rr rc = none) ∨
              (rc.storage = .loc ∧ isCrash (localVal (cx.table c.refTable) rr rc) = true))))) := by
  rw [getVal_eq]
  cases hp : present cx c with
  | false => simp [emptyVal_clean]
  | true =>
    simp only [Bool.true_eq_false, if_false, true_and]
    cases hs : c.storage with
    | loc => simp
    | virt => simp [virt_getD_crash_iff]
    | ref =>
      simp only [reduceCtorEq, false_and, false_or, true_and]
      cases hrr : refRow cx t r c.refTable with
      | none => simp [emptyVal_clean]
      | some rr =>
        simp only [Option.some.injEq, exists_eq_left']
        cases hcol : (cx.table c.refTable).col? c.refCol with
        | none => simp [isCrash]
        | some rc =>
          simp only [reduceCtorEq, false_or, Option.some.injEq, exists_eq_left']
          cases hrs : rc.storage with
          | loc => simp
          | virt => simp [virt_getD_crash_iff]
          | ref => simp [isCrash]

/-- the column a reference column points to exists in the referenced table and is stored locally -/
def RefLocal (s : Schema) (c : Column) : Bool :=
  match ((s.table? c.refTable).getD { name := c.refTable, cols := [] }).col? c.refCol with
  | some rc => rc.storage == .loc
  | none => false

theorem getVal_loc_clean (cx : Ctx) (t : Table) (r : Row) (c : Column) (hs : c.storage = .loc)
    (hr : RowClean r) : isCrash (getVal cx t r c) = false := by
  cases h : isCrash (getVal cx t r c) with
  | false => rfl
  | true =>
    rw [getVal_crash_iff] at h
    rcases h with ⟨_, ⟨_, h⟩ | ⟨h, _⟩ | ⟨h, _⟩⟩
    · rw [localVal_clean t r c hr] at h; cases h
    · rw [hs] at h; cases h
    · rw [hs] at h; cases h

theorem getVal_ref_clean (cx : Ctx) (t : Table) (r : Row) (c : Column) (hs : c.storage = .ref)
    (hl : RefLocal cx.schema c = true) (hb : BackendClean cx.b) : isCrash (getVal cx t r c) = false := by
  cases h : isCrash (getVal cx t r c) with
  | false => rfl
  | true =>
    rw [getVal_crash_iff] at h
    rcases h with ⟨_, ⟨h, _⟩ | ⟨h, _⟩ | ⟨_, rr, hrr, h⟩⟩
    · rw [hs] at h; cases h
    · rw [hs] at h; cases h
    · unfold RefLocal at hl
      change (match (cx.table c.refTable).col? c.refCol with
        | some rc => rc.storage == .loc | none => false) = true at hl
      rcases h with h | ⟨rc, hrc, h⟩
      · rw [h] at hl; cases hl
      · rw [hrc] at hl
        simp only [beq_iff_eq] at hl
        rcases h with h | ⟨h, _⟩ | ⟨_, h⟩
        · rw [hl] at h; cases h
        · rw [hl] at h; cases h
        · rw [localVal_clean _ rr rc (refRow_clean hb hrr)] at h; cases h

/-! ## stats: which columns the grouped form aggregates -/

/-- the aggregated columns of a flat stats list -/
def aggCols : List StatsEntry → List Column
  | [] => []
  | .counter _ :: rest => aggCols rest
  | .agg _ c _ :: rest => c :: aggCols rest

theorem mem_aggCols {stats : List StatsEntry} {c : Column} :
    c ∈ aggCols stats ↔ ∃ k n, StatsEntry.agg k c n ∈ stats := by
  induction stats with
  | nil => simp [aggCols]
  | cons e rest ih =>
    cases e with
    | counter f => simp [aggCols, ih]
    | agg k c' n =>
      simp only [aggCols, List.mem_cons, ih]
      constructor
      · rintro (rfl | ⟨k', n', h⟩)
        · exact ⟨k, n, .inl rfl⟩
        · exact ⟨k', n', .inr h⟩
      · rintro ⟨k', n', h | h⟩
        · simp only [StatsEntry.agg.injEq] at h; exact .inl h.2.1
        · exact .inr ⟨k', n', h⟩

mutual
  /-- every aggregate of a grouped stats node (nested ones included) is over a column satisfying `Q` -/
  def NodeAgg (Q : Column → Prop) : SNode → Prop
    | .counter _ _ => True
    | .agg _ _ col => Q col
    | .sgroup _ _ subs => NodesAgg Q subs
    | .sgroupG _ _ subs => NodesAgg Q subs
  def NodesAgg (Q : Column → Prop) : List SNode → Prop
    | [] => True
    | n :: ns => NodeAgg Q n ∧ NodesAgg Q ns
end

section Agg
variable (Q : Column → Prop)

theorem numberStats_agg :
    ∀ (stats : List StatsEntry) (i : Nat), (∀ c ∈ aggCols stats, Q c) → NodesAgg Q (numberStats i stats)
  | [], _, _ => by simp [numberStats, NodesAgg]
  | .counter f :: rest, i, h => by
    simp only [numberStats, NodesAgg, NodeAgg, true_and]
    exact numberStats_agg rest (i + 1) h
  | .agg k c n :: rest, i, h => by
    simp only [numberStats, NodesAgg, NodeAgg]
    exact ⟨h c (by simp [aggCols]), numberStats_agg rest (i + 1) (fun c' hc' => h c' (by simp [aggCols, hc']))⟩

theorem nodesAgg_append (a b : List SNode) : NodesAgg Q (a ++ b) ↔ NodesAgg Q a ∧ NodesAgg Q b := by
  induction a with
  | nil => simp [NodesAgg]
  | cons x xs ih => simp [NodesAgg, ih, and_assoc]

theorem nodesAgg_snoc {g : List SNode} {n : SNode} (hg : NodesAgg Q g) (hn : NodeAgg Q n) :
    NodesAgg Q (g ++ [n]) :=
  (nodesAgg_append Q g [n]).2 ⟨hg, hn, trivial⟩

theorem nodesAgg_get :
    ∀ (l : List SNode) (gi : Nat) (n : SNode), l[gi]? = some n → NodesAgg Q l → NodeAgg Q n
  | [], _, _, h, _ => by simp at h
  | x :: xs, 0, n, h, hok => by
    simp at h; subst h; exact hok.1
  | x :: xs, gi + 1, n, h, hok => by
    simp only [List.getElem?_cons_succ] at h
    exact nodesAgg_get xs gi n h hok.2

theorem nodesAgg_set :
    ∀ (l : List SNode) (gi : Nat) (n' : SNode), NodesAgg Q l → NodeAgg Q n' → NodesAgg Q (setAt l gi n')
  | [], _, _, _, _ => by simp [setAt, NodesAgg]
  | x :: xs, 0, n', hok, hn => by
    simp only [setAt, List.set_cons_zero, NodesAgg]; exact ⟨hn, hok.2⟩
  | x :: xs, gi + 1, n', hok, hn => by
    simp only [setAt, List.set_cons_succ, NodesAgg]
    exact ⟨hok.1, nodesAgg_set xs gi n' hok.2 hn⟩

theorem removeFirst_agg (pos : Nat) (isAnd : Bool) (rest : List Filter) (neg : Bool) :
    NodeAgg Q (removeFirst pos isAnd rest neg) := by
  unfold removeFirst
  split <;> simp [NodeAgg]

theorem groupable_counter {stat : SNode} {r : Nat × Bool × Filter × List Filter × Bool}
    (h : groupable stat = some r) : ∃ pos f, stat = .counter pos f := by
  unfold groupable at h
  split at h
  · exact ⟨_, _, rfl⟩
  · cases h

/-- what the invariant needs from the recursive optimiser call -/
def RecAgg (rec : List SNode → Option (List SNode)) : Prop :=
  ∀ l l', NodesAgg Q l → rec l = some l' → NodesAgg Q l'

theorem recurseLast_agg (rec : List SNode → Option (List SNode)) (hrec : RecAgg Q rec) (st : OptState)
    (h : NodesAgg Q st.grouped) : NodesAgg Q (recurseLast rec st).grouped := by
  unfold recurseLast
  split
  · exact h
  · split
    · rename_i gi c n subs hg
      have hn := nodesAgg_get Q _ _ _ hg h
      split
      · rename_i subs' hr
        exact nodesAgg_set Q _ _ _ h (by simp only [NodeAgg] at hn ⊢; exact hrec _ _ hn hr)
      · exact h
    · rename_i gi a n subs hg
      have hn := nodesAgg_get Q _ _ _ hg h
      split
      · rename_i subs' hr
        exact nodesAgg_set Q _ _ _ h (by simp only [NodeAgg] at hn ⊢; exact hrec _ _ hn hr)
      · exact h
    · exact h

theorem optLoop_agg (rec : List SNode → Option (List SNode)) (hrec : RecAgg Q rec) :
    ∀ (stats : List SNode) (st : OptState), NodesAgg Q stats → NodesAgg Q st.grouped →
      NodesAgg Q (optLoop rec stats st).grouped
  | [], st, _, h => by simpa [optLoop] using h
  | stat :: rest, st, hs, h => by
    have ih := fun st' h' => optLoop_agg rec hrec rest st' hs.2 h'
    rw [optLoop]
    cases hg : groupable stat with
    | none => exact ih _ (nodesAgg_snoc Q h hs.1)
    | some r =>
      obtain ⟨pos, isAnd, first, others, neg⟩ := r
      simp only []
      have h2 := recurseLast_agg Q rec hrec st h
      split
      · rename_i st' happ
        apply ih
        split at happ
        · cases happ
        · split at happ
          · rename_i gi c n subs fl fn hgi
            split at happ
            · simp only [Option.some.injEq] at happ
              subst happ
              have hn := nodesAgg_get Q _ _ _ hgi h
              refine nodesAgg_set Q _ _ _ h ?_
              simp only [NodeAgg] at hn ⊢
              exact nodesAgg_snoc Q hn (removeFirst_agg Q _ _ _ _)
            · cases happ
          · cases happ
      · repeat' split
        all_goals first
          | exact ih _ (nodesAgg_snoc Q h2 hs.1)
          | (apply ih
             refine nodesAgg_snoc Q h2 ?_
             simp only [NodeAgg, NodesAgg, and_true]
             exact removeFirst_agg Q _ _ _ _)

theorem optimizeNodes_agg : ∀ fuel : Nat, RecAgg Q (optimizeNodes fuel)
  | 0 => by
    intro l l' _ h
    simp [optimizeNodes] at h
  | fuel + 1 => by
    intro l l' hok h
    have hrec := optimizeNodes_agg fuel
    simp only [optimizeNodes] at h
    split at h
    · cases h
    · simp only [Option.some.injEq] at h
      subst h
      exact recurseLast_agg Q _ hrec _ (optLoop_agg Q _ hrec l {} hok (by simp [NodesAgg]))

/-- the grouped form only aggregates columns the flat list aggregates -/
theorem optimizeStats_agg (stats : List StatsEntry) (nodes : List SNode) (hq : ∀ c ∈ aggCols stats, Q c)
    (h : optimizeStats stats = some nodes) : NodesAgg Q nodes :=
  optimizeNodes_agg Q _ _ _ (numberStats_agg Q stats 0 hq) h

end Agg

/-! ## stats: counting is defined where the aggregated values are -/

mutual
  theorem countNode_some (q : Quirks) (v : View) :
      ∀ (n : SNode) (accs : Accs), NodeAgg (fun c => getFloat v c ≠ none) n →
        ∃ a, countNode q v n accs = some a
    | .counter pos f, accs, _ => by
      simp only [countNode]
      split <;> exact ⟨_, rfl⟩
    | .agg pos k col, accs, h => by
      simp only [NodeAgg] at h
      simp only [countNode]
      cases hf : getFloat v col with
      | none => exact absurd hf h
      | some m => exact ⟨_, rfl⟩
    | .sgroup c n subs, accs, h => by
      simp only [NodeAgg] at h
      simp only [countNode]
      split
      · exact countNodes_some q v subs accs h
      · exact ⟨_, rfl⟩
    | .sgroupG a n subs, accs, h => by
      simp only [NodeAgg] at h
      simp only [countNode]
      split
      · exact countNodes_some q v subs accs h
      · exact ⟨_, rfl⟩
  theorem countNodes_some (q : Quirks) (v : View) :
      ∀ (ns : List SNode) (accs : Accs), NodesAgg (fun c => getFloat v c ≠ none) ns →
        ∃ a, countNodes q v ns accs = some a
    | [], accs, _ => ⟨accs, by simp [countNodes]⟩
    | n :: ns, accs, h => by
      simp only [NodesAgg] at h
      obtain ⟨a, ha⟩ := countNode_some q v n accs h.1
      simp only [countNodes, ha]
      exact countNodes_some q v ns a h.2
end

theorem countFlat_some (q : Quirks) (pd : Bool) (v : View) :
    ∀ (stats : List StatsEntry) (pos : Nat) (accs : Accs), (∀ c ∈ aggCols stats, getFloat v c ≠ none) →
      ∃ a, countFlat q pd v stats pos accs = some a
  | [], _, accs, _ => ⟨accs, by simp [countFlat]⟩
  | .counter f :: rest, pos, accs, h => by
    simp only [countFlat]
    exact countFlat_some q pd v rest _ _ h
  | .agg k col n :: rest, pos, accs, h => by
    simp only [countFlat]
    cases hf : getFloat v col with
    | none => exact absurd hf (h col (by simp [aggCols]))
    | some m => exact countFlat_some q pd v rest _ _ (fun c hc => h c (by simp [aggCols, hc]))

theorem upsert_some (m : StatsMap) (key : String) (init : Accs) (f : Accs → Option Accs)
    (hf : ∀ a, ∃ a', f a = some a') : ∃ m', m.upsert key init f = some m' := by
  unfold StatsMap.upsert
  split
  · rename_i k accs _
    obtain ⟨a', ha⟩ := hf accs
    exact ⟨_, by rw [ha]; rfl⟩
  · obtain ⟨a', ha⟩ := hf init
    exact ⟨_, by rw [ha]; rfl⟩

theorem foldRows_some (step : StatsMap → Row → Option StatsMap) :
    ∀ (rows : List Row) (m : StatsMap), (∀ r ∈ rows, ∀ m, ∃ m', step m r = some m') →
      ∃ m', foldRows step rows m = some m'
  | [], m, _ => ⟨m, rfl⟩
  | r :: rs, m, h => by
    obtain ⟨m1, h1⟩ := h r (by simp) m
    simp only [foldRows, h1]
    exact foldRows_some step rs m1 (fun r' hr' => h r' (by simp [hr']))

/-- the row is counted: it passes the request's filter (in the evaluation mode at hand) and the
    authorisation check -/
def rowOk (m : StatsMode) (cx : Ctx) (t : Table) (req : Request) (r : Row) : Bool :=
  (if m.pushDown then matchAll m.q (mkView cx t r) req.filter else semList m.q (mkView cx t r) req.filter) &&
    checkAuth cx t req.authUser r

/-- `gatherStats` is defined when on every counted row every aggregated column has a value -/
theorem gatherStats_some (m : StatsMode) (cx : Ctx) (t : Table) (req : Request) (reqCols : List Column)
    (h : ∀ r ∈ tableRows cx t, rowOk m cx t req r = true →
      ∀ c ∈ aggCols req.stats, isCrash (getVal cx t r c) = false) :
    ∃ sm, gatherStats m cx t req reqCols = some sm := by
  unfold gatherStats
  simp only
  apply foldRows_some
  intro r hr sm
  have hr' : r ∈ tableRows cx t := by
    split at hr
    · exact Lmd.Lemmas.preFiltered_subset cx t _ _ r hr
    · exact hr
  cases hok : rowOk m cx t req r with
  | false =>
    refine ⟨sm, ?_⟩
    unfold rowOk at hok
    simp [hok]
  | true =>
    have hgf : ∀ c ∈ aggCols req.stats, getFloat (mkView cx t r) c ≠ none := by
      intro c hc hnone
      have := h r hr' hok c hc
      unfold getFloat at hnone
      simp only [mkView] at hnone
      cases hv : getVal cx t r c <;> simp [hv, isCrash] at hnone this
    unfold rowOk at hok
    simp only [hok, Bool.not_true, Bool.false_eq_true, if_false]
    apply upsert_some
    intro accs
    split
    · rename_i nodes hn
      have hopt : optimizeStats req.stats = some nodes := by
        split at hn
        · exact hn
        · cases hn
      exact countNodes_some m.q _ nodes accs (optimizeStats_agg _ req.stats nodes hgf hopt)
    · exact countFlat_some m.q m.pushDown _ req.stats 0 accs hgf

/-- `statsQuery` does not set its crash flag when on every selected, available backend every counted row
    has a value in every aggregated column -/
theorem statsQuery_no_crash (m : StatsMode) (s : Schema) (ds : Dataset) (t : Table) (req : Request)
    (h : ∀ b ∈ (selectBackends ds t req).peers, backendAvailable b t = true →
      ∀ r ∈ tableRows { schema := s, ds := ds, b := b } t,
        rowOk m { schema := s, ds := ds, b := b } t req r = true →
        ∀ c ∈ aggCols req.stats, isCrash (getVal { schema := s, ds := ds, b := b } t r c) = false) :
    (statsQuery m s ds t req).crash = false := by
  unfold statsQuery
  simp only
  split
  · rename_i hany
    rw [List.any_eq_true] at hany
    obtain ⟨x, hx, hnone⟩ := hany
    obtain ⟨b, hb, rfl⟩ := List.mem_map.1 hx
    rw [List.mem_filter] at hb
    obtain ⟨sm, hsm⟩ := gatherStats_some m { schema := s, ds := ds, b := b } t req
      (req.columns.map t.colWithFallback) (h b hb.1 hb.2)
    rw [hsm] at hnone
    cases hnone
  · rfl

/-! ## the rows a query scans -/

theorem groupByRows_clean (cx : Ctx) (t : Table) : ∀ r ∈ groupByRows cx t, RowClean r := by
  intro r hr
  unfold groupByRows at hr
  split at hr
  all_goals try (cases hr; done)
  all_goals
    simp only [List.mem_flatMap, List.mem_map] at hr
    obtain ⟨_, _, _, _, rfl⟩ := hr
    intro c hc
    simp only [List.mem_cons, List.not_mem_nil, or_false] at hc
    rcases hc with rfl | rfl | rfl <;> rfl

theorem tableRows_clean (cx : Ctx) (t : Table) (hb : BackendClean cx.b) : ∀ r ∈ tableRows cx t, RowClean r := by
  intro r hr
  unfold tableRows at hr
  split at hr
  · exact rows_clean hb _ r hr
  · exact groupByRows_clean cx t r hr
  · simp only [List.mem_singleton] at hr
    subst hr
    intro c hc
    cases hc
  · cases hr

theorem selectBackends_subset (ds : Dataset) (t : Table) (req : Request) :
    ∀ b ∈ (selectBackends ds t req).peers, b ∈ ds.backends := by
  intro b hb
  unfold selectBackends at hb
  simp only at hb
  split at hb
  · exact List.mem_of_mem_take hb
  · exact (List.mem_filter.1 hb).1

/-! ## the parser -/

theorem parseHeaderLine_table (o : ParseOpts) (t : Table) (req req' : Request) (line : String)
    (h : parseHeaderLine o t req line = .ok req') : req'.table = req.table := by
  unfold parseHeaderLine at h
  simp only [bind, Except.bind, pure, Except.pure, throw, throwThe, MonadExceptOf.throw] at h
  repeat' split at h
  all_goals first
    | (cases h; done)
    | (cases h; rfl)

theorem parseHeaderLines_table (o : ParseOpts) (t : Table) :
    ∀ (lines : List String) (req req' : Request), parseHeaderLines o t req lines = .ok req' →
      req'.table = req.table
  | [], req, req', h => by
    simp only [parseHeaderLines, pure, Except.pure, Except.ok.injEq] at h
    rw [h]
  | line :: rest, req, req', h => by
    simp only [parseHeaderLines, bind, Except.bind, pure, Except.pure] at h
    split at h
    · cases h; rfl
    · split at h
      · cases h
      · rename_i r1 h1
        rw [parseHeaderLines_table o t rest r1 req' h, parseHeaderLine_table o t req r1 _ h1]

/-- what an accepted request looks like: its table exists and every sort field has its column -/
theorem parseRequest_ok (s : Schema) (o : ParseOpts) (text : String) (req : Request)
    (h : parseRequest s o text = .ok req) :
    ∃ t, s.table? req.table = some t ∧ ∀ sf ∈ req.sort, sf.col = t.col? sf.name ∧ sf.col.isSome = true := by
  unfold parseRequest at h
  simp only [bind, Except.bind, pure, Except.pure, throw, throwThe, MonadExceptOf.throw] at h
  split at h
  · cases h
  · split at h
    · cases h
    · rename_i tname hact
      split at h
      · cases h
      · rename_i t ht
        split at h
        · cases h
        · rename_i r1 h1
          have htab : r1.table = tname := parseHeaderLines_table o t _ _ r1 h1
          generalize hr2 : (if o.optimize = true then
              { r1 with filter := optimizeIndentation (Filter.depthList r1.filter + 1) r1.filter }
            else r1) = r2 at h
          have htab2 : r2.table = tname := by
            rw [← hr2]; split <;> exact htab
          split at h
          · cases h
          · rename_i hany
            cases h
            refine ⟨t, by simp only [htab2]; exact ht, ?_⟩
            intro sf hsf
            simp only [List.mem_map] at hsf
            obtain ⟨sf0, hsf0, rfl⟩ := hsf
            refine ⟨rfl, ?_⟩
            cases hc : t.col? sf0.name with
            | some c => rfl
            | none =>
              exfalso
              apply hany
              rw [List.any_eq_true]
              exact ⟨_, List.mem_map.2 ⟨sf0, hsf0, rfl⟩, by simp [hc]⟩

theorem cut_empty : cut ':' "" = ("", none) := by decide

/-- a command header `Filter:`, `Stats:` or `WaitCondition:` is refused before any header is parsed -/
theorem parseCommandHeaders_guarded (o : ParseOpts) (req : Request) (line : String) (rest : List String)
    (hdr x : String) (hc : cut ':' (trimSpace line) = (hdr, some x))
    (hh : goLower hdr = "filter" ∨ goLower hdr = "stats" ∨ goLower hdr = "waitcondition") :
    parseCommandHeaders o req (line :: rest) = .error (.bad "header not supported for commands") := by
  have hne : ¬ (trimSpace line == "") = true := by
    intro he
    rw [beq_iff_eq] at he
    rw [he, cut_empty] at hc
    cases hc
  unfold parseCommandHeaders
  simp only [hne, hc]
  have : (goLower hdr == "filter" || goLower hdr == "stats" || goLower hdr == "waitcondition") = true := by
    rcases hh with h | h | h <;> simp [h]
  simp only [this, if_true]
  rfl

end Lmd.Total
