/-
  Lmd.Lemmas.RunLemmas — a whole `UpdateDelta` run seen from the hosts / services tables (C03, goals of `Lmd.Props.C03Run`):

  * the backend's object set survives every part of a run (`updateDelta_tables`);
  * the status refresh and the other table's step leave a table alone (`updateFullTable_get_other`,
    `deltaTable_get_other`); the comments / downtimes part rewrites the two id-list cells only (`IdListsOnly`,
    `entries_idLists`), which keeps the primary keys (`idListsOnly_keys`, given `IdListsNotKey`);
  * the run in four parts (`runStatus`, `runHosts`, `runServices`, `runEntries`, `updateDelta_parts`);
  * what ANY successful hosts / services step does to an aligned table (`deltaTable_rows_aligned`), and that it keeps
    an agreement with the backend that already holds (`deltaTable_keeps_agreement`);
  * the step with the cap of the timestamp filter taken into account (`capStep_rows`), the measure `scanDiff` — the
    number of rows that differ from the backend in a scan column (`scanDiff_capStep`) — and the descent over a
    sequence of scanning steps (`finite_descent`, `scan_descent`);
  * runs against a peer and backend without failures (`Healthy`, `query_healthy`, `deltaTable_healthy`,
    `updateDelta_succeeds`), used to build concrete instances.
-/
import Lmd.Lemmas.PeerLemmas
import Lmd.Lemmas.ConvergeLemmas

namespace Lmd.RunL
open Lmd Lmd.PeerL Lmd.SyncLemmas

/-! ## the backend's objects survive a run -/

theorem updateFullTable_tables (w : World) (now : Int) (p : PeerSt) (b : BackendSt) (c : Cache) (t : String) :
    (updateFullTable w now p b c t).b.tables = b.tables := by
  rw [updateFullTable_eq]
  simp only []
  repeat' split
  all_goals first | rfl | exact (query_tables ..).1

theorem plainStep_tables (w : World) (now : Int) (c : Cache) (t : String) (window : Option (Int × Int)) (flags0 : Nat)
    (p : PeerSt) (b : BackendSt) (extra : List Int) (mark : Bool) :
    (plainStep w now c t window flags0 p b extra mark).b.tables = b.tables := by
  unfold plainStep
  simp only []
  split
  · exact (query_tables ..).1
  · split <;> exact (query_tables ..).1

theorem deltaTable_tables (w : World) (now : Int) (p : PeerSt) (b : BackendSt) (c : Cache) (t : String)
    (window : Option (Int × Int)) (threshold : Int) :
    (deltaTable w now p b c t window threshold).b.tables = b.tables := by
  rw [deltaTable_eq]
  simp only []
  split
  · exact plainStep_tables ..
  · split
    · exact (query_tables ..).1
    · split
      · exact (query_tables ..).1
      · split <;> exact (plainStep_tables ..).trans (query_tables ..).1

theorem winStep_tables (w : World) (now fromT : Int) (p : PeerSt) (b : BackendSt) (c : Cache) (t : String) :
    (winStep w now fromT p b c t).b.tables = b.tables := by
  unfold winStep
  split <;> exact deltaTable_tables ..

theorem entries_tables (w : World) (now : Int) :
    ∀ (ts : List String) (p : PeerSt) (b : BackendSt) (c : Cache),
      (updateDelta.entries w now ts p b c).b.tables = b.tables
  | [], p, b, c => by unfold updateDelta.entries; rfl
  | t :: ts, p, b, c => by
    unfold updateDelta.entries
    simp only []
    have q1 := (query_tables w now p b true).1
    split
    · exact q1
    · split
      · exact (entries_tables w now ts _ _ _).trans q1
      · have q2 := ((query_tables w now (query w now p b).1 (query w now p b).2.1 true).1).trans q1
        split
        · exact q2
        · split
          · split
            · exact ((query_tables ..).1).trans q2
            · exact ((entries_tables w now ts _ _ _).trans (query_tables ..).1).trans q2
          · exact (entries_tables w now ts _ _ _).trans q2

/-! ## which tables a part of the run writes -/

theorem updateFullTable_get_other (w : World) (now : Int) (p : PeerSt) (b : BackendSt) (c : Cache) (t t' : String)
    (h : t' ≠ t) : (updateFullTable w now p b c t).cache.get t' = c.get t' := by
  rw [updateFullTable_eq]
  simp only []
  repeat' split
  all_goals first | rfl | exact cache_get_set_other _ _ _ _ h

theorem plainStep_get_other (w : World) (now : Int) (c : Cache) (t : String) (window : Option (Int × Int)) (flags0 : Nat)
    (p : PeerSt) (b : BackendSt) (extra : List Int) (mark : Bool) (t' : String) (h : t' ≠ t) :
    (plainStep w now c t window flags0 p b extra mark).cache.get t' = c.get t' := by
  unfold plainStep
  simp only []
  split
  · rfl
  · split
    · rfl
    · exact cache_get_set_other _ _ _ _ h

theorem deltaTable_get_other (w : World) (now : Int) (p : PeerSt) (b : BackendSt) (c : Cache) (t : String)
    (window : Option (Int × Int)) (threshold : Int) (t' : String) (h : t' ≠ t) :
    (deltaTable w now p b c t window threshold).cache.get t' = c.get t' := by
  rw [deltaTable_eq]
  simp only []
  split
  · exact plainStep_get_other _ _ _ _ _ _ _ _ _ _ _ h
  · split
    · rfl
    · split
      · rfl
      · split <;> exact plainStep_get_other _ _ _ _ _ _ _ _ _ _ _ h

theorem winStep_get_other (w : World) (now fromT : Int) (p : PeerSt) (b : BackendSt) (c : Cache) (t t' : String)
    (h : t' ≠ t) : (winStep w now fromT p b c t).cache.get t' = c.get t' := by
  unfold winStep
  split <;> exact deltaTable_get_other _ _ _ _ _ _ _ _ _ h

/-! ## the comments / downtimes part rewrites two cells of every host and service -/

/-- `rows'` is `rows` with at most the `comments` / `downtimes` cell of every row rewritten -/
def IdListsOnly (rows rows' : List Row) : Prop :=
  rows'.length = rows.length ∧ ∀ (i : Nat) (old new : Row), rows[i]? = some old → rows'[i]? = some new →
    ∀ n, n ≠ "comments" → n ≠ "downtimes" → new.cell? n = old.cell? n

theorem idListsOnly_refl (rows : List Row) : IdListsOnly rows rows :=
  ⟨rfl, fun _ _ _ ho hn _ _ _ => by rw [ho] at hn; cases hn; rfl⟩

theorem idListsOnly_of_eq {rows rows' : List Row} (h : rows' = rows) : IdListsOnly rows rows' := by
  subst h; exact idListsOnly_refl _

theorem idListsOnly_trans {a b c : List Row} (h1 : IdListsOnly a b) (h2 : IdListsOnly b c) : IdListsOnly a c := by
  refine ⟨h2.1.trans h1.1, fun i old new ho hn n hc hd => ?_⟩
  have hl : i < b.length := by rw [h1.1]; exact (List.getElem?_eq_some_iff.1 ho).1
  rw [h2.2 i b[i] new (List.getElem?_eq_getElem hl) hn n hc hd, h1.2 i old b[i] ho (List.getElem?_eq_getElem hl) n hc hd]

theorem idListsOnly_map (rows : List Row) (f : Row → Row)
    (hf : ∀ row n, n ≠ "comments" → n ≠ "downtimes" → (f row).cell? n = row.cell? n) : IdListsOnly rows (rows.map f) := by
  refine ⟨List.length_map _, fun i old new ho hn n hc hd => ?_⟩
  rw [List.getElem?_map, ho] at hn
  cases hn
  exact hf old n hc hd

/-- the rebuild of the id lists rewrites the `comments` / `downtimes` cells of the hosts and services only -/
theorem rebuildLists_idLists (c : Cache) (t : String) (ht : t = "hosts" ∨ t = "services") :
    IdListsOnly (c.get t) ((rebuildLists c).get t) := by
  have hcell : ∀ (v1 v2 : Val) (row : Row) (n : String), n ≠ "comments" → n ≠ "downtimes" →
      ((row.setCell "comments" v1).setCell "downtimes" v2).cell? n = row.cell? n :=
    fun v1 v2 row n hc hd => by rw [cell_setCell_other _ _ _ _ hd, cell_setCell_other _ _ _ _ hc]
  rcases ht with rfl | rfl
  · rw [rebuildLists_hosts]
    exact idListsOnly_map _ _ (fun row n hc hd => hcell _ _ row n hc hd)
  · rw [rebuildLists_services]
    exact idListsOnly_map _ _ (fun row n hc hd => hcell _ _ row n hc hd)

theorem rebuildLists_set_idLists (c : Cache) (t t0 : String) (rs : List Row) (ht : t0 = "hosts" ∨ t0 = "services")
    (hne : t0 ≠ t) : IdListsOnly (c.get t0) ((rebuildLists (c.set t rs)).get t0) := by
  have := rebuildLists_idLists (c.set t rs) t0 ht
  rwa [cache_get_set_other _ _ _ _ hne] at this

/-- Whatever the comments / downtimes part of a run does (also when one of its requests fails), the hosts and the
    services table keep every cell except `comments` / `downtimes`. -/
theorem entries_idLists (w : World) (now : Int) (t0 : String) (ht0 : t0 = "hosts" ∨ t0 = "services") :
    ∀ (ts : List String) (p : PeerSt) (b : BackendSt) (c : Cache), (∀ t ∈ ts, t0 ≠ t) →
      IdListsOnly (c.get t0) ((updateDelta.entries w now ts p b c).cache.get t0)
  | [], p, b, c, _ => by unfold updateDelta.entries; exact idListsOnly_refl _
  | t :: ts, p, b, c, hts => by
    have hne : t0 ≠ t := hts t List.mem_cons_self
    have hts' : ∀ t ∈ ts, t0 ≠ t := fun t ht => hts t (List.mem_cons_of_mem _ ht)
    unfold updateDelta.entries
    simp only []
    split
    · exact idListsOnly_refl _
    · split
      · exact entries_idLists w now t0 ht0 ts _ _ _ hts'
      · split
        · exact idListsOnly_refl _
        · split
          · split
            · exact idListsOnly_of_eq (cache_get_set_other _ _ _ _ hne)
            · exact idListsOnly_trans (rebuildLists_set_idLists c t t0 _ ht0 hne)
                (entries_idLists w now t0 ht0 ts _ _ _ hts')
          · exact idListsOnly_trans (rebuildLists_set_idLists c t t0 _ ht0 hne)
              (entries_idLists w now t0 ht0 ts _ _ _ hts')

/-! ## the id lists are no key columns -/

/-- Neither `comments` nor `downtimes` is a primary-key column of the table, nor the base column of a lower-case
    shadow key column.  A decidable fact about the schema. -/
def IdListsNotKey (tab : Table) : Prop :=
  ∀ k ∈ tab.primaryKey, ∀ n ∈ ["comments", "downtimes"], n ≠ k ∧ n ≠ trimSuffix k "_lc"

instance (tab : Table) : Decidable (IdListsNotKey tab) := by unfold IdListsNotKey; infer_instance

theorem idListsOnly_keys {tab : Table} (hL : IdListsNotKey tab) {rows rows' : List Row} (h : IdListsOnly rows rows') :
    rows'.map (·.key tab) = rows.map (·.key tab) := by
  apply List.ext_getElem?
  intro i
  rw [List.getElem?_map, List.getElem?_map]
  rcases Nat.lt_or_ge i rows.length with hl | hl
  · have hl' : i < rows'.length := by rw [h.1]; exact hl
    rw [List.getElem?_eq_getElem hl, List.getElem?_eq_getElem hl']
    simp only [Option.map_some, Option.some.injEq]
    have hc := h.2 i rows[i] rows'[i] (List.getElem?_eq_getElem hl) (List.getElem?_eq_getElem hl')
    unfold Row.key
    apply List.map_congr_left
    intro k hk
    have h1 := hL k hk "comments" (by simp)
    have h2 := hL k hk "downtimes" (by simp)
    exact str_congr tab _ _ k (hc k (Ne.symm h1.1) (Ne.symm h2.1)) (hc _ (Ne.symm h1.2) (Ne.symm h2.2))
  · rw [List.getElem?_eq_none hl, List.getElem?_eq_none (by rw [h.1]; exact hl)]

/-- a table whose rows carry the same keys in the same order is aligned as well -/
theorem aligned_of_keys_eq {w : World} {t : String} {backend : List ReplyRow} {cached cached' : List Row}
    (hA : Aligned w t backend cached)
    (hk : cached'.map (·.key (tableOf w t)) = cached.map (·.key (tableOf w t))) : Aligned w t backend cached' := by
  have hlen : cached'.length = cached.length := by simpa using congrArg List.length hk
  refine ⟨by rw [hA.len, hlen], fun i r new hi hn => ?_, by rw [hk]; exact hA.nodup⟩
  obtain ⟨old, hold, hkey⟩ := hA.cached_at hi
  have := congrArg (fun l => l[i]?) hk
  simp only [List.getElem?_map, hn, hold, Option.map_some, Option.some.injEq] at this
  rw [this, hkey]

theorem aligned_of_tables {w : World} {t : String} {b b' : BackendSt} {cached : List Row}
    (hA : Aligned w t (b.rows t) cached) (h : b'.tables = b.tables) : Aligned w t (b'.rows t) cached := by
  rw [rows_of_tables h]; exact hA

/-! ## the run in four parts -/

/-- the window of the hosts / services requests of `UpdateDelta(from, now)`: `[from - offset, now - offset)`, or
    everything when `from = 0` -/
def runWindow (w : World) (now fromT : Int) : Option (Int × Int) :=
  if fromT > 0 then some (fromT - w.cfg.updateOffset, now - w.cfg.updateOffset) else some (-(2 ^ 62 : Int), (2 ^ 62 : Int))

/-- the scan threshold of `UpdateDelta(from, now)` -/
def runThreshold (w : World) (fromT : Int) : Int := fromT - w.cfg.updateOffset

theorem winStep_eq (w : World) (now fromT : Int) (p : PeerSt) (b : BackendSt) (c : Cache) (t : String) :
    winStep w now fromT p b c t = deltaTable w now p b c t (runWindow w now fromT) (runThreshold w fromT) := by
  unfold winStep runWindow runThreshold
  by_cases h : fromT > 0
  · simp only [if_pos h]
  · simp only [if_neg h]

/-- part 1 of a run: the status refresh -/
def runStatus (w : World) (now : Int) (p : PeerSt) (b : BackendSt) (c : Cache) : DeltaResult :=
  updateFullTable w now p b c "status"

/-- part 2 of a run: the hosts step -/
def runHosts (w : World) (now : Int) (p : PeerSt) (b : BackendSt) (c : Cache) (fromT : Int) : DeltaResult :=
  winStep w now fromT (runStatus w now p b c).p (runStatus w now p b c).b (runStatus w now p b c).cache "hosts"

/-- part 3 of a run: the services step -/
def runServices (w : World) (now : Int) (p : PeerSt) (b : BackendSt) (c : Cache) (fromT : Int) : DeltaResult :=
  winStep w now fromT (runHosts w now p b c fromT).p (runHosts w now p b c fromT).b (runHosts w now p b c fromT).cache
    "services"

/-- part 4 of a run: comments and downtimes -/
def runEntries (w : World) (now : Int) (p : PeerSt) (b : BackendSt) (c : Cache) (fromT : Int) : DeltaResult :=
  updateDelta.entries w now ["comments", "downtimes"] (runServices w now p b c fromT).p (runServices w now p b c fromT).b
    (runServices w now p b c fromT).cache

theorem updateDelta_parts (w : World) (now : Int) (p : PeerSt) (b : BackendSt) (c : Cache) (fromT : Int) :
    updateDelta w now p b c fromT =
      match (runStatus w now p b c).err with
      | .none =>
        match (runHosts w now p b c fromT).err with
        | .none =>
          match (runServices w now p b c fromT).err with
          | .none =>
            match (runEntries w now p b c fromT).err with
            | .none =>
              if (runEntries w now p b c fromT).p.cache.isNone then
                { runEntries w now p b c fromT with err := .failed "peer went offline during the update" }
              else { runEntries w now p b c fromT with
                      p := { ((runEntries w now p b c fromT).p.recovered now) with lastUpdate := now } }
            | _ => runEntries w now p b c fromT
          | _ => runServices w now p b c fromT
        | _ => runHosts w now p b c fromT
      | _ => runStatus w now p b c := by
  rw [updateDelta_eq]
  rfl

/-- a successful run: every part succeeded -/
theorem updateDelta_ok_parts {w : World} {now : Int} {p : PeerSt} {b : BackendSt} {c : Cache} {fromT : Int}
    (h : (updateDelta w now p b c fromT).err = .none) :
    (runStatus w now p b c).err = .none ∧ (runHosts w now p b c fromT).err = .none ∧
      (runServices w now p b c fromT).err = .none ∧ (runEntries w now p b c fromT).err = .none := by
  rw [updateDelta_parts] at h
  split at h
  · rename_i h0
    split at h
    · rename_i h1
      split at h
      · rename_i h2
        split at h
        · rename_i h3
          exact ⟨h0, h1, h2, h3⟩
        · rename_i h3; exact absurd h h3
      · rename_i h2; exact absurd h h2
    · rename_i h1; exact absurd h h1
  · rename_i h0; exact absurd h h0

/-- when the first three parts succeed, the tables and the backend of the run's result are those after the comments /
    downtimes part — whether that part succeeds or not -/
theorem updateDelta_cache {w : World} {now : Int} {p : PeerSt} {b : BackendSt} {c : Cache} {fromT : Int}
    (h0 : (runStatus w now p b c).err = .none) (h1 : (runHosts w now p b c fromT).err = .none)
    (h2 : (runServices w now p b c fromT).err = .none) :
    (updateDelta w now p b c fromT).cache = (runEntries w now p b c fromT).cache ∧
      (updateDelta w now p b c fromT).b = (runEntries w now p b c fromT).b := by
  rw [updateDelta_parts]
  simp only [h0, h1, h2]
  split
  · split <;> exact ⟨rfl, rfl⟩
  · exact ⟨rfl, rfl⟩

theorem runStatus_tables (w : World) (now : Int) (p : PeerSt) (b : BackendSt) (c : Cache) :
    (runStatus w now p b c).b.tables = b.tables := updateFullTable_tables ..

theorem runHosts_tables (w : World) (now : Int) (p : PeerSt) (b : BackendSt) (c : Cache) (fromT : Int) :
    (runHosts w now p b c fromT).b.tables = b.tables := (winStep_tables ..).trans (runStatus_tables ..)

theorem runServices_tables (w : World) (now : Int) (p : PeerSt) (b : BackendSt) (c : Cache) (fromT : Int) :
    (runServices w now p b c fromT).b.tables = b.tables := (winStep_tables ..).trans (runHosts_tables ..)

theorem runEntries_tables (w : World) (now : Int) (p : PeerSt) (b : BackendSt) (c : Cache) (fromT : Int) :
    (runEntries w now p b c fromT).b.tables = b.tables := (entries_tables ..).trans (runServices_tables ..)

/-- no part of a run (successful or not) changes the backend's object set: requests only read it -/
theorem updateDelta_tables (w : World) (now : Int) (p : PeerSt) (b : BackendSt) (c : Cache) (fromT : Int) :
    (updateDelta w now p b c fromT).b.tables = b.tables := by
  rw [updateDelta_parts]
  repeat' split
  all_goals first
    | exact runEntries_tables ..
    | exact runServices_tables ..
    | exact runHosts_tables ..
    | exact runStatus_tables ..

/-- the status refresh leaves hosts and services alone -/
theorem runStatus_get (w : World) (now : Int) (p : PeerSt) (b : BackendSt) (c : Cache) (t : String)
    (ht : t = "hosts" ∨ t = "services") : (runStatus w now p b c).cache.get t = c.get t := by
  apply updateFullTable_get_other
  rcases ht with rfl | rfl <;> decide

/-- the hosts step leaves the services alone -/
theorem runHosts_get_services (w : World) (now : Int) (p : PeerSt) (b : BackendSt) (c : Cache) (fromT : Int) :
    (runHosts w now p b c fromT).cache.get "services" = c.get "services" :=
  (winStep_get_other _ _ _ _ _ _ _ _ (by decide)).trans (runStatus_get w now p b c "services" (.inr rfl))

/-- the services step leaves the hosts alone -/
theorem runServices_get_hosts (w : World) (now : Int) (p : PeerSt) (b : BackendSt) (c : Cache) (fromT : Int) :
    (runServices w now p b c fromT).cache.get "hosts" = (runHosts w now p b c fromT).cache.get "hosts" :=
  winStep_get_other _ _ _ _ _ _ _ _ (by decide)

/-- the comments / downtimes part rewrites the id lists of the hosts / services only -/
theorem runEntries_idLists (w : World) (now : Int) (p : PeerSt) (b : BackendSt) (c : Cache) (fromT : Int) (t : String)
    (ht : t = "hosts" ∨ t = "services") :
    IdListsOnly ((runServices w now p b c fromT).cache.get t) ((runEntries w now p b c fromT).cache.get t) := by
  apply entries_idLists w now t ht
  intro t' ht'
  simp only [List.mem_cons, List.not_mem_nil, or_false] at ht'
  rcases ht with rfl | rfl <;> rcases ht' with rfl | rfl <;> decide

/-! ## any successful hosts / services step against an aligned table -/

theorem plainStep_answered {w : World} {now : Int} {c : Cache} {t : String} {window : Option (Int × Int)} {flags0 : Nat}
    {p : PeerSt} {b : BackendSt} {extra : List Int} {mark : Bool}
    (h : (plainStep w now c t window flags0 p b extra mark).err = .none) : (query w now p b).2.2 = none := by
  unfold plainStep at h
  simp only [] at h
  split at h
  · cases h
  · assumption

/-- the flags in force when the reply of the delta request of a hosts / services step is applied: after one request
    when the full scan is not due, after two when it is -/
def stepFlags (w : World) (now : Int) (p : PeerSt) (b : BackendSt) (t : String) : Nat :=
  if lastFullOf p t > now - 60 then (query w now p b).1.flags else applyFlags w now p b

theorem stepFlags_due {w : World} {now : Int} {p : PeerSt} {b : BackendSt} {t : String}
    (h : ¬ lastFullOf p t > now - 60) : stepFlags w now p b t = applyFlags w now p b := by
  unfold stepFlags; rw [if_neg h]

/-- a successful step whose full scan is due had its scan request answered -/
theorem deltaTable_scan_answered {w : World} {now : Int} {p : PeerSt} {b : BackendSt} {c : Cache} {t : String}
    {window : Option (Int × Int)} {threshold : Int} (hd : ¬ lastFullOf p t > now - 60)
    (hok : (deltaTable w now p b c t window threshold).err = .none) : (query w now p b).2.2 = none := by
  rw [deltaTable_eq] at hok
  simp only [] at hok
  rw [if_neg hd] at hok
  split at hok
  · cases hok
  · assumption

/-- ANY successful hosts / services step (full scan due or not, cap reached or not) against an aligned table keeps the
    number of rows, and every position holds afterwards either its old row or that row rewritten from the backend
    row of the same object. -/
theorem deltaTable_rows_aligned (w : World) (now : Int) (p : PeerSt) (b : BackendSt) (c : Cache) (t : String)
    (window : Option (Int × Int)) (threshold : Int) (hA : Aligned w t (b.rows t) (c.get t))
    (hok : (deltaTable w now p b c t window threshold).err = .none) :
    ((deltaTable w now p b c t window threshold).cache.get t).length = (c.get t).length ∧
    ∀ (i : Nat) (r : ReplyRow) (old : Row), (sortedReply w t (b.rows t))[i]? = some r → (c.get t)[i]? = some old →
      ∃ new, ((deltaTable w now p b c t window threshold).cache.get t)[i]? = some new ∧
        (new = old ∨ new = rowAfter w (stepFlags w now p b t) (tableOf w t) old r) := by
  have key : ∀ (p' : PeerSt) (b' : BackendSt) (extra : List Int) (mark : Bool), b'.rows t = b.rows t →
      (plainStep w now c t window p.flags p' b' extra mark).err = .none →
      ((plainStep w now c t window p.flags p' b' extra mark).cache.get t).length = (c.get t).length ∧
      ∀ (i : Nat) (r : ReplyRow) (old : Row), (sortedReply w t (b.rows t))[i]? = some r → (c.get t)[i]? = some old →
        ∃ new, ((plainStep w now c t window p.flags p' b' extra mark).cache.get t)[i]? = some new ∧
          (new = old ∨ new = rowAfter w (query w now p' b').1.flags (tableOf w t) old r) := by
    intro p' b' extra mark hb hk
    obtain ⟨_, _, h3, h4⟩ := plainStep_aligned w now c t window p.flags p' b' extra mark (plainStep_answered hk)
      (by rw [hb]; exact hA)
    rw [hb] at h4
    refine ⟨h3, fun i r old hi hold => ⟨_, h4 i r old hi hold, ?_⟩⟩
    split
    · exact .inr rfl
    · exact .inl rfl
  by_cases hd : lastFullOf p t > now - 60
  · have e : deltaTable w now p b c t window threshold = plainStep w now c t window p.flags p b [] false := by
      rw [deltaTable_eq]; simp only []; rw [if_pos hd]
    rw [e] at hok ⊢
    unfold stepFlags
    rw [if_pos hd]
    exact key p b [] false rfl hok
  · have hq1 := deltaTable_scan_answered hd hok
    have hlen : ¬ (c.get t).length < (b.rows t).length := by
      have := hA.len; rw [sortedReply_length] at this; omega
    have e := deltaTable_scan w now p b c t window threshold hd hq1 hlen
    simp only [] at e
    rw [e] at hok ⊢
    rw [stepFlags_due hd]
    unfold applyFlags
    by_cases hm : (scanMissing w t p.flags (query w now p b).1.flags threshold (b.rows t) (c.get t)).isEmpty = true
    · rw [if_pos hm] at hok ⊢
      exact key _ _ _ _ (query_rows w now p b true t) hok
    · rw [if_neg hm] at hok ⊢
      exact key _ _ _ _ (query_rows w now p b true t) hok

/-! ## agreement of a table with the backend -/

/-- the columns of `cols` other than the two id lists, which the comments / downtimes part of a run rebuilds -/
def notIdList (c : Column) : Bool := c.name != "comments" && c.name != "downtimes"

/-- Table `t` agrees with the backend on the columns `cols`: as many rows as the backend has objects, and the row at
    every position holds, in every column of `cols` that the backend row at the same position of the primary-key
    order delivers, what `UpdateValues` stores for the delivered value. -/
structure AgreeOn (w : World) (t : String) (cols : List Column) (backend : List ReplyRow) (cached : List Row) : Prop where
  len : cached.length = backend.length
  cells : ∀ (i : Nat) (r : ReplyRow), (sortedReply w t backend)[i]? = some r →
    ∃ row, cached[i]? = some row ∧ CellsAgree cols row r

theorem cellsAgree_sub {cols cols' : List Column} {row : Row} {r : ReplyRow} (h : CellsAgree cols row r)
    (hs : ∀ c ∈ cols', c ∈ cols) : CellsAgree cols' row r := fun col hc k j hf => h col (hs col hc) k j hf

/-- a row that differs from an agreeing row in its `comments` / `downtimes` cells only agrees on the other columns -/
theorem cellsAgree_idLists {cols : List Column} {old new : Row} {r : ReplyRow} (h : CellsAgree cols old r)
    (hn : ∀ n, n ≠ "comments" → n ≠ "downtimes" → new.cell? n = old.cell? n) :
    CellsAgree (cols.filter notIdList) new r := by
  intro col hc k j hf
  obtain ⟨hc1, hc2⟩ := List.mem_filter.1 hc
  unfold notIdList at hc2
  simp only [Bool.and_eq_true, bne_iff_ne, ne_eq] at hc2
  rw [hn col.name hc2.1 hc2.2]
  exact h col hc1 k j hf

theorem agreeOn_idLists {w : World} {t : String} {cols : List Column} {backend : List ReplyRow} {rows rows' : List Row}
    (h : AgreeOn w t cols backend rows) (hI : IdListsOnly rows rows') :
    AgreeOn w t (cols.filter notIdList) backend rows' := by
  refine ⟨hI.1.trans h.len, fun i r hi => ?_⟩
  obtain ⟨old, hold, hag⟩ := h.cells i r hi
  have hl : i < rows'.length := by rw [hI.1]; exact (List.getElem?_eq_some_iff.1 hold).1
  exact ⟨rows'[i], List.getElem?_eq_getElem hl,
    cellsAgree_idLists hag (hI.2 i old rows'[i] hold (List.getElem?_eq_getElem hl))⟩

/-- the names of the dynamic columns are distinct when the names of the table's columns are -/
theorem dynamicCols_names_nodup (w : World) (flags : Nat) (t : String)
    (h : ((tableOf w t).cols.map (·.name)).Nodup) :
    ((dynamicCols w.schema flags (tableOf w t).name).map (·.name)).Nodup := by
  rw [tableOf_name]
  unfold dynamicCols
  unfold tableOf at h
  cases ht : w.schema.table? t with
  | none => simp
  | some tab =>
    rw [ht] at h
    simp only [Option.getD_some] at h ⊢
    exact List.Nodup.sublist (List.Sublist.map _ List.filter_sublist) h

/-- A reply row applied to a row that already agrees with it (on a part of the dynamic columns picked by `q`) leaves
    a row that agrees with it: what is written is the delivered value, what is not written stays. -/
theorem rowAfter_cellsAgree_filter (w : World) (flags : Nat) (tab : Table) (old : Row) (r : ReplyRow)
    (q : Column → Bool) (hnames : ((dynamicCols w.schema flags tab.name).map (·.name)).Nodup)
    (h : CellsAgree ((dynamicCols w.schema flags tab.name).filter q) old r) :
    CellsAgree ((dynamicCols w.schema flags tab.name).filter q) (rowAfter w flags tab old r) r := by
  unfold rowAfter
  cases hd : decision w flags tab old r with
  | none => exact h
  | some full =>
    simp only []
    intro col hc k j hf
    have hc' := (List.mem_filter.1 hc).1
    by_cases hw : (full || isNumericCol col) = true
    · exact updateRow_cell_written full r col k j _ old hnames hc' hw hf
    · rw [updateRow_cell_untouched full r col.name _ old (fun c' hc'' hne => .inl (by
        rw [nodup_name_eq hnames hc'' hc' hne]; simpa using hw))]
      exact h col hc k j hf

/-- Idempotence of one step: a table that is aligned with the backend and agrees with it on (a part `q` of) the
    dynamic columns in force still agrees after ANY successful hosts / services step. -/
theorem deltaTable_keeps_agreement (w : World) (now : Int) (p : PeerSt) (b : BackendSt) (c : Cache) (t : String)
    (window : Option (Int × Int)) (threshold : Int) (q : Column → Bool) (hA : Aligned w t (b.rows t) (c.get t))
    (hN : ((tableOf w t).cols.map (·.name)).Nodup)
    (hG : AgreeOn w t ((dynamicCols w.schema (stepFlags w now p b t) (tableOf w t).name).filter q) (b.rows t) (c.get t))
    (hok : (deltaTable w now p b c t window threshold).err = .none) :
    AgreeOn w t ((dynamicCols w.schema (stepFlags w now p b t) (tableOf w t).name).filter q) (b.rows t)
      ((deltaTable w now p b c t window threshold).cache.get t) := by
  obtain ⟨hl, hrows⟩ := deltaTable_rows_aligned w now p b c t window threshold hA hok
  refine ⟨hl.trans hG.len, fun i r hi => ?_⟩
  obtain ⟨old, hold, hag⟩ := hG.cells i r hi
  obtain ⟨new, hn, hcase⟩ := hrows i r old hi hold
  refine ⟨new, hn, ?_⟩
  rcases hcase with rfl | rfl
  · exact hag
  · exact rowAfter_cellsAgree_filter w _ _ old r q (dynamicCols_names_nodup w _ t hN) hag

/-! ## alignment through a whole run -/

theorem runHosts_aligned (w : World) (now : Int) (p : PeerSt) (b : BackendSt) (c : Cache) (fromT : Int)
    (hK : KeyStatic (tableOf w "hosts")) (hA : Aligned w "hosts" (b.rows "hosts") (c.get "hosts"))
    (h1 : (runHosts w now p b c fromT).err = .none) :
    Aligned w "hosts" (b.rows "hosts") ((runHosts w now p b c fromT).cache.get "hosts") := by
  have hA0 : Aligned w "hosts" ((runStatus w now p b c).b.rows "hosts") ((runStatus w now p b c).cache.get "hosts") := by
    rw [runStatus_get _ _ _ _ _ _ (.inl rfl), rows_of_tables (runStatus_tables ..)]; exact hA
  unfold runHosts at h1 ⊢
  rw [winStep_eq] at h1 ⊢
  have := aligned_step w now _ _ _ "hosts" _ _ hK hA0 h1
  rwa [rows_of_tables (deltaTable_tables ..), rows_of_tables (runStatus_tables ..)] at this

theorem runServices_aligned (w : World) (now : Int) (p : PeerSt) (b : BackendSt) (c : Cache) (fromT : Int)
    (hK : KeyStatic (tableOf w "services")) (hA : Aligned w "services" (b.rows "services") (c.get "services"))
    (h2 : (runServices w now p b c fromT).err = .none) :
    Aligned w "services" (b.rows "services") ((runServices w now p b c fromT).cache.get "services") := by
  have hA1 : Aligned w "services" ((runHosts w now p b c fromT).b.rows "services")
      ((runHosts w now p b c fromT).cache.get "services") := by
    rw [runHosts_get_services, rows_of_tables (runHosts_tables ..)]; exact hA
  unfold runServices at h2 ⊢
  rw [winStep_eq] at h2 ⊢
  have := aligned_step w now _ _ _ "services" _ _ hK hA1 h2
  rwa [rows_of_tables (deltaTable_tables ..), rows_of_tables (runHosts_tables ..)] at this

/-- the services table at the start of the services step is the one the run started with, still aligned -/
theorem runHosts_services_aligned (w : World) (now : Int) (p : PeerSt) (b : BackendSt) (c : Cache) (fromT : Int)
    (hA : Aligned w "services" (b.rows "services") (c.get "services")) :
    Aligned w "services" ((runHosts w now p b c fromT).b.rows "services")
      ((runHosts w now p b c fromT).cache.get "services") := by
  rw [runHosts_get_services, rows_of_tables (runHosts_tables ..)]; exact hA

/-- the hosts table at the start of the hosts step is the one the run started with, still aligned -/
theorem runStatus_hosts_aligned (w : World) (now : Int) (p : PeerSt) (b : BackendSt) (c : Cache)
    (hA : Aligned w "hosts" (b.rows "hosts") (c.get "hosts")) :
    Aligned w "hosts" ((runStatus w now p b c).b.rows "hosts") ((runStatus w now p b c).cache.get "hosts") := by
  rw [runStatus_get _ _ _ _ _ _ (.inl rfl), rows_of_tables (runStatus_tables ..)]; exact hA

/-- A whole successful `UpdateDelta` run keeps the pairing invariant of the hosts and of the services table, and the
    backend's objects are what they were. -/
theorem aligned_run (w : World) (now : Int) (p : PeerSt) (b : BackendSt) (c : Cache) (fromT : Int) (t : String)
    (ht : t = "hosts" ∨ t = "services") (hK : KeyStatic (tableOf w t)) (hL : IdListsNotKey (tableOf w t))
    (hA : Aligned w t (b.rows t) (c.get t)) (hok : (updateDelta w now p b c fromT).err = .none) :
    (updateDelta w now p b c fromT).b.rows t = b.rows t ∧
    Aligned w t ((updateDelta w now p b c fromT).b.rows t) ((updateDelta w now p b c fromT).cache.get t) := by
  obtain ⟨h0, h1, h2, _⟩ := updateDelta_ok_parts hok
  obtain ⟨ec, _⟩ := updateDelta_cache h0 h1 h2
  have hrows := rows_of_tables (updateDelta_tables w now p b c fromT) t
  rw [hrows, ec]
  refine ⟨rfl, ?_⟩
  suffices hS : Aligned w t (b.rows t) ((runServices w now p b c fromT).cache.get t) from
    aligned_of_keys_eq hS (idListsOnly_keys hL (runEntries_idLists w now p b c fromT t ht))
  rcases ht with rfl | rfl
  · rw [runServices_get_hosts]
    exact runHosts_aligned w now p b c fromT hK hA h1
  · exact runServices_aligned w now p b c fromT hK hA h2

/-! ## agreement through a whole run -/

/-- the dynamic columns of table `t` under `flags`, without the two id lists -/
def runCols (w : World) (flags : Nat) (t : String) : List Column :=
  (dynamicCols w.schema flags (tableOf w t).name).filter notIdList

/-- the flags in force when the hosts reply of a run is applied -/
def hostsFlags (w : World) (now : Int) (p : PeerSt) (b : BackendSt) (c : Cache) : Nat :=
  stepFlags w now (runStatus w now p b c).p (runStatus w now p b c).b "hosts"

/-- the flags in force when the services reply of a run is applied -/
def servicesFlags (w : World) (now : Int) (p : PeerSt) (b : BackendSt) (c : Cache) (fromT : Int) : Nat :=
  stepFlags w now (runHosts w now p b c fromT).p (runHosts w now p b c fromT).b "services"

theorem runCols_filter (w : World) (flags : Nat) (t : String) : (runCols w flags t).filter notIdList = runCols w flags t := by
  unfold runCols
  rw [List.filter_filter]
  simp only [Bool.and_self]

theorem agreeOn_of_cells {w : World} {t : String} {cols : List Column} {b b' : BackendSt} {rows : List Row}
    (hb : b'.tables = b.tables) (hlen : rows.length = (b.rows t).length)
    (hc : ∀ (i : Nat) (r : ReplyRow), (sortedReply w t (b'.rows t))[i]? = some r →
      ∃ new, rows[i]? = some new ∧ CellsAgree cols new r) : AgreeOn w t cols (b.rows t) rows := by
  rw [rows_of_tables hb] at hc
  exact ⟨hlen, hc⟩

theorem agreeOn_of_tables {w : World} {t : String} {cols : List Column} {b b' : BackendSt} {rows : List Row}
    (h : AgreeOn w t cols (b.rows t) rows) (hb : b'.tables = b.tables) : AgreeOn w t cols (b'.rows t) rows := by
  rw [rows_of_tables hb]; exact h

theorem agreeOn_sub {w : World} {t : String} {cols cols' : List Column} {backend : List ReplyRow} {rows : List Row}
    (h : AgreeOn w t cols backend rows) (hs : ∀ c ∈ cols', c ∈ cols) : AgreeOn w t cols' backend rows :=
  ⟨h.len, fun i r hi => by
    obtain ⟨row, h1, h2⟩ := h.cells i r hi
    exact ⟨row, h1, cellsAgree_sub h2 hs⟩⟩

/-- what the hosts step made agree survives the rest of the run, except for the two id lists -/
theorem run_agree_hosts {w : World} {now : Int} {p : PeerSt} {b : BackendSt} {c : Cache} {fromT : Int} {cols : List Column}
    (h0 : (runStatus w now p b c).err = .none) (h1 : (runHosts w now p b c fromT).err = .none)
    (h2 : (runServices w now p b c fromT).err = .none)
    (hG : AgreeOn w "hosts" cols (b.rows "hosts") ((runHosts w now p b c fromT).cache.get "hosts")) :
    AgreeOn w "hosts" (cols.filter notIdList) (b.rows "hosts") ((updateDelta w now p b c fromT).cache.get "hosts") := by
  rw [(updateDelta_cache h0 h1 h2).1]
  rw [← runServices_get_hosts] at hG
  exact agreeOn_idLists hG (runEntries_idLists w now p b c fromT "hosts" (.inl rfl))

/-- what the services step made agree survives the rest of the run, except for the two id lists -/
theorem run_agree_services {w : World} {now : Int} {p : PeerSt} {b : BackendSt} {c : Cache} {fromT : Int}
    {cols : List Column} (h0 : (runStatus w now p b c).err = .none) (h1 : (runHosts w now p b c fromT).err = .none)
    (h2 : (runServices w now p b c fromT).err = .none)
    (hG : AgreeOn w "services" cols (b.rows "services") ((runServices w now p b c fromT).cache.get "services")) :
    AgreeOn w "services" (cols.filter notIdList) (b.rows "services")
      ((updateDelta w now p b c fromT).cache.get "services") := by
  rw [(updateDelta_cache h0 h1 h2).1]
  exact agreeOn_idLists hG (runEntries_idLists w now p b c fromT "services" (.inr rfl))

/-- the hosts step of a successful run keeps an agreement that holds at the start of the run -/
theorem runHosts_keeps (w : World) (now : Int) (p : PeerSt) (b : BackendSt) (c : Cache) (fromT : Int)
    (hA : Aligned w "hosts" (b.rows "hosts") (c.get "hosts")) (hN : ((tableOf w "hosts").cols.map (·.name)).Nodup)
    (hG : AgreeOn w "hosts" (runCols w (hostsFlags w now p b c) "hosts") (b.rows "hosts") (c.get "hosts"))
    (h1 : (runHosts w now p b c fromT).err = .none) :
    AgreeOn w "hosts" (runCols w (hostsFlags w now p b c) "hosts") (b.rows "hosts")
      ((runHosts w now p b c fromT).cache.get "hosts") := by
  have hA0 := runStatus_hosts_aligned w now p b c hA
  have hG0 : AgreeOn w "hosts" (runCols w (hostsFlags w now p b c) "hosts") ((runStatus w now p b c).b.rows "hosts")
      ((runStatus w now p b c).cache.get "hosts") := by
    rw [runStatus_get _ _ _ _ _ _ (.inl rfl), rows_of_tables (runStatus_tables ..)]; exact hG
  unfold runHosts at h1 ⊢
  rw [winStep_eq] at h1 ⊢
  have := deltaTable_keeps_agreement w now _ _ _ "hosts" _ _ notIdList hA0 hN hG0 h1
  rwa [rows_of_tables (runStatus_tables ..)] at this

/-- the services step of a successful run keeps an agreement that holds at the start of the run -/
theorem runServices_keeps (w : World) (now : Int) (p : PeerSt) (b : BackendSt) (c : Cache) (fromT : Int)
    (hA : Aligned w "services" (b.rows "services") (c.get "services"))
    (hN : ((tableOf w "services").cols.map (·.name)).Nodup)
    (hG : AgreeOn w "services" (runCols w (servicesFlags w now p b c fromT) "services") (b.rows "services")
      (c.get "services"))
    (h2 : (runServices w now p b c fromT).err = .none) :
    AgreeOn w "services" (runCols w (servicesFlags w now p b c fromT) "services") (b.rows "services")
      ((runServices w now p b c fromT).cache.get "services") := by
  have hA1 := runHosts_services_aligned w now p b c fromT hA
  have hG1 : AgreeOn w "services" (runCols w (servicesFlags w now p b c fromT) "services")
      ((runHosts w now p b c fromT).b.rows "services") ((runHosts w now p b c fromT).cache.get "services") := by
    rw [runHosts_get_services, rows_of_tables (runHosts_tables ..)]; exact hG
  unfold runServices at h2 ⊢
  rw [winStep_eq] at h2 ⊢
  have := deltaTable_keeps_agreement w now _ _ _ "services" _ _ notIdList hA1 hN hG1 h2
  rwa [rows_of_tables (runHosts_tables ..)] at this

/-! ## a scanning step with the cap of the timestamp filter -/

/-- the `last_check` values the delta request of a scanning step asks for: the scan's list, cut to its first 149
    values when the timestamp filter would have more than 150 lines -/
def stepExtra (w : World) (now : Int) (p : PeerSt) (b : BackendSt) (c : Cache) (t : String) (threshold : Int) : List Int :=
  if tsFilterLen (stepMissing w now p b c t threshold) > 150 then (stepMissing w now p b c t threshold).take 149
  else stepMissing w now p b c t threshold

/-- the backend rows the delta request of a scanning step delivers, the cap taken into account -/
def deliveredCap (w : World) (now : Int) (p : PeerSt) (b : BackendSt) (c : Cache) (t : String)
    (window : Option (Int × Int)) (threshold : Int) (r : ReplyRow) : Bool :=
  windowHit (tsColumn w p.flags) window (stepExecuting w p.flags) r ||
    (stepExtra w now p b c t threshold).contains (replyInt r "last_check")

/-- the time of the last full scan is set -/
def markFull (t : String) (now : Int) (p : PeerSt) : PeerSt :=
  if t == "hosts" then { p with lastFullHostUpdate := now } else { p with lastFullServiceUpdate := now }

theorem stepExtra_of_under_cap {w : World} {now : Int} {p : PeerSt} {b : BackendSt} {c : Cache} {t : String}
    {threshold : Int} (h : tsFilterLen (stepMissing w now p b c t threshold) ≤ 150) :
    stepExtra w now p b c t threshold = stepMissing w now p b c t threshold := by
  unfold stepExtra; rw [if_neg (by omega)]

/-- the first listed value is always asked for -/
theorem head_mem_stepExtra {w : World} {now : Int} {p : PeerSt} {b : BackendSt} {c : Cache} {t : String}
    {threshold : Int} {v : Int} {rest : List Int} (h : stepMissing w now p b c t threshold = v :: rest) :
    v ∈ stepExtra w now p b c t threshold := by
  unfold stepExtra
  rw [h]
  split
  · simp
  · simp

theorem stepExtra_sub {w : World} {now : Int} {p : PeerSt} {b : BackendSt} {c : Cache} {t : String}
    {threshold : Int} {v : Int} (h : v ∈ stepExtra w now p b c t threshold) : v ∈ stepMissing w now p b c t threshold := by
  unfold stepExtra at h
  split at h
  · exact List.mem_of_mem_take h
  · exact h

/-- the scanning step is one delta request with the extra values `stepExtra`, marking the scan when it listed something -/
theorem deltaTable_scan_eq (w : World) (now : Int) (p : PeerSt) (b : BackendSt) (c : Cache) (t : String)
    (window : Option (Int × Int)) (threshold : Int)
    (hdue : ¬ lastFullOf p t > now - 60) (hq : (query w now p b).2.2 = none)
    (hlen : ¬ (c.get t).length < (b.rows t).length) :
    deltaTable w now p b c t window threshold =
      plainStep w now c t window p.flags (query w now p b).1 (query w now p b).2.1 (stepExtra w now p b c t threshold)
        (!(stepMissing w now p b c t threshold).isEmpty) := by
  rw [deltaTable_scan w now p b c t window threshold hdue hq hlen]
  simp only []
  unfold stepExtra stepMissing
  by_cases hm : (scanMissing w t p.flags (query w now p b).1.flags threshold (b.rows t) (c.get t)).isEmpty = true
  · rw [if_pos hm]
    have he := List.isEmpty_iff.1 hm
    rw [he]
    simp [tsFilterLen, tsBlocks]
  · rw [if_neg hm]
    have : (scanMissing w t p.flags (query w now p b).1.flags threshold (b.rows t) (c.get t)).isEmpty = false := by
      simpa using hm
    rw [this]
    rfl

/-- A hosts / services step whose full scan is due and both of whose requests are answered, against an aligned table
    — the cap reached or not: the step succeeds, the backend and the peer afterwards are those after the two requests
    (the scan time set when the scan listed something), and exactly the positions of the rows delivered under the cap
    are rewritten, each from the backend row of the same object. -/
theorem capStep_rows (w : World) (now : Int) (p : PeerSt) (b : BackendSt) (c : Cache) (t : String)
    (window : Option (Int × Int)) (threshold : Int)
    (hA : Aligned w t (b.rows t) (c.get t))
    (hdue : ¬ lastFullOf p t > now - 60) (hq1 : (query w now p b).2.2 = none)
    (hq2 : (query w now (query w now p b).1 (query w now p b).2.1).2.2 = none) :
    (deltaTable w now p b c t window threshold).err = .none ∧
    (deltaTable w now p b c t window threshold).b = (query w now (query w now p b).1 (query w now p b).2.1).2.1 ∧
    (deltaTable w now p b c t window threshold).p =
      (if (stepMissing w now p b c t threshold).isEmpty then (query w now (query w now p b).1 (query w now p b).2.1).1
       else markFull t now (query w now (query w now p b).1 (query w now p b).2.1).1) ∧
    ((deltaTable w now p b c t window threshold).cache.get t).length = (c.get t).length ∧
    ∀ (i : Nat) (r : ReplyRow) (old : Row), (sortedReply w t (b.rows t))[i]? = some r → (c.get t)[i]? = some old →
      ((deltaTable w now p b c t window threshold).cache.get t)[i]? =
        some (if deliveredCap w now p b c t window threshold r
          then rowAfter w (applyFlags w now p b) (tableOf w t) old r else old) := by
  have hlen : ¬ (c.get t).length < (b.rows t).length := by
    have := hA.len; rw [sortedReply_length] at this; omega
  have hrows : (query w now p b).2.1.rows t = b.rows t := query_rows w now p b true t
  have hA' : Aligned w t ((query w now p b).2.1.rows t) (c.get t) := by rw [hrows]; exact hA
  have e := deltaTable_scan_eq w now p b c t window threshold hdue hq1 hlen
  obtain ⟨a1, _, a3, a4⟩ := plainStep_aligned w now c t window p.flags (query w now p b).1 (query w now p b).2.1
    (stepExtra w now p b c t threshold) (!(stepMissing w now p b c t threshold).isEmpty) hq2 hA'
  have hpe := plainStep_eq_ok w now c t window p.flags (query w now p b).1 (query w now p b).2.1
    (stepExtra w now p b c t threshold) (!(stepMissing w now p b c t threshold).isEmpty) hq2
  rw [hrows] at a4
  rw [e]
  refine ⟨a1, ?_, ?_, a3, a4⟩
  · rw [hpe]; split <;> rfl
  · rw [hpe] at a1 ⊢
    split
    · rename_i hnone; rw [hnone] at a1; cases a1
    · cases hm : (stepMissing w now p b c t threshold).isEmpty <;> simp [markFull]

/-! ## the measure: rows that differ from the backend in a scan column -/

/-- the number of positions at which the cached row differs from the backend row of the same position in one of the
    scan columns (`checkChangedIntValues` of the full scan) -/
def scanDiff (tab : Table) (cols : List String) (sorted : List ReplyRow) (cached : List Row) : Nat :=
  (sorted.zip cached).countP fun x => scanChanged tab cols x.2 x.1

theorem countP_le_pointwise {α β : Type} (p : α → Bool) (q : β → Bool) :
    ∀ (l : List α) (l' : List β), l.length = l'.length →
      (∀ (i : Nat) (a : α) (b : β), l[i]? = some a → l'[i]? = some b → q b = true → p a = true) →
      l'.countP q ≤ l.countP p
  | [], [], _, _ => Nat.le_refl _
  | [], _ :: _, hl, _ => by simp at hl
  | _ :: _, [], hl, _ => by simp at hl
  | a :: l, b :: l', hl, h => by
    have ih := countP_le_pointwise p q l l' (by simpa using hl) (fun i a' b' ha hb => h (i + 1) a' b' ha hb)
    have h0 := h 0 a b rfl rfl
    rw [List.countP_cons, List.countP_cons]
    cases hq : q b <;> cases hp : p a <;> simp [hq, hp] at h0 ⊢ <;> omega

theorem countP_lt_pointwise {α β : Type} (p : α → Bool) (q : β → Bool) :
    ∀ (l : List α) (l' : List β), l.length = l'.length →
      (∀ (i : Nat) (a : α) (b : β), l[i]? = some a → l'[i]? = some b → q b = true → p a = true) →
      (∃ (i : Nat) (a : α) (b : β), l[i]? = some a ∧ l'[i]? = some b ∧ p a = true ∧ q b = false) →
      l'.countP q < l.countP p
  | [], _, _, _, ⟨i, a, b, ha, _⟩ => by simp at ha
  | _ :: _, [], hl, _, _ => by simp at hl
  | a :: l, b :: l', hl, h, ⟨i, a', b', ha, hb, hp, hq⟩ => by
    have hl' : l.length = l'.length := by simpa using hl
    have hrest : ∀ (i : Nat) (a' : α) (b' : β), l[i]? = some a' → l'[i]? = some b' → q b' = true → p a' = true :=
      fun i a' b' ha hb => h (i + 1) a' b' ha hb
    have h0 := h 0 a b rfl rfl
    rw [List.countP_cons, List.countP_cons]
    cases i with
    | zero =>
      simp only [List.getElem?_cons_zero, Option.some.injEq] at ha hb
      subst ha; subst hb
      have ih := countP_le_pointwise p q l l' hl' hrest
      simp [hp, hq]
      omega
    | succ i =>
      have ih := countP_lt_pointwise p q l l' hl' hrest ⟨i, a', b', by simpa using ha, by simpa using hb, hp, hq⟩
      cases hq' : q b <;> cases hp' : p a <;> simp [hq', hp'] at h0 ⊢ <;> omega

theorem zip_getElem?_some {α β : Type} {l : List α} {l' : List β} {i : Nat} {x : α × β}
    (h : (l.zip l')[i]? = some x) : l[i]? = some x.1 ∧ l'[i]? = some x.2 :=
  List.getElem?_zip_eq_some.1 h

/-- the measure does not grow when no row starts to differ -/
theorem scanDiff_le (tab : Table) (cols : List String) (sorted : List ReplyRow) (old new : List Row)
    (hlen : new.length = old.length)
    (h : ∀ (i : Nat) (r : ReplyRow) (o n : Row), sorted[i]? = some r → old[i]? = some o → new[i]? = some n →
      scanChanged tab cols n r = true → scanChanged tab cols o r = true) :
    scanDiff tab cols sorted new ≤ scanDiff tab cols sorted old := by
  unfold scanDiff
  apply countP_le_pointwise
  · simp only [List.length_zip, hlen]
  · intro i x y hx hy hq
    obtain ⟨x1, x2⟩ := zip_getElem?_some hx
    obtain ⟨y1, y2⟩ := zip_getElem?_some hy
    rw [x1] at y1
    have hxy : x.1 = y.1 := Option.some.inj y1
    rw [hxy] at x1 ⊢
    exact h i y.1 x.2 y.2 x1 x2 y2 hq

/-- the measure shrinks when moreover some differing row stops to differ -/
theorem scanDiff_lt (tab : Table) (cols : List String) (sorted : List ReplyRow) (old new : List Row)
    (hlen : new.length = old.length)
    (h : ∀ (i : Nat) (r : ReplyRow) (o n : Row), sorted[i]? = some r → old[i]? = some o → new[i]? = some n →
      scanChanged tab cols n r = true → scanChanged tab cols o r = true)
    (hex : ∃ (i : Nat) (r : ReplyRow) (o n : Row), sorted[i]? = some r ∧ old[i]? = some o ∧ new[i]? = some n ∧
      scanChanged tab cols o r = true ∧ scanChanged tab cols n r = false) :
    scanDiff tab cols sorted new < scanDiff tab cols sorted old := by
  unfold scanDiff
  apply countP_lt_pointwise
  · simp only [List.length_zip, hlen]
  · intro i x y hx hy hq
    obtain ⟨x1, x2⟩ := zip_getElem?_some hx
    obtain ⟨y1, y2⟩ := zip_getElem?_some hy
    rw [x1] at y1
    have hxy : x.1 = y.1 := Option.some.inj y1
    rw [hxy] at x1 ⊢
    exact h i y.1 x.2 y.2 x1 x2 y2 hq
  · obtain ⟨i, r, o, n, h1, h2, h3, h4, h5⟩ := hex
    exact ⟨i, (r, o), (r, n), List.getElem?_zip_eq_some.2 ⟨h1, h2⟩, List.getElem?_zip_eq_some.2 ⟨h1, h3⟩, h4, h5⟩

/-- the backend row delivers every scan column the table stores as int / int64 -/
def DeliversScan (w : World) (t : String) (cols : List String) (r : ReplyRow) : Prop :=
  ∀ n ∈ cols, ∀ col, (tableOf w t).col? n = some col → (col.dtype = .int ∨ col.dtype = .int64) →
    (r.find? (·.1 == n)).isSome = true

instance (w : World) (t : String) (cols : List String) (r : ReplyRow) : Decidable (DeliversScan w t cols r) := by
  unfold DeliversScan; infer_instance

/-- a row that a reply row addressed no longer differs from it in a scan column, when the scan columns are dynamic
    columns and the reply delivers them -/
theorem rowAfter_scan_clean {w : World} {t : String} {cols : List String} {flags : Nat} (old : Row) {r : ReplyRow}
    (hS : ScanColsDynamic w t cols flags)
    (hN : ((dynamicCols w.schema flags (tableOf w t).name).map (·.name)).Nodup) (hD : DeliversScan w t cols r) :
    scanChanged (tableOf w t) cols (rowAfter w flags (tableOf w t) old r) r = false := by
  have hI := rowAfter_intsAgree w flags (tableOf w t) old r hN
  unfold scanChanged
  rw [List.any_eq_false]
  intro n hn
  cases hcol : (tableOf w t).col? n with
  | none => simp
  | some col =>
    simp only []
    have hname := col?_name hcol
    cases hd : col.dtype <;> simp only [] <;> try (exact Bool.false_ne_true)
    · have hi := hI col (hS n hn col hcol (.inl hd)) (by rw [hname]; exact hD n hn col hcol (.inl hd))
      have := hi.1 hd
      rw [hname] at this
      simp [this]
    · have hi := hI col (hS n hn col hcol (.inr hd)) (by rw [hname]; exact hD n hn col hcol (.inr hd))
      have := hi.2 hd
      rw [hname] at this
      simp [this]

/-- Progress of ONE scanning step, the cap reached or not: no row starts to differ from the backend in a scan
    column, and when the scan lists something at least one differing row is refetched and stops to differ. -/
theorem scanDiff_capStep (w : World) (now : Int) (p : PeerSt) (b : BackendSt) (c : Cache) (t : String)
    (window : Option (Int × Int)) (threshold : Int)
    (hA : Aligned w t (b.rows t) (c.get t))
    (hdue : ¬ lastFullOf p t > now - 60) (hq1 : (query w now p b).2.2 = none)
    (hq2 : (query w now (query w now p b).1 (query w now p b).2.1).2.2 = none)
    (hS : ScanColsDynamic w t (stepScanCols w now p b) (applyFlags w now p b))
    (hN : ((tableOf w t).cols.map (·.name)).Nodup)
    (hD : ∀ r ∈ b.rows t, DeliversScan w t (stepScanCols w now p b) r) :
    scanDiff (tableOf w t) (stepScanCols w now p b) (sortedReply w t (b.rows t))
        ((deltaTable w now p b c t window threshold).cache.get t) ≤
      scanDiff (tableOf w t) (stepScanCols w now p b) (sortedReply w t (b.rows t)) (c.get t) ∧
    (stepMissing w now p b c t threshold ≠ [] →
      scanDiff (tableOf w t) (stepScanCols w now p b) (sortedReply w t (b.rows t))
          ((deltaTable w now p b c t window threshold).cache.get t) <
        scanDiff (tableOf w t) (stepScanCols w now p b) (sortedReply w t (b.rows t)) (c.get t)) := by
  obtain ⟨_, _, _, hl, hrows⟩ := capStep_rows w now p b c t window threshold hA hdue hq1 hq2
  have hNd := dynamicCols_names_nodup w (applyFlags w now p b) t hN
  have hmem : ∀ {i : Nat} {r : ReplyRow}, (sortedReply w t (b.rows t))[i]? = some r → r ∈ b.rows t :=
    fun hi => (sortedReply_perm w t (b.rows t)).mem_iff.1 (List.mem_of_getElem? hi)
  have hmono : ∀ (i : Nat) (r : ReplyRow) (o n : Row), (sortedReply w t (b.rows t))[i]? = some r → (c.get t)[i]? = some o →
      ((deltaTable w now p b c t window threshold).cache.get t)[i]? = some n →
      scanChanged (tableOf w t) (stepScanCols w now p b) n r = true →
      scanChanged (tableOf w t) (stepScanCols w now p b) o r = true := by
    intro i r o n hi ho hn hc
    rw [hrows i r o hi ho] at hn
    cases hd : deliveredCap w now p b c t window threshold r with
    | false => rw [hd, if_neg Bool.false_ne_true] at hn; cases hn; exact hc
    | true =>
      rw [hd, if_pos rfl] at hn
      cases hn
      rw [rowAfter_scan_clean o hS hNd (hD r (hmem hi))] at hc
      cases hc
  refine ⟨scanDiff_le _ _ _ _ _ hl hmono, fun hne => scanDiff_lt _ _ _ _ _ hl hmono ?_⟩
  cases hm : stepMissing w now p b c t threshold with
  | nil => exact absurd hm hne
  | cons v rest =>
    have hv := head_mem_stepExtra hm
    have hv' : v ∈ stepMissing w now p b c t threshold := by rw [hm]; exact List.mem_cons_self
    unfold stepMissing at hv'
    rw [scanMissing_mem] at hv'
    obtain ⟨x, hx, hx1, _, hx3⟩ := hv'
    obtain ⟨i, hi⟩ := List.mem_iff_getElem?.1 hx
    obtain ⟨h1, h2⟩ := zip_getElem?_some hi
    have hdel : deliveredCap w now p b c t window threshold x.1 = true := by
      unfold deliveredCap
      rw [Bool.or_eq_true]
      right
      rw [List.contains_iff_mem, hx1]
      exact hv
    refine ⟨i, x.1, x.2, _, h1, h2, hrows i x.1 x.2 h1 h2, hx3, ?_⟩
    rw [hdel]
    exact rowAfter_scan_clean x.2 hS hNd (hD x.1 (hmem h1))

/-- a descending measure reaches a state without progress: if `μ` shrinks whenever `P` holds, then `P` fails at some
    step not later than `μ 0` -/
theorem finite_descent (μ : Nat → Nat) (P : Nat → Prop)
    (hlt : ∀ k, P k → μ (k + 1) < μ k) : ∃ k, k ≤ μ 0 ∧ ¬ P k := by
  apply Classical.byContradiction
  intro hno
  have hall : ∀ k, k ≤ μ 0 → P k := fun k hk => Classical.byContradiction fun hn => hno ⟨k, hk, hn⟩
  have hdec : ∀ k, k ≤ μ 0 + 1 → μ k + k ≤ μ 0 := by
    intro k
    induction k with
    | zero => intro _; omega
    | succ k ih =>
      intro hk
      have := ih (by omega)
      have := hlt k (hall k (by omega))
      omega
  have := hdec (μ 0 + 1) (Nat.le_refl _)
  omega

/-! ## bridges for the statements of `Lmd.Props.C03Run` -/

theorem aligned_length {w : World} {t : String} {backend : List ReplyRow} {cached : List Row}
    (hA : Aligned w t backend cached) : cached.length = backend.length := by
  rw [← hA.len, sortedReply_length]

theorem runHosts_eq (w : World) (now : Int) (p : PeerSt) (b : BackendSt) (c : Cache) (fromT : Int) :
    runHosts w now p b c fromT =
      deltaTable w now (runStatus w now p b c).p (runStatus w now p b c).b (runStatus w now p b c).cache "hosts"
        (runWindow w now fromT) (runThreshold w fromT) := by
  unfold runHosts; rw [winStep_eq]

theorem runServices_eq (w : World) (now : Int) (p : PeerSt) (b : BackendSt) (c : Cache) (fromT : Int) :
    runServices w now p b c fromT =
      deltaTable w now (runHosts w now p b c fromT).p (runHosts w now p b c fromT).b (runHosts w now p b c fromT).cache
        "services" (runWindow w now fromT) (runThreshold w fromT) := by
  unfold runServices; rw [winStep_eq]

/-- the conclusion of the one-step quiescence theorem, as an agreement of the table with the backend -/
theorem agreeOn_of_quiescent {w : World} {now : Int} {p : PeerSt} {b : BackendSt} {c : Cache} {t : String}
    {window : Option (Int × Int)} {threshold : Int} (hA : Aligned w t (b.rows t) (c.get t))
    (hdue : ¬ lastFullOf p t > now - 60)
    (h : (deltaTable w now p b c t window threshold).err = .none ∧
      ((deltaTable w now p b c t window threshold).cache.get t).length = (c.get t).length ∧
      ∀ (i : Nat) (r : ReplyRow), (sortedReply w t (b.rows t))[i]? = some r →
        ∃ new, ((deltaTable w now p b c t window threshold).cache.get t)[i]? = some new ∧
          CellsAgree (dynamicCols w.schema (applyFlags w now p b) (tableOf w t).name) new r) :
    AgreeOn w t (dynamicCols w.schema (stepFlags w now p b t) (tableOf w t).name) (b.rows t)
      ((deltaTable w now p b c t window threshold).cache.get t) := by
  rw [stepFlags_due hdue]
  exact ⟨h.2.1.trans (aligned_length hA), h.2.2⟩

/-- the status refresh, the hosts and the services step leave every other table alone -/
theorem runServices_get_other (w : World) (now : Int) (p : PeerSt) (b : BackendSt) (c : Cache) (fromT : Int) (t : String)
    (h0 : t ≠ "status") (h1 : t ≠ "hosts") (h2 : t ≠ "services") :
    (runServices w now p b c fromT).cache.get t = c.get t :=
  (winStep_get_other _ _ _ _ _ _ _ _ h2).trans
    ((winStep_get_other _ _ _ _ _ _ _ _ h1).trans (updateFullTable_get_other _ _ _ _ _ _ _ h0))

/-- alignment after the first three parts of a run, whatever the comments / downtimes part does -/
theorem aligned_run_parts (w : World) (now : Int) (p : PeerSt) (b : BackendSt) (c : Cache) (fromT : Int) (t : String)
    (ht : t = "hosts" ∨ t = "services") (hK : KeyStatic (tableOf w t)) (hL : IdListsNotKey (tableOf w t))
    (hA : Aligned w t (b.rows t) (c.get t)) (h0 : (runStatus w now p b c).err = .none)
    (h1 : (runHosts w now p b c fromT).err = .none) (h2 : (runServices w now p b c fromT).err = .none) :
    Aligned w t (b.rows t) ((updateDelta w now p b c fromT).cache.get t) := by
  rw [(updateDelta_cache h0 h1 h2).1]
  suffices hS : Aligned w t (b.rows t) ((runServices w now p b c fromT).cache.get t) from
    aligned_of_keys_eq hS (idListsOnly_keys hL (runEntries_idLists w now p b c fromT t ht))
  rcases ht with rfl | rfl
  · rw [runServices_get_hosts]
    exact runHosts_aligned w now p b c fromT hK hA h1
  · exact runServices_aligned w now p b c fromT hK hA h2

/-- the scan columns never include the two id lists -/
theorem idLists_not_scanCols (x y : Bool) : "comments" ∉ scanColumns x y ∧ "downtimes" ∉ scanColumns x y := by
  cases x <;> cases y <;> decide

theorem scanChanged_congr (tab : Table) (cols : List String) (new old : Row) (r : ReplyRow)
    (h : ∀ n ∈ cols, new.cell? n = old.cell? n) : scanChanged tab cols new r = scanChanged tab cols old r := by
  have hint : ∀ n ∈ cols, new.int n = old.int n := fun n hn => by unfold Row.int; rw [h n hn]
  unfold scanChanged
  rw [Bool.eq_iff_iff, List.any_eq_true, List.any_eq_true]
  constructor
  · rintro ⟨n, hn, hc⟩; exact ⟨n, hn, by rw [hint n hn] at hc; exact hc⟩
  · rintro ⟨n, hn, hc⟩; exact ⟨n, hn, by rw [hint n hn]; exact hc⟩

/-- rewriting the id lists does not change the measure -/
theorem scanDiff_idLists_le (tab : Table) (cols : List String) (sorted : List ReplyRow) {rows rows' : List Row}
    (hI : IdListsOnly rows rows') (hc : "comments" ∉ cols) (hd : "downtimes" ∉ cols) :
    scanDiff tab cols sorted rows' ≤ scanDiff tab cols sorted rows := by
  apply scanDiff_le _ _ _ _ _ hI.1
  intro i r o n _ ho hn hch
  rw [scanChanged_congr tab cols n o r (fun m hm => hI.2 i o n ho hn m (fun e => hc (e ▸ hm)) (fun e => hd (e ▸ hm)))] at hch
  exact hch

/-- the scan lists nothing exactly when no row before the threshold differs in a scan column -/
theorem stepMissing_nil_iff (w : World) (now : Int) (p : PeerSt) (b : BackendSt) (c : Cache) (t : String) (threshold : Int) :
    stepMissing w now p b c t threshold = [] ↔
      ∀ x ∈ (sortedReply w t (b.rows t)).zip (c.get t), replyInt x.1 "last_check" < threshold →
        scanChanged (tableOf w t) (stepScanCols w now p b) x.2 x.1 = false := by
  rw [List.eq_nil_iff_forall_not_mem]
  unfold stepMissing
  constructor
  · intro h x hx hlt
    cases hs : scanChanged (tableOf w t) (stepScanCols w now p b) x.2 x.1 with
    | false => rfl
    | true => exact absurd ((scanMissing_mem ..).2 ⟨x, hx, rfl, hlt, hs⟩) (h _)
  · intro h v hv
    obtain ⟨x, hx, hx1, hlt, hs⟩ := (scanMissing_mem ..).1 hv
    have := h x hx (by rw [hx1]; exact hlt)
    unfold stepScanCols at this
    rw [hs] at this
    cases this

/-! ## runs against a healthy peer and backend (for concrete instances) -/

/-- the peer talks to its own address and the backend answers every request -/
def Healthy (p : PeerSt) (b : BackendSt) : Prop :=
  p.addr = .self ∧ 0 < p.sources.length ∧ b.mode = "ok" ∧ b.failAfter = none

theorem query_healthy (w : World) (now : Int) {p : PeerSt} {b : BackendSt} (h : Healthy p b) (handled : Bool) :
    query w now p b handled = (p, { b with hits := b.hits + 1 }, none) := by
  obtain ⟨h1, h2, h3, h4⟩ := h
  have hconn : query.connect w now b p.sources.length false p = (p, true) := by
    obtain ⟨k, hk⟩ : ∃ k, p.sources.length = k + 1 := ⟨p.sources.length - 1, by omega⟩
    rw [hk]
    unfold query.connect
    simp [h1, h3]
  have hhit : b.hit = ({ b with hits := b.hits + 1 }, true) := by
    unfold BackendSt.hit
    simp [h3, h4]
  rw [query_eq]
  simp only [hconn, hhit]
  simp

theorem healthy_hit {p : PeerSt} {b : BackendSt} (h : Healthy p b) (n : Nat) : Healthy p { b with hits := n } := h

theorem healthy_mark {p : PeerSt} {b : BackendSt} (h : Healthy p b) (t : String) (now : Int) : Healthy (markFull t now p) b := by
  unfold markFull; split <;> exact h

/-- against a healthy peer and backend and an aligned table every hosts / services step succeeds, and leaves a
    healthy peer and backend with the same data, status and flags -/
theorem deltaTable_healthy (w : World) (now : Int) (p : PeerSt) (b : BackendSt) (c : Cache) (t : String)
    (window : Option (Int × Int)) (threshold : Int) (hH : Healthy p b) (hA : Aligned w t (b.rows t) (c.get t)) :
    (deltaTable w now p b c t window threshold).err = .none ∧
    Healthy (deltaTable w now p b c t window threshold).p (deltaTable w now p b c t window threshold).b ∧
    (deltaTable w now p b c t window threshold).p.cache = p.cache ∧
    (deltaTable w now p b c t window threshold).p.flags = p.flags := by
  by_cases hd : lastFullOf p t > now - 60
  · have e : deltaTable w now p b c t window threshold = plainStep w now c t window p.flags p b [] false := by
      rw [deltaTable_eq]; simp only []; rw [if_pos hd]
    have hq : (query w now p b).2.2 = none := by rw [query_healthy w now hH]
    obtain ⟨a1, _⟩ := plainStep_aligned w now c t window p.flags p b [] false hq hA
    have hpe := plainStep_eq_ok w now c t window p.flags p b [] false hq
    rw [e]
    refine ⟨a1, ?_⟩
    rw [hpe] at a1 ⊢
    split
    · rename_i hn; rw [hn] at a1; cases a1
    · simp only [Bool.false_eq_true, if_false]
      rw [query_healthy w now hH]
      exact ⟨healthy_hit hH _, rfl, rfl⟩
  · have hq1 : (query w now p b).2.2 = none := by rw [query_healthy w now hH]
    have hH1 : Healthy (query w now p b).1 (query w now p b).2.1 := by
      rw [query_healthy w now hH]; exact healthy_hit hH _
    have hq2 : (query w now (query w now p b).1 (query w now p b).2.1).2.2 = none := by rw [query_healthy w now hH1]
    obtain ⟨a1, a2, a3, _⟩ := capStep_rows w now p b c t window threshold hA hd hq1 hq2
    refine ⟨a1, ?_⟩
    rw [a2, a3, query_healthy w now hH1, query_healthy w now hH]
    split
    · exact ⟨healthy_hit hH _, rfl, rfl⟩
    · refine ⟨healthy_mark (healthy_hit hH _) t now, ?_, ?_⟩
      · unfold markFull; split <;> rfl
      · unfold markFull; split <;> rfl

/-- a comments / downtimes part that finds both tables empty on both sides changes nothing -/
theorem entries_nothing (w : World) (now : Int) :
    ∀ (ts : List String) (p : PeerSt) (b : BackendSt) (c : Cache), Healthy p b →
      (∀ t ∈ ts, c.get t = [] ∧ b.rows t = []) →
      (updateDelta.entries w now ts p b c).err = .none ∧ (updateDelta.entries w now ts p b c).p = p ∧
        (updateDelta.entries w now ts p b c).cache = c
  | [], p, b, c, _, _ => by unfold updateDelta.entries; exact ⟨rfl, rfl, rfl⟩
  | t :: ts, p, b, c, hH, hc => by
    obtain ⟨h1, h2⟩ := hc t List.mem_cons_self
    have hrows : ({ b with hits := b.hits + 1 } : BackendSt).rows t = [] := h2
    unfold updateDelta.entries
    simp only [query_healthy w now hH, h1, hrows]
    have : maxIdOrSizeChanged [] [] = false := by decide
    simp only [this, Bool.not_false, if_true]
    exact entries_nothing w now ts p _ c (healthy_hit hH _) (fun t' ht' => hc t' (List.mem_cons_of_mem _ ht'))

/-- A run against a healthy peer (holding data) and backend succeeds when the status table has no dynamic columns,
    hosts and services are aligned, and there are no comments and downtimes on either side. -/
theorem updateDelta_succeeds (w : World) (now : Int) (p : PeerSt) (b : BackendSt) (c : Cache) (fromT : Int)
    (hH : Healthy p b) (hcache : p.cache.isSome = true)
    (hst : (dynamicCols w.schema p.flags "status").isEmpty = true)
    (hAh : Aligned w "hosts" (b.rows "hosts") (c.get "hosts"))
    (hAs : Aligned w "services" (b.rows "services") (c.get "services"))
    (he : ∀ t ∈ ["comments", "downtimes"], c.get t = [] ∧ b.rows t = []) :
    (updateDelta w now p b c fromT).err = .none := by
  have e0 : runStatus w now p b c = { p := p, b := b, cache := c, err := .none } := by
    unfold runStatus; rw [updateFullTable_eq, if_pos hst]
  have h0 : (runStatus w now p b c).err = .none := by rw [e0]
  have hH0 : Healthy (runStatus w now p b c).p (runStatus w now p b c).b := by rw [e0]; exact hH
  obtain ⟨h1, hH1, hc1, _⟩ := deltaTable_healthy w now _ _ _ "hosts" (runWindow w now fromT) (runThreshold w fromT) hH0
    (runStatus_hosts_aligned w now p b c hAh)
  rw [← runHosts_eq] at h1 hH1 hc1
  obtain ⟨h2, hH2, hc2, _⟩ := deltaTable_healthy w now _ _ _ "services" (runWindow w now fromT) (runThreshold w fromT) hH1
    (runHosts_services_aligned w now p b c fromT hAs)
  rw [← runServices_eq] at h2 hH2 hc2
  have he2 : ∀ t ∈ ["comments", "downtimes"], (runServices w now p b c fromT).cache.get t = [] ∧
      (runServices w now p b c fromT).b.rows t = [] := by
    intro t ht
    have hne : t ≠ "status" ∧ t ≠ "hosts" ∧ t ≠ "services" := by
      simp only [List.mem_cons, List.not_mem_nil, or_false] at ht
      rcases ht with rfl | rfl <;> decide
    rw [runServices_get_other _ _ _ _ _ _ _ hne.1 hne.2.1 hne.2.2, rows_of_tables (runServices_tables ..)]
    exact he t ht
  obtain ⟨h3, hp3, _⟩ := entries_nothing w now _ _ _ (runServices w now p b c fromT).cache hH2 he2
  have hsome : (runEntries w now p b c fromT).p.cache.isNone = false := by
    unfold runEntries
    rw [hp3, hc2, hc1, e0]
    cases hx : p.cache with
    | none => rw [hx] at hcache; cases hcache
    | some _ => rfl
  rw [updateDelta_parts]
  simp only [h0, h1, h2]
  unfold runEntries at hsome ⊢
  simp only [h3, hsome]
  rfl

/-- under the assumptions of `updateDelta_succeeds` the comments and downtimes tables stay empty -/
theorem updateDelta_entries_empty (w : World) (now : Int) (p : PeerSt) (b : BackendSt) (c : Cache) (fromT : Int)
    (hH : Healthy p b) (hst : (dynamicCols w.schema p.flags "status").isEmpty = true)
    (hAh : Aligned w "hosts" (b.rows "hosts") (c.get "hosts"))
    (hAs : Aligned w "services" (b.rows "services") (c.get "services"))
    (he : ∀ t ∈ ["comments", "downtimes"], c.get t = [] ∧ b.rows t = []) :
    ∀ t ∈ ["comments", "downtimes"], (updateDelta w now p b c fromT).cache.get t = [] := by
  have e0 : runStatus w now p b c = { p := p, b := b, cache := c, err := .none } := by
    unfold runStatus; rw [updateFullTable_eq, if_pos hst]
  have h0 : (runStatus w now p b c).err = .none := by rw [e0]
  have hH0 : Healthy (runStatus w now p b c).p (runStatus w now p b c).b := by rw [e0]; exact hH
  obtain ⟨h1, hH1, _⟩ := deltaTable_healthy w now _ _ _ "hosts" (runWindow w now fromT) (runThreshold w fromT) hH0
    (runStatus_hosts_aligned w now p b c hAh)
  rw [← runHosts_eq] at h1 hH1
  obtain ⟨h2, hH2, _⟩ := deltaTable_healthy w now _ _ _ "services" (runWindow w now fromT) (runThreshold w fromT) hH1
    (runHosts_services_aligned w now p b c fromT hAs)
  rw [← runServices_eq] at h2 hH2
  have hget : ∀ t ∈ ["comments", "downtimes"], (runServices w now p b c fromT).cache.get t = c.get t := by
    intro t ht
    have hne : t ≠ "status" ∧ t ≠ "hosts" ∧ t ≠ "services" := by
      simp only [List.mem_cons, List.not_mem_nil, or_false] at ht
      rcases ht with rfl | rfl <;> decide
    exact runServices_get_other _ _ _ _ _ _ _ hne.1 hne.2.1 hne.2.2
  have he2 : ∀ t ∈ ["comments", "downtimes"], (runServices w now p b c fromT).cache.get t = [] ∧
      (runServices w now p b c fromT).b.rows t = [] := fun t ht => by
    rw [hget t ht, rows_of_tables (runServices_tables ..)]; exact he t ht
  obtain ⟨_, _, hc3⟩ := entries_nothing w now _ _ _ (runServices w now p b c fromT).cache hH2 he2
  intro t ht
  rw [(updateDelta_cache h0 h1 h2).1]
  unfold runEntries
  rw [hc3, hget t ht]
  exact (he t ht).1

theorem stepFlags_healthy (w : World) (now : Int) {p : PeerSt} {b : BackendSt} (h : Healthy p b) (t : String) :
    stepFlags w now p b t = p.flags := by
  have h1 : Healthy (query w now p b).1 (query w now p b).2.1 := by
    rw [query_healthy w now h]; exact healthy_hit h _
  unfold stepFlags applyFlags
  split
  · rw [query_healthy w now h]
  · rw [query_healthy w now h1, query_healthy w now h]

/-- against a healthy peer and backend the flags stay what they are through the hosts and the services step -/
theorem run_flags_healthy (w : World) (now : Int) (p : PeerSt) (b : BackendSt) (c : Cache) (fromT : Int)
    (hH : Healthy p b) (hst : (dynamicCols w.schema p.flags "status").isEmpty = true)
    (hAh : Aligned w "hosts" (b.rows "hosts") (c.get "hosts")) :
    hostsFlags w now p b c = p.flags ∧ servicesFlags w now p b c fromT = p.flags := by
  have e0 : runStatus w now p b c = { p := p, b := b, cache := c, err := .none } := by
    unfold runStatus; rw [updateFullTable_eq, if_pos hst]
  have hH0 : Healthy (runStatus w now p b c).p (runStatus w now p b c).b := by rw [e0]; exact hH
  obtain ⟨_, hH1, _, hf1⟩ := deltaTable_healthy w now _ _ _ "hosts" (runWindow w now fromT) (runThreshold w fromT) hH0
    (runStatus_hosts_aligned w now p b c hAh)
  rw [← runHosts_eq] at hH1 hf1
  unfold hostsFlags servicesFlags
  rw [stepFlags_healthy w now hH0, stepFlags_healthy w now hH1, hf1, e0]
  exact ⟨rfl, rfl⟩

/-! ## finitely many scanning steps empty the scan's list -/

/-- A sequence of scanning steps on table `t`, step `k` at time `now k` from peer / backend / tables `p k`, `b k`,
    `c k`: the backend's objects and the scan columns stay the same, every step's scan is due and its requests are
    answered, and between a step and the next one the table only has its id lists rewritten (what the rest of a run
    does).  Then some step `k`, not later than the number of rows that differed from the backend in a scan column
    at the start, has an empty scan list. -/
theorem scan_descent (w : World) (t : String) (backend : List ReplyRow) (cols : List String)
    (now : Nat → Int) (p : Nat → PeerSt) (b : Nat → BackendSt) (c : Nat → Cache)
    (window : Nat → Option (Int × Int)) (threshold : Nat → Int)
    (hK : KeyStatic (tableOf w t)) (hL : IdListsNotKey (tableOf w t)) (hN : ((tableOf w t).cols.map (·.name)).Nodup)
    (hD : ∀ r ∈ backend, DeliversScan w t cols r)
    (hA0 : Aligned w t backend ((c 0).get t))
    (hb : ∀ k, (b k).rows t = backend)
    (hcols : ∀ k, stepScanCols w (now k) (p k) (b k) = cols)
    (hdue : ∀ k, ¬ lastFullOf (p k) t > now k - 60)
    (hq1 : ∀ k, (query w (now k) (p k) (b k)).2.2 = none)
    (hq2 : ∀ k, (query w (now k) (query w (now k) (p k) (b k)).1 (query w (now k) (p k) (b k)).2.1).2.2 = none)
    (hS : ∀ k, ScanColsDynamic w t cols (applyFlags w (now k) (p k) (b k)))
    (hnext : ∀ k, IdListsOnly ((deltaTable w (now k) (p k) (b k) (c k) t (window k) (threshold k)).cache.get t)
      ((c (k + 1)).get t)) :
    ∃ k, k ≤ scanDiff (tableOf w t) cols (sortedReply w t backend) ((c 0).get t) ∧
      stepMissing w (now k) (p k) (b k) (c k) t (threshold k) = [] := by
  have hA : ∀ k, Aligned w t backend ((c k).get t) := by
    intro k
    induction k with
    | zero => exact hA0
    | succ k ih =>
      have ihb : Aligned w t ((b k).rows t) ((c k).get t) := by rw [hb k]; exact ih
      obtain ⟨hok, _⟩ := capStep_rows w (now k) (p k) (b k) (c k) t (window k) (threshold k) ihb (hdue k) (hq1 k) (hq2 k)
      have h1 := aligned_step w (now k) (p k) (b k) (c k) t (window k) (threshold k) hK ihb hok
      rw [rows_of_tables (deltaTable_tables ..), hb k] at h1
      exact aligned_of_keys_eq h1 (idListsOnly_keys hL (hnext k))
  have hnc : "comments" ∉ cols ∧ "downtimes" ∉ cols := by
    rw [← hcols 0]; exact idLists_not_scanCols _ _
  obtain ⟨k, hk, hP⟩ := finite_descent
    (fun k => scanDiff (tableOf w t) cols (sortedReply w t backend) ((c k).get t))
    (fun k => stepMissing w (now k) (p k) (b k) (c k) t (threshold k) ≠ [])
    (fun k hPk => by
      have ihb : Aligned w t ((b k).rows t) ((c k).get t) := by rw [hb k]; exact hA k
      have hprog := (scanDiff_capStep w (now k) (p k) (b k) (c k) t (window k) (threshold k) ihb (hdue k) (hq1 k) (hq2 k)
        (by rw [hcols k]; exact hS k) hN (by rw [hcols k, hb k]; exact hD)).2 hPk
      rw [hcols k, hb k] at hprog
      exact Nat.lt_of_le_of_lt (scanDiff_idLists_le _ _ _ (hnext k) hnc.1 hnc.2) hprog)
  exact ⟨k, hk, Classical.not_not.1 hP⟩

end Lmd.RunL
