/-
  Lmd.Lemmas.ServedLemmas — helper lemmas for the sequence-level statements of C11 (a restarted or
  reconfigured backend is reloaded as a whole):

  * no refresh function changes the backend's object set (`*_tables`), so a rebuild at the end of a loop
    pass builds from the object set the pass started with;
  * `InPlace`: the table sets reachable from a set by update passes (`updateDelta`, `updateFullList`);
  * `Served`: what a peer publishes after an event — nothing, the complete new set of the event's
    backend, or the previously published set updated in place — and its propagation through
    `InitAllTables`, `finishStep`, the runs of the loop body, `tick` and `clientQuery`.
-/
import Lmd.Lemmas.RunLemmas

namespace Lmd.ServedL
open Lmd Lmd.PeerL Lmd.RunL

/-! ## the backend's object set survives every refresh -/

theorem freshCache_congr (w : World) {b b' : BackendSt} (h : b'.tables = b.tables) :
    freshCache w b' = freshCache w b := by
  unfold freshCache
  rw [rows_of_tables h "status"]
  congr 1
  funext c t
  rw [rows_of_tables h t]

theorem updateFullObjects_tables (w : World) (now : Int) (p : PeerSt) (b : BackendSt) (c : Cache) (t : String) :
    (updateFullObjects w now p b c t).b.tables = b.tables := by
  unfold updateFullObjects
  simp only []
  repeat' split
  all_goals exact (query_tables ..).1

theorem periodOne_tables (w : World) (now : Int) (name : String) (p : PeerSt) (b : BackendSt) (c : Cache) (t : String) :
    (periodOne w now name p b c t).b.tables = b.tables := by
  unfold periodOne
  simp only []
  repeat' split
  all_goals exact (query_tables ..).1

theorem periods_tables (w : World) (now : Int) :
    ∀ (ns : List String) (p : PeerSt) (b : BackendSt) (c : Cache),
      (updateTimeperiods.periods w now ns p b c).b.tables = b.tables
  | [], p, b, c => by unfold updateTimeperiods.periods; rfl
  | n :: ns, p, b, c => by
    rw [periods_cons]
    simp only []
    have h1 := periodOne_tables w now n p b c "hosts"
    generalize periodOne w now n p b c "hosts" = r1 at h1 ⊢
    split
    · have h2 := (periodOne_tables w now n r1.p r1.b r1.cache "services").trans h1
      generalize periodOne w now n r1.p r1.b r1.cache "services" = r2 at h2 ⊢
      split
      · exact (periods_tables w now ns _ _ _).trans h2
      · exact h2
    · exact h1

theorem updateTimeperiods_tables (w : World) (now : Int) (p : PeerSt) (b : BackendSt) (c : Cache) :
    (updateTimeperiods w now p b c).b.tables = b.tables := by
  unfold updateTimeperiods
  simp only []
  have h1 := (query_tables w now p b true).1
  split
  · exact h1
  · split
    · exact h1
    · exact (periods_tables ..).trans h1

theorem updateFullList_tables (w : World) (now : Int) :
    ∀ (ts : List String) (p : PeerSt) (b : BackendSt) (c : Cache), (updateFullList w now ts p b c).b.tables = b.tables
  | [], p, b, c => by unfold updateFullList; rfl
  | t :: ts, p, b, c => by
    unfold updateFullList
    simp only []
    have h1 : (if t == "timeperiods" then updateTimeperiods w now p b c
      else if t == "hosts" || t == "services" then updateFullObjects w now p b c t
      else updateFullTable w now p b c t).b.tables = b.tables := by
      split
      · exact updateTimeperiods_tables ..
      · split
        · exact updateFullObjects_tables ..
        · exact updateFullTable_tables ..
    generalize (if t == "timeperiods" then updateTimeperiods w now p b c
      else if t == "hosts" || t == "services" then updateFullObjects w now p b c t
      else updateFullTable w now p b c t) = r at h1 ⊢
    split
    · exact (updateFullList_tables w now ts _ _ _).trans h1
    · exact h1

/-- a table refresh leaves the published set in place or drops it -/
theorem steps2_cache {w : World} {now : Int} {p q : PeerSt} (h : Steps2 w now p q) :
    q.cache = p.cache ∨ q.cache = none := by
  induction h with
  | refl => exact .inl rfl
  | fail msg _ ih =>
    rw [fail_cache]
    split
    · exact .inr rfl
    · exact ih
  | book _ h ih => rw [(core_fields h).2.1]; exact ih
  | broken msg _ ih => exact .inr rfl
  | recovered _ h ih => exact ih

/-! ## in-place updates and what is served after an event -/

/-- the table sets reachable from a set by update passes of the loop body: a delta update
    (`updateDelta`: status, hosts / services windows, comments / downtimes diff) or a full refresh of a
    list of tables (`updateFullList`), at any time, against any backend, completed or aborted.  None of
    these passes builds a table anew from the backend's object set. -/
inductive InPlace (w : World) : Cache → Cache → Prop
  | refl (c : Cache) : InPlace w c c
  | delta {c0 c : Cache} (now : Int) (p : PeerSt) (b : BackendSt) (fromT : Int) :
      InPlace w c0 c → InPlace w c0 (updateDelta w now p b c fromT).cache
  | full {c0 c : Cache} (now : Int) (ts : List String) (p : PeerSt) (b : BackendSt) :
      InPlace w c0 c → InPlace w c0 (updateFullList w now ts p b c).cache

theorem InPlace.trans {w : World} {a b c : Cache} (h1 : InPlace w a b) (h2 : InPlace w b c) : InPlace w a c := by
  induction h2 with
  | refl => exact h1
  | delta now p b fromT _ ih => exact .delta now p b fromT ih
  | full now ts p b _ ih => exact .full now ts p b ih

/-- what a peer publishes (`new`) after an event against the backend `b`, relative to what it published
    before (`old`): nothing, the complete set built from `b`'s object set, or the old set updated in
    place -/
def Served (w : World) (b : BackendSt) (old new : Option Cache) : Prop :=
  new = none ∨ new = some (rebuildLists (freshCache w b)) ∨
    ∃ c c', old = some c ∧ new = some c' ∧ InPlace w c c'

theorem served_self (w : World) (b : BackendSt) (old : Option Cache) : Served w b old old := by
  cases old with
  | none => exact .inl rfl
  | some c => exact .inr (.inr ⟨c, c, rfl, rfl, .refl c⟩)

theorem Served.weaken {w : World} {b : BackendSt} {old x y : Option Cache} (h : Served w b old x)
    (hy : y = x ∨ y = none) : Served w b old y := by
  rcases hy with rfl | rfl
  · exact h
  · exact .inl rfl

theorem Served.init {w : World} {b0 b : BackendSt} {old : Option Cache} {p : PeerSt} (now : Int)
    (hp : Served w b0 old p.cache) (ht : b.tables = b0.tables) :
    Served w b0 old (initAllTables w now p b).p.cache ∧ (initAllTables w now p b).b.tables = b0.tables := by
  obtain ⟨h1, h2, h3⟩ := initAllTables_spec w now p b
  refine ⟨?_, h1.trans ht⟩
  by_cases he : (initAllTables w now p b).err = .none
  · rw [(h2 he).1, freshCache_congr w ht]
    exact .inr (.inl rfl)
  · exact hp.weaken (h3 he).1

theorem Served.finish {w : World} {b0 b : BackendSt} {old : Option Cache} {p : PeerSt} (now : Int) (ran : Bool)
    (err : StepErr) (hp : Served w b0 old p.cache) (ht : b.tables = b0.tables) :
    Served w b0 old (finishStep w now p b ran err).p.cache := by
  unfold finishStep
  split
  · exact (Served.init now hp ht).1
  · exact hp

theorem served_withCache {w : World} {b0 : BackendSt} {old : Option Cache} {c0 : Cache} (r : DeltaResult)
    (ho : old = some c0) (hin : InPlace w c0 r.cache) : Served w b0 old (withCache r).cache := by
  unfold withCache
  split
  · exact .inr (.inr ⟨c0, r.cache, ho, rfl, hin⟩)
  · rename_i h
    cases hc : r.p.cache with
    | none => exact .inl rfl
    | some x => rw [hc] at h; simp at h

theorem withCache_some {r : DeltaResult} {c : Cache} (h : (withCache r).cache = some c) : c = r.cache := by
  unfold withCache at h
  split at h
  · cases h; rfl
  · rename_i hn
    rw [h] at hn; simp at hn

/-- the detached set a loop pass works on descends from the set published before the pass -/
def Detached (w : World) (old c1 : Option Cache) : Prop :=
  ∀ c, c1 = some c → ∃ c0, old = some c0 ∧ InPlace w c0 c

theorem detached_self (w : World) (old : Option Cache) : Detached w old old :=
  fun c h => ⟨c, h, .refl c⟩

/-! ## the runs of the loop body -/

theorem deltaRun_served {w : World} {b0 b : BackendSt} {old : Option Cache} {c : Cache} (now : Int) (p : PeerSt)
    (fromT : Int) (hd : ∃ c0, old = some c0 ∧ InPlace w c0 c) (ht : b.tables = b0.tables) :
    Served w b0 old (deltaRun w now p b c fromT).p.cache := by
  obtain ⟨c0, ho, hin⟩ := hd
  unfold deltaRun
  exact Served.finish now true _ (served_withCache _ ho (.delta now p b fromT hin)) ((updateDelta_tables ..).trans ht)

theorem initRun_served {w : World} {b0 b : BackendSt} {old : Option Cache} {p : PeerSt} (now : Int)
    (hp : Served w b0 old p.cache) (ht : b.tables = b0.tables) :
    Served w b0 old (initRun w now p b).p.cache := by
  unfold initRun
  obtain ⟨h1, h2⟩ := Served.init now hp ht
  exact Served.finish now true _ h1 h2

theorem upRun_served {w : World} {b0 b : BackendSt} {old : Option Cache} {c : Cache} (now lastUpdate : Int) (p : PeerSt)
    (hd : ∃ c0, old = some c0 ∧ InPlace w c0 c) (ht : b.tables = b0.tables) :
    Served w b0 old (upRun w now lastUpdate p b c).p.cache := by
  unfold upRun
  split
  · obtain ⟨c0, ho, hin⟩ := hd
    simp only []
    have hin' : InPlace w c0 (updateFullList w now updateTables p b c).cache := .full now updateTables p b hin
    have ht' : (updateFullList w now updateTables p b c).b.tables = b0.tables := (updateFullList_tables ..).trans ht
    generalize updateFullList w now updateTables p b c = r at hin' ht' ⊢
    have hs : Served w b0 old (withCache r).cache := served_withCache r ho hin'
    split
    · split
      · exact Served.finish now true _ hs ht'
      · exact Served.finish (p := { ((withCache r).recovered now) with lastUpdate := now, lastFullUpdate := now })
          now true _ hs ht'
    · exact Served.finish now true _ hs ht'
  · exact deltaRun_served now _ _ hd ht

theorem handleBroken_served {w : World} {b0 b : BackendSt} {old : Option Cache} {p : PeerSt} (now : Int)
    (hp : Served w b0 old p.cache) (ht : b.tables = b0.tables) :
    Served w b0 old (handleBroken w now p b).p.cache ∧ (handleBroken w now p b).b.tables = b0.tables := by
  unfold handleBroken
  simp only []
  have hq : Served w b0 old (query w now p b).1.cache := hp.weaken (query_stepsB w now p b true).cache
  have htq : (query w now p b).2.1.tables = b0.tables := (query_tables w now p b true).1.trans ht
  repeat' split
  all_goals first | exact ⟨hq, htq⟩ | exact Served.init now hq htq

theorem dispatch_served {w : World} {b0 b : BackendSt} {old : Option Cache} {p : PeerSt} (now lastUpdate : Int)
    (s0 : PeerState) (c1 : Option Cache) (hp : Served w b0 old p.cache) (hd : Detached w old c1)
    (ht : b.tables = b0.tables) :
    Served w b0 old (dispatch w now lastUpdate s0 p b c1).p.cache := by
  unfold dispatch
  split
  · obtain ⟨h1, h2⟩ := handleBroken_served now hp ht
    exact Served.finish now true _ h1 h2
  · exact initRun_served now hp ht
  · exact initRun_served now hp ht
  · split
    · exact initRun_served now hp ht
    · exact deltaRun_served now _ _ (hd _ rfl) ht
  · split
    · exact initRun_served now hp ht
    · exact upRun_served now _ _ (hd _ rfl) ht
  · split
    · exact initRun_served now hp ht
    · exact upRun_served now _ _ (hd _ rfl) ht

theorem mainStep_served {w : World} {b0 b : BackendSt} {old : Option Cache} {p : PeerSt} (now lastUpdate : Int)
    (s0 : PeerState) (c1 : Option Cache) (hp : Served w b0 old p.cache) (hd : Detached w old c1)
    (ht : b.tables = b0.tables) :
    Served w b0 old (mainStep w now lastUpdate s0 p b c1).p.cache := by
  unfold mainStep
  split
  · exact hp
  · exact dispatch_served (p := { p with lastUpdate := now }) now lastUpdate s0 c1 hp hd ht

theorem tpStep_served (w : World) (now : Int) (p : PeerSt) (b : BackendSt) (old : Option Cache) (hpc : p.cache = old) :
    (∀ res, (tpStep w now p b old).1 = some res → Served w b old res.p.cache) ∧
      Served w b old (tpStep w now p b old).2.1.cache ∧ (tpStep w now p b old).2.2.1.tables = b.tables ∧
      Detached w old (tpStep w now p b old).2.2.2 := by
  cases old with
  | none =>
    unfold tpStep
    exact ⟨(fun res hres => by cases hres), .inl hpc, rfl, fun c hc => by cases hc⟩
  | some c =>
    unfold tpStep
    simp only []
    split
    · have hin : InPlace w c (updateFullList w now ["timeperiods", "hostgroups", "servicegroups"]
          { p with lastTpMinute := (now / 60) % 60 } b c).cache := .full now _ _ b (.refl c)
      have htr := updateFullList_tables w now ["timeperiods", "hostgroups", "servicegroups"]
          { p with lastTpMinute := (now / 60) % 60 } b c
      have hrp := steps2_cache (updateFullList_steps2 w now ["timeperiods", "hostgroups", "servicegroups"]
          { p with lastTpMinute := (now / 60) % 60 } b c)
      generalize updateFullList w now ["timeperiods", "hostgroups", "servicegroups"]
          { p with lastTpMinute := (now / 60) % 60 } b c = r at hin htr hrp ⊢
      have hs : Served w b (some c) (withCache r).cache := served_withCache r rfl hin
      have hdet : Detached w (some c) (some r.cache) := fun c' hc' => by
        cases hc'; exact ⟨c, rfl, hin⟩
      split
      · obtain ⟨l1, l2, _⟩ := localtimeStep_spec w now (withCache r) r.b
        have hl : Served w b (some c) (localtimeStep w now (withCache r) r.b).1.cache := hs.weaken l1.cache
        have htl := l2.trans htr
        generalize localtimeStep w now (withCache r) r.b = lt at hl htl ⊢
        split
        · exact ⟨(fun res hres => by cases hres; exact Served.finish now false _ hl htl), hl, htl, hdet⟩
        · exact ⟨(fun res hres => by cases hres), hl, htl, hdet⟩
      · refine ⟨(fun res hres => by cases hres; exact Served.finish now false _ hs htr), ?_, htr, hdet⟩
        refine (served_self w b (some c)).weaken ?_
        rcases hrp with h | h
        · exact .inl (h.trans hpc)
        · exact .inr h
    · exact ⟨(fun res hres => by cases hres), by rw [hpc]; exact served_self w b _, rfl, detached_self w _⟩

/-- one pass of the update loop: afterwards the peer publishes nothing, the complete set of the backend's
    object set, or the set it published before, updated in place -/
theorem tick_served (w : World) (now : Int) (p : PeerSt) (b : BackendSt) :
    Served w b p.cache (tick w now p b).p.cache := by
  rw [tick_eq]
  obtain ⟨h1, h2, h3, h4⟩ := tpStep_served w now (idleStep w now p) b p.cache (idleStep_fields w now p).2.2.1
  generalize tpStep w now (idleStep w now p) b p.cache = tp at h1 h2 h3 h4
  obtain ⟨res, p', b', c1⟩ := tp
  cases res with
  | some res => exact h1 res rfl
  | none => exact mainStep_served now p.lastUpdate p.status c1 h2 h4 h3

/-- what a peer publishes after an event that cannot rebuild: nothing, or the old set updated in place -/
def Kept (w : World) (old new : Option Cache) : Prop :=
  new = none ∨ ∃ c c', old = some c ∧ new = some c' ∧ InPlace w c c'

theorem Kept.served {w : World} {b : BackendSt} {old new : Option Cache} (h : Kept w old new) : Served w b old new := by
  rcases h with h | h
  · exact .inl h
  · exact .inr (.inr h)

theorem kept_self (w : World) (old : Option Cache) : Kept w old old := by
  cases old with
  | none => exact .inl rfl
  | some c => exact .inr ⟨c, c, rfl, rfl, .refl c⟩

theorem kept_withCache {w : World} {old : Option Cache} {c0 : Cache} (r : DeltaResult)
    (ho : old = some c0) (hin : InPlace w c0 r.cache) : Kept w old (withCache r).cache := by
  unfold withCache
  split
  · exact .inr ⟨c0, r.cache, ho, rfl, hin⟩
  · rename_i h
    cases hc : r.p.cache with
    | none => exact .inl rfl
    | some x => rw [hc] at h; simp at h

theorem resume_kept (w : World) (now : Int) (p : PeerSt) (b : BackendSt) :
    Kept w p.cache (resume w now p b).1.cache := by
  unfold resume
  split
  · rename_i c hs hc
    simp only []
    have hin : InPlace w c (updateFullList w now ["timeperiods"] p b c).cache := .full now _ p b (.refl c)
    generalize updateFullList w now ["timeperiods"] p b c = r at hin ⊢
    split
    · split
      · rename_i c' hc'
        have e := withCache_some hc'
        subst e
        exact kept_withCache _ hc (.delta now _ _ _ hin)
      · exact kept_withCache r hc hin
    · exact kept_withCache r hc hin
  · exact kept_self w _

/-- a client query (including the refresh of a peer woken from idling) never rebuilds: the peer
    publishes nothing or the set it published before, updated in place -/
theorem clientQuery_kept (w : World) (now : Int) (p : PeerSt) (b : BackendSt) :
    Kept w p.cache (clientQuery w now p b).1.cache := by
  rw [clientQuery_eq]
  split
  · exact resume_kept w now { p with lastQuery := now, idling := false } b
  · exact kept_self w _

end Lmd.ServedL
