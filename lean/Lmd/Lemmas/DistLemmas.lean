/-
  Lmd.Lemmas.DistLemmas — a distributed request (`distData`, `distStats`) against the single-node answer
  (`dataQuery`, `statsQuery`): which backends the sub requests select, what every part returns, and the
  arithmetic of merging accumulators in any grouping and order.
-/
import Lmd.Distributed
import Lmd.Lemmas.Sort
import Lmd.Lemmas.StatsLemmas

namespace Lmd.Dist
open Lmd Lmd.Sort

/-! ## 1. the sub requests and the partition hypothesis -/

/-- the backend lists of the sub requests that are really sent: one per share that has a requested backend -/
def nodeSubs (req : Request) (shares : List (List String)) : List (List String) :=
  (shares.map (subBackends req)).filter (fun sub => !sub.isEmpty)

/-- The shares split the backends of the request among the nodes: every id a sub request names belongs to a
    configured backend, no id is named twice (neither within one sub request nor by two of them), and every
    backend the request selects is named by some sub request.  Shares may list backends the request does not
    ask for (`subBackends` drops them). -/
structure Partition (ds : Dataset) (t : Table) (req : Request) (shares : List (List String)) : Prop where
  known : ∀ id ∈ shares.flatMap (subBackends req), ∃ b ∈ ds.backends, b.id = id
  nodup : (shares.flatMap (subBackends req)).Nodup
  cover : ∀ b ∈ (selectBackends ds t req).peers, b.id ∈ shares.flatMap (subBackends req)

/-- the table is answered by the selected backends (`tables` and `columns` are answered by the first
    configured backend, whatever was selected) -/
def PerBackend (t : Table) : Prop := t.name ≠ "tables" ∧ t.name ≠ "columns"

theorem flatten_nodeSubs (req : Request) (shares : List (List String)) :
    (nodeSubs req shares).flatten = shares.flatMap (subBackends req) := by
  rw [nodeSubs, List.flatten_filter_not_isEmpty, List.flatMap_def]

theorem ne_nil_of_mem_nodeSubs {req : Request} {shares : List (List String)} {sub : List String}
    (h : sub ∈ nodeSubs req shares) : sub ≠ [] := by
  simp only [nodeSubs, List.mem_filter] at h
  intro e
  simp [e] at h

/-- the selected backends of a per-backend table: the configured backends the request names (all, if it
    names none), in configuration order -/
theorem peers_eq (ds : Dataset) (t : Table) (req : Request) (hT : PerBackend t) :
    (selectBackends ds t req).peers =
      ds.backends.filter (fun b => req.backends.isEmpty || req.backends.contains b.id) := by
  have h1 : (t.name == "tables" || t.name == "columns") = false := by
    simp [hT.1, hT.2]
  simp only [selectBackends, h1, Bool.false_eq_true, if_false]
  apply List.filter_congr
  intro b hb
  cases he : req.backends.isEmpty with
  | true =>
    simp only [if_true, Bool.true_or, List.contains_iff_mem, List.mem_map]
    exact ⟨b, hb, rfl⟩
  | false =>
    simp only [Bool.false_eq_true, if_false, Bool.false_or]
    rw [Bool.eq_iff_iff]
    simp only [List.contains_iff_mem, List.mem_filter, List.any_eq_true, beq_iff_eq]
    constructor
    · exact fun h => h.1
    · exact fun h => ⟨h, b, hb, rfl⟩

/-- a simple sufficient condition that does not mention the request: the shares list configured backends
    only, none of them twice, none with an empty id, and together all of them -/
theorem Partition.of_config (ds : Dataset) (t : Table) (req : Request) (shares : List (List String))
    (hT : PerBackend t)
    (hknown : ∀ id ∈ shares.flatten, ∃ b ∈ ds.backends, b.id = id)
    (hnodup : shares.flatten.Nodup)
    (hne : ∀ id ∈ shares.flatten, id ≠ "")
    (hall : ∀ b ∈ ds.backends, b.id ∈ shares.flatten) :
    Partition ds t req shares := by
  have heq : shares.flatMap (subBackends req) =
      shares.flatten.filter (fun b => b != "" && (req.backends.isEmpty || req.backends.contains b)) := by
    rw [List.filter_flatten, List.flatMap_def]; rfl
  have hsub : (shares.flatMap (subBackends req)).Sublist shares.flatten := by
    rw [heq]; exact List.filter_sublist
  refine ⟨fun id hid => hknown id (hsub.subset hid), hnodup.sublist hsub, ?_⟩
  intro b hb
  rw [peers_eq ds t req hT, List.mem_filter] at hb
  rw [heq, List.mem_filter]
  refine ⟨hall b hb.1, ?_⟩
  have := hne b.id (hall b hb.1)
  rw [Bool.and_eq_true]
  exact ⟨by simpa using this, hb.2⟩

/-! ## 2. which backends the sub requests select -/

/-- the backends a sub request for the ids `sub` selects -/
def subPeers (ds : Dataset) (sub : List String) : List Backend :=
  ds.backends.filter (fun b => sub.contains b.id)

theorem selectBackends_sub_peers (ds : Dataset) (t : Table) (req : Request) (sub : List String)
    (hT : PerBackend t) (hne : sub ≠ []) :
    (selectBackends ds t (subRequestFor req sub)).peers = subPeers ds sub := by
  rw [peers_eq ds t _ hT]
  have : (subRequestFor req sub).backends = sub := rfl
  rw [this]
  have he : sub.isEmpty = false := by cases sub <;> simp_all
  simp [he, subPeers]

theorem selectBackends_sub_failed (ds : Dataset) (t : Table) (req : Request) (sub : List String)
    (hk : ∀ id ∈ sub, ∃ b ∈ ds.backends, b.id = id) :
    (selectBackends ds t (subRequestFor req sub)).failed = [] := by
  have : (subRequestFor req sub).backends = sub := rfl
  simp only [selectBackends, this]
  have : sub.filter (fun id => !ds.backends.any (·.id == id)) = [] := by
    rw [List.filter_eq_nil_iff]
    intro id hid
    obtain ⟨b, hb, rfl⟩ := hk id hid
    simp only [Bool.not_eq_true', Bool.not_eq_false, List.any_eq_true, beq_iff_eq]
    exact ⟨b, hb, rfl⟩
  rw [this]
  rfl

/-- two disjoint tests: filtering by either is, up to order, filtering by the first and by the second -/
theorem filter_or_perm {α : Type} (p q : α → Bool) (l : List α)
    (hd : ∀ a ∈ l, p a = true → q a = true → False) :
    (l.filter p ++ l.filter q).Perm (l.filter (fun a => p a || q a)) := by
  have h := List.filter_append_perm p (l.filter (fun a => p a || q a))
  rw [List.filter_filter, List.filter_filter] at h
  have e1 : l.filter (fun a => p a && (p a || q a)) = l.filter p := by
    apply List.filter_congr
    intro a _
    cases p a <;> simp
  have e2 : l.filter (fun a => (!p a) && (p a || q a)) = l.filter q := by
    apply List.filter_congr
    intro a ha
    have := hd a ha
    cases hp : p a <;> cases hq : q a <;> simp_all
  rwa [e1, e2] at h

/-- ids listed once: the backends named by the lists, list by list, are up to order the backends named
    by any of them -/
theorem subPeers_flatMap_perm (ds : Dataset) :
    ∀ (subs : List (List String)), subs.flatten.Nodup →
      (subs.flatMap (subPeers ds)).Perm (subPeers ds subs.flatten)
  | [], _ => by simp [subPeers]
  | sub :: rest, hn => by
    rw [List.flatten_cons, List.nodup_append] at hn
    have ih := subPeers_flatMap_perm ds rest hn.2.1
    rw [List.flatMap_cons]
    refine (List.Perm.append_left _ ih).trans ?_
    have := filter_or_perm (fun b : Backend => sub.contains b.id) (fun b => rest.flatten.contains b.id)
      ds.backends (by
        intro b _ h1 h2
        simp only [List.contains_iff_mem] at h1 h2
        exact hn.2.2 b.id h1 b.id h2 rfl)
    refine this.trans ?_
    simp only [subPeers, List.flatten_cons]
    apply List.Perm.of_eq
    apply List.filter_congr
    intro b _
    rw [Bool.eq_iff_iff]
    simp [List.mem_append]

/-- under the partition hypothesis the sub requests select, together and up to order, exactly the
    backends the request selects -/
theorem peers_perm (ds : Dataset) (t : Table) (req : Request) (shares : List (List String))
    (hT : PerBackend t) (hp : Partition ds t req shares) :
    ((nodeSubs req shares).flatMap (subPeers ds)).Perm (selectBackends ds t req).peers := by
  refine (subPeers_flatMap_perm ds _ (by rw [flatten_nodeSubs]; exact hp.nodup)).trans ?_
  rw [flatten_nodeSubs]
  apply List.Perm.of_eq
  have hpe := peers_eq ds t req hT
  rw [hpe, subPeers]
  apply List.filter_congr
  intro b hb
  rw [Bool.eq_iff_iff]
  constructor
  · intro h
    simp only [List.contains_iff_mem, List.mem_flatMap] at h
    obtain ⟨share, _, hid⟩ := h
    simp only [subBackends, List.mem_filter, Bool.and_eq_true] at hid
    exact hid.2.2
  · intro h
    have : b ∈ (selectBackends ds t req).peers := by
      rw [hpe, List.mem_filter]; exact ⟨hb, h⟩
    simpa [List.contains_iff_mem] using hp.cover b this

/-! ## 3. what the parts of a distributed data request are -/

theorem filterMap_shares {β : Type} (req : Request) (f : List String → β) :
    ∀ shares : List (List String),
      shares.filterMap (fun share =>
        if (subBackends req share).isEmpty = true then none else some (f (subBackends req share))) =
        (nodeSubs req shares).map f
  | [] => rfl
  | share :: rest => by
    have ih := filterMap_shares req f rest
    simp only [nodeSubs] at ih ⊢
    simp only [List.filterMap_cons, List.map_cons, List.filter_cons]
    cases h : (subBackends req share).isEmpty
    · simp only [Bool.false_eq_true, if_false, Bool.not_false, if_true, List.map_cons, ih]
    · simp only [if_true, Bool.not_true, Bool.false_eq_true, if_false, ih]

/-- the answers of the nodes -/
def dataParts (m : EvalMode) (s : Schema) (ds : Dataset) (t : Table) (req : Request)
    (shares : List (List String)) : List DataResult :=
  (nodeSubs req shares).map fun sub => dataQuery m s ds t (subRequestFor req sub)

/-- the sum of the totals the nodes report -/
def distTotal (m : EvalMode) (s : Schema) (ds : Dataset) (t : Table) (req : Request)
    (shares : List (List String)) : Nat :=
  ((dataParts m s ds t req shares).map (·.total)).foldl (· + ·) 0

/-- the rows of all nodes, sorted with the keys of the request -/
def distSorted (m : EvalMode) (s : Schema) (ds : Dataset) (t : Table) (req : Request)
    (shares : List (List String)) : List Hit :=
  if req.sort.isEmpty then (dataParts m s ds t req shares).flatMap (·.hits)
  else ((dataParts m s ds t req shares).flatMap (·.hits)).mergeSort (Hit.le (dirsOf req))

theorem distData_total (m : EvalMode) (s : Schema) (ds : Dataset) (t : Table) (req : Request)
    (shares : List (List String)) :
    (distData m s ds t req shares).total = distTotal m s ds t req shares := by
  have hp := filterMap_shares req (fun sub => dataQuery m s ds t (subRequestFor req sub)) shares
  simp only [distData, distTotal, dataParts, ← hp]

theorem distData_failed (m : EvalMode) (s : Schema) (ds : Dataset) (t : Table) (req : Request)
    (shares : List (List String)) :
    (distData m s ds t req shares).failed =
      (selectBackends ds t req).failed ++ (dataParts m s ds t req shares).flatMap (·.failed) := by
  have hp := filterMap_shares req (fun sub => dataQuery m s ds t (subRequestFor req sub)) shares
  simp only [distData, dataParts, ← hp]

theorem distData_hits (m : EvalMode) (s : Schema) (ds : Dataset) (t : Table) (req : Request)
    (shares : List (List String)) :
    (distData m s ds t req shares).hits =
      match req.limit with
      | some l => (if req.offset > distTotal m s ds t req shares then []
          else (distSorted m s ds t req shares).drop req.offset).take l
      | none => if req.offset > distTotal m s ds t req shares then []
          else (distSorted m s ds t req shares).drop req.offset := by
  have hp := filterMap_shares req (fun sub => dataQuery m s ds t (subRequestFor req sub)) shares
  simp only [distData, distTotal, distSorted, dataParts, ← hp, dirsOf]
  cases req.limit <;> rfl

/-- the available backends a sub request for the ids `sub` reads -/
def subAvail (ds : Dataset) (t : Table) (sub : List String) : List Backend :=
  (subPeers ds sub).filter (fun b => backendAvailable b t)

theorem availBackends_sub (ds : Dataset) (t : Table) (req : Request) (sub : List String)
    (hT : PerBackend t) (hne : sub ≠ []) :
    availBackends ds t (subRequestFor req sub) = subAvail ds t sub := by
  rw [availBackends, selectBackends_sub_peers ds t req sub hT hne, subAvail]

/-- the available backends of the sub requests are, up to order, those of the request -/
theorem avail_perm (ds : Dataset) (t : Table) (req : Request) (shares : List (List String))
    (hT : PerBackend t) (hp : Partition ds t req shares) :
    ((nodeSubs req shares).flatMap (subAvail ds t)).Perm (availBackends ds t req) := by
  have := (peers_perm ds t req shares hT hp).filter (fun b => backendAvailable b t)
  rw [List.filter_flatMap] at this
  exact this

/-- what one backend contributes to the answer of a request -/
def gr (m : EvalMode) (s : Schema) (ds : Dataset) (t : Table) (req : Request) (b : Backend) : PeerResult :=
  gatherRows m { schema := s, ds := ds, b := b } t req

/-- the sub requests cut the rows of a backend exactly where the request does, unless the request has
    `Limit: 0` with an offset (a limit of 0 is not passed on) and is cut per backend -/
theorem peerCut_sub (m : EvalMode) (req : Request) (sub : List String)
    (h : req.limit = some 0 → req.offset = 0 ∨ m.earlyCut = false ∨ isDefaultSortOrder req = false) :
    peerCut m (subRequestFor req sub) = peerCut m req := by
  have hd : isDefaultSortOrder (subRequestFor req sub) = isDefaultSortOrder req := rfl
  unfold peerCut resultLimit
  rw [hd]
  cases hl : req.limit with
  | none => simp [subRequestFor, hl]
  | some l =>
    have hsl : (subRequestFor req sub).limit = if l != 0 then some (l + req.offset) else none := by
      simp [subRequestFor, hl]
    have hso : (subRequestFor req sub).offset = 0 := rfl
    rw [hsl, hso]
    by_cases h0 : l = 0
    · subst h0
      cases he : m.earlyCut <;> cases hdf : isDefaultSortOrder req <;> simp
      rcases h hl with h | h | h
      · exact h
      · simp [he] at h
      · simp [hdf] at h
    · cases he : m.earlyCut <;> cases hdf : isDefaultSortOrder req <;> simp [h0]

theorem gr_sub (m : EvalMode) (s : Schema) (ds : Dataset) (t : Table) (req : Request) (sub : List String)
    (hc : peerCut m (subRequestFor req sub) = peerCut m req) (b : Backend) :
    gr m s ds t (subRequestFor req sub) b = gr m s ds t req b := by
  simp only [gr]
  rw [gatherRows_eq, gatherRows_eq, hc]
  rfl

/-- the total one backend reports is the same for the request and for a sub request, unless the request
    has `Limit: 0` with an offset, is cut per backend and is not in wrapped_json format -/
theorem gr_sub_total (m : EvalMode) (s : Schema) (ds : Dataset) (t : Table) (req : Request)
    (sub : List String)
    (h : req.limit = some 0 → req.offset = 0 ∨ m.earlyCut = false ∨ isDefaultSortOrder req = false ∨
      req.outFmt = .wrapped) (b : Backend) :
    (gr m s ds t (subRequestFor req sub) b).total = (gr m s ds t req b).total := by
  by_cases hw : req.outFmt = .wrapped
  · simp only [gr]
    rw [gatherRows_total _ _ _ _ (Or.inr hw), gatherRows_total _ _ _ _ (Or.inr (show (subRequestFor req sub).outFmt = .wrapped from hw))]
    rfl
  · rw [gr_sub m s ds t req sub (peerCut_sub m req sub ?_) b]
    intro hl
    rcases h hl with h | h | h | h
    · exact Or.inl h
    · exact Or.inr (Or.inl h)
    · exact Or.inr (Or.inr h)
    · exact absurd h hw

theorem sum_map_flatMap {α β : Type} (f : α → List β) (g : β → Nat) :
    ∀ l : List α, ((l.flatMap f).map g).sum = (l.map fun a => ((f a).map g).sum).sum
  | [] => rfl
  | a :: l => by
    simp only [List.flatMap_cons, List.map_append, List.sum_append, List.map_cons, List.sum_cons,
      sum_map_flatMap f g l]

theorem totalOf_sub (m : EvalMode) (s : Schema) (ds : Dataset) (t : Table) (req : Request)
    (sub : List String) (hT : PerBackend t) (hne : sub ≠ [])
    (h : req.limit = some 0 → req.offset = 0 ∨ m.earlyCut = false ∨ isDefaultSortOrder req = false ∨
      req.outFmt = .wrapped) :
    totalOf m s ds t (subRequestFor req sub) =
      ((subAvail ds t sub).map fun b => (gr m s ds t req b).total).sum := by
  rw [totalOf_eq_sum, availBackends_sub ds t req sub hT hne]
  congr 1
  apply List.map_congr_left
  intro b _
  exact gr_sub_total m s ds t req sub h b

/-- the totals of the nodes add up to the total of the single answer -/
theorem distTotal_eq (m : EvalMode) (s : Schema) (ds : Dataset) (t : Table) (req : Request)
    (shares : List (List String)) (hT : PerBackend t) (hp : Partition ds t req shares)
    (h : req.limit = some 0 → req.offset = 0 ∨ m.earlyCut = false ∨ isDefaultSortOrder req = false ∨
      req.outFmt = .wrapped) :
    distTotal m s ds t req shares = totalOf m s ds t req := by
  rw [distTotal, ← List.sum_eq_foldl_nat, dataParts, List.map_map]
  have : (nodeSubs req shares).map ((fun x : DataResult => x.total) ∘ fun sub =>
        dataQuery m s ds t (subRequestFor req sub)) =
      (nodeSubs req shares).map fun sub =>
        ((subAvail ds t sub).map fun b => (gr m s ds t req b).total).sum := by
    apply List.map_congr_left
    intro sub hsub
    simp only [Function.comp, dataQuery_total]
    exact totalOf_sub m s ds t req sub hT (ne_nil_of_mem_nodeSubs hsub) h
  rw [this, ← sum_map_flatMap, totalOf_eq_sum]
  exact ((avail_perm ds t req shares hT hp).map _).sum_nat

/-! ## 4. the failed backends -/

theorem flatMap_congr_mem {α β : Type} {l : List α} {f g : α → List β} (h : ∀ a ∈ l, f a = g a) :
    l.flatMap f = l.flatMap g := by
  rw [List.flatMap_def, List.flatMap_def, List.map_congr_left h]

theorem dataQuery_failed (m : EvalMode) (s : Schema) (ds : Dataset) (t : Table) (req : Request) :
    (dataQuery m s ds t req).failed = failedOf ds t req := by
  rw [dataQuery_eq]
  split <;> rfl

/-- the error line of a backend that is down -/
def downMsg (b : Backend) : String × String := (b.id, s!"peer is down: {b.err}")

theorem failedOf_sub (ds : Dataset) (t : Table) (req : Request) (sub : List String)
    (hT : PerBackend t) (hne : sub ≠ []) (hk : ∀ id ∈ sub, ∃ b ∈ ds.backends, b.id = id) :
    failedOf ds t (subRequestFor req sub) =
      ((subPeers ds sub).filter (fun b => !backendAvailable b t)).map downMsg := by
  rw [failedOf, selectBackends_sub_failed ds t req sub hk, selectBackends_sub_peers ds t req sub hT hne]
  rfl

/-- the failed lists of the sub requests are together, up to order, the failed list of the request -/
theorem failedOf_parts_perm (ds : Dataset) (t : Table) (req : Request)
    (shares : List (List String)) (hT : PerBackend t) (hp : Partition ds t req shares) :
    ((selectBackends ds t req).failed ++
      (nodeSubs req shares).flatMap (fun sub => failedOf ds t (subRequestFor req sub))).Perm
      (failedOf ds t req) := by
  rw [failedOf]
  apply List.Perm.append_left
  have e : (nodeSubs req shares).flatMap (fun sub => failedOf ds t (subRequestFor req sub)) =
      (nodeSubs req shares).flatMap
        (fun sub => ((subPeers ds sub).filter (fun b => !backendAvailable b t)).map downMsg) := by
    apply flatMap_congr_mem
    intro sub hsub
    refine failedOf_sub ds t req sub hT (ne_nil_of_mem_nodeSubs hsub) ?_
    intro id hid
    refine hp.known id ?_
    rw [← flatten_nodeSubs]
    exact List.mem_flatten.mpr ⟨sub, hsub, hid⟩
  rw [e, ← List.map_flatMap, ← List.filter_flatMap]
  exact ((peers_perm ds t req shares hT hp).filter _).map _

/-- the failed list of the distributed answer is, up to order, the failed list of the single answer -/
theorem distFailed_perm (m : EvalMode) (s : Schema) (ds : Dataset) (t : Table) (req : Request)
    (shares : List (List String)) (hT : PerBackend t) (hp : Partition ds t req shares) :
    (distData m s ds t req shares).failed.Perm (dataQuery m s ds t req).failed := by
  rw [distData_failed, dataQuery_failed, dataParts, List.flatMap_map]
  have e : (nodeSubs req shares).flatMap (fun sub => (dataQuery m s ds t (subRequestFor req sub)).failed) =
      (nodeSubs req shares).flatMap (fun sub => failedOf ds t (subRequestFor req sub)) := by
    apply flatMap_congr_mem
    intro sub _
    rw [dataQuery_failed]
  rw [e]
  exact failedOf_parts_perm ds t req shares hT hp

/-! ## 5. sorting the sorted parts, on plain lists -/

theorem map_mergeSort_flatten_perm {α : Type} (le : α → α → Bool) :
    ∀ Cs : List (List α), ((Cs.map (fun c => c.mergeSort le)).flatten).Perm Cs.flatten
  | [] => List.Perm.refl _
  | c :: Cs => by
    simp only [List.map_cons, List.flatten_cons]
    exact (List.mergeSort_perm c le).append (map_mergeSort_flatten_perm le Cs)

/-- sorting the concatenation of the sorted parts gives, up to ties, the sorted whole -/
theorem sorted_parts_posRel {α : Type} {P : α → Prop} {le : α → α → Bool} (h : TotalPreorderOn P le)
    (Cs : List (List α)) (C : List α) (hperm : Cs.flatten.Perm C) (hP : ∀ a ∈ C, P a) :
    PosRel (Tie P le) ((Cs.map (fun c => c.mergeSort le)).flatten.mergeSort le) (C.mergeSort le) := by
  have p1 : ((Cs.map (fun c => c.mergeSort le)).flatten).Perm C :=
    (map_mergeSort_flatten_perm le Cs).trans hperm
  have hP1 : ∀ a ∈ (Cs.map (fun c => c.mergeSort le)).flatten, P a :=
    fun a ha => hP a (p1.mem_iff.mp ha)
  refine ordered_perm_posRel h (((List.mergeSort_perm _ le).trans p1).trans (List.mergeSort_perm C le).symm)
    (fun a ha => hP1 a (List.mem_mergeSort.mp ha)) (ordered_mergeSort_on h _ hP1)
    (ordered_mergeSort_on h _ hP)

/-- the first `k` rows: every part may be cut to its own first `k` rows before the parts are merged -/
theorem topk_parts_posRel {α : Type} {P : α → Prop} {le : α → α → Bool} (h : TotalPreorderOn P le)
    (Cs : List (List α)) (C : List α) (hperm : Cs.flatten.Perm C) (hP : ∀ a ∈ C, P a) (k : Nat) :
    PosRel (Tie P le) (((Cs.map (fun c => (c.mergeSort le).take k)).flatten.mergeSort le).take k)
      ((C.mergeSort le).take k) := by
  have hPc : ∀ c ∈ Cs, ∀ a ∈ c, P a := fun c hc a ha =>
    hP a (hperm.mem_iff.mp (List.mem_flatten.mpr ⟨c, hc, ha⟩))
  have hPA : ∀ A ∈ Cs.map (fun c => c.mergeSort le), ∀ a ∈ A, P a := by
    intro A hA a ha
    obtain ⟨c, hc, rfl⟩ := List.mem_map.mp hA
    exact hPc c hc a (List.mem_mergeSort.mp ha)
  have hoA : ∀ A ∈ Cs.map (fun c => c.mergeSort le), Ordered le A := by
    intro A hA
    obtain ⟨c, hc, rfl⟩ := List.mem_map.mp hA
    exact ordered_mergeSort_on h c (hPc c hc)
  have t1 := take_mergeSort_flatten_take h (Cs.map (fun c => c.mergeSort le)) hPA hoA k
  rw [List.map_map] at t1
  have t2 := (sorted_parts_posRel h Cs C hperm hP).take k
  exact PosRel.trans (E := Tie P le) (fun _ _ _ => Tie.trans h)
    (PosRel.symm (E := Tie P le) (fun _ _ => Tie.symm) t1) t2

/-! ## 6. equal comparison means equal keys -/

theorem cmpKeyAsc_eq_imp (a b : SortKey) (ht : tag a = tag b) (h : cmpKeyAsc a b = .eq) : a = b := by
  cases a <;> cases b <;> simp only [tag] at ht <;> try omega
  · rw [Std.LawfulEqOrd.eq_of_compare (α := Int) h]
  · rw [Std.LawfulEqOrd.eq_of_compare (α := String) h]
  · rename_i x y
    rw [cmpKeyAsc_cv] at h
    unfold cvCmp at h
    by_cases hxy : x = y
    · rw [hxy]
    · have hb : (x == y) = false := by simp [hxy]
      rw [hb] at h
      simp only [Bool.false_eq_true, if_false] at h
      split at h
      · cases h
      · split at h
        · cases h
        · exact absurd (Std.LawfulEqOrd.eq_of_compare (α := String) h) hxy

theorem cmpDir_eq_imp (d : Bool) (a b : SortKey) (ht : tag a = tag b) (h : cmpDir d a b = .eq) : a = b := by
  apply cmpKeyAsc_eq_imp a b ht
  cases d
  · simpa [cmpDir] using h
  · simp only [cmpDir, if_true] at h
    revert h
    cases cmpKeyAsc a b <;> simp [Ordering.swap]

/-- key tuples built from the same sort fields that compare equal in every requested direction are equal -/
theorem cmpKeys_eq_imp : ∀ (dirs : List Bool) (as bs : List SortKey),
    as.map tag = bs.map tag → dirs.length = as.length → cmpKeys dirs as bs = .eq → as = bs
  | [], as, bs, ht, hl, _ => by
    cases as with
    | nil => cases bs with
      | nil => rfl
      | cons _ _ => simp at ht
    | cons _ _ => simp at hl
  | d :: dirs, as, bs, ht, hl, h => by
    cases as with
    | nil => simp at hl
    | cons a as =>
      cases bs with
      | nil => simp at ht
      | cons b bs =>
        simp only [List.map_cons, List.cons.injEq] at ht
        rw [cmpKeys_cons, Ordering.then_eq_eq] at h
        rw [cmpDir_eq_imp d a b ht.1 h.1,
          cmpKeys_eq_imp dirs as bs ht.2 (by simpa using hl) h.2]

theorem length_dirsOf (req : Request) : (dirsOf req).length = (sigOf req).length := by
  simp [dirsOf, sigOf]

theorem keys_eq_of_tie (req : Request) (a b : Hit)
    (h : Tie (HasSig (sigOf req)) (Hit.le (dirsOf req)) a b) : a.keys = b.keys := by
  obtain ⟨ha, hb, he⟩ := (tie_iff_cmpKeys_eq _ _ a b).mp h
  refine cmpKeys_eq_imp (dirsOf req) a.keys b.keys (ha.trans hb.symm) ?_ he
  have : (a.keys.map tag).length = (sigOf req).length := by rw [ha]
  rw [length_dirsOf, ← this, List.length_map]

theorem map_keys_of_posRel (req : Request) (l₁ l₂ : List Hit)
    (h : PosRel (Tie (HasSig (sigOf req)) (Hit.le (dirsOf req))) l₁ l₂) :
    l₁.map (·.keys) = l₂.map (·.keys) := by
  apply List.ext_getElem
  · simp [h.1]
  · intro i h₁ h₂
    simp only [List.getElem_map]
    exact keys_eq_of_tie req _ _ (h.2 i (by simpa using h₁) (by simpa using h₂))

/-! ## 7. the rows of the distributed answer -/

/-- without sort fields every order is the requested one, so "not sorted" is "sorted" as well -/
theorem sortReq_eq (req : Request) (l : List Hit) :
    (if req.sort.isEmpty then l else l.mergeSort (Hit.le (dirsOf req))) =
      l.mergeSort (Hit.le (dirsOf req)) := by
  split
  · rename_i he
    have hs : req.sort = [] := List.isEmpty_iff.mp he
    symm
    apply List.mergeSort_of_pairwise
    apply List.Pairwise.imp (R := fun _ _ => True)
    · intro a b _
      simp [Hit.le, dirsOf, hs, cmpKeys_nil_dirs]
    · exact List.pairwise_of_forall (fun _ _ => trivial)
  · rfl

/-- the rows the available backends of one sub request contribute (already cut per backend where the
    request is) -/
def partColl (m : EvalMode) (s : Schema) (ds : Dataset) (t : Table) (req : Request) (sub : List String) :
    List Hit :=
  (subAvail ds t sub).flatMap fun b => (gr m s ds t req b).hits

theorem collected_sub (m : EvalMode) (s : Schema) (ds : Dataset) (t : Table) (req : Request)
    (sub : List String) (hT : PerBackend t) (hne : sub ≠ [])
    (hc : peerCut m (subRequestFor req sub) = peerCut m req) :
    collected m s ds t (subRequestFor req sub) = partColl m s ds t req sub := by
  simp only [collected, peerResults, List.flatMap_map, availBackends_sub ds t req sub hT hne, partColl]
  apply flatMap_congr_mem
  intro b _
  exact congrArg PeerResult.hits (gr_sub m s ds t req sub hc b)

theorem collected_eq (m : EvalMode) (s : Schema) (ds : Dataset) (t : Table) (req : Request) :
    collected m s ds t req = (availBackends ds t req).flatMap fun b => (gr m s ds t req b).hits := by
  simp only [collected, peerResults, List.flatMap_map, gr]

/-- the rows of the sub requests are together, up to order, the rows the single answer collects -/
theorem partColl_perm (m : EvalMode) (s : Schema) (ds : Dataset) (t : Table) (req : Request)
    (shares : List (List String)) (hT : PerBackend t) (hp : Partition ds t req shares) :
    ((nodeSubs req shares).map (partColl m s ds t req)).flatten.Perm (collected m s ds t req) := by
  rw [collected_eq, ← List.flatMap_def]
  show ((nodeSubs req shares).flatMap fun sub =>
    (subAvail ds t sub).flatMap fun b => (gr m s ds t req b).hits).Perm _
  rw [← List.flatMap_assoc]
  exact (avail_perm ds t req shares hT hp).flatMap_right _

/-- the limit a sub request carries -/
def subLimit (req : Request) : Option Nat :=
  match req.limit with
  | some l => if l != 0 then some (l + req.offset) else none
  | none => none

/-- the rows one node returns: its backends' rows sorted, cut to the extended limit -/
theorem part_hits (m : EvalMode) (s : Schema) (ds : Dataset) (t : Table) (req : Request)
    (sub : List String) (hT : PerBackend t) (hne : sub ≠ [])
    (hc : peerCut m (subRequestFor req sub) = peerCut m req) :
    (dataQuery m s ds t (subRequestFor req sub)).hits =
      match subLimit req with
      | some k => ((partColl m s ds t req sub).mergeSort (Hit.le (dirsOf req))).take k
      | none => (partColl m s ds t req sub).mergeSort (Hit.le (dirsOf req)) := by
  have h0 : (subRequestFor req sub).offset ≤ totalOf m s ds t (subRequestFor req sub) := Nat.zero_le _
  rw [dataQuery_hits _ _ _ _ _ h0, dataQuery_pool _ _ _ _ _ h0, collected_sub m s ds t req sub hT hne hc]
  have hd : dirsOf (subRequestFor req sub) = dirsOf req := rfl
  have hl : (subRequestFor req sub).limit = subLimit req := rfl
  have ho : (subRequestFor req sub).offset = 0 := rfl
  rw [hd, window, hl, ho]
  cases subLimit req <;> simp

theorem distSorted_eq (m : EvalMode) (s : Schema) (ds : Dataset) (t : Table) (req : Request)
    (shares : List (List String)) (hT : PerBackend t)
    (hc : ∀ sub, peerCut m (subRequestFor req sub) = peerCut m req) :
    distSorted m s ds t req shares =
      ((nodeSubs req shares).map fun sub =>
        match subLimit req with
        | some k => ((partColl m s ds t req sub).mergeSort (Hit.le (dirsOf req))).take k
        | none => (partColl m s ds t req sub).mergeSort (Hit.le (dirsOf req))).flatten.mergeSort
        (Hit.le (dirsOf req)) := by
  rw [distSorted, sortReq_eq, dataParts, List.flatMap_map, List.flatMap_def]
  congr 2
  apply List.map_congr_left
  intro sub hsub
  exact part_hits m s ds t req sub hT (ne_nil_of_mem_nodeSubs hsub) (hc sub)

theorem hasSig_collected' (m : EvalMode) (s : Schema) (ds : Dataset) (t : Table) (req : Request) :
    ∀ h ∈ collected m s ds t req, HasSig (sigOf req) h := hasSig_collected m s ds t req

/-- every row of the merged, sorted list of the nodes is a row the single answer collects -/
theorem mem_distSorted (m : EvalMode) (s : Schema) (ds : Dataset) (t : Table) (req : Request)
    (shares : List (List String)) (hT : PerBackend t) (hp : Partition ds t req shares)
    (hc : ∀ sub, peerCut m (subRequestFor req sub) = peerCut m req) (x : Hit)
    (hx : x ∈ distSorted m s ds t req shares) : x ∈ collected m s ds t req := by
  rw [distSorted_eq m s ds t req shares hT hc] at hx
  have hx := List.mem_mergeSort.mp hx
  obtain ⟨l, hl, hxl⟩ := List.mem_flatten.mp hx
  obtain ⟨sub, hsub, rfl⟩ := List.mem_map.mp hl
  apply (partColl_perm m s ds t req shares hT hp).mem_iff.mp
  refine List.mem_flatten.mpr ⟨_, List.mem_map.mpr ⟨sub, hsub, rfl⟩, ?_⟩
  cases hk : subLimit req with
  | none => rw [hk] at hxl; exact List.mem_mergeSort.mp hxl
  | some k => rw [hk] at hxl; exact List.mem_mergeSort.mp (List.mem_of_mem_take hxl)

/-- the heart: the window of the distributed answer and the window of the single answer have the same
    length and, position by position, rows that tie under the requested order -/
theorem distHits_posRel (m : EvalMode) (s : Schema) (ds : Dataset) (t : Table) (req : Request)
    (shares : List (List String)) (hT : PerBackend t) (hp : Partition ds t req shares) :
    PosRel (Tie (HasSig (sigOf req)) (Hit.le (dirsOf req)))
      (distData m s ds t req shares).hits (dataQuery m s ds t req).hits := by
  have hpre := hitLe_totalPreorderOn (dirsOf req) (sigOf req)
  by_cases hz : req.limit = some 0
  · have h1 : (distData m s ds t req shares).hits = [] := by
      rw [distData_hits, hz]; simp
    have h2 : (dataQuery m s ds t req).hits = [] := by
      by_cases h : req.offset ≤ totalOf m s ds t req
      · rw [dataQuery_hits m s ds t req h, window, hz]; simp
      · exact (dataQuery_beyond m s ds t req (Nat.lt_of_not_le h)).1
    rw [h1, h2]
    exact PosRel.nil
  · have hc : ∀ sub, peerCut m (subRequestFor req sub) = peerCut m req :=
      fun sub => peerCut_sub m req sub (fun h => absurd h hz)
    have htot := distTotal_eq m s ds t req shares hT hp (fun h => absurd h hz)
    by_cases h : req.offset ≤ totalOf m s ds t req
    · rw [distData_hits, htot, dataQuery_hits m s ds t req h, dataQuery_pool m s ds t req h, window,
        distSorted_eq m s ds t req shares hT hc]
      have hgt : ¬ req.offset > totalOf m s ds t req := Nat.not_lt.mpr h
      simp only [hgt, if_false]
      have hperm := partColl_perm m s ds t req shares hT hp
      have hsig := hasSig_collected m s ds t req
      cases hl : req.limit with
      | none =>
        have hk : subLimit req = none := by simp [subLimit, hl]
        simp only [hk]
        have := (sorted_parts_posRel hpre _ _ hperm hsig).drop req.offset
        rw [List.map_map] at this
        exact this
      | some l =>
        have hl0 : l ≠ 0 := fun e => hz (by rw [hl, e])
        have hk : subLimit req = some (l + req.offset) := by simp [subLimit, hl, hl0]
        simp only [hk]
        rw [List.take_drop, List.take_drop, Nat.add_comm req.offset l]
        have := (topk_parts_posRel hpre _ _ hperm hsig (l + req.offset)).drop req.offset
        rw [List.map_map] at this
        exact this
    · have h1 : (distData m s ds t req shares).hits = [] := by
        rw [distData_hits, htot]
        have hgt : req.offset > totalOf m s ds t req := Nat.lt_of_not_le h
        simp only [hgt, if_true]
        cases req.limit <;> simp
      rw [h1, (dataQuery_beyond m s ds t req (Nat.lt_of_not_le h)).1]
      exact PosRel.nil

/-- every returned row of the distributed answer is in the sorted pool of the single answer -/
theorem distHits_mem_pool (m : EvalMode) (s : Schema) (ds : Dataset) (t : Table) (req : Request)
    (shares : List (List String)) (hT : PerBackend t) (hp : Partition ds t req shares) (x : Hit)
    (hx : x ∈ (distData m s ds t req shares).hits) : x ∈ (dataQuery m s ds t req).pool := by
  by_cases hz : req.limit = some 0
  · rw [distData_hits, hz] at hx
    simp at hx
  · have hc : ∀ sub, peerCut m (subRequestFor req sub) = peerCut m req :=
      fun sub => peerCut_sub m req sub (fun h => absurd h hz)
    have htot := distTotal_eq m s ds t req shares hT hp (fun h => absurd h hz)
    rw [distData_hits, htot] at hx
    by_cases h : req.offset ≤ totalOf m s ds t req
    · have hgt : ¬ req.offset > totalOf m s ds t req := Nat.not_lt.mpr h
      simp only [hgt, if_false] at hx
      have hx' : x ∈ distSorted m s ds t req shares := by
        cases hl : req.limit with
        | none => rw [hl] at hx; exact List.mem_of_mem_drop hx
        | some l => rw [hl] at hx; exact List.mem_of_mem_drop (List.mem_of_mem_take hx)
      rw [dataQuery_pool m s ds t req h]
      exact List.mem_mergeSort.mpr (mem_distSorted m s ds t req shares hT hp hc x hx')
    · have hgt : req.offset > totalOf m s ds t req := Nat.lt_of_not_le h
      simp only [hgt, if_true] at hx
      cases hl : req.limit <;> rw [hl] at hx <;> simp at hx

/-- without Limit and Offset the distributed answer returns, up to order, the rows of the single answer,
    in an order that respects the requested sort -/
theorem distHits_nolimit (m : EvalMode) (s : Schema) (ds : Dataset) (t : Table) (req : Request)
    (shares : List (List String)) (hT : PerBackend t) (hp : Partition ds t req shares)
    (hl : req.limit = none) (ho : req.offset = 0) :
    (distData m s ds t req shares).hits.Perm (dataQuery m s ds t req).hits ∧
      (distData m s ds t req shares).hits.Pairwise (fun a b => Hit.le (dirsOf req) a b = true) := by
  have hpre := hitLe_totalPreorderOn (dirsOf req) (sigOf req)
  have hz : req.limit ≠ some 0 := by rw [hl]; simp
  have hc : ∀ sub, peerCut m (subRequestFor req sub) = peerCut m req :=
    fun sub => peerCut_sub m req sub (fun h => absurd h hz)
  have h : req.offset ≤ totalOf m s ds t req := by rw [ho]; exact Nat.zero_le _
  have hk : subLimit req = none := by simp [subLimit, hl]
  have hperm := partColl_perm m s ds t req shares hT hp
  have hsig := hasSig_collected m s ds t req
  have e1 : (distData m s ds t req shares).hits =
      ((nodeSubs req shares).map fun sub =>
        (partColl m s ds t req sub).mergeSort (Hit.le (dirsOf req))).flatten.mergeSort
        (Hit.le (dirsOf req)) := by
    rw [distData_hits, hl, ho, distSorted_eq m s ds t req shares hT hc]
    simp [hk]
  have e2 : (dataQuery m s ds t req).hits = (collected m s ds t req).mergeSort (Hit.le (dirsOf req)) := by
    rw [dataQuery_hits m s ds t req h, dataQuery_pool m s ds t req h, window, hl, ho]
    simp
  have p1 : (((nodeSubs req shares).map fun sub =>
        (partColl m s ds t req sub).mergeSort (Hit.le (dirsOf req))).flatten).Perm
      (collected m s ds t req) := by
    have := map_mergeSort_flatten_perm (Hit.le (dirsOf req)) ((nodeSubs req shares).map (partColl m s ds t req))
    rw [List.map_map] at this
    exact this.trans hperm
  rw [e1, e2]
  refine ⟨((List.mergeSort_perm _ _).trans p1).trans (List.mergeSort_perm _ _).symm, ?_⟩
  exact ordered_mergeSort_on hpre _ (fun a ha => hsig a (p1.mem_iff.mp ha))

end Lmd.Dist
