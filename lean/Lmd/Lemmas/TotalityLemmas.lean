/-
  Lmd.Lemmas.TotalityLemmas — helper lemmas for the totality statements of C09 (`Lmd.Props.C09Total`):
  every refusal of the request parser falls into a fixed class, the group and negate headers on the
  filter / stats stacks, which columns a query reads without meeting the marker of a Go panic,
  the regular-expression compiler on degenerate patterns, and the connection loop after a bad request.
-/
import Lmd.Lemmas.TotalLemmas
import Lmd.Lemmas.Frame
namespace Lmd.Totality
open Lmd Lmd.Total

def badMessages : List String :=
  ["empty", "bad request", "table does not exist", "unknown sort column", "syntax error", "unrecognized header",
   "must be a positive number", "not enough filter on stack", "no filter/stats on stack to negate",
   "only counters can be combined", "stats header", "filter header must be Filter: <field> <operator> <value>",
   "unrecognized filter operator", "could not convert to number", "custom variable filter",
   "invalid regular expression", "expecting a positive number", "must be 'on' or 'off'", "invalid sort header",
   "unrecognized sort direction", "unrecognized responseformat", "unrecognized outputformat",
   "AuthUser should not be empty"]

def UnsupportedWhy (w : String) : Prop :=
  w = "command" ∨ w = "WaitConditionAnd" ∨ w = "WaitConditionOr" ∨
  (∃ v, w = s!"number syntax {v}" ∧ parseMilli? v = none ∧ mayBeGoFloat v = true) ∨
  (∃ pat, w = s!"regex {pat}" ∧ compileRegex pat = .unsupported)

def Classified : ParseErr → Prop
  | .bad m => m ∈ badMessages
  | .unsupported w => UnsupportedWhy w

theorem bad_classified {m : String} (h : m ∈ badMessages) : Classified (.bad m) := h

theorem setFilterValue_classified (l : Leaf) (raw : String) (e : ParseErr)
    (h : setFilterValue l raw = .error e) : Classified e := by
  unfold setFilterValue at h
  simp only [pure, Except.pure, throw, throwThe, MonadExceptOf.throw] at h
  repeat' split at h
  all_goals first
    | (cases h; done)
    | (cases h; show _ ∈ badMessages; simp [badMessages])
    | (cases h; rename_i _ _ _ hm hg; exact .inr (.inr (.inr (.inl ⟨trimSpace raw, rfl, hm, hg⟩))))

theorem setRegexFilter_classified (opt : Bool) (l : Leaf) (sd : Bool) (e : ParseErr)
    (h : setRegexFilter opt l sd = .error e) : Classified e := by
  unfold setRegexFilter at h
  extract_lets v1 v2 isS l2 l3 pat at h
  simp only [pure, Except.pure, throw, throwThe, MonadExceptOf.throw, bind, Except.bind] at h
  split at h
  · split at h <;> cases h
  · split at h
    · cases h
    · cases h; show _ ∈ badMessages; simp [badMessages]
    · rename_i hu
      cases h
      exact .inr (.inr (.inr (.inr ⟨_, rfl, hu⟩)))


/-- the four operators that evaluate a compiled regular expression -/
def isRegexOp : Op → Bool
  | .re | .nre | .reNc | .nreNc => true
  | _ => false

theorem setRegexFilter_ok (opt : Bool) (l : Leaf) (sd : Bool) (l' : Leaf)
    (h : setRegexFilter opt l sd = .ok l') (hop : isRegexOp l'.op = true) :
    ∃ r pat, l'.rx = some r ∧ compileRegex pat = .ok r := by
  unfold setRegexFilter at h
  extract_lets v1 v2 isS l2 l3 pat at h
  simp only [pure, Except.pure, throw, throwThe, MonadExceptOf.throw] at h
  split at h
  · clear_value pat l3
    split at h
    all_goals (simp only [Except.ok.injEq] at h; subst h)
    all_goals first
      | (cases hop; done)
      | (rename_i hne1 hne2 hne3 hne4
         exfalso
         cases hl : l3.op <;> simp_all [isRegexOp])
  · split at h
    · rename_i r hr
      cases h
      exact ⟨r, pat, rfl, hr⟩
    · cases h
    · cases h

theorem setRegexFilter_bad (opt : Bool) (l : Leaf) (sd : Bool) (m : String)
    (h : setRegexFilter opt l sd = .error (.bad m)) :
    m = "invalid regular expression" ∧ ∃ pat, compileRegex pat = .invalid := by
  unfold setRegexFilter at h
  extract_lets v1 v2 isS l2 l3 pat at h
  simp only [pure, Except.pure, throw, throwThe, MonadExceptOf.throw] at h
  split at h
  · split at h <;> cases h
  · split at h
    · cases h
    · rename_i hu
      cases h
      exact ⟨rfl, pat, hu⟩
    · cases h


theorem parseOp_nonregex (s : String) (op : Op) (h : parseOp s = some (op, false)) : isRegexOp op = false := by
  unfold parseOp at h
  split at h <;> simp only [Option.some.injEq, Prod.mk.injEq, reduceCtorEq, Bool.true_eq_false, and_false, and_true] at h
  all_goals first
    | (subst h; rfl)
    | skip

theorem setFilterValue_op (l : Leaf) (raw : String) (l' : Leaf) (h : setFilterValue l raw = .ok l') :
    l'.op = l.op := by
  unfold setFilterValue at h
  simp only [pure, Except.pure, throw, throwThe, MonadExceptOf.throw] at h
  repeat' split at h
  all_goals first
    | (cases h; done)
    | (cases h; rfl)

theorem setLowerCaseColumn_regexOp (t : Table) (l : Leaf) :
    isRegexOp (setLowerCaseColumn t l).op = isRegexOp l.op := by
  unfold setLowerCaseColumn
  repeat' split
  all_goals first
    | rfl
    | (simp_all [isRegexOp]; done)


theorem parseFilterLeaf_classified (o : ParseOpts) (t : Table) (value : String) (e : ParseErr)
    (h : parseFilterLeaf o t value = .error e) : Classified e := by
  unfold parseFilterLeaf at h
  simp only [pure, Except.pure, throw, throwThe, MonadExceptOf.throw, bind, Except.bind] at h
  split at h
  · split at h
    · cases h; show _ ∈ badMessages; simp [badMessages]
    · split at h
      · rename_i hsv
        cases h
        exact setFilterValue_classified _ _ _ hsv
      · split at h
        · exact setRegexFilter_classified _ _ _ _ h
        · cases h
  · cases h; show _ ∈ badMessages; simp [badMessages]

theorem parseFilterLeaf_ok (o : ParseOpts) (t : Table) (value : String) (l : Leaf)
    (h : parseFilterLeaf o t value = .ok l) (hop : isRegexOp l.op = true) :
    ∃ r pat, l.rx = some r ∧ compileRegex pat = .ok r := by
  unfold parseFilterLeaf at h
  simp only [pure, Except.pure, throw, throwThe, MonadExceptOf.throw, bind, Except.bind] at h
  split at h
  · split at h
    · cases h
    · rename_i op isRegex hpo
      split at h
      · cases h
      · rename_i l1 hsv
        have h1 : l1.op = op := setFilterValue_op _ _ _ hsv
        split at h
        · exact setRegexFilter_ok _ _ _ _ h hop
        · rename_i hnr
          have hir : isRegex = false := by simpa using hnr
          subst hir
          have hnon := parseOp_nonregex _ _ hpo
          exfalso
          simp only [Except.ok.injEq] at h
          subst h
          revert hop
          split
          · rw [setLowerCaseColumn_regexOp]
            split <;> simp [h1, hnon]
          · split <;> simp [h1, hnon]
  · cases h


macro "close_bad" : tactic => `(tactic| (show _ ∈ badMessages; simp [badMessages]))

theorem groupOp_classified (a : Bool) (v : String) (st : List Filter) (e : ParseErr)
    (h : groupOp a v st = .error e) : Classified e := by
  unfold groupOp at h
  simp only [pure, Except.pure, throw, throwThe, MonadExceptOf.throw] at h
  repeat' split at h
  all_goals first
    | (cases h; done)
    | (cases h; close_bad)

theorem negateTop_classified (q : Quirks) (st : List Filter) (e : ParseErr)
    (h : negateTop q st = .error e) : Classified e := by
  unfold negateTop at h
  simp only [pure, Except.pure, throw, throwThe, MonadExceptOf.throw] at h
  split at h
  · cases h; close_bad
  · cases h

theorem parseStats_classified (o : ParseOpts) (t : Table) (v : String) (st : List StatsEntry) (e : ParseErr)
    (h : parseStats o t v st = .error e) : Classified e := by
  unfold parseStats at h
  simp only [pure, Except.pure, throw, throwThe, MonadExceptOf.throw, bind, Except.bind] at h
  split at h
  · split at h
    · cases h
    · split at h
      · rename_i hl
        cases h
        exact parseFilterLeaf_classified _ _ _ _ hl
      · cases h
  · cases h; close_bad

theorem statsGroupOp_classified (o : ParseOpts) (t : Table) (a : Bool) (v : String) (st : List StatsEntry)
    (e : ParseErr) (h : statsGroupOp o t a v st = .error e) : Classified e := by
  unfold statsGroupOp at h
  simp only [pure, Except.pure, throw, throwThe, MonadExceptOf.throw] at h
  split at h
  · exact parseStats_classified _ _ _ _ _ h
  · repeat' split at h
    all_goals first
      | (cases h; done)
      | (cases h; close_bad)

theorem parseNat_classified (v : String) (m : Nat) (e : ParseErr) (h : parseNat v m = .error e) :
    Classified e := by
  unfold parseNat at h
  simp only [pure, Except.pure, throw, throwThe, MonadExceptOf.throw] at h
  repeat' split at h
  all_goals first
    | (cases h; done)
    | (cases h; close_bad)

theorem parseOnOff_classified (v : String) (e : ParseErr) (h : parseOnOff v = .error e) : Classified e := by
  unfold parseOnOff at h
  simp only [pure, Except.pure, throw, throwThe, MonadExceptOf.throw] at h
  repeat' split at h
  all_goals first
    | (cases h; done)
    | (cases h; close_bad)

theorem parseSort_classified (v : String) (e : ParseErr) (h : parseSort v = .error e) : Classified e := by
  unfold parseSort at h
  simp only [pure, Except.pure, throw, throwThe, MonadExceptOf.throw, bind, Except.bind] at h
  repeat' split at h
  all_goals first
    | (cases h; done)
    | (cases h; close_bad)


theorem parseHeaderLine_classified (o : ParseOpts) (t : Table) (req : Request) (line : String) (e : ParseErr)
    (h : parseHeaderLine o t req line = .error e) : Classified e := by
  unfold parseHeaderLine at h
  simp only [pure, Except.pure, throw, throwThe, MonadExceptOf.throw, bind, Except.bind] at h
  repeat' split at h
  all_goals first
    | (cases h; done)
    | (cases h; close_bad)
    | (cases h; exact .inr (.inl rfl))
    | (cases h; exact .inr (.inr (.inl rfl)))
    | (rename_i hs; cases h; with_reducible first
        | exact parseFilterLeaf_classified _ _ _ _ hs
        | exact groupOp_classified _ _ _ _ hs
        | exact negateTop_classified _ _ _ hs
        | exact parseStats_classified _ _ _ _ _ hs
        | exact statsGroupOp_classified _ _ _ _ _ _ hs
        | exact parseSort_classified _ _ hs
        | exact parseNat_classified _ _ _ hs
        | exact parseOnOff_classified _ _ hs)


theorem parseHeaderLines_classified (o : ParseOpts) (t : Table) :
    ∀ (lines : List String) (req : Request) (e : ParseErr),
      parseHeaderLines o t req lines = .error e → Classified e
  | [], req, e, h => by simp [parseHeaderLines, pure, Except.pure] at h
  | line :: rest, req, e, h => by
    simp only [parseHeaderLines, bind, Except.bind, pure, Except.pure] at h
    split at h
    · cases h
    · split at h
      · rename_i e1 h1
        cases h
        exact parseHeaderLine_classified _ _ _ _ _ h1
      · exact parseHeaderLines_classified o t rest _ e h

theorem parseAction_classified (first : String) (e : ParseErr) (h : parseAction first = .error e) :
    Classified e := by
  unfold parseAction at h
  simp only [pure, Except.pure, throw, throwThe, MonadExceptOf.throw] at h
  repeat' split at h
  all_goals first
    | (cases h; done)
    | (cases h; close_bad)
    | (cases h; exact .inl rfl)

theorem parseRequest_classified (s : Schema) (o : ParseOpts) (text : String) (e : ParseErr)
    (h : parseRequest s o text = .error e) : Classified e := by
  unfold parseRequest at h
  simp only [bind, Except.bind, pure, Except.pure, throw, throwThe, MonadExceptOf.throw] at h
  split at h
  · cases h; close_bad
  · split at h
    · rename_i ha
      cases h
      exact parseAction_classified _ _ ha
    · split at h
      · cases h; close_bad
      · split at h
        · rename_i hl
          cases h
          exact parseHeaderLines_classified _ _ _ _ _ hl
        · repeat' split at h
          all_goals first
            | (cases h; done)
            | (cases h; close_bad)


/-! ## header dispatch -/

def knownHeaders : List String :=
  ["filter", "and", "or", "negate", "stats", "statsand", "statsor", "statsnegate", "sort", "limit", "offset",
   "backends", "columns", "responseheader", "outputformat", "waittimeout", "waittrigger", "waitobject",
   "waitcondition", "waitconditionand", "waitconditionor", "waitconditionnegate", "keepalive", "columnheaders",
   "localtime", "authuser"]

theorem headerLine_nocolon (o : ParseOpts) (t : Table) (req : Request) (line x : String)
    (hc : cut ':' line = (x, none)) : parseHeaderLine o t req line = .error (.bad "syntax error") := by
  unfold parseHeaderLine
  simp only [hc]
  rfl

theorem headerLine_unknown (o : ParseOpts) (t : Table) (req : Request) (line hdr rest : String)
    (hc : cut ':' line = (hdr, some rest)) (hk : goLower hdr ∉ knownHeaders) :
    parseHeaderLine o t req line = .error (.bad "unrecognized header") := by
  unfold parseHeaderLine
  simp only [hc]
  generalize goLower hdr = h at hk
  split <;> first | (exfalso; revert hk; decide) | rfl

theorem headerLine_and (o : ParseOpts) (t : Table) (req : Request) (line hdr rest : String)
    (hc : cut ':' line = (hdr, some rest)) (hh : goLower hdr = "and") :
    parseHeaderLine o t req line =
      (groupOp true (trimLeftSpaces rest) req.filter).map (fun f => { req with filter := f }) := by
  unfold parseHeaderLine
  simp only [hc, hh]
  cases groupOp true (trimLeftSpaces rest) req.filter <;> rfl

theorem headerLine_or (o : ParseOpts) (t : Table) (req : Request) (line hdr rest : String)
    (hc : cut ':' line = (hdr, some rest)) (hh : goLower hdr = "or") :
    parseHeaderLine o t req line =
      (groupOp false (trimLeftSpaces rest) req.filter).map (fun f => { req with filter := f }) := by
  unfold parseHeaderLine
  simp only [hc, hh]
  cases groupOp false (trimLeftSpaces rest) req.filter <;> rfl

theorem headerLine_negate (o : ParseOpts) (t : Table) (req : Request) (line hdr rest : String)
    (hc : cut ':' line = (hdr, some rest)) (hh : goLower hdr = "negate") :
    parseHeaderLine o t req line = (negateTop o.q req.filter).map (fun f => { req with filter := f }) := by
  unfold parseHeaderLine
  simp only [hc, hh]
  cases negateTop o.q req.filter <;> rfl

theorem headerLine_statsand (o : ParseOpts) (t : Table) (req : Request) (line hdr rest : String)
    (hc : cut ':' line = (hdr, some rest)) (hh : goLower hdr = "statsand") :
    parseHeaderLine o t req line =
      (statsGroupOp o t true (trimLeftSpaces rest) req.stats).map (fun st => { req with stats := st }) := by
  unfold parseHeaderLine
  simp only [hc, hh]
  cases statsGroupOp o t true (trimLeftSpaces rest) req.stats <;> rfl

theorem headerLine_statsor (o : ParseOpts) (t : Table) (req : Request) (line hdr rest : String)
    (hc : cut ':' line = (hdr, some rest)) (hh : goLower hdr = "statsor") :
    parseHeaderLine o t req line =
      (statsGroupOp o t false (trimLeftSpaces rest) req.stats).map (fun st => { req with stats := st }) := by
  unfold parseHeaderLine
  simp only [hc, hh]
  cases statsGroupOp o t false (trimLeftSpaces rest) req.stats <;> rfl

theorem headerLine_statsnegate (o : ParseOpts) (t : Table) (req : Request) (line hdr rest : String)
    (hc : cut ':' line = (hdr, some rest)) (hh : goLower hdr = "statsnegate") :
    parseHeaderLine o t req line =
      if req.stats.isEmpty then .error (.bad "no filter/stats on stack to negate")
      else .ok { req with stats := mapLast (StatsEntry.setNeg o.q) req.stats } := by
  unfold parseHeaderLine
  simp only [hc, hh]
  split <;> rfl

/-! ## the group and negate operations on a stack -/

theorem groupOp_nan (a : Bool) (v : String) (st : List Filter) (h : atoi? v = none) :
    groupOp a v st = .error (.bad "must be a positive number") := by
  unfold groupOp; simp only [h]; rfl

theorem groupOp_neg (a : Bool) (v : String) (st : List Filter) (n : Int) (h : atoi? v = some n) (hn : n < 0) :
    groupOp a v st = .error (.bad "must be a positive number") := by
  unfold groupOp; simp only [h, hn, if_true]; rfl

theorem groupOp_zero (a : Bool) (v : String) (st : List Filter) (h : atoi? v = some 0) :
    groupOp a v st = .ok st := by
  unfold groupOp; simp only [h]; rfl

theorem groupOp_too_many (a : Bool) (v : String) (st : List Filter) (n : Int) (h : atoi? v = some n)
    (hn : (st.length : Int) < n) : groupOp a v st = .error (.bad "not enough filter on stack") := by
  unfold groupOp
  have h0 : ¬ n < 0 := by omega
  have h1 : (n == 0) = false := by simp; omega
  have h2 : st.length < n.toNat := by omega
  simp only [h, h0, h1, h2, if_true, if_false, Bool.false_eq_true]
  rfl

theorem groupOp_ok (a : Bool) (v : String) (st : List Filter) (n : Int) (h : atoi? v = some n)
    (hp : 0 < n) (hn : n ≤ (st.length : Int)) :
    groupOp a v st = .ok (st.take (st.length - n.toNat) ++ [Filter.grp a (st.drop (st.length - n.toNat)) false]) := by
  unfold groupOp
  have h0 : ¬ n < 0 := by omega
  have h1 : (n == 0) = false := by simp; omega
  have h2 : ¬ st.length < n.toNat := by omega
  simp only [h, h0, h1, h2, if_false, Bool.false_eq_true]
  rfl

theorem negateTop_nil (q : Quirks) : negateTop q [] = .error (.bad "no filter/stats on stack to negate") := rfl

theorem mapLast_length {α} (f : α → α) : ∀ l : List α, (mapLast f l).length = l.length
  | [] => rfl
  | [_] => rfl
  | _ :: b :: l => by simp [mapLast, mapLast_length f (b :: l)]

theorem negateTop_cons (q : Quirks) (f : Filter) (st : List Filter) :
    negateTop q (f :: st) = .ok (mapLast (Filter.setNeg q) (f :: st)) := rfl

theorem statsGroupOp_nan (o : ParseOpts) (t : Table) (a : Bool) (v : String) (st : List StatsEntry)
    (h : atoi? v = none) : statsGroupOp o t a v st = .error (.bad "must be a positive number") := by
  unfold statsGroupOp; simp only [h]; rfl

theorem statsGroupOp_neg (o : ParseOpts) (t : Table) (a : Bool) (v : String) (st : List StatsEntry) (n : Int)
    (h : atoi? v = some n) (hn : n < 0) : statsGroupOp o t a v st = .error (.bad "must be a positive number") := by
  unfold statsGroupOp
  have h1 : (some n == some (0 : Int)) = false := by simp; omega
  simp only [h, h1, hn, if_true, Bool.false_eq_true, if_false]; rfl

theorem statsGroupOp_zero (o : ParseOpts) (t : Table) (a : Bool) (v : String) (st : List StatsEntry)
    (h : atoi? v = some 0) : statsGroupOp o t a v st = parseStats o t "state != 9999" st := by
  unfold statsGroupOp; simp only [h]; rfl

theorem statsGroupOp_too_many (o : ParseOpts) (t : Table) (a : Bool) (v : String) (st : List StatsEntry) (n : Int)
    (h : atoi? v = some n) (hn : (st.length : Int) < n) :
    statsGroupOp o t a v st = .error (.bad "not enough filter on stack") := by
  unfold statsGroupOp
  have h1 : (some n == some (0 : Int)) = false := by simp; omega
  have h0 : ¬ n < 0 := by omega
  have h2 : st.length < n.toNat := by omega
  simp only [h, h1, h0, h2, if_true, Bool.false_eq_true, if_false]; rfl


/-! ## the header section as a whole -/

/-- an empty (blank) line ends the header section: nothing behind it is read -/
theorem parseHeaderLines_blank (o : ParseOpts) (t : Table) (req : Request) (line : String) (rest : List String)
    (h : trimSpace line = "") : parseHeaderLines o t req (line :: rest) = .ok req := by
  rw [parseHeaderLines]
  simp only [h]
  rfl

theorem parseHeaderLines_step (o : ParseOpts) (t : Table) (req : Request) (line : String) (rest : List String)
    (h : trimSpace line ≠ "") :
    parseHeaderLines o t req (line :: rest) =
      (parseHeaderLine o t req (trimSpace line)).bind (fun r => parseHeaderLines o t r rest) := by
  rw [parseHeaderLines]
  have : (trimSpace line == "") = false := by simpa using h
  simp only [this]
  rfl

/-- the first header line that is refused decides the verdict, whatever follows it -/
theorem parseHeaderLines_first_error (o : ParseOpts) (t : Table)
    (pre : List String) (req req' : Request) (line : String) (rest : List String) (e : ParseErr)
    (hne : ∀ l ∈ pre, trimSpace l ≠ "") (hok : parseHeaderLines o t req pre = .ok req')
    (hl : trimSpace line ≠ "") (he : parseHeaderLine o t req' (trimSpace line) = .error e) :
    parseHeaderLines o t req (pre ++ line :: rest) = .error e := by
  induction pre generalizing req with
  | nil =>
    have hq : req = req' := by
      rw [parseHeaderLines] at hok
      exact Except.ok.inj hok
    subst hq
    rw [List.nil_append, parseHeaderLines_step _ _ _ _ _ hl, he]
    rfl
  | cons p pre ih =>
    have hp : trimSpace p ≠ "" := hne p List.mem_cons_self
    rw [parseHeaderLines_step _ _ _ _ _ hp] at hok
    rw [List.cons_append, parseHeaderLines_step _ _ _ _ _ hp]
    cases h1 : parseHeaderLine o t req (trimSpace p) with
    | error e1 => rw [h1] at hok; cases hok
    | ok r1 =>
      rw [h1] at hok
      exact ih r1 (fun l hm => hne l (List.mem_cons_of_mem _ hm)) hok

/-! ## the aggregated columns of an accepted request -/

/-- every aggregate of the stats stack is over a column of the table or the placeholder column -/
def AggFrom (t : Table) (stats : List StatsEntry) : Prop :=
  ∀ k c n, StatsEntry.agg k c n ∈ stats → c ∈ t.cols ∨ c = emptyColumn

theorem colWithFallback_mem (t : Table) (n : String) : t.colWithFallback n ∈ t.cols ∨ t.colWithFallback n = emptyColumn := by
  unfold Table.colWithFallback
  split
  · rename_i c hc
    exact .inl (List.mem_of_find?_eq_some hc)
  · split
    · rename_i c hc
      exact .inl (List.mem_of_find?_eq_some hc)
    · exact .inr rfl

theorem parseStats_aggFrom (o : ParseOpts) (t : Table) (v : String) (st st' : List StatsEntry)
    (hi : AggFrom t st) (h : parseStats o t v st = .ok st') : AggFrom t st' := by
  unfold parseStats at h
  simp only [pure, Except.pure, throw, throwThe, MonadExceptOf.throw, bind, Except.bind] at h
  split at h
  · split at h
    · cases h
      intro k c n hm
      rcases List.mem_append.1 hm with hm | hm
      · exact hi k c n hm
      · simp only [List.mem_singleton, StatsEntry.agg.injEq] at hm
        rw [hm.2.1]
        exact colWithFallback_mem t _
    · split at h
      · cases h
      · cases h
        intro k c n hm
        rcases List.mem_append.1 hm with hm | hm
        · exact hi k c n hm
        · simp at hm
  · cases h

theorem statsGroupOp_aggFrom (o : ParseOpts) (t : Table) (a : Bool) (v : String) (st st' : List StatsEntry)
    (hi : AggFrom t st) (h : statsGroupOp o t a v st = .ok st') : AggFrom t st' := by
  unfold statsGroupOp at h
  simp only [pure, Except.pure, throw, throwThe, MonadExceptOf.throw] at h
  split at h
  · exact parseStats_aggFrom _ _ _ _ _ hi h
  · repeat' split at h
    all_goals first
      | (cases h; done)
      | (cases h
         intro k c n hm
         rcases List.mem_append.1 hm with hm | hm
         · exact hi k c n (List.mem_of_mem_take hm)
         · simp at hm)

theorem mapLast_setNeg_agg (q : Quirks) : ∀ (st : List StatsEntry) (k : AggKind) (c : Column) (n : Bool),
    StatsEntry.agg k c n ∈ mapLast (StatsEntry.setNeg q) st → ∃ n', StatsEntry.agg k c n' ∈ st
  | [], _, _, _, h => by simp [mapLast] at h
  | [e], k, c, n, h => by
    simp only [mapLast, List.mem_singleton] at h
    cases e with
    | counter f => simp [StatsEntry.setNeg] at h
    | agg k' c' n' =>
      simp only [StatsEntry.setNeg, StatsEntry.agg.injEq] at h
      exact ⟨n', by simp [h.1, h.2.1]⟩
  | e :: e2 :: st, k, c, n, h => by
    simp only [mapLast, List.mem_cons] at h
    rcases h with h | h
    · exact ⟨n, by simp [h]⟩
    · obtain ⟨n', hn'⟩ := mapLast_setNeg_agg q (e2 :: st) k c n (by simpa [mapLast] using h)
      exact ⟨n', List.mem_cons_of_mem _ hn'⟩


theorem parseHeaderLine_aggFrom (o : ParseOpts) (t : Table) (req req' : Request) (line : String)
    (hi : AggFrom t req.stats) (h : parseHeaderLine o t req line = .ok req') : AggFrom t req'.stats := by
  unfold parseHeaderLine at h
  simp only [pure, Except.pure, throw, throwThe, MonadExceptOf.throw, bind, Except.bind] at h
  repeat' split at h
  all_goals first
    | (cases h; done)
    | (cases h; exact hi)
    | (rename_i hs; cases h; with_reducible first
        | exact parseStats_aggFrom _ _ _ _ _ hi hs
        | exact statsGroupOp_aggFrom _ _ _ _ _ _ hi hs)
    | (cases h
       intro k c n hm
       obtain ⟨n', hn'⟩ := mapLast_setNeg_agg _ _ k c n hm
       exact hi k c n' hn')

theorem parseHeaderLines_aggFrom (o : ParseOpts) (t : Table) (lines : List String) (req req' : Request)
    (hi : AggFrom t req.stats) (h : parseHeaderLines o t req lines = .ok req') : AggFrom t req'.stats := by
  induction lines generalizing req with
  | nil =>
    rw [parseHeaderLines] at h
    rw [← Except.ok.inj h]; exact hi
  | cons line rest ih =>
    by_cases hb : trimSpace line = ""
    · rw [parseHeaderLines_blank _ _ _ _ _ hb] at h
      rw [← Except.ok.inj h]; exact hi
    · rw [parseHeaderLines_step _ _ _ _ _ hb] at h
      cases h1 : parseHeaderLine o t req (trimSpace line) with
      | error e1 => rw [h1] at h; cases h
      | ok r1 =>
        rw [h1] at h
        exact ih r1 (parseHeaderLine_aggFrom _ _ _ _ _ hi h1) h

/-- the aggregates of an accepted request are over columns of its table (or the placeholder column) -/
theorem parseRequest_aggFrom (s : Schema) (o : ParseOpts) (text : String) (req : Request) (t : Table)
    (h : parseRequest s o text = .ok req) (ht : s.table? req.table = some t) : AggFrom t req.stats := by
  unfold parseRequest at h
  simp only [bind, Except.bind, pure, Except.pure, throw, throwThe, MonadExceptOf.throw] at h
  split at h
  · cases h
  · split at h
    · cases h
    · rename_i tname hact
      split at h
      · cases h
      · rename_i t0 ht0
        split at h
        · cases h
        · rename_i r1 h1
          have htab : r1.table = tname := parseHeaderLines_table o t0 _ _ r1 h1
          have hagg : AggFrom t0 r1.stats :=
            parseHeaderLines_aggFrom o t0 _ _ r1 (by intro k c n hm; cases hm) h1
          repeat' split at h
          all_goals first
            | (cases h; done)
            | (cases h
               simp only [htab] at ht
               rw [ht0] at ht
               cases ht
               exact hagg)


/-! ## columns a query can read without meeting the marker -/

/-- the virtual column is one the model computes (`virtVal` is defined on it, whatever the row) -/
def VirtOK (t : Table) (c : Column) : Prop := ∀ (cx : Ctx) (r : Row), virtVal cx t r c ≠ none

/-- the table a reference column points into, as the query context resolves it -/
def refTableOf (s : Schema) (c : Column) : Table := (s.table? c.refTable).getD { name := c.refTable, cols := [] }

/-- the column is inside the model: stored locally, a virtual column the model computes, or a reference to
    a column of the referenced table that is stored locally or is a virtual column the model computes -/
def ColOK (s : Schema) (t : Table) (c : Column) : Prop :=
  c.storage = .loc ∨ (c.storage = .virt ∧ VirtOK t c) ∨
  (c.storage = .ref ∧ ∃ rc, (refTableOf s c).col? c.refCol = some rc ∧
    (rc.storage = .loc ∨ (rc.storage = .virt ∧ VirtOK (refTableOf s c) rc)))

theorem getVal_ok (cx : Ctx) (t : Table) (r : Row) (c : Column) (hc : ColOK cx.schema t c)
    (hb : BackendClean cx.b) (hr : RowClean r) : isCrash (getVal cx t r c) = false := by
  cases h : isCrash (getVal cx t r c) with
  | false => rfl
  | true =>
    exfalso
    rw [getVal_crash_iff] at h
    obtain ⟨_, h⟩ := h
    rcases h with ⟨_, h⟩ | ⟨hs, h⟩ | ⟨hs, rr, hrr, h⟩
    · rw [localVal_clean t r c hr] at h; cases h
    · rcases hc with hc | ⟨_, hv⟩ | ⟨hc, _⟩
      · rw [hs] at hc; cases hc
      · exact hv cx r h
      · rw [hs] at hc; cases hc
    · rcases hc with hc | ⟨hc, _⟩ | ⟨_, rc, hrc, hk⟩
      · rw [hs] at hc; cases hc
      · rw [hs] at hc; cases hc
      · have hrc' : (cx.table c.refTable).col? c.refCol = some rc := hrc
        rcases h with h | ⟨rc', hrc2, h⟩
        · rw [hrc'] at h; cases h
        · rw [hrc'] at hrc2
          cases hrc2
          rcases h with h | ⟨_, h⟩ | ⟨_, h⟩
          · rcases hk with hk | ⟨hk, _⟩ <;> (rw [h] at hk; cases hk)
          · rcases hk with hk | ⟨_, hv⟩
            · rename_i hv'; rw [hv'] at hk; cases hk
            · exact hv cx rr h
          · rw [localVal_clean _ rr rc (refRow_clean hb hrr)] at h; cases h

theorem emptyColumn_ok (s : Schema) (t : Table) : ColOK s t emptyColumn :=
  .inr (.inl ⟨rfl, fun cx r => by simp [virtVal, emptyColumn]⟩)

/-! ## the rows of a data query -/

theorem gatherRows_hit (m : EvalMode) (cx : Ctx) (t : Table) (req : Request) (h : Hit)
    (hm : h ∈ (gatherRows m cx t req).hits) : h.b = cx.b ∧ h.r ∈ tableRows cx t := by
  unfold gatherRows at hm
  extract_lets rows cands matching hits cut at hm
  have hh : h ∈ hits := by
    clear_value cut
    split at hm
    · exact hm
    · exact List.mem_of_mem_take hm
  obtain ⟨r, hr, rfl⟩ := List.mem_map.1 hh
  refine ⟨rfl, ?_⟩
  have hc : r ∈ cands := (List.mem_filter.1 hr).1
  simp only [cands] at hc
  split at hc
  · exact Lmd.Lemmas.preFiltered_subset cx t _ _ r hc
  · exact hc

theorem dataQuery_hit (m : EvalMode) (s : Schema) (ds : Dataset) (t : Table) (req : Request) (h : Hit)
    (hm : h ∈ (dataQuery m s ds t req).hits) :
    h.b ∈ ds.backends ∧ h.r ∈ tableRows { schema := s, ds := ds, b := h.b } t := by
  unfold dataQuery at hm
  extract_lets sel avail failed results all total dirs sorted afterOffset window at hm
  split at hm
  · cases hm
  · simp only at hm
    have h1 : h ∈ afterOffset := by
      simp only [window] at hm
      split at hm
      · exact List.mem_of_mem_take hm
      · exact hm
    have h2 : h ∈ sorted := List.mem_of_mem_drop h1
    have h3 : h ∈ all := by
      simp only [sorted] at h2
      split at h2
      · exact h2
      · exact (List.mergeSort_perm _ _).mem_iff.1 h2
    obtain ⟨res, hres, hin⟩ := List.mem_flatMap.1 h3
    obtain ⟨b, hb, rfl⟩ := List.mem_map.1 hres
    obtain ⟨hb1, hb2⟩ := gatherRows_hit _ _ _ _ _ hin
    have hbsel : b ∈ sel.peers := (List.mem_filter.1 hb).1
    simp only at hb1
    rw [hb1]
    exact ⟨selectBackends_subset ds t req b hbsel, hb2⟩


open Lmd.RegexParser

/-! ## the regular-expression compiler on degenerate patterns -/

theorem compileRegex_empty : compileRegex "" = .ok { fold := false, re := .eps } := by
  simp [compileRegex, parseTop, parseAlt, parseCat, pure, Except.pure, bind, Except.bind]

theorem parseAlt_close (n : Nat) (rest : List Char) :
    parseAlt (n + 2) (')' :: rest) = .ok (RE.eps, ')' :: rest) := by
  simp [parseAlt, parseCat, pure, Except.pure, bind, Except.bind]

theorem parseTop_close (rest : List Char) : parseTop (')' :: rest) = .error .invalid := by
  unfold parseTop
  have : 2 * (')' :: rest).length + 4 = (2 * rest.length + 4) + 2 := by simp; omega
  rw [this]
  simp [parseAlt_close, pure, Except.pure, bind, Except.bind, throw, throwThe, MonadExceptOf.throw]

/-- a pattern that starts with a closing bracket does not compile -/
theorem compileRegex_close (pat : String) (rest : List Char) (h : pat.toList = ')' :: rest) :
    compileRegex pat = .invalid := by
  simp [compileRegex, h, parseTop_close]


theorem parseTop_quant (c : Char) (rest : List Char) (hc : c = '*' ∨ c = '+' ∨ c = '?') :
    parseTop (c :: rest) = .error .invalid := by
  unfold parseTop
  have : 2 * (c :: rest).length + 4 = (2 * rest.length + 3) + 3 := by simp; omega
  rw [this]
  rcases hc with rfl | rfl | rfl <;>
    simp [parseAlt, parseCat, parseAtom, pure, Except.pure, bind, Except.bind, throw, throwThe, MonadExceptOf.throw]

/-- a pattern that starts with a repetition operator does not compile -/
theorem compileRegex_quant (pat : String) (c : Char) (rest : List Char) (h : pat.toList = c :: rest)
    (hc : c = '*' ∨ c = '+' ∨ c = '?') : compileRegex pat = .invalid := by
  rcases hc with rfl | rfl | rfl <;> simp [compileRegex, h, parseTop_quant]

/-! ## the matcher on the empty pattern -/

/-- the expression contains `.*` as an alternative -/
inductive HasTop : RE → Prop
  | star : HasTop (RE.star RE.anyChar)
  | left (a b : RE) : HasTop a → HasTop (RE.alt a b)
  | right (a b : RE) : HasTop b → HasTop (RE.alt a b)

theorem HasTop.ne_none {r : RE} (h : HasTop r) : r ≠ RE.none := by
  cases h <;> simp

theorem mkAlt_top_left (a b : RE) (h : HasTop a) : HasTop (RE.mkAlt a b) := by
  have hn := h.ne_none
  unfold RE.mkAlt
  split
  · exact absurd rfl hn
  · exact h
  · split
    · exact h
    · exact .left _ _ h

theorem mkAlt_top_right (a b : RE) (h : HasTop b) : HasTop (RE.mkAlt a b) := by
  have hn := h.ne_none
  unfold RE.mkAlt
  split
  · exact h
  · exact absurd rfl hn
  · split
    · rename_i he; rw [he]; exact h
    · exact .right _ _ h

theorem deriv_star_any (fold atStart : Bool) (c : Char) :
    RE.deriv fold atStart c (RE.star RE.anyChar) = RE.star RE.anyChar := by
  simp [RE.deriv, RE.anyChar, CClass.accepts, RE.inRanges, RE.mkCat]

theorem deriv_top (fold atStart : Bool) (c : Char) : ∀ {r : RE}, HasTop r → HasTop (RE.deriv fold atStart c r)
  | _, .star => by rw [deriv_star_any]; exact .star
  | _, .left a b h => by
    simp only [RE.deriv]
    exact mkAlt_top_left _ _ (deriv_top fold atStart c h)
  | _, .right a b h => by
    simp only [RE.deriv]
    exact mkAlt_top_right _ _ (deriv_top fold atStart c h)

theorem nullable_top (atStart atEnd : Bool) : ∀ {r : RE}, HasTop r → RE.nullable atStart atEnd r = true
  | _, .star => rfl
  | _, .left a b h => by simp [RE.nullable, nullable_top atStart atEnd h]
  | _, .right a b h => by simp [RE.nullable, nullable_top atStart atEnd h]

theorem runL_top (fold : Bool) : ∀ (s : List Char) (atStart : Bool) (r : RE), HasTop r → RE.runL fold atStart r s = true
  | [], atStart, r, h => by simp [RE.runL, nullable_top atStart true h]
  | c :: cs, atStart, r, h => by
    simp only [RE.runL]
    exact runL_top fold cs false _ (deriv_top fold atStart c h)

/-- the empty pattern matches every text -/
theorem matches_eps (fold : Bool) (s : String) : Regex.matches { fold := fold, re := .eps } s = true := by
  unfold Regex.matches RE.search RE.fullMatch
  cases hs : s.toList with
  | nil => simp [RE.runL, RE.nullable]
  | cons c cs =>
    simp only [RE.runL]
    apply runL_top
    have : RE.deriv fold true c (RE.cat (RE.star RE.anyChar) (RE.cat RE.eps (RE.star RE.anyChar)))
        = RE.mkAlt (RE.mkCat (RE.star RE.anyChar) (RE.cat RE.eps (RE.star RE.anyChar))) (RE.star RE.anyChar) := by
      simp [RE.deriv, RE.nullable, RE.anyChar, CClass.accepts, RE.inRanges, RE.mkCat, RE.mkAlt]
    rw [this]
    exact mkAlt_top_right _ _ .star


theorem classItems_unclosed : ∀ fuel : Nat,
    (∀ first cs acc, ']' ∉ cs → ∀ x, parseClassItems fuel first cs acc ≠ .ok x) ∧
    (∀ lo cs acc, ']' ∉ cs → ∀ x, parseClassItems.parseClassAfter fuel lo cs acc ≠ .ok x)
  | 0 => by
    constructor
    · intro first cs acc _ x h
      simp [parseClassItems, throw, throwThe, MonadExceptOf.throw] at h
    · intro lo cs acc _ x h
      simp [parseClassItems.parseClassAfter, throw, throwThe, MonadExceptOf.throw] at h
  | fuel + 1 => by
    obtain ⟨ih1, ih2⟩ := classItems_unclosed fuel
    constructor
    · intro first cs acc hcs x h
      unfold parseClassItems at h
      split at h
      all_goals first
        | (simp [throw, throwThe, MonadExceptOf.throw] at h; done)
        | (simp at hcs; done)
        | skip
      all_goals (simp only [Nat.succ_eq_add_one, Nat.add_right_cancel_iff] at *; subst_vars)
      all_goals (repeat' split at h)
      all_goals first
        | (simp [throw, throwThe, MonadExceptOf.throw] at h; done)
        | exact ih1 _ _ _ (by intro hm; apply hcs; simp [hm]) _ h
        | exact ih2 _ _ _ (by intro hm; apply hcs; simp [hm]) _ h
    · intro lo cs acc hcs x h
      unfold parseClassItems.parseClassAfter at h
      split at h
      all_goals first
        | (simp [throw, throwThe, MonadExceptOf.throw] at h; done)
        | (simp at hcs; done)
        | skip
      all_goals (simp only [Nat.succ_eq_add_one, Nat.add_right_cancel_iff] at *; subst_vars)
      all_goals (repeat' split at h)
      all_goals first
        | (simp [throw, throwThe, MonadExceptOf.throw] at h; done)
        | exact ih1 _ _ _ (by intro hm; apply hcs; simp [hm]) _ h
        | exact ih2 _ _ _ (by intro hm; apply hcs; simp [hm]) _ h

theorem parseAtom_unclosed (k : Nat) (rest : List Char) (h : ']' ∉ rest) (x : RE × List Char) :
    parseAtom (k + 1) ('[' :: rest) ≠ .ok x := by
  intro hx
  unfold parseAtom at hx
  split at hx
  all_goals first
    | (simp [throw, throwThe, MonadExceptOf.throw] at hx; done)
    | skip
  all_goals (simp only [Nat.succ_eq_add_one, Nat.add_right_cancel_iff, List.cons.injEq] at *)
  all_goals first
    | (rename_i heq; exact absurd heq.1 (by decide))
    | skip
  · rename_i heq
    obtain ⟨_, rfl⟩ := heq
    simp only [bind, Except.bind] at hx
    split at hx
    · cases hx
    · rename_i v hv
      exact (classItems_unclosed _).1 _ _ _ (by intro hm; apply h; simp [hm]) _ hv
  · rename_i heq
    obtain ⟨_, rfl⟩ := heq
    simp only [bind, Except.bind] at hx
    split at hx
    · cases hx
    · rename_i v hv
      exact (classItems_unclosed _).1 _ _ _ h _ hv
  · rename_i hne _ heq
    exact hne heq.1.symm

theorem parseTop_unclosed (rest : List Char) (h : ']' ∉ rest) (r : RE) : parseTop ('[' :: rest) ≠ .ok r := by
  intro hx
  unfold parseTop at hx
  have : 2 * ('[' :: rest).length + 4 = (2 * rest.length + 3) + 3 := by simp; omega
  rw [this, parseAlt] at hx
  simp only [bind, Except.bind] at hx
  split at hx
  · cases hx
  · rename_i v hv
    rw [parseCat] at hv
    · cases hpa : parseAtom (2 * rest.length + 4) ('[' :: rest) with
      | ok w => exact absurd hpa (parseAtom_unclosed _ rest h w)
      | error e => simp [hpa, bind, Except.bind] at hv
    all_goals (intros; rename_i hc; cases hc)

/-- a pattern that opens a character class and never closes it does not compile -/
theorem compileRegex_unclosed (pat : String) (rest : List Char) (h : pat.toList = '[' :: rest) (hr : ']' ∉ rest)
    (r : Regex) : compileRegex pat ≠ .ok r := by
  intro hx
  simp only [compileRegex, h] at hx
  split at hx
  · rename_i r' hp
    exact parseTop_unclosed rest hr r' hp
  · cases hx
  · cases hx


/-! ## the connection loop after a request that does not parse -/

theorem plan_bad_request (i : Nat) (pre post : List WireReq) (bad : WireReq)
    (hp : ∀ r ∈ pre, r.parses = true) (hk : ∀ r ∈ pre, r.keepAlive = true) (hb : bad.parses = false) :
    sessionPlan i (pre ++ bad :: post) =
      (List.range' i pre.length).map Action.answer ++ [Action.parseError (i + pre.length)] := by
  rw [Lmd.Frame.plan_append_of_alive i pre _ hp hk, sessionPlan]
  simp [hb]

theorem plan_after_bad (i : Nat) (reqs : List WireReq) (j : Nat) (r : WireReq) (hj : reqs[j]? = some r)
    (hb : r.parses = false) :
    (sessionPlan i reqs).length ≤ j + 1 ∧ ∀ a ∈ sessionPlan i reqs, Lmd.Frame.Action.idx a ≤ i + j := by
  have hjl : j < reqs.length := by
    rcases Nat.lt_or_ge j reqs.length with h | h
    · exact h
    · rw [List.getElem?_eq_none h] at hj; cases hj
  have hsplit : reqs = reqs.take (j + 1) ++ reqs.drop (j + 1) := (List.take_append_drop _ _).symm
  have hmem : r ∈ reqs.take (j + 1) := by
    rw [List.mem_take_iff_getElem]
    refine ⟨j, by omega, ?_⟩
    have := List.getElem?_eq_some_iff.1 hj
    obtain ⟨_, h⟩ := this
    exact h
  have hend : sessionPlan i reqs = sessionPlan i (reqs.take (j + 1)) := by
    conv => lhs; rw [hsplit]
    exact Lmd.Frame.plan_append_of_ended i _ _ ⟨r, hmem, .inl hb⟩
  have hlen : (sessionPlan i reqs).length ≤ j + 1 := by
    rw [hend]
    have := Lmd.Frame.plan_length_le i (reqs.take (j + 1))
    simp only [List.length_take] at this
    omega
  refine ⟨hlen, ?_⟩
  intro a ha
  obtain ⟨k, hk, hka⟩ := List.getElem_of_mem ha
  have := Lmd.Frame.plan_idx i reqs k a (by rw [List.getElem?_eq_getElem hk, hka])
  omega

end Lmd.Totality
