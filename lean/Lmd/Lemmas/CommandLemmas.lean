/-
  Lmd.Lemmas.CommandLemmas — helper lemmas about `Lmd.Commands` for C15.

  Layout:
  * the queue (`Queue.add`, `Queue.addAll`): the peers of a queue stay pairwise different, and what a peer
    finds in the queue after a command was added;
  * `expandBackends`;
  * `readBatch`, `processBatch`, `sessionEvents`: what is flushed towards a peer;
  * `backendReads`, `parseCommandReply`, `sendCommands`, `sendWithRetry`.
-/
import Lmd.Commands
import Lmd.Lemmas.PeerLemmas

namespace Lmd.CmdL
open Lmd

/-! ## vocabulary -/

/-- the peers of a queue, in queue order -/
def keys (q : Queue) : List String := q.map (·.1)

/-- everything a queue holds for peer `p`: the commands of every entry addressed to `p`, in queue order -/
def queueFor (q : Queue) (p : String) : List String :=
  q.flatMap fun e => if e.1 = p then e.2 else []

/-- what one event hands to peer `p` -/
def flushFor (p : String) : Event → List String
  | .flush q => queueFor q p
  | _ => []

/-- everything a list of events hands to peer `p`, in order -/
def sentTo (evs : List Event) (p : String) : List String := evs.flatMap (flushFor p)

/-- how often the request `r` is owed to peer `p`: for a command, the number of times `p` occurs in its
    expanded selection (0 or 1 when the configured peers are pairwise different) -/
def owed (peers : List String) (p : String) : CReq → List String
  | .cmd line bs _ => List.replicate ((expandBackends peers bs).count p) line
  | _ => []

/-- the command lines of `reqs` owed to `p`, in the order received, with multiplicity -/
def cmdsForCount (peers : List String) (reqs : List CReq) (p : String) : List String :=
  reqs.flatMap (owed peers p)

/-- the command lines of `reqs` whose selection contains `p`, in the order received -/
def cmdsFor (peers : List String) (reqs : List CReq) (p : String) : List String :=
  reqs.flatMap fun r =>
    match r with
    | .cmd line bs _ => if p ∈ expandBackends peers bs then [line] else []
    | _ => []

/-- a GET without keep-alive: the connection is closed after its answer -/
def closes : CReq → Bool
  | .get _ false => true
  | _ => false

/-- the part of a batch that `processRequests` works on: everything up to and including the first GET
    without keep-alive -/
def processed : List CReq → List CReq
  | [] => []
  | r :: rest => if closes r then [r] else r :: processed rest

/-- the queue a list of requests builds up (GETs ignored) -/
def queueOf (peers : List String) (reqs : List CReq) (q : Queue) : Queue :=
  reqs.foldl (fun q r =>
    match r with
    | .cmd line bs _ => q.addAll (expandBackends peers bs) line
    | _ => q) q

/-! ## the queue -/

theorem sentTo_nil (p : String) : sentTo [] p = [] := rfl

theorem sentTo_append (a b : List Event) (p : String) : sentTo (a ++ b) p = sentTo a p ++ sentTo b p := by
  unfold sentTo; rw [List.flatMap_append]

theorem sentTo_cons (e : Event) (es : List Event) (p : String) : sentTo (e :: es) p = flushFor p e ++ sentTo es p := by
  unfold sentTo; rw [List.flatMap_cons]

theorem queueFor_nil (p : String) : queueFor [] p = [] := rfl

theorem queueFor_cons (e : String × List String) (q : Queue) (p : String) :
    queueFor (e :: q) p = (if e.1 = p then e.2 else []) ++ queueFor q p := by
  unfold queueFor; rw [List.flatMap_cons]

theorem queueFor_append (q1 q2 : Queue) (p : String) : queueFor (q1 ++ q2) p = queueFor q1 p ++ queueFor q2 p := by
  unfold queueFor; rw [List.flatMap_append]

theorem queueFor_of_not_mem {q : Queue} {p : String} (h : p ∉ keys q) : queueFor q p = [] := by
  induction q with
  | nil => rfl
  | cons e q ih =>
    rw [queueFor_cons]
    simp only [keys, List.map_cons, List.mem_cons, not_or] at h
    rw [if_neg (fun he => h.1 he.symm), ih h.2]
    rfl

/-- with pairwise different peers, the entry of `p` is all that the queue holds for `p` -/
theorem queueFor_of_mem {q : Queue} {p : String} {cs : List String} (hn : (keys q).Nodup) (h : (p, cs) ∈ q) :
    queueFor q p = cs := by
  induction q with
  | nil => cases h
  | cons e q ih =>
    rw [queueFor_cons]
    simp only [keys, List.map_cons, List.nodup_cons] at hn
    rcases List.mem_cons.1 h with h | h
    · subst h
      simp only [if_true]
      rw [queueFor_of_not_mem hn.1, List.append_nil]
    · have : e.1 ≠ p := by
        intro he
        apply hn.1
        rw [he]
        exact List.mem_map.2 ⟨(p, cs), h, rfl⟩
      rw [if_neg this, ih hn.2 h]
      rfl

theorem any_key (q : Queue) (peer : String) : (q.any (·.1 == peer)) = true ↔ peer ∈ keys q := by
  simp only [List.any_eq_true, beq_iff_eq, keys, List.mem_map]

/-- the entry update of `Queue.add` -/
def bump (peer c : String) (e : String × List String) : String × List String :=
  if e.1 == peer then (e.1, e.2 ++ [c]) else (e.1, e.2)

theorem add_eq (q : Queue) (peer c : String) :
    q.add peer c = if peer ∈ keys q then q.map (bump peer c) else q ++ [(peer, [c])] := by
  unfold Queue.add
  by_cases h : peer ∈ keys q
  · rw [if_pos ((any_key q peer).2 h), if_pos h]; rfl
  · rw [if_neg (fun h' => h ((any_key q peer).1 h')), if_neg h]

theorem bump_fst (peer c : String) (e : String × List String) : (bump peer c e).1 = e.1 := by
  unfold bump; split <;> rfl

theorem keys_map_bump (q : Queue) (peer c : String) : keys (q.map (bump peer c)) = keys q := by
  unfold keys
  rw [List.map_map]
  apply List.map_congr_left
  intro e _
  exact bump_fst peer c e

theorem keys_add (q : Queue) (peer c : String) :
    keys (q.add peer c) = if peer ∈ keys q then keys q else keys q ++ [peer] := by
  rw [add_eq]
  split
  · exact keys_map_bump q peer c
  · simp [keys]

theorem keys_add_nodup {q : Queue} (peer c : String) (h : (keys q).Nodup) : (keys (q.add peer c)).Nodup := by
  rw [keys_add]
  split
  · exact h
  · rename_i hn
    rw [List.nodup_append]
    refine ⟨h, by simp, ?_⟩
    intro a ha b hb
    rw [List.mem_singleton] at hb
    subst hb
    intro hab; subst hab; exact hn ha

theorem mem_keys_add (q : Queue) (peer c x : String) : x ∈ keys (q.add peer c) ↔ x ∈ keys q ∨ x = peer := by
  rw [keys_add]
  split
  · rename_i h
    constructor
    · exact .inl
    · rintro (h' | rfl)
      · exact h'
      · exact h
  · simp

theorem queueFor_map_bump_other (q : Queue) (peer c p : String) (h : p ≠ peer) :
    queueFor (q.map (bump peer c)) p = queueFor q p := by
  induction q with
  | nil => rfl
  | cons e q ih =>
    rw [List.map_cons, queueFor_cons, queueFor_cons, ih, bump_fst]
    congr 1
    by_cases he : e.1 = p
    · rw [if_pos he, if_pos he]
      unfold bump
      rw [if_neg (by rw [he]; simpa using h)]
    · rw [if_neg he, if_neg he]

theorem map_bump_of_not_mem (q : Queue) (peer c : String) (h : peer ∉ keys q) : q.map (bump peer c) = q := by
  induction q with
  | nil => rfl
  | cons e q ih =>
    simp only [keys, List.map_cons, List.mem_cons, not_or] at h
    rw [List.map_cons, ih h.2]
    congr 1
    unfold bump
    rw [if_neg (by simpa using fun he : e.1 = peer => h.1 he.symm)]

theorem queueFor_map_bump_self (q : Queue) (peer c : String) (hn : (keys q).Nodup) (h : peer ∈ keys q) :
    queueFor (q.map (bump peer c)) peer = queueFor q peer ++ [c] := by
  induction q with
  | nil => cases h
  | cons e q ih =>
    simp only [keys, List.map_cons, List.nodup_cons, List.mem_cons] at hn h
    rw [List.map_cons, queueFor_cons, queueFor_cons, bump_fst]
    by_cases he : e.1 = peer
    · have hnot : peer ∉ keys q := by rw [← he]; exact hn.1
      rw [map_bump_of_not_mem q peer c hnot, queueFor_of_not_mem hnot, if_pos he, if_pos he]
      unfold bump
      rw [if_pos (by simpa using he)]
      simp
    · rw [if_neg he, if_neg he]
      rcases h with h | h
      · exact absurd h.symm he
      · rw [ih hn.2 h]; rfl

/-- what peer `p` finds in the queue after `c` was added for `peer` -/
theorem queueFor_add (q : Queue) (peer c p : String) (hn : (keys q).Nodup) :
    queueFor (q.add peer c) p = queueFor q p ++ (if peer = p then [c] else []) := by
  rw [add_eq]
  by_cases hk : peer ∈ keys q
  · rw [if_pos hk]
    by_cases hp : peer = p
    · subst hp
      rw [if_pos rfl]
      exact queueFor_map_bump_self q peer c hn hk
    · rw [if_neg hp, List.append_nil]
      exact queueFor_map_bump_other q peer c p (fun h => hp h.symm)
  · rw [if_neg hk, queueFor_append, queueFor_cons, queueFor_nil]
    simp

theorem addAll_nil (q : Queue) (c : String) : q.addAll [] c = q := rfl

theorem addAll_cons (q : Queue) (t : String) (ts : List String) (c : String) :
    q.addAll (t :: ts) c = (q.add t c).addAll ts c := rfl

theorem keys_addAll_nodup {q : Queue} (ts : List String) (c : String) (h : (keys q).Nodup) :
    (keys (q.addAll ts c)).Nodup := by
  induction ts generalizing q with
  | nil => exact h
  | cons t ts ih => rw [addAll_cons]; exact ih (keys_add_nodup t c h)

theorem mem_keys_addAll (q : Queue) (ts : List String) (c x : String) :
    x ∈ keys (q.addAll ts c) ↔ x ∈ keys q ∨ x ∈ ts := by
  induction ts generalizing q with
  | nil => simp [addAll_nil]
  | cons t ts ih =>
    rw [addAll_cons, ih, mem_keys_add, List.mem_cons]
    constructor
    · rintro ((h | h) | h)
      · exact .inl h
      · exact .inr (.inl h)
      · exact .inr (.inr h)
    · rintro (h | h | h)
      · exact .inl (.inl h)
      · exact .inl (.inr h)
      · exact .inr h

/-- what peer `p` finds in the queue after `c` was added for every target -/
theorem queueFor_addAll (q : Queue) (ts : List String) (c p : String) (hn : (keys q).Nodup) :
    queueFor (q.addAll ts c) p = queueFor q p ++ List.replicate (ts.count p) c := by
  induction ts generalizing q with
  | nil => simp [addAll_nil]
  | cons t ts ih =>
    rw [addAll_cons, ih _ (keys_add_nodup t c hn), queueFor_add q t c p hn, List.count_cons]
    by_cases h : t = p
    · subst h
      simp only [if_true, beq_self_eq_true, List.append_assoc]
      congr 1
    · rw [if_neg h, if_neg (by simpa using h)]
      simp

/-- every entry of a queue that started empty holds at least one command -/
def NonEmptyEntries (q : Queue) : Prop := ∀ e ∈ q, e.2 ≠ []

theorem add_nonEmpty {q : Queue} (peer c : String) (h : NonEmptyEntries q) : NonEmptyEntries (q.add peer c) := by
  rw [add_eq]
  split
  · intro e he
    obtain ⟨e0, h0, rfl⟩ := List.mem_map.1 he
    unfold bump
    split
    · simp
    · exact h e0 h0
  · intro e he
    rcases List.mem_append.1 he with he | he
    · exact h e he
    · rw [List.mem_singleton] at he; subst he; simp

theorem addAll_nonEmpty {q : Queue} (ts : List String) (c : String) (h : NonEmptyEntries q) :
    NonEmptyEntries (q.addAll ts c) := by
  induction ts generalizing q with
  | nil => exact h
  | cons t ts ih => rw [addAll_cons]; exact ih (add_nonEmpty t c h)

/-! ## `expandBackends` -/

theorem eraseDups_nodup_aux : ∀ (n : Nat) (l : List String), l.length ≤ n → l.eraseDups.Nodup
  | 0, l, h => by
    have : l = [] := List.length_eq_zero_iff.1 (Nat.le_zero.1 h)
    subst this; simp
  | n + 1, [], _ => by simp
  | n + 1, a :: as, h => by
    rw [List.eraseDups_cons, List.nodup_cons]
    refine ⟨?_, eraseDups_nodup_aux n _ ?_⟩
    · rw [List.mem_eraseDups, List.mem_filter]
      simp
    · have := List.length_filter_le (fun b => !b == a) as
      simp only [List.length_cons] at h
      omega

theorem eraseDups_nodup (l : List String) : l.eraseDups.Nodup := eraseDups_nodup_aux l.length l (Nat.le_refl _)

theorem mem_expand (peers bs : List String) (p : String) :
    p ∈ expandBackends peers bs ↔ p ∈ peers ∧ (bs = [] ∨ p ∈ bs) := by
  unfold expandBackends
  cases bs with
  | nil => simp
  | cons b bs =>
    simp only [List.isEmpty_cons, Bool.false_eq_true, if_false, List.mem_eraseDups, List.mem_filter,
      List.contains_eq_mem, decide_eq_true_eq]
    constructor
    · rintro ⟨h1, h2⟩; exact ⟨h2, .inr h1⟩
    · rintro ⟨h1, h2 | h2⟩
      · cases h2
      · exact ⟨h2, h1⟩

theorem expand_nodup (peers bs : List String) (h : peers.Nodup) : (expandBackends peers bs).Nodup := by
  unfold expandBackends
  split
  · exact h
  · exact eraseDups_nodup _

theorem expand_nodup_of_header (peers bs : List String) (h : bs ≠ []) : (expandBackends peers bs).Nodup := by
  unfold expandBackends
  cases bs with
  | nil => exact absurd rfl h
  | cons b bs => exact eraseDups_nodup _

theorem count_of_nodup_mem : ∀ {l : List String} {p : String}, l.Nodup → p ∈ l → l.count p = 1
  | a :: l, p, hn, hm => by
    rw [List.nodup_cons] at hn
    rw [List.count_cons]
    by_cases h : a = p
    · subst h
      rw [List.count_eq_zero_of_not_mem hn.1]; simp
    · rw [if_neg (by simpa using h), count_of_nodup_mem hn.2 ((List.mem_cons.1 hm).resolve_left (fun e => h e.symm))]

theorem count_expand (peers bs : List String) (p : String) (h : peers.Nodup) :
    (expandBackends peers bs).count p = if p ∈ expandBackends peers bs then 1 else 0 := by
  split
  · rename_i hm; exact count_of_nodup_mem (expand_nodup peers bs h) hm
  · rename_i hm; exact List.count_eq_zero_of_not_mem hm

/-! ## what is owed to a peer -/

theorem cmdsForCount_nil (peers : List String) (p : String) : cmdsForCount peers [] p = [] := rfl

theorem cmdsForCount_cons (peers : List String) (r : CReq) (rs : List CReq) (p : String) :
    cmdsForCount peers (r :: rs) p = owed peers p r ++ cmdsForCount peers rs p := by
  unfold cmdsForCount; rw [List.flatMap_cons]

theorem cmdsForCount_append (peers : List String) (a b : List CReq) (p : String) :
    cmdsForCount peers (a ++ b) p = cmdsForCount peers a p ++ cmdsForCount peers b p := by
  unfold cmdsForCount; rw [List.flatMap_append]

theorem cmdsFor_append (peers : List String) (a b : List CReq) (p : String) :
    cmdsFor peers (a ++ b) p = cmdsFor peers a p ++ cmdsFor peers b p := by
  unfold cmdsFor; rw [List.flatMap_append]

/-- with pairwise different configured peers every selected command is owed exactly once -/
theorem cmdsForCount_eq_cmdsFor (peers : List String) (reqs : List CReq) (p : String) (h : peers.Nodup) :
    cmdsForCount peers reqs p = cmdsFor peers reqs p := by
  induction reqs with
  | nil => rfl
  | cons r rs ih =>
    rw [cmdsForCount_cons, ih]
    show _ = cmdsFor peers ([r] ++ rs) p
    rw [cmdsFor_append]
    congr 1
    cases r with
    | cmd line bs k =>
      simp only [owed, cmdsFor, List.flatMap_cons, List.flatMap_nil, List.append_nil]
      rw [count_expand peers bs p h]
      split <;> rfl
    | _ => rfl

/-- the keep-alive flag of a request does not matter for what is owed -/
theorem owed_withKeepAlive (peers : List String) (p : String) (k : Bool) (r : CReq) :
    owed peers p (r.withKeepAlive k) = owed peers p r := by
  cases r <;> rfl

theorem cmdsForCount_dropLast (peers : List String) (p : String) :
    ∀ (l : List CReq), cmdsForCount peers (dropLastKeepAlive l) p = cmdsForCount peers l p
  | [] => rfl
  | [r] => by
    rw [dropLastKeepAlive, cmdsForCount_cons, cmdsForCount_cons, owed_withKeepAlive]
  | r :: r' :: rest => by
    rw [dropLastKeepAlive, cmdsForCount_cons, cmdsForCount_cons, cmdsForCount_dropLast peers p (r' :: rest)]
    simp

/-! ## `processBatch` -/

theorem processed_cons (r : CReq) (rest : List CReq) :
    processed (r :: rest) = if closes r then [r] else r :: processed rest := rfl

/-- the processed part is a prefix of the batch -/
theorem processed_prefix : ∀ (l : List CReq), processed l <+: l
  | [] => List.prefix_refl _
  | r :: rest => by
    rw [processed_cons]
    split
    · exact ⟨rest, rfl⟩
    · exact (List.prefix_cons_inj r).2 (processed_prefix rest)

theorem processed_of_no_close : ∀ (l : List CReq), (∀ r ∈ l, closes r = false) → processed l = l
  | [], _ => rfl
  | r :: rest, h => by
    rw [processed_cons, if_neg (by rw [h r (List.mem_cons_self)]; simp),
      processed_of_no_close rest (fun x hx => h x (List.mem_cons_of_mem _ hx))]

theorem closes_of_isCmd {r : CReq} (h : r.isCmd = true) : closes r = false := by
  cases r <;> first | rfl | cases h

theorem closes_of_keepAlive {r : CReq} (h : r.keepAlive = true) : closes r = false := by
  cases r with
  | get i k => cases k <;> first | rfl | cases h
  | _ => rfl

/-- what a flush of `q` (if any) hands to `p` -/
theorem sentTo_pre (q : Queue) (p : String) :
    sentTo (if q.isEmpty then [] else [Event.flush q]) p = queueFor q p := by
  cases q with
  | nil => rfl
  | cons e q => simp [sentTo, flushFor]

/-- the central statement about one batch, for an arbitrary start queue with pairwise different peers -/
theorem processBatch_sentTo (peers : List String) (p : String) :
    ∀ (reqs : List CReq) (q : Queue) (ka : Bool), (keys q).Nodup →
      sentTo (processBatch peers reqs q ka).1 p = queueFor q p ++ cmdsForCount peers (processed reqs) p
  | [], q, ka, _ => by
    rw [processBatch, sentTo_pre]; simp [processed, cmdsForCount_nil]
  | .cmd line bs k :: rest, q, ka, hn => by
    rw [processBatch, processBatch_sentTo peers p rest _ k (keys_addAll_nodup _ _ hn),
      queueFor_addAll _ _ _ _ hn, processed_cons, if_neg (by simp [closes]), cmdsForCount_cons]
    simp [owed]
  | .get idx true :: rest, q, ka, hn => by
    rw [processBatch]
    simp only [if_true]
    rw [sentTo_append, sentTo_append, sentTo_pre, processBatch_sentTo peers p rest [] true (by simp [keys]),
      processed_cons, if_neg (by simp [closes]), cmdsForCount_cons]
    simp [sentTo, flushFor, owed, queueFor_nil]
  | .get idx false :: rest, q, ka, hn => by
    rw [processBatch]
    simp only [Bool.false_eq_true, if_false]
    rw [sentTo_append, sentTo_pre, processed_cons, if_pos (by simp [closes]), cmdsForCount_cons]
    simp [sentTo, flushFor, owed, cmdsForCount_nil]
  | .bad i :: rest, q, ka, hn => by
    show sentTo (processBatch peers rest q ka).1 p = _
    rw [processBatch_sentTo peers p rest q ka hn, processed_cons, if_neg (by simp [closes]),
      cmdsForCount_cons]
    simp [owed]
  | .blank :: rest, q, ka, hn => by
    show sentTo (processBatch peers rest q ka).1 p = _
    rw [processBatch_sentTo peers p rest q ka hn, processed_cons, if_neg (by simp [closes]),
      cmdsForCount_cons]
    simp [owed]

/-- a batch that leaves the connection keep-alive was processed completely -/
theorem processed_of_keepAlive (peers : List String) :
    ∀ (reqs : List CReq) (q : Queue) (ka : Bool), (processBatch peers reqs q ka).2 = true → processed reqs = reqs
  | [], _, _, _ => rfl
  | .cmd line bs k :: rest, q, ka, h => by
    rw [processBatch] at h
    rw [processed_cons, if_neg (by simp [closes]), processed_of_keepAlive peers rest _ k h]
  | .get idx true :: rest, q, ka, h => by
    rw [processBatch] at h
    simp only [if_true] at h
    rw [processed_cons, if_neg (by simp [closes]), processed_of_keepAlive peers rest [] true h]
  | .get idx false :: rest, q, ka, h => by
    rw [processBatch] at h
    simp at h
  | .bad i :: rest, q, ka, h => by
    replace h : (processBatch peers rest q ka).2 = true := h
    rw [processed_cons, if_neg (by simp [closes]), processed_of_keepAlive peers rest q ka h]
  | .blank :: rest, q, ka, h => by
    replace h : (processBatch peers rest q ka).2 = true := h
    rw [processed_cons, if_neg (by simp [closes]), processed_of_keepAlive peers rest q ka h]

/-! ## a batch of commands only -/

theorem queueOf_nil (peers : List String) (q : Queue) : queueOf peers [] q = q := rfl

theorem queueOf_cmd (peers : List String) (line : String) (bs : List String) (k : Bool) (rest : List CReq) (q : Queue) :
    queueOf peers (.cmd line bs k :: rest) q = queueOf peers rest (q.addAll (expandBackends peers bs) line) := rfl

/-- a batch of commands only: one flush of the queue they build, or nothing when that queue is empty -/
theorem processBatch_cmds (peers : List String) :
    ∀ (reqs : List CReq) (q : Queue) (ka : Bool), (∀ r ∈ reqs, r.isCmd = true) →
      (processBatch peers reqs q ka).1 =
        (if (queueOf peers reqs q).isEmpty then [] else [Event.flush (queueOf peers reqs q)])
  | [], q, ka, _ => rfl
  | .cmd line bs k :: rest, q, ka, h => by
    rw [processBatch, queueOf_cmd]
    exact processBatch_cmds peers rest _ k (fun r hr => h r (List.mem_cons_of_mem _ hr))
  | .get i k :: rest, q, ka, h => by have := h _ List.mem_cons_self; cases this
  | .bad i :: rest, q, ka, h => by have := h _ List.mem_cons_self; cases this
  | .blank :: rest, q, ka, h => by have := h _ List.mem_cons_self; cases this

/-- the invariant of `commandsByPeer`: pairwise different peers, no empty entry, only configured peers -/
def WF (peers : List String) (q : Queue) : Prop :=
  (keys q).Nodup ∧ NonEmptyEntries q ∧ ∀ x ∈ keys q, x ∈ peers

theorem wf_nil (peers : List String) : WF peers [] :=
  ⟨by simp [keys], (by intro e he; cases he), (by intro x hx; cases hx)⟩

theorem wf_addAll {peers : List String} {q : Queue} (bs : List String) (c : String) (h : WF peers q) :
    WF peers (q.addAll (expandBackends peers bs) c) := by
  refine ⟨keys_addAll_nodup _ _ h.1, addAll_nonEmpty _ _ h.2.1, fun x hx => ?_⟩
  rcases (mem_keys_addAll _ _ _ _).1 hx with hx | hx
  · exact h.2.2 x hx
  · exact ((mem_expand peers bs x).1 hx).1

theorem wf_queueOf (peers : List String) :
    ∀ (reqs : List CReq) (q : Queue), WF peers q → WF peers (queueOf peers reqs q)
  | [], q, h => h
  | .cmd line bs k :: rest, q, h => by rw [queueOf_cmd]; exact wf_queueOf peers rest _ (wf_addAll bs line h)
  | .get i k :: rest, q, h => wf_queueOf peers rest q h
  | .bad i :: rest, q, h => wf_queueOf peers rest q h
  | .blank :: rest, q, h => wf_queueOf peers rest q h

theorem queueFor_queueOf (peers : List String) (p : String) :
    ∀ (reqs : List CReq) (q : Queue), (keys q).Nodup →
      queueFor (queueOf peers reqs q) p = queueFor q p ++ cmdsForCount peers reqs p
  | [], q, _ => by simp [queueOf_nil, cmdsForCount_nil]
  | .cmd line bs k :: rest, q, h => by
    rw [queueOf_cmd, queueFor_queueOf peers p rest _ (keys_addAll_nodup _ _ h), queueFor_addAll _ _ _ _ h,
      cmdsForCount_cons]
    simp [owed]
  | .get i k :: rest, q, h => by
    show queueFor (queueOf peers rest q) p = _
    rw [queueFor_queueOf peers p rest q h, cmdsForCount_cons]; rfl
  | .bad i :: rest, q, h => by
    show queueFor (queueOf peers rest q) p = _
    rw [queueFor_queueOf peers p rest q h, cmdsForCount_cons]; rfl
  | .blank :: rest, q, h => by
    show queueFor (queueOf peers rest q) p = _
    rw [queueFor_queueOf peers p rest q h, cmdsForCount_cons]; rfl

theorem mem_keys_queueOf (peers : List String) (x : String) :
    ∀ (reqs : List CReq) (q : Queue),
      x ∈ keys (queueOf peers reqs q) ↔
        x ∈ keys q ∨ ∃ line bs k, CReq.cmd line bs k ∈ reqs ∧ x ∈ expandBackends peers bs
  | [], q => by simp [queueOf_nil]
  | .cmd line bs k :: rest, q => by
    rw [queueOf_cmd, mem_keys_queueOf peers x rest, mem_keys_addAll]
    constructor
    · rintro ((h | h) | ⟨l, b, k', h1, h2⟩)
      · exact .inl h
      · exact .inr ⟨line, bs, k, List.mem_cons_self, h⟩
      · exact .inr ⟨l, b, k', List.mem_cons_of_mem _ h1, h2⟩
    · rintro (h | ⟨l, b, k', h1, h2⟩)
      · exact .inl (.inl h)
      · rcases List.mem_cons.1 h1 with h1 | h1
        · cases h1; exact .inl (.inr h2)
        · exact .inr ⟨l, b, k', h1, h2⟩
  | .get i k :: rest, q => by
    show x ∈ keys (queueOf peers rest q) ↔ _
    rw [mem_keys_queueOf peers x rest q]
    simp
  | .bad i :: rest, q => by
    show x ∈ keys (queueOf peers rest q) ↔ _
    rw [mem_keys_queueOf peers x rest q]
    simp
  | .blank :: rest, q => by
    show x ∈ keys (queueOf peers rest q) ↔ _
    rw [mem_keys_queueOf peers x rest q]
    simp

/-- every queue flushed while a batch is processed satisfies the invariant and is not empty -/
theorem processBatch_flush_wf (peers : List String) :
    ∀ (reqs : List CReq) (q : Queue) (ka : Bool), WF peers q →
      ∀ q', Event.flush q' ∈ (processBatch peers reqs q ka).1 → WF peers q' ∧ q' ≠ []
  | [], q, ka, h, q', hm => by
    rw [processBatch] at hm
    cases q with
    | nil => simp at hm
    | cons e q =>
      simp only [List.isEmpty_cons, Bool.false_eq_true, if_false, List.mem_singleton, Event.flush.injEq] at hm
      subst hm; exact ⟨h, by simp⟩
  | .cmd line bs k :: rest, q, ka, h, q', hm => by
    rw [processBatch] at hm
    exact processBatch_flush_wf peers rest _ k (wf_addAll bs line h) q' hm
  | .get idx k :: rest, q, ka, h, q', hm => by
    have hpre : ∀ q', Event.flush q' ∈ (if q.isEmpty then [] else [Event.flush q]) → WF peers q' ∧ q' ≠ [] := by
      intro q' hq
      cases q with
      | nil => simp at hq
      | cons e q =>
        simp only [List.isEmpty_cons, Bool.false_eq_true, if_false, List.mem_singleton, Event.flush.injEq] at hq
        subst hq; exact ⟨h, by simp⟩
    rw [processBatch] at hm
    cases k with
    | true =>
      simp only [if_true, List.mem_append, List.mem_singleton] at hm
      rcases hm with (hm | hm) | hm
      · exact hpre q' hm
      · cases hm
      · exact processBatch_flush_wf peers rest [] true (wf_nil peers) q' hm
    | false =>
      simp only [Bool.false_eq_true, if_false, List.mem_append, List.mem_singleton] at hm
      rcases hm with hm | hm
      · exact hpre q' hm
      · cases hm
  | .bad i :: rest, q, ka, h, q', hm => processBatch_flush_wf peers rest q ka h q' hm
  | .blank :: rest, q, ka, h, q', hm => processBatch_flush_wf peers rest q ka h q' hm

/-! ## `readBatch` -/

/-- a request that does not parse -/
def badReq : CReq → Bool
  | .bad _ => true
  | _ => false

theorem readBatch_nil : readBatch [] = ([], [], true) := rfl

theorem readBatch_blank (rest : List CReq) : readBatch (.blank :: rest) = ([], rest, false) := rfl

theorem readBatch_cmd (line : String) (bs : List String) (k : Bool) (rest : List CReq) :
    readBatch (.cmd line bs k :: rest) =
      (.cmd line bs k :: (readBatch rest).1, (readBatch rest).2.1, (readBatch rest).2.2) := rfl

theorem readBatch_get (i : Nat) (k : Bool) (rest : List CReq) :
    readBatch (.get i k :: rest) = ([.get i k], rest, false) := rfl

theorem readBatch_bad (i : Nat) (rest : List CReq) : readBatch (.bad i :: rest) = ([.bad i], rest, false) := rfl

/-- the requests of a connection are the batch, possibly one empty line, and what is left; at the end of the
    input nothing is left -/
theorem readBatch_split : ∀ (reqs : List CReq),
    ∃ mid, (mid = [] ∨ mid = [CReq.blank]) ∧ reqs = (readBatch reqs).1 ++ mid ++ (readBatch reqs).2.1 ∧
      ((readBatch reqs).2.2 = true → mid = [] ∧ (readBatch reqs).2.1 = [])
  | [] => ⟨[], .inl rfl, rfl, fun _ => ⟨rfl, rfl⟩⟩
  | .blank :: rest => ⟨[.blank], .inr rfl, rfl, fun h => by cases h⟩
  | .get i k :: rest => ⟨[], .inl rfl, rfl, fun h => by cases h⟩
  | .bad i :: rest => ⟨[], .inl rfl, rfl, fun h => by cases h⟩
  | .cmd line bs k :: rest => by
    obtain ⟨mid, h1, h2, h3⟩ := readBatch_split rest
    refine ⟨mid, h1, ?_, ?_⟩
    · rw [readBatch_cmd]
      show _ = CReq.cmd line bs k :: ((readBatch rest).1 ++ mid ++ (readBatch rest).2.1)
      rw [← h2]
    · rw [readBatch_cmd]; exact h3

/-- a request that does not parse is the last of its batch, after commands only -/
theorem readBatch_find_bad : ∀ (reqs : List CReq) (i : Nat), CReq.bad i ∈ (readBatch reqs).1 →
    (readBatch reqs).1.find? badReq = some (.bad i)
  | [], i, h => by cases h
  | .blank :: rest, i, h => by cases h
  | .get j k :: rest, i, h => by
    rw [readBatch_get] at h; simp at h
  | .bad j :: rest, i, h => by
    rw [readBatch_bad] at h ⊢
    simp only [List.mem_singleton, CReq.bad.injEq] at h
    subst h; rfl
  | .cmd line bs k :: rest, i, h => by
    rw [readBatch_cmd] at h ⊢
    simp only [List.mem_cons] at h
    rcases h with h | h
    · cases h
    · rw [List.find?_cons_of_neg (by simp [badReq])]
      exact readBatch_find_bad rest i h

theorem find_bad_none {l : List CReq} (h : ∀ r ∈ l, badReq r = false) : l.find? badReq = none := by
  rw [List.find?_eq_none]
  intro r hr; rw [h r hr]; simp

theorem find_bad_some {l : List CReq} {r : CReq} (h : l.find? badReq = some r) : ∃ i, r = .bad i ∧ r ∈ l := by
  have h1 := List.find?_some h
  have h2 := List.mem_of_find?_eq_some h
  cases r with
  | bad i => exact ⟨i, rfl, h2⟩
  | _ => cases h1

/-- a batch that starts with a request (not an empty line) is not empty -/
theorem readBatch_ne_nil (r : CReq) (rest : List CReq) (h : r ≠ .blank) : (readBatch (r :: rest)).1 ≠ [] := by
  cases r with
  | blank => exact absurd rfl h
  | cmd line bs k => rw [readBatch_cmd]; simp
  | get i k => rw [readBatch_get]; simp
  | bad i => rw [readBatch_bad]; simp

/-! ## `sessionEvents` -/

theorem sessionEvents_zero (peers : List String) (reqs : List CReq) (ka : Bool) : sessionEvents peers 0 reqs ka = [] := rfl

/-- one round of the connection loop -/
theorem sessionEvents_succ (peers : List String) (fuel : Nat) (reqs : List CReq) (ka : Bool) :
    sessionEvents peers (fuel + 1) reqs ka =
      match (readBatch reqs).1.find? badReq with
      | some (.bad idx) => [.parseError idx]
      | _ =>
        if (readBatch reqs).1.isEmpty then
          if (readBatch reqs).2.2 then [] else if ka then sessionEvents peers fuel (readBatch reqs).2.1 ka else [.emptyRequest]
        else
          let batch := if (readBatch reqs).2.2 then dropLastKeepAlive (readBatch reqs).1 else (readBatch reqs).1
          if (processBatch peers batch [] ka).2 then
            (processBatch peers batch [] ka).1 ++ sessionEvents peers fuel (readBatch reqs).2.1 (processBatch peers batch [] ka).2
          else (processBatch peers batch [] ka).1 := by
  rfl

theorem sessionEvents_nil (peers : List String) (fuel : Nat) (ka : Bool) : sessionEvents peers fuel [] ka = [] := by
  cases fuel <;> rfl

/-- the round of the connection loop when the batch parses -/
theorem sessionEvents_ok (peers : List String) (fuel : Nat) (reqs : List CReq) (ka : Bool)
    (h : ∀ r ∈ (readBatch reqs).1, badReq r = false) :
    sessionEvents peers (fuel + 1) reqs ka =
      if (readBatch reqs).1.isEmpty then
        if (readBatch reqs).2.2 then [] else if ka then sessionEvents peers fuel (readBatch reqs).2.1 ka else [.emptyRequest]
      else
        let batch := if (readBatch reqs).2.2 then dropLastKeepAlive (readBatch reqs).1 else (readBatch reqs).1
        if (processBatch peers batch [] ka).2 then
          (processBatch peers batch [] ka).1 ++ sessionEvents peers fuel (readBatch reqs).2.1 true
        else (processBatch peers batch [] ka).1 := by
  rw [sessionEvents_succ, find_bad_none h]
  simp only []
  split
  · rfl
  · generalize (if (readBatch reqs).2.2 = true then dropLastKeepAlive (readBatch reqs).1 else (readBatch reqs).1) = batch'
    split
    · rename_i hk; rw [hk]
    · rfl

/-- the round of the connection loop when the batch does not parse -/
theorem sessionEvents_bad (peers : List String) (fuel : Nat) (reqs : List CReq) (ka : Bool) (i : Nat)
    (h : CReq.bad i ∈ (readBatch reqs).1) : sessionEvents peers (fuel + 1) reqs ka = [.parseError i] := by
  rw [sessionEvents_succ, readBatch_find_bad reqs i h]

theorem cmdsForCount_processed_dropLast (peers : List String) (p : String) :
    ∀ (l : List CReq), cmdsForCount peers (processed (dropLastKeepAlive l)) p = cmdsForCount peers (processed l) p
  | [] => rfl
  | [r] => by
    have e1 : processed [r.withKeepAlive false] = [r.withKeepAlive false] := by
      rw [processed_cons]; split <;> rfl
    have e2 : processed [r] = [r] := by
      rw [processed_cons]; split <;> rfl
    rw [dropLastKeepAlive, e1, e2, cmdsForCount_cons, cmdsForCount_cons, owed_withKeepAlive]
  | r :: r' :: rest => by
    rw [dropLastKeepAlive, processed_cons, processed_cons]
    split
    · rfl
    · rw [cmdsForCount_cons, cmdsForCount_cons, cmdsForCount_processed_dropLast peers p (r' :: rest)]
    · simp

theorem cmdsForCount_mid (peers : List String) (p : String) {mid : List CReq} (h : mid = [] ∨ mid = [CReq.blank]) :
    cmdsForCount peers mid p = [] := by
  rcases h with h | h <;> subst h <;> rfl

/-- whatever a session does, what it hands to the peers is what a prefix of the requests owes them -/
theorem session_prefix (peers : List String) :
    ∀ (fuel : Nat) (reqs : List CReq) (ka : Bool),
      ∃ done rest, reqs = done ++ rest ∧ ∀ p, sentTo (sessionEvents peers fuel reqs ka) p = cmdsForCount peers done p
  | 0, reqs, ka => ⟨[], reqs, rfl, fun _ => rfl⟩
  | fuel + 1, reqs, ka => by
    obtain ⟨mid, hmid, hsplit, _⟩ := readBatch_split reqs
    by_cases hbad : ∀ r ∈ (readBatch reqs).1, badReq r = false
    · rw [sessionEvents_ok peers fuel reqs ka hbad]
      generalize (readBatch reqs).1 = batch at hsplit
      generalize (readBatch reqs).2.1 = left at hsplit
      generalize (readBatch reqs).2.2 = eof
      split
      · split
        · exact ⟨[], reqs, rfl, fun _ => rfl⟩
        · split
          · obtain ⟨done, rest, h1, h2⟩ := session_prefix peers fuel left ka
            refine ⟨batch ++ mid ++ done, rest, by rw [hsplit, h1]; simp, fun p => ?_⟩
            rename_i hb _ _
            have : batch = [] := by simpa using hb
            subst this
            rw [h2 p, cmdsForCount_append, cmdsForCount_append, cmdsForCount_mid peers p hmid]
            rfl
          · exact ⟨[], reqs, rfl, fun _ => rfl⟩
      · simp only []
        have hproc : ∀ p, cmdsForCount peers (processed (if eof = true then dropLastKeepAlive batch else batch)) p =
            cmdsForCount peers (processed batch) p := by
          intro p; split
          · exact cmdsForCount_processed_dropLast peers p batch
          · rfl
        have hwhole : ∀ p, cmdsForCount peers (if eof = true then dropLastKeepAlive batch else batch) p =
            cmdsForCount peers batch p := by
          intro p; split
          · exact cmdsForCount_dropLast peers p batch
          · rfl
        generalize (if eof = true then dropLastKeepAlive batch else batch) = batch' at hproc hwhole
        split
        · rename_i hka
          obtain ⟨done, rest, h1, h2⟩ := session_prefix peers fuel left true
          refine ⟨batch ++ mid ++ done, rest, by rw [hsplit, h1]; simp, fun p => ?_⟩
          rw [sentTo_append, processBatch_sentTo peers p batch' [] ka (by simp [keys]), h2 p,
            processed_of_keepAlive peers batch' [] ka hka, hwhole p, cmdsForCount_append, cmdsForCount_append,
            cmdsForCount_mid peers p hmid]
          simp [queueFor_nil]
        · obtain ⟨t, ht⟩ := processed_prefix batch
          refine ⟨processed batch, t ++ mid ++ left, by rw [hsplit, ← List.append_assoc, ← List.append_assoc, ht], fun p => ?_⟩
          rw [processBatch_sentTo peers p batch' [] ka (by simp [keys]), hproc p]
          simp [queueFor_nil]
    · have : ∃ r ∈ (readBatch reqs).1, badReq r = true := by
        apply Classical.byContradiction
        intro hn
        apply hbad
        intro r hr
        cases hb : badReq r
        · rfl
        · exact absurd ⟨r, hr, hb⟩ hn
      obtain ⟨r, hr, hb⟩ := this
      cases r with
      | bad i =>
        rw [sessionEvents_bad peers fuel reqs ka i hr]
        exact ⟨[], reqs, rfl, fun _ => rfl⟩
      | _ => cases hb

/-- a batch in which every request asks for keep-alive leaves the connection keep-alive -/
theorem processBatch_ka (peers : List String) :
    ∀ (l : List CReq) (q : Queue) (ka : Bool), (∀ r ∈ l, r.keepAlive = true) → l ≠ [] →
      (processBatch peers l q ka).2 = true
  | [], _, _, _, h => absurd rfl h
  | .cmd line bs k :: rest, q, ka, h, _ => by
    have hk : k = true := h _ List.mem_cons_self
    subst hk
    rw [processBatch]
    cases rest with
    | nil => rfl
    | cons r rest' =>
      exact processBatch_ka peers (r :: rest') _ true (fun x hx => h x (List.mem_cons_of_mem _ hx)) (by simp)
  | .get i k :: rest, q, ka, h, _ => by
    have hk : k = true := h _ List.mem_cons_self
    subst hk
    rw [processBatch]
    simp only [if_true]
    cases rest with
    | nil => rfl
    | cons r rest' =>
      exact processBatch_ka peers (r :: rest') [] true (fun x hx => h x (List.mem_cons_of_mem _ hx)) (by simp)
  | .bad i :: rest, q, ka, h, _ => by have := h _ List.mem_cons_self; cases this
  | .blank :: rest, q, ka, h, _ => by have := h _ List.mem_cons_self; cases this

/-- a session in which every request asks for keep-alive hands every peer everything it is owed -/
theorem session_all (peers : List String) (p : String) :
    ∀ (fuel : Nat) (reqs : List CReq) (ka : Bool), (∀ r ∈ reqs, r.keepAlive = true) → reqs.length < fuel →
      sentTo (sessionEvents peers fuel reqs ka) p = cmdsForCount peers reqs p
  | 0, _, _, _, h => by cases h
  | fuel + 1, [], ka, _, _ => by rw [sessionEvents_nil]; rfl
  | fuel + 1, r :: rs, ka, hk, hf => by
    obtain ⟨mid, hmid, hsplit, heof⟩ := readBatch_split (r :: rs)
    have hnb : ∀ x ∈ r :: rs, x ≠ CReq.blank := by
      intro x hx he; have := hk x hx; rw [he] at this; cases this
    have hne : (readBatch (r :: rs)).1 ≠ [] := readBatch_ne_nil r rs (hnb r List.mem_cons_self)
    have hmid' : mid = [] := by
      rcases hmid with h | h
      · exact h
      · exfalso
        apply hnb CReq.blank _ rfl
        rw [hsplit, h]; simp
    subst hmid'
    have hsub : ∀ x ∈ (readBatch (r :: rs)).1, x ∈ r :: rs := by
      intro x hx; rw [hsplit]; simp [hx]
    have hbad : ∀ x ∈ (readBatch (r :: rs)).1, badReq x = false := by
      intro x hx
      have := hk x (hsub x hx)
      cases x <;> first | rfl | cases this
    rw [sessionEvents_ok peers fuel (r :: rs) ka hbad]
    generalize (readBatch (r :: rs)).1 = batch at *
    generalize (readBatch (r :: rs)).2.1 = left at *
    generalize (readBatch (r :: rs)).2.2 = eof at *
    have hkb : ∀ x ∈ batch, x.keepAlive = true := fun x hx => hk x (hsub x hx)
    have hpb : processed batch = batch := processed_of_no_close batch (fun x hx => closes_of_keepAlive (hkb x hx))
    rw [if_neg (by simpa using hne)]
    simp only []
    cases eof with
    | true =>
      obtain ⟨_, hl⟩ := heof rfl
      subst hl
      simp only [if_true]
      have hfin : sentTo (processBatch peers (dropLastKeepAlive batch) [] ka).1 p = cmdsForCount peers (r :: rs) p := by
        rw [processBatch_sentTo peers p _ [] ka (by simp [keys]), cmdsForCount_processed_dropLast, hpb, hsplit]
        simp [queueFor_nil]
      split
      · rw [sentTo_append, sessionEvents_nil, sentTo_nil, List.append_nil]; exact hfin
      · exact hfin
    | false =>
      simp only [Bool.false_eq_true, if_false]
      rw [if_pos (processBatch_ka peers batch [] ka hkb hne), sentTo_append,
        processBatch_sentTo peers p batch [] ka (by simp [keys]), hpb,
        session_all peers p fuel left true (fun x hx => hk x (by rw [hsplit]; simp [hx])) ?_, hsplit]
      · simp [queueFor_nil, cmdsForCount_append]
      · have hlen : (r :: rs).length = batch.length + left.length := by rw [hsplit]; simp
        have : 0 < batch.length := List.length_pos_iff.2 hne
        omega

/-! ### sessions without parse errors: the prefix that is served -/

/-- the requests a session without parse errors works on, as a state machine over the request list; the state is
    the keep-alive flag the connection would have if the current batch ended here.  An empty line ends a batch: the
    session goes on only if the connection is keep-alive.  A GET without keep-alive is answered and ends the
    session. -/
def sessionDone : Bool → List CReq → List CReq
  | _, [] => []
  | ka, .blank :: rest => if ka then .blank :: sessionDone true rest else []
  | _, .cmd l bs k :: rest => .cmd l bs k :: sessionDone k rest
  | _, .get i k :: rest => if k then .get i true :: sessionDone true rest else [.get i false]
  | _, .bad _ :: _ => []

theorem sessionDone_prefix : ∀ (ka : Bool) (l : List CReq), sessionDone ka l <+: l
  | _, [] => List.prefix_refl _
  | ka, .blank :: rest => by
    rw [sessionDone]; split
    · exact (List.prefix_cons_inj _).2 (sessionDone_prefix true rest)
    · exact List.nil_prefix
  | _, .cmd l bs k :: rest => by
    rw [sessionDone]; exact (List.prefix_cons_inj _).2 (sessionDone_prefix k rest)
  | _, .get i true :: rest => by
    rw [sessionDone]; simp only [if_true]; exact (List.prefix_cons_inj _).2 (sessionDone_prefix true rest)
  | _, .get i false :: rest => by
    rw [sessionDone]; simp only [Bool.false_eq_true, if_false]; exact ⟨rest, rfl⟩
  | _, .bad _ :: _ => List.nil_prefix

theorem sessionDone_cmds : ∀ (ka : Bool) (l : List CReq), (∀ r ∈ l, r.isCmd = true) → sessionDone ka l = l
  | _, [], _ => rfl
  | _, .cmd l bs k :: rest, h => by
    rw [sessionDone, sessionDone_cmds k rest (fun r hr => h r (List.mem_cons_of_mem _ hr))]
  | _, .get i k :: rest, h => by have := h _ List.mem_cons_self; cases this
  | _, .bad i :: rest, h => by have := h _ List.mem_cons_self; cases this
  | _, .blank :: rest, h => by have := h _ List.mem_cons_self; cases this

/-- at the end of the input the batch consists of commands only -/
theorem readBatch_eof_cmds : ∀ (reqs : List CReq), (readBatch reqs).2.2 = true → ∀ r ∈ (readBatch reqs).1, r.isCmd = true
  | [], _, r, hr => by cases hr
  | .blank :: rest, h, _, _ => by cases h
  | .get i k :: rest, h, _, _ => by cases h
  | .bad i :: rest, h, _, _ => by cases h
  | .cmd l bs k :: rest, h, r, hr => by
    rw [readBatch_cmd] at h hr
    rcases List.mem_cons.1 hr with hr | hr
    · rw [hr]; rfl
    · exact readBatch_eof_cmds rest h r hr

/-- an empty batch before the end of the input is an empty line -/
theorem readBatch_empty : ∀ (reqs : List CReq), (readBatch reqs).1 = [] → (readBatch reqs).2.2 = false →
    reqs = .blank :: (readBatch reqs).2.1
  | [], _, h => by cases h
  | .blank :: rest, _, _ => rfl
  | .get i k :: rest, h, _ => by cases h
  | .bad i :: rest, h, _ => by cases h
  | .cmd l bs k :: rest, h, _ => by rw [readBatch_cmd] at h; cases h

/-- one batch of a session without parse errors, against the state machine -/
theorem batch_done (peers : List String) (p : String) :
    ∀ (reqs : List CReq) (q : Queue) (ka : Bool), (∀ r ∈ reqs, badReq r = false) → (readBatch reqs).1 ≠ [] →
      (readBatch reqs).2.2 = false →
      cmdsForCount peers (sessionDone ka reqs) p =
        if (processBatch peers (readBatch reqs).1 q ka).2 = true then
          cmdsForCount peers (readBatch reqs).1 p ++ cmdsForCount peers (sessionDone true (readBatch reqs).2.1) p
        else cmdsForCount peers (processed (readBatch reqs).1) p
  | [], _, _, _, hne, _ => absurd rfl hne
  | .blank :: rest, _, _, _, hne, _ => absurd rfl hne
  | .bad i :: rest, _, _, hb, _, _ => by have := hb _ List.mem_cons_self; cases this
  | .get i true :: rest, q, ka, _, _, _ => by
    rw [readBatch_get, sessionDone]
    simp only [if_true]
    rw [processBatch]
    simp only [if_true]
    rw [if_pos (by rfl), cmdsForCount_cons]
    rfl
  | .get i false :: rest, q, ka, _, _, _ => by
    rw [readBatch_get, sessionDone]
    simp only [Bool.false_eq_true, if_false]
    rw [processBatch]
    simp only [Bool.false_eq_true, if_false]
    rfl
  | .cmd l bs k :: rest, q, ka, hb, _, heof => by
    rw [readBatch_cmd] at heof ⊢
    simp only [] at heof ⊢
    have hsd : sessionDone ka (.cmd l bs k :: rest) = .cmd l bs k :: sessionDone k rest := by rw [sessionDone]
    have hpb : processBatch peers (.cmd l bs k :: (readBatch rest).1) q ka =
        processBatch peers (readBatch rest).1 (q.addAll (expandBackends peers bs) l) k := by rw [processBatch]
    have hpc : processed (.cmd l bs k :: (readBatch rest).1) = .cmd l bs k :: processed (readBatch rest).1 := rfl
    rw [hsd, hpb, hpc, cmdsForCount_cons, cmdsForCount_cons, cmdsForCount_cons]
    have hb' : ∀ r ∈ rest, badReq r = false := fun r hr => hb r (List.mem_cons_of_mem _ hr)
    by_cases hne : (readBatch rest).1 = []
    · have hrest := readBatch_empty rest hne heof
      rw [hne]
      have hp : (processBatch peers [] (q.addAll (expandBackends peers bs) l) k).2 = k := rfl
      rw [hp]
      conv => lhs; rw [hrest, sessionDone]
      cases k with
      | true =>
        simp only [if_true]
        rw [cmdsForCount_cons]
        simp [owed, cmdsForCount_nil]
      | false =>
        simp only [Bool.false_eq_true, if_false]
        simp [processed, cmdsForCount_nil]
    · rw [batch_done peers p rest (q.addAll (expandBackends peers bs) l) k hb' hne heof]
      split
      · rw [List.append_assoc]
      · rfl

/-- a session without requests that do not parse, with enough fuel: every peer is handed what the requests of the
    served prefix owe it -/
theorem session_done (peers : List String) (p : String) :
    ∀ (fuel : Nat) (reqs : List CReq) (ka : Bool), (∀ r ∈ reqs, badReq r = false) → reqs.length < fuel →
      sentTo (sessionEvents peers fuel reqs ka) p = cmdsForCount peers (sessionDone ka reqs) p
  | 0, _, _, _, h => by cases h
  | fuel + 1, reqs, ka, hb, hf => by
    obtain ⟨mid, hmid, hsplit, heof⟩ := readBatch_split reqs
    have hsub : ∀ x ∈ (readBatch reqs).1, x ∈ reqs := by
      intro x hx; rw [hsplit]; simp [hx]
    have hleft : ∀ x ∈ (readBatch reqs).2.1, x ∈ reqs := by
      intro x hx; rw [hsplit]; simp [hx]
    rw [sessionEvents_ok peers fuel reqs ka (fun x hx => hb x (hsub x hx))]
    by_cases hne : (readBatch reqs).1 = []
    · rw [hne]
      simp only [List.isEmpty_nil, if_true]
      cases he : (readBatch reqs).2.2 with
      | true =>
        obtain ⟨hm, hl⟩ := heof he
        rw [hne, hm, hl] at hsplit
        rw [hsplit]
        rfl
      | false =>
        simp only [Bool.false_eq_true, if_false]
        have hrest := readBatch_empty reqs hne he
        conv => rhs; rw [hrest, sessionDone]
        cases ka with
        | true =>
          simp only [if_true]
          rw [session_done peers p fuel _ true (fun x hx => hb x (hleft x hx)) ?_, cmdsForCount_cons]
          · rfl
          · have := congrArg List.length hrest
            simp only [List.length_cons] at this
            omega
        | false => rfl
    · rw [if_neg (by simpa using hne)]
      simp only []
      cases he : (readBatch reqs).2.2 with
      | true =>
        obtain ⟨hm, hl⟩ := heof he
        have hcm := readBatch_eof_cmds reqs he
        have hreq : reqs = (readBatch reqs).1 := by rw [hm, hl] at hsplit; simpa using hsplit
        simp only [if_true]
        have hfin : sentTo (processBatch peers (dropLastKeepAlive (readBatch reqs).1) [] ka).1 p =
            cmdsForCount peers (sessionDone ka reqs) p := by
          rw [processBatch_sentTo peers p _ [] ka (by simp [keys]), cmdsForCount_processed_dropLast,
            processed_of_no_close _ (fun x hx => closes_of_isCmd (hcm x hx))]
          conv => rhs; rw [hreq, sessionDone_cmds ka _ hcm]
          simp [queueFor_nil]
        split
        · rw [sentTo_append, hl, sessionEvents_nil, sentTo_nil, List.append_nil]; exact hfin
        · exact hfin
      | false =>
        simp only [Bool.false_eq_true, if_false]
        rw [batch_done peers p reqs [] ka hb hne he]
        split
        · rename_i hka
          rw [sentTo_append, processBatch_sentTo peers p _ [] ka (by simp [keys]),
            processed_of_keepAlive peers _ [] ka hka,
            session_done peers p fuel _ true (fun x hx => hb x (hleft x hx)) ?_]
          · simp [queueFor_nil]
          · have hlen := congrArg List.length hsplit
            simp only [List.length_append] at hlen
            have : 0 < (readBatch reqs).1.length := List.length_pos_iff.2 hne
            omega
        · rw [processBatch_sentTo peers p _ [] ka (by simp [keys])]
          simp [queueFor_nil]

/-- every queue flushed during a session satisfies the invariant and is not empty -/
theorem session_flush_wf (peers : List String) :
    ∀ (fuel : Nat) (reqs : List CReq) (ka : Bool) (q' : Queue),
      Event.flush q' ∈ sessionEvents peers fuel reqs ka → WF peers q' ∧ q' ≠ []
  | 0, _, _, _, h => by cases h
  | fuel + 1, reqs, ka, q', h => by
    rw [sessionEvents_succ] at h
    split at h
    · simp at h
    · split at h
      · split at h
        · cases h
        · split at h
          · exact session_flush_wf peers fuel _ ka q' h
          · simp at h
      · simp only [] at h
        generalize (if (readBatch reqs).2.2 = true then dropLastKeepAlive (readBatch reqs).1 else (readBatch reqs).1) = batch' at h
        split at h
        · rcases List.mem_append.1 h with h | h
          · exact processBatch_flush_wf peers _ [] ka (wf_nil peers) q' h
          · exact session_flush_wf peers fuel _ _ q' h
        · exact processBatch_flush_wf peers _ [] ka (wf_nil peers) q' h

/-! ## the backend reads the commands -/

theorem backendReads_nil (b : BackendSt) (got : List String) (n : Nat) : backendReads [] b got n = (b, got, n) := rfl

theorem backendReads_cons (c : String) (rest : List String) (b : BackendSt) (got : List String) (n : Nat) :
    backendReads (c :: rest) b got n =
      if b.hit.1.mode == "closeearly" || b.hit.1.mode == "refuse" then (b.hit.1, got ++ [c], n)
      else backendReads rest b.hit.1 (got ++ [c]) (n + 1) := rfl

/-- what the backend reads on one connection is a prefix of what was sent, appended to what it had -/
theorem backendReads_prefix : ∀ (cmds : List String) (b : BackendSt) (got : List String) (n : Nat),
    ∃ pre, pre <+: cmds ∧ (backendReads cmds b got n).2.1 = got ++ pre
  | [], b, got, n => ⟨[], List.prefix_refl _, by simp [backendReads_nil]⟩
  | c :: rest, b, got, n => by
    rw [backendReads_cons]
    split
    · exact ⟨[c], ⟨rest, rfl⟩, rfl⟩
    · obtain ⟨pre, h1, h2⟩ := backendReads_prefix rest b.hit.1 (got ++ [c]) (n + 1)
      exact ⟨c :: pre, (List.prefix_cons_inj c).2 h1, by rw [h2]; simp⟩

/-- the number of commands answered never exceeds the number read -/
theorem backendReads_answered : ∀ (cmds : List String) (b : BackendSt) (got : List String) (n : Nat),
    (backendReads cmds b got n).2.2 ≤ n + cmds.length
  | [], b, got, n => by simp [backendReads_nil]
  | c :: rest, b, got, n => by
    rw [backendReads_cons]
    split
    · simp
    · have := backendReads_answered rest b.hit.1 (got ++ [c]) (n + 1)
      simp only [List.length_cons]; omega

theorem hit_ok (b : BackendSt) (hm : b.mode = "ok") (hf : b.failAfter = none) :
    b.hit = ({ b with hits := b.hits + 1 }, true) := by
  unfold BackendSt.hit
  simp only [hf, hm]
  rfl

/-- a backend that stays in mode "ok" reads and answers everything -/
theorem backendReads_ok : ∀ (cmds : List String) (b : BackendSt) (got : List String) (n : Nat),
    b.mode = "ok" → b.failAfter = none →
      backendReads cmds b got n = ({ b with hits := b.hits + cmds.length }, got ++ cmds, n + cmds.length)
  | [], b, got, n, _, _ => by simp [backendReads_nil]
  | c :: rest, b, got, n, hm, hf => by
    rw [backendReads_cons, hit_ok b hm hf]
    simp only []
    have hm' : ({ b with hits := b.hits + 1 } : BackendSt).mode = "ok" := hm
    rw [if_neg (by rw [hm']; decide), backendReads_ok rest _ (got ++ [c]) (n + 1) hm' hf]
    simp only [List.length_cons, List.append_assoc, List.nil_append, List.cons_append,
      Prod.mk.injEq, true_and]
    refine ⟨?_, by omega⟩
    congr 1
    omega

/-! ## `parseCommandReply` -/

theorem parseCommandReply_ne_connErr (resp : String) : parseCommandReply resp ≠ .connErr := by
  unfold parseCommandReply
  simp only []
  split
  · intro h; cases h
  · split <;> (intro h; cases h)

theorem dropWhileL_all {f : Char → Bool} : ∀ {l : List Char}, (∀ c ∈ l, f c = true) → dropWhileL f l = []
  | [], _ => rfl
  | c :: cs, h => by
    rw [dropWhileL, if_pos (h c List.mem_cons_self)]
    exact dropWhileL_all (fun x hx => h x (List.mem_cons_of_mem _ hx))

/-- a reply of white space only trims to nothing -/
theorem trimSpace_blank (s : String) (h : ∀ c ∈ s.toList, isGoSpace c = true) : trimSpace s = "" := by
  unfold trimSpace
  rw [dropWhileL_all h]
  rfl

theorem parseCommandReply_of_trim_empty (resp : String) (h : trimSpace resp = "") : parseCommandReply resp = .ok := by
  unfold parseCommandReply
  simp [h]

theorem cutL_split (sep : Char) : ∀ (a b : List Char), sep ∉ a → cutL sep (a ++ sep :: b) = (a, some b)
  | [], b, _ => by simp [cutL]
  | c :: a, b, h => by
    simp only [List.mem_cons, not_or] at h
    rw [List.cons_append, cutL, if_neg (by simpa using fun e : c = sep => h.1 e.symm), cutL_split sep a b h.2]

theorem cutL_none (sep : Char) : ∀ (a : List Char), sep ∉ a → cutL sep a = (a, none)
  | [], _ => rfl
  | c :: a, h => by
    simp only [List.mem_cons, not_or] at h
    rw [cutL, if_neg (by simpa using fun e : c = sep => h.1 e.symm), cutL_none sep a h.2]

theorem cut_split (sep : Char) (a b : String) (h : sep ∉ a.toList) :
    cut sep (a ++ String.singleton sep ++ b) = (a, some b) := by
  unfold cut
  have : (a ++ String.singleton sep ++ b).toList = a.toList ++ sep :: b.toList := by
    simp [String.toList_append]
  rw [this, cutL_split sep _ _ h]
  simp [String.ofList_toList]

theorem cut_none (sep : Char) (a : String) (h : sep ∉ a.toList) : cut sep a = (a, none) := by
  unfold cut
  rw [cutL_none sep _ h]
  simp [String.ofList_toList]

/-- `code: msg` is a rejection -/
theorem parseCommandReply_rejected (resp code msg : String) (h : trimSpace resp = code ++ ":" ++ msg)
    (hc : ':' ∉ code.toList) :
    parseCommandReply resp = .rejected ((atoi? code).getD 0) (trimSpace msg) := by
  unfold parseCommandReply
  simp only []
  have hne : (trimSpace resp == "") = false := by
    rw [h]
    apply beq_false_of_ne
    intro he
    have := congrArg String.toList he
    simp [String.toList_append] at this
  rw [hne, h]
  have : (":" : String) = String.singleton ':' := rfl
  rw [this, cut_split ':' code msg hc]
  rfl

/-- a reply without a colon is unusable -/
theorem parseCommandReply_garbage (resp : String) (h : trimSpace resp ≠ "") (hc : ':' ∉ (trimSpace resp).toList) :
    parseCommandReply resp = .garbage (trimSpace resp) := by
  unfold parseCommandReply
  simp only []
  rw [beq_false_of_ne h, cut_none ':' _ hc]
  rfl

/-! ## `sendCommands` -/

/-- the backend as the connection attempt of `SendCommands` sees it -/
def probeOf (b : BackendSt) : BackendSt :=
  { b with mode := (if b.mode == "refuse" then "refuse" else "ok"), failAfter := none }

/-- the bytes the backend writes back after `answered` commands -/
def replyText (cb : CmdBackend) (answered : Nat) : String :=
  String.join (List.replicate answered (if cb.reply == "" then "" else cb.reply ++ "\n"))

/-- `ScheduleImmediateUpdate`, and a full delta where the backend has no `last_update` column -/
def accepted (w : World) (p : PeerSt) : PeerSt :=
  let p := { p with lastUpdate := 0, lastFullHostUpdate := 0, lastFullServiceUpdate := 0 }
  if (p.flags &&& flagBit w.schema "HasLastUpdateColumn") == 0 then { p with forceFull := true } else p

/-- the backend's command record with one more connection -/
def withBatch (cb : CmdBackend) (got : List String) : CmdBackend := { cb with batches := cb.batches ++ [got] }

theorem sendCommands_eq (w : World) (now : Int) (p : PeerSt) (b : BackendSt) (cb : CmdBackend) (cmds : List String) :
    sendCommands w now p b cb cmds =
      let q := query w now p (probeOf b)
      match q.2.2 with
      | some _ => (q.1, b, cb, .connErr)
      | none =>
        let br := backendReads cmds b [] 0
        match parseCommandReply (replyText cb br.2.2) with
        | .ok => (accepted w q.1, br.1, withBatch cb br.2.1, .ok)
        | .garbage msg => (q.1.fail w now msg, br.1, withBatch cb br.2.1, .garbage msg)
        | r => (q.1, br.1, withBatch cb br.2.1, r) := by
  rfl

/-- the two ways `SendCommands` ends: no connection (nothing reaches the backend), or one connection on which
    the backend reads a prefix of the commands and whose reply decides the result -/
theorem sendCommands_cases (w : World) (now : Int) (p : PeerSt) (b : BackendSt) (cb : CmdBackend) (cmds : List String) :
    ((query w now p (probeOf b)).2.2 ≠ none ∧
      sendCommands w now p b cb cmds = ((query w now p (probeOf b)).1, b, cb, .connErr)) ∨
    ((query w now p (probeOf b)).2.2 = none ∧
      (sendCommands w now p b cb cmds).2.2.2 = parseCommandReply (replyText cb (backendReads cmds b [] 0).2.2) ∧
      (sendCommands w now p b cb cmds).2.2.2 ≠ .connErr ∧
      (sendCommands w now p b cb cmds).2.1 = (backendReads cmds b [] 0).1 ∧
      (sendCommands w now p b cb cmds).2.2.1 = withBatch cb (backendReads cmds b [] 0).2.1) := by
  rw [sendCommands_eq]
  simp only []
  cases hq : (query w now p (probeOf b)).2.2 with
  | some e => exact .inl ⟨by simp, rfl⟩
  | none =>
    refine .inr ⟨rfl, ?_⟩
    simp only []
    have hne := parseCommandReply_ne_connErr (replyText cb (backendReads cmds b [] 0).2.2)
    generalize parseCommandReply (replyText cb (backendReads cmds b [] 0).2.2) = r at hne
    cases r with
    | ok => exact ⟨rfl, hne, rfl, rfl⟩
    | rejected c m => exact ⟨rfl, hne, rfl, rfl⟩
    | garbage m => exact ⟨rfl, hne, rfl, rfl⟩
    | connErr => exact absurd rfl hne

/-- the peer after `SendCommands`, by result -/
theorem sendCommands_peer (w : World) (now : Int) (p : PeerSt) (b : BackendSt) (cb : CmdBackend) (cmds : List String) :
    (sendCommands w now p b cb cmds).1 =
      match (sendCommands w now p b cb cmds).2.2.2 with
      | .ok => accepted w (query w now p (probeOf b)).1
      | .garbage msg => (query w now p (probeOf b)).1.fail w now msg
      | _ => (query w now p (probeOf b)).1 := by
  rw [sendCommands_eq]
  simp only []
  cases hq : (query w now p (probeOf b)).2.2 with
  | some e => rfl
  | none =>
    simp only []
    have hne := parseCommandReply_ne_connErr (replyText cb (backendReads cmds b [] 0).2.2)
    generalize parseCommandReply (replyText cb (backendReads cmds b [] 0).2.2) = r at hne
    cases r <;> rfl

theorem probeOf_mode_ne_refuse {b : BackendSt} (h : b.mode ≠ "refuse") : (probeOf b).mode = "ok" := by
  unfold probeOf
  simp [h]

theorem connect_refuse (w : World) (now : Int) (b : BackendSt) (hb : b.mode = "refuse") :
    ∀ (k : Nat) (r : Bool) (p : PeerSt), (query.connect w now b k r p).2 = false
  | 0, _, _ => by unfold query.connect; rfl
  | k + 1, r, p => by
    unfold query.connect
    rw [if_neg (by simp [hb])]
    exact connect_refuse w now b hb k true _

theorem connect_self (w : World) (now : Int) (b : BackendSt) (p : PeerSt) (k : Nat) (hb : b.mode ≠ "refuse")
    (ha : p.addr = .self) : query.connect w now b (k + 1) false p = (p, true) := by
  unfold query.connect
  rw [if_pos (by simp [ha, hb])]
  simp

/-- a request of a peer whose current address is the backend's: if it is answered, no failure was recorded -/
theorem query_self (w : World) (now : Int) (p : PeerSt) (b : BackendSt) (ha : p.addr = .self)
    (h : (query w now p b).2.2 = none) : (query w now p b).1 = p := by
  rw [PeerL.query_eq] at h ⊢
  simp only [] at h ⊢
  by_cases hb : b.mode = "refuse"
  · rw [connect_refuse w now b hb] at h
    simp at h
  · cases hs : p.sources.length with
    | zero =>
      rw [hs] at h
      unfold query.connect at h
      simp at h
    | succ k =>
      rw [hs] at h
      rw [connect_self w now b p k hb ha] at h ⊢
      simp only [Bool.true_eq_false, if_false] at h ⊢
      split
      · rfl
      · rename_i hh; rw [if_neg hh] at h; cases h

/-- a request of a peer whose current address is the backend's, to a backend that answers -/
theorem query_self_ok (w : World) (now : Int) (p : PeerSt) (b : BackendSt) (ha : p.addr = .self) (hs : p.sources ≠ [])
    (hm : b.mode = "ok") (hf : b.failAfter = none) :
    query w now p b = (p, { b with hits := b.hits + 1 }, none) := by
  rw [PeerL.query_eq]
  simp only []
  obtain ⟨k, hk⟩ : ∃ k, p.sources.length = k + 1 := by
    cases hp : p.sources with
    | nil => exact absurd hp hs
    | cons a l => exact ⟨l.length, rfl⟩
  rw [hk, connect_self w now b p k (by rw [hm]; decide) ha, hit_ok b hm hf]
  simp

/-! ## `sendWithRetry` -/

theorem sendWithRetry_zero (w : World) (now : Int) (env : List EnvStep) (retries : Nat) (p : PeerSt) (b : BackendSt)
    (cb : CmdBackend) (cmds : List String) :
    sendWithRetry w now 0 env retries p b cb cmds = (p, b, cb, .stillWaiting, env) := rfl

theorem sendWithRetry_down (w : World) (now : Int) (fuel : Nat) (env : List EnvStep) (retries : Nat) (p : PeerSt)
    (b : BackendSt) (cb : CmdBackend) (cmds : List String) (h : p.status = .down ∨ p.status = .broken) :
    sendWithRetry w now (fuel + 1) env retries p b cb cmds = (p, b, cb, .lastError, env) := by
  unfold sendWithRetry
  rcases h with h | h <;> simp only [h]

theorem sendWithRetry_wait (w : World) (now : Int) (fuel : Nat) (env : List EnvStep) (retries : Nat) (p : PeerSt)
    (b : BackendSt) (cb : CmdBackend) (cmds : List String) (h : p.status = .warning ∨ p.status = .pending) :
    sendWithRetry w now (fuel + 1) env retries p b cb cmds =
      match env with
      | [] => (p, b, cb, .stillWaiting, [])
      | e :: env' =>
        sendWithRetry w now fuel env' retries (applyEnv w now p b e).1 (applyEnv w now p b e).2 cb cmds := by
  conv => lhs; unfold sendWithRetry
  rcases h with h | h <;> simp only [h] <;> cases env <;> rfl

theorem sendWithRetry_ready (w : World) (now : Int) (fuel : Nat) (env : List EnvStep) (retries : Nat) (p : PeerSt)
    (b : BackendSt) (cb : CmdBackend) (cmds : List String) (h : p.status = .up ∨ p.status = .syncing) :
    sendWithRetry w now (fuel + 1) env retries p b cb cmds =
      let s := sendCommands w now p b cb cmds
      match s.2.2.2 with
      | .ok => (s.1, s.2.1, s.2.2.1, .sent, env)
      | .rejected c m => (s.1, s.2.1, s.2.2.1, .rejected c m, env)
      | .garbage _ => (s.1, s.2.1, s.2.2.1, .lastError, env)
      | .connErr =>
        if retries > 0 then (s.1, s.2.1, s.2.2.1, .retriesExceeded, env)
        else
          match env with
          | [] => sendWithRetry w now fuel [] (retries + 1) s.1 s.2.1 s.2.2.1 cmds
          | e :: env' =>
            sendWithRetry w now fuel env' (retries + 1) (applyEnv w now s.1 s.2.1 e).1 (applyEnv w now s.1 s.2.1 e).2
              s.2.2.1 cmds := by
  conv => lhs; unfold sendWithRetry
  rcases h with h | h <;> simp only [h] <;>
    (generalize sendCommands w now p b cb cmds = s
     obtain ⟨p', b', cb', r⟩ := s
     cases r <;> rfl)

/-- the status decides which of the three ways a round of the sender takes -/
theorem status_cases (s : PeerState) :
    (s = .down ∨ s = .broken) ∨ (s = .warning ∨ s = .pending) ∨ (s = .up ∨ s = .syncing) := by
  cases s <;> simp

/-- what `SendCommandsWithRetry` leaves in the backend's command record: nothing new, or one more connection -/
def Delivered (cb cb' : CmdBackend) (cmds : List String) : Prop :=
  cb'.reply = cb.reply ∧ (cb'.batches = cb.batches ∨ ∃ got, cb'.batches = cb.batches ++ [got] ∧ got <+: cmds)

theorem sendCommands_delivered (w : World) (now : Int) (p : PeerSt) (b : BackendSt) (cb : CmdBackend) (cmds : List String) :
    Delivered cb (sendCommands w now p b cb cmds).2.2.1 cmds := by
  rcases sendCommands_cases w now p b cb cmds with ⟨_, h⟩ | ⟨_, _, _, _, h⟩
  · rw [h]; exact ⟨rfl, .inl rfl⟩
  · rw [h]
    obtain ⟨pre, h1, h2⟩ := backendReads_prefix cmds b [] 0
    refine ⟨rfl, .inr ⟨pre, ?_, h1⟩⟩
    rw [h2]; rfl

theorem sendWithRetry_delivered (w : World) (now : Int) (cmds : List String) :
    ∀ (fuel : Nat) (env : List EnvStep) (retries : Nat) (p : PeerSt) (b : BackendSt) (cb : CmdBackend),
      Delivered cb (sendWithRetry w now fuel env retries p b cb cmds).2.2.1 cmds
  | 0, env, retries, p, b, cb => ⟨rfl, .inl rfl⟩
  | fuel + 1, env, retries, p, b, cb => by
    rcases status_cases p.status with h | h | h
    · rw [sendWithRetry_down w now fuel env retries p b cb cmds h]; exact ⟨rfl, .inl rfl⟩
    · rw [sendWithRetry_wait w now fuel env retries p b cb cmds h]
      cases env with
      | nil => exact ⟨rfl, .inl rfl⟩
      | cons e env' => exact sendWithRetry_delivered w now cmds fuel env' retries _ _ cb
    · rw [sendWithRetry_ready w now fuel env retries p b cb cmds h]
      simp only []
      have hd := sendCommands_delivered w now p b cb cmds
      rcases sendCommands_cases w now p b cb cmds with ⟨_, hc⟩ | ⟨_, _, hne, _, _⟩
      · rw [hc]
        simp only []
        split
        · exact ⟨rfl, .inl rfl⟩
        · cases env with
          | nil => exact sendWithRetry_delivered w now cmds fuel [] (retries + 1) _ _ cb
          | cons e env' => exact sendWithRetry_delivered w now cmds fuel env' (retries + 1) _ _ cb
      · generalize sendCommands w now p b cb cmds = s at hd hne
        obtain ⟨p', b', cb', r⟩ := s
        cases r with
        | ok => exact hd
        | rejected c m => exact hd
        | garbage m => exact hd
        | connErr => exact absurd rfl hne

/-- `SendCommandsWithRetry` with a counter of the `SendCommands` calls -/
def sendWithRetryCount (w : World) (now : Int) : Nat → List EnvStep → Nat → PeerSt → BackendSt → CmdBackend → List String →
    (PeerSt × BackendSt × CmdBackend × CmdOutcome × List EnvStep) × Nat
  | 0, env, _, p, b, cb, _ => ((p, b, cb, .stillWaiting, env), 0)
  | fuel + 1, env, retries, p, b, cb, cmds =>
    match p.status with
    | .down | .broken => ((p, b, cb, .lastError, env), 0)
    | .warning | .pending =>
      (match env with
       | [] => ((p, b, cb, .stillWaiting, []), 0)
       | e :: env =>
         let (p, b) := applyEnv w now p b e
         sendWithRetryCount w now fuel env retries p b cb cmds)
    | .up | .syncing =>
      let (p, b, cb, r) := sendCommands w now p b cb cmds
      match r with
      | .ok => ((p, b, cb, .sent, env), 1)
      | .rejected c m => ((p, b, cb, .rejected c m, env), 1)
      | .garbage _ => ((p, b, cb, .lastError, env), 1)
      | .connErr =>
        if retries > 0 then ((p, b, cb, .retriesExceeded, env), 1)
        else
          (match env with
           | [] =>
             let r := sendWithRetryCount w now fuel [] (retries + 1) p b cb cmds
             (r.1, r.2 + 1)
           | e :: env =>
             let (p, b) := applyEnv w now p b e
             let r := sendWithRetryCount w now fuel env (retries + 1) p b cb cmds
             (r.1, r.2 + 1))

/-- the counting variant computes what `SendCommandsWithRetry` computes -/
theorem sendWithRetryCount_fst (w : World) (now : Int) (cmds : List String) :
    ∀ (fuel : Nat) (env : List EnvStep) (retries : Nat) (p : PeerSt) (b : BackendSt) (cb : CmdBackend),
      (sendWithRetryCount w now fuel env retries p b cb cmds).1 = sendWithRetry w now fuel env retries p b cb cmds
  | 0, env, retries, p, b, cb => rfl
  | fuel + 1, env, retries, p, b, cb => by
    unfold sendWithRetryCount sendWithRetry
    cases hs : p.status <;> simp only []
    case warning | pending =>
      cases env with
      | nil => rfl
      | cons e env' => exact sendWithRetryCount_fst w now cmds fuel env' retries _ _ cb
    case up | syncing =>
      generalize sendCommands w now p b cb cmds = s
      obtain ⟨p', b', cb', r⟩ := s
      cases r <;> try rfl
      simp only []
      split
      · rfl
      · cases env with
        | nil => exact sendWithRetryCount_fst w now cmds fuel [] (retries + 1) _ _ cb'
        | cons e env' => exact sendWithRetryCount_fst w now cmds fuel env' (retries + 1) _ _ cb'

/-- at most two `SendCommands` calls, at most one after a retry -/
theorem sendWithRetryCount_le (w : World) (now : Int) (cmds : List String) :
    ∀ (fuel : Nat) (env : List EnvStep) (retries : Nat) (p : PeerSt) (b : BackendSt) (cb : CmdBackend),
      (sendWithRetryCount w now fuel env retries p b cb cmds).2 ≤ (if retries = 0 then 2 else 1)
  | 0, env, retries, p, b, cb => by
    unfold sendWithRetryCount; split <;> simp
  | fuel + 1, env, retries, p, b, cb => by
    have hpos : 0 < (if retries = 0 then 2 else 1) := by split <;> simp
    have hone : 1 ≤ (if retries = 0 then 2 else 1) := hpos
    unfold sendWithRetryCount
    cases hs : p.status <;> simp only []
    case down | broken => exact Nat.zero_le _
    case warning | pending =>
      cases env with
      | nil => exact Nat.zero_le _
      | cons e env' => exact sendWithRetryCount_le w now cmds fuel env' retries _ _ cb
    case up | syncing =>
      generalize sendCommands w now p b cb cmds = s
      obtain ⟨p', b', cb', r⟩ := s
      cases r <;> try exact hone
      simp only []
      split
      · exact hone
      · rename_i hr
        have hr0 : retries = 0 := by omega
        subst hr0
        cases env with
        | nil =>
          have := sendWithRetryCount_le w now cmds fuel [] (0 + 1) p' b' cb'
          simp only [Nat.succ_ne_self, if_false] at this
          simp only [if_true]
          omega
        | cons e env' =>
          have := sendWithRetryCount_le w now cmds fuel env' (0 + 1) (applyEnv w now p' b' e).1 (applyEnv w now p' b' e).2 cb'
          simp only [Nat.succ_ne_self, if_false] at this
          simp only [if_true]
          omega

/-! ## the update loop after an accepted command -/

open Lmd.PeerL

theorem finishStep_ran (w : World) (now : Int) (p : PeerSt) (b : BackendSt) (ran : Bool) (err : StepErr) :
    (finishStep w now p b ran err).ran = ran := by
  unfold finishStep; split <;> rfl

theorem upRun_ran (w : World) (now lastUpdate : Int) (p : PeerSt) (b : BackendSt) (c : Cache) :
    (upRun w now lastUpdate p b c).ran = true := by
  unfold upRun
  split
  · simp only []
    split
    · split <;> exact finishStep_ran ..
    · exact finishStep_ran ..
  · exact finishStep_ran ..

/-- once the run is due, the loop body runs whatever the state of the peer -/
theorem dispatch_ran (w : World) (now lastUpdate : Int) (s0 : PeerState) (p : PeerSt) (b : BackendSt)
    (c1 : Option Cache) : (dispatch w now lastUpdate s0 p b c1).ran = true := by
  unfold dispatch
  split
  · exact finishStep_ran ..
  · exact finishStep_ran ..
  · exact finishStep_ran ..
  · split
    · exact finishStep_ran ..
    · exact finishStep_ran ..
  · split
    · exact finishStep_ran ..
    · exact upRun_ran ..
  · split
    · exact finishStep_ran ..
    · exact upRun_ran ..

theorem localtimeStep_idling (w : World) (now : Int) (p : PeerSt) (b : BackendSt) :
    (localtimeStep w now p b).1.idling = p.idling :=
  (localtimeStep_spec w now p b).1.steps2.frame.1

/-- the once-a-minute refresh leaves the idle flag alone -/
theorem tpStep_idling (w : World) (now : Int) (p : PeerSt) (b : BackendSt) (c0 : Option Cache) :
    (tpStep w now p b c0).2.1.idling = p.idling := by
  unfold tpStep
  split
  · rename_i c
    split
    · simp only []
      have hr := (updateFullList_steps2 w now ["timeperiods", "hostgroups", "servicegroups"]
        { p with lastTpMinute := (now / 60) % 60 } b c).frame.1
      generalize updateFullList w now ["timeperiods", "hostgroups", "servicegroups"]
        { p with lastTpMinute := (now / 60) % 60 } b c = r at hr
      split
      · have hl := localtimeStep_idling w now (withCache r) r.b
        rw [(withCache_frame r).1, hr] at hl
        split <;> exact hl
      · exact hr
    · rfl
  · rfl

/-- a peer whose update time was reset to 0 and that does not idle is due as soon as the clock has passed one
    update interval: the loop body runs unless the minute refresh ended the pass -/
theorem tick_due (w : World) (now : Int) (p : PeerSt) (b : BackendSt) (hlu : p.lastUpdate = 0)
    (hidle : idlesAt w now p = false) (hnow : w.cfg.updateInterval ≤ now)
    (htp : (tpStep w now (idleStep w now p) b p.cache).1 = none) : (tick w now p b).ran = true := by
  rw [tick_eq]
  have hi := tpStep_idling w now (idleStep w now p) b p.cache
  rw [idleStep_idling, hidle] at hi
  generalize tpStep w now (idleStep w now p) b p.cache = tp at htp hi
  obtain ⟨res, p', b', c1⟩ := tp
  simp only [] at htp hi
  subst htp
  simp only []
  unfold mainStep nextDue
  rw [hi, hlu]
  simp only [Bool.false_eq_true, if_false]
  rw [if_neg (by omega)]
  exact dispatch_ran ..

/-- the minute refresh does not run for a peer without data, or in the minute of the last refresh -/
theorem tpStep_none (w : World) (now : Int) (p : PeerSt) (b : BackendSt)
    (h : p.cache = none ∨ p.lastTpMinute = (now / 60) % 60) :
    (tpStep w now (idleStep w now p) b p.cache).1 = none := by
  unfold tpStep
  cases hc : p.cache with
  | none => rfl
  | some c =>
    simp only []
    rcases h with h | h
    · rw [hc] at h; cases h
    · rw [if_neg (by rw [(idleStep_fields w now p).1, h]; simp)]

/-- the pass over an awake `Up` peer with data whose update time was reset to 0: a delta run from time 0 (every
    host and service is fetched), with the force flag consumed -/
theorem tick_after_accept (w : World) (now : Int) (p : PeerSt) (b : BackendSt) (c : Cache)
    (hc : p.cache = some c) (hs : p.status = .up) (hidle : idlesAt w now p = false)
    (hmin : p.lastTpMinute = (now / 60) % 60) (hlu : p.lastUpdate = 0) (hnow : w.cfg.updateInterval ≤ now)
    (hfull : ¬ (w.cfg.fullUpdateInterval > 0 ∧ now > p.lastFullUpdate + w.cfg.fullUpdateInterval)) :
    tick w now p b = deltaRun w now { p with lastUpdate := now, forceFull := false } b c 0 := by
  generalize htgt : ({ p with lastUpdate := now, forceFull := false } : PeerSt) = tgt
  have hidling : p.idling = false := by
    unfold idlesAt at hidle
    cases hi : p.idling
    · rfl
    · rw [hi] at hidle; simp at hidle
  have hstep : idleStep w now p = p := by
    have h1 := idleStep_idling w now p
    unfold idleStep at h1 ⊢
    split
    · rename_i hcond
      rw [if_pos hcond] at h1
      rw [hidle] at h1; cases h1
    · rfl
  rw [tick_eq, hstep]
  have htp : tpStep w now p b p.cache = (none, p, b, some c) := by
    unfold tpStep
    rw [hc]
    simp only []
    rw [if_neg (by simp [hidling, hmin])]
  rw [htp]
  simp only []
  have hnd : nextDue w p.lastUpdate p = w.cfg.updateInterval := by
    unfold nextDue; rw [hidling, hlu]; simp
  unfold mainStep
  rw [hnd, if_neg (by omega)]
  have hstruct : ∀ (q : PeerSt), q.forceFull = false →
      ({ q with lastUpdate := now } : PeerSt) = { q with lastUpdate := now, forceFull := false } := by
    intro q hq; cases q; simp only at hq; subst hq; rfl
  have e3 : ({ p with lastUpdate := now } : PeerSt).forceFull = p.forceFull := rfl
  have e4 : ({ ({ p with lastUpdate := now } : PeerSt) with forceFull := false } : PeerSt) = tgt := htgt
  generalize hp' : ({ p with lastUpdate := now } : PeerSt) = p' at e3 e4 ⊢
  have e1 : p'.idling = false := by rw [← hp']; exact hidling
  have e2 : p'.lastFullUpdate = p.lastFullUpdate := by rw [← hp']
  rw [hs]
  unfold dispatch
  simp only []
  unfold upRun
  have hcond : (!p'.idling && decide (w.cfg.fullUpdateInterval > 0) &&
      decide (now > p'.lastFullUpdate + w.cfg.fullUpdateInterval)) = false := by
    rw [e1, e2]
    by_cases h1 : w.cfg.fullUpdateInterval > 0
    · by_cases h2 : now > p.lastFullUpdate + w.cfg.fullUpdateInterval
      · exact absurd ⟨h1, h2⟩ hfull
      · simp [h2]
    · simp [h1]
  rw [if_neg (by rw [hcond]; simp), hlu, e3]
  cases hf : p.forceFull
  · simp only [Bool.false_eq_true, if_false]
    rw [← hp', hstruct p hf, htgt]
  · simp only [if_true]
    rw [e4]

/-! ## a backend that writes nothing back -/

theorem foldl_append_empty : ∀ (n : Nat) (acc : String), (List.replicate n "").foldl (· ++ ·) acc = acc
  | 0, acc => rfl
  | n + 1, acc => by
    rw [List.replicate_succ, List.foldl_cons, String.append_empty]
    exact foldl_append_empty n acc

theorem join_replicate_empty (n : Nat) : String.join (List.replicate n "") = "" := by
  unfold String.join
  exact foldl_append_empty n ""

theorem replyText_silent (cb : CmdBackend) (n : Nat) (h : cb.reply = "") : replyText cb n = "" := by
  unfold replyText
  rw [h]
  exact join_replicate_empty n

theorem parseCommandReply_empty : parseCommandReply "" = .ok := by decide

/-! ## the `SendCommands` call behind an outcome -/

/-- the `SendCommands` result an outcome reports, if it reports one -/
def resOf : CmdOutcome → Option SendResult
  | .sent => some .ok
  | .rejected c m => some (.rejected c m)
  | _ => none

/-- "sent" and "rejected" are the result of the last `SendCommands` call, and the sender hands back the state
    that call left -/
theorem sendWithRetry_last (w : World) (now : Int) (cmds : List String) (sr : SendResult) :
    ∀ (fuel : Nat) (env : List EnvStep) (retries : Nat) (p : PeerSt) (b : BackendSt) (cb : CmdBackend),
      resOf (sendWithRetry w now fuel env retries p b cb cmds).2.2.2.1 = some sr →
      ∃ p0 b0 cb0, (p0.status = .up ∨ p0.status = .syncing) ∧
        sendCommands w now p0 b0 cb0 cmds =
          ((sendWithRetry w now fuel env retries p b cb cmds).1, (sendWithRetry w now fuel env retries p b cb cmds).2.1,
           (sendWithRetry w now fuel env retries p b cb cmds).2.2.1, sr)
  | 0, env, retries, p, b, cb, h => by cases h
  | fuel + 1, env, retries, p, b, cb, h => by
    rcases status_cases p.status with hs | hs | hs
    · rw [sendWithRetry_down w now fuel env retries p b cb cmds hs] at h; cases h
    · rw [sendWithRetry_wait w now fuel env retries p b cb cmds hs] at h ⊢
      cases env with
      | nil => cases h
      | cons e env' => exact sendWithRetry_last w now cmds sr fuel env' retries _ _ cb h
    · rw [sendWithRetry_ready w now fuel env retries p b cb cmds hs] at h ⊢
      simp only [] at h ⊢
      generalize hsc : sendCommands w now p b cb cmds = s at h ⊢
      obtain ⟨p', b', cb', r⟩ := s
      cases r with
      | ok =>
        simp only [resOf, Option.some.injEq] at h
        subst h
        exact ⟨p, b, cb, hs, hsc⟩
      | rejected c m =>
        simp only [resOf, Option.some.injEq] at h
        subst h
        exact ⟨p, b, cb, hs, hsc⟩
      | garbage m => cases h
      | connErr =>
        simp only [] at h ⊢
        split at h
        · cases h
        · rename_i hret
          rw [if_neg hret]
          cases env with
          | nil => exact sendWithRetry_last w now cmds sr fuel [] (retries + 1) _ _ _ h
          | cons e env' => exact sendWithRetry_last w now cmds sr fuel env' (retries + 1) _ _ _ h

theorem accepted_fields (w : World) (p : PeerSt) :
    (accepted w p).lastUpdate = 0 ∧ (accepted w p).lastFullHostUpdate = 0 ∧ (accepted w p).lastFullServiceUpdate = 0 ∧
    ((accepted w p).flags &&& flagBit w.schema "HasLastUpdateColumn" = 0 → (accepted w p).forceFull = true) ∧
    (accepted w p).flags = p.flags ∧ (accepted w p).status = p.status ∧ (accepted w p).cache = p.cache ∧
    (accepted w p).lastError = p.lastError ∧ (accepted w p).idling = p.idling ∧ (accepted w p).lastQuery = p.lastQuery := by
  unfold accepted
  simp only []
  split
  · exact ⟨rfl, rfl, rfl, fun _ => rfl, rfl, rfl, rfl, rfl, rfl, rfl⟩
  · rename_i h
    refine ⟨rfl, rfl, rfl, fun h0 => ?_, rfl, rfl, rfl, rfl, rfl, rfl⟩
    exact absurd (by simpa using h0) h

end Lmd.CmdL
