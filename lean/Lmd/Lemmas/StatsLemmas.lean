/-
  Helper lemmas for property C05 (Stats equal the aggregates over exactly the filtered rows):
  accumulator folds, the bump-list semantics of grouped stats, the grouping optimiser invariant,
  flat counting slot by slot, and the group-by map.
-/
import Lmd.Stats

namespace Lmd.C05

open Lmd

/-! ## 1. accumulators -/

/-- the slot a backend holds after seeing the values `vs` one row at a time -/
def accOf (k : AccKind) (vs : List Int) : Acc :=
  vs.foldl (fun a v => a.apply v 1) (Acc.init k)

theorem foldl_min_assoc (a b : Int) (l : List Int) :
    l.foldl min (min a b) = min a (l.foldl min b) := by
  induction l generalizing a b with
  | nil => rfl
  | cons x xs ih =>
    simp only [List.foldl_cons]
    have : min (min a b) x = min a (min b x) := by omega
    rw [this, ih]

theorem foldl_max_assoc (a b : Int) (l : List Int) :
    l.foldl max (max a b) = max a (l.foldl max b) := by
  induction l generalizing a b with
  | nil => rfl
  | cons x xs ih =>
    simp only [List.foldl_cons]
    have : max (max a b) x = max a (max b x) := by omega
    rw [this, ih]

theorem foldl_add_shift (a : Int) (l : List Int) :
    l.foldl (· + ·) a = a + l.foldl (· + ·) 0 := by
  induction l generalizing a with
  | nil => simp
  | cons x xs ih =>
    simp only [List.foldl_cons]
    rw [ih (a + x), ih (0 + x)]; omega

/-- folding counter slots: both fields grow by the number of rows -/
theorem fold_counter (a : Acc) (h : a.kind = .counter) (vs : List Int) :
    vs.foldl (fun a v => a.apply v 1) a =
      { kind := .counter, stats := a.stats + vs.length, count := a.count + vs.length } := by
  induction vs generalizing a with
  | nil => cases a; simp_all
  | cons x xs ih =>
    simp only [List.foldl_cons]
    rw [ih _ (by simp [Acc.apply, h])]
    simp only [Acc.apply, h, List.length_cons, Acc.mk.injEq, true_and]
    constructor <;> omega

theorem fold_sum (a : Acc) (h : a.kind = .sum) (vs : List Int) :
    vs.foldl (fun a v => a.apply v 1) a =
      { kind := .sum, stats := vs.foldl (· + ·) a.stats, count := a.count + vs.length } := by
  induction vs generalizing a with
  | nil => cases a; simp_all
  | cons x xs ih =>
    simp only [List.foldl_cons]
    rw [ih _ (by simp [Acc.apply, h])]
    simp only [Acc.apply, h, List.length_cons, Acc.mk.injEq, true_and]
    omega

theorem fold_avg (a : Acc) (h : a.kind = .avg) (vs : List Int) :
    vs.foldl (fun a v => a.apply v 1) a =
      { kind := .avg, stats := vs.foldl (· + ·) a.stats, count := a.count + vs.length } := by
  induction vs generalizing a with
  | nil => cases a; simp_all
  | cons x xs ih =>
    simp only [List.foldl_cons]
    rw [ih _ (by simp [Acc.apply, h])]
    simp only [Acc.apply, h, List.length_cons, Acc.mk.injEq, true_and]
    omega

/-- a minimum slot that already holds a value keeps the running minimum -/
theorem fold_min (a : Acc) (h : a.kind = .min) (hc : 0 < a.count) (vs : List Int) :
    vs.foldl (fun a v => a.apply v 1) a =
      { kind := .min, stats := vs.foldl min a.stats, count := a.count + vs.length } := by
  induction vs generalizing a with
  | nil => cases a; simp_all
  | cons x xs ih =>
    simp only [List.foldl_cons]
    rw [ih _ (by simp [Acc.apply, h]) (by simp [Acc.apply, h])]
    have hne : (a.count == 0) = false := by simp; omega
    simp only [Acc.apply, h, List.length_cons, Acc.mk.injEq, true_and, hne]
    refine ⟨?_, by omega⟩
    congr 1
    simp only [Int.min_def]
    by_cases hx : a.stats > x <;> simp [hx] <;> omega

theorem fold_max (a : Acc) (h : a.kind = .max) (hc : 0 < a.count) (vs : List Int) :
    vs.foldl (fun a v => a.apply v 1) a =
      { kind := .max, stats := vs.foldl max a.stats, count := a.count + vs.length } := by
  induction vs generalizing a with
  | nil => cases a; simp_all
  | cons x xs ih =>
    simp only [List.foldl_cons]
    rw [ih _ (by simp [Acc.apply, h]) (by simp [Acc.apply, h])]
    have hne : (a.count == 0) = false := by simp; omega
    simp only [Acc.apply, h, List.length_cons, Acc.mk.injEq, true_and, hne]
    refine ⟨?_, by omega⟩
    congr 1
    simp only [Int.max_def]
    by_cases hx : a.stats < x <;> simp [hx] <;> omega

theorem accOf_counter (vs : List Int) :
    accOf .counter vs = { kind := .counter, stats := vs.length, count := vs.length } := by
  unfold accOf
  rw [fold_counter _ (by simp [Acc.init])]
  simp [Acc.init]

theorem accOf_sum (vs : List Int) :
    accOf .sum vs = { kind := .sum, stats := vs.foldl (· + ·) 0, count := vs.length } := by
  unfold accOf
  rw [fold_sum _ (by simp [Acc.init])]
  simp [Acc.init]

theorem accOf_avg (vs : List Int) :
    accOf .avg vs = { kind := .avg, stats := vs.foldl (· + ·) 0, count := vs.length } := by
  unfold accOf
  rw [fold_avg _ (by simp [Acc.init])]
  simp [Acc.init]

theorem accOf_min_nil : accOf .min [] = { kind := .min, stats := -1000, count := 0 } := by
  simp [accOf, Acc.init]

theorem accOf_min_cons (v : Int) (vs : List Int) :
    accOf .min (v :: vs) = { kind := .min, stats := vs.foldl min v, count := vs.length + 1 } := by
  unfold accOf
  simp only [List.foldl_cons]
  rw [fold_min _ (by simp [Acc.apply, Acc.init]) (by simp [Acc.apply, Acc.init])]
  simp [Acc.apply, Acc.init]; omega

theorem accOf_max_nil : accOf .max [] = { kind := .max, stats := 0, count := 0 } := by
  simp [accOf, Acc.init]

theorem accOf_max_cons (v : Int) (vs : List Int) :
    accOf .max (v :: vs) = { kind := .max, stats := vs.foldl max v, count := vs.length + 1 } := by
  unfold accOf
  simp only [List.foldl_cons]
  rw [fold_max _ (by simp [Acc.apply, Acc.init]) (by simp [Acc.apply, Acc.init])]
  simp [Acc.apply, Acc.init]; omega

theorem accOf_kind (k : AccKind) (vs : List Int) : (accOf k vs).kind = k := by
  cases k
  · rw [accOf_counter]
  · rw [accOf_sum]
  · rw [accOf_avg]
  · cases vs with
    | nil => rw [accOf_min_nil]
    | cons v vs => rw [accOf_min_cons]
  · cases vs with
    | nil => rw [accOf_max_nil]
    | cons v vs => rw [accOf_max_cons]

theorem accOf_count (k : AccKind) (vs : List Int) : (accOf k vs).count = vs.length := by
  cases k
  · rw [accOf_counter]
  · rw [accOf_sum]
  · rw [accOf_avg]
  · cases vs with
    | nil => rw [accOf_min_nil]; rfl
    | cons v vs => rw [accOf_min_cons]; rfl
  · cases vs with
    | nil => rw [accOf_max_nil]; rfl
    | cons v vs => rw [accOf_max_cons]; rfl

theorem final_accOf (k : AccKind) (vs : List Int) : (accOf k vs).final = specFinal k vs := by
  cases k
  · rw [accOf_counter]; cases vs <;> simp [Acc.final, specFinal]
  · rw [accOf_sum]; cases vs <;> simp [Acc.final, specFinal]
  · rw [accOf_avg]; cases vs <;> simp [Acc.final, specFinal]
  · cases vs with
    | nil => rw [accOf_min_nil]; simp [Acc.final, specFinal]
    | cons v vs => rw [accOf_min_cons]; simp [Acc.final, specFinal]
  · cases vs with
    | nil => rw [accOf_max_nil]; simp [Acc.final, specFinal]
    | cons v vs => rw [accOf_max_cons]; simp [Acc.final, specFinal]

theorem foldl_min_append_cons (x y : Int) (xs ys : List Int) :
    (xs ++ y :: ys).foldl min x = min (xs.foldl min x) (ys.foldl min y) := by
  rw [List.foldl_append, List.foldl_cons, foldl_min_assoc]

theorem foldl_max_append_cons (x y : Int) (xs ys : List Int) :
    (xs ++ y :: ys).foldl max x = max (xs.foldl max x) (ys.foldl max y) := by
  rw [List.foldl_append, List.foldl_cons, foldl_max_assoc]

theorem merge_accOf (k : AccKind) (xs ys : List Int) :
    (accOf k xs).apply (accOf k ys).stats (accOf k ys).count = accOf k (xs ++ ys) := by
  cases k
  · simp only [accOf_counter, Acc.apply, List.length_append, Acc.mk.injEq, true_and]
    constructor <;> (try push_cast) <;> omega
  · simp only [accOf_sum, Acc.apply, List.length_append, Acc.mk.injEq, true_and, List.foldl_append]
    rw [foldl_add_shift (xs.foldl _ _)]; simp
  · simp only [accOf_avg, Acc.apply, List.length_append, Acc.mk.injEq, true_and, List.foldl_append]
    rw [foldl_add_shift (xs.foldl _ _)]; simp
  · cases ys with
    | nil => cases xs <;> simp [accOf_min_nil, accOf_min_cons, Acc.apply]
    | cons y ys =>
      cases xs with
      | nil => simp [accOf_min_nil, accOf_min_cons, Acc.apply]
      | cons x xs =>
        simp only [List.cons_append, accOf_min_cons, Acc.apply, foldl_min_append_cons, List.length_append,
          List.length_cons, Acc.mk.injEq, true_and]
        refine ⟨?_, by omega⟩
        simp only [Int.min_def]
        by_cases h : List.foldl min x xs > List.foldl min y ys <;> simp [h] <;> omega
  · cases ys with
    | nil => cases xs <;> simp [accOf_max_nil, accOf_max_cons, Acc.apply]
    | cons y ys =>
      cases xs with
      | nil => simp [accOf_max_nil, accOf_max_cons, Acc.apply]
      | cons x xs =>
        simp only [List.cons_append, accOf_max_cons, Acc.apply, foldl_max_append_cons, List.length_append,
          List.length_cons, Acc.mk.injEq, true_and]
        refine ⟨?_, by omega⟩
        simp only [Int.max_def]
        by_cases h : List.foldl max x xs < List.foldl max y ys <;> simp [h] <;> omega

theorem merge_parts (k : AccKind) (xs : List Int) (parts : List (List Int)) :
    parts.foldl (fun a p => a.apply (accOf k p).stats (accOf k p).count) (accOf k xs) =
      accOf k (xs ++ parts.flatten) := by
  induction parts generalizing xs with
  | nil => simp
  | cons p ps ih => simp only [List.foldl_cons, merge_accOf, ih, List.flatten_cons, List.append_assoc]

/-! ## 3. flat counting, slot by slot -/

/-- what a matching counter does to its slot -/
def incr (a : Acc) : Acc := { a with stats := a.stats + 1, count := a.count + 1 }

/-- the specification of one stats column on one row: a counter is bumped iff its filter holds
    (Boolean semantics), an aggregate applies the row's value; `none` where the getter panics -/
def stepSlot (q : Quirks) (v : View) : StatsEntry → Acc → Option Acc
  | .counter f, a => some (if sem q v f then incr a else a)
  | .agg _ col _, a => (getFloat v col).map (fun m => a.apply m 1)

/-- all stats columns of one row, each on its own slot -/
def slotwise (q : Quirks) (v : View) : List StatsEntry → Accs → Option Accs
  | e :: es, a :: as =>
    match stepSlot q v e a with
    | some a' => (slotwise q v es as).map (a' :: ·)
    | none => none
  | _, _ => some []

theorem bump_append_cons (pre : Accs) (a : Acc) (as : Accs) (f : Acc → Acc) :
    Accs.bump (pre ++ a :: as) pre.length f = pre ++ f a :: as := by
  simp [Accs.bump]

theorem countFlat_slotwise_aux (q : Quirks) (v : View) (stats : List StatsEntry) :
    ∀ (pre cur : Accs), cur.length = stats.length →
      countFlat q false v stats pre.length (pre ++ cur) = (slotwise q v stats cur).map (pre ++ ·) := by
  induction stats with
  | nil =>
    intro pre cur h
    cases cur with
    | nil => simp [countFlat, slotwise]
    | cons _ _ => simp at h
  | cons e es ih =>
    intro pre cur h
    cases cur with
    | nil => simp at h
    | cons a as =>
      have hl : as.length = es.length := by simpa using h
      cases e with
      | counter f =>
        have key : ∀ x : Acc, countFlat q false v es (pre.length + 1) (pre ++ x :: as) =
            (slotwise q v es as).map (pre ++ x :: ·) := by
          intro x
          have := ih (pre ++ [x]) as hl
          simp only [List.length_append, List.length_cons, List.length_nil, List.append_assoc,
            List.cons_append, List.nil_append] at this
          simpa using this
        simp only [countFlat, slotwise, stepSlot, Bool.false_eq_true, if_false]
        by_cases hs : sem q v f = true
        · simp only [hs, if_true]
          rw [show (fun a : Acc => { a with stats := a.stats + 1, count := a.count + 1 }) = incr from rfl,
            bump_append_cons, key]
          simp [Option.map_map, Function.comp_def]
        · simp only [hs, Bool.false_eq_true, if_false]
          rw [key]
          simp [Option.map_map, Function.comp_def]
      | agg k col n =>
        simp only [countFlat, slotwise, stepSlot]
        cases hg : getFloat v col with
        | none => simp
        | some m =>
          simp only [Option.map_some]
          rw [bump_append_cons]
          have := ih (pre ++ [a.apply m 1]) as hl
          simp only [List.length_append, List.length_cons, List.length_nil, List.append_assoc,
            List.cons_append, List.nil_append] at this
          rw [this]
          simp [Option.map_map, Function.comp_def]

theorem countFlat_slotwise (q : Quirks) (v : View) (stats : List StatsEntry) (accs : Accs)
    (h : accs.length = stats.length) :
    countFlat q false v stats 0 accs = slotwise q v stats accs := by
  have := countFlat_slotwise_aux q v stats [] accs h
  simpa using this

theorem slotwise_spec (q : Quirks) (v : View) :
    ∀ (stats : List StatsEntry) (accs accs' : Accs), accs.length = stats.length →
      slotwise q v stats accs = some accs' →
      accs'.length = accs.length ∧
      ∀ (i : Nat) (h1 : i < stats.length) (h2 : i < accs.length),
        accs'[i]? = stepSlot q v stats[i] accs[i]
  | [], [], accs', _, h => by
    simp [slotwise] at h; subst h; simp
  | [], _ :: _, _, hl, _ => by simp at hl
  | _ :: _, [], _, hl, _ => by simp at hl
  | e :: es, a :: as, accs', hl, h => by
    simp only [slotwise] at h
    cases hs : stepSlot q v e a with
    | none => simp [hs] at h
    | some a' =>
      simp only [hs] at h
      cases hr : slotwise q v es as with
      | none => simp [hr] at h
      | some r =>
        simp only [hr, Option.map_some, Option.some.injEq] at h
        subst h
        have ih := slotwise_spec q v es as r (by simpa using hl) hr
        refine ⟨by simp [ih.1], ?_⟩
        intro i h1 h2
        cases i with
        | zero => simp [hs]
        | succ j =>
          simp only [List.getElem?_cons_succ, List.getElem_cons_succ]
          exact ih.2 j (by simpa using h1) (by simpa using h2)

theorem slotwise_none_iff (q : Quirks) (v : View) :
    ∀ (stats : List StatsEntry) (accs : Accs), accs.length = stats.length →
      (slotwise q v stats accs = none ↔
        ∃ k col n, StatsEntry.agg k col n ∈ stats ∧ getFloat v col = none)
  | [], [], _ => by simp [slotwise]
  | [], _ :: _, hl => by simp at hl
  | _ :: _, [], hl => by simp at hl
  | e :: es, a :: as, hl => by
    have ih := slotwise_none_iff q v es as (by simpa using hl)
    cases e with
    | counter f =>
      simp only [slotwise, stepSlot, Option.map_eq_none_iff, ih, List.mem_cons, reduceCtorEq, false_or]
    | agg k col n =>
      simp only [slotwise, stepSlot]
      cases hg : getFloat v col with
      | none =>
        simp only [Option.map_none, true_iff]
        exact ⟨k, col, n, by simp, hg⟩
      | some m =>
        simp only [Option.map_some, Option.map_eq_none_iff, ih, List.mem_cons]
        constructor
        · rintro ⟨k', c', n', hm, hn⟩; exact ⟨k', c', n', Or.inr hm, hn⟩
        · rintro ⟨k', c', n', hm | hm, hn⟩
          · cases hm; simp [hg] at hn
          · exact ⟨k', c', n', hm, hn⟩

/-- the slot of a counter that has been hit `n` times -/
def counterSlot (n : Nat) : Acc := { kind := .counter, stats := n, count := n }

theorem slotwise_counters (q : Quirks) (v : View) (c : Filter → Nat) :
    ∀ fs : List Filter,
      slotwise q v (fs.map StatsEntry.counter) (fs.map fun f => counterSlot (c f)) =
        some (fs.map fun f => counterSlot (c f + if sem q v f then 1 else 0))
  | [] => by simp [slotwise]
  | f :: fs => by
    simp only [List.map_cons, slotwise, stepSlot, slotwise_counters q v c fs, Option.map_some,
      Option.some.injEq, List.cons.injEq, and_true]
    by_cases h : sem q v f = true
    · simp [h, incr, counterSlot]
    · simp [h]

theorem counters_fold (q : Quirks) (fs : List Filter) :
    ∀ (views : List View) (c : Filter → Nat),
      views.foldlM (fun accs v => countFlat q false v (fs.map StatsEntry.counter) 0 accs)
          (fs.map fun f => counterSlot (c f)) =
        some (fs.map fun f => counterSlot (c f + (views.filter (fun v => sem q v f)).length))
  | [], c => by simp
  | v :: vs, c => by
    rw [List.foldlM_cons, countFlat_slotwise _ _ _ _ (by simp), slotwise_counters]
    simp only [Option.bind_eq_bind, Option.bind_some]
    rw [counters_fold q fs vs (fun f => c f + if sem q v f then 1 else 0)]
    congr 1
    apply List.map_congr_left
    intro f _
    by_cases h : sem q v f = true
    · simp [h, counterSlot]; omega
    · simp [h]

/-! ## 4. bump lists: what one row does to the slots -/

/-- the kind of update a stats node performs on its slot -/
inductive BK
  | incr              -- a counter that matched
  | app (m : Int)     -- an aggregate applying the row's value
  | crash             -- an aggregate whose getter panics
  deriving DecidableEq, Repr

abbrev Bump := Nat × BK

mutual
  /-- the slot updates a grouped stats node performs on one row, in evaluation order -/
  def nodeBumps (q : Quirks) (v : View) : SNode → List Bump
    | .counter pos f => if matchF q v false f then [(pos, .incr)] else []
    | .agg pos _ col =>
      match getFloat v col with
      | some m => [(pos, .app m)]
      | none => [(pos, .crash)]
    | .sgroup c n subs => if matchF q v false (.leaf c n) then nodesBumps q v subs else []
    | .sgroupG a n subs =>
      if matchF q v false (.grp a (SNode.asFilters subs) n) then nodesBumps q v subs else []
  def nodesBumps (q : Quirks) (v : View) : List SNode → List Bump
    | [] => []
    | n :: ns => nodeBumps q v n ++ nodesBumps q v ns
end

/-- perform a list of slot updates -/
def applyBumps : List Bump → Accs → Option Accs
  | [], accs => some accs
  | (p, .incr) :: bs, accs => applyBumps bs (accs.bump p incr)
  | (p, .app m) :: bs, accs => applyBumps bs (accs.bump p (fun a => a.apply m 1))
  | (_, .crash) :: _, _ => none

theorem applyBumps_append (a b : List Bump) (accs : Accs) :
    applyBumps (a ++ b) accs = (applyBumps a accs).bind (applyBumps b) := by
  induction a generalizing accs with
  | nil => simp [applyBumps]
  | cons x xs ih =>
    obtain ⟨p, k⟩ := x
    cases k <;> simp [applyBumps, ih]

theorem nodesBumps_append (q : Quirks) (v : View) (a b : List SNode) :
    nodesBumps q v (a ++ b) = nodesBumps q v a ++ nodesBumps q v b := by
  induction a with
  | nil => simp [nodesBumps]
  | cons x xs ih => simp [nodesBumps, ih]

theorem nodesBumps_singleton (q : Quirks) (v : View) (n : SNode) :
    nodesBumps q v [n] = nodeBumps q v n := by
  simp [nodesBumps]

mutual
  theorem countNode_eq (q : Quirks) (v : View) :
      ∀ (n : SNode) (accs : Accs), countNode q v n accs = applyBumps (nodeBumps q v n) accs
    | .counter pos f, accs => by
      simp only [countNode, nodeBumps]
      split <;> rfl
    | .agg pos k col, accs => by
      simp only [countNode, nodeBumps]
      cases getFloat v col <;> rfl
    | .sgroup c n subs, accs => by
      simp only [countNode, nodeBumps]
      split
      · exact countNodes_eq q v subs accs
      · rfl
    | .sgroupG a n subs, accs => by
      simp only [countNode, nodeBumps]
      split
      · exact countNodes_eq q v subs accs
      · rfl
  theorem countNodes_eq (q : Quirks) (v : View) :
      ∀ (ns : List SNode) (accs : Accs), countNodes q v ns accs = applyBumps (nodesBumps q v ns) accs
    | [], accs => by simp [countNodes, nodesBumps, applyBumps]
    | n :: ns, accs => by
      simp only [countNodes, nodesBumps, applyBumps_append, countNode_eq q v n accs]
      cases h : applyBumps (nodeBumps q v n) accs with
      | none => simp
      | some a => simp [countNodes_eq q v ns a]
end

theorem countFlat_eq_bumps (q : Quirks) (v : View) :
    ∀ (stats : List StatsEntry) (pos : Nat) (accs : Accs),
      countFlat q true v stats pos accs = applyBumps (nodesBumps q v (numberStats pos stats)) accs
  | [], pos, accs => by simp [countFlat, numberStats, nodesBumps, applyBumps]
  | .counter f :: rest, pos, accs => by
    simp only [countFlat, numberStats, nodesBumps, nodeBumps, if_true, applyBumps_append,
      countFlat_eq_bumps q v rest]
    by_cases h : matchF q v false f = true
    · simp only [h, if_true, applyBumps, Option.bind_some]; rfl
    · simp only [h]; rfl
  | .agg k col n :: rest, pos, accs => by
    simp only [countFlat, numberStats, nodesBumps, nodeBumps, applyBumps_append]
    cases getFloat v col with
    | none => simp [applyBumps]
    | some m => simp [applyBumps, countFlat_eq_bumps q v rest]

/-! ### updates of different slots commute -/

theorem bump_getElem? (accs : Accs) (p : Nat) (f : Acc → Acc) (i : Nat) :
    (Accs.bump accs p f)[i]? = if i = p then accs[i]?.map f else accs[i]? := by
  unfold Accs.bump
  cases h : accs[p]? with
  | none =>
    by_cases hi : i = p
    · subst hi; simp [h]
    · simp [hi]
  | some a =>
    obtain ⟨hlt, rfl⟩ := List.getElem?_eq_some_iff.mp h
    simp only [List.getElem?_set]
    by_cases hi : i = p
    · subst hi; simp [hlt]
    · have : ¬ p = i := fun e => hi e.symm
      simp [hi, this]

theorem bump_comm (accs : Accs) (p p' : Nat) (f g : Acc → Acc) (h : p ≠ p') :
    (Accs.bump (Accs.bump accs p f) p' g) = (Accs.bump (Accs.bump accs p' g) p f) := by
  apply List.ext_getElem?
  intro i
  simp only [bump_getElem?]
  have h' : ¬ p' = p := fun e => h e.symm
  by_cases h1 : i = p
  · subst h1; simp [h]
  · by_cases h2 : i = p'
    · subst h2; simp [h1]
    · simp [h1, h2]

def BK.fn : BK → Acc → Acc
  | .incr => Lmd.C05.incr
  | .app m => fun a => a.apply m 1
  | .crash => id

theorem applyBumps_cons (p : Nat) (k : BK) (bs : List Bump) (accs : Accs) :
    applyBumps ((p, k) :: bs) accs = if k = .crash then none else applyBumps bs (accs.bump p k.fn) := by
  cases k <;> simp [applyBumps, BK.fn]

theorem applyBumps_swap (x y : Bump) (l : List Bump) (accs : Accs) (h : x.1 ≠ y.1) :
    applyBumps (y :: x :: l) accs = applyBumps (x :: y :: l) accs := by
  obtain ⟨p, k⟩ := x
  obtain ⟨p', k'⟩ := y
  simp only [applyBumps_cons]
  by_cases h1 : k = .crash <;> by_cases h2 : k' = .crash <;> simp [h1, h2]
  rw [bump_comm _ _ _ _ _ (fun e => h e.symm)]

/-- slot updates at pairwise different positions may be performed in any order -/
theorem applyBumps_perm {bs bs' : List Bump} (h : bs.Perm bs') :
    (bs.map (·.1)).Nodup → ∀ accs, applyBumps bs accs = applyBumps bs' accs := by
  induction h with
  | nil => intros; rfl
  | cons x _ ih =>
    intro hn accs
    obtain ⟨p, k⟩ := x
    simp only [List.map_cons, List.nodup_cons] at hn
    simp only [applyBumps_cons]
    split
    · rfl
    · exact ih hn.2 _
  | swap x y l =>
    intro hn accs
    simp only [List.map_cons, List.nodup_cons, List.mem_cons, not_or] at hn
    exact applyBumps_swap x y l accs (fun e => hn.1.1 e.symm)
  | trans h1 _ ih1 ih2 =>
    intro hn accs
    rw [ih1 hn accs]
    exact ih2 (((h1.map (·.1)).nodup_iff).mp hn) accs

/-- the positions touched by the flat list are `pos, pos+1, …`: pairwise different -/
theorem numberStats_bumps_pos (q : Quirks) (v : View) :
    ∀ (stats : List StatsEntry) (pos : Nat),
      ((nodesBumps q v (numberStats pos stats)).map (·.1)).Nodup ∧
      ∀ b ∈ nodesBumps q v (numberStats pos stats), pos ≤ b.1
  | [], pos => by simp [numberStats, nodesBumps]
  | e :: rest, pos => by
    have ih := numberStats_bumps_pos q v rest (pos + 1)
    cases e with
    | counter f =>
      have hh : ∀ b ∈ nodeBumps q v (.counter pos f), b.1 = pos := by
        intro b hb
        simp only [nodeBumps] at hb
        split at hb <;> simp_all
      simp only [numberStats, nodesBumps, List.map_append, List.nodup_append, List.mem_append, List.mem_map]
      refine ⟨⟨?_, ih.1, ?_⟩, ?_⟩
      · simp only [nodeBumps]; split <;> simp
      · rintro a ⟨b, hb, rfl⟩ c ⟨b', hb', rfl⟩
        have := hh b hb
        have := ih.2 b' hb'
        omega
      · rintro b (hb | hb)
        · have := hh b hb; omega
        · have := ih.2 b hb; omega
    | agg k c ng =>
      have hh : ∀ b ∈ nodeBumps q v (.agg pos k c), b.1 = pos := by
        intro b hb
        simp only [nodeBumps] at hb
        cases hg : getFloat v c <;> simp_all
      simp only [numberStats, nodesBumps, List.map_append, List.nodup_append, List.mem_append, List.mem_map]
      refine ⟨⟨?_, ih.1, ?_⟩, ?_⟩
      · simp only [nodeBumps]; cases getFloat v c <;> simp
      · rintro a ⟨b, hb, rfl⟩ c ⟨b', hb', rfl⟩
        have := hh b hb
        have := ih.2 b' hb'
        omega
      · rintro b (hb | hb)
        · have := hh b hb; omega
        · have := ih.2 b hb; omega

/-! ## 5. the grouping optimiser -/

/-- the comparison `optimizeStatsGroups` uses when it appends a counter to the previous group
    (column name, operator, string value, custom tag, empty flag); `Filter.Equals` implies it -/
def sameKey (a b : Leaf) : Bool :=
  a.col.name == b.col.name && a.col.name != "empty" && a.op == b.op && a.sval == b.sval &&
  a.tag == b.tag && a.isEmpty == b.isEmpty

mutual
  /-- every leaf of a filter tree satisfies `P` -/
  def FilterOK (P : Leaf → Prop) : Filter → Prop
    | .leaf l _ => P l
    | .grp _ fs _ => FiltersOK P fs
  def FiltersOK (P : Leaf → Prop) : List Filter → Prop
    | [] => True
    | f :: fs => FilterOK P f ∧ FiltersOK P fs
end

mutual
  /-- every leaf of a grouped stats node (group conditions included) satisfies `P` -/
  def NodeOK (P : Leaf → Prop) : SNode → Prop
    | .counter _ f => FilterOK P f
    | .agg .. => True
    | .sgroup c _ subs => P c ∧ NodesOK P subs
    | .sgroupG _ _ subs => NodesOK P subs
  def NodesOK (P : Leaf → Prop) : List SNode → Prop
    | [] => True
    | n :: ns => NodeOK P n ∧ NodesOK P ns
end

/-- every leaf of every counter of a flat stats list satisfies `P` -/
def StatsOK (P : Leaf → Prop) : List StatsEntry → Prop
  | [] => True
  | .counter f :: rest => FilterOK P f ∧ StatsOK P rest
  | .agg .. :: rest => StatsOK P rest

theorem numberStats_ok (P : Leaf → Prop) :
    ∀ (stats : List StatsEntry) (i : Nat), StatsOK P stats → NodesOK P (numberStats i stats)
  | [], _, _ => by simp [numberStats, NodesOK]
  | .counter f :: rest, i, h => by
    simp only [StatsOK] at h
    simp only [numberStats, NodesOK, NodeOK]
    exact ⟨h.1, numberStats_ok P rest (i + 1) h.2⟩
  | .agg k c n :: rest, i, h => by
    simp only [StatsOK] at h
    simp only [numberStats, NodesOK, NodeOK, true_and]
    exact numberStats_ok P rest (i + 1) h

theorem nodesOK_append (P : Leaf → Prop) (a b : List SNode) :
    NodesOK P (a ++ b) ↔ NodesOK P a ∧ NodesOK P b := by
  induction a with
  | nil => simp [NodesOK]
  | cons x xs ih => simp [NodesOK, ih, and_assoc]

theorem nodesOK_get (P : Leaf → Prop) :
    ∀ (l : List SNode) (gi : Nat) (n : SNode), l[gi]? = some n → NodesOK P l → NodeOK P n
  | [], _, _, h, _ => by simp at h
  | x :: xs, 0, n, h, hok => by
    simp at h; subst h; exact hok.1
  | x :: xs, gi + 1, n, h, hok => by
    simp only [List.getElem?_cons_succ] at h
    exact nodesOK_get P xs gi n h hok.2

theorem nodesOK_set (P : Leaf → Prop) :
    ∀ (l : List SNode) (gi : Nat) (n' : SNode), NodesOK P l → NodeOK P n' → NodesOK P (l.set gi n')
  | [], _, _, _, _ => by simp [NodesOK]
  | x :: xs, 0, n', hok, hn => by
    simp only [List.set_cons_zero, NodesOK]; exact ⟨hn, hok.2⟩
  | x :: xs, gi + 1, n', hok, hn => by
    simp only [List.set_cons_succ, NodesOK]
    exact ⟨hok.1, nodesOK_set P xs gi n' hok.2 hn⟩

theorem nodesBumps_set (q : Quirks) (v : View) (extra : List Bump) :
    ∀ (l : List SNode) (gi : Nat) (n n' : SNode), l[gi]? = some n →
      (nodeBumps q v n').Perm (nodeBumps q v n ++ extra) →
      (nodesBumps q v (l.set gi n')).Perm (nodesBumps q v l ++ extra)
  | [], _, _, _, h, _ => by simp at h
  | x :: xs, 0, n, n', h, hp => by
    simp at h; subst h
    simp only [List.set_cons_zero, nodesBumps]
    refine (hp.append_right _).trans ?_
    rw [List.append_assoc, List.append_assoc]
    exact List.Perm.append_left _ List.perm_append_comm
  | x :: xs, gi + 1, n, n', h, hp => by
    simp only [List.getElem?_cons_succ] at h
    simp only [List.set_cons_succ, nodesBumps, List.append_assoc]
    exact List.Perm.append_left _ (nodesBumps_set q v extra xs gi n n' h hp)

theorem combineNeg_ff (q : Quirks) : combineNeg q false false = false := by
  unfold combineNeg; cases q.negOr <;> rfl

/-- a `StatsAnd` counter matches iff its first term matches and the counter without its first term matches -/
theorem nodeBumps_removeFirst (q : Quirks) (v : View) (pos : Nat) (first g : Filter) (rest : List Filter) :
    nodeBumps q v (.counter pos (.grp true (first :: g :: rest) false)) =
      if matchF q v false first then nodeBumps q v (removeFirst pos true (g :: rest) false) else [] := by
  cases rest with
  | nil =>
    simp only [removeFirst, nodeBumps, matchF, combineNeg_ff, Bool.false_eq_true, if_false, if_true, allF,
      Bool.and_true]
    cases matchF q v false first <;> simp
  | cons r rs =>
    simp only [removeFirst, nodeBumps, matchF, combineNeg_ff, Bool.false_eq_true, if_false, if_true, allF]
    cases matchF q v false first <;> simp

theorem groupable_some {stat : SNode} {r : Nat × Bool × Filter × List Filter × Bool}
    (h : groupable stat = some r) :
    ∃ pos l n g rest, stat = .counter pos (.grp true (.leaf l n :: g :: rest) false) ∧
      r = (pos, true, .leaf l n, g :: rest, false) := by
  unfold groupable at h
  split at h
  · simp only [Option.some.injEq] at h
    exact ⟨_, _, _, _, _, rfl, h.symm⟩
  · simp at h

theorem removeFirst_ok (P : Leaf → Prop) (pos : Nat) (first g : Filter) (rest : List Filter)
    (h : NodeOK P (.counter pos (.grp true (first :: g :: rest) false))) :
    FilterOK P first ∧ NodeOK P (removeFirst pos true (g :: rest) false) := by
  simp only [NodeOK, FilterOK, FiltersOK] at h
  cases rest with
  | nil => simp only [removeFirst, NodeOK]; exact ⟨h.1, h.2.1⟩
  | cons r rs =>
    simp only [removeFirst, NodeOK, FilterOK, FiltersOK]
    simp only [FiltersOK] at h
    exact ⟨h.1, h.2⟩

section Opt
variable (P : Leaf → Prop) (q : Quirks) (v : View)

/-- leaves that the optimiser may identify evaluate alike on the row at hand -/
def KeyCongr : Prop :=
  ∀ a b : Leaf, P a → P b → sameKey a b = true → matchLeaf q v a = matchLeaf q v b

/-- what the proof needs from the recursive optimiser call -/
def RecSpec (rec : List SNode → Option (List SNode)) : Prop :=
  ∀ l l', NodesOK P l → rec l = some l' →
    NodesOK P l' ∧ (nodesBumps q v l').Perm (nodesBumps q v l)

/-- loop invariant of `optimizeStatsGroups` -/
structure Inv (st : OptState) : Prop where
  ok : NodesOK P st.grouped
  last : ∀ gi, st.last = some gi → ∃ c n subs, st.grouped[gi]? = some (.sgroup c n subs)

theorem recurseLast_spec (rec : List SNode → Option (List SNode)) (hrec : RecSpec P q v rec)
    (st : OptState) (hinv : Inv P st) :
    Inv P (recurseLast rec st) ∧
      (nodesBumps q v (recurseLast rec st).grouped).Perm (nodesBumps q v st.grouped) := by
  unfold recurseLast
  cases hl : st.last with
  | none => exact ⟨hinv, List.Perm.refl _⟩
  | some gi =>
    obtain ⟨c, n, subs, hg⟩ := hinv.last gi hl
    simp only [hg]
    cases hr : rec subs with
    | none => exact ⟨hinv, List.Perm.refl _⟩
    | some subs' =>
      have hnode := nodesOK_get P _ _ _ hg hinv.ok
      simp only [NodeOK] at hnode
      obtain ⟨hok', hperm⟩ := hrec subs subs' hnode.2 hr
      have hlt : gi < st.grouped.length := by
        rcases Nat.lt_or_ge gi st.grouped.length with h | h
        · exact h
        · simp [List.getElem?_eq_none h] at hg
      refine ⟨⟨?_, ?_⟩, ?_⟩
      · exact nodesOK_set P _ _ _ hinv.ok (by simp only [NodeOK]; exact ⟨hnode.1, hok'⟩)
      · intro gi' hgi'
        simp only [Option.some.injEq] at hgi'
        subst hgi'
        exact ⟨c, n, subs', by simp [setAt, hlt]⟩
      · have := nodesBumps_set q v [] st.grouped gi _ (.sgroup c n subs') hg (by
          simp only [nodeBumps, List.append_nil]
          split
          · exact hperm
          · exact List.Perm.refl _)
        simpa [setAt] using this


theorem step_plain (st : OptState) (hinv : Inv P st) (stat : SNode) (hs : NodeOK P stat) :
    Inv P { st with grouped := st.grouped ++ [stat] } ∧
      (nodesBumps q v (st.grouped ++ [stat])).Perm (nodesBumps q v st.grouped ++ nodeBumps q v stat) := by
  refine ⟨⟨?_, ?_⟩, ?_⟩
  · exact (nodesOK_append P _ _).mpr ⟨hinv.ok, by simp only [NodesOK]; exact ⟨hs, trivial⟩⟩
  · intro gi hgi
    obtain ⟨c, n, subs, hg⟩ := hinv.last gi hgi
    refine ⟨c, n, subs, ?_⟩
    have hlt : gi < st.grouped.length := by
      rcases Nat.lt_or_ge gi st.grouped.length with h | h
      · exact h
      · simp [List.getElem?_eq_none h] at hg
    simp only [List.getElem?_append_left hlt, hg]
  · rw [nodesBumps_append, nodesBumps_singleton]

theorem step_group (st : OptState) (hinv : Inv P st) (l : Leaf) (n : Bool) (sub : SNode)
    (hl : P l) (hs : NodeOK P sub) :
    Inv P { grouped := st.grouped ++ [SNode.sgroup l n [sub]], last := some st.grouped.length } := by
  refine ⟨?_, ?_⟩
  · refine (nodesOK_append P _ _).mpr ⟨hinv.ok, ?_⟩
    simp only [NodesOK, NodeOK]
    exact ⟨⟨hl, hs, trivial⟩, trivial⟩
  · intro gi hgi
    simp only [Option.some.injEq] at hgi
    subst hgi
    exact ⟨l, n, [sub], by simp⟩

theorem optLoop_step (hk : KeyCongr P q v) (rec : List SNode → Option (List SNode))
    (hrec : RecSpec P q v rec) (stat : SNode) (rest : List SNode) (st : OptState)
    (hinv : Inv P st) (hs : NodeOK P stat) :
    ∃ st1, optLoop rec (stat :: rest) st = optLoop rec rest st1 ∧ Inv P st1 ∧
      (nodesBumps q v st1.grouped).Perm (nodesBumps q v st.grouped ++ nodeBumps q v stat) := by
  rw [optLoop]
  cases hg : groupable stat with
  | none =>
    exact ⟨_, rfl, step_plain P q v st hinv stat hs⟩
  | some r =>
    obtain ⟨pos, l, n, g, others, rfl, rfl⟩ := groupable_some hg
    simp only []
    have hparts := removeFirst_ok P pos (.leaf l n) g others hs
    have hPl : P l := by simpa [FilterOK] using hparts.1
    split
    · rename_i st' happ
      refine ⟨st', rfl, ?_⟩
      cases hl : st.last with
      | none => simp [hl] at happ
      | some gi =>
        obtain ⟨c, n', subs, hgi⟩ := hinv.last gi hl
        simp only [hl, hgi] at happ
        split at happ
        · rename_i hcond
          simp only [Option.some.injEq] at happ
          subst happ
          simp only [Bool.and_eq_true, beq_iff_eq, bne_iff_ne, ne_eq] at hcond
          obtain ⟨⟨⟨⟨⟨⟨h1, h2⟩, h3⟩, h4⟩, h5⟩, h6⟩, h7⟩ := hcond
          have hnode := nodesOK_get P _ _ _ hgi hinv.ok
          simp only [NodeOK] at hnode
          have hlt : gi < st.grouped.length := by
            rcases Nat.lt_or_ge gi st.grouped.length with h | h
            · exact h
            · simp [List.getElem?_eq_none h] at hgi
          have hml : matchLeaf q v c = matchLeaf q v l :=
            hk c l hnode.1 hPl (by
              have h2' : ¬ l.col.name = "empty" := h1 ▸ h2
              simp [sameKey, h1, h2', h3, h4, h6, h7])
          have hmf : matchF q v false (.leaf c n') = matchF q v false (.leaf l n) := by
            simp only [matchF, hml, h5]
          refine ⟨⟨?_, ?_⟩, ?_⟩
          · refine nodesOK_set P _ _ _ hinv.ok ?_
            simp only [NodeOK]
            exact ⟨hnode.1, (nodesOK_append P _ _).mpr ⟨hnode.2, by simp only [NodesOK]; exact ⟨hparts.2, trivial⟩⟩⟩
          · intro gi' hgi'
            simp only [Option.some.injEq] at hgi'
            subst hgi'
            exact ⟨c, n', subs ++ [removeFirst pos true (g :: others) false], by simp [setAt, hlt]⟩
          · refine nodesBumps_set q v _ st.grouped gi _ _ hgi ?_
            rw [nodeBumps_removeFirst]
            simp only [nodeBumps, hmf, nodesBumps_append, nodesBumps_singleton]
            by_cases hm : matchF q v false (.leaf l n) = true
            · simp only [hm, if_true]; exact List.Perm.refl _
            · simp only [hm]; exact List.Perm.refl _
        · simp at happ
    · obtain ⟨hinv2, hperm2⟩ := recurseLast_spec P q v rec hrec st hinv
      have hA : Inv P { (recurseLast rec st) with grouped := (recurseLast rec st).grouped ++
            [SNode.counter pos (Filter.grp true (Filter.leaf l n :: g :: others) false)] } ∧
          (nodesBumps q v ((recurseLast rec st).grouped ++
            [SNode.counter pos (Filter.grp true (Filter.leaf l n :: g :: others) false)])).Perm
          (nodesBumps q v st.grouped ++
            nodeBumps q v (SNode.counter pos (Filter.grp true (Filter.leaf l n :: g :: others) false))) := by
        obtain ⟨i, p⟩ := step_plain P q v _ hinv2 _ hs
        exact ⟨i, p.trans (hperm2.append_right _)⟩
      have hB : Inv P (OptState.mk ((recurseLast rec st).grouped ++
            [SNode.sgroup l n [removeFirst pos true (g :: others) false]])
            (some (recurseLast rec st).grouped.length)) ∧
          (nodesBumps q v ((recurseLast rec st).grouped ++
            [SNode.sgroup l n [removeFirst pos true (g :: others) false]])).Perm
          (nodesBumps q v st.grouped ++
            nodeBumps q v (SNode.counter pos (Filter.grp true (Filter.leaf l n :: g :: others) false))) := by
        refine ⟨step_group P _ hinv2 l n _ hPl hparts.2, ?_⟩
        rw [nodesBumps_append, nodesBumps_singleton, nodeBumps_removeFirst]
        simp only [nodeBumps, nodesBumps_singleton]
        exact hperm2.append_right _
      split
      · exact ⟨_, rfl, hA⟩
      · split
        · exact ⟨_, rfl, hA⟩
        · split
          · exact ⟨_, rfl, hA⟩
          · exact ⟨_, rfl, hB⟩


theorem optLoop_spec (hk : KeyCongr P q v) (rec : List SNode → Option (List SNode))
    (hrec : RecSpec P q v rec) :
    ∀ (stats : List SNode) (st : OptState), NodesOK P stats → Inv P st →
      Inv P (optLoop rec stats st) ∧
        (nodesBumps q v (optLoop rec stats st).grouped).Perm
          (nodesBumps q v st.grouped ++ nodesBumps q v stats)
  | [], st, _, hinv => by
    simp only [optLoop, nodesBumps, List.append_nil]
    exact ⟨hinv, List.Perm.refl _⟩
  | stat :: rest, st, hok, hinv => by
    obtain ⟨st1, e, i1, p1⟩ := optLoop_step P q v hk rec hrec stat rest st hinv hok.1
    rw [e]
    obtain ⟨i2, p2⟩ := optLoop_spec hk rec hrec rest st1 hok.2 i1
    refine ⟨i2, p2.trans ?_⟩
    simp only [nodesBumps, ← List.append_assoc]
    exact p1.append_right _

theorem optimizeNodes_spec (hk : KeyCongr P q v) :
    ∀ fuel : Nat, RecSpec P q v (optimizeNodes fuel)
  | 0 => by
    intro l l' _ h
    simp [optimizeNodes] at h
  | fuel + 1 => by
    intro l l' hok h
    have hrec := optimizeNodes_spec hk fuel
    simp only [optimizeNodes] at h
    split at h
    · simp at h
    · simp only [Option.some.injEq] at h
      subst h
      have hinv0 : Inv P ({} : OptState) := ⟨by simp [NodesOK], by intro gi h; simp at h⟩
      obtain ⟨i1, p1⟩ := optLoop_spec P q v hk _ hrec l {} hok hinv0
      obtain ⟨i2, p2⟩ := recurseLast_spec P q v _ hrec _ i1
      refine ⟨i2.ok, p2.trans (p1.trans ?_)⟩
      simp [nodesBumps]

end Opt

/-- the grouped form and the flat list perform the same slot updates on every row -/
theorem grouping_bumps (P : Leaf → Prop) (q : Quirks) (v : View) (hk : KeyCongr P q v)
    (stats : List StatsEntry) (hs : StatsOK P stats) (nodes : List SNode)
    (h : optimizeStats stats = some nodes) (accs : Accs) :
    countNodes q v nodes accs = countFlat q true v stats 0 accs := by
  rw [countNodes_eq, countFlat_eq_bumps]
  obtain ⟨_, hp⟩ := optimizeNodes_spec P q v hk _ _ _ (numberStats_ok P stats 0 hs) h
  have hnd := (numberStats_bumps_pos q v stats 0).1
  exact (applyBumps_perm hp.symm hnd accs).symm

/-! ## 6. the group-by map -/

/-- the slot list stored under a key -/
def lookup (m : StatsMap) (key : String) : Option Accs := (m.find? (·.1 == key)).map (·.2)

/-- the keys of a stats map in first-seen order -/
def keys (m : StatsMap) : List String := m.map (·.1)

theorem lookup_nil (key : String) : lookup [] key = none := rfl

theorem lookup_cons (k : String) (a : Accs) (m : StatsMap) (key : String) :
    lookup ((k, a) :: m) key = if k = key then some a else lookup m key := by
  unfold lookup
  simp only [List.find?_cons]
  by_cases h : k = key
  · simp [h]
  · have hb : (k == key) = false := by simp [h]
    simp [h, hb]

theorem lookup_none_iff (m : StatsMap) (key : String) : lookup m key = none ↔ key ∉ keys m := by
  induction m with
  | nil => simp [lookup, keys]
  | cons x xs ih =>
    obtain ⟨k, a⟩ := x
    rw [lookup_cons]
    by_cases h : k = key
    · simp [h, keys]
    · have h' : ¬ key = k := fun e => h e.symm
      simp only [h, if_false, ih, keys, List.map_cons, List.mem_cons, h', false_or]

theorem lookup_append_new (m : StatsMap) (key : String) (a : Accs) (k : String) :
    lookup (m ++ [(key, a)]) k = match lookup m k with
      | some c => some c
      | none => if key = k then some a else none := by
  induction m with
  | nil => simp [lookup_cons, lookup_nil]
  | cons x xs ih =>
    obtain ⟨k0, a0⟩ := x
    simp only [List.cons_append, lookup_cons]
    by_cases h : k0 = k
    · simp [h]
    · simp [h, ih]

theorem lookup_replace (m : StatsMap) (key : String) (a' : Accs) (k : String) :
    lookup (m.map (fun (p : String × Accs) => if p.1 == key then (p.1, a') else (p.1, p.2))) k =
      if k = key then (lookup m k).map (fun _ => a') else lookup m k := by
  induction m with
  | nil => simp [lookup_nil]
  | cons x xs ih =>
    obtain ⟨k0, a0⟩ := x
    simp only [List.map_cons]
    by_cases h0 : k0 = key
    · subst h0
      simp only [beq_self_eq_true, if_true, lookup_cons, ih]
      by_cases h : k0 = k
      · subst h; simp
      · have h' : ¬ k = k0 := fun e => h e.symm
        simp [h, h']
    · have hb : (k0 == key) = false := by simp [h0]
      simp only [hb, Bool.false_eq_true, if_false, lookup_cons, ih]
      by_cases h : k0 = k
      · subst h; simp [h0]
      · simp [h]

theorem keys_replace (m : StatsMap) (key : String) (a' : Accs) :
    keys (m.map (fun (p : String × Accs) => if p.1 == key then (p.1, a') else (p.1, p.2))) = keys m := by
  unfold keys
  rw [List.map_map]
  apply List.map_congr_left
  intro p _
  simp only [Function.comp]
  split <;> rfl

/-- `upsert` touches exactly the slot list of its key and keeps the keys distinct -/
theorem upsert_spec (m m' : StatsMap) (key : String) (init : Accs) (f : Accs → Option Accs)
    (h : m.upsert key init f = some m') :
    ∃ x, f ((lookup m key).getD init) = some x ∧ lookup m' key = some x ∧
      (∀ k, k ≠ key → lookup m' k = lookup m k) ∧
      ((keys m).Nodup → (keys m').Nodup) := by
  unfold StatsMap.upsert at h
  cases hf : m.find? (·.1 == key) with
  | some p =>
    obtain ⟨k0, accs⟩ := p
    have hl : lookup m key = some accs := by simp [lookup, hf]
    simp only [hf] at h
    cases hx : f accs with
    | none => simp [hx] at h
    | some x =>
      simp only [hx, Option.map_some, Option.some.injEq] at h
      subst h
      refine ⟨x, by simp [hl, hx], ?_, ?_, ?_⟩
      · rw [lookup_replace]; simp [hl]
      · intro k hk; rw [lookup_replace]; simp [hk]
      · rw [keys_replace]; exact id
  | none =>
    have hl : lookup m key = none := by simp [lookup, hf]
    simp only [hf] at h
    cases hx : f init with
    | none => simp [hx] at h
    | some x =>
      simp only [hx, Option.map_some, Option.some.injEq] at h
      subst h
      refine ⟨x, by simp [hl, hx], ?_, ?_, ?_⟩
      · rw [lookup_append_new]; simp [hl]
      · intro k hk
        rw [lookup_append_new]
        have : ¬ key = k := fun e => hk e.symm
        cases lookup m k <;> simp [this]
      · intro hn
        have hnot := (lookup_none_iff m key).mp hl
        simp only [keys, List.map_append, List.map_cons, List.map_nil] at hnot ⊢
        rw [List.nodup_append]
        refine ⟨hn, by simp, ?_⟩
        intro a ha b hb
        simp only [List.mem_singleton] at hb
        subst hb
        intro e; subst e; exact hnot ha

section GroupBy
variable (ok : Row → Bool) (keyOf : Row → String) (cnt : Row → Accs → Option Accs) (init : Accs)

/-- one row of `gatherStatsResult`: skip it, or count it into the slots of its key -/
def kstep (m : StatsMap) (r : Row) : Option StatsMap :=
  if !ok r then some m else m.upsert (keyOf r) init (cnt r)

/-- the rows that contribute to a key -/
def rowsOf (rows : List Row) (key : String) : List Row :=
  rows.filter (fun r => ok r && keyOf r == key)

theorem foldRows_spec :
    ∀ (rows : List Row) (m m' : StatsMap), foldRows (kstep ok keyOf cnt init) rows m = some m' →
      ((keys m).Nodup → (keys m').Nodup) ∧
      ∀ key,
        if (lookup m key).isSome || !(rowsOf ok keyOf rows key).isEmpty then
          ∃ c', lookup m' key = some c' ∧
            (rowsOf ok keyOf rows key).foldlM (fun a r => cnt r a) ((lookup m key).getD init) = some c'
        else lookup m' key = none
  | [], m, m', h => by
    simp only [foldRows, Option.some.injEq] at h
    subst h
    refine ⟨id, ?_⟩
    intro key
    cases hl : lookup m key <;> simp [rowsOf]
  | r :: rest, m, m', h => by
    simp only [foldRows] at h
    cases hs : kstep ok keyOf cnt init m r with
    | none => simp [hs] at h
    | some m1 =>
      simp only [hs] at h
      obtain ⟨ihn, ih⟩ := foldRows_spec rest m1 m' h
      unfold kstep at hs
      by_cases hok : ok r = true
      · simp only [hok, Bool.not_true, Bool.false_eq_true, if_false] at hs
        obtain ⟨x, hx, hlx, hoth, hnd⟩ := upsert_spec m m1 (keyOf r) init (cnt r) hs
        refine ⟨fun hn => ihn (hnd hn), ?_⟩
        intro key
        by_cases hk : keyOf r = key
        · subst hk
          have hr : rowsOf ok keyOf (r :: rest) (keyOf r) = r :: rowsOf ok keyOf rest (keyOf r) := by
            simp [rowsOf, hok]
          have := ih (keyOf r)
          simp only [hlx, Option.isSome_some, Bool.true_or, if_true, Option.getD_some] at this
          obtain ⟨c', h1, h2⟩ := this
          simp only [hr, List.isEmpty_cons, Bool.not_false, Bool.or_true, if_true]
          refine ⟨c', h1, ?_⟩
          rw [List.foldlM_cons, hx]
          exact h2
        · have hr : rowsOf ok keyOf (r :: rest) key = rowsOf ok keyOf rest key := by
            simp [rowsOf, hok, hk]
          have := ih key
          rw [hoth key (fun e => hk e.symm)] at this
          rw [hr]; exact this
      · have hok' : ok r = false := by simpa using hok
        simp only [hok', Bool.not_false, if_true, Option.some.injEq] at hs
        subst hs
        refine ⟨ihn, ?_⟩
        intro key
        have hr : rowsOf ok keyOf (r :: rest) key = rowsOf ok keyOf rest key := by
          simp [rowsOf, hok']
        rw [hr]; exact ih key

end GroupBy

/-! ### `gatherStats` is such a fold -/

def gsCands (m : StatsMode) (cx : Ctx) (t : Table) (req : Request) : List Row :=
  if m.useIndex then preFiltered cx t (tableRows cx t) req.filter else tableRows cx t

def gsOk (m : StatsMode) (cx : Ctx) (t : Table) (req : Request) (r : Row) : Bool :=
  (if m.pushDown then matchAll m.q (mkView cx t r) req.filter else semList m.q (mkView cx t r) req.filter) &&
    checkAuth cx t req.authUser r

def gsKey (cx : Ctx) (t : Table) (reqCols : List Column) (r : Row) : String :=
  joinWith sep0 (reqCols.map (fun c => ((mkView cx t r).get c).keyString))

def gsCount (m : StatsMode) (cx : Ctx) (t : Table) (req : Request) (r : Row) (accs : Accs) : Option Accs :=
  match (if m.grouped then optimizeStats req.stats else none) with
  | some nodes => countNodes m.q (mkView cx t r) nodes accs
  | none => countFlat m.q m.pushDown (mkView cx t r) req.stats 0 accs

def gsInit (req : Request) : Accs := req.stats.map (fun s => Acc.init s.accKind)

theorem gatherStats_eq (m : StatsMode) (cx : Ctx) (t : Table) (req : Request) (reqCols : List Column) :
    gatherStats m cx t req reqCols =
      foldRows (kstep (gsOk m cx t req) (gsKey cx t reqCols) (gsCount m cx t req) (gsInit req))
        (gsCands m cx t req) [] := by
  rfl

/-! ## 7. merging the per-backend maps -/

/-- slot-wise merge of one key: `cur.apply s.stats s.count` -/
def zipMerge (cur slots : Accs) : Accs := (cur.zip slots).map (fun (c, s) => c.apply s.stats s.count)

/-- one step of `Response.MergeStats` -/
def mergeStep (acc : StatsMap) (p : String × Accs) : StatsMap :=
  match acc.find? (·.1 == p.1) with
  | none => acc ++ [(p.1, p.2)]
  | some _ => acc.map fun (k, cur) => if k == p.1 then (k, zipMerge cur p.2) else (k, cur)

theorem mergeStats_eq_foldl (a b : StatsMap) : mergeStats a b = b.foldl mergeStep a := by
  unfold mergeStats
  congr 1

theorem lookup_mapVal (m : StatsMap) (key : String) (g : Accs → Accs) (k : String) :
    lookup (m.map (fun (p : String × Accs) => if p.1 == key then (p.1, g p.2) else (p.1, p.2))) k =
      if k = key then (lookup m k).map g else lookup m k := by
  induction m with
  | nil => simp [lookup_nil]
  | cons x xs ih =>
    obtain ⟨k0, a0⟩ := x
    simp only [List.map_cons]
    by_cases h0 : k0 = key
    · subst h0
      simp only [beq_self_eq_true, if_true, lookup_cons, ih]
      by_cases h : k0 = k
      · subst h; simp
      · have h' : ¬ k = k0 := fun e => h e.symm
        simp [h, h']
    · have hb : (k0 == key) = false := by simp [h0]
      simp only [hb, Bool.false_eq_true, if_false, lookup_cons, ih]
      by_cases h : k0 = k
      · subst h; simp [h0]
      · simp [h]

theorem mergeStep_lookup (acc : StatsMap) (key : String) (slots : Accs) (k : String) :
    lookup (mergeStep acc (key, slots)) k =
      if k = key then some (match lookup acc key with
        | some cur => zipMerge cur slots
        | none => slots)
      else lookup acc k := by
  unfold mergeStep
  cases hf : acc.find? (·.1 == key) with
  | none =>
    have hl : lookup acc key = none := by simp [lookup, hf]
    simp only [lookup_append_new]
    by_cases hk : k = key
    · subst hk; simp [hl]
    · have : ¬ key = k := fun e => hk e.symm
      cases lookup acc k <;> simp [hk, this]
  | some p =>
    have hl : lookup acc key = some p.2 := by simp [lookup, hf]
    have := lookup_mapVal acc key (fun cur => zipMerge cur slots) k
    simp only [] at this ⊢
    rw [this]
    by_cases hk : k = key
    · subst hk; simp [hl]
    · simp [hk]

/-- `MergeStats` works key by key: the slots of a key present on both sides are merged slot-wise,
    a key present on one side only keeps its slots -/
theorem mergeStats_lookup (b : StatsMap) :
    ∀ (a : StatsMap), (keys b).Nodup → ∀ k,
      lookup (mergeStats a b) k =
        match lookup b k with
        | none => lookup a k
        | some s => some (match lookup a k with
            | some cur => zipMerge cur s
            | none => s) := by
  induction b with
  | nil => intro a _ k; simp [mergeStats, lookup_nil]
  | cons x xs ih =>
    intro a hn k
    obtain ⟨key, slots⟩ := x
    simp only [keys, List.map_cons, List.nodup_cons] at hn
    rw [mergeStats_eq_foldl, List.foldl_cons, ← mergeStats_eq_foldl, ih _ hn.2 k, lookup_cons]
    by_cases hk : key = k
    · subst hk
      have : lookup xs key = none := (lookup_none_iff xs key).mpr hn.1
      simp [this, mergeStep_lookup]
    · have hk' : ¬ k = key := fun e => hk e.symm
      simp only [hk, if_false, mergeStep_lookup, hk']

theorem zipMerge_accOf :
    ∀ (ks : List AccKind) (xss yss : List (List Int)),
      zipMerge (List.zipWith accOf ks xss) (List.zipWith accOf ks yss) =
        List.zipWith accOf ks (List.zipWith (· ++ ·) xss yss)
  | [], _, _ => by simp [zipMerge]
  | _ :: _, [], _ => by simp [zipMerge]
  | _ :: _, _ :: _, [] => by simp [zipMerge]
  | k :: ks, xs :: xss, ys :: yss => by
    have ih := zipMerge_accOf ks xss yss
    simp only [zipMerge] at ih ⊢
    simp only [List.zipWith_cons_cons, List.zip_cons_cons, List.map_cons, merge_accOf, ih]

end Lmd.C05
