/-
  Helper lemmas about `Lmd.reloadPlan` / `Lmd.reloadResult` / `Lmd.reloadListeners` (property C20).

  The central tool is `lookup`: the generation of the old peer whose definition is exactly the configured
  connection (what `initializePeers` finds with `Connection.Equals`), with the equation lemma
  `reloadPlan_cons` and the membership characterisation `mem_plan`.
-/
import Lmd.Reload

namespace Lmd.ReloadLemmas
open Lmd

/-! ## small list facts -/

/-- a map without repeated images is injective on the list -/
theorem eq_of_nodup_map {α β : Type} (f : α → β) :
    ∀ (l : List α), (l.map f).Nodup → ∀ a ∈ l, ∀ b ∈ l, f a = f b → a = b
  | [], _, a, ha, _, _, _ => by cases ha
  | x :: t, h, a, ha, b, hb, hab => by
    rw [List.map_cons, List.nodup_cons] at h
    rcases List.mem_cons.1 ha with rfl | ha'
    · rcases List.mem_cons.1 hb with rfl | hb'
      · rfl
      · exact absurd (hab ▸ List.mem_map_of_mem (f := f) hb') h.1
    · rcases List.mem_cons.1 hb with rfl | hb'
      · exact absurd (hab ▸ List.mem_map_of_mem (f := f) ha') h.1
      · exact eq_of_nodup_map f t h.2 a ha' b hb' hab

theorem nodup_of_nodup_map {α β : Type} (f : α → β) :
    ∀ (l : List α), (l.map f).Nodup → l.Nodup
  | [], _ => List.nodup_nil
  | x :: t, h => by
    rw [List.map_cons, List.nodup_cons] at h
    rw [List.nodup_cons]
    exact ⟨fun hx => h.1 (List.mem_map_of_mem hx), nodup_of_nodup_map f t h.2⟩

/-! ## the lookup of an old peer -/

/-- the generation of the old peer that `initializePeers` keeps for the configured connection `c`: the first old
    peer with the same id, provided its whole definition is equal -/
def lookup (old : List (Conn × Nat)) (c : Conn) : Option Nat :=
  match old.find? (fun (o : Conn × Nat) => o.1.id == c.id) with
  | some (o, g) => if o = c then some g else none
  | none => none

theorem reloadPlan_nil (old : List (Conn × Nat)) (next : Nat) : reloadPlan old [] next = ([], next) := rfl

/-- one step of `initializePeers`, in terms of `lookup` -/
theorem reloadPlan_cons (old : List (Conn × Nat)) (c : Conn) (rest : List Conn) (next : Nat) :
    reloadPlan old (c :: rest) next =
      match lookup old c with
      | some g => ((c, .keep g) :: (reloadPlan old rest next).1, (reloadPlan old rest next).2)
      | none => ((c, .create next) :: (reloadPlan old rest (next + 1)).1, (reloadPlan old rest (next + 1)).2) := by
  unfold lookup
  rw [reloadPlan]
  cases old.find? (fun (o : Conn × Nat) => o.1.id == c.id) with
  | none => rfl
  | some p =>
    obtain ⟨o, g⟩ := p
    by_cases h : o = c
    · simp only [h, if_true]
    · simp only [h, if_false]

theorem reloadPlan_cons_some {old : List (Conn × Nat)} {c : Conn} {g : Nat} (h : lookup old c = some g)
    (rest : List Conn) (next : Nat) :
    reloadPlan old (c :: rest) next =
      ((c, .keep g) :: (reloadPlan old rest next).1, (reloadPlan old rest next).2) := by
  rw [reloadPlan_cons, h]

theorem reloadPlan_cons_none {old : List (Conn × Nat)} {c : Conn} (h : lookup old c = none)
    (rest : List Conn) (next : Nat) :
    reloadPlan old (c :: rest) next =
      ((c, .create next) :: (reloadPlan old rest (next + 1)).1, (reloadPlan old rest (next + 1)).2) := by
  rw [reloadPlan_cons, h]

/-- a successful lookup names an entry of the old peer map with exactly this definition -/
theorem lookup_some_mem {old : List (Conn × Nat)} {c : Conn} {g : Nat} (h : lookup old c = some g) :
    (c, g) ∈ old := by
  unfold lookup at h
  split at h
  · rename_i o g' hf
    by_cases hoc : o = c
    · rw [if_pos hoc] at h
      have hm := List.mem_of_find?_eq_some hf
      cases h
      exact hoc ▸ hm
    · rw [if_neg hoc] at h
      cases h
  · cases h

/-- no old peer with exactly this definition: the lookup fails -/
theorem lookup_none_of_not_mem {old : List (Conn × Nat)} {c : Conn} (h : ∀ g, (c, g) ∉ old) :
    lookup old c = none := by
  cases hl : lookup old c with
  | none => rfl
  | some g => exact absurd (lookup_some_mem hl) (h g)

theorem find?_of_mem : ∀ {old : List (Conn × Nat)} {c : Conn} {g : Nat},
    (old.map (·.1.id)).Nodup → (c, g) ∈ old →
    old.find? (fun (o : Conn × Nat) => o.1.id == c.id) = some (c, g)
  | [], _, _, _, hm => by cases hm
  | (o, g0) :: t, c, g, hd, hm => by
    rw [List.map_cons, List.nodup_cons] at hd
    rw [List.find?_cons]
    by_cases hid : o.id = c.id
    · have hb : ((o, g0).1.id == c.id) = true := by simpa using hid
      rw [hb]
      rcases List.mem_cons.1 hm with heq | hm'
      · rw [heq]
      · exfalso
        apply hd.1
        have : ((c, g) : Conn × Nat).1.id ∈ t.map (·.1.id) := List.mem_map_of_mem (f := (·.1.id)) hm'
        simpa [hid] using this
    · have hb : ((o, g0).1.id == c.id) = false := by simpa using hid
      rw [hb]
      rcases List.mem_cons.1 hm with heq | hm'
      · exfalso
        apply hid
        have := congrArg (·.1.id) heq
        exact this.symm
      · exact find?_of_mem hd.2 hm'

/-- with pairwise different ids in the old map, an entry with exactly this definition is the one found -/
theorem lookup_of_mem {old : List (Conn × Nat)} {c : Conn} {g : Nat}
    (hd : (old.map (·.1.id)).Nodup) (hm : (c, g) ∈ old) : lookup old c = some g := by
  unfold lookup
  rw [find?_of_mem hd hm]
  simp

theorem lookup_none_iff {old : List (Conn × Nat)} {c : Conn} (hd : (old.map (·.1.id)).Nodup) :
    lookup old c = none ↔ ∀ g, (c, g) ∉ old := by
  constructor
  · intro h g hm
    rw [lookup_of_mem hd hm] at h
    cases h
  · exact lookup_none_of_not_mem

/-! ## the plan -/

/-- the plan lists the configured connections, in order -/
theorem plan_map_fst (old : List (Conn × Nat)) :
    ∀ (conns : List Conn) (next : Nat), (reloadPlan old conns next).1.map (·.1) = conns
  | [], _ => rfl
  | c :: rest, next => by
    rw [reloadPlan_cons]
    split
    · simp [plan_map_fst old rest next]
    · simp [plan_map_fst old rest (next + 1)]

/-- the generation counter never decreases -/
theorem plan_counter_le (old : List (Conn × Nat)) :
    ∀ (conns : List Conn) (next : Nat), next ≤ (reloadPlan old conns next).2
  | [], _ => Nat.le_refl _
  | c :: rest, next => by
    rw [reloadPlan_cons]
    split
    · exact plan_counter_le old rest next
    · exact Nat.le_trans (Nat.le_succ _) (plan_counter_le old rest (next + 1))

/-- the counter advances by exactly the number of connections that get a new peer -/
theorem plan_counter_eq (old : List (Conn × Nat)) :
    ∀ (conns : List Conn) (next : Nat),
      (reloadPlan old conns next).2 = next + (conns.filter (fun c => (lookup old c).isNone)).length
  | [], _ => rfl
  | c :: rest, next => by
    rw [reloadPlan_cons]
    split
    · rename_i g h
      simp [h, plan_counter_eq old rest next]
    · rename_i h
      simp [h, plan_counter_eq old rest (next + 1)]
      omega

/-- what an entry of the plan says: the connection is configured; a `keep g` means the lookup found `g`, a
    `create g` means the lookup failed and `g` is one of the generation numbers handed out by this reload -/
theorem mem_plan (old : List (Conn × Nat)) :
    ∀ (conns : List Conn) (next : Nat) (c : Conn) (d : Decision),
      (c, d) ∈ (reloadPlan old conns next).1 →
      c ∈ conns ∧
        match d with
        | .keep g => lookup old c = some g
        | .create g => lookup old c = none ∧ next ≤ g ∧ g < (reloadPlan old conns next).2
  | [], _, _, _, h => by cases h
  | c0 :: rest, next, c, d, h => by
    cases hl : lookup old c0 with
    | some g0 =>
      rw [reloadPlan_cons_some hl] at h ⊢
      rcases List.mem_cons.1 h with heq | h'
      · cases heq
        exact ⟨List.mem_cons_self, hl⟩
      · have ih := mem_plan old rest next c d h'
        exact ⟨List.mem_cons_of_mem _ ih.1, ih.2⟩
    | none =>
      rw [reloadPlan_cons_none hl] at h ⊢
      rcases List.mem_cons.1 h with heq | h'
      · cases heq
        refine ⟨List.mem_cons_self, hl, Nat.le_refl _, ?_⟩
        exact plan_counter_le old rest (next + 1)
      · have ih := mem_plan old rest (next + 1) c d h'
        refine ⟨List.mem_cons_of_mem _ ih.1, ?_⟩
        cases d with
        | keep g => exact ih.2
        | create g => exact ⟨ih.2.1, Nat.le_of_succ_le ih.2.2.1, ih.2.2.2⟩

theorem mem_plan_keep {old : List (Conn × Nat)} {conns : List Conn} {next : Nat} {c : Conn} {g : Nat}
    (h : (c, .keep g) ∈ (reloadPlan old conns next).1) : c ∈ conns ∧ lookup old c = some g :=
  mem_plan old conns next c (.keep g) h

theorem mem_plan_create {old : List (Conn × Nat)} {conns : List Conn} {next : Nat} {c : Conn} {g : Nat}
    (h : (c, .create g) ∈ (reloadPlan old conns next).1) :
    c ∈ conns ∧ lookup old c = none ∧ next ≤ g ∧ g < (reloadPlan old conns next).2 :=
  mem_plan old conns next c (.create g) h

/-- every configured connection has an entry in the plan -/
theorem exists_mem_plan (old : List (Conn × Nat)) {conns : List Conn} (next : Nat) {c : Conn} (hc : c ∈ conns) :
    ∃ d, (c, d) ∈ (reloadPlan old conns next).1 := by
  rw [← plan_map_fst old conns next] at hc
  obtain ⟨⟨c', d⟩, hm, rfl⟩ := List.mem_map.1 hc
  exact ⟨d, hm⟩

theorem keep_mem_plan {old : List (Conn × Nat)} {conns : List Conn} (next : Nat) {c : Conn} {g : Nat}
    (hc : c ∈ conns) (hl : lookup old c = some g) : (c, .keep g) ∈ (reloadPlan old conns next).1 := by
  obtain ⟨d, hd⟩ := exists_mem_plan old next hc
  cases d with
  | keep g' =>
    have := (mem_plan_keep hd).2
    rw [hl] at this
    cases this
    exact hd
  | create g' =>
    have := (mem_plan_create hd).2.1
    rw [hl] at this
    cases this

theorem create_mem_plan {old : List (Conn × Nat)} {conns : List Conn} (next : Nat) {c : Conn}
    (hc : c ∈ conns) (hl : lookup old c = none) :
    ∃ g, (c, .create g) ∈ (reloadPlan old conns next).1 ∧ next ≤ g ∧ g < (reloadPlan old conns next).2 := by
  obtain ⟨d, hd⟩ := exists_mem_plan old next hc
  cases d with
  | keep g' =>
    have := (mem_plan_keep hd).2
    rw [hl] at this
    cases this
  | create g' => exact ⟨g', hd, (mem_plan_create hd).2.2⟩

/-- the generation numbers of the new peers of a plan, in plan order -/
def createdGens (ds : List (Conn × Decision)) : List Nat :=
  ds.filterMap fun p => match p.2 with
    | .create g => some g
    | .keep _ => none

/-- the new peers get the consecutive numbers from the old counter up to the new one -/
theorem createdGens_plan (old : List (Conn × Nat)) :
    ∀ (conns : List Conn) (next : Nat),
      createdGens (reloadPlan old conns next).1 = List.range' next ((reloadPlan old conns next).2 - next)
  | [], next => by simp [reloadPlan_nil, createdGens]
  | c :: rest, next => by
    cases hl : lookup old c with
    | some g =>
      rw [reloadPlan_cons_some hl]
      have ih := createdGens_plan old rest next
      simpa [createdGens] using ih
    | none =>
      rw [reloadPlan_cons_none hl]
      have ih := createdGens_plan old rest (next + 1)
      have hle := plan_counter_le old rest (next + 1)
      have hk : (reloadPlan old rest (next + 1)).2 - next = ((reloadPlan old rest (next + 1)).2 - (next + 1)) + 1 := by
        omega
      show createdGens ((c, Decision.create next) :: (reloadPlan old rest (next + 1)).1) = _
      rw [hk, List.range'_succ]
      simp only [createdGens, List.filterMap_cons] at ih ⊢
      rw [ih]

/-- a generation number is handed out to one connection only -/
theorem create_gen_inj (old : List (Conn × Nat)) :
    ∀ (conns : List Conn) (next : Nat) (c₁ c₂ : Conn) (g : Nat),
      (c₁, Decision.create g) ∈ (reloadPlan old conns next).1 →
      (c₂, Decision.create g) ∈ (reloadPlan old conns next).1 → c₁ = c₂
  | [], _, _, _, _, h, _ => by cases h
  | c :: rest, next, c₁, c₂, g, h₁, h₂ => by
    cases hl : lookup old c with
    | some g0 =>
      rw [reloadPlan_cons_some hl] at h₁ h₂
      rcases List.mem_cons.1 h₁ with e₁ | h₁'
      · cases e₁
      rcases List.mem_cons.1 h₂ with e₂ | h₂'
      · cases e₂
      exact create_gen_inj old rest next c₁ c₂ g h₁' h₂'
    | none =>
      rw [reloadPlan_cons_none hl] at h₁ h₂
      rcases List.mem_cons.1 h₁ with e₁ | h₁'
      · cases e₁
        rcases List.mem_cons.1 h₂ with e₂ | h₂'
        · cases e₂; rfl
        · have := (mem_plan_create h₂').2.2.1
          omega
      · rcases List.mem_cons.1 h₂ with e₂ | h₂'
        · cases e₂
          have := (mem_plan_create h₁').2.2.1
          omega
        · exact create_gen_inj old rest (next + 1) c₁ c₂ g h₁' h₂'

/-- positions: two different plan entries never carry the same new generation number -/
theorem create_pairwise (old : List (Conn × Nat)) :
    ∀ (conns : List Conn) (next : Nat),
      (reloadPlan old conns next).1.Pairwise
        (fun p q => ∀ g, p.2 = Decision.create g → q.2 ≠ Decision.create g)
  | [], _ => List.Pairwise.nil
  | c :: rest, next => by
    cases hl : lookup old c with
    | some g0 =>
      rw [reloadPlan_cons_some hl]
      refine List.Pairwise.cons ?_ (create_pairwise old rest next)
      intro q _ g hg
      cases hg
    | none =>
      rw [reloadPlan_cons_none hl]
      refine List.Pairwise.cons ?_ (create_pairwise old rest (next + 1))
      rintro ⟨c', d⟩ hq g hg hq2
      cases hg
      simp only at hq2
      subst hq2
      have := (mem_plan_create hq).2.2.1
      omega

/-- every generation in the plan is below the new counter, provided the old ones were below the old counter -/
theorem plan_gen_lt {old : List (Conn × Nat)} {conns : List Conn} {next : Nat}
    (hb : ∀ p ∈ old, p.2 < next) {c : Conn} {d : Decision}
    (h : (c, d) ∈ (reloadPlan old conns next).1) : d.gen < (reloadPlan old conns next).2 := by
  cases d with
  | keep g =>
    have := hb _ (lookup_some_mem (mem_plan_keep h).2)
    exact Nat.lt_of_lt_of_le this (plan_counter_le old conns next)
  | create g => exact (mem_plan_create h).2.2.2

/-- the generations of the plan are pairwise different -/
theorem plan_gens_nodup {old : List (Conn × Nat)} (hg : (old.map (·.2)).Nodup) :
    ∀ (conns : List Conn) (next : Nat), (∀ p ∈ old, p.2 < next) → conns.Nodup →
      ((reloadPlan old conns next).1.map (·.2.gen)).Nodup
  | [], _, _, _ => by simp [reloadPlan_nil]
  | c :: rest, next, hb, hn => by
    rw [List.nodup_cons] at hn
    cases hl : lookup old c with
    | some g0 =>
      rw [reloadPlan_cons_some hl, List.map_cons, List.nodup_cons]
      refine ⟨?_, plan_gens_nodup hg rest next hb hn.2⟩
      intro hmem
      obtain ⟨⟨c', d⟩, hm, hgen⟩ := List.mem_map.1 hmem
      cases d with
      | keep g =>
        have hk := mem_plan_keep hm
        have hgg : g = g0 := hgen
        subst hgg
        have h1 := lookup_some_mem hk.2
        have h2 := lookup_some_mem hl
        have := eq_of_nodup_map (·.2) old hg _ h1 _ h2 rfl
        cases this
        exact hn.1 hk.1
      | create g =>
        have hk := mem_plan_create hm
        have hgg : g = g0 := hgen
        subst hgg
        have := hb _ (lookup_some_mem hl)
        have := hk.2.2.1
        omega
    | none =>
      rw [reloadPlan_cons_none hl, List.map_cons, List.nodup_cons]
      have hb' : ∀ p ∈ old, p.2 < next + 1 := fun p hp => Nat.lt_succ_of_lt (hb p hp)
      refine ⟨?_, plan_gens_nodup hg rest (next + 1) hb' hn.2⟩
      intro hmem
      obtain ⟨⟨c', d⟩, hm, hgen⟩ := List.mem_map.1 hmem
      cases d with
      | keep g =>
        have hk := mem_plan_keep hm
        have hgg : g = next := hgen
        subst hgg
        have := hb _ (lookup_some_mem hk.2)
        simp at this
      | create g =>
        have hk := mem_plan_create hm
        have hgg : g = next := hgen
        subst hgg
        have := hk.2.2.1
        omega

/-- a configuration made of entries of the old map (distinct ids) keeps every one of them and hands out no number -/
theorem plan_of_sub {old : List (Conn × Nat)} (hd : (old.map (·.1.id)).Nodup) :
    ∀ (sub : List (Conn × Nat)) (next : Nat), (∀ p ∈ sub, p ∈ old) →
      reloadPlan old (sub.map (·.1)) next = (sub.map (fun p => (p.1, Decision.keep p.2)), next)
  | [], _, _ => rfl
  | (c, g) :: t, next, hs => by
    have hl : lookup old c = some g := lookup_of_mem hd (hs _ List.mem_cons_self)
    rw [List.map_cons, reloadPlan_cons_some hl,
      plan_of_sub hd t next (fun p hp => hs p (List.mem_cons_of_mem _ hp))]
    rfl

/-! ## the result -/

theorem result_fst (old : List (Conn × Nat)) (conns : List Conn) (next : Nat) :
    (reloadResult old conns next).1 = (reloadPlan old conns next).1.map (fun p => (p.1, p.2.gen)) := rfl

theorem result_snd (old : List (Conn × Nat)) (conns : List Conn) (next : Nat) :
    (reloadResult old conns next).2 = (reloadPlan old conns next).2 := rfl

theorem result_map_fst (old : List (Conn × Nat)) (conns : List Conn) (next : Nat) :
    (reloadResult old conns next).1.map (·.1) = conns := by
  rw [result_fst, List.map_map]
  exact plan_map_fst old conns next

theorem result_map_snd (old : List (Conn × Nat)) (conns : List Conn) (next : Nat) :
    (reloadResult old conns next).1.map (·.2) = (reloadPlan old conns next).1.map (·.2.gen) := by
  rw [result_fst, List.map_map]
  rfl

theorem mem_result {old : List (Conn × Nat)} {conns : List Conn} {next : Nat} {c : Conn} {g : Nat} :
    (c, g) ∈ (reloadResult old conns next).1 ↔ ∃ d, (c, d) ∈ (reloadPlan old conns next).1 ∧ d.gen = g := by
  rw [result_fst, List.mem_map]
  constructor
  · rintro ⟨⟨c', d⟩, hm, heq⟩
    cases heq
    exact ⟨d, hm, rfl⟩
  · rintro ⟨d, hm, rfl⟩
    exact ⟨(c, d), hm, rfl⟩

theorem result_of_sub {old : List (Conn × Nat)} (hd : (old.map (·.1.id)).Nodup)
    (sub : List (Conn × Nat)) (next : Nat) (hs : ∀ p ∈ sub, p ∈ old) :
    reloadResult old (sub.map (·.1)) next = (sub, next) := by
  have h := plan_of_sub hd sub next hs
  have h1 : (reloadResult old (sub.map (·.1)) next).1 = sub := by
    rw [result_fst, h, List.map_map]
    exact List.map_id'' (fun _ => rfl) sub
  have h2 : (reloadResult old (sub.map (·.1)) next).2 = next := by
    rw [result_snd, h]
  exact Prod.ext h1 h2

/-! ## listeners -/

theorem nodup_eraseDups_aux : ∀ (n : Nat) (l : List String), l.length ≤ n → l.eraseDups.Nodup
  | _, [], _ => by simp
  | 0, _ :: _, h => by simp at h
  | n + 1, a :: t, h => by
    rw [List.eraseDups_cons, List.nodup_cons]
    constructor
    · rw [List.mem_eraseDups]
      simp
    · apply nodup_eraseDups_aux n
      have := List.length_filter_le (fun b => !b == a) t
      simp only [List.length_cons] at h
      omega

/-- `eraseDups` leaves no duplicates -/
theorem nodup_eraseDups (l : List String) : l.eraseDups.Nodup := nodup_eraseDups_aux l.length l (Nat.le_refl _)

/-- `eraseDups` leaves a duplicate-free list alone -/
theorem eraseDups_of_nodup : ∀ (l : List String), l.Nodup → l.eraseDups = l
  | [], _ => rfl
  | a :: t, h => by
    rw [List.nodup_cons] at h
    rw [List.eraseDups_cons]
    have hf : t.filter (fun b => !b == a) = t := by
      rw [List.filter_eq_self]
      intro b hb
      have : b ≠ a := fun e => h.1 (e ▸ hb)
      simpa using this
    rw [hf, eraseDups_of_nodup t h.2]

end Lmd.ReloadLemmas
