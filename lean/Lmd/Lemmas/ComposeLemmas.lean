/-
  Lmd.Lemmas.ComposeLemmas — helper lemmas that tie the two halves of property C18 together: the `nodeBackends` map a
  cluster node keeps (`NodeView.check`, `mapOfShares`, `setEntry` of Lmd/Distributed.lean) and the share lists the node
  hands to a distributed request (`viewShares`, what `cquery` of Driver/Main.lean computes from the map).
-/
import Lmd.Lemmas.NodeViewLemmas
import Lmd.Lemmas.DistLemmas
import Lmd.Lemmas.DistStatsLemmas

namespace Lmd.ComposeL
open Lmd Lmd.ClusterL Lmd.NodeViewL

/-- The share lists a cluster node hands to a request it distributes (Driver/Main.lean, `cquery`): the lists it believes
    the nodes serve, in node order. -/
def viewShares (v : NodeView) : List (List String) :=
  (v.nodeBackends.mergeSort (fun a b => a.1 ≤ b.1)).map (·.2)

/-- A `nodeBackends` map that is right about the running nodes `R`: it has exactly one entry for every node of `R`, no
    other entry, and the entry of a node is the share the distribution for `R` gives that node. -/
structure GoodMap (n : Nat) (R : List Nat) (bs : List String) (m : List (Nat × List String)) : Prop where
  keys : (m.map (·.1)).Perm R
  vals : ∀ j l, (j, l) ∈ m → l = (sharesOf n R bs).getD j []

/-! ## the map stored with a distribution -/

theorem map_fst_filterMap_ite (l : List Nat) (p : Nat → Prop) [DecidablePred p] (f : Nat → List String) :
    (l.filterMap fun i => if p i then some (i, f i) else none).map (·.1) = l.filter (fun i => decide (p i)) := by
  induction l with
  | nil => rfl
  | cons a l ih =>
    by_cases hp : p a
    · rw [List.filterMap_cons_some (by rw [if_pos hp]), List.map_cons, ih,
        List.filter_cons_of_pos (by simpa using hp)]
    · rw [List.filterMap_cons_none (by rw [if_neg hp]), ih, List.filter_cons_of_neg (by simpa using hp)]

/-- the keys of the stored map are the running nodes, in ascending order -/
theorem keys_mapOfShares (n : Nat) (R : List Nat) (bs : List String) (hR : R.Pairwise (· < ·))
    (hlt : ∀ j ∈ R, j < n) : (mapOfShares n R bs).map (·.1) = R := by
  unfold mapOfShares
  simp only
  rw [map_fst_filterMap_ite]
  refine Eq.trans ?_ (filter_range_eq n R hR hlt)
  apply List.filter_congr
  intro j hj
  rw [List.mem_range] at hj
  rw [Bool.eq_iff_iff]
  simp only [decide_eq_true_eq, List.contains_iff_mem]
  exact ⟨fun h => ((onlineFlags_true_iff n R j).1 ((quota_pos_iff _ _ j).1 h)).2,
    fun h => (quota_pos_iff _ _ j).2 ((onlineFlags_true_iff n R j).2 ⟨hj, h⟩)⟩

theorem goodMap_mapOfShares (n : Nat) (R : List Nat) (bs : List String) (hR : R.Pairwise (· < ·))
    (hlt : ∀ j ∈ R, j < n) : GoodMap n R bs (mapOfShares n R bs) :=
  ⟨List.Perm.of_eq (keys_mapOfShares n R bs hR hlt), fun j l h => ((mem_mapOfShares n R bs j l).1 h).2.2⟩

/-! ## a map known by its lookups -/

/-- in a map without repeated keys every entry is found by the lookup of its key -/
theorem lookup_of_mem_nodupKeys (m : List (Nat × List String)) (hnd : (m.map (·.1)).Nodup) (j : Nat)
    (l : List String) (h : (j, l) ∈ m) : m.lookup j = some l := by
  induction m with
  | nil => simp at h
  | cons a m ih =>
    obtain ⟨k, x⟩ := a
    rw [List.map_cons, List.nodup_cons] at hnd
    rw [List.lookup_cons]
    rcases List.mem_cons.1 h with he | hm
    · simp only [Prod.mk.injEq] at he
      obtain ⟨rfl, rfl⟩ := he
      simp
    · have hjk : j ≠ k := by
        intro e
        subst e
        exact hnd.1 (List.mem_map.2 ⟨(j, l), hm, rfl⟩)
      have : (j == k) = false := by simpa using hjk
      rw [this]
      exact ih hnd.2 hm

theorem goodMap_of_lookup (n : Nat) (R : List Nat) (bs : List String) (m : List (Nat × List String))
    (hnd : R.Nodup) (hkeys : (m.map (·.1)).Perm R)
    (hl : ∀ j ∈ R, m.lookup j = some ((sharesOf n R bs).getD j [])) : GoodMap n R bs m := by
  refine ⟨hkeys, fun j l h => ?_⟩
  have hj : j ∈ R := hkeys.subset (List.mem_map.2 ⟨(j, l), h, rfl⟩)
  have h1 := lookup_of_mem_nodupKeys m (hkeys.nodup_iff.2 hnd) j l h
  rw [hl j hj] at h1
  exact (Option.some.inj h1).symm

theorem lookup_of_goodMap {n : Nat} {R : List Nat} {bs : List String} {m : List (Nat × List String)}
    (hnd : R.Nodup) (h : GoodMap n R bs m) (j : Nat) :
    (j ∈ R → m.lookup j = some ((sharesOf n R bs).getD j [])) ∧ (j ∉ R → m.lookup j = none) := by
  constructor
  · intro hj
    have : j ∈ m.map (·.1) := h.keys.symm.subset hj
    obtain ⟨⟨k, l⟩, hm, hk⟩ := List.mem_map.1 this
    simp only at hk
    subst hk
    rw [lookup_of_mem_nodupKeys m (h.keys.nodup_iff.2 hnd) k l hm, h.vals k l hm]
  · intro hj
    rw [List.lookup_eq_none_iff]
    intro p hp
    have : p.1 ∈ R := h.keys.subset (List.mem_map.2 ⟨p, hp, rfl⟩)
    rw [bne_iff_ne]
    intro e
    exact hj (e ▸ this)

/-! ## sorting the map by node -/

/-- the entries of a good map in node order carry the shares of the running nodes in node order -/
theorem sorted_goodMap {n : Nat} {R : List Nat} {bs : List String} {m : List (Nat × List String)}
    (hR : R.Pairwise (· < ·)) (h : GoodMap n R bs m) :
    (m.mergeSort (fun a b => a.1 ≤ b.1)).map (·.2) = R.map fun j => (sharesOf n R bs).getD j [] := by
  have hperm : (m.mergeSort (fun a b => a.1 ≤ b.1)).Perm m := List.mergeSort_perm m _
  have hsorted := List.pairwise_mergeSort (le := fun (a b : Nat × List String) => decide (a.1 ≤ b.1))
    (fun a b c h1 h2 => by simp only [decide_eq_true_eq] at *; omega)
    (fun a b => by simp only [Bool.or_eq_true, decide_eq_true_eq]; omega) m
  have hk : (m.mergeSort (fun a b => a.1 ≤ b.1)).map (·.1) = R := by
    apply List.Perm.eq_of_pairwise (le := (· ≤ ·)) (fun a b _ _ h1 h2 => Nat.le_antisymm h1 h2)
    · rw [List.pairwise_map]
      exact hsorted.imp (fun h => by simpa using h)
    · exact hR.imp Nat.le_of_lt
    · exact (hperm.map _).trans h.keys
  have hv : (m.mergeSort (fun a b => a.1 ≤ b.1)).map (·.2)
      = ((m.mergeSort (fun a b => a.1 ≤ b.1)).map (·.1)).map fun j => (sharesOf n R bs).getD j [] := by
    rw [List.map_map]
    apply List.map_congr_left
    intro p hp
    exact h.vals p.1 p.2 (hperm.subset hp)
  rw [hv, hk]

/-- the shares of the running nodes, concatenated in node order, are the configured backends without empty ids -/
theorem shares_flatten (n : Nat) (R : List Nat) (bs : List String) (hR : R.Pairwise (· < ·)) (hne : R ≠ [])
    (hlt : ∀ j ∈ R, j < n) :
    (R.map fun j => (sharesOf n R bs).getD j []).flatten = bs.filter (· ≠ "") := by
  obtain ⟨j, hj⟩ := List.exists_mem_of_ne_nil R hne
  rw [sharesOf_flatten_online n R bs hR hlt, sharesOf_flatten n R bs ⟨j, hj, hlt j hj⟩]

/-! ## later rounds keep a good map good -/

theorem dropRestarted_of_not_forced (seen : List (Nat × Nat)) (rs : List PingReply) (m : List (Nat × List String))
    (h : ∀ r ∈ rs, restarted seen r = false) : dropRestarted seen rs m = m := by
  induction rs generalizing m with
  | nil => rfl
  | cons r rs ih =>
    rw [dropRestarted_cons, h r List.mem_cons_self]
    exact ih m (fun r' hr' => h r' (List.mem_cons_of_mem _ hr'))

theorem perm_filter_ne_append {L : List Nat} (hnd : L.Nodup) {k : Nat} (hk : k ∈ L) :
    (L.filter (· != k) ++ [k]).Perm L := by
  have hnd1 : (L.filter (· != k) ++ [k]).Nodup := by
    rw [List.nodup_append]
    refine ⟨hnd.filter _, by simp, fun a ha b hb => ?_⟩
    rw [List.mem_singleton] at hb
    rw [List.mem_filter] at ha
    subst hb
    simpa using ha.2
  rw [List.perm_ext_iff_of_nodup hnd1 hnd]
  intro a
  simp only [List.mem_append, List.mem_filter, bne_iff_ne, ne_eq, List.mem_singleton]
  constructor
  · rintro (⟨h, _⟩ | h)
    · exact h
    · exact h ▸ hk
  · intro h
    by_cases e : a = k
    · exact .inr e
    · exact .inl ⟨h, e⟩

theorem goodMap_setEntry {n : Nat} {R : List Nat} {bs : List String} {m : List (Nat × List String)}
    (hnd : R.Nodup) (h : GoodMap n R bs m) (k : Nat) (hk : k ∈ R) :
    GoodMap n R bs (setEntry m k ((sharesOf n R bs).getD k [])) := by
  constructor
  · have e : (setEntry m k ((sharesOf n R bs).getD k [])).map (·.1) = (m.map (·.1)).filter (· != k) ++ [k] := by
      simp only [setEntry, List.map_append, List.map_cons, List.map_nil, List.filter_map]
      rfl
    rw [e]
    exact (perm_filter_ne_append (h.keys.nodup_iff.2 hnd) (h.keys.symm.subset hk)).trans h.keys
  · intro j l hm
    rcases (mem_setEntry m k _ j l).1 hm with ⟨h1, _⟩ | ⟨rfl, h2⟩
    · exact h.vals j l h1
    · exact h2

theorem goodMap_storePeers {n : Nat} {R : List Nat} {bs : List String} (hnd : R.Nodup) (rs : List PingReply)
    (hpos : ∀ r ∈ rs, r.pos ∈ R)
    (hpeers : ∀ r ∈ rs, r.peers = none ∨ r.peers = some ((sharesOf n R bs).getD r.pos []))
    (m : List (Nat × List String)) (h : GoodMap n R bs m) : GoodMap n R bs (storePeers rs m) := by
  induction rs generalizing m with
  | nil => exact h
  | cons r rs ih =>
    have ih' := ih (fun r' hr' => hpos r' (List.mem_cons_of_mem _ hr'))
      (fun r' hr' => hpeers r' (List.mem_cons_of_mem _ hr'))
    rcases hpeers r List.mem_cons_self with hp | hp
    · rw [storePeers_cons_none r rs m hp]
      exact ih' m h
    · rw [storePeers_cons_some r rs m _ hp]
      exact ih' _ (goodMap_setEntry hnd h r.pos (hpos r List.mem_cons_self))

/-- One more availability check of a node with a good map, answered by exactly the other running nodes, each reply
    carrying nothing or what its sender serves: the map is good afterwards, whether or not the check distributed anew. -/
theorem goodMap_check (R : List Nat) (bs : List String) (v : NodeView) (rs : List PingReply)
    (hR : R.Pairwise (· < ·)) (hlt : ∀ j ∈ R, j < v.nNodes) (hown : v.own ∈ R)
    (hrep : (rs.map (·.pos)).Perm (R.erase v.own))
    (hpeers : ∀ r ∈ rs, r.peers = none ∨ r.peers = some ((sharesOf v.nNodes R bs).getD r.pos []))
    (h : GoodMap v.nNodes R bs v.nodeBackends) :
    GoodMap v.nNodes R bs (v.check bs rs).nodeBackends := by
  have hset : newOnline v rs = R := newOnline_eq_of_perm v rs R hR hown hrep
  rcases check_cases v rs with hc | ⟨h1, h2⟩
  · rw [check_recomputed v bs rs hc, hset]
    exact goodMap_mapOfShares _ R bs hR hlt
  · rw [check_kept v bs rs h1 h2]
    have hnf : ∀ r ∈ rs, restarted v.seen r = false := by
      intro r hr
      have := List.any_eq_false.1 h1 r hr
      simpa using this
    show GoodMap v.nNodes R bs (storePeers rs (dropRestarted v.seen rs v.nodeBackends))
    rw [dropRestarted_of_not_forced v.seen rs v.nodeBackends hnf]
    refine goodMap_storePeers (hR.imp (fun h => Nat.ne_of_lt h)) rs (fun r hr => ?_) hpeers _ h
    exact List.mem_of_mem_erase (hrep.subset (List.mem_map.2 ⟨r, hr, rfl⟩))

/-! ## the single answer: two facts used for requests a node answers itself -/

open Lmd.Sort Lmd.Dist Lmd.C05 in
/-- every returned row of a single answer is a row of its pool -/
theorem dataQuery_hits_sublist_pool (m : EvalMode) (s : Schema) (ds : Dataset) (t : Table) (req : Request) :
    (dataQuery m s ds t req).hits.Sublist (dataQuery m s ds t req).pool := by
  by_cases h : req.offset ≤ totalOf m s ds t req
  · rw [dataQuery_hits m s ds t req h]
    exact window_sublist_pool req _
  · rw [(dataQuery_beyond m s ds t req (by omega)).1]
    exact List.nil_sublist _

open Lmd.Sort Lmd.Dist Lmd.C05 in
/-- a single Stats answer has one row per key -/
theorem statsQuery_rows_functional (m : StatsMode) (s : Schema) (ds : Dataset) (t : Table) (req : Request)
    (key : String) (s₁ s₂ : Accs) (h1 : (key, s₁) ∈ (statsQuery m s ds t req).rows)
    (h2 : (key, s₂) ∈ (statsQuery m s ds t req).rows) : s₁ = s₂ := by
  have hn : (keys (statsQuery m s ds t req).rows).Nodup := by
    cases hc : crashOf m s ds t req (availBackends ds t req) with
    | true =>
      rw [statsQuery_eq, hc]
      simp [keys]
    | false =>
      rw [statsQuery_rows m s ds t req hc]
      obtain ⟨a, b, _⟩ := mergedOf_spec m s ds t req (availBackends ds t req)
      exact (fixRows_spec req _ a b).1
  have e1 := lookup_of_mem hn h1
  have e2 := lookup_of_mem hn h2
  rw [e1] at e2
  exact Option.some.inj e2

end Lmd.ComposeL
