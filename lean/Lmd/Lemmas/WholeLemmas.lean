/-
  Lmd.Lemmas.WholeLemmas — from per-backend statements to whole-query statements about the
  optimised and the plain evaluation, filters no index can use, and the request parser on texts
  without regular-expression operators.  Helper lemmas for `Lmd.Props.C07Whole`.
-/
import Lmd.Props.C07
import Lmd.Lemmas.PageLemmas

namespace Lmd.Whole
open Lmd.Sort Lmd.Lemmas Lmd.Pages

/-! ## requests that agree in everything `dataQuery` reads except the filter -/

structure SameBut (a b : Request) : Prop where
  table : a.table = b.table
  sort : a.sort = b.sort
  backends : a.backends = b.backends
  limit : a.limit = b.limit
  offset : a.offset = b.offset
  outFmt : a.outFmt = b.outFmt
  authUser : a.authUser = b.authUser

theorem SameBut.refl (a : Request) : SameBut a a := ⟨rfl, rfl, rfl, rfl, rfl, rfl, rfl⟩

theorem availBackends_congr (ds : Dataset) (t : Table) {a b : Request}
    (h : a.backends = b.backends) : availBackends ds t a = availBackends ds t b := by
  simp only [availBackends, selectBackends, h]

/-- whole query from per-backend results -/
theorem dataQuery_of_gatherRows_eq (m m' : EvalMode) (s : Schema) (ds : Dataset) (t : Table)
    (a b : Request) (h : SameBut a b)
    (hg : ∀ bk ∈ availBackends ds t a,
      gatherRows m { schema := s, ds := ds, b := bk } t a =
        gatherRows m' { schema := s, ds := ds, b := bk } t b) :
    dataQuery m s ds t a = dataQuery m' s ds t b := by
  have hA := availBackends_congr ds t h.backends
  have hP : peerResults m s ds t a = peerResults m' s ds t b := by
    unfold peerResults
    rw [← hA]
    exact List.map_congr_left hg
  have hF : failedOf ds t a = failedOf ds t b := by
    simp only [failedOf, selectBackends, h.backends]
  rw [dataQuery_eq, dataQuery_eq]
  unfold rawPool collected totalOf window dirsOf
  rw [hP, hF, h.offset, h.limit, h.sort]

theorem peerCut_congr (m : EvalMode) {a b : Request} (h : SameBut a b) :
    peerCut m a = peerCut m b := by
  have hd : isDefaultSortOrder a = isDefaultSortOrder b := by
    unfold isDefaultSortOrder
    rw [h.sort, h.table]
  unfold peerCut resultLimit
  rw [h.limit, h.offset, hd]

/-- without index pre-selection, one backend's result depends on the filter only through which
    rows of the table it accepts -/
theorem gatherRows_congr_filter (m : EvalMode) (cx : Ctx) (t : Table) (a b : Request)
    (h : SameBut a b) (hidx : m.useIndex = false)
    (hf : ∀ r ∈ tableRows cx t,
      rowMatches m (mkView cx t r) a.filter = rowMatches m (mkView cx t r) b.filter) :
    gatherRows m cx t a = gatherRows m cx t b := by
  have hfull : fullHits m cx t a = fullHits m cx t b := by
    unfold fullHits matchingRows
    rw [hidx, h.sort, h.authUser]
    simp only [Bool.false_eq_true, if_false]
    congr 1
    apply List.filter_congr
    intro r hr
    rw [hf r hr]
  rw [gatherRows_eq, gatherRows_eq, peerCut_congr m h, hfull, h.outFmt]

/-! ## filters the index cannot use -/

/-- if no term of the filter list is usable, `TryFilterIndex` finds nothing -/
theorem tryIndex_noLeaf (f : Leaf → Option (List String)) :
    ∀ (fs : List Filter) (bon : Bool) (found : Nat), (∀ l ∈ leavesOfList fs, f l = none) →
      tryIndex f bon fs found = none ∨ tryIndex f bon fs found = some (found, [])
  | [], bon, found, _ => Or.inr (by simp [tryIndex])
  | .leaf l neg :: rest, bon, found, hl => by
    rw [tryIndex.eq_2]
    cases neg with
    | true => simp
    | false =>
      have hf : f l = none := hl l (by simp [leavesOfList, leavesOf])
      simp only [Bool.false_eq_true, if_false, hf]
      cases bon with
      | true => simp
      | false =>
        simp only [Bool.false_eq_true, if_false]
        exact tryIndex_noLeaf f rest false found (fun l' hm => hl l' (by simp [leavesOfList, hm]))
  | .grp isAnd fs' neg :: rest, bon, found, hl => by
    rw [tryIndex.eq_3]
    cases neg with
    | true => simp
    | false =>
      simp only [Bool.false_eq_true, if_false]
      have hg : tryIndexGroup f (!isAnd) fs' = none := by
        rw [tryIndexGroup.eq_1]
        rcases tryIndex_noLeaf f fs' (!isAnd) 0
          (fun l' hm => hl l' (by simp [leavesOfList, leavesOf, hm])) with h | h <;> simp [h]
      simp [hg]

theorem tryIndexGroup_noLeaf (f : Leaf → Option (List String)) (fs : List Filter) (bon : Bool)
    (hl : ∀ l ∈ leavesOfList fs, f l = none) : tryIndexGroup f bon fs = none := by
  rw [tryIndexGroup.eq_1]
  rcases tryIndex_noLeaf f fs bon 0 hl with h | h <;> simp [h]

/-- then `GetPreFilteredData` hands back the whole table -/
theorem preFiltered_noLeaf (cx : Ctx) (t : Table) (rows : List Row) (fs : List Filter)
    (hl : ∀ kind, ∀ l ∈ leavesOfList fs, leafIndexKeys cx kind t l = none) :
    preFiltered cx t rows fs = rows := by
  rw [preFiltered_eq]
  split
  · rfl
  · split
    · rfl
    · rename_i kind _
      rw [tryIndexGroup_noLeaf _ fs false (hl kind)]

theorem rowMatches_codeNoCut (v : View) (fs : List Filter) :
    rowMatches (noCut (EvalMode.code Quirks.current)) v fs = semList Quirks.current v fs :=
  C01.matchAll_eq_semList Quirks.current rfl v fs

theorem rowMatches_spec (v : View) (fs : List Filter) :
    rowMatches EvalMode.spec v fs = semList Quirks.current v fs := rfl

/-- the code path without the cut equals the specification on one backend when no filter term is
    usable for an index and the two filters accept the same rows -/
theorem gatherRows_code_eq_spec_noIndex (cx : Ctx) (t : Table) (a b : Request) (h : SameBut a b)
    (hl : ∀ kind, ∀ l ∈ leavesOfList a.filter, leafIndexKeys cx kind t l = none)
    (hf : ∀ r ∈ tableRows cx t,
      semList Quirks.current (mkView cx t r) a.filter = semList Quirks.current (mkView cx t r) b.filter) :
    gatherRows (noCut (EvalMode.code Quirks.current)) cx t a = gatherRows EvalMode.spec cx t b := by
  have hfull : fullHits (noCut (EvalMode.code Quirks.current)) cx t a = fullHits EvalMode.spec cx t b := by
    unfold fullHits matchingRows
    have e1 : (noCut (EvalMode.code Quirks.current)).useIndex = true := rfl
    have e2 : EvalMode.spec.useIndex = false := rfl
    rw [e1, e2, h.sort, h.authUser]
    simp only [Bool.false_eq_true, if_false, if_true]
    rw [preFiltered_noLeaf cx t _ a.filter hl]
    congr 1
    apply List.filter_congr
    intro r hr
    rw [rowMatches_codeNoCut, rowMatches_spec, hf r hr]
  have hc1 : peerCut (noCut (EvalMode.code Quirks.current)) a = none := rfl
  have hc2 : peerCut EvalMode.spec b = none := rfl
  rw [gatherRows_eq, gatherRows_eq, hc1, hc2, hfull]

/-! ## `optimizeFilterIndentation` keeps the terms -/

theorem leavesOfList_optimizeIndentation (n : Nat) (fs : List Filter) :
    leavesOfList (optimizeIndentation n fs) = leavesOfList fs := by
  induction n, fs using optimizeIndentation.induct with
  | case1 fs => simp [optimizeIndentation]
  | case2 fuel f fs ih =>
    rw [optimizeIndentation, ih]
    simp [leavesOfList, leavesOf]
  | case3 n fs h1 h2 => rw [optimizeIndentation.eq_3 n fs h1 h2]

end Lmd.Whole
