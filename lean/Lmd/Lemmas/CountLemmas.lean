/-
  Lmd.Lemmas.CountLemmas — update passes never change the number of objects of a table: every refresh
  function of the loop body leaves, in every table other than comments and downtimes, exactly as many
  rows as it found (`SameCounts`); hence so does every in-place evolution (`InPlace`) of a table set.
-/
import Lmd.Lemmas.ServedLemmas

namespace Lmd.CountL
open Lmd Lmd.PeerL Lmd.RunL Lmd.ServedL

/-- every table other than comments and downtimes has as many rows in `c'` as in `c` -/
structure SameCounts (c c' : Cache) : Prop where
  eq : ∀ t, t ≠ "comments" → t ≠ "downtimes" → (c'.get t).length = (c.get t).length

theorem SameCounts.refl (c : Cache) : SameCounts c c := ⟨fun _ _ _ => rfl⟩

theorem SameCounts.trans {a b c : Cache} (h1 : SameCounts a b) (h2 : SameCounts b c) : SameCounts a c :=
  ⟨fun t x y => (h2.eq t x y).trans (h1.eq t x y)⟩

theorem sameCounts_set {c : Cache} {t : String} {rows : List Row}
    (h : rows.length = (c.get t).length ∨ t = "comments" ∨ t = "downtimes") : SameCounts c (c.set t rows) := by
  constructor
  intro t' h1 h2
  by_cases e : t' = t
  · subst e
    rw [cache_get_set_same]
    rcases h with h | h | h
    · exact h
    · exact absurd h h1
    · exact absurd h h2
  · rw [cache_get_set_other _ _ _ _ e]

theorem rebuildLists_counts (c : Cache) : SameCounts c (rebuildLists c) := by
  constructor
  intro t _ _
  by_cases hh : t = "hosts"
  · subst hh
    rw [SyncLemmas.rebuildLists_hosts, List.length_map]
  · by_cases hs : t = "services"
    · subst hs
      rw [SyncLemmas.rebuildLists_services, List.length_map]
    · rw [rebuildLists_get_other _ _ hh hs]

theorem applyDelta_length {w : World} {flags : Nat} {tab : Table} {cached : List Row} {reply : List ReplyRow}
    {rows : List Row} (h : applyDelta w flags tab cached reply = some rows) : rows.length = cached.length := by
  rw [applyDelta_eq] at h
  cases ha : addressed tab cached reply with
  | none => rw [ha] at h; cases h
  | some upd =>
    rw [ha] at h
    simp only [Option.map_some, Option.some.injEq] at h
    rw [← h]
    exact foldl_deltaStep_length ..

theorem zip_map_length {α β γ : Type} (l : List α) (l' : List β) (f : α × β → γ) (h : l'.length = l.length) :
    ((l.zip l').map f).length = l.length := by
  rw [List.length_map, List.length_zip, h, Nat.min_self]

theorem counts_ite {c : Cache} (P : Prop) [Decidable P] (x y : DeltaResult)
    (hx : SameCounts c x.cache) (hy : ¬ P → SameCounts c y.cache) : SameCounts c (if P then x else y).cache := by
  split
  · exact hx
  · rename_i h; exact hy h

theorem updateFullTable_counts (w : World) (now : Int) (p : PeerSt) (b : BackendSt) (c : Cache) (t : String) :
    SameCounts c (updateFullTable w now p b c t).cache := by
  rw [updateFullTable_eq]
  refine counts_ite _ _ _ (.refl c) (fun _ => ?_)
  simp only []
  cases (query w now p b).2.2 with
  | some e => exact .refl c
  | none =>
    simp only []
    refine counts_ite _ _ _ (.refl c) (fun hlen => ?_)
    refine counts_ite _ _ _ (.refl c) (fun _ => ?_)
    refine sameCounts_set (.inl (zip_map_length _ _ _ ?_))
    simpa using hlen

theorem updateFullObjects_counts (w : World) (now : Int) (p : PeerSt) (b : BackendSt) (c : Cache) (t : String) :
    SameCounts c (updateFullObjects w now p b c t).cache := by
  unfold updateFullObjects
  simp only []
  split
  · exact .refl c
  · split
    · exact .refl c
    · split
      · exact .refl c
      · rename_i rows heq
        exact sameCounts_set (.inl (applyDelta_length heq))

theorem plainStep_counts (w : World) (now : Int) (c : Cache) (t : String) (window : Option (Int × Int)) (flags0 : Nat)
    (p : PeerSt) (b : BackendSt) (extra : List Int) (mark : Bool) :
    SameCounts c (plainStep w now c t window flags0 p b extra mark).cache := by
  unfold plainStep
  simp only []
  split
  · exact .refl c
  · split
    · exact .refl c
    · rename_i rows heq
      exact sameCounts_set (.inl (applyDelta_length heq))

theorem deltaTable_counts (w : World) (now : Int) (p : PeerSt) (b : BackendSt) (c : Cache) (t : String)
    (window : Option (Int × Int)) (threshold : Int) :
    SameCounts c (deltaTable w now p b c t window threshold).cache := by
  rw [deltaTable_eq]
  simp only []
  split
  · exact plainStep_counts ..
  · split
    · exact .refl c
    · split
      · exact .refl c
      · split <;> exact plainStep_counts ..

theorem winStep_counts (w : World) (now fromT : Int) (p : PeerSt) (b : BackendSt) (c : Cache) (t : String) :
    SameCounts c (winStep w now fromT p b c t).cache := by
  unfold winStep
  split <;> exact deltaTable_counts ..

theorem entries_counts (w : World) (now : Int) :
    ∀ (ts : List String) (p : PeerSt) (b : BackendSt) (c : Cache),
      (∀ t ∈ ts, t = "comments" ∨ t = "downtimes") → SameCounts c (updateDelta.entries w now ts p b c).cache
  | [], p, b, c, _ => by unfold updateDelta.entries; exact .refl c
  | t :: ts, p, b, c, hts => by
    have ht : t = "comments" ∨ t = "downtimes" := hts t (by simp)
    have hts' : ∀ t' ∈ ts, t' = "comments" ∨ t' = "downtimes" := fun t' h' => hts t' (List.mem_cons_of_mem _ h')
    have hset : ∀ rows, SameCounts c (rebuildLists (c.set t rows)) :=
      fun rows => (sameCounts_set (.inr ht)).trans (rebuildLists_counts _)
    unfold updateDelta.entries
    simp only []
    split
    · exact .refl c
    · split
      · exact entries_counts w now ts _ _ _ hts'
      · split
        · exact .refl c
        · split
          · split
            · exact sameCounts_set (.inr ht)
            · exact (hset _).trans (entries_counts w now ts _ _ _ hts')
          · exact (hset _).trans (entries_counts w now ts _ _ _ hts')

theorem updateDelta_counts (w : World) (now : Int) (p : PeerSt) (b : BackendSt) (c : Cache) (fromT : Int) :
    SameCounts c (updateDelta w now p b c fromT).cache := by
  rw [updateDelta_eq]
  simp only []
  have h0 := updateFullTable_counts w now p b c "status"
  generalize updateFullTable w now p b c "status" = r0 at h0 ⊢
  split
  · have h1 := h0.trans (winStep_counts w now fromT r0.p r0.b r0.cache "hosts")
    generalize winStep w now fromT r0.p r0.b r0.cache "hosts" = r1 at h1 ⊢
    split
    · have h2 := h1.trans (winStep_counts w now fromT r1.p r1.b r1.cache "services")
      generalize winStep w now fromT r1.p r1.b r1.cache "services" = r2 at h2 ⊢
      split
      · have h3 := h2.trans (entries_counts w now ["comments", "downtimes"] r2.p r2.b r2.cache (by simp))
        generalize updateDelta.entries w now ["comments", "downtimes"] r2.p r2.b r2.cache = r3 at h3 ⊢
        split
        · split
          · exact h3
          · exact h3
        · exact h3
      · exact h2
    · exact h1
  · exact h0

theorem periodOne_counts (w : World) (now : Int) (name : String) (p : PeerSt) (b : BackendSt) (c : Cache) (t : String) :
    SameCounts c (periodOne w now name p b c t).cache := by
  unfold periodOne
  simp only []
  split
  · exact .refl c
  · split
    · exact .refl c
    · rename_i rows heq
      exact sameCounts_set (.inl (applyDelta_length heq))

theorem periods_counts (w : World) (now : Int) :
    ∀ (ns : List String) (p : PeerSt) (b : BackendSt) (c : Cache),
      SameCounts c (updateTimeperiods.periods w now ns p b c).cache
  | [], p, b, c => by unfold updateTimeperiods.periods; exact .refl c
  | n :: ns, p, b, c => by
    rw [periods_cons]
    simp only []
    have h1 := periodOne_counts w now n p b c "hosts"
    generalize periodOne w now n p b c "hosts" = r1 at h1 ⊢
    split
    · have h2 := h1.trans (periodOne_counts w now n r1.p r1.b r1.cache "services")
      generalize periodOne w now n r1.p r1.b r1.cache "services" = r2 at h2 ⊢
      split
      · exact h2.trans (periods_counts w now ns _ _ _)
      · exact h2
    · exact h1

theorem updateTimeperiods_counts (w : World) (now : Int) (p : PeerSt) (b : BackendSt) (c : Cache) :
    SameCounts c (updateTimeperiods w now p b c).cache := by
  unfold updateTimeperiods
  simp only []
  split
  · exact .refl c
  · split
    · exact .refl c
    · rename_i hlen
      refine SameCounts.trans (sameCounts_set (.inl (zip_map_length _ _ _ ?_))) (periods_counts ..)
      simpa using hlen

theorem updateFullList_counts (w : World) (now : Int) :
    ∀ (ts : List String) (p : PeerSt) (b : BackendSt) (c : Cache), SameCounts c (updateFullList w now ts p b c).cache
  | [], p, b, c => by unfold updateFullList; exact .refl c
  | t :: ts, p, b, c => by
    unfold updateFullList
    simp only []
    have h1 : SameCounts c (if t == "timeperiods" then updateTimeperiods w now p b c
      else if t == "hosts" || t == "services" then updateFullObjects w now p b c t
      else updateFullTable w now p b c t).cache := by
      split
      · exact updateTimeperiods_counts ..
      · split
        · exact updateFullObjects_counts ..
        · exact updateFullTable_counts ..
    generalize (if t == "timeperiods" then updateTimeperiods w now p b c
      else if t == "hosts" || t == "services" then updateFullObjects w now p b c t
      else updateFullTable w now p b c t) = r at h1 ⊢
    split
    · exact h1.trans (updateFullList_counts w now ts _ _ _)
    · exact h1

/-- update passes never change the number of objects of a table -/
theorem inPlace_counts {w : World} {c c' : Cache} (h : InPlace w c c') : SameCounts c c' := by
  induction h with
  | refl => exact .refl _
  | delta now p b fromT _ ih => exact ih.trans (updateDelta_counts ..)
  | full now ts p b _ ih => exact ih.trans (updateFullList_counts ..)

/-- the complete set built from a backend has, in every table, as many rows as the backend has objects -/
theorem fresh_counts (w : World) (b : BackendSt) (t : String) (ht : t ∈ updateTables) :
    ((rebuildLists (freshCache w b)).get t).length = (b.rows t).length := by
  have h1 : ((rebuildLists (freshCache w b)).get t).length = ((freshCache w b).get t).length := by
    by_cases hh : t = "hosts"
    · subst hh
      rw [SyncLemmas.rebuildLists_hosts, List.length_map]
    · by_cases hs : t = "services"
      · subst hs
        rw [SyncLemmas.rebuildLists_services, List.length_map]
      · rw [rebuildLists_get_other _ _ hh hs]
  rw [h1, freshCache_get w b t ht, (SyncLemmas.syncTable_perm_rows _ _).length_eq, List.length_map]

end Lmd.CountL
