/-
  Lmd.Lemmas.MembersLemmas — helper lemmas for C02Members (group member states):
  the "last row with that name" lookup of the virtual columns `members_with_state`,
  `services_with_state`, `services_with_info`, closed forms of `virtVal` for these columns, and the
  uniqueness of host names / service keys in a table stored by `syncTable`.
-/
import Lmd.Lemmas.SyncLemmas

namespace Lmd.MembersLemmas
open Lean (Json JsonNumber)
open Lmd.SyncLemmas

/-! ## 1. the lookup "last element that satisfies `p`" -/

/-- the last element of `l` that satisfies `p` (Go: an index map filled in row order) -/
def findLast {α : Type} (p : α → Bool) (l : List α) : Option α := l.reverse.find? p

theorem findLast_split {α : Type} (p : α → Bool) (pre post : List α) (h : α)
    (hp : p h = true) (hpost : ∀ x ∈ post, p x = false) :
    findLast p (pre ++ h :: post) = some h := by
  unfold findLast
  rw [List.reverse_append, List.reverse_cons, List.append_assoc, List.find?_append, List.find?_append]
  have hn : post.reverse.find? p = none := by
    rw [List.find?_eq_none]
    intro x hx
    rw [hpost x (List.mem_reverse.mp hx)]
    exact Bool.false_ne_true
  rw [hn]
  simp [hp]

theorem findLast_none {α : Type} (p : α → Bool) (l : List α) (h : ∀ x ∈ l, p x = false) :
    findLast p l = none := by
  unfold findLast
  rw [List.find?_eq_none]
  intro x hx
  rw [h x (List.mem_reverse.mp hx)]
  exact Bool.false_ne_true

/-- when at most one element satisfies `p`, the lookup finds exactly that element -/
theorem findLast_unique {α : Type} (p : α → Bool) (l : List α) (h : α)
    (hu : l.Pairwise (fun a b => ¬ (p a = true ∧ p b = true))) (hm : h ∈ l) (hp : p h = true) :
    findLast p l = some h := by
  obtain ⟨pre, post, rfl⟩ := List.append_of_mem hm
  apply findLast_split p pre post h hp
  intro x hx
  have h2 := (List.pairwise_cons.mp (List.pairwise_append.mp hu).2.1).1 x hx
  cases hpx : p x
  · rfl
  · exact absurd ⟨hp, hpx⟩ h2

/-- what the lookup finds is an element of the list that satisfies `p` -/
theorem findLast_some {α : Type} {p : α → Bool} {l : List α} {h : α} (hf : findLast p l = some h) :
    h ∈ l ∧ p h = true := by
  unfold findLast at hf
  exact ⟨List.mem_reverse.mp (List.mem_of_find?_eq_some hf), List.find?_some hf⟩

/-- the lookup result is some element, found in the list, or nothing when no element matches -/
theorem findLast_cases {α : Type} (p : α → Bool) (l : List α) :
    (findLast p l = none ∧ ∀ x ∈ l, p x = false) ∨
    (∃ pre h post, l = pre ++ h :: post ∧ p h = true ∧ (∀ x ∈ post, p x = false) ∧ findLast p l = some h) := by
  cases hf : findLast p l with
  | none =>
    refine Or.inl ⟨rfl, fun x hx => ?_⟩
    unfold findLast at hf
    rw [List.find?_eq_none] at hf
    have := hf x (List.mem_reverse.mpr hx)
    simpa using this
  | some h =>
    refine Or.inr ?_
    unfold findLast at hf
    obtain ⟨hp, as, bs, has, hbs⟩ := List.find?_eq_some_iff_append.mp hf
    refine ⟨bs.reverse, h, as.reverse, ?_, hp, ?_, rfl⟩
    · have := congrArg List.reverse has
      rw [List.reverse_reverse] at this
      rw [this]
      simp
    · intro x hx
      have := hbs x (List.mem_reverse.mp hx)
      simpa using this

/-! ## 2. the entries of the three virtual columns -/

/-- an integer as the JSON number lmd renders for `state` / `has_been_checked` -/
def numJ (x : Int) : Json := Json.num ⟨x, 0⟩

/-- "the row is the host called `n`" -/
def isHost (ht : Table) (n : String) (h : Row) : Bool := h.str ht "name" == n

/-- "the row is the service `d` of host `hn`" -/
def isService (st : Table) (hn d : String) (x : Row) : Bool :=
  x.str st "host_name" == hn && x.str st "description" == d

/-- the entry `members_with_state` of a host group reports for member `n` -/
def hostEntry (ht : Table) (hosts : List Row) (n : String) : Json :=
  match findLast (isHost ht n) hosts with
  | some h => Json.arr #[.str n, numJ (h.int "state"), numJ (h.int "has_been_checked")]
  | none => Json.null

/-- the entry `members_with_state` of a service group reports for member `(hn, d)` -/
def svcMemberEntry (st : Table) (svcs : List Row) (m : String × String) : Json :=
  match findLast (isService st m.1 m.2) svcs with
  | some x => Json.arr #[.str m.1, .str m.2, numJ (x.int "state"), numJ (x.int "has_been_checked")]
  | none => Json.null

/-- the entry `services_with_state` (`info = false`) / `services_with_info` (`info = true`) of a host
    called `hn` reports for its listed service `d` -/
def hostSvcEntry (info : Bool) (st : Table) (svcs : List Row) (hn d : String) : Json :=
  match findLast (isService st hn d) svcs with
  | some x =>
    if info then
      Json.arr #[.str d, numJ (x.int "state"), numJ (x.int "has_been_checked"), .str (x.str st "plugin_output")]
    else Json.arr #[.str d, numJ (x.int "state"), numJ (x.int "has_been_checked")]
  | none => Json.null

/-- the service member list of a servicegroups row -/
def svcMembers (r : Row) : List (String × String) :=
  match r.cell? "members" with | some (.ml ms) => ms | _ => []

/-! ## 3. closed forms of `virtVal` -/

theorem virtVal_hostgroup_members (cx : Ctx) (t : Table) (r : Row) (c : Column)
    (hc : c.name = "members_with_state") (ht : t.name = "hostgroups") :
    virtVal cx t r c =
      some (.jl ((r.strList "members").map (hostEntry (cx.table "hosts") (cx.b.rows "hosts")))) := by
  simp only [virtVal, hc, ht]
  rfl

theorem virtVal_servicegroup_members (cx : Ctx) (t : Table) (r : Row) (c : Column)
    (hc : c.name = "members_with_state") (ht : t.name = "servicegroups") :
    virtVal cx t r c =
      some (.jl ((svcMembers r).map (svcMemberEntry (cx.table "services") (cx.b.rows "services")))) := by
  simp only [virtVal, hc, ht]
  rfl

theorem virtVal_services_with_state (cx : Ctx) (t : Table) (r : Row) (c : Column)
    (hc : c.name = "services_with_state") (ht : t.name = "hosts") :
    virtVal cx t r c =
      some (.jl ((r.strList "services").map
        (hostSvcEntry false (cx.table "services") (cx.b.rows "services") (r.str t "name")))) := by
  simp only [virtVal, hc, ht]
  rfl

theorem virtVal_services_with_info (cx : Ctx) (t : Table) (r : Row) (c : Column)
    (hc : c.name = "services_with_info") (ht : t.name = "hosts") :
    virtVal cx t r c =
      some (.jl ((r.strList "services").map
        (hostSvcEntry true (cx.table "services") (cx.b.rows "services") (r.str t "name")))) := by
  simp only [virtVal, hc, ht]
  rfl

/-- a list built by `map`: length and entry `k` -/
theorem map_shape {α β : Type} (f : α → β) (l : List α) :
    (l.map f).length = l.length ∧ ∀ (k : Nat) (a : α), l[k]? = some a → (l.map f)[k]? = some (f a) := by
  refine ⟨List.length_map f, fun k a hk => ?_⟩
  rw [List.getElem?_map, hk]
  rfl

/-! ## 4. the three cases of an entry -/

theorem hostEntry_last (ht : Table) (pre post : List Row) (h : Row) (n : String)
    (hn : h.str ht "name" = n) (hpost : ∀ x ∈ post, x.str ht "name" ≠ n) :
    hostEntry ht (pre ++ h :: post) n =
      Json.arr #[.str n, numJ (h.int "state"), numJ (h.int "has_been_checked")] := by
  unfold hostEntry
  rw [findLast_split (isHost ht n) pre post h (by simp [isHost, hn])
    (fun x hx => by simpa [isHost] using hpost x hx)]

theorem hostEntry_missing (ht : Table) (hosts : List Row) (n : String)
    (hno : ∀ x ∈ hosts, x.str ht "name" ≠ n) : hostEntry ht hosts n = Json.null := by
  unfold hostEntry
  rw [findLast_none (isHost ht n) hosts (fun x hx => by simpa [isHost] using hno x hx)]

theorem hostEntry_unique (ht : Table) (hosts : List Row) (h : Row) (n : String)
    (hu : hosts.Pairwise (fun a b => a.str ht "name" ≠ b.str ht "name"))
    (hm : h ∈ hosts) (hn : h.str ht "name" = n) :
    hostEntry ht hosts n =
      Json.arr #[.str n, numJ (h.int "state"), numJ (h.int "has_been_checked")] := by
  unfold hostEntry
  rw [findLast_unique (isHost ht n) hosts h ?_ hm (by simp [isHost, hn])]
  refine hu.imp ?_
  intro a b hab ⟨ha, hb⟩
  simp only [isHost, beq_iff_eq] at ha hb
  exact hab (ha.trans hb.symm)

/-- an entry is null or built from a row of the very list that was searched -/
theorem hostEntry_cases (ht : Table) (hosts : List Row) (n : String) :
    (hostEntry ht hosts n = Json.null ∧ ∀ x ∈ hosts, x.str ht "name" ≠ n) ∨
    (∃ h ∈ hosts, h.str ht "name" = n ∧
      hostEntry ht hosts n = Json.arr #[.str n, numJ (h.int "state"), numJ (h.int "has_been_checked")]) := by
  unfold hostEntry
  rcases findLast_cases (isHost ht n) hosts with ⟨hf, hall⟩ | ⟨pre, h, post, hl, hp, _, hf⟩
  · exact Or.inl ⟨by rw [hf], fun x hx => by simpa [isHost] using hall x hx⟩
  · refine Or.inr ⟨h, by rw [hl]; simp, by simpa [isHost] using hp, by rw [hf]⟩

theorem isService_true {st : Table} {hn d : String} {x : Row} :
    isService st hn d x = true ↔ x.str st "host_name" = hn ∧ x.str st "description" = d := by
  simp [isService]

theorem isService_false {st : Table} {hn d : String} {x : Row} :
    isService st hn d x = false ↔ ¬ (x.str st "host_name" = hn ∧ x.str st "description" = d) := by
  rw [← isService_true]; simp

/-- no two rows of the list are the same service (same host name and same description) -/
def UniqueServices (st : Table) (svcs : List Row) : Prop :=
  svcs.Pairwise (fun a b => ¬ (a.str st "host_name" = b.str st "host_name" ∧
    a.str st "description" = b.str st "description"))

theorem UniqueServices.isService {st : Table} {svcs : List Row} (hu : UniqueServices st svcs)
    (hn d : String) :
    svcs.Pairwise (fun a b => ¬ (isService st hn d a = true ∧ isService st hn d b = true)) := by
  refine hu.imp ?_
  intro a b hab ⟨ha, hb⟩
  rw [isService_true] at ha hb
  exact hab ⟨ha.1.trans hb.1.symm, ha.2.trans hb.2.symm⟩

theorem svcMemberEntry_last (st : Table) (pre post : List Row) (x : Row) (hn d : String)
    (hx : x.str st "host_name" = hn ∧ x.str st "description" = d)
    (hpost : ∀ y ∈ post, ¬ (y.str st "host_name" = hn ∧ y.str st "description" = d)) :
    svcMemberEntry st (pre ++ x :: post) (hn, d) =
      Json.arr #[.str hn, .str d, numJ (x.int "state"), numJ (x.int "has_been_checked")] := by
  unfold svcMemberEntry
  rw [findLast_split (isService st hn d) pre post x (isService_true.mpr hx)
    (fun y hy => isService_false.mpr (hpost y hy))]

theorem svcMemberEntry_missing (st : Table) (svcs : List Row) (hn d : String)
    (hno : ∀ y ∈ svcs, ¬ (y.str st "host_name" = hn ∧ y.str st "description" = d)) :
    svcMemberEntry st svcs (hn, d) = Json.null := by
  unfold svcMemberEntry
  rw [findLast_none (isService st hn d) svcs (fun y hy => isService_false.mpr (hno y hy))]

theorem svcMemberEntry_unique (st : Table) (svcs : List Row) (x : Row) (hn d : String)
    (hu : UniqueServices st svcs) (hm : x ∈ svcs)
    (hx : x.str st "host_name" = hn ∧ x.str st "description" = d) :
    svcMemberEntry st svcs (hn, d) =
      Json.arr #[.str hn, .str d, numJ (x.int "state"), numJ (x.int "has_been_checked")] := by
  unfold svcMemberEntry
  rw [findLast_unique (isService st hn d) svcs x (hu.isService hn d) hm (isService_true.mpr hx)]

theorem svcMemberEntry_cases (st : Table) (svcs : List Row) (hn d : String) :
    (svcMemberEntry st svcs (hn, d) = Json.null ∧
      ∀ y ∈ svcs, ¬ (y.str st "host_name" = hn ∧ y.str st "description" = d)) ∨
    (∃ x ∈ svcs, (x.str st "host_name" = hn ∧ x.str st "description" = d) ∧
      svcMemberEntry st svcs (hn, d) =
        Json.arr #[.str hn, .str d, numJ (x.int "state"), numJ (x.int "has_been_checked")]) := by
  unfold svcMemberEntry
  rcases findLast_cases (isService st hn d) svcs with ⟨hf, hall⟩ | ⟨pre, x, post, hl, hp, _, hf⟩
  · exact Or.inl ⟨by rw [hf], fun y hy => isService_false.mp (hall y hy)⟩
  · exact Or.inr ⟨x, by rw [hl]; simp, isService_true.mp hp, by rw [hf]⟩

/-- the entry of `services_with_state` / `services_with_info` built from the service row `x` -/
def hostSvcArr (info : Bool) (st : Table) (d : String) (x : Row) : Json :=
  if info then
    Json.arr #[.str d, numJ (x.int "state"), numJ (x.int "has_been_checked"), .str (x.str st "plugin_output")]
  else Json.arr #[.str d, numJ (x.int "state"), numJ (x.int "has_been_checked")]

theorem hostSvcEntry_last (info : Bool) (st : Table) (pre post : List Row) (x : Row) (hn d : String)
    (hx : x.str st "host_name" = hn ∧ x.str st "description" = d)
    (hpost : ∀ y ∈ post, ¬ (y.str st "host_name" = hn ∧ y.str st "description" = d)) :
    hostSvcEntry info st (pre ++ x :: post) hn d = hostSvcArr info st d x := by
  unfold hostSvcEntry
  rw [findLast_split (isService st hn d) pre post x (isService_true.mpr hx)
    (fun y hy => isService_false.mpr (hpost y hy))]
  rfl

theorem hostSvcEntry_missing (info : Bool) (st : Table) (svcs : List Row) (hn d : String)
    (hno : ∀ y ∈ svcs, ¬ (y.str st "host_name" = hn ∧ y.str st "description" = d)) :
    hostSvcEntry info st svcs hn d = Json.null := by
  unfold hostSvcEntry
  rw [findLast_none (isService st hn d) svcs (fun y hy => isService_false.mpr (hno y hy))]

theorem hostSvcEntry_unique (info : Bool) (st : Table) (svcs : List Row) (x : Row) (hn d : String)
    (hu : UniqueServices st svcs) (hm : x ∈ svcs)
    (hx : x.str st "host_name" = hn ∧ x.str st "description" = d) :
    hostSvcEntry info st svcs hn d = hostSvcArr info st d x := by
  unfold hostSvcEntry
  rw [findLast_unique (isService st hn d) svcs x (hu.isService hn d) hm (isService_true.mpr hx)]
  rfl

theorem hostSvcEntry_cases (info : Bool) (st : Table) (svcs : List Row) (hn d : String) :
    (hostSvcEntry info st svcs hn d = Json.null ∧
      ∀ y ∈ svcs, ¬ (y.str st "host_name" = hn ∧ y.str st "description" = d)) ∨
    (∃ x ∈ svcs, (x.str st "host_name" = hn ∧ x.str st "description" = d) ∧
      hostSvcEntry info st svcs hn d = hostSvcArr info st d x) := by
  unfold hostSvcEntry
  rcases findLast_cases (isService st hn d) svcs with ⟨hf, hall⟩ | ⟨pre, x, post, hl, hp, _, hf⟩
  · exact Or.inl ⟨by rw [hf], fun y hy => isService_false.mp (hall y hy)⟩
  · exact Or.inr ⟨x, by rw [hl]; simp, isService_true.mp hp, by rw [hf]; rfl⟩

/-! ## 5. names are unique in a table stored by `syncTable` -/

/-- the key part of a text column is the text `Row.str` reads -/
theorem keyPartOf_str {t : Table} {n : String} {c : Column} (hcol : t.col? n = some c)
    (hty : c.dtype = .str) (r : Row) : keyPartOf t r n = .str (r.str t n) := by
  unfold keyPartOf Row.str
  rw [hcol]
  simp only [hty]

theorem cmpKeyPart_self_str (s : String) : cmpKeyPart (.str s) (.str s) = .eq := by
  simp [cmpKeyPart]

/-- a relation that holds for all pairs of a list in list order and is symmetric also holds for all
    pairs of every permutation of the list -/
theorem pairwise_perm_symm {α : Type} {R : α → α → Prop} (hs : ∀ a b, R a b → R b a)
    {l₁ l₂ : List α} (hp : l₁.Perm l₂) (h : l₁.Pairwise R) : l₂.Pairwise R :=
  (hp.pairwise_iff (fun {a b} => hs a b)).mp h

/-- Host names: if the table's primary key is the text column `name` and the backend's reply has
    pairwise different keys, no two stored rows have the same name. -/
theorem syncTable_unique_names (ht : Table) (reply : List ReplyRow) (c : Column)
    (hpk : ht.primaryKey = ["name"]) (hcol : ht.col? "name" = some c) (hty : c.dtype = .str)
    (hd : DistinctKeys ht reply) :
    (syncTable ht reply).Pairwise (fun a b => a.str ht "name" ≠ b.str ht "name") := by
  have h1 : (reply.map (coerceRow ht)).Pairwise (fun a b => a.str ht "name" ≠ b.str ht "name") := by
    refine List.Pairwise.imp ?_ hd
    intro a b hab he
    apply hab
    simp only [Row.sortKey, hpk, List.map_cons, List.map_nil, keyPartOf_str hcol hty, he, cmpKeyParts,
      cmpKeyPart_self_str]
  exact pairwise_perm_symm (fun a b h e => h e.symm) (syncTable_perm_rows ht reply).symm h1

/-- Services: if the table's primary key is the pair of text columns `host_name`, `description` and
    the backend's reply has pairwise different keys, no two stored rows are the same service. -/
theorem syncTable_unique_services (st : Table) (reply : List ReplyRow) (c₁ c₂ : Column)
    (hpk : st.primaryKey = ["host_name", "description"])
    (hcol₁ : st.col? "host_name" = some c₁) (hty₁ : c₁.dtype = .str)
    (hcol₂ : st.col? "description" = some c₂) (hty₂ : c₂.dtype = .str)
    (hd : DistinctKeys st reply) :
    UniqueServices st (syncTable st reply) := by
  have h1 : UniqueServices st (reply.map (coerceRow st)) := by
    refine List.Pairwise.imp ?_ hd
    intro a b hab he
    apply hab
    simp only [Row.sortKey, hpk, List.map_cons, List.map_nil, keyPartOf_str hcol₁ hty₁,
      keyPartOf_str hcol₂ hty₂, he.1, he.2, cmpKeyParts, cmpKeyPart_self_str]
  exact pairwise_perm_symm (fun a b h e => h ⟨e.1.symm, e.2.symm⟩) (syncTable_perm_rows st reply).symm h1

end Lmd.MembersLemmas
