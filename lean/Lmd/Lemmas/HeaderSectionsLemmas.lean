/-
  Lmd.Lemmas.HeaderSectionsLemmas — the structured sections of a printed request (filter trees,
  stats entries, sort fields) as lines acting on the whole parser state (C17): what
  `Lmd.Lemmas.Print` proves about the filter stack alone is lifted to the complete `Request`
  record, the same machine is run on the stats stack, and the `Sort:` lines are read back.
-/
import Lmd.Lemmas.HeaderLinesLemmas
import Lmd.Props.C17Sort

namespace Lmd.Headers
open Lmd Lmd.C17 Lmd.SortPrint

/-! ## helpers -/

theorem ok_of_toOption {α} {x : PM α} {a : α} (h : x.toOption = some a) : x = .ok a := by
  cases x with
  | error e => simp [Except.toOption] at h
  | ok b => simp [Except.toOption] at h; rw [h]

def tokIsLeaf : Tok → Bool
  | .leaf _ => true
  | _ => false

/-- number of leaf lines among the tokens (each counts as one filter line) -/
def leafCount (ts : List Tok) : Nat := ts.countP tokIsLeaf

theorem leafCount_nil : leafCount [] = 0 := rfl

theorem leafCount_cons (tok : Tok) (ts : List Tok) :
    leafCount (tok :: ts) = (if tokIsLeaf tok then 1 else 0) + leafCount ts := by
  simp only [leafCount, List.countP_cons]
  omega

theorem leafCount_append (a b : List Tok) : leafCount (a ++ b) = leafCount a + leafCount b := by
  simp [leafCount, List.countP_append]

theorem goodLine_grp (a : Bool) (n : Nat) :
    GoodLine ((if a then "And: " else "Or: ") ++ toString n) := by
  cases a
  · exact goodLine_hdr (k := 'O') (ks := "r: ".toList) (by decide) (by decide) (by decide)
      (goodValue_toString n)
  · exact goodLine_hdr (k := 'A') (ks := "nd: ".toList) (by decide) (by decide) (by decide)
      (goodValue_toString n)

theorem goodLine_negate : GoodLine "Negate:" := ⟨by decide, by decide, by decide⟩

/-! ## the filter section -/

/-- `line` is the `Filter:` line lmd prints for the leaf `l`, it is a proper line, and the parser
    reads it back as the unmarked leaf `l` on top of the filter stack -/
def FilterLeafLine (o : ParseOpts) (t : Table) (l : Leaf) (line : String) : Prop :=
  line ++ "\n" = l.printLine "Filter" ∧ GoodLine line ∧
    ∀ r : Request, parseHeaderLine o t r line
      = .ok { r with filter := r.filter ++ [.leaf l false], numFilter := r.numFilter + 1 }

/-- the lines of a token list act on the whole parser state as the token machine `run` acts on
    the filter stack; every leaf line counts as one filter line -/
theorem tokens_act (o : ParseOpts) (t : Table) (ll : Leaf → String) (ts : List Tok)
    (h : ∀ l, Tok.leaf l ∈ ts → FilterLeafLine o t l (ll l))
    (r : Request) (fs : List Filter) (hrun : run o.q ts r.filter = some fs) (rest : List String) :
    parseHeaderLines o t r (ts.map (tokHeader ll) ++ rest)
      = parseHeaderLines o t { r with filter := fs, numFilter := r.numFilter + leafCount ts } rest := by
  induction ts generalizing r with
  | nil =>
    simp only [run, Option.some.injEq] at hrun
    subst hrun
    simp [leafCount_nil]
  | cons tok ts ih =>
    simp only [run] at hrun
    cases hs : step o.q r.filter tok with
    | none => rw [hs] at hrun; cases hrun
    | some st' =>
      rw [hs] at hrun
      have ih' := ih (fun l hl => h l (List.mem_cons_of_mem _ hl))
      cases tok with
      | leaf l =>
        obtain ⟨_, g, hp⟩ := h l List.mem_cons_self
        simp only [List.map_cons, tokHeader, List.cons_append]
        rw [parseHeaderLines_ok g (hp r)]
        have hst : st' = r.filter ++ [.leaf l false] := by simpa [step] using hs.symm
        rw [ih' { r with filter := r.filter ++ [.leaf l false], numFilter := r.numFilter + 1 }
          (by rw [← hst]; exact hrun)]
        congr 1
        simp [leafCount_cons, tokIsLeaf, Nat.add_assoc]
      | grp a n =>
        simp only [List.map_cons, tokHeader, List.cons_append]
        have hg : groupOp a (toString n) r.filter = .ok st' :=
          ok_of_toOption (by rw [groupOp_eq_step o.q a _ n r.filter (atoi_toString n)]; exact hs)
        have hp : parseHeaderLine o t r ((if a then "And: " else "Or: ") ++ toString n)
            = .ok { r with filter := st' } := by
          cases a
          · simp only [Bool.false_eq_true, if_false, headerLine_or, hg]; rfl
          · simp only [if_true, headerLine_and, hg]; rfl
        rw [parseHeaderLines_ok (goodLine_grp a n) hp, ih' { r with filter := st' } hrun]
        rfl
      | neg =>
        simp only [List.map_cons, tokHeader, List.cons_append]
        have hg : negateTop o.q r.filter = .ok st' :=
          ok_of_toOption (by rw [negateTop_eq_step]; exact hs)
        have hp : parseHeaderLine o t r "Negate:" = .ok { r with filter := st' } := by
          rw [headerLine_negate, hg]; rfl
        rw [parseHeaderLines_ok goodLine_negate hp, ih' { r with filter := st' } hrun]
        rfl

/-- the filter section of a printed request, line by line -/
theorem filter_text (ll : Leaf → String) (fs : List Filter) (wf : WellFormedList fs)
    (h : ∀ l, Tok.leaf l ∈ emitList fs → ll l ++ "\n" = l.printLine "Filter") :
    Filter.printList false fs = unlines ((emitList fs).map (tokHeader ll)) := by
  rw [printList_emit false fs wf, lines, unlines, List.map_map]
  congr 1
  apply List.map_congr_left
  intro tok htok
  exact (tokHeader_line ll tok (fun l e => h l (e ▸ htok))).symm

/-- the lines of the filter section rebuild the filter stack of the request on top of the
    current one and count its leaf lines -/
theorem filter_acts (o : ParseOpts) (t : Table) (hq : o.q.negOr = false) (ll : Leaf → String)
    (fs : List Filter) (wf : WellFormedList fs)
    (h : ∀ l, Tok.leaf l ∈ emitList fs → FilterLeafLine o t l (ll l)) :
    SectionActs o t ((emitList fs).map (tokHeader ll)) fun r =>
      { r with filter := r.filter ++ fs, numFilter := r.numFilter + leafCount (emitList fs) } := by
  refine ⟨?_, fun r rest => tokens_act o t ll _ h r _ (run_emitList o.q hq fs wf r.filter) rest⟩
  intro x hx
  obtain ⟨tok, htok, rfl⟩ := List.mem_map.mp hx
  cases tok with
  | leaf l => exact (h l htok).2.1.nonl
  | grp a n => exact (goodLine_grp a n).nonl
  | neg => exact goodLine_negate.nonl

/-! ## the sort section -/

theorem headerLine_sort (o : ParseOpts) (t : Table) (req : Request) (v : String) :
    parseHeaderLine o t req ("Sort: " ++ v)
      = (parseSort (trimLeftSpaces (" " ++ v))).map (fun sf => { req with sort := req.sort ++ [sf] }) := by
  unfold parseHeaderLine
  have e0 : ("Sort: " : String) = "Sort" ++ ": " := by decide
  rw [e0, cut_hdr _ _ (by decide)]
  have e : goLower "Sort" = "sort" := by decide
  simp only [e]
  cases parseSort (trimLeftSpaces (" " ++ v)) <;> rfl

/-- the column name of a sort field the parser built contains no blank -/
theorem parsed_name_noBlank (v : String) (sf : SortField) (h : parseSort v = .ok sf) :
    ' ' ∉ sf.name.toList := by
  have hv : v ≠ "" := by
    intro e; rw [e, parseSort_empty] at h; cases h
  rcases splitN3_spec v with ⟨hn, hs⟩ | ⟨a, b, ha, _, hs⟩ | ⟨a, b, c, ha, _, hs⟩
  · rw [parseSort_one hv hs] at h
    cases h
    exact goLower_noBlank hn
  · rw [parseSort_two hv hs] at h
    obtain ⟨d, _, rfl⟩ := map_ok h
    exact goLower_noBlank ha
  · rw [parseSort_three hv hs] at h
    by_cases hc : a = "custom_variables" ∨ a = "host_custom_variables"
    · rw [if_pos hc] at h
      obtain ⟨d, _, rfl⟩ := map_ok h
      exact goLower_noBlank ha
    · rw [if_neg hc] at h
      cases h

/-- a sort field of a request that came out of the parser (`parsed`), with its column resolved in
    the table (`resolved`, `known`), whose texts fit on a line -/
structure SortOk (t : Table) (sf : SortField) : Prop where
  parsed : ∃ v, parseSort v = .ok { sf with col := none }
  resolved : sf.col = t.col? sf.name
  known : sf.col.isSome = true
  nameNe : sf.name ≠ ""
  nameNl : '\n' ∉ sf.name.toList
  argsNl : '\n' ∉ sf.args.toList

theorem goodValue_printSort {t : Table} {sf : SortField} (ok : SortOk t sf) :
    GoodValue (printSort sf) := by
  obtain ⟨v, hv⟩ := ok.parsed
  have hnb : ' ' ∉ sf.name.toList := parsed_name_noBlank v { sf with col := none } hv
  have hne := toList_ne_nil ok.nameNe
  have etl : (printSort sf).toList
      = sf.name.toList ++ ((if sf.args != "" then " " ++ sf.args else "").toList
          ++ (' ' :: (if sf.desc then "desc" else "asc").toList)) := by
    simp [printSort, String.toList_append]
  refine ⟨?_, ?_, ?_, ?_⟩
  · intro e
    have := congrArg String.toList e
    rw [etl] at this
    simp at this
  · rw [etl]
    intro m
    rcases List.mem_append.mp m with m | m
    · exact ok.nameNl m
    · rcases List.mem_append.mp m with m | m
      · by_cases ha : sf.args = ""
        · simp [ha] at m
        · have hb : (sf.args != "") = true := by simpa using ha
          simp only [hb, if_true, String.toList_append, List.mem_append] at m
          rcases m with m | m
          · exact absurd m (by decide)
          · exact ok.argsNl m
      · rcases List.mem_cons.mp m with e | m
        · exact absurd e (by decide)
        · cases hd : sf.desc
          · rw [hd] at m; exact absurd m (by decide)
          · rw [hd] at m; exact absurd m (by decide)
  · intro c hc e
    rw [etl, List.head?_append] at hc
    cases hh : sf.name.toList.head? with
    | none => exact absurd (List.head?_eq_none_iff.mp hh) hne
    | some d =>
      rw [hh] at hc
      simp at hc
      rw [← hc] at e
      rw [e] at hh
      exact hnb (mem_of_head? hh)
  · intro c hc
    rw [etl, ← List.append_assoc, List.getLast?_append] at hc
    have : (' ' :: (if sf.desc then "desc" else "asc" : String).toList).getLast? = some 'c' := by
      cases sf.desc <;> decide
    rw [this] at hc
    simp at hc
    rw [← hc]
    decide

theorem sortText_eq (sf : SortField) : sortText sf = "Sort: " ++ printSort sf ++ "\n" := by
  simp only [sortText, printSort, String.append_assoc]

/-- the sort section of a printed request, line by line -/
theorem sort_text (sorts : List SortField) :
    String.join (sorts.map sortText) = unlines (sorts.map fun sf => "Sort: " ++ printSort sf) := by
  rw [unlines, List.map_map]
  refine congrArg String.join ?_
  apply List.map_congr_left
  intro sf _
  exact sortText_eq sf

/-- the `Sort:` lines of a printed request append the fields the parser had built in the first
    place (columns not yet resolved) -/
theorem sort_acts (o : ParseOpts) (t : Table) (sorts : List SortField)
    (h : ∀ sf ∈ sorts, SortOk t sf) :
    SectionActs o t (sorts.map fun sf => "Sort: " ++ printSort sf) fun r =>
      { r with sort := r.sort ++ sorts.map fun sf => { sf with col := none } } := by
  induction sorts with
  | nil => exact sectionActs_nil o t _ (fun r => by cases r; simp)
  | cons sf rest ih =>
    have ok := h sf List.mem_cons_self
    obtain ⟨ih1, ih2⟩ := ih (fun x hx => h x (List.mem_cons_of_mem _ hx))
    have gv := goodValue_printSort ok
    have g := goodLine_sort gv
    obtain ⟨v, hv⟩ := ok.parsed
    have hrt : parseSort (printSort sf) = .ok { sf with col := none } := sort_roundtrip v _ hv
    have hp : ∀ r : Request, parseHeaderLine o t r ("Sort: " ++ printSort sf)
        = .ok { r with sort := r.sort ++ [{ sf with col := none }] } := by
      intro r
      rw [headerLine_sort, trimLeft_blank gv.head, hrt]
      rfl
    refine ⟨?_, ?_⟩
    · intro x hx
      simp only [List.map_cons, List.mem_cons] at hx
      rcases hx with e | hx
      · rw [e]; exact g.nonl
      · exact ih1 x hx
    · intro r more
      simp only [List.map_cons, List.cons_append]
      rw [parseHeaderLines_ok g (hp r), ih2]
      congr 1
      simp

/-- resolving the columns again gives the sort fields of the request back -/
theorem sort_resolve (t : Table) (sorts : List SortField) (h : ∀ sf ∈ sorts, SortOk t sf) :
    (sorts.map fun sf => { sf with col := none }).map (fun sf => { sf with col := t.col? sf.name })
      = sorts := by
  rw [List.map_map]
  conv => rhs; rw [← List.map_id sorts]
  apply List.map_congr_left
  intro sf hsf
  have := (h sf hsf).resolved
  cases sf
  simp_all

/-! ## the stats section -/

theorem headerLine_statsGrp (o : ParseOpts) (t : Table) (req : Request) (a : Bool) (n : Nat) :
    parseHeaderLine o t req ((if a then "StatsAnd: " else "StatsOr: ") ++ toString n)
      = (statsGroupOp o t a (toString n) req.stats).map (fun st => { req with stats := st }) := by
  cases a
  · simp only [Bool.false_eq_true, if_false]
    unfold parseHeaderLine
    have e0 : ("StatsOr: " : String) = "StatsOr" ++ ": " := by decide
    rw [e0, cut_hdr _ _ (by decide)]
    have e : goLower "StatsOr" = "statsor" := by decide
    simp only [e, trimLeft_digits]
    cases statsGroupOp o t false (toString n) req.stats <;> rfl
  · simp only [if_true]
    unfold parseHeaderLine
    have e0 : ("StatsAnd: " : String) = "StatsAnd" ++ ": " := by decide
    rw [e0, cut_hdr _ _ (by decide)]
    have e : goLower "StatsAnd" = "statsand" := by decide
    simp only [e, trimLeft_digits]
    cases statsGroupOp o t true (toString n) req.stats <;> rfl

theorem headerLine_statsNegate (o : ParseOpts) (t : Table) (req : Request) (h : req.stats ≠ []) :
    parseHeaderLine o t req "StatsNegate:"
      = .ok { req with stats := mapLast (StatsEntry.setNeg o.q) req.stats } := by
  unfold parseHeaderLine
  have c : cut ':' "StatsNegate:" = ("StatsNegate", some "") := by decide
  have e : goLower "StatsNegate" = "statsnegate" := by decide
  have hb : req.stats.isEmpty = false := by simpa using h
  simp only [c, e, hb]
  rfl

theorem goodLine_statsGrp (a : Bool) (n : Nat) :
    GoodLine ((if a then "StatsAnd: " else "StatsOr: ") ++ toString n) := by
  cases a
  · exact goodLine_hdr (k := 'S') (ks := "tatsOr: ".toList) (by decide) (by decide) (by decide)
      (goodValue_toString n)
  · exact goodLine_hdr (k := 'S') (ks := "tatsAnd: ".toList) (by decide) (by decide) (by decide)
      (goodValue_toString n)

theorem goodLine_statsNegate : GoodLine "StatsNegate:" := ⟨by decide, by decide, by decide⟩

/-- `line` is the `Stats:` line lmd prints for the counter leaf `l`, it is a proper line, and
    the parser reads it back as a counter over the unmarked leaf `l` -/
def StatsLeafLine (o : ParseOpts) (t : Table) (l : Leaf) (line : String) : Prop :=
  line ++ "\n" = l.printLine "Stats" ∧ GoodLine line ∧
    ∀ r : Request, parseHeaderLine o t r line
      = .ok { r with stats := r.stats ++ [.counter (.leaf l false)], numFilter := r.numFilter + 1 }

/-- the header line of a token in the Stats flavour, given the text of the leaf lines -/
def stokHeader (ll : Leaf → String) : Tok → String
  | .leaf l => ll l
  | .grp a n => (if a then "StatsAnd: " else "StatsOr: ") ++ toString n
  | .neg => "StatsNegate:"

theorem stokHeader_line (ll : Leaf → String) (tok : Tok)
    (h : ∀ l, tok = .leaf l → ll l ++ "\n" = l.printLine "Stats") :
    stokHeader ll tok ++ "\n" = Tok.line true tok := by
  cases tok with
  | leaf l => exact h l rfl
  | grp a n => cases a <;> simp [stokHeader, Tok.line, String.append_assoc]
  | neg => rfl

theorem emit_leaf_false (l : Leaf) : emit (.leaf l false) = [Tok.leaf l] := by simp [emit]
theorem emit_leaf_true (l : Leaf) : emit (.leaf l true) = [Tok.leaf l, Tok.neg] := by simp [emit]

theorem setNeg_false (q : Quirks) (hq : q.negOr = false) :
    (∀ l, (Filter.leaf l false).setNeg q = .leaf l true) ∧
    (∀ a fs, (Filter.grp a fs false).setNeg q = .grp a fs true) := by
  constructor
  · intro l; simp [Filter.setNeg, hq]
  · intro a fs; simp [Filter.setNeg, hq]

mutual
  /-- the lines of one counter tree push that tree on the stats stack -/
  theorem stats_emit_acts (o : ParseOpts) (t : Table) (hq : o.q.negOr = false) (ll : Leaf → String) :
      ∀ (f : Filter), WellFormed f → (∀ l, Tok.leaf l ∈ emit f → StatsLeafLine o t l (ll l)) →
      ∀ (r : Request) (rest : List String),
        parseHeaderLines o t r ((emit f).map (stokHeader ll) ++ rest)
          = parseHeaderLines o t
              { r with stats := r.stats ++ [.counter f],
                       numFilter := r.numFilter + leafCount (emit f) } rest
    | .leaf l n, _, h, r, rest => by
      obtain ⟨_, g, hp⟩ := h l (by simp [emit])
      cases n
      · simp only [emit_leaf_false, List.map_cons, List.map_nil, stokHeader, List.cons_append,
          List.nil_append]
        rw [parseHeaderLines_ok g (hp r)]
        rfl
      · simp only [emit_leaf_true, List.map_cons, List.map_nil, stokHeader, List.cons_append,
          List.nil_append]
        rw [parseHeaderLines_ok g (hp r),
          parseHeaderLines_ok goodLine_statsNegate (headerLine_statsNegate o t _ (by simp))]
        congr 1
        simp only [mapLast_append_singleton, StatsEntry.setNeg, (setNeg_false o.q hq).1]
        rfl
    | .grp a fs n, wf, h, r, rest => by
      obtain ⟨hne, wfs⟩ := wf
      have hfs : ∀ l, Tok.leaf l ∈ emitList fs → StatsLeafLine o t l (ll l) := by
        intro l hl
        apply h l
        rw [emit]
        exact List.mem_append_left _ hl
      rw [emit, List.map_append, List.append_assoc,
        stats_emitList_acts o t hq ll fs wfs hfs r]
      simp only [List.map_cons, stokHeader, List.cons_append]
      have hg := statsGroupOp_counters o t a (toString fs.length) r.stats fs hne
        (atoi_toString fs.length)
      have hp : parseHeaderLine o t
          { r with stats := r.stats ++ fs.map StatsEntry.counter,
                   numFilter := r.numFilter + leafCount (emitList fs) }
          ((if a then "StatsAnd: " else "StatsOr: ") ++ toString fs.length)
          = .ok { r with stats := r.stats ++ [.counter (.grp a fs false)],
                         numFilter := r.numFilter + leafCount (emitList fs) } := by
        rw [headerLine_statsGrp]
        simp only [hg]
        rfl
      rw [parseHeaderLines_ok (goodLine_statsGrp a fs.length) hp]
      have hlc : leafCount (emitList fs ++ Tok.grp a fs.length :: (if n then [Tok.neg] else []))
          = leafCount (emitList fs) := by
        cases n <;> simp [leafCount_append, leafCount_cons, leafCount_nil, tokIsLeaf]
      rw [hlc]
      cases n
      · simp only [Bool.false_eq_true, if_false, List.map_nil, List.nil_append]
      · simp only [if_true, List.map_cons, List.map_nil, stokHeader, List.cons_append,
          List.nil_append]
        rw [parseHeaderLines_ok goodLine_statsNegate (headerLine_statsNegate o t _ (by simp))]
        congr 1
        simp only [mapLast_append_singleton, StatsEntry.setNeg, (setNeg_false o.q hq).2]
  /-- the lines of a list of counter trees push these trees, in order -/
  theorem stats_emitList_acts (o : ParseOpts) (t : Table) (hq : o.q.negOr = false) (ll : Leaf → String) :
      ∀ (fs : List Filter), WellFormedList fs →
      (∀ l, Tok.leaf l ∈ emitList fs → StatsLeafLine o t l (ll l)) →
      ∀ (r : Request) (rest : List String),
        parseHeaderLines o t r ((emitList fs).map (stokHeader ll) ++ rest)
          = parseHeaderLines o t
              { r with stats := r.stats ++ fs.map StatsEntry.counter,
                       numFilter := r.numFilter + leafCount (emitList fs) } rest
    | [], _, _, r, rest => by
      simp only [emitList, List.map_nil, List.nil_append, List.append_nil, leafCount_nil, Nat.add_zero]
    | f :: fs, wf, h, r, rest => by
      obtain ⟨wf1, wf2⟩ := wf
      have h1 : ∀ l, Tok.leaf l ∈ emit f → StatsLeafLine o t l (ll l) := by
        intro l hl
        apply h l
        rw [emitList]
        exact List.mem_append_left _ hl
      have h2 : ∀ l, Tok.leaf l ∈ emitList fs → StatsLeafLine o t l (ll l) := by
        intro l hl
        apply h l
        rw [emitList]
        exact List.mem_append_right _ hl
      rw [emitList, List.map_append, List.append_assoc, stats_emit_acts o t hq ll f wf1 h1 r,
        stats_emitList_acts o t hq ll fs wf2 h2]
      congr 1
      simp [leafCount_append, Nat.add_assoc]
end

/-! ### aggregation entries -/

theorem splitN2_two {x : String} (y : String) (hx : ' ' ∉ x.toList) :
    splitN ' ' 2 (x ++ " " ++ y) = [x, y] := by
  have e2 : ∀ t, splitN ' ' 2 t = match cut ' ' t with
    | (a, none) => [a]
    | (a, some b) => a :: splitN ' ' 1 b := fun t => by
      rw [splitN] <;> first | rfl | (intro h; cases h)
  rw [e2, blank_str, cut_append y hx]
  simp [splitN]

/-- `Stats: <kind> <column>` with one of the words lmd prints for an aggregation -/
theorem parseStats_agg (o : ParseOpts) (t : Table) (k : AggKind) (name : String)
    (st : List StatsEntry) :
    parseStats o t (k.text ++ " " ++ name) st
      = .ok (st ++ [.agg k (t.colWithFallback name) false]) := by
  unfold parseStats
  rw [splitN2_two name (by cases k <;> decide)]
  cases k
  · have : goLower (AggKind.text .sum) = "sum" := by decide
    simp only [this]; rfl
  · have : goLower (AggKind.text .avg) = "avg" := by decide
    simp only [this]; rfl
  · have : goLower (AggKind.text .min) = "min" := by decide
    simp only [this]; rfl
  · have : goLower (AggKind.text .max) = "max" := by decide
    simp only [this]; rfl

theorem headerLine_statsAgg (o : ParseOpts) (t : Table) (req : Request) (k : AggKind) (name : String) :
    parseHeaderLine o t req ("Stats: " ++ k.text ++ " " ++ name)
      = .ok { req with stats := req.stats ++ [.agg k (t.colWithFallback name) false],
                       numFilter := req.numFilter + 1 } := by
  have e : "Stats: " ++ k.text ++ " " ++ name = "Stats" ++ ": " ++ (k.text ++ " " ++ name) := by
    have : ("Stats: " : String) = "Stats" ++ ": " := by decide
    rw [this]
    simp only [String.append_assoc]
  unfold parseHeaderLine
  rw [e, cut_hdr _ _ (by decide)]
  have el : goLower "Stats" = "stats" := by decide
  have ht : trimLeftSpaces (" " ++ (k.text ++ " " ++ name)) = k.text ++ " " ++ name := by
    apply trimLeft_blank
    intro c hc
    simp only [String.toList_append, List.append_assoc, List.head?_append] at hc
    cases k <;> simp [AggKind.text] at hc <;> (rw [← hc]; decide)
  simp only [el, ht, parseStats_agg]
  rfl

theorem goodLine_statsAgg (k : AggKind) {name : String} (g : GoodValue name) :
    GoodLine ("Stats: " ++ k.text ++ " " ++ name) := by
  cases k
  · exact goodLine_hdr (k := 'S') (ks := "tats: sum ".toList) (by decide) (by decide) (by decide) g
  · exact goodLine_hdr (k := 'S') (ks := "tats: avg ".toList) (by decide) (by decide) (by decide) g
  · exact goodLine_hdr (k := 'S') (ks := "tats: min ".toList) (by decide) (by decide) (by decide) g
  · exact goodLine_hdr (k := 'S') (ks := "tats: Max ".toList) (by decide) (by decide) (by decide) g

/-! ### entries -/

/-- the lines of one stats entry -/
def statsEntryLines (ll : Leaf → String) : StatsEntry → List String
  | .counter f => (emit f).map (stokHeader ll)
  | .agg k c n => ("Stats: " ++ k.text ++ " " ++ c.name) :: (if n then ["StatsNegate:"] else [])

/-- the number of `Stats:` lines of one entry (each counts as one filter line) -/
def statsEntryCount : StatsEntry → Nat
  | .counter f => leafCount (emit f)
  | .agg .. => 1

/-- a stats entry that reads back: a counter over a tree without empty groups whose leaf lines
    read back, or an aggregation over a column of the table whose name fits on a line -/
def StatsEntryOk (o : ParseOpts) (t : Table) (ll : Leaf → String) : StatsEntry → Prop
  | .counter f => WellFormed f ∧ ∀ l, Tok.leaf l ∈ emit f → StatsLeafLine o t l (ll l)
  | .agg _ c _ => t.colWithFallback c.name = c ∧ GoodValue c.name

theorem statsEntry_text (o : ParseOpts) (t : Table) (ll : Leaf → String) (e : StatsEntry)
    (ok : StatsEntryOk o t ll e) : e.print = unlines (statsEntryLines ll e) := by
  cases e with
  | counter f =>
    obtain ⟨wf, h⟩ := ok
    rw [StatsEntry.print, print_emit true f wf, lines, statsEntryLines, unlines, List.map_map]
    refine congrArg String.join ?_
    apply List.map_congr_left
    intro tok htok
    exact (stokHeader_line ll tok (fun l e => (h l (e ▸ htok)).1)).symm
  | agg k c n =>
    cases n <;> simp [StatsEntry.print, statsEntryLines, unlines_cons, unlines_nil]

theorem statsEntry_acts (o : ParseOpts) (t : Table) (hq : o.q.negOr = false) (ll : Leaf → String)
    (e : StatsEntry) (ok : StatsEntryOk o t ll e) :
    SectionActs o t (statsEntryLines ll e) fun r =>
      { r with stats := r.stats ++ [e], numFilter := r.numFilter + statsEntryCount e } := by
  cases e with
  | counter f =>
    obtain ⟨wf, h⟩ := ok
    refine ⟨?_, fun r rest => stats_emit_acts o t hq ll f wf h r rest⟩
    intro x hx
    obtain ⟨tok, htok, rfl⟩ := List.mem_map.mp hx
    cases tok with
    | leaf l => exact (h l htok).2.1.nonl
    | grp a n => exact (goodLine_statsGrp a n).nonl
    | neg => exact goodLine_statsNegate.nonl
  | agg k c n =>
    obtain ⟨hc, g⟩ := ok
    have gl := goodLine_statsAgg k g
    refine ⟨?_, ?_⟩
    · intro x hx
      simp only [statsEntryLines, List.mem_cons] at hx
      rcases hx with e | hx
      · rw [e]; exact gl.nonl
      · cases n
        · simp at hx
        · simp at hx; rw [hx]; exact goodLine_statsNegate.nonl
    · intro r rest
      simp only [statsEntryLines, List.cons_append]
      rw [parseHeaderLines_ok gl (headerLine_statsAgg o t r k c.name), hc]
      cases n
      · simp only [Bool.false_eq_true, if_false, List.nil_append]
        rfl
      · simp only [if_true, List.cons_append, List.nil_append]
        rw [parseHeaderLines_ok goodLine_statsNegate (headerLine_statsNegate o t _ (by simp))]
        congr 1
        simp only [mapLast_append_singleton, StatsEntry.setNeg]
        rfl

/-- the stats section of a printed request, line by line -/
theorem stats_text (o : ParseOpts) (t : Table) (ll : Leaf → String) (stats : List StatsEntry)
    (ok : ∀ e ∈ stats, StatsEntryOk o t ll e) :
    String.join (stats.map StatsEntry.print) = unlines (stats.flatMap (statsEntryLines ll)) := by
  induction stats with
  | nil => simp [unlines_nil]
  | cons e es ih =>
    rw [List.map_cons, String.join_cons, List.flatMap_cons, unlines_append,
      statsEntry_text o t ll e (ok e List.mem_cons_self),
      ih (fun x hx => ok x (List.mem_cons_of_mem _ hx))]

/-- the lines of the stats section rebuild the stats entries of the request, in order, and count
    their `Stats:` lines -/
theorem stats_acts (o : ParseOpts) (t : Table) (hq : o.q.negOr = false) (ll : Leaf → String)
    (stats : List StatsEntry) (ok : ∀ e ∈ stats, StatsEntryOk o t ll e) :
    SectionActs o t (stats.flatMap (statsEntryLines ll)) fun r =>
      { r with stats := r.stats ++ stats,
               numFilter := r.numFilter + (stats.map statsEntryCount).sum } := by
  induction stats with
  | nil => exact sectionActs_nil o t _ (fun r => by cases r; simp)
  | cons e es ih =>
    obtain ⟨a1, a2⟩ := statsEntry_acts o t hq ll e (ok e List.mem_cons_self)
    obtain ⟨b1, b2⟩ := ih (fun x hx => ok x (List.mem_cons_of_mem _ hx))
    refine ⟨?_, ?_⟩
    · rw [List.flatMap_cons]
      exact nonl_append a1 b1
    · intro r rest
      rw [List.flatMap_cons, List.append_assoc, a2, b2]
      congr 1
      simp [Nat.add_assoc]

/-! ## leaf lines from the text of the leaf -/

/-- the column name and operator text `Leaf.printLine` writes for a leaf -/
def leafNameOp (l : Leaf) : String × String :=
  if hasSuffix l.col.name "_lc" && l.sval == goLower l.sval then
    (match l.op with
     | .eq => (trimSuffix l.col.name "_lc", "=~")
     | .ne => (trimSuffix l.col.name "_lc", "!=~")
     | .ct | .re => (trimSuffix l.col.name "_lc", "~~")
     | .nct | .nre => (trimSuffix l.col.name "_lc", "!~~")
     | o => (l.col.name, o.text))
  else (l.col.name, l.op.text)

/-- the text of a leaf line behind its keyword: `<column> <op>[ <value>]` -/
def leafText (l : Leaf) : String :=
  (leafNameOp l).1 ++ " " ++ (leafNameOp l).2
    ++ (if l.strValue == "" then "" else " " ++ l.strValue)

/-- every leaf line lmd prints is the keyword, a colon and a blank, and `leafText` -/
theorem printLine_eq (kw : String) (l : Leaf) :
    l.printLine kw = kw ++ ": " ++ leafText l ++ "\n" := by
  have h : l.printLine kw = kw ++ ": " ++ (leafNameOp l).1 ++ " " ++ (leafNameOp l).2
      ++ (if l.strValue == "" then "" else " " ++ l.strValue) ++ "\n" := by
    unfold Leaf.printLine leafNameOp
    rfl
  rw [h, leafText]
  simp only [String.append_assoc]

/-- the leaf-level round trip for `Filter:` and `WaitCondition:` lines: the text lmd prints for
    the leaf fits on a line and `ParseFilter` reads it back as the very same leaf -/
structure LeafReadsBack (o : ParseOpts) (t : Table) (l : Leaf) : Prop where
  value : GoodValue (leafText l)
  parse : parseFilterLeaf o t (leafText l) = .ok l

/-- the leaf-level round trip for a counter `Stats:` line: the text fits on a line and
    `ParseStats` reads it back as a counter over the very same leaf -/
structure StatsLeafReadsBack (o : ParseOpts) (t : Table) (l : Leaf) : Prop where
  value : GoodValue (leafText l)
  parse : ∀ st, parseStats o t (leafText l) st = .ok (st ++ [.counter (.leaf l false)])

theorem headerLine_stats (o : ParseOpts) (t : Table) (req : Request) (v : String) :
    parseHeaderLine o t req ("Stats: " ++ v)
      = (parseStats o t (trimLeftSpaces (" " ++ v)) req.stats).map (fun st =>
          { req with stats := st, numFilter := req.numFilter + 1 }) := by
  unfold parseHeaderLine
  have e0 : ("Stats: " : String) = "Stats" ++ ": " := by decide
  rw [e0, cut_hdr _ _ (by decide)]
  have e : goLower "Stats" = "stats" := by decide
  simp only [e]
  cases parseStats o t (trimLeftSpaces (" " ++ v)) req.stats <;> rfl

theorem goodLine_filter {v : String} (g : GoodValue v) : GoodLine ("Filter: " ++ v) :=
  goodLine_hdr (k := 'F') (ks := "ilter: ".toList) (by decide) (by decide) (by decide) g

theorem goodLine_stats {v : String} (g : GoodValue v) : GoodLine ("Stats: " ++ v) :=
  goodLine_hdr (k := 'S') (ks := "tats: ".toList) (by decide) (by decide) (by decide) g

theorem filterLeafLine_of (o : ParseOpts) (t : Table) (l : Leaf) (h : LeafReadsBack o t l) :
    FilterLeafLine o t l ("Filter: " ++ leafText l) := by
  refine ⟨(printLine_eq "Filter" l).symm, goodLine_filter h.value, ?_⟩
  intro r
  rw [headerLine_filter, trimLeft_blank h.value.head, h.parse]
  rfl

theorem waitLeafLine_of (o : ParseOpts) (t : Table) (l : Leaf) (h : LeafReadsBack o t l) :
    WaitLeafLine o t l ("WaitCondition: " ++ leafText l) := by
  refine ⟨(printLine_eq "WaitCondition" l).symm, goodLine_waitCondition h.value, ?_⟩
  intro r
  rw [headerLine_waitCondition, trimLeft_blank h.value.head, h.parse]
  rfl

theorem statsLeafLine_of (o : ParseOpts) (t : Table) (l : Leaf) (h : StatsLeafReadsBack o t l) :
    StatsLeafLine o t l ("Stats: " ++ leafText l) := by
  refine ⟨(printLine_eq "Stats" l).symm, goodLine_stats h.value, ?_⟩
  intro r
  rw [headerLine_stats, trimLeft_blank h.value.head, h.parse]
  rfl

/-- a stats entry that reads back: a counter over a tree without empty groups whose leaves read
    back, or an aggregation over a column of the table whose name fits on a line -/
def StatsEntryReadsBack (o : ParseOpts) (t : Table) : StatsEntry → Prop
  | .counter f => WellFormed f ∧ ∀ l, Tok.leaf l ∈ emit f → StatsLeafReadsBack o t l
  | .agg _ c _ => t.colWithFallback c.name = c ∧ GoodValue c.name

theorem statsEntryOk_of (o : ParseOpts) (t : Table) (e : StatsEntry)
    (h : StatsEntryReadsBack o t e) : StatsEntryOk o t (fun l => "Stats: " ++ leafText l) e := by
  cases e with
  | counter f => exact ⟨h.1, fun l hl => statsLeafLine_of o t l (h.2 l hl)⟩
  | agg k c n => exact h

/-! ## the optimiser's unwrapping -/

/-- `optimizeFilterIndentation` leaves a filter stack alone that is not a single unmarked `And`
    group -/
theorem optimizeIndentation_id (n : Nat) (fs : List Filter)
    (h : ∀ f rest, fs ≠ [.grp true (f :: rest) false]) : optimizeIndentation n fs = fs := by
  cases n with
  | zero => rw [optimizeIndentation]
  | succ k =>
    unfold optimizeIndentation
    split
    · rfl
    · exact absurd rfl (h _ _)
    · rfl

end Lmd.Headers
