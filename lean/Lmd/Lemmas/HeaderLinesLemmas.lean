/-
  Lmd.Lemmas.HeaderLinesLemmas — the header section of a printed request, line by line, through
  `parseHeaderLines` and `parseRequest` (C17): every optional header line of `Request.print` as a
  section that sets its field, the decomposition of the printed text into sections, and the
  assembly into one statement about `parseRequest (req.print)` with the filter, stats,
  wait-condition and sort sections kept abstract.
-/
import Lmd.Lemmas.HeaderLemmas

namespace Lmd.Headers
open Lmd Lmd.C17 Lmd.SortPrint

/-! ## `parseHeaderLines` on proper lines -/

theorem parseHeaderLines_cons {o : ParseOpts} {t : Table} {l : String} (g : GoodLine l)
    (req : Request) (rest : List String) :
    parseHeaderLines o t req (l :: rest)
      = (parseHeaderLine o t req l).bind (fun r => parseHeaderLines o t r rest) := by
  rw [parseHeaderLines]
  have : (l == "") = false := by simpa using g.ne
  simp only [g.trim, this]
  rfl

theorem parseHeaderLines_ok {o : ParseOpts} {t : Table} {l : String} (g : GoodLine l)
    {req r' : Request} (h : parseHeaderLine o t req l = .ok r') (rest : List String) :
    parseHeaderLines o t req (l :: rest) = parseHeaderLines o t r' rest := by
  rw [parseHeaderLines_cons g, h]
  rfl

/-- an empty line ends the header section -/
theorem parseHeaderLines_stop (o : ParseOpts) (t : Table) (req : Request) (rest : List String) :
    parseHeaderLines o t req ("" :: rest) = .ok req := by
  rw [parseHeaderLines]
  have : trimSpace "" = "" := by decide
  simp only [this]
  rfl

/-! ## proper lines -/

theorem goodLine_fixed16 : GoodLine "ResponseHeader: fixed16" := ⟨by decide, by decide, by decide⟩
theorem goodLine_colHeaders : GoodLine "ColumnHeaders: on" := ⟨by decide, by decide, by decide⟩
theorem goodLine_keepAlive : GoodLine "KeepAlive: on" := ⟨by decide, by decide, by decide⟩
theorem goodLine_waitNegate : GoodLine "WaitConditionNegate:" := ⟨by decide, by decide, by decide⟩

theorem goodLine_outfmt (f : OutFmt) : GoodLine ("OutputFormat: " ++ f.text) := by
  cases f <;> exact ⟨by decide, by decide, by decide⟩

theorem goodLine_columns {v : String} (g : GoodValue v) : GoodLine ("Columns: " ++ v) :=
  goodLine_hdr (k := 'C') (ks := "olumns: ".toList) (by decide) (by decide) (by decide) g
theorem goodLine_backends {v : String} (g : GoodValue v) : GoodLine ("Backends: " ++ v) :=
  goodLine_hdr (k := 'B') (ks := "ackends: ".toList) (by decide) (by decide) (by decide) g
theorem goodLine_limit {v : String} (g : GoodValue v) : GoodLine ("Limit: " ++ v) :=
  goodLine_hdr (k := 'L') (ks := "imit: ".toList) (by decide) (by decide) (by decide) g
theorem goodLine_offset {v : String} (g : GoodValue v) : GoodLine ("Offset: " ++ v) :=
  goodLine_hdr (k := 'O') (ks := "ffset: ".toList) (by decide) (by decide) (by decide) g
theorem goodLine_waitTrigger {v : String} (g : GoodValue v) : GoodLine ("WaitTrigger: " ++ v) :=
  goodLine_hdr (k := 'W') (ks := "aitTrigger: ".toList) (by decide) (by decide) (by decide) g
theorem goodLine_waitObject {v : String} (g : GoodValue v) : GoodLine ("WaitObject: " ++ v) :=
  goodLine_hdr (k := 'W') (ks := "aitObject: ".toList) (by decide) (by decide) (by decide) g
theorem goodLine_waitTimeout {v : String} (g : GoodValue v) : GoodLine ("WaitTimeout: " ++ v) :=
  goodLine_hdr (k := 'W') (ks := "aitTimeout: ".toList) (by decide) (by decide) (by decide) g
theorem goodLine_authUser {v : String} (g : GoodValue v) : GoodLine ("AuthUser: " ++ v) :=
  goodLine_hdr (k := 'A') (ks := "uthUser: ".toList) (by decide) (by decide) (by decide) g
theorem goodLine_waitCondition {v : String} (g : GoodValue v) : GoodLine ("WaitCondition: " ++ v) :=
  goodLine_hdr (k := 'W') (ks := "aitCondition: ".toList) (by decide) (by decide) (by decide) g
theorem goodLine_sort {v : String} (g : GoodValue v) : GoodLine ("Sort: " ++ v) :=
  goodLine_hdr (k := 'S') (ks := "ort: ".toList) (by decide) (by decide) (by decide) g

/-! ## one section per optional header line

Each lemma reads: the lines `Request.print` writes for the field (one line or none), in front of
any further lines, leave the parser in the state where that field has the printed value — given
that the field still had its initial value. -/

theorem sec_fixed16 (o : ParseOpts) (t : Table) (b : Bool) (r : Request) (hr : r.fixed16 = false)
    (rest : List String) :
    parseHeaderLines o t r ((if b then ["ResponseHeader: fixed16"] else []) ++ rest)
      = parseHeaderLines o t { r with fixed16 := b } rest := by
  cases b
  · have e : { r with fixed16 := false } = r := by cases r; simp_all
    simp [e]
  · simp only [if_true, List.cons_append, List.nil_append]
    exact parseHeaderLines_ok goodLine_fixed16 (headerLine_fixed16 o t r) rest

theorem sec_outfmt (o : ParseOpts) (t : Table) (f : OutFmt) (r : Request) (hr : r.outFmt = .dflt)
    (rest : List String) :
    parseHeaderLines o t r ((if f != .dflt then ["OutputFormat: " ++ f.text] else []) ++ rest)
      = parseHeaderLines o t { r with outFmt := f } rest := by
  by_cases hf : f = .dflt
  · subst hf
    have e : { r with outFmt := .dflt } = r := by cases r; simp_all
    simp [e]
  · have hb : (f != .dflt) = true := by simpa using hf
    simp only [hb, if_true, List.cons_append, List.nil_append]
    exact parseHeaderLines_ok (goodLine_outfmt f) (headerLine_outfmt o t r f hf) rest

theorem sec_columns (o : ParseOpts) (t : Table) (cols : List String)
    (h : ∀ x ∈ cols, wordOk x = true) (r : Request) (hr : r.columns = []) (rest : List String) :
    parseHeaderLines o t r
        ((if cols.isEmpty then [] else ["Columns: " ++ joinWith " " cols]) ++ rest)
      = parseHeaderLines o t { r with columns := cols } rest := by
  by_cases hc : cols = []
  · subst hc
    have e : { r with columns := [] } = r := by cases r; simp_all
    simp [e]
  · have hb : cols.isEmpty = false := by simpa using hc
    simp only [hb, Bool.false_eq_true, if_false, List.cons_append, List.nil_append]
    have hp := headerLine_columns o t r cols hc h
    rw [hr, List.nil_append] at hp
    exact parseHeaderLines_ok (goodLine_columns (goodValue_words cols hc h)) hp rest

theorem sec_backends (o : ParseOpts) (t : Table) (bs : List String)
    (h : ∀ x ∈ bs, wordOk x = true) (r : Request) (hr : r.backends = []) (rest : List String) :
    parseHeaderLines o t r
        ((if bs.isEmpty then [] else ["Backends: " ++ joinWith " " bs]) ++ rest)
      = parseHeaderLines o t { r with backends := bs } rest := by
  by_cases hc : bs = []
  · subst hc
    have e : { r with backends := [] } = r := by cases r; simp_all
    simp [e]
  · have hb : bs.isEmpty = false := by simpa using hc
    simp only [hb, Bool.false_eq_true, if_false, List.cons_append, List.nil_append]
    exact parseHeaderLines_ok (goodLine_backends (goodValue_words bs hc h))
      (headerLine_backends o t r bs hc h) rest

/-- the lines `Request.print` writes for the limit -/
def limitLines : Option Nat → List String
  | some l => ["Limit: " ++ toString l]
  | none => []

theorem sec_limit (o : ParseOpts) (t : Table) (lim : Option Nat) (r : Request)
    (hr : r.limit = none) (rest : List String) :
    parseHeaderLines o t r (limitLines lim ++ rest) = parseHeaderLines o t { r with limit := lim } rest := by
  cases lim with
  | none =>
    have e : { r with limit := none } = r := by cases r; simp_all
    simp [limitLines, e]
  | some n =>
    simp only [limitLines, List.cons_append, List.nil_append]
    exact parseHeaderLines_ok (goodLine_limit (goodValue_toString n)) (headerLine_limit o t r n) rest

theorem sec_offset (o : ParseOpts) (t : Table) (n : Nat) (r : Request) (hr : r.offset = 0)
    (rest : List String) :
    parseHeaderLines o t r ((if n > 0 then ["Offset: " ++ toString n] else []) ++ rest)
      = parseHeaderLines o t { r with offset := n } rest := by
  by_cases hn : n > 0
  · simp only [hn, if_true, List.cons_append, List.nil_append]
    exact parseHeaderLines_ok (goodLine_offset (goodValue_toString n)) (headerLine_offset o t r n) rest
  · have h0 : n = 0 := by omega
    subst h0
    have e : { r with offset := 0 } = r := by cases r; simp_all
    simp [e]

theorem sec_colHeaders (o : ParseOpts) (t : Table) (b : Bool) (r : Request)
    (hr : r.colHeaders = false) (rest : List String) :
    parseHeaderLines o t r ((if b then ["ColumnHeaders: on"] else []) ++ rest)
      = parseHeaderLines o t { r with colHeaders := b } rest := by
  cases b
  · have e : { r with colHeaders := false } = r := by cases r; simp_all
    simp [e]
  · simp only [if_true, List.cons_append, List.nil_append]
    exact parseHeaderLines_ok goodLine_colHeaders (headerLine_colHeaders o t r) rest

theorem sec_keepAlive (o : ParseOpts) (t : Table) (b : Bool) (r : Request)
    (hr : r.keepAlive = false) (rest : List String) :
    parseHeaderLines o t r ((if b then ["KeepAlive: on"] else []) ++ rest)
      = parseHeaderLines o t { r with keepAlive := b } rest := by
  cases b
  · have e : { r with keepAlive := false } = r := by cases r; simp_all
    simp [e]
  · simp only [if_true, List.cons_append, List.nil_append]
    exact parseHeaderLines_ok goodLine_keepAlive (headerLine_keepAlive o t r) rest

theorem sec_waitTrigger (o : ParseOpts) (t : Table) (v : String) (hv : valueOk v = true)
    (r : Request) (hr : r.waitTrigger = "") (rest : List String) :
    parseHeaderLines o t r ((if v != "" then ["WaitTrigger: " ++ v] else []) ++ rest)
      = parseHeaderLines o t { r with waitTrigger := v } rest := by
  by_cases hne : v = ""
  · subst hne
    have e : { r with waitTrigger := "" } = r := by cases r; simp_all
    simp [e]
  · have hb : (v != "") = true := by simpa using hne
    have g := goodValue_of_valueOk hv hne
    simp only [hb, if_true, List.cons_append, List.nil_append]
    exact parseHeaderLines_ok (goodLine_waitTrigger g) (headerLine_waitTrigger o t r v g.head) rest

theorem sec_waitObject (o : ParseOpts) (t : Table) (v : String) (hv : valueOk v = true)
    (r : Request) (hr : r.waitObject = "") (rest : List String) :
    parseHeaderLines o t r ((if v != "" then ["WaitObject: " ++ v] else []) ++ rest)
      = parseHeaderLines o t { r with waitObject := v } rest := by
  by_cases hne : v = ""
  · subst hne
    have e : { r with waitObject := "" } = r := by cases r; simp_all
    simp [e]
  · have hb : (v != "") = true := by simpa using hne
    have g := goodValue_of_valueOk hv hne
    simp only [hb, if_true, List.cons_append, List.nil_append]
    exact parseHeaderLines_ok (goodLine_waitObject g) (headerLine_waitObject o t r v g.head) rest

theorem sec_waitTimeout (o : ParseOpts) (t : Table) (n : Nat) (r : Request)
    (hr : r.waitTimeout = 0) (rest : List String) :
    parseHeaderLines o t r ((if n > 0 then ["WaitTimeout: " ++ toString n] else []) ++ rest)
      = parseHeaderLines o t { r with waitTimeout := n } rest := by
  by_cases hn : n > 0
  · simp only [hn, if_true, List.cons_append, List.nil_append]
    exact parseHeaderLines_ok (goodLine_waitTimeout (goodValue_toString n))
      (headerLine_waitTimeout o t r n hn) rest
  · have h0 : n = 0 := by omega
    subst h0
    have e : { r with waitTimeout := 0 } = r := by cases r; simp_all
    simp [e]

theorem sec_waitNegate (o : ParseOpts) (t : Table) (b : Bool) (r : Request)
    (hr : r.waitConditionNegate = false) (rest : List String) :
    parseHeaderLines o t r ((if b then ["WaitConditionNegate:"] else []) ++ rest)
      = parseHeaderLines o t { r with waitConditionNegate := b } rest := by
  cases b
  · have e : { r with waitConditionNegate := false } = r := by cases r; simp_all
    simp [e]
  · simp only [if_true, List.cons_append, List.nil_append]
    exact parseHeaderLines_ok goodLine_waitNegate (headerLine_waitNegate o t r) rest

theorem sec_authUser (o : ParseOpts) (t : Table) (v : String) (hv : valueOk v = true)
    (r : Request) (hr : r.authUser = "") (rest : List String) :
    parseHeaderLines o t r ((if v != "" then ["AuthUser: " ++ v] else []) ++ rest)
      = parseHeaderLines o t { r with authUser := v } rest := by
  by_cases hne : v = ""
  · subst hne
    have e : { r with authUser := "" } = r := by cases r; simp_all
    simp [e]
  · have hb : (v != "") = true := by simpa using hne
    have g := goodValue_of_valueOk hv hne
    simp only [hb, if_true, List.cons_append, List.nil_append]
    exact parseHeaderLines_ok (goodLine_authUser g) (headerLine_authUser o t r v hne g.head) rest

/-! ## the two blocks of plain header lines -/

/-- the header lines `Request.print` writes in front of the filter section -/
def preLines (req : Request) : List String :=
  (if req.fixed16 then ["ResponseHeader: fixed16"] else [])
  ++ ((if req.outFmt != .dflt then ["OutputFormat: " ++ req.outFmt.text] else [])
  ++ ((if req.columns.isEmpty then [] else ["Columns: " ++ joinWith " " req.columns])
  ++ ((if req.backends.isEmpty then [] else ["Backends: " ++ joinWith " " req.backends])
  ++ (limitLines req.limit
  ++ ((if req.offset > 0 then ["Offset: " ++ toString req.offset] else [])
  ++ ((if req.colHeaders then ["ColumnHeaders: on"] else [])
  ++ (if req.keepAlive then ["KeepAlive: on"] else [])))))))

/-- the header lines `Request.print` writes between the stats section and the wait conditions -/
def waitLines (req : Request) : List String :=
  (if req.waitTrigger != "" then ["WaitTrigger: " ++ req.waitTrigger] else [])
  ++ ((if req.waitObject != "" then ["WaitObject: " ++ req.waitObject] else [])
  ++ ((if req.waitTimeout > 0 then ["WaitTimeout: " ++ toString req.waitTimeout] else [])
  ++ ((if req.waitConditionNegate then ["WaitConditionNegate:"] else [])
  ++ (if req.authUser != "" then ["AuthUser: " ++ req.authUser] else []))))

/-- the static part of the well-formedness of a request for printing: names and free texts that
    survive one line of text -/
structure FieldsOk (req : Request) : Prop where
  columns : ∀ x ∈ req.columns, wordOk x = true
  backends : ∀ x ∈ req.backends, wordOk x = true
  authUser : valueOk req.authUser = true
  waitTrigger : valueOk req.waitTrigger = true
  waitObject : valueOk req.waitObject = true

theorem parse_preLines (o : ParseOpts) (t : Table) (req : Request) (wf : FieldsOk req) (r : Request)
    (h1 : r.fixed16 = false) (h2 : r.outFmt = .dflt) (h3 : r.columns = []) (h4 : r.backends = [])
    (h5 : r.limit = none) (h6 : r.offset = 0) (h7 : r.colHeaders = false) (h8 : r.keepAlive = false)
    (rest : List String) :
    parseHeaderLines o t r (preLines req ++ rest)
      = parseHeaderLines o t
          { r with fixed16 := req.fixed16, outFmt := req.outFmt, columns := req.columns,
                   backends := req.backends, limit := req.limit, offset := req.offset,
                   colHeaders := req.colHeaders, keepAlive := req.keepAlive } rest := by
  unfold preLines
  simp only [List.append_assoc]
  rw [sec_fixed16 o t _ r h1, sec_outfmt, sec_columns o t _ wf.columns, sec_backends o t _ wf.backends,
    sec_limit, sec_offset, sec_colHeaders, sec_keepAlive]
  · exact h8
  · exact h7
  · exact h6
  · exact h5
  · exact h4
  · exact h3
  · exact h2

theorem parse_waitLines (o : ParseOpts) (t : Table) (req : Request) (wf : FieldsOk req) (r : Request)
    (h1 : r.waitTrigger = "") (h2 : r.waitObject = "") (h3 : r.waitTimeout = 0)
    (h4 : r.waitConditionNegate = false) (h5 : r.authUser = "") (rest : List String) :
    parseHeaderLines o t r (waitLines req ++ rest)
      = parseHeaderLines o t
          { r with waitTrigger := req.waitTrigger, waitObject := req.waitObject,
                   waitTimeout := req.waitTimeout,
                   waitConditionNegate := req.waitConditionNegate, authUser := req.authUser } rest := by
  unfold waitLines
  simp only [List.append_assoc]
  rw [sec_waitTrigger o t _ wf.waitTrigger r h1, sec_waitObject o t _ wf.waitObject, sec_waitTimeout,
    sec_waitNegate, sec_authUser o t _ wf.authUser]
  · exact h5
  · exact h4
  · exact h3
  · exact h2

/-! ## no line break inside the plain header lines -/

theorem nonl_ite (c : Prop) [Decidable c] (l : String) (h : c → '\n' ∉ l.toList) :
    ∀ x ∈ (if c then [l] else []), '\n' ∉ x.toList := by
  intro x hx
  split at hx
  · rename_i hc
    simp at hx
    subst hx
    exact h hc
  · simp at hx

theorem nonl_ite' (c : Prop) [Decidable c] (l : String) (h : ¬c → '\n' ∉ l.toList) :
    ∀ x ∈ (if c then [] else [l]), '\n' ∉ x.toList := by
  intro x hx
  split at hx
  · simp at hx
  · rename_i hc
    simp at hx
    subst hx
    exact h hc

theorem nonl_append {a b : List String} (ha : ∀ x ∈ a, '\n' ∉ x.toList)
    (hb : ∀ x ∈ b, '\n' ∉ x.toList) : ∀ x ∈ a ++ b, '\n' ∉ x.toList := by
  intro x hx
  rcases List.mem_append.mp hx with h | h
  · exact ha x h
  · exact hb x h

theorem preLines_nonl (req : Request) (wf : FieldsOk req) : ∀ x ∈ preLines req, '\n' ∉ x.toList := by
  unfold preLines
  refine nonl_append (nonl_ite _ _ fun _ => goodLine_fixed16.nonl) ?_
  refine nonl_append (nonl_ite _ _ fun _ => (goodLine_outfmt _).nonl) ?_
  refine nonl_append (nonl_ite' _ _ fun h =>
    (goodLine_columns (goodValue_words _ (by simpa using h) wf.columns)).nonl) ?_
  refine nonl_append (nonl_ite' _ _ fun h =>
    (goodLine_backends (goodValue_words _ (by simpa using h) wf.backends)).nonl) ?_
  refine nonl_append ?_ ?_
  · cases req.limit with
    | none => simp [limitLines]
    | some n =>
      intro x hx
      simp only [limitLines, List.mem_singleton] at hx
      subst hx
      exact (goodLine_limit (goodValue_toString n)).nonl
  refine nonl_append (nonl_ite _ _ fun _ => (goodLine_offset (goodValue_toString _)).nonl) ?_
  refine nonl_append (nonl_ite _ _ fun _ => goodLine_colHeaders.nonl) ?_
  exact nonl_ite _ _ fun _ => goodLine_keepAlive.nonl

theorem waitLines_nonl (req : Request) (wf : FieldsOk req) : ∀ x ∈ waitLines req, '\n' ∉ x.toList := by
  unfold waitLines
  refine nonl_append (nonl_ite _ _ fun h =>
    (goodLine_waitTrigger (goodValue_of_valueOk wf.waitTrigger (by simpa using h))).nonl) ?_
  refine nonl_append (nonl_ite _ _ fun h =>
    (goodLine_waitObject (goodValue_of_valueOk wf.waitObject (by simpa using h))).nonl) ?_
  refine nonl_append (nonl_ite _ _ fun _ => (goodLine_waitTimeout (goodValue_toString _)).nonl) ?_
  refine nonl_append (nonl_ite _ _ fun _ => goodLine_waitNegate.nonl) ?_
  exact nonl_ite _ _ fun h =>
    (goodLine_authUser (goodValue_of_valueOk wf.authUser (by simpa using h))).nonl

/-! ## the printed text, section by section -/

theorem unlines_preLines (req : Request) : unlines (preLines req) =
    (if req.fixed16 then "ResponseHeader: fixed16\n" else "")
    ++ (if req.outFmt != .dflt then "OutputFormat: " ++ req.outFmt.text ++ "\n" else "")
    ++ (if req.columns.isEmpty then "" else "Columns: " ++ joinWith " " req.columns ++ "\n")
    ++ (if req.backends.isEmpty then "" else "Backends: " ++ joinWith " " req.backends ++ "\n")
    ++ (match req.limit with | some l => "Limit: " ++ toString l ++ "\n" | none => "")
    ++ (if req.offset > 0 then "Offset: " ++ toString req.offset ++ "\n" else "")
    ++ (if req.colHeaders then "ColumnHeaders: on\n" else "")
    ++ (if req.keepAlive then "KeepAlive: on\n" else "") := by
  unfold preLines
  have hl : unlines (limitLines req.limit)
      = (match req.limit with | some l => "Limit: " ++ toString l ++ "\n" | none => "") := by
    cases req.limit <;> simp [limitLines, unlines_singleton, unlines_nil]
  simp only [unlines_append, unlines_ite, unlines_singleton, unlines_nil, hl, String.append_assoc]
  rfl

theorem unlines_waitLines (req : Request) : unlines (waitLines req) =
    (if req.waitTrigger != "" then "WaitTrigger: " ++ req.waitTrigger ++ "\n" else "")
    ++ (if req.waitObject != "" then "WaitObject: " ++ req.waitObject ++ "\n" else "")
    ++ (if req.waitTimeout > 0 then "WaitTimeout: " ++ toString req.waitTimeout ++ "\n" else "")
    ++ (if req.waitConditionNegate then "WaitConditionNegate:\n" else "")
    ++ (if req.authUser != "" then "AuthUser: " ++ req.authUser ++ "\n" else "") := by
  unfold waitLines
  simp only [unlines_append, unlines_ite, unlines_singleton, unlines_nil, String.append_assoc]
  rfl

/-- the text `Request.print` writes for one member of the wait condition (a single term) -/
def wcText (f : Filter) : String :=
  match f with
  | .leaf l _ => l.printLine "WaitCondition"
  | .grp .. => ""

/-- the text `Request.print` writes for one sort field -/
def sortText (sf : SortField) : String :=
  "Sort: " ++ sf.name ++ (if sf.args != "" then " " ++ sf.args else "") ++ " "
    ++ (if sf.desc then "desc" else "asc") ++ "\n"

/-- The text of a request is: the `GET` line and the plain header lines, the filter section, the
    stats section, the wait and user lines, the wait conditions, the sort lines, an empty line. -/
theorem print_sections (req : Request) :
    req.print
      = unlines (("GET " ++ req.table) :: preLines req)
        ++ Filter.printList false req.filter
        ++ String.join (req.stats.map StatsEntry.print)
        ++ unlines (waitLines req)
        ++ String.join (req.waitCondition.map wcText)
        ++ String.join (req.sort.map sortText)
        ++ "\n" := by
  have h : req.print
      = unlines (("GET " ++ req.table) :: preLines req)
        ++ Filter.printList false req.filter
        ++ String.join (req.stats.map StatsEntry.print)
        ++ unlines (waitLines req)
        ++ String.join (req.waitCondition.map fun f => match f with
            | .leaf l _ => l.printLine "WaitCondition"
            | .grp .. => "")
        ++ String.join (req.sort.map fun sf => "Sort: " ++ sf.name
            ++ (if sf.args != "" then " " ++ sf.args else "") ++ " "
            ++ (if sf.desc then "desc" else "asc") ++ "\n")
        ++ "\n" := by
    rw [unlines_cons, unlines_preLines, unlines_waitLines]
    unfold Request.print
    simp only [String.append_assoc]
    rfl
  rw [h]
  rfl

/-! ## the first line and the end of `parseRequest` -/

theorem lower_not_space {c : Char} (h : ('a' ≤ c && c ≤ 'z') = true) : isGoSpace c = false := by
  simp only [Bool.and_eq_true, decide_eq_true_eq, Char.le_def] at h
  obtain ⟨h1, h2⟩ := h
  rw [UInt32.le_iff_toNat_le] at h1 h2
  have ea : ('a' : Char).val.toNat = 97 := rfl
  have ez : ('z' : Char).val.toNat = 122 := rfl
  have hn : c.toNat = c.val.toNat := rfl
  have ne : ∀ d : Char, d.toNat < 97 → (c == d) = false := by
    intro d hd
    simp only [beq_eq_false_iff_ne, ne_eq]
    intro e; subst e; omega
  simp [isGoSpace, ne]
  omega

/-- a table name `parseAction` accepts: lower-case letters, at least one -/
def tableNameOk (n : String) : Bool := n != "" && n.toList.all (fun c => 'a' ≤ c && c ≤ 'z')

theorem parseAction_get (n : String) (h : tableNameOk n = true) : parseAction ("GET " ++ n) = .ok n := by
  simp only [tableNameOk, Bool.and_eq_true, bne_iff_ne, ne_eq] at h
  obtain ⟨hne, hall⟩ := h
  have hall' : ∀ c ∈ n.toList, ('a' ≤ c && c ≤ 'z') = true := by
    intro c hc
    exact List.all_eq_true.mp hall c hc
  have hl := toList_ne_nil hne
  have etl : ("GET " ++ n).toList = 'G' :: 'E' :: 'T' :: ' ' :: n.toList := by
    simp [String.toList_append]
  have htrim : trimSpace ("GET " ++ n) = "GET " ++ n := by
    apply trimSpace_eq_self
    · intro c hc
      rw [etl] at hc
      simp at hc
      rw [← hc]; decide
    · intro c hc
      have hm : c ∈ n.toList := by
        rw [String.toList_append, List.getLast?_append] at hc
        cases hl' : n.toList.getLast? with
        | none => exact absurd (List.getLast?_eq_none_iff.mp hl') hl
        | some d =>
          rw [hl'] at hc
          simp at hc
          rw [← hc]; exact mem_of_getLast? hl'
      exact lower_not_space (hall' c hm)
  have hpre : hasPrefix ("GET " ++ n) "GET " = true := by
    unfold hasPrefix
    rw [etl]
    have : ("GET " : String).toList = ['G', 'E', 'T', ' '] := rfl
    simp [this, isPrefixL]
  have hdrop : String.ofList (dropWhileL (· == ' ') (("GET " ++ n).toList.drop 4)) = n := by
    rw [etl]
    simp only [List.drop_succ_cons, List.drop_zero]
    rw [dropWhileL_of_head, String.ofList_toList]
    intro c hc
    have := hall' c (mem_of_head? hc)
    simp only [beq_eq_false_iff_ne, ne_eq]
    intro e
    rw [e] at this
    exact absurd this (by decide)
  unfold parseAction
  simp only [htrim, hpre, if_true, hdrop]
  have hb : (n != "") = true := by simpa using hne
  simp only [hb, hall, Bool.and_self, if_true]
  rfl

/-- what `NewRequest` does after the header lines: the optimiser's unwrapping of a single top-level
    `And` group and the resolution of the sort columns -/
def finish (o : ParseOpts) (t : Table) (req : Request) : PM Request :=
  let req := if o.optimize then
      { req with filter := optimizeIndentation (Filter.depthList req.filter + 1) req.filter }
    else req
  let sort := req.sort.map fun sf => { sf with col := t.col? sf.name }
  if sort.any (fun sf => sf.col.isNone) then throw (.bad "unknown sort column")
  else pure { req with sort := sort }

/-- `parseRequest` on a text written line by line: the `GET` line gives the table, the remaining
    lines go through `parseHeaderLines` (which stops at the empty line), then `finish` -/
theorem parseRequest_lines (s : Schema) (o : ParseOpts) (n : String) (t : Table) (ls : List String)
    (hn : tableNameOk n = true) (ht : s.table? n = some t) (hls : ∀ l ∈ ls, '\n' ∉ l.toList) :
    parseRequest s o (unlines (("GET " ++ n) :: ls) ++ "\n")
      = (parseHeaderLines o t { table := n } (ls ++ ["", ""])).bind (finish o t) := by
  have hget : '\n' ∉ ("GET " ++ n).toList := by
    simp only [tableNameOk, Bool.and_eq_true] at hn
    rw [String.toList_append]
    intro m
    rcases List.mem_append.mp m with m | m
    · exact absurd m (by decide)
    · have := List.all_eq_true.mp hn.2 _ m
      exact absurd this (by decide)
  have hsplit := splitLines_unlines (("GET " ++ n) :: ls) (by
    intro l hl
    rcases List.mem_cons.mp hl with e | h
    · rw [e]; exact hget
    · exact hls l h)
  unfold parseRequest
  simp only [hsplit, List.cons_append, parseAction_get n hn, bind, Except.bind, ht]
  rfl

/-! ## assembly -/

/-- the lines `ls` (none of them with a line break inside), in front of any further lines, take the
    parser from state `r` to state `f r` -/
def SectionActs (o : ParseOpts) (t : Table) (ls : List String) (f : Request → Request) : Prop :=
  (∀ l ∈ ls, '\n' ∉ l.toList) ∧
    ∀ (r : Request) (rest : List String),
      parseHeaderLines o t r (ls ++ rest) = parseHeaderLines o t (f r) rest

theorem sectionActs_nil (o : ParseOpts) (t : Table) (f : Request → Request) (hf : ∀ r, f r = r) :
    SectionActs o t [] f :=
  ⟨by simp, fun r rest => by simp [hf]⟩

/-- Reading back a printed request, with the four structured sections (filter, stats, wait
    conditions, sort) described by what their lines do to the parser state: the result is the
    request itself, with the count of filter lines recomputed. -/
theorem print_parse_sections (s : Schema) (o : ParseOpts) (t : Table) (req : Request)
    (hn : tableNameOk req.table = true) (ht : s.table? req.table = some t) (wf : FieldsOk req)
    (fl sl wcl sortl : List String) (nf ns : Nat) (sort0 : List SortField)
    (hfl : Filter.printList false req.filter = unlines fl)
    (hsl : String.join (req.stats.map StatsEntry.print) = unlines sl)
    (hwcl : String.join (req.waitCondition.map wcText) = unlines wcl)
    (hsortl : String.join (req.sort.map sortText) = unlines sortl)
    (af : SectionActs o t fl fun r =>
      { r with filter := r.filter ++ req.filter, numFilter := r.numFilter + nf })
    (ast : SectionActs o t sl fun r =>
      { r with stats := r.stats ++ req.stats, numFilter := r.numFilter + ns })
    (awc : SectionActs o t wcl fun r =>
      { r with waitCondition := r.waitCondition ++ req.waitCondition,
               numFilter := r.numFilter + req.waitCondition.length })
    (asort : SectionActs o t sortl fun r => { r with sort := r.sort ++ sort0 })
    (hopt : o.optimize = true →
      optimizeIndentation (Filter.depthList req.filter + 1) req.filter = req.filter)
    (hres : sort0.map (fun sf => { sf with col := t.col? sf.name }) = req.sort)
    (hcols : ∀ sf ∈ req.sort, sf.col.isSome = true) :
    parseRequest s o req.print
      = .ok { req with numFilter := nf + ns + req.waitCondition.length } := by
  have hp : req.print = unlines (("GET " ++ req.table) ::
      (preLines req ++ (fl ++ (sl ++ (waitLines req ++ (wcl ++ sortl)))))) ++ "\n" := by
    rw [print_sections, hfl, hsl, hwcl, hsortl]
    simp only [unlines_cons, unlines_append, String.append_assoc]
  have hnl : ∀ l ∈ preLines req ++ (fl ++ (sl ++ (waitLines req ++ (wcl ++ sortl)))),
      '\n' ∉ l.toList :=
    nonl_append (preLines_nonl req wf) (nonl_append af.1 (nonl_append ast.1
      (nonl_append (waitLines_nonl req wf) (nonl_append awc.1 asort.1))))
  have hany : (req.sort.any fun sf => sf.col.isNone) = false := by
    rw [List.any_eq_false]
    intro sf hsf
    have := hcols sf hsf
    cases h : sf.col <;> simp_all
  have hfin : ∀ r : Request, r.filter = req.filter → r.sort = sort0 →
      finish o t r = .ok { r with sort := req.sort } := by
    intro r hf hs
    unfold finish
    cases ho : o.optimize
    · simp only [Bool.false_eq_true, if_false, hs, hres, hany]
      rfl
    · have e := hopt ho
      simp only [if_true, hs, hres, hany, hf, e, Bool.false_eq_true, if_false]
      cases r
      simp_all
      rfl
  rw [hp, parseRequest_lines s o _ t _ hn ht hnl]
  simp only [List.append_assoc]
  rw [parse_preLines o t req wf _ rfl rfl rfl rfl rfl rfl rfl rfl, af.2, ast.2,
    parse_waitLines o t req wf _ rfl rfl rfl rfl rfl, awc.2, asort.2, parseHeaderLines_stop]
  show finish o t _ = _
  rw [hfin _ (by simp) (by simp)]
  cases req
  simp

/-! ## well-formed requests -/

/-- What a request must satisfy so that its plain header lines read back as they were written:
    the table name is one `GET` accepts (lower-case letters) and names a table of the schema;
    column and backend names are non-empty and free of white space (they are joined by blanks and
    split by `strings.Fields`); user name, wait trigger and wait object have no line break, no
    blank in front and no white space at the end (the parser strips both). -/
def headerWF (s : Schema) (req : Request) : Bool :=
  tableNameOk req.table && (s.table? req.table).isSome
    && req.columns.all wordOk && req.backends.all wordOk
    && valueOk req.authUser && valueOk req.waitTrigger && valueOk req.waitObject

/-- `headerWF` as a proposition (decidable) -/
def HeaderWF (s : Schema) (req : Request) : Prop := headerWF s req = true

instance (s : Schema) (req : Request) : Decidable (HeaderWF s req) := by
  unfold HeaderWF; infer_instance

theorem HeaderWF.fieldsOk {s : Schema} {req : Request} (h : HeaderWF s req) : FieldsOk req := by
  simp only [HeaderWF, headerWF, Bool.and_eq_true, List.all_eq_true] at h
  obtain ⟨⟨⟨⟨⟨⟨_, _⟩, hc⟩, hb⟩, ha⟩, ht⟩, ho⟩ := h
  exact ⟨hc, hb, ha, ht, ho⟩

theorem HeaderWF.tableName {s : Schema} {req : Request} (h : HeaderWF s req) :
    tableNameOk req.table = true := by
  simp only [HeaderWF, headerWF, Bool.and_eq_true] at h
  exact h.1.1.1.1.1.1

theorem HeaderWF.table {s : Schema} {req : Request} (h : HeaderWF s req) :
    ∃ t, s.table? req.table = some t := by
  simp only [HeaderWF, headerWF, Bool.and_eq_true] at h
  exact Option.isSome_iff_exists.mp h.1.1.1.1.1.2

/-! ## wait conditions made of single terms -/

/-- `line` is the `WaitCondition:` line lmd prints for the leaf `l`, it is a proper line, and
    the parser reads it back as the unmarked leaf `l` -/
def WaitLeafLine (o : ParseOpts) (t : Table) (l : Leaf) (line : String) : Prop :=
  line ++ "\n" = l.printLine "WaitCondition" ∧ GoodLine line ∧
    ∀ r : Request, parseHeaderLine o t r line
      = .ok { r with waitCondition := r.waitCondition ++ [.leaf l false],
                     numFilter := r.numFilter + 1 }

/-- the lines of a wait condition, given the text of the leaf lines -/
def wcLines (ll : Leaf → String) (wc : List Filter) : List String :=
  wc.map fun f => match f with
    | .leaf l _ => ll l
    | .grp .. => ""

theorem wc_text (o : ParseOpts) (t : Table) (ll : Leaf → String) (wc : List Filter)
    (h : ∀ f ∈ wc, ∃ l, f = .leaf l false ∧ WaitLeafLine o t l (ll l)) :
    String.join (wc.map wcText) = unlines (wcLines ll wc) := by
  induction wc with
  | nil => simp [wcLines, unlines_nil]
  | cons f fs ih =>
    obtain ⟨l, rfl, h1, _, _⟩ := h f List.mem_cons_self
    have := ih (fun x hx => h x (List.mem_cons_of_mem _ hx))
    simp only [wcLines, List.map_cons, String.join_cons, unlines_cons] at this ⊢
    rw [this, wcText, h1]

theorem wc_acts (o : ParseOpts) (t : Table) (ll : Leaf → String) (wc : List Filter)
    (h : ∀ f ∈ wc, ∃ l, f = .leaf l false ∧ WaitLeafLine o t l (ll l)) :
    SectionActs o t (wcLines ll wc) fun r =>
      { r with waitCondition := r.waitCondition ++ wc, numFilter := r.numFilter + wc.length } := by
  induction wc with
  | nil =>
    exact sectionActs_nil o t _ (fun r => by cases r; simp)
  | cons f fs ih =>
    obtain ⟨l, rfl, _, g, hp⟩ := h f List.mem_cons_self
    obtain ⟨ih1, ih2⟩ := ih (fun x hx => h x (List.mem_cons_of_mem _ hx))
    refine ⟨?_, ?_⟩
    · intro x hx
      simp only [wcLines, List.map_cons, List.mem_cons] at hx
      rcases hx with e | hx
      · rw [e]; exact g.nonl
      · exact ih1 x hx
    · intro r rest
      simp only [wcLines, List.map_cons, List.cons_append]
      rw [parseHeaderLines_ok g (hp r)]
      have := ih2 { r with waitCondition := r.waitCondition ++ [.leaf l false],
                           numFilter := r.numFilter + 1 } rest
      simp only [wcLines] at this
      rw [this]
      congr 1
      simp [Nat.add_assoc, Nat.add_comm 1]

end Lmd.Headers
