/-
  Lmd.Lemmas.ClusterLemmas — helper lemmas about `quotasFrom`, `quotas`, `handOut`, `redistribute`
  (Lmd/Cluster.lean) for the property C18.
-/
import Lmd.Cluster

namespace Lmd.ClusterL
open Lmd

/-- number of online nodes of a view -/
def nOnline (online : List Bool) : Nat := (online.filter id).length

@[simp] theorem nOnline_nil : nOnline [] = 0 := rfl
@[simp] theorem nOnline_false (r : List Bool) : nOnline (false :: r) = nOnline r := by simp [nOnline]
@[simp] theorem nOnline_true (r : List Bool) : nOnline (true :: r) = nOnline r + 1 := by simp [nOnline]

/-- `quotas` with the let unfolded and the count named -/
theorem quotas_eq (online : List Bool) (n : Nat) :
    quotas online n = if n ≤ nOnline online then online.map fun on => if on then 1 else 0
      else quotasFrom (n / nOnline online) (n % nOnline online) online := rfl

/-! ## lengths -/

theorem quotasFrom_length (base : Nat) (rem : Nat) (online : List Bool) :
    (quotasFrom base rem online).length = online.length := by
  induction online generalizing rem with
  | nil => simp [quotasFrom]
  | cons b rest ih =>
    cases b with
    | false => simp [quotasFrom, ih]
    | true => cases rem <;> simp [quotasFrom, ih]

theorem quotas_length (online : List Bool) (n : Nat) : (quotas online n).length = online.length := by
  rw [quotas_eq]
  split
  · simp
  · exact quotasFrom_length _ _ _

theorem handOut_length (qs : List Nat) (bs : List String) : (handOut qs bs).length = qs.length := by
  induction qs generalizing bs with
  | nil => simp [handOut]
  | cons q qs ih => simp [handOut, ih]

/-! ## the quotas -/

/-- the i-th quota of `quotasFrom`: nothing for an offline node, `base` or `base + 1` for an online one, and
    `base + 1` only while a remainder is left -/
theorem quotasFrom_getElem? (base : Nat) (rem : Nat) (online : List Bool) (i : Nat) (b : Bool)
    (h : online[i]? = some b) :
    ∃ q, (quotasFrom base rem online)[i]? = some q ∧
      (b = false → q = 0) ∧ (b = true → q = base ∨ (q = base + 1 ∧ 0 < rem)) := by
  induction online generalizing rem i with
  | nil => simp at h
  | cons c rest ih =>
    cases i with
    | zero =>
      simp only [List.getElem?_cons_zero, Option.some.injEq] at h
      subst h
      cases c with
      | false => exact ⟨0, by simp [quotasFrom]⟩
      | true =>
        cases rem with
        | zero => exact ⟨base, by simp [quotasFrom]⟩
        | succ r => exact ⟨base + 1, by simp [quotasFrom]⟩
    | succ i =>
      simp only [List.getElem?_cons_succ] at h
      cases c with
      | false =>
        obtain ⟨q, h1, h2, h3⟩ := ih rem i h
        exact ⟨q, by simpa [quotasFrom] using h1, h2, h3⟩
      | true =>
        cases rem with
        | zero =>
          obtain ⟨q, h1, h2, h3⟩ := ih 0 i h
          exact ⟨q, by simpa [quotasFrom] using h1, h2, h3⟩
        | succ r =>
          obtain ⟨q, h1, h2, h3⟩ := ih r i h
          refine ⟨q, by simpa [quotasFrom] using h1, h2, fun hb => ?_⟩
          rcases h3 hb with h | ⟨h, _⟩
          · exact .inl h
          · exact .inr ⟨h, Nat.succ_pos _⟩

/-- the quotas of `quotasFrom` add up to `base` per online node plus the remainder (as far as there are
    online nodes to take it) -/
theorem quotasFrom_sum (base : Nat) (rem : Nat) (online : List Bool) :
    (quotasFrom base rem online).sum = base * nOnline online + min rem (nOnline online) := by
  induction online generalizing rem with
  | nil => simp [quotasFrom]
  | cons c rest ih =>
    cases c with
    | false => simpa [quotasFrom] using ih rem
    | true =>
      cases rem with
      | zero =>
        have := ih 0
        simp only [quotasFrom, List.sum_cons, nOnline_true, Nat.mul_succ] at this ⊢
        omega
      | succ r =>
        have := ih r
        simp only [quotasFrom, List.sum_cons, nOnline_true, Nat.mul_succ] at this ⊢
        omega

/-- how many nodes of `quotasFrom` get `base + 1`: as many as the remainder says (at most all online ones) -/
theorem quotasFrom_count_succ (base : Nat) (rem : Nat) (online : List Bool) :
    ((quotasFrom base rem online).filter (· = base + 1)).length = min rem (nOnline online) := by
  induction online generalizing rem with
  | nil => simp [quotasFrom]
  | cons c rest ih =>
    cases c with
    | false =>
      have := ih rem
      simpa [quotasFrom, List.filter_cons] using this
    | true =>
      cases rem with
      | zero =>
        have := ih 0
        simp only [quotasFrom, nOnline_true, List.filter_cons] at this ⊢
        simp at this ⊢
        exact this
      | succ r =>
        have := ih r
        simp only [quotasFrom, nOnline_true, List.filter_cons] at this ⊢
        simp at this ⊢
        omega

theorem sum_indicator (online : List Bool) :
    (online.map fun on => if on then 1 else 0).sum = nOnline online := by
  induction online with
  | nil => simp
  | cons c rest ih =>
    cases c <;> simp at ih ⊢ <;> omega

/-- with fewer online nodes than backends (and at least one online) the quotas add up to exactly the
    number of backends -/
theorem quotas_sum_eq (online : List Bool) (n : Nat) (h0 : 0 < nOnline online) (h : nOnline online < n) :
    (quotas online n).sum = n := by
  rw [quotas_eq, if_neg (by omega), quotasFrom_sum]
  have h1 := Nat.mod_lt n h0
  have h2 := Nat.div_add_mod n (nOnline online)
  rw [Nat.mul_comm] at h2
  omega

/-- with at least as many online nodes as backends the quotas add up to the number of online nodes -/
theorem quotas_sum_ge (online : List Bool) (n : Nat) (h : n ≤ nOnline online) :
    (quotas online n).sum = nOnline online := by
  rw [quotas_eq, if_pos h]
  exact sum_indicator online

/-- the quotas always cover all backends when a node is online -/
theorem quotas_sum_ge_length (online : List Bool) (n : Nat) (h0 : 0 < nOnline online) :
    n ≤ (quotas online n).sum := by
  by_cases h : n ≤ nOnline online
  · rw [quotas_sum_ge online n h]; exact h
  · rw [quotas_sum_eq online n h0 (by omega)]; exact Nat.le_refl _

theorem nOnline_pos_of_mem {online : List Bool} (h : true ∈ online) : 0 < nOnline online := by
  unfold nOnline
  apply List.length_pos_of_mem (a := true)
  simp [h]

/-- the i-th quota: 0 for an offline node; for an online node 1 when there are at least as many online
    nodes as backends, otherwise ⌊B/N⌋ or — only when B mod N ≠ 0 — ⌊B/N⌋ + 1 -/
theorem quotas_getElem? (online : List Bool) (n : Nat) (i : Nat) (b : Bool) (h : online[i]? = some b) :
    ∃ q, (quotas online n)[i]? = some q ∧ (b = false → q = 0) ∧
      (b = true → (n ≤ nOnline online → q = 1) ∧
        (nOnline online < n → q = n / nOnline online ∨
          (q = n / nOnline online + 1 ∧ 0 < n % nOnline online))) := by
  rw [quotas_eq]
  split
  next hge =>
    refine ⟨if b then 1 else 0, by simp [h], by intro hb; simp [hb], ?_⟩
    intro hb
    refine ⟨fun _ => by simp [hb], fun hlt => ?_⟩
    omega
  next hlt =>
    obtain ⟨q, h1, h2, h3⟩ := quotasFrom_getElem? (n / nOnline online)
      (n % nOnline online) online i b h
    refine ⟨q, h1, h2, fun hb => ⟨fun hle => ?_, fun _ => h3 hb⟩⟩
    omega

/-! ## handing out -/

theorem filter_take_drop (p : String → Bool) (q : Nat) (bs : List String) :
    (bs.take q).filter p ++ (bs.drop q).filter p = bs.filter p := by
  rw [← List.filter_append, List.take_append_drop]

/-- handing out with quotas that cover the list yields, concatenated, the list (without the empty ids) -/
theorem handOut_flatten (qs : List Nat) (bs : List String) (h : bs.length ≤ qs.sum) :
    (handOut qs bs).flatten = bs.filter (· != "") := by
  induction qs generalizing bs with
  | nil =>
    have : bs = [] := List.eq_nil_of_length_eq_zero (by simpa using h)
    subst this; simp [handOut]
  | cons q qs ih =>
    simp only [handOut, List.flatten_cons]
    rw [ih (bs.drop q) (by simp only [List.length_drop, List.sum_cons] at h ⊢; omega)]
    exact filter_take_drop _ q bs

/-- the i-th list handed out is the slice of the backend list that starts after the quotas of the nodes
    before i and is as long as the i-th quota, without empty ids -/
theorem handOut_getElem? (qs : List Nat) (bs : List String) (i : Nat) :
    (handOut qs bs)[i]? =
      qs[i]?.map fun q => ((bs.drop (qs.take i).sum).take q).filter (· != "") := by
  induction qs generalizing bs i with
  | nil => simp [handOut]
  | cons q qs ih =>
    cases i with
    | zero => simp [handOut]
    | succ i =>
      simp only [handOut, List.getElem?_cons_succ, ih, List.take_succ_cons, List.sum_cons,
        List.drop_drop]

theorem take_sum_add_le (qs : List Nat) (i : Nat) (q : Nat) (h : qs[i]? = some q) :
    (qs.take i).sum + q ≤ qs.sum := by
  induction qs generalizing i with
  | nil => simp at h
  | cons a qs ih =>
    cases i with
    | zero =>
      simp only [List.getElem?_cons_zero, Option.some.injEq] at h
      subst h; simp
    | succ i =>
      simp only [List.getElem?_cons_succ] at h
      have := ih i h
      simp only [List.take_succ_cons, List.sum_cons]
      omega

theorem filter_nonempty_id {bs : List String} (h : ∀ b ∈ bs, b ≠ "") : bs.filter (· != "") = bs := by
  rw [List.filter_eq_self]
  intro b hb
  simpa using h b hb

/-- without empty ids and with quotas that do not exceed the list, the i-th node gets exactly its quota -/
theorem handOut_getElem?_length (qs : List Nat) (bs : List String) (i q : Nat) (hq : qs[i]? = some q)
    (hne : ∀ b ∈ bs, b ≠ "") (hs : qs.sum ≤ bs.length) :
    ∃ l, (handOut qs bs)[i]? = some l ∧ l.length = q := by
  refine ⟨_, by rw [handOut_getElem?, hq]; rfl, ?_⟩
  show (((bs.drop (qs.take i).sum).take q).filter (· != "")).length = q
  rw [filter_nonempty_id]
  · have := take_sum_add_le qs i q hq
    simp only [List.length_take, List.length_drop]
    omega
  · intro b hb
    exact hne b (List.mem_of_mem_drop (List.mem_of_mem_take hb))

/-- in any case the i-th node gets at most its quota -/
theorem handOut_getElem?_length_le (qs : List Nat) (bs : List String) (i q : Nat) (hq : qs[i]? = some q) :
    ∃ l, (handOut qs bs)[i]? = some l ∧ l.length ≤ q := by
  refine ⟨_, by rw [handOut_getElem?, hq]; rfl, ?_⟩
  show (((bs.drop (qs.take i).sum).take q).filter (· != "")).length ≤ q
  refine Nat.le_trans (List.length_filter_le _ _) ?_
  simp only [List.length_take]
  omega

end Lmd.ClusterL
