/-
  Lmd.Lemmas.AuthWholeLemmas — helper lemmas for C08Whole (whole-answer non-disclosure):
  monotonicity of the visibility specification `C08.mayView` in the contact relation and in the
  authorisation settings, the per-backend row loop under a weaker / stronger authorisation test,
  users who are contact of nothing, and the row loop as a function of the visible rows only.
-/
import Lmd.Props.C08
import Lmd.Props.C01Ops
import Lmd.Props.C05Whole

namespace Lmd.AuthWhole
open Lmd Lmd.C08 Lmd.Sort Lmd.Union Lmd.C05

/-! ## 0. lists -/

theorem filter_sublist_filter {α : Type} (p q : α → Bool) :
    ∀ l : List α, (∀ a ∈ l, p a = true → q a = true) → (l.filter p).Sublist (l.filter q)
  | [], _ => List.Sublist.slnil
  | a :: l, h => by
    have ih := filter_sublist_filter p q l (fun x hx => h x (List.mem_cons_of_mem _ hx))
    by_cases hp : p a = true
    · have hq := h a (List.mem_cons_self ..) hp
      rw [List.filter_cons_of_pos hp, List.filter_cons_of_pos hq]
      exact ih.cons_cons a
    · rw [List.filter_cons_of_neg hp]
      by_cases hq : q a = true
      · rw [List.filter_cons_of_pos hq]; exact ih.cons a
      · rw [List.filter_cons_of_neg hq]; exact ih

theorem sublist_flatMap_pointwise {α β : Type} (f g : α → List β) :
    ∀ l : List α, (∀ a ∈ l, (f a).Sublist (g a)) → (l.flatMap f).Sublist (l.flatMap g)
  | [], _ => List.Sublist.slnil
  | a :: l, h => by
    rw [List.flatMap_cons, List.flatMap_cons]
    exact (h a (List.mem_cons_self ..)).append
      (sublist_flatMap_pointwise f g l (fun x hx => h x (List.mem_cons_of_mem _ hx)))

theorem length_flatMap_sum {α β : Type} (f : α → List β) :
    ∀ l : List α, (l.flatMap f).length = (l.map (fun a => (f a).length)).sum
  | [] => rfl
  | a :: l => by
    rw [List.flatMap_cons, List.length_append, length_flatMap_sum f l, List.map_cons, List.sum_cons]

/-! ## 1. the visibility specification is monotone -/

/-- group rule: monotone in the mode (strict below loose) and in the member test -/
theorem viewMembers_mono {α : Type} (l l' : Bool) (v v' : α → Bool) (ms : List α)
    (hl : l = true → l' = true) (hv : ∀ m ∈ ms, v m = true → v' m = true)
    (h : viewMembers l v ms = true) : viewMembers l' v' ms = true := by
  unfold viewMembers at h ⊢
  cases l <;> cases l'
  · simp only [Bool.false_eq_true, if_false, Bool.and_eq_true, Bool.not_eq_true', List.all_eq_true] at h ⊢
    exact ⟨h.1, fun m hm => hv m hm (h.2 m hm)⟩
  · simp only [Bool.false_eq_true, if_false, Bool.and_eq_true, Bool.not_eq_true', List.all_eq_true] at h
    simp only [if_true, List.any_eq_true]
    cases ms with
    | nil => simp at h
    | cons m ms => exact ⟨m, List.mem_cons_self .., hv m (List.mem_cons_self ..) (h.2 m (List.mem_cons_self ..))⟩
  · exact absurd (hl rfl) (by simp)
  · simp only [if_true, List.any_eq_true] at h ⊢
    obtain ⟨m, hm, hvm⟩ := h
    exact ⟨m, hm, hv m hm hvm⟩

/-- "`u'` on `cx'` is allowed at least what `u` on `cx` is allowed": the host and service contact relation
    grows, hosts that exist keep existing, the group tables list the same members, and the authorisation
    settings are the same or move from strict to loose (then a service naming `u` must have its host) -/
structure ContactLe (cx cx' : Ctx) (u u' : String) : Prop where
  sal : cx.ds.serviceAuthLoose = true → cx'.ds.serviceAuthLoose = true
  gal : cx.ds.groupAuthLoose = true → cx'.ds.groupAuthLoose = true
  hostExists : ∀ h, (hostRow cx h).isSome = true → (hostRow cx' h).isSome = true
  host : ∀ h, hostContact cx u h = true → hostContact cx' u' h = true
  svc : ∀ h s, svcContact cx u h s = true → svcContact cx' u' h s = true
  orphan : cx.ds.serviceAuthLoose = false → cx'.ds.serviceAuthLoose = true →
    ∀ h s, svcContact cx u h s = true → (hostRow cx' h).isSome = true
  hg : ∀ g, (hostgroupRow cx g).map (·.strList "members") = (hostgroupRow cx' g).map (·.strList "members")
  sg : ∀ g, (servicegroupRow cx g).map (·.members "members") = (servicegroupRow cx' g).map (·.members "members")

variable {cx cx' : Ctx} {u u' : String}

theorem viewService_mono (hle : ContactLe cx cx' u u') (h s : String)
    (hv : viewService cx u h s = true) : viewService cx' u' h s = true := by
  unfold viewService at hv ⊢
  cases hl : cx.ds.serviceAuthLoose <;> cases hl' : cx'.ds.serviceAuthLoose
  · simp only [hl, Bool.false_eq_true, if_false] at hv ⊢
    exact hle.svc h s hv
  · simp only [hl, Bool.false_eq_true, if_false] at hv
    simp only [if_true, Bool.and_eq_true, Bool.or_eq_true]
    exact ⟨hle.orphan hl hl' h s hv, Or.inr (hle.svc h s hv)⟩
  · have := hle.sal hl
    rw [hl'] at this
    exact absurd this (by simp)
  · simp only [hl, if_true, Bool.and_eq_true, Bool.or_eq_true] at hv ⊢
    refine ⟨hle.hostExists h hv.1, ?_⟩
    rcases hv.2 with hh | hs
    · exact Or.inl (hle.host h hh)
    · exact Or.inr (hle.svc h s hs)

theorem viewObject_mono (hle : ContactLe cx cx' u u') (h s : String)
    (hv : viewObject cx u h s = true) : viewObject cx' u' h s = true := by
  unfold viewObject at hv ⊢
  by_cases hs : s = ""
  · simp only [hs, if_true, viewHost] at hv ⊢
    exact hle.host h hv
  · simp only [hs, if_false] at hv ⊢
    exact viewService_mono hle h s hv

theorem viewHostGroup_mono (hle : ContactLe cx cx' u u') (g : String)
    (hv : viewHostGroup cx u g = true) : viewHostGroup cx' u' g = true := by
  unfold viewHostGroup at hv ⊢
  have hg := hle.hg g
  cases h1 : hostgroupRow cx g with
  | none => simp [h1] at hv
  | some gr =>
    cases h2 : hostgroupRow cx' g with
    | none => simp [h1, h2] at hg
    | some gr' =>
      simp only [h1, h2, Option.map_some, Option.some.injEq] at hg hv ⊢
      rw [← hg]
      exact viewMembers_mono _ _ _ _ _ hle.gal (fun m _ hm => hle.host m hm) hv

theorem viewServiceGroup_mono (hle : ContactLe cx cx' u u') (g : String)
    (hv : viewServiceGroup cx u g = true) : viewServiceGroup cx' u' g = true := by
  unfold viewServiceGroup at hv ⊢
  have hg := hle.sg g
  cases h1 : servicegroupRow cx g with
  | none => simp [h1] at hv
  | some gr =>
    cases h2 : servicegroupRow cx' g with
    | none => simp [h1, h2] at hg
    | some gr' =>
      simp only [h1, h2, Option.map_some, Option.some.injEq] at hg hv ⊢
      rw [← hg]
      exact viewMembers_mono _ _ _ _ _ hle.gal (fun m _ hm => viewObject_mono hle m.1 m.2 hm) hv

/-- the specification is monotone: what `u` may view on `cx`, `u'` may view on `cx'`
    (for rows `r`, `r'` carrying the same names) -/
theorem mayView_mono (hle : ContactLe cx cx' u u') (hu : u ≠ "") (t : Table) (r r' : Row)
    (hk : ∀ n, r'.str t n = r.str t n) (hv : mayView cx t u r = true) : mayView cx' t u' r' = true := by
  unfold mayView at hv ⊢
  by_cases hu' : u' = ""
  · simp [hu']
  · simp only [hu, hu', if_false, hk] at hv ⊢
    split at hv <;> (try simp only [Bool.and_eq_true] at hv ⊢)
    · exact hle.host _ hv
    · exact viewObject_mono hle _ _ hv
    · exact viewHostGroup_mono hle _ hv
    · exact viewServiceGroup_mono hle _ hv
    · exact ⟨hle.host _ hv.1, viewHostGroup_mono hle _ hv.2⟩
    · exact ⟨viewObject_mono hle _ _ hv.1, viewServiceGroup_mono hle _ hv.2⟩
    · exact ⟨viewObject_mono hle _ _ hv.1, viewHostGroup_mono hle _ hv.2⟩
    · exact viewObject_mono hle _ _ hv
    · exact viewObject_mono hle _ _ hv

/-! ## 2. contexts on the same backend data -/

/-- two contexts with the same schema and the same backend: the datasets may differ in the authorisation
    settings (and in their other backends) -/
structure SameData (cx cx' : Ctx) : Prop where
  schema : cx.schema = cx'.schema
  b : cx.b = cx'.b

section SameData
variable {cx cx' : Ctx}

theorem table_sd (h : SameData cx cx') (n : String) : cx.table n = cx'.table n := by
  simp only [Ctx.table, h.schema]

theorem refRow_sd (h : SameData cx cx') (t : Table) (r : Row) (rt : String) :
    refRow cx t r rt = refRow cx' t r rt := by
  simp only [refRow, table_sd h, h.b]

theorem virtVal_sd (h : SameData cx cx') (t : Table) (r : Row) (c : Column) :
    virtVal cx t r c = virtVal cx' t r c := by
  simp only [virtVal, h.schema, h.b, table_sd h]

theorem getVal_sd (h : SameData cx cx') (t : Table) (r : Row) (c : Column) :
    getVal cx t r c = getVal cx' t r c := by
  simp only [getVal, refRow_sd h, virtVal_sd h, table_sd h, h.b]

theorem mkView_sd (h : SameData cx cx') (t : Table) : mkView cx t = mkView cx' t := by
  funext r
  have : getVal cx t r = getVal cx' t r := funext (getVal_sd h t r)
  simp only [mkView, this, h.b]

theorem groupByRows_sd (h : SameData cx cx') (t : Table) : groupByRows cx t = groupByRows cx' t := by
  simp only [groupByRows, refRow_sd h, table_sd h, h.b]

theorem tableRows_sd (h : SameData cx cx') (t : Table) : tableRows cx t = tableRows cx' t := by
  simp only [tableRows, groupByRows_sd h, h.b]

theorem leafIndexKeys_sd (h : SameData cx cx') (k : IndexKind) (t : Table) (l : Leaf) :
    leafIndexKeys cx k t l = leafIndexKeys cx' k t l := by
  simp only [leafIndexKeys, table_sd h, h.b]

theorem preFiltered_sd (h : SameData cx cx') (t : Table) (rows : List Row) (fs : List Filter) :
    preFiltered cx t rows fs = preFiltered cx' t rows fs := by
  have : ∀ k, leafIndexKeys cx k t = leafIndexKeys cx' k t := fun k => funext (leafIndexKeys_sd h k t)
  simp only [preFiltered, this]

theorem hostRow_sd (h : SameData cx cx') (x : String) : hostRow cx x = hostRow cx' x := by
  simp only [hostRow, table_sd h, h.b]

theorem svcRow_sd (h : SameData cx cx') (x y : String) : svcRow cx x y = svcRow cx' x y := by
  simp only [svcRow, table_sd h, h.b]

theorem hostgroupRow_sd (h : SameData cx cx') (g : String) : hostgroupRow cx g = hostgroupRow cx' g := by
  simp only [hostgroupRow, table_sd h, h.b]

theorem servicegroupRow_sd (h : SameData cx cx') (g : String) : servicegroupRow cx g = servicegroupRow cx' g := by
  simp only [servicegroupRow, table_sd h, h.b]

theorem hostContact_sd (h : SameData cx cx') (u x : String) : hostContact cx u x = hostContact cx' u x := by
  simp only [hostContact, hostRow_sd h]

theorem svcContact_sd (h : SameData cx cx') (u x y : String) : svcContact cx u x y = svcContact cx' u x y := by
  simp only [svcContact, svcRow_sd h]

/-- on the same backend data: the same user, the settings the same or moved from strict to loose -/
theorem contactLe_of_sameData (h : SameData cx cx') (u : String)
    (sal : cx.ds.serviceAuthLoose = true → cx'.ds.serviceAuthLoose = true)
    (gal : cx.ds.groupAuthLoose = true → cx'.ds.groupAuthLoose = true)
    (orphan : cx.ds.serviceAuthLoose = false → cx'.ds.serviceAuthLoose = true →
      ∀ x y, svcContact cx u x y = true → (hostRow cx x).isSome = true) :
    ContactLe cx cx' u u where
  sal := sal
  gal := gal
  hostExists := fun x hx => by rw [← hostRow_sd h]; exact hx
  host := fun x hx => by rw [← hostContact_sd h]; exact hx
  svc := fun x y hx => by rw [← svcContact_sd h]; exact hx
  orphan := fun h1 h2 x y hx => by rw [← hostRow_sd h]; exact orphan h1 h2 x y hx
  hg := fun g => by rw [hostgroupRow_sd h]
  sg := fun g => by rw [servicegroupRow_sd h]

/-- the matching rows under a weaker authorisation test contain the matching rows under a stronger one,
    in the same order -/
theorem matchingRows_sublist (h : SameData cx cx') (m : EvalMode) (t : Table) (f : List Filter) (u u' : String)
    (himp : ∀ r, checkAuth cx t u r = true → checkAuth cx' t u' r = true) :
    (matchingRows m cx t f u).Sublist (matchingRows m cx' t f u') := by
  unfold matchingRows
  rw [tableRows_sd h, preFiltered_sd h, mkView_sd h]
  apply filter_sublist_filter
  intro r _ hr
  rw [Bool.and_eq_true] at hr ⊢
  exact ⟨hr.1, himp r hr.2⟩

theorem mkHit_sd (h : SameData cx cx') (t : Table) (sort : List SortField) :
    mkHit cx t sort = mkHit cx' t sort := by
  funext r
  simp only [mkHit, mkView_sd h, h.b]

theorem peerCut_of_no_limit (m : EvalMode) (req : Request) (hl : req.limit = none) : peerCut m req = none := by
  simp [peerCut, resultLimit, hl]

/-- the rows one backend returns under a weaker authorisation test contain the rows it returns under a
    stronger one, in the same order (no per-backend cut) -/
theorem gatherRows_hits_sublist (h : SameData cx cx') (m : EvalMode) (t : Table) (req req' : Request)
    (hf : req'.filter = req.filter) (hs : req'.sort = req.sort)
    (hcut : peerCut m req = none) (hcut' : peerCut m req' = none)
    (himp : ∀ r, checkAuth cx t req.authUser r = true → checkAuth cx' t req'.authUser r = true) :
    (gatherRows m cx t req).hits.Sublist (gatherRows m cx' t req').hits := by
  rw [gatherRows_hits, gatherRows_hits, hcut, hcut']
  simp only [fullHits, hf, hs, mkHit_sd h]
  exact (matchingRows_sublist h m t req.filter _ _ himp).map _

end SameData

/-- the whole answer (no `Limit:`, no `Offset:`): if every backend returns a sublist, every returned row is
    returned, and without `Sort:` the answer is a sublist -/
theorem dataQuery_contained (m : EvalMode) (s : Schema) (ds ds' : Dataset) (t : Table) (req req' : Request)
    (hl : req.limit = none) (ho : req.offset = 0) (hl' : req'.limit = none) (ho' : req'.offset = 0)
    (hav : availBackends ds' t req' = availBackends ds t req) (hsort : req'.sort = req.sort)
    (hsub : ∀ b ∈ availBackends ds t req,
      (gatherRows m { schema := s, ds := ds, b := b } t req).hits.Sublist
        (gatherRows m { schema := s, ds := ds', b := b } t req').hits) :
    (∀ h ∈ (dataQuery m s ds t req).hits, h ∈ (dataQuery m s ds' t req').hits) ∧
    (req.sort = [] → (dataQuery m s ds t req).hits.Sublist (dataQuery m s ds' t req').hits) := by
  have hc : (collected m s ds t req).Sublist (collected m s ds' t req') := by
    rw [collected_eq_flatMap, collected_eq_flatMap, hav]
    exact sublist_flatMap_pointwise _ _ _ hsub
  rw [hits_eq_sortHits m s ds t req hl ho, hits_eq_sortHits m s ds' t req' hl' ho']
  constructor
  · intro h hh
    rw [(sortHits_perm req _).mem_iff] at hh
    rw [(sortHits_perm req' _).mem_iff]
    exact hc.subset hh
  · intro hs
    rw [sortHits_nosort req hs, sortHits_nosort req' (hsort.trans hs)]
    exact hc

/-! ## 3. two users on one store -/

/-- wherever `u` is named as a contact of a host or a service of the backend, `u'` is named too -/
def Dominates (cx : Ctx) (u u' : String) : Prop :=
  (∀ r ∈ cx.b.rows "hosts", u ∈ r.strList "contacts" → u' ∈ r.strList "contacts") ∧
  (∀ r ∈ cx.b.rows "services", u ∈ r.strList "contacts" → u' ∈ r.strList "contacts")

theorem contactLe_of_dominates {cx : Ctx} {u u' : String} (h : Dominates cx u u') : ContactLe cx cx u u' where
  sal := id
  gal := id
  hostExists := fun _ hx => hx
  host := fun x hx => by
    unfold hostContact listsContact at hx ⊢
    cases hr : hostRow cx x with
    | none => simp [hr] at hx
    | some r =>
      have hm : r ∈ cx.b.rows "hosts" := (Lemmas.findByKey_some hr).1
      simp only [hr, Option.any_some, List.contains_eq_mem, decide_eq_true_eq] at hx ⊢
      exact h.1 r hm hx
  svc := fun x y hx => by
    unfold svcContact listsContact at hx ⊢
    cases hr : svcRow cx x y with
    | none => simp [hr] at hx
    | some r =>
      have hm : r ∈ cx.b.rows "services" := (Lemmas.findByKey_some hr).1
      simp only [hr, Option.any_some, List.contains_eq_mem, decide_eq_true_eq] at hx ⊢
      exact h.2 r hm hx
  orphan := fun h1 h2 => by rw [h1] at h2; cases h2
  hg := fun _ => rfl
  sg := fun _ => rfl

/-! ## 4. a user who is a contact of nothing -/

/-- no host and no service of the backend names `u` as a contact -/
def NoContact (cx : Ctx) (u : String) : Prop :=
  (∀ r ∈ cx.b.rows "hosts", u ∉ r.strList "contacts") ∧
  (∀ r ∈ cx.b.rows "services", u ∉ r.strList "contacts")

section NoContact
variable {cx : Ctx} {u : String}

theorem hostContact_noContact (hn : NoContact cx u) (x : String) : hostContact cx u x = false := by
  unfold hostContact listsContact
  cases hr : hostRow cx x with
  | none => rfl
  | some r =>
    have hm : r ∈ cx.b.rows "hosts" := (Lemmas.findByKey_some hr).1
    simpa using hn.1 r hm

theorem svcContact_noContact (hn : NoContact cx u) (x y : String) : svcContact cx u x y = false := by
  unfold svcContact listsContact
  cases hr : svcRow cx x y with
  | none => rfl
  | some r =>
    have hm : r ∈ cx.b.rows "services" := (Lemmas.findByKey_some hr).1
    simpa using hn.2 r hm

theorem viewObject_noContact (hn : NoContact cx u) (x y : String) : viewObject cx u x y = false := by
  unfold viewObject viewHost viewService
  simp [hostContact_noContact hn, svcContact_noContact hn]

theorem viewMembers_false {α : Type} (l : Bool) (ms : List α) : viewMembers l (fun _ => false) ms = false := by
  unfold viewMembers
  cases l <;> cases ms <;> simp

theorem viewHostGroup_noContact (hn : NoContact cx u) (g : String) : viewHostGroup cx u g = false := by
  unfold viewHostGroup
  cases hostgroupRow cx g with
  | none => rfl
  | some gr =>
    have : viewHost cx u = fun _ => false := funext (fun x => hostContact_noContact hn x)
    simp only [this]
    exact viewMembers_false _ _

theorem viewServiceGroup_noContact (hn : NoContact cx u) (g : String) : viewServiceGroup cx u g = false := by
  unfold viewServiceGroup
  cases servicegroupRow cx g with
  | none => rfl
  | some gr =>
    have : (fun (m : String × String) => viewObject cx u m.1 m.2) = fun _ => false :=
      funext (fun m => viewObject_noContact hn m.1 m.2)
    simp only [this]
    exact viewMembers_false _ _

/-- nothing of the nine authorised tables is visible to a user who is a contact of nothing -/
theorem mayView_noContact (hn : NoContact cx u) (hu : u ≠ "") (t : Table) (ht : t.name ∈ authTables) (r : Row) :
    mayView cx t u r = false := by
  have hH : ∀ x, viewHost cx u x = false := fun x => hostContact_noContact hn x
  have hO := viewObject_noContact hn
  have hG := viewHostGroup_noContact hn
  have hS := viewServiceGroup_noContact hn
  unfold mayView
  rw [if_neg hu]
  split <;> first
    | (simp [hH, hO, hG, hS]; done)
    | (exfalso; simp only [authTables, List.mem_cons, List.not_mem_nil, or_false] at ht; simp_all)

end NoContact

theorem matchingRows_nil (m : EvalMode) (cx : Ctx) (t : Table) (f : List Filter) (u : String)
    (hfalse : ∀ r, checkAuth cx t u r = false) : matchingRows m cx t f u = [] := by
  unfold matchingRows
  simp [hfalse]

theorem gatherRows_nil (m : EvalMode) (cx : Ctx) (t : Table) (req : Request)
    (hfalse : ∀ r, checkAuth cx t req.authUser r = false) :
    (gatherRows m cx t req).hits = [] ∧ (gatherRows m cx t req).total = 0 := by
  have hf : fullHits m cx t req = [] := by
    unfold fullHits; rw [matchingRows_nil m cx t _ _ hfalse]; rfl
  rw [gatherRows_eq, hf]
  cases peerCut m req <;> simp

theorem sum_map_zero {α : Type} (f : α → Nat) : ∀ l : List α, (∀ a ∈ l, f a = 0) → (l.map f).sum = 0
  | [], _ => rfl
  | a :: l, h => by
    rw [List.map_cons, List.sum_cons, h a (List.mem_cons_self ..),
      sum_map_zero f l (fun x hx => h x (List.mem_cons_of_mem _ hx))]

/-- whole answer when no available backend shows the user anything -/
theorem dataQuery_nil (m : EvalMode) (s : Schema) (ds : Dataset) (t : Table) (req : Request)
    (hfalse : ∀ b ∈ availBackends ds t req, ∀ r, checkAuth { schema := s, ds := ds, b := b } t req.authUser r = false) :
    (dataQuery m s ds t req).hits = [] ∧ (dataQuery m s ds t req).total = 0 := by
  constructor
  · rw [List.eq_nil_iff_forall_not_mem]
    intro h hh
    obtain ⟨b, hb, hin⟩ := (Lemmas.mem_collected_iff m s ds t req h).mp (mem_hits_collected m s ds t req h hh)
    rw [(gatherRows_nil m _ t req (hfalse b hb)).1] at hin
    cases hin
  · rw [dataQuery_total, totalOf_eq_sum]
    exact sum_map_zero _ _ (fun b hb => (gatherRows_nil m _ t req (hfalse b hb)).2)

theorem foldRows_skip (ok : Row → Bool) (keyOf : Row → String) (cnt : Row → Accs → Option Accs) (init : Accs) :
    ∀ (rows : List Row) (M : StatsMap), (∀ r ∈ rows, ok r = false) →
      foldRows (kstep ok keyOf cnt init) rows M = some M
  | [], _, _ => rfl
  | r :: rs, M, h => by
    have hr := h r (List.mem_cons_self ..)
    simp only [foldRows, kstep, hr, Bool.not_false, if_true]
    exact foldRows_skip ok keyOf cnt init rs M (fun x hx => h x (List.mem_cons_of_mem _ hx))

theorem gatherStats_nil (m : StatsMode) (cx : Ctx) (t : Table) (req : Request) (cols : List Column)
    (hfalse : ∀ r, checkAuth cx t req.authUser r = false) : gatherStats m cx t req cols = some [] := by
  rw [gatherStats_eq]
  apply foldRows_skip
  intro r _
  simp [gsOk, hfalse]

theorem foldl_mergeStats_nil : ∀ l : List StatsMap, (∀ M ∈ l, M = []) → l.foldl mergeStats [] = []
  | [], _ => rfl
  | M :: l, h => by
    rw [List.foldl_cons, h M (List.mem_cons_self ..)]
    exact foldl_mergeStats_nil l (fun x hx => h x (List.mem_cons_of_mem _ hx))

/-- Stats when no available backend shows the user anything: no crash, no group, all slots untouched -/
theorem statsQuery_nil (m : StatsMode) (s : Schema) (ds : Dataset) (t : Table) (req : Request)
    (hfalse : ∀ b ∈ availBackends ds t req, ∀ r, checkAuth { schema := s, ds := ds, b := b } t req.authUser r = false) :
    (statsQuery m s ds t req).crash = false ∧
    (statsQuery m s ds t req).rows =
      if req.columns.isEmpty then [("", req.stats.map (fun e => Acc.init e.accKind))] else [] := by
  have hgs : ∀ b ∈ availBackends ds t req, Dist.gsOf m s ds t req b = some [] :=
    fun b hb => gatherStats_nil m _ t req _ (hfalse b hb)
  have hcr : Dist.crashOf m s ds t req (availBackends ds t req) = false := by
    unfold Dist.crashOf
    rw [List.any_eq_false]
    intro b hb
    simp [hgs b hb]
  have hm : Dist.mergedOf m s ds t req (availBackends ds t req) = [] := by
    unfold Dist.mergedOf Dist.mapsOf
    apply foldl_mergeStats_nil
    intro M hM
    rw [List.mem_filterMap] at hM
    obtain ⟨b, hb, hbM⟩ := hM
    rw [hgs b hb] at hbM
    exact (Option.some.inj hbM).symm
  refine ⟨by rw [Dist.statsQuery_crash, hcr], ?_⟩
  rw [Dist.statsQuery_rows m s ds t req hcr, hm]
  simp [Dist.fixRows, gsInit]


/-! ## 5. the row loop as a function of the visible rows -/

/-- what a client sees of a returned row: the row and its sort keys (not the backend it is stored in) -/
def obs (h : Hit) : Row × List SortKey := (h.r, h.keys)

/-- two contexts show user `u` the same rows of table `t`, and these rows read the same in both -/
structure VisAgree (cx cx' : Ctx) (t : Table) (u : String) : Prop where
  rows : (tableRows cx t).filter (checkAuth cx t u) = (tableRows cx' t).filter (checkAuth cx' t u)
  view : ∀ r ∈ (tableRows cx t).filter (checkAuth cx t u), mkView cx t r = mkView cx' t r

/-- full scan: the matching rows are the visible rows that pass the filter - the filter is only ever
    relevant on visible rows -/
theorem matchingRows_scan (m : EvalMode) (hi : m.useIndex = false) (cx : Ctx) (t : Table) (f : List Filter)
    (u : String) :
    matchingRows m cx t f u =
      ((tableRows cx t).filter (checkAuth cx t u)).filter (fun r => rowMatches m (mkView cx t r) f) := by
  simp [matchingRows, hi, List.filter_filter]

section VisAgree
variable {cx cx' : Ctx} {t : Table} {u : String}

theorem matchingRows_visAgree (m : EvalMode) (hi : m.useIndex = false) (h : VisAgree cx cx' t u)
    (f : List Filter) : matchingRows m cx t f u = matchingRows m cx' t f u := by
  rw [matchingRows_scan m hi, matchingRows_scan m hi, ← h.rows]
  apply List.filter_congr
  intro r hr
  rw [h.view r hr]

theorem fullHits_obs (m : EvalMode) (cx : Ctx) (t : Table) (req : Request) :
    (fullHits m cx t req).map obs =
      (matchingRows m cx t req.filter req.authUser).map
        (fun r => (r, req.sort.map (sortKeyOf (mkView cx t r)))) := by
  simp [fullHits, mkHit, obs, Function.comp_def]

theorem fullHits_visAgree (m : EvalMode) (hi : m.useIndex = false) (req : Request)
    (h : VisAgree cx cx' t req.authUser) :
    (fullHits m cx t req).map obs = (fullHits m cx' t req).map obs := by
  have hmem : ∀ r ∈ matchingRows m cx t req.filter req.authUser,
      r ∈ (tableRows cx t).filter (checkAuth cx t req.authUser) := by
    rw [matchingRows_scan m hi]
    exact fun r hr => (List.mem_filter.mp hr).1
  rw [fullHits_obs, fullHits_obs, ← matchingRows_visAgree m hi h]
  apply List.map_congr_left
  intro r hr
  rw [h.view r (hmem r hr)]

/-- one backend, full scan: rows, sort keys, per-backend cut and per-backend total are the same -/
theorem gatherRows_visAgree (m : EvalMode) (hi : m.useIndex = false) (req : Request)
    (h : VisAgree cx cx' t req.authUser) :
    (gatherRows m cx t req).hits.map obs = (gatherRows m cx' t req).hits.map obs ∧
    (gatherRows m cx t req).total = (gatherRows m cx' t req).total := by
  have e := fullHits_visAgree m hi req h
  have len : (fullHits m cx t req).length = (fullHits m cx' t req).length := by
    have := congrArg List.length e
    simpa using this
  rw [gatherRows_eq, gatherRows_eq]
  cases peerCut m req with
  | none => exact ⟨e, len⟩
  | some l => exact ⟨by simp only [List.map_take, e], by simp only [len]⟩

theorem foldRows_kstep_filter (ok : Row → Bool) (keyOf : Row → String) (cnt : Row → Accs → Option Accs)
    (init : Accs) : ∀ (rows : List Row) (M : StatsMap),
      foldRows (kstep ok keyOf cnt init) rows M =
        foldRows (kstep (fun _ => true) keyOf cnt init) (rows.filter ok) M
  | [], _ => rfl
  | r :: rs, M => by
    cases hr : ok r
    · rw [List.filter_cons_of_neg (by simp [hr])]
      simp only [foldRows, kstep, hr, Bool.not_false, if_true]
      exact foldRows_kstep_filter ok keyOf cnt init rs M
    · rw [List.filter_cons_of_pos hr]
      simp only [foldRows, kstep, hr, Bool.not_true, Bool.false_eq_true, if_false]
      cases M.upsert (keyOf r) init (cnt r) with
      | none => rfl
      | some M' => exact foldRows_kstep_filter ok keyOf cnt init rs M'

theorem foldRows_congr (step step' : StatsMap → Row → Option StatsMap) :
    ∀ (rows : List Row) (M : StatsMap), (∀ r ∈ rows, ∀ M, step M r = step' M r) →
      foldRows step rows M = foldRows step' rows M
  | [], _, _ => rfl
  | r :: rs, M, h => by
    simp only [foldRows, h r (List.mem_cons_self ..)]
    cases step' M r with
    | none => rfl
    | some M' => exact foldRows_congr step step' rs M' (fun x hx => h x (List.mem_cons_of_mem _ hx))

/-- one backend, full scan: the Stats map is the same -/
theorem gatherStats_visAgree (m : StatsMode) (hi : m.useIndex = false) (req : Request) (cols : List Column)
    (h : VisAgree cx cx' t req.authUser) :
    gatherStats m cx t req cols = gatherStats m cx' t req cols := by
  have hc : ∀ c : Ctx, (gsCands m c t req).filter (gsOk m c t req) =
      ((tableRows c t).filter (checkAuth c t req.authUser)).filter (fun r =>
        if m.pushDown then matchAll m.q (mkView c t r) req.filter else semList m.q (mkView c t r) req.filter) := by
    intro c
    unfold gsCands
    simp only [hi, Bool.false_eq_true, if_false]
    rw [List.filter_filter]
    apply List.filter_congr
    intro r _
    simp only [gsOk]
  rw [gatherStats_eq, gatherStats_eq, foldRows_kstep_filter (gsOk m cx t req),
    foldRows_kstep_filter (gsOk m cx' t req), hc cx, hc cx', ← h.rows]
  have hl : ((tableRows cx t).filter (checkAuth cx t req.authUser)).filter (fun r =>
        if m.pushDown then matchAll m.q (mkView cx' t r) req.filter else semList m.q (mkView cx' t r) req.filter) =
      ((tableRows cx t).filter (checkAuth cx t req.authUser)).filter (fun r =>
        if m.pushDown then matchAll m.q (mkView cx t r) req.filter else semList m.q (mkView cx t r) req.filter) := by
    apply List.filter_congr
    intro r hr
    rw [h.view r hr]
  rw [hl]
  apply foldRows_congr
  intro r hr M
  have hv := h.view r (List.mem_filter.mp hr).1
  have hcnt : gsCount m cx t req r = gsCount m cx' t req r := by
    funext a
    simp only [gsCount, hv]
  simp only [kstep, gsKey, hcnt, hv]

end VisAgree

/-- whole query: corresponding backends agree on what the user sees -/
theorem dataQuery_visAgree (m : EvalMode) (hi : m.useIndex = false) (s : Schema) (ds ds' : Dataset) (t : Table)
    (req : Request) (f : Backend → Backend)
    (hav : availBackends ds' t req = (availBackends ds t req).map f)
    (hvis : ∀ b ∈ availBackends ds t req,
      VisAgree { schema := s, ds := ds, b := b } { schema := s, ds := ds', b := f b } t req.authUser) :
    (dataQuery m s ds' t req).total = (dataQuery m s ds t req).total ∧
    (dataQuery m s ds' t req).hits.map obs = (dataQuery m s ds t req).hits.map obs := by
  have htot : totalOf m s ds' t req = totalOf m s ds t req := by
    rw [totalOf_eq_sum, totalOf_eq_sum, hav, List.map_map]
    congr 1
    apply List.map_congr_left
    intro b hb
    exact (gatherRows_visAgree m hi req (hvis b hb)).2.symm
  have hcol : (collected m s ds' t req).map obs = (collected m s ds t req).map obs := by
    rw [collected_eq_flatMap, collected_eq_flatMap, hav, List.flatMap_map, List.map_flatMap, List.map_flatMap]
    apply Dist.flatMap_congr_mem
    intro b hb
    exact (gatherRows_visAgree m hi req (hvis b hb)).1.symm
  have hpool : (rawPool m s ds' t req).map obs = (rawPool m s ds t req).map obs := by
    unfold rawPool
    split
    · exact hcol
    · rw [List.map_mergeSort (f := obs) (r := Hit.le (dirsOf req))
          (s := fun (a b : Row × List SortKey) => cmpKeys (dirsOf req) a.2 b.2 != .gt) (fun _ _ _ _ => rfl),
        List.map_mergeSort (f := obs) (r := Hit.le (dirsOf req))
          (s := fun (a b : Row × List SortKey) => cmpKeys (dirsOf req) a.2 b.2 != .gt) (fun _ _ _ _ => rfl), hcol]
  refine ⟨by rw [dataQuery_total, dataQuery_total, htot], ?_⟩
  rw [dataQuery_eq, dataQuery_eq, htot]
  split
  · rfl
  · simp only [window]
    cases req.limit with
    | none => simp only [List.map_drop, hpool]
    | some l => simp only [List.map_take, List.map_drop, hpool]


/-- Stats of the whole query: corresponding backends agree on what the user sees -/
theorem statsQuery_visAgree (m : StatsMode) (hi : m.useIndex = false) (s : Schema) (ds ds' : Dataset) (t : Table)
    (req : Request) (f : Backend → Backend)
    (hav : availBackends ds' t req = (availBackends ds t req).map f)
    (hvis : ∀ b ∈ availBackends ds t req,
      VisAgree { schema := s, ds := ds, b := b } { schema := s, ds := ds', b := f b } t req.authUser) :
    (statsQuery m s ds' t req).crash = (statsQuery m s ds t req).crash ∧
    (statsQuery m s ds' t req).rows = (statsQuery m s ds t req).rows := by
  have hg : (availBackends ds' t req).map (Dist.gsOf m s ds' t req) =
      (availBackends ds t req).map (Dist.gsOf m s ds t req) := by
    rw [hav, List.map_map]
    apply List.map_congr_left
    intro b hb
    exact (gatherStats_visAgree m hi req _ (hvis b hb)).symm
  have hcr : ∀ d : Dataset, Dist.crashOf m s d t req (availBackends d t req) =
      ((availBackends d t req).map (Dist.gsOf m s d t req)).any Option.isNone := by
    intro d; simp [Dist.crashOf, List.any_map, Function.comp_def]
  have hmg : ∀ d : Dataset, Dist.mergedOf m s d t req (availBackends d t req) =
      (((availBackends d t req).map (Dist.gsOf m s d t req)).filterMap id).foldl mergeStats [] := by
    intro d; simp [Dist.mergedOf, Dist.mapsOf, List.filterMap_map, Function.comp_def]
  have hc : Dist.crashOf m s ds' t req (availBackends ds' t req) =
      Dist.crashOf m s ds t req (availBackends ds t req) := by rw [hcr, hcr, hg]
  refine ⟨by rw [Dist.statsQuery_crash, Dist.statsQuery_crash, hc], ?_⟩
  rw [Dist.statsQuery_eq, Dist.statsQuery_eq, hc, hmg ds', hmg ds, hg]
  split <;> rfl

/-- `VisAgree` from the specification side -/
theorem visAgree_of_mayView {cx cx' : Ctx} {t : Table} {u : String}
    (hr : (tableRows cx t).filter (mayView cx t u) = (tableRows cx' t).filter (mayView cx' t u))
    (hv : ∀ r ∈ (tableRows cx t).filter (mayView cx t u), mkView cx t r = mkView cx' t r) :
    VisAgree cx cx' t u := by
  have e : ∀ c : Ctx, checkAuth c t u = mayView c t u := fun c => funext (checkAuth_eq_mayView c t u)
  exact ⟨by rw [e, e]; exact hr, by rw [e]; exact hv⟩

/-! ## 6. the same store under other authorisation settings -/

/-- the dataset with the settings `ServiceAuthorization` (`sl` = loose) and `GroupAuthorization` (`gl` = loose) -/
def setAuth (ds : Dataset) (sl gl : Bool) : Dataset := { ds with serviceAuthLoose := sl, groupAuthLoose := gl }

theorem sameData_setAuth (s : Schema) (ds : Dataset) (b : Backend) (sl gl sl' gl' : Bool) :
    SameData { schema := s, ds := setAuth ds sl gl, b := b } { schema := s, ds := setAuth ds sl' gl', b := b } :=
  ⟨rfl, rfl⟩

theorem avail_setAuth (ds : Dataset) (sl gl : Bool) (t : Table) (req : Request) :
    availBackends (setAuth ds sl gl) t req = availBackends ds t req := rfl

/-- same backend data, same verdict of the authorisation test on every row: same per-backend result -/
theorem gatherRows_sd {cx cx' : Ctx} (h : SameData cx cx') (m : EvalMode) (t : Table) (req : Request)
    (ha : ∀ r, checkAuth cx t req.authUser r = checkAuth cx' t req.authUser r) :
    gatherRows m cx t req = gatherRows m cx' t req := by
  have h1 : checkAuth cx t req.authUser = checkAuth cx' t req.authUser := funext ha
  simp only [gatherRows, tableRows_sd h, preFiltered_sd h, mkView_sd h, h1, h.b]

theorem dataQuery_setAuth_eq (m : EvalMode) (s : Schema) (ds : Dataset) (t : Table) (req : Request)
    (sl gl sl' gl' : Bool)
    (ha : ∀ b ∈ availBackends ds t req, ∀ r,
      checkAuth { schema := s, ds := setAuth ds sl gl, b := b } t req.authUser r =
        checkAuth { schema := s, ds := setAuth ds sl' gl', b := b } t req.authUser r) :
    dataQuery m s (setAuth ds sl gl) t req = dataQuery m s (setAuth ds sl' gl') t req := by
  have hp : peerResults m s (setAuth ds sl gl) t req = peerResults m s (setAuth ds sl' gl') t req := by
    unfold peerResults
    rw [avail_setAuth, avail_setAuth]
    apply List.map_congr_left
    intro b hb
    exact gatherRows_sd (sameData_setAuth s ds b sl gl sl' gl') m t req (ha b hb)
  rw [dataQuery_eq, dataQuery_eq]
  unfold rawPool collected totalOf
  rw [hp]
  rfl

/-! ## 7. the total of the plain data request -/

theorem dataReq_total (m : StatsMode) (s : Schema) (ds : Dataset) (t : Table) (req : Request) :
    (dataQuery (dataMode m) s ds t (dataReq req)).total =
      (dataQuery (dataMode m) s ds t (dataReq req)).hits.length := by
  rw [dataQuery_total, totalOf_eq_sum, C04.rows_partition (dataMode m) s ds t (dataReq req) rfl rfl rfl,
    length_flatMap_sum]
  congr 1

/-- a user no service of the backend names is a service contact of nothing -/
theorem svcContact_false {cx : Ctx} {u : String} (hs : ∀ r ∈ cx.b.rows "services", u ∉ r.strList "contacts")
    (x y : String) : svcContact cx u x y = false := by
  unfold svcContact listsContact
  cases hr : svcRow cx x y with
  | none => rfl
  | some r =>
    have hm : r ∈ cx.b.rows "services" := (Lemmas.findByKey_some hr).1
    simpa using hs r hm

end Lmd.AuthWhole
