/-
  Lmd.Lemmas.AuthWholeLemmas — helper lemmas for C08Whole (whole-answer non-disclosure):
  monotonicity of the visibility specification `C08.mayView` in the contact relation and in the
  authorisation settings, the per-backend row loop under a weaker / stronger authorisation test,
  users who are contact of nothing, and the row loop as a function of the visible rows only.
-/
import Lmd.Props.C08
import Lmd.Props.C01Ops
import Lmd.Props.C05Whole

namespace Lmd.AuthWhole
open Lmd Lmd.C08 Lmd.Sort Lmd.Union Lmd.C05

/-! ## 0. lists -/

theorem filter_sublist_filter {α : Type} (p q : α → Bool) :
    ∀ l : List α, (∀ a ∈ l, p a = true → q a = true) → (l.filter p).Sublist (l.filter q)
  | [], _ => List.Sublist.slnil
  | a :: l, h => by
    have ih := filter_sublist_filter p q l (fun x hx => h x (List.mem_cons_of_mem _ hx))
    by_cases hp : p a = true
    · have hq := h a (List.mem_cons_self ..) hp
      rw [List.filter_cons_of_pos hp, List.filter_cons_of_pos hq]
      exact ih.cons_cons a
    · rw [List.filter_cons_of_neg hp]
      by_cases hq : q a = true
      · rw [List.filter_cons_of_pos hq]; exact ih.cons a
      · rw [List.filter_cons_of_neg hq]; exact ih

theorem sublist_flatMap_pointwise {α β : Type} (f g : α → List β) :
    ∀ l : List α, (∀ a ∈ l, (f a).Sublist (g a)) → (l.flatMap f).Sublist (l.flatMap g)
  | [], _ => List.Sublist.slnil
  | a :: l, h => by
    rw [List.flatMap_cons, List.flatMap_cons]
    exact (h a (List.mem_cons_self ..)).append
      (sublist_flatMap_pointwise f g l (fun x hx => h x (List.mem_cons_of_mem _ hx)))

theorem length_flatMap_sum {α β : Type} (f : α → List β) :
    ∀ l : List α, (l.flatMap f).length = (l.map (fun a => (f a).length)).sum
  | [] => rfl
  | a :: l => by
    rw [List.flatMap_cons, List.length_append, length_flatMap_sum f l, List.map_cons, List.sum_cons]

/-! ## 1. the visibility specification is monotone -/

/-- group rule: monotone in the mode (strict below loose) and in the member test -/
theorem viewMembers_mono {α : Type} (l l' : Bool) (v v' : α → Bool) (ms : List α)
    (hl : l = true → l' = true) (hv : ∀ m ∈ ms, v m = true → v' m = true)
    (h : viewMembers l v ms = true) : viewMembers l' v' ms = true := by
  unfold viewMembers at h ⊢
  cases l <;> cases l'
  · simp only [Bool.false_eq_true, if_false, Bool.and_eq_true, Bool.not_eq_true', List.all_eq_true] at h ⊢
    exact ⟨h.1, fun m hm => hv m hm (h.2 m hm)⟩
  · simp only [Bool.false_eq_true, if_false, Bool.and_eq_true, Bool.not_eq_true', List.all_eq_true] at h
    simp only [if_true, List.any_eq_true]
    cases ms with
    | nil => simp at h
    | cons m ms => exact ⟨m, List.mem_cons_self .., hv m (List.mem_cons_self ..) (h.2 m (List.mem_cons_self ..))⟩
  · exact absurd (hl rfl) (by simp)
  · simp only [if_true, List.any_eq_true] at h ⊢
    obtain ⟨m, hm, hvm⟩ := h
    exact ⟨m, hm, hv m hm hvm⟩

/-- "`u'` on `cx'` is allowed at least what `u` on `cx` is allowed": the host and service contact relation
    grows, hosts that exist keep existing, the group tables list the same members, and the authorisation
    settings are the same or move from strict to loose (then a service naming `u` must have its host) -/
structure ContactLe (cx cx' : Ctx) (u u' : String) : Prop where
  sal : cx.ds.serviceAuthLoose = true → cx'.ds.serviceAuthLoose = true
  gal : cx.ds.groupAuthLoose = true → cx'.ds.groupAuthLoose = true
  hostExists : ∀ h, (hostRow cx h).isSome = true → (hostRow cx' h).isSome = true
  host : ∀ h, hostContact cx u h = true → hostContact cx' u' h = true
  svc : ∀ h s, svcContact cx u h s = true → svcContact cx' u' h s = true
  orphan : cx.ds.serviceAuthLoose = false → cx'.ds.serviceAuthLoose = true →
    ∀ h s, svcContact cx u h s = true → (hostRow cx' h).isSome = true
  hg : ∀ g, (hostgroupRow cx g).map (·.strList "members") = (hostgroupRow cx' g).map (·.strList "members")
  sg : ∀ g, (servicegroupRow cx g).map (·.members "members") = (servicegroupRow cx' g).map (·.members "members")

variable {cx cx' : Ctx} {u u' : String}

theorem viewService_mono (hle : ContactLe cx cx' u u') (h s : String)
    (hv : viewService cx u h s = true) : viewService cx' u' h s = true := by
  unfold viewService at hv ⊢
  cases hl : cx.ds.serviceAuthLoose <;> cases hl' : cx'.ds.serviceAuthLoose
  · simp only [hl, Bool.false_eq_true, if_false] at hv ⊢
    exact hle.svc h s hv
  · simp only [hl, Bool.false_eq_true, if_false] at hv
    simp only [if_true, Bool.and_eq_true, Bool.or_eq_true]
    exact ⟨hle.orphan hl hl' h s hv, Or.inr (hle.svc h s hv)⟩
  · have := hle.sal hl
    rw [hl'] at this
    exact absurd this (by simp)
  · simp only [hl, if_true, Bool.and_eq_true, Bool.or_eq_true] at hv ⊢
    refine ⟨hle.hostExists h hv.1, ?_⟩
    rcases hv.2 with hh | hs
    · exact Or.inl (hle.host h hh)
    · exact Or.inr (hle.svc h s hs)

theorem viewObject_mono (hle : ContactLe cx cx' u u') (h s : String)
    (hv : viewObject cx u h s = true) : viewObject cx' u' h s = true := by
  unfold viewObject at hv ⊢
  by_cases hs : s = ""
  · simp only [hs, if_true, viewHost] at hv ⊢
    exact hle.host h hv
  · simp only [hs, if_false] at hv ⊢
    exact viewService_mono hle h s hv

theorem viewHostGroup_mono (hle : ContactLe cx cx' u u') (g : String)
    (hv : viewHostGroup cx u g = true) : viewHostGroup cx' u' g = true := by
  unfold viewHostGroup at hv ⊢
  have hg := hle.hg g
  cases h1 : hostgroupRow cx g with
  | none => simp [h1] at hv
  | some gr =>
    cases h2 : hostgroupRow cx' g with
    | none => simp [h1, h2] at hg
    | some gr' =>
      simp only [h1, h2, Option.map_some, Option.some.injEq] at hg hv ⊢
      rw [← hg]
      exact viewMembers_mono _ _ _ _ _ hle.gal (fun m _ hm => hle.host m hm) hv

theorem viewServiceGroup_mono (hle : ContactLe cx cx' u u') (g : String)
    (hv : viewServiceGroup cx u g = true) : viewServiceGroup cx' u' g = true := by
  unfold viewServiceGroup at hv ⊢
  have hg := hle.sg g
  cases h1 : servicegroupRow cx g with
  | none => simp [h1] at hv
  | some gr =>
    cases h2 : servicegroupRow cx' g with
    | none => simp [h1, h2] at hg
    | some gr' =>
      simp only [h1, h2, Option.map_some, Option.some.injEq] at hg hv ⊢
      rw [← hg]
      exact viewMembers_mono _ _ _ _ _ hle.gal (fun m _ hm => viewObject_mono hle m.1 m.2 hm) hv

/-- the specification is monotone: what `u` may view on `cx`, `u'` may view on `cx'`
    (for rows `r`, `r'` carrying the same names) -/
theorem mayView_mono (hle : ContactLe cx cx' u u') (hu : u ≠ "") (t : Table) (r r' : Row)
    (hk : ∀ n, r'.str t n = r.str t n) (hv : mayView cx t u r = true) : mayView cx' t u' r' = true := by
  unfold mayView at hv ⊢
  by_cases hu' : u' = ""
  · simp [hu']
  · simp only [hu, hu', if_false, hk] at hv ⊢
    split at hv <;> (try simp only [Bool.and_eq_true] at hv ⊢)
    · exact hle.host _ hv
    · exact viewObject_mono hle _ _ hv
    · exact viewHostGroup_mono hle _ hv
    · exact viewServiceGroup_mono hle _ hv
    · exact ⟨hle.host _ hv.1, viewHostGroup_mono hle _ hv.2⟩
    · exact ⟨viewObject_mono hle _ _ hv.1, viewServiceGroup_mono hle _ hv.2⟩
    · exact ⟨viewObject_mono hle _ _ hv.1, viewHostGroup_mono hle _ hv.2⟩
    · exact viewObject_mono hle _ _ hv
    · exact viewObject_mono hle _ _ hv

end Lmd.AuthWhole
