/-
  Lmd.Lemmas.ReloadSeqLemmas — helper lemmas for the sequence-level statements of property C20
  (`Lmd.Props.C20Seq`): the list of states a daemon goes through while it is reloaded again and again
  (`states`), the monotone generation counter, "a generation number below an earlier counter was there all
  the time" (`survivor`), the counting of created / kept / stopped peers of one reload, and sequences of
  listener reloads.
-/
import Lmd.Props.C20

namespace Lmd.ReloadSeq
open Lmd Lmd.ReloadLemmas Lmd.C20

/-- the peer map (connection definition and generation number of its peer object) and the next free generation -/
abbrev State := List (Conn × Nat) × Nat

/-- one reload -/
def step (s : State) (conns : List Conn) : State := reloadResult s.1 conns s.2

theorem reloads_nil (s : State) : reloads s [] = s := rfl

theorem reloads_cons (s : State) (conns : List Conn) (rest : List (List Conn)) :
    reloads s (conns :: rest) = reloads (step s conns) rest := rfl

theorem reloads_append (s : State) (a b : List (List Conn)) :
    reloads s (a ++ b) = reloads (reloads s a) b := by
  unfold reloads
  rw [List.foldl_append]

theorem reloads_snoc (s : State) (a : List (List Conn)) (conns : List Conn) :
    reloads s (a ++ [conns]) = step (reloads s a) conns := by
  rw [reloads_append]
  rfl

/-- all states the daemon goes through: the start state and the state after every reload, in order -/
def states (s : State) : List (List Conn) → List State
  | [] => [s]
  | conns :: rest => s :: states (step s conns) rest

theorem head_mem_states (s : State) (cfgs : List (List Conn)) : s ∈ states s cfgs := by
  cases cfgs <;> simp [states]

theorem last_mem_states (s : State) (cfgs : List (List Conn)) : reloads s cfgs ∈ states s cfgs := by
  induction cfgs generalizing s with
  | nil => simp [states, reloads_nil]
  | cons c rest ih =>
    rw [reloads_cons, states]
    exact List.mem_cons_of_mem _ (ih _)

/-- the states of a sequence are the states after its prefixes -/
theorem mem_states (s : State) (cfgs : List (List Conn)) (st : State) :
    st ∈ states s cfgs ↔ ∃ pre post, cfgs = pre ++ post ∧ st = reloads s pre := by
  induction cfgs generalizing s with
  | nil =>
    simp only [states, List.mem_singleton]
    constructor
    · rintro rfl
      exact ⟨[], [], rfl, rfl⟩
    · rintro ⟨pre, post, h, rfl⟩
      have : pre = [] := (List.append_eq_nil_iff.1 h.symm).1
      subst this
      rfl
  | cons c rest ih =>
    rw [states, List.mem_cons, ih]
    constructor
    · rintro (rfl | ⟨pre, post, h, rfl⟩)
      · exact ⟨[], c :: rest, rfl, rfl⟩
      · exact ⟨c :: pre, post, by rw [h]; rfl, rfl⟩
    · rintro ⟨pre, post, h, rfl⟩
      cases pre with
      | nil => exact Or.inl rfl
      | cons p pre =>
        rw [List.cons_append, List.cons.injEq] at h
        obtain ⟨rfl, h⟩ := h
        exact Or.inr ⟨pre, post, h, rfl⟩

theorem states_append_mem_left (s : State) (a b : List (List Conn)) (st : State) (h : st ∈ states s a) :
    st ∈ states s (a ++ b) := by
  rw [mem_states] at h ⊢
  obtain ⟨pre, post, rfl, rfl⟩ := h
  exact ⟨pre, post ++ b, by rw [List.append_assoc], rfl⟩

theorem states_append_mem_right (s : State) (a b : List (List Conn)) (st : State)
    (h : st ∈ states (reloads s a) b) : st ∈ states s (a ++ b) := by
  rw [mem_states] at h ⊢
  obtain ⟨pre, post, rfl, rfl⟩ := h
  exact ⟨a ++ pre, post, by rw [List.append_assoc], by rw [reloads_append]⟩

/-! ## the counter -/

theorem step_counter_le (s : State) (conns : List Conn) : s.2 ≤ (step s conns).2 :=
  plan_counter_le s.1 conns s.2

theorem reloads_counter_le (s : State) (cfgs : List (List Conn)) : s.2 ≤ (reloads s cfgs).2 := by
  induction cfgs generalizing s with
  | nil => exact Nat.le_refl _
  | cons c rest ih =>
    rw [reloads_cons]
    exact Nat.le_trans (step_counter_le s c) (ih _)

theorem states_counter (s : State) (cfgs : List (List Conn)) (st : State) (h : st ∈ states s cfgs) :
    s.2 ≤ st.2 ∧ st.2 ≤ (reloads s cfgs).2 := by
  rw [mem_states] at h
  obtain ⟨pre, post, rfl, rfl⟩ := h
  refine ⟨reloads_counter_le s pre, ?_⟩
  rw [reloads_append]
  exact reloads_counter_le _ post

/-! ## the configured connections -/

theorem step_conns (s : State) (conns : List Conn) : (step s conns).1.map (·.1) = conns :=
  result_map_fst s.1 conns s.2

theorem mem_step_conns {s : State} {conns : List Conn} {c : Conn} {g : Nat} (h : (c, g) ∈ (step s conns).1) :
    c ∈ conns := by
  rw [← step_conns s conns]
  exact List.mem_map_of_mem (f := (·.1)) h

theorem step_peerIds (s : State) {conns : List Conn} (h : IdsDistinct conns) : PeerIdsDistinct (step s conns).1 := by
  unfold PeerIdsDistinct
  rwa [step_conns]

theorem reloads_peerIds (s : State) (cfgs : List (List Conn)) (hs : PeerIdsDistinct s.1)
    (h : ∀ conns ∈ cfgs, IdsDistinct conns) : PeerIdsDistinct (reloads s cfgs).1 := by
  induction cfgs generalizing s with
  | nil => exact hs
  | cons c rest ih =>
    rw [reloads_cons]
    exact ih _ (step_peerIds s (h c List.mem_cons_self)) (fun x hx => h x (List.mem_cons_of_mem _ hx))

/-! ## generation numbers below an earlier counter -/

/-- a peer of the new map whose generation number is below the old counter is a peer of the old map, with the
    same definition -/
theorem old_gen_survives {s : State} {conns : List Conn} {c : Conn} {g : Nat}
    (h : (c, g) ∈ (step s conns).1) (hg : g < s.2) : (c, g) ∈ s.1 := by
  obtain ⟨d, hd, hgen⟩ := mem_result.1 h
  cases d with
  | keep g' =>
    have hgg : g' = g := hgen
    subst hgg
    exact lookup_some_mem (mem_plan_keep hd).2
  | create g' =>
    have hgg : g' = g := hgen
    subst hgg
    have := (mem_plan_create hd).2.2.1
    omega

/-- a peer that is in the map after a sequence of reloads and whose generation number is below the counter the
    sequence started with was in the map, with the same definition, at every point of the sequence -/
theorem survivor {s : State} {cfgs : List (List Conn)} {c : Conn} {g : Nat}
    (h : (c, g) ∈ (reloads s cfgs).1) (hg : g < s.2) : ∀ st ∈ states s cfgs, (c, g) ∈ st.1 := by
  induction cfgs generalizing s with
  | nil =>
    intro st hst
    simp only [states, List.mem_singleton] at hst
    subst hst
    exact h
  | cons conns rest ih =>
    rw [reloads_cons] at h
    have hg' : g < (step s conns).2 := Nat.lt_of_lt_of_le hg (step_counter_le s conns)
    have hall := ih h hg'
    intro st hst
    rw [states, List.mem_cons] at hst
    rcases hst with rfl | hst
    · exact old_gen_survives (hall _ (head_mem_states _ _)) hg
    · exact hall st hst

theorem step_gensBelow {s : State} (conns : List Conn) (hb : GensBelow s.1 s.2) :
    GensBelow (step s conns).1 (step s conns).2 := by
  rintro ⟨c, g⟩ hp
  obtain ⟨d, hd, rfl⟩ := mem_result.1 hp
  exact plan_gen_lt hb hd

theorem reloads_gensBelow {s : State} (cfgs : List (List Conn)) (hb : GensBelow s.1 s.2) :
    GensBelow (reloads s cfgs).1 (reloads s cfgs).2 := by
  induction cfgs generalizing s with
  | nil => exact hb
  | cons c rest ih =>
    rw [reloads_cons]
    exact ih (step_gensBelow c hb)

theorem states_gensBelow {s : State} (cfgs : List (List Conn)) (hb : GensBelow s.1 s.2) :
    ∀ st ∈ states s cfgs, GensBelow st.1 st.2 := by
  intro st hst
  rw [mem_states] at hst
  obtain ⟨pre, post, rfl, rfl⟩ := hst
  exact reloads_gensBelow pre hb

/-- a connection that is configured unchanged in every configuration of the sequence keeps its peer object at
    every point of the sequence -/
theorem keeps_throughout {s : State} {cfgs : List (List Conn)} {c : Conn} {g : Nat}
    (hs : PeerIdsDistinct s.1) (hm : (c, g) ∈ s.1)
    (hall : ∀ conns ∈ cfgs, IdsDistinct conns ∧ c ∈ conns) : ∀ st ∈ states s cfgs, (c, g) ∈ st.1 := by
  induction cfgs generalizing s with
  | nil =>
    intro st hst
    simp only [states, List.mem_singleton] at hst
    subst hst
    exact hm
  | cons conns rest ih =>
    have h1 := hall conns List.mem_cons_self
    have hm' : (c, g) ∈ (step s conns).1 := unchanged_in_result s.2 hm hs h1.2
    intro st hst
    rw [states, List.mem_cons] at hst
    rcases hst with rfl | hst
    · exact hm
    · exact ih (step_peerIds s h1.1) hm' (fun x hx => hall x (List.mem_cons_of_mem _ hx)) st hst

/-- in a peer map with distinct ids an id has one entry only -/
theorem entry_unique {l : List (Conn × Nat)} (h : PeerIdsDistinct l) {p q : Conn × Nat}
    (hp : p ∈ l) (hq : q ∈ l) (hid : p.1.id = q.1.id) : p = q :=
  eq_of_nodup_map (·.1.id) l h.ids p hp q hq hid

/-- in a configuration with distinct ids an id has one definition only -/
theorem conn_unique {conns : List Conn} (h : IdsDistinct conns) {c c' : Conn} (hc : c ∈ conns) (hc' : c' ∈ conns)
    (hid : c.id = c'.id) : c = c' :=
  eq_of_nodup_map (fun x : Conn => x.id) conns h c hc c' hc' hid

theorem conns_nodup {conns : List Conn} (h : IdsDistinct conns) : conns.Nodup :=
  nodup_of_nodup_map (fun x : Conn => x.id) conns h

theorem peers_nodup {old : List (Conn × Nat)} (h : PeerIdsDistinct old) : old.Nodup :=
  nodup_of_nodup_map (fun x : Conn × Nat => x.1.id) old h.ids

/-! ## counting one reload -/

/-- the generation numbers of the kept peers of a plan, in plan order -/
def keptGens (ds : List (Conn × Decision)) : List Nat :=
  ds.filterMap fun p => match p.2 with
    | .keep g => some g
    | .create _ => none

theorem length_kept_add_created (ds : List (Conn × Decision)) :
    (keptGens ds).length + (createdGens ds).length = ds.length := by
  induction ds with
  | nil => rfl
  | cons p t ih =>
    obtain ⟨c, d⟩ := p
    cases d with
    | keep g =>
      simp only [keptGens, createdGens, List.filterMap_cons, List.length_cons] at ih ⊢
      omega
    | create g =>
      simp only [keptGens, createdGens, List.filterMap_cons, List.length_cons] at ih ⊢
      omega

theorem plan_length (old : List (Conn × Nat)) (conns : List Conn) (next : Nat) :
    (reloadPlan old conns next).1.length = conns.length := by
  have := congrArg List.length (plan_map_fst old conns next)
  simpa using this

theorem created_length (old : List (Conn × Nat)) (conns : List Conn) (next : Nat) :
    (createdGens (reloadPlan old conns next).1).length =
      (conns.filter (fun c => (lookup old c).isNone)).length := by
  rw [createdGens_plan, List.length_range', plan_counter_eq]
  omega

/-- with distinct ids in the old map the lookup fails exactly for the definitions the old map does not have -/
theorem lookup_isNone_eq {old : List (Conn × Nat)} (hd : PeerIdsDistinct old) (c : Conn) :
    (lookup old c).isNone = !(old.map (·.1)).contains c := by
  cases hl : lookup old c with
  | none =>
    have h := (lookup_none_iff hd.ids).1 hl
    have : c ∉ old.map (·.1) := by
      intro hm
      obtain ⟨⟨c', g⟩, hm', rfl⟩ := List.mem_map.1 hm
      exact h g hm'
    simp [this]
  | some g =>
    have h := lookup_some_mem hl
    have : c ∈ old.map (·.1) := List.mem_map_of_mem (f := (·.1)) h
    simp [this]

/-- the peers of the old map that a reload stops: those whose definition is not configured any more (the id is
    removed, or it is configured with some change) -/
def stoppedPeers (old : List (Conn × Nat)) (conns : List Conn) : List (Conn × Nat) :=
  old.filter (fun p => !conns.contains p.1)

theorem mem_stoppedPeers (old : List (Conn × Nat)) (conns : List Conn) (p : Conn × Nat) :
    p ∈ stoppedPeers old conns ↔ p ∈ old ∧ p.1 ∉ conns := by
  simp [stoppedPeers]

/-- the peers of the old map that stay -/
def stayingPeers (old : List (Conn × Nat)) (conns : List Conn) : List (Conn × Nat) :=
  old.filter (fun p => conns.contains p.1)

theorem length_staying_add_stopped (old : List (Conn × Nat)) (conns : List Conn) :
    (stayingPeers old conns).length + (stoppedPeers old conns).length = old.length := by
  unfold stayingPeers stoppedPeers
  induction old with
  | nil => rfl
  | cons p t ih =>
    simp only [List.filter_cons]
    cases conns.contains p.1 <;> simp only [Bool.not_false, Bool.not_true, if_true, Bool.false_eq_true, if_false,
      List.length_cons] <;> omega

/-- a peer object of the old map is still in use after the reload exactly if its definition is configured -/
theorem gen_survives_iff {old : List (Conn × Nat)} {conns : List Conn} {next : Nat}
    (hinv : Inv (old, next)) {p : Conn × Nat} (hp : p ∈ old) :
    p.2 ∈ (reloadResult old conns next).1.map (·.2) ↔ p.1 ∈ conns := by
  obtain ⟨hids, hgd, hb⟩ := hinv
  constructor
  · intro h
    obtain ⟨⟨c, g⟩, hm, hg⟩ := List.mem_map.1 h
    simp only at hg
    subst hg
    have hlt : p.2 < next := hb p hp
    have hold : (c, p.2) ∈ old := old_gen_survives (s := (old, next)) hm hlt
    have hgd' : (old.map (fun q : Conn × Nat => q.2)).Nodup := hgd
    have heq : (c, p.2) = p := eq_of_nodup_map (fun q : Conn × Nat => q.2) old hgd' _ hold _ hp rfl
    have hc : c = p.1 := congrArg Prod.fst heq
    rw [← hc]
    exact mem_step_conns (s := (old, next)) hm
  · intro h
    obtain ⟨c, g⟩ := p
    exact List.mem_map_of_mem (f := (·.2)) (unchanged_in_result next hp hids h)

/-- a reload with a configuration made of exactly the old definitions in any order: all lookups succeed -/
theorem filter_isNone_of_subset {old : List (Conn × Nat)} (hd : PeerIdsDistinct old) {conns : List Conn}
    (hsub : ∀ c ∈ conns, c ∈ old.map (·.1)) : conns.filter (fun c => (lookup old c).isNone) = [] := by
  rw [List.filter_eq_nil_iff]
  intro c hc
  rw [lookup_isNone_eq hd]
  simp [hsub c hc]

theorem length_filter_add_not {α : Type} (p : α → Bool) (l : List α) :
    (l.filter p).length + (l.filter (fun a => !p a)).length = l.length := by
  induction l with
  | nil => rfl
  | cons a t ih =>
    simp only [List.filter_cons]
    cases p a <;> simp only [Bool.not_false, Bool.not_true, if_true, Bool.false_eq_true, if_false,
      List.length_cons] <;> omega


/-- the staying peers and the kept decisions are the same connections -/
theorem staying_length_eq {old : List (Conn × Nat)} {conns : List Conn} (hids : PeerIdsDistinct old)
    (hconns : IdsDistinct conns) :
    (stayingPeers old conns).length = (conns.filter (fun c => (old.map (·.1)).contains c)).length := by
  have hn1 : ((stayingPeers old conns).map (·.1)).Nodup := by
    have hsub : ((stayingPeers old conns).map (·.1)).Sublist (old.map (·.1)) :=
      (List.filter_sublist (l := old)).map _
    have hids' : IdsDistinct (old.map (fun p : Conn × Nat => p.1)) := hids
    exact (conns_nodup hids').sublist hsub
  have hn2 : (conns.filter (fun c => (old.map (·.1)).contains c)).Nodup :=
    (conns_nodup hconns).sublist List.filter_sublist
  have hperm : ((stayingPeers old conns).map (·.1)).Perm (conns.filter (fun c => (old.map (·.1)).contains c)) := by
    rw [List.perm_ext_iff_of_nodup hn1 hn2]
    intro c
    simp only [stayingPeers, List.mem_map, List.mem_filter, List.contains_iff_mem]
    constructor
    · rintro ⟨p, ⟨hp, hc⟩, rfl⟩
      exact ⟨hc, p, hp, rfl⟩
    · rintro ⟨hc, p, hp, rfl⟩
      exact ⟨p, ⟨hp, hc⟩, rfl⟩
  have := hperm.length_eq
  simpa using this


/-- the number of peers every reload of a sequence creates, in order -/
def createdPerReload (s : State) : List (List Conn) → List Nat
  | [] => []
  | conns :: rest => (createdGens (reloadPlan s.1 conns s.2).1).length :: createdPerReload (step s conns) rest

theorem reloads_counter_eq (s : State) (cfgs : List (List Conn)) :
    (reloads s cfgs).2 = s.2 + (createdPerReload s cfgs).sum := by
  induction cfgs generalizing s with
  | nil => rfl
  | cons c rest ih =>
    rw [reloads_cons, ih, createdPerReload, List.sum_cons]
    have : (step s c).2 = s.2 + (createdGens (reloadPlan s.1 c s.2).1).length := by
      show (reloadPlan s.1 c s.2).2 = _
      rw [created_length, plan_counter_eq]
    omega

/-! ## sequences of listener reloads -/

/-- the listeners open after a sequence of listener reloads -/
def listenerRuns (opn : List String) (cfgs : List (List String)) : List String :=
  cfgs.foldl (fun o new => (reloadListeners o new).nowOpen) opn

/-- what every reload of the sequence did to the listeners -/
def listenerPlans (opn : List String) : List (List String) → List ListenerPlan
  | [] => []
  | new :: rest => reloadListeners opn new :: listenerPlans (reloadListeners opn new).nowOpen rest

theorem listenerRuns_cons (opn : List String) (new : List String) (rest : List (List String)) :
    listenerRuns opn (new :: rest) = listenerRuns (reloadListeners opn new).nowOpen rest := rfl

theorem listenerRuns_snoc (opn : List String) (cfgs : List (List String)) (new : List String) :
    listenerRuns opn (cfgs ++ [new]) = (reloadListeners (listenerRuns opn cfgs) new).nowOpen := by
  unfold listenerRuns
  rw [List.foldl_append]
  rfl

end Lmd.ReloadSeq
