/-
  Lmd.Lemmas.Select — helper lemmas on the row selection pipeline: list forms of the Boolean
  semantics, key lookup (`findByKey`), the sorted de-duplicated key list (`sortDedup`) and the fact that
  index pre-selection only ever returns rows of the store.
-/
import Lmd.Query

namespace Lmd.Lemmas

open Lmd

/-! ### list forms of the semantics -/

/-- the conjunction of a filter list is `List.all` of the Boolean meaning -/
theorem semAll_eq_all (q : Quirks) (v : View) : ∀ fs : List Filter, semAll q v fs = fs.all (sem q v)
  | [] => by simp [semAll]
  | f :: fs => by simp [semAll, semAll_eq_all q v fs]

/-- the disjunction of a filter list is `List.any` of the Boolean meaning -/
theorem semAny_eq_any (q : Quirks) (v : View) : ∀ fs : List Filter, semAny q v fs = fs.any (sem q v)
  | [] => by simp [semAny]
  | f :: fs => by simp [semAny, semAny_eq_any q v fs]

/-- the request's filter list means the same as an `And` group of its filters -/
theorem semList_eq_semAll (q : Quirks) (v : View) (fs : List Filter) : semList q v fs = semAll q v fs := by
  simp [semList, semAll_eq_all]

/-! ### `insertSorted` / `sortDedup` keep exactly the given strings -/

/-- inserting a key into the sorted key list adds exactly that key -/
theorem mem_insertSorted (s y : String) : ∀ l : List String, y ∈ insertSorted s l ↔ y = s ∨ y ∈ l
  | [] => by simp [insertSorted]
  | x :: xs => by
    unfold insertSorted
    split
    · simp
    · split
      · rename_i h
        have hx : s = x := by simpa using h
        subst hx
        simp
      · have ih := mem_insertSorted s y xs
        simp only [List.mem_cons, ih]
        constructor
        · rintro (h | h | h)
          · exact Or.inr (Or.inl h)
          · exact Or.inl h
          · exact Or.inr (Or.inr h)
        · rintro (h | h | h)
          · exact Or.inr (Or.inl h)
          · exact Or.inl h
          · exact Or.inr (Or.inr h)

/-- folding `insertSorted` over a list collects exactly the members of the list and the accumulator -/
theorem mem_foldl_insertSorted (y : String) :
    ∀ (l acc : List String), y ∈ l.foldl (fun acc s => insertSorted s acc) acc ↔ y ∈ l ∨ y ∈ acc
  | [], acc => by simp
  | x :: xs, acc => by
    simp only [List.foldl_cons, mem_foldl_insertSorted y xs, mem_insertSorted, List.mem_cons]
    constructor
    · rintro (h | h | h)
      · exact Or.inl (Or.inr h)
      · exact Or.inl (Or.inl h)
      · exact Or.inr h
    · rintro ((h | h) | h)
      · exact Or.inr (Or.inl h)
      · exact Or.inl h
      · exact Or.inr (Or.inr h)

/-- `sortDedup` neither loses nor invents a key -/
theorem mem_sortDedup (y : String) (l : List String) : y ∈ sortDedup l ↔ y ∈ l := by
  simp [sortDedup, mem_foldl_insertSorted]

/-! ### `findByKey` -/

/-- in a list whose images under `f` are pairwise different, `f` is injective on the members -/
theorem eq_of_nodup_map {α β : Type} (f : α → β) {a b : α} :
    ∀ {l : List α}, (l.map f).Nodup → a ∈ l → b ∈ l → f a = f b → a = b
  | [], _, ha, _, _ => by simp at ha
  | x :: xs, hnd, ha, hb, hab => by
    simp only [List.map_cons, List.nodup_cons, List.mem_map, not_exists, not_and] at hnd
    simp only [List.mem_cons] at ha hb
    rcases ha with ha | ha <;> rcases hb with hb | hb
    · rw [ha, hb]
    · subst ha; exact absurd hab.symm (hnd.1 b hb)
    · subst hb; exact absurd hab (hnd.1 a ha)
    · exact eq_of_nodup_map f hnd.2 ha hb hab

/-- a successful key lookup returns a row of the list, and that row has the key -/
theorem findByKey_some {t : Table} {rows : List Row} {k : List String} {r : Row}
    (h : findByKey t rows k = some r) : r ∈ rows ∧ r.key t = k := by
  unfold findByKey at h
  have hm := List.mem_of_find?_eq_some h
  have hp := List.find?_some h
  exact ⟨by simpa using hm, by simpa using hp⟩

/-- with unique keys, looking up the key of a stored row returns that very row -/
theorem findByKey_of_mem {t : Table} {rows : List Row} {r : Row}
    (hnd : (rows.map (Row.key t)).Nodup) (hr : r ∈ rows) : findByKey t rows (r.key t) = some r := by
  cases hf : findByKey t rows (r.key t) with
  | none =>
    unfold findByKey at hf
    rw [List.find?_eq_none] at hf
    have := hf r (by simpa using hr)
    simp at this
  | some r' =>
    obtain ⟨hm, hk⟩ := findByKey_some hf
    have := eq_of_nodup_map (Row.key t) hnd hm hr hk
    rw [this]

/-! ### an equation for `preFiltered` with named parts -/

/-- which index `GetPreFilteredData` consults for a table (none for virtual tables and composite keys) -/
def indexKind? (t : Table) : Option IndexKind :=
  if t.virt != .none then none
  else if t.name == "hosts" then some .hosts
  else if t.name == "services" then some .services
  else if t.primaryKey.length == 1 then some .primary
  else none

/-- the rows fetched through the index for a sorted key list -/
def selectByKeys (kind : IndexKind) (t : Table) (rows : List Row) (keys : List String) : List Row :=
  match kind with
  | .services =>
    keys.flatMap fun host =>
      (sortDedup ((rows.filter (fun r => r.str t "host_name" == host)).map (fun r => r.str t "description"))).filterMap
        (fun d => findByKey t rows [host, d])
  | _ => keys.filterMap (fun k => findByKey t rows [k])

/-- `preFiltered` written with the named parts `indexKind?` and `selectByKeys` -/
theorem preFiltered_eq (cx : Ctx) (t : Table) (rows : List Row) (fs : List Filter) :
    preFiltered cx t rows fs =
      if fs.isEmpty then rows
      else match indexKind? t with
        | none => rows
        | some kind =>
          match tryIndexGroup (leafIndexKeys cx kind t) false fs with
          | none => rows
          | some keys => selectByKeys kind t rows (sortDedup keys) := by
  unfold preFiltered indexKind? selectByKeys
  rfl

/-- every row fetched through the index is a row of the store -/
theorem selectByKeys_subset (kind : IndexKind) (t : Table) (rows : List Row) (keys : List String) :
    ∀ r ∈ selectByKeys kind t rows keys, r ∈ rows := by
  intro r hr
  cases kind
  case services =>
    simp only [selectByKeys, List.mem_flatMap, List.mem_filterMap] at hr
    obtain ⟨_, _, _, _, hf⟩ := hr
    exact (findByKey_some hf).1
  all_goals
    simp only [selectByKeys, List.mem_filterMap] at hr
    obtain ⟨_, _, hf⟩ := hr
    exact (findByKey_some hf).1

/-! ### candidates are rows of the store -/

/-- index pre-selection returns only rows that are in the store -/
theorem preFiltered_subset (cx : Ctx) (t : Table) (rows : List Row) (fs : List Filter) :
    ∀ r ∈ preFiltered cx t rows fs, r ∈ rows := by
  intro r hr
  rw [preFiltered_eq] at hr
  split at hr
  · exact hr
  · cases hk : indexKind? t with
    | none => simpa [hk] using hr
    | some kind =>
      cases hi : tryIndexGroup (leafIndexKeys cx kind t) false fs with
      | none => simpa [hk, hi] using hr
      | some keys =>
        simp only [hk, hi] at hr
        exact selectByKeys_subset kind t rows _ r hr

/-! ### a tiny concrete dataset for the non-vacuity examples -/
namespace Demo

def nameCol : Column := { name := "name", dtype := .str, storage := .loc }
def stateCol : Column := { name := "state", dtype := .int, storage := .loc }
def groupsCol : Column := { name := "groups", dtype := .strList, storage := .loc }
def membersCol : Column := { name := "members", dtype := .strList, storage := .loc }
def hosts : Table := { name := "hosts", cols := [nameCol, stateCol, groupsCol], primaryKey := ["name"] }
def hostgroups : Table := { name := "hostgroups", cols := [nameCol, membersCol], primaryKey := ["name"] }
/-- host `a`, member of hostgroup `g` -/
def rowA : Row := { cells := [("name", .s "a"), ("state", .i 0), ("groups", .sl ["g"])] }
/-- host `B`, in no group -/
def rowB : Row := { cells := [("name", .s "B"), ("state", .i 1), ("groups", .sl [])] }
/-- hostgroup `g` listing host `a` -/
def grpG : Row := { cells := [("name", .s "g"), ("members", .sl ["a"])] }
/-- the store keeps the hosts in key order (`B` sorts before `a` bytewise) -/
def backend : Backend := { id := "b1", name := "b1", tables := [("hosts", [rowB, rowA]), ("hostgroups", [grpG])] }
def cx : Ctx := { schema := { tables := [hosts, hostgroups] }, ds := { backends := [backend] }, b := backend }
/-- `Filter: name <op> x` -/
def nameLeaf (op : Op) (x : String) : Leaf := { col := nameCol, op := op, sval := x }
/-- `Filter: state = 1` -/
def stateLeaf : Leaf := { col := stateCol, op := .eq, sval := "1", num := 1000 }
/-- `Filter: groups >= g` -/
def groupLeaf : Leaf := { col := groupsCol, op := .ge, sval := "g" }

end Demo

end Lmd.Lemmas
