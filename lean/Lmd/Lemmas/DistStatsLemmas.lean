/-
  Lmd.Lemmas.DistStatsLemmas — Stats in a cluster: `distStats` (every node answers for its backends, the
  asked node applies the replies to fresh accumulators) against `statsQuery` (one instance folding
  `mergeStats` over all backends).  Both compute, key by key and slot by slot, the same sum in a
  commutative monoid; what differs is grouping and order.
-/
import Lmd.Lemmas.DistLemmas

namespace Lmd.Dist
open Lmd Lmd.Sort Lmd.C05

/-! ## 1. well-formed slot lists -/

/-- a counter slot holds its count in both fields -/
def Good (a : Acc) : Prop := a.kind = .counter → a.stats = (a.count : Int)

/-- a slot list of the right shape: one slot per stats column, of that column's kind, counters good -/
def WF (kinds : List AccKind) (slots : Accs) : Prop :=
  slots.map (·.kind) = kinds ∧ ∀ a ∈ slots, Good a

theorem good_init (k : AccKind) : Good (Acc.init k) := by
  intro h
  have hk : k = .counter := h
  subst hk
  simp [Acc.init]

theorem kind_apply (a : Acc) (v : Int) (c : Nat) : (a.apply v c).kind = a.kind := by
  unfold Acc.apply
  cases a.kind <;> rfl

theorem good_apply (a : Acc) (v : Int) (c : Nat) (h : Good a) : Good (a.apply v c) := by
  intro hk
  rw [kind_apply] at hk
  have := h hk
  simp only [Acc.apply, hk]
  push_cast
  omega

theorem kind_incr (a : Acc) : (incr a).kind = a.kind := rfl

theorem good_incr (a : Acc) (h : Good a) : Good (incr a) := by
  intro hk
  have := h hk
  simp only [incr]
  push_cast
  omega

theorem wf_init (kinds : List AccKind) : WF kinds (kinds.map Acc.init) := by
  refine ⟨?_, ?_⟩
  · rw [List.map_map]
    conv => rhs; rw [← List.map_id kinds]
    apply List.map_congr_left
    intro k _
    simp [Acc.init]
  · intro a ha
    obtain ⟨k, _, rfl⟩ := List.mem_map.mp ha
    exact good_init k

theorem wf_bump (kinds : List AccKind) (accs : Accs) (p : Nat) (f : Acc → Acc)
    (hk : ∀ a, (f a).kind = a.kind) (hg : ∀ a, Good a → Good (f a)) (h : WF kinds accs) :
    WF kinds (accs.bump p f) := by
  unfold Accs.bump
  cases hp : accs[p]? with
  | none => exact h
  | some a =>
    obtain ⟨hlt, rfl⟩ := List.getElem?_eq_some_iff.mp hp
    refine ⟨?_, ?_⟩
    · rw [List.map_set, hk, ← h.1]
      apply List.ext_getElem
      · simp
      · intro i h1 h2
        simp only [List.getElem_set, List.getElem_map]
        split
        · rename_i e; subst e; rfl
        · rfl
    · intro b hb
      rcases List.mem_or_eq_of_mem_set hb with hb | rfl
      · exact h.2 b hb
      · exact hg _ (h.2 _ (List.getElem_mem _))

theorem wf_applyBumps (kinds : List AccKind) :
    ∀ (bs : List Bump) (accs accs' : Accs), WF kinds accs → applyBumps bs accs = some accs' → WF kinds accs'
  | [], accs, accs', h, e => by
    simp only [applyBumps, Option.some.injEq] at e
    exact e ▸ h
  | (p, .incr) :: bs, accs, accs', h, e => by
    simp only [applyBumps] at e
    exact wf_applyBumps kinds bs _ _ (wf_bump kinds accs p incr kind_incr good_incr h) e
  | (p, .app v) :: bs, accs, accs', h, e => by
    simp only [applyBumps] at e
    exact wf_applyBumps kinds bs _ _
      (wf_bump kinds accs p _ (fun a => kind_apply a v 1) (fun a => good_apply a v 1) h) e
  | (_, .crash) :: _, _, _, _, e => by simp [applyBumps] at e

theorem wf_countFlat (kinds : List AccKind) (q : Quirks) (pd : Bool) (v : View) :
    ∀ (stats : List StatsEntry) (pos : Nat) (accs accs' : Accs), WF kinds accs →
      countFlat q pd v stats pos accs = some accs' → WF kinds accs'
  | [], _, accs, accs', h, e => by
    simp only [countFlat, Option.some.injEq] at e
    exact e ▸ h
  | .counter f :: rest, pos, accs, accs', h, e => by
    simp only [countFlat] at e
    refine wf_countFlat kinds q pd v rest (pos + 1) _ _ ?_ e
    repeat' split
    all_goals first
      | exact h
      | exact wf_bump kinds accs pos _ (fun _ => rfl) (fun a => good_incr a) h
  | .agg _ col _ :: rest, pos, accs, accs', h, e => by
    simp only [countFlat] at e
    cases hg : getFloat v col with
    | none => simp [hg] at e
    | some x =>
      simp only [hg] at e
      exact wf_countFlat kinds q pd v rest (pos + 1) _ _
        (wf_bump kinds accs pos _ (fun a => kind_apply a x 1) (fun a => good_apply a x 1) h) e

theorem wf_gsCount (kinds : List AccKind) (m : StatsMode) (cx : Ctx) (t : Table) (req : Request) (r : Row)
    (accs accs' : Accs) (h : WF kinds accs) (e : gsCount m cx t req r accs = some accs') : WF kinds accs' := by
  unfold gsCount at e
  split at e
  · rw [countNodes_eq] at e
    exact wf_applyBumps kinds _ _ _ h e
  · exact wf_countFlat kinds _ _ _ _ _ _ _ h e

theorem wf_foldlM {α : Type} (kinds : List AccKind) (cnt : α → Accs → Option Accs)
    (hc : ∀ r accs accs', WF kinds accs → cnt r accs = some accs' → WF kinds accs') :
    ∀ (rows : List α) (accs accs' : Accs), WF kinds accs →
      rows.foldlM (fun a r => cnt r a) accs = some accs' → WF kinds accs'
  | [], accs, accs', h, e => by
    simp only [List.foldlM_nil] at e
    cases e
    exact h
  | r :: rows, accs, accs', h, e => by
    rw [List.foldlM_cons] at e
    cases hx : cnt r accs with
    | none => simp [hx] at e
    | some x =>
      simp only [hx] at e
      exact wf_foldlM kinds cnt hc rows x accs' (hc r accs x h hx) e

/-- the kinds of the stats columns of a request -/
def kindsOf (req : Request) : List AccKind := req.stats.map (·.accKind)

theorem gsInit_eq (req : Request) : gsInit req = (kindsOf req).map Acc.init := by
  simp [gsInit, kindsOf, List.map_map, Function.comp_def]

/-- every slot list a backend returns is well formed, and without requested columns its only key is the
    empty one -/
theorem gatherStats_wf (m : StatsMode) (cx : Ctx) (t : Table) (req : Request) (reqCols : List Column)
    (res : StatsMap) (h : gatherStats m cx t req reqCols = some res) :
    (keys res).Nodup ∧
    (∀ key slots, lookup res key = some slots → WF (kindsOf req) slots) ∧
    (reqCols = [] → ∀ key slots, lookup res key = some slots → key = "") := by
  rw [gatherStats_eq] at h
  obtain ⟨hn, hk⟩ := foldRows_spec _ _ _ _ _ _ _ h
  refine ⟨hn (by simp [keys]), ?_, ?_⟩
  · intro key slots hl
    have := hk key
    simp only [lookup_nil, Option.isSome_none, Bool.false_or, Option.getD_none] at this
    split at this
    · obtain ⟨slots', hl', hf⟩ := this
      rw [hl] at hl'
      cases hl'
      refine wf_foldlM (kindsOf req) (fun r a => gsCount m cx t req r a)
        (fun r accs accs' => wf_gsCount (kindsOf req) m cx t req r accs accs') _ _ _ ?_ hf
      rw [gsInit_eq]
      exact wf_init _
    · rw [this] at hl; cases hl
  · intro hc key slots hl
    have := hk key
    simp only [lookup_nil, Option.isSome_none, Bool.false_or, Option.getD_none] at this
    split at this
    · rename_i hne
      subst hc
      cases hrows : rowsOf (gsOk m cx t req) (gsKey cx t []) (gsCands m cx t req) key with
      | nil => simp [hrows] at hne
      | cons r _ =>
        have hr : r ∈ rowsOf (gsOk m cx t req) (gsKey cx t []) (gsCands m cx t req) key := by
          rw [hrows]; simp
        simp only [rowsOf, List.mem_filter, Bool.and_eq_true, beq_iff_eq] at hr
        rw [← hr.2.2]
        rfl
    · rw [this] at hl; cases hl

/-! ## 2. the commutative monoid of slot values -/

/-- what a slot has seen: the number of rows, the additive value (count or sum), and the running
    minimum / maximum (`none` before the first row) -/
abbrev Den := Nat × Int × Option Int

def optMerge (f : Int → Int → Int) : Option Int → Option Int → Option Int
  | none, o => o
  | some x, none => some x
  | some x, some y => some (f x y)

/-- the smaller or the larger of two values, by the kind of the column -/
def pick (k : AccKind) (x y : Int) : Int := if k = .max then max x y else min x y

def comb (k : AccKind) (d₁ d₂ : Den) : Den :=
  (d₁.1 + d₂.1, d₁.2.1 + d₂.2.1, optMerge (pick k) d₁.2.2 d₂.2.2)

/-- the slot that has seen nothing -/
def e0 : Den := (0, 0, none)

/-- the value of a slot -/
def D (a : Acc) : Den :=
  (a.count,
    (match a.kind with
      | .counter => (a.count : Int)
      | .sum | .avg => a.stats
      | _ => 0),
    (match a.kind with
      | .min | .max => if a.count = 0 then none else some a.stats
      | _ => none))

theorem pick_assoc (k : AccKind) (x y z : Int) : pick k (pick k x y) z = pick k x (pick k y z) := by
  unfold pick
  split <;> omega

theorem pick_comm (k : AccKind) (x y : Int) : pick k x y = pick k y x := by
  unfold pick
  split <;> omega

theorem optMerge_none_right (f : Int → Int → Int) (o : Option Int) : optMerge f o none = o := by
  cases o <;> rfl

theorem comb_assoc (k : AccKind) (a b c : Den) : comb k (comb k a b) c = comb k a (comb k b c) := by
  obtain ⟨n₁, s₁, o₁⟩ := a
  obtain ⟨n₂, s₂, o₂⟩ := b
  obtain ⟨n₃, s₃, o₃⟩ := c
  simp only [comb, Prod.mk.injEq]
  refine ⟨by omega, by omega, ?_⟩
  cases o₁ <;> cases o₂ <;> cases o₃ <;> simp [optMerge, pick_assoc]

theorem comb_comm (k : AccKind) (a b : Den) : comb k a b = comb k b a := by
  obtain ⟨n₁, s₁, o₁⟩ := a
  obtain ⟨n₂, s₂, o₂⟩ := b
  simp only [comb, Prod.mk.injEq]
  refine ⟨by omega, by omega, ?_⟩
  cases o₁ <;> cases o₂ <;> simp [optMerge, pick_comm k]

theorem comb_e0_right (k : AccKind) (a : Den) : comb k a e0 = a := by
  obtain ⟨n, s, o⟩ := a
  simp [comb, e0, optMerge_none_right]

theorem comb_e0_left (k : AccKind) (a : Den) : comb k e0 a = a := by
  rw [comb_comm, comb_e0_right]

theorem comb_right_comm (k : AccKind) (z x y : Den) : comb k (comb k z x) y = comb k (comb k z y) x := by
  rw [comb_assoc, comb_comm k x y, ← comb_assoc]

theorem D_init (k : AccKind) : D (Acc.init k) = e0 := by
  cases k <;> simp [D, Acc.init, e0]

/-- applying a reply slot to an accumulator of the same kind adds the values -/
theorem D_apply (a b : Acc) (hk : b.kind = a.kind) :
    D (a.apply b.stats b.count) = comb a.kind (D a) (D b) := by
  obtain ⟨ka, sa, ca⟩ := a
  obtain ⟨kb, sb, cb⟩ := b
  simp only at hk
  subst hk
  cases kb
  · simp [D, Acc.apply, comb, optMerge]
  · simp [D, Acc.apply, comb, optMerge]
  · simp [D, Acc.apply, comb, optMerge]
  · simp only [D, Acc.apply, comb, Prod.mk.injEq, true_and, Int.add_zero]
    by_cases ha : ca = 0 <;> by_cases hb : cb = 0
    · simp [ha, hb, optMerge]
    · have : 0 < cb := by omega
      simp [ha, hb, optMerge, this]
    · simp [ha, hb, optMerge]
    · have : 0 < cb := by omega
      have h2 : ¬ (ca + cb = 0) := by omega
      simp only [ha, hb, h2, if_false, optMerge, pick, Option.some.injEq, this, decide_true,
        Bool.true_and, beq_iff_eq, false_or, Bool.or_eq_true, decide_eq_true_eq]
      rw [if_neg (by decide : ¬ AccKind.min = AccKind.max)]
      split <;> omega
  · simp only [D, Acc.apply, comb, Prod.mk.injEq, true_and, Int.add_zero]
    by_cases ha : ca = 0 <;> by_cases hb : cb = 0
    · simp [ha, hb, optMerge]
    · have : 0 < cb := by omega
      simp [ha, hb, optMerge, this]
    · simp [ha, hb, optMerge]
    · have : 0 < cb := by omega
      have h2 : ¬ (ca + cb = 0) := by omega
      simp only [ha, hb, h2, if_false, optMerge, pick, Option.some.injEq, this, decide_true,
        Bool.true_and, beq_iff_eq, false_or, Bool.or_eq_true, decide_eq_true_eq, if_true]
      split <;> omega

/-- the printed value of a good slot is determined by its kind and its value -/
theorem final_of_D (a b : Acc) (hk : a.kind = b.kind) (ga : Good a) (gb : Good b) (h : D a = D b) :
    a.final = b.final := by
  obtain ⟨ka, sa, ca⟩ := a
  obtain ⟨kb, sb, cb⟩ := b
  simp only at hk
  subst hk
  simp only [D, Prod.mk.injEq] at h
  obtain ⟨hc, hs, ho⟩ := h
  subst hc
  simp only [Acc.final]
  by_cases h0 : ca = 0
  · simp [h0]
  · have hb : (ca == 0) = false := by simp [h0]
    simp only [hb, Bool.false_eq_true, if_false]
    cases ka
    · have h1 := ga rfl
      have h2 := gb rfl
      simp only at h1 h2
      simp [h1, h2]
    · simp only at hs; simp [hs]
    · simp only at hs; simp [hs]
    · simp only [h0, if_false, Option.some.injEq] at ho; simp [ho]
    · simp only [h0, if_false, Option.some.injEq] at ho; simp [ho]

/-! ## 3. slot lists, slot by slot -/

theorem WF.length {kinds : List AccKind} {slots : Accs} (h : WF kinds slots) :
    slots.length = kinds.length := by
  rw [← h.1, List.length_map]

theorem WF.kind_at {kinds : List AccKind} {slots : Accs} (h : WF kinds slots) (i : Nat)
    (h₁ : i < slots.length) (h₂ : i < kinds.length) : slots[i].kind = kinds[i] := by
  have : (slots.map (·.kind))[i]'(by simpa using h₁) = kinds[i] := by
    simp only [h.1]
  simpa using this

/-- the value of slot `i` of a slot list (`e0` beyond its end) -/
def cellOf (slots : Accs) (i : Nat) : Den :=
  match slots[i]? with
  | some a => D a
  | none => e0

theorem cellOf_of_lt (slots : Accs) (i : Nat) (h : i < slots.length) : cellOf slots i = D slots[i] := by
  simp [cellOf, List.getElem?_eq_getElem h]

theorem zipMerge_eq_zipWith (cur s : Accs) :
    zipMerge cur s = List.zipWith (fun c x => c.apply x.stats x.count) cur s := by
  simp [zipMerge, List.zip_eq_zipWith, List.map_zipWith]

theorem wf_zipMerge {kinds : List AccKind} {cur s : Accs} (hc : WF kinds cur) (hs : WF kinds s) :
    WF kinds (zipMerge cur s) := by
  have hl := hc.length
  have hl' := hs.length
  rw [zipMerge_eq_zipWith]
  refine ⟨?_, ?_⟩
  · apply List.ext_getElem
    · simp [hl, hl']
    · intro i h₁ h₂
      simp only [List.length_map, List.length_zipWith] at h₁
      simp only [List.getElem_map, List.getElem_zipWith, kind_apply]
      exact hc.kind_at i (by omega) h₂
  · intro a ha
    obtain ⟨i, hi, rfl⟩ := List.getElem_of_mem ha
    simp only [List.getElem_zipWith]
    exact good_apply _ _ _ (hc.2 _ (List.getElem_mem _))

theorem cellOf_zipMerge {kinds : List AccKind} {cur s : Accs} (hc : WF kinds cur) (hs : WF kinds s)
    (i : Nat) (hi : i < kinds.length) :
    cellOf (zipMerge cur s) i = comb kinds[i] (cellOf cur i) (cellOf s i) := by
  have hl := hc.length
  have hl' := hs.length
  have h1 : i < cur.length := by omega
  have h2 : i < s.length := by omega
  have h3 : i < (zipMerge cur s).length := by rw [(wf_zipMerge hc hs).length]; exact hi
  rw [cellOf_of_lt _ _ h1, cellOf_of_lt _ _ h2, cellOf_of_lt _ _ h3]
  have : (zipMerge cur s)[i] = cur[i].apply s[i].stats s[i].count := by
    simp only [zipMerge_eq_zipWith, List.getElem_zipWith]
  rw [this, D_apply _ _ ((hs.kind_at i h2 hi).trans (hc.kind_at i h1 hi).symm), hc.kind_at i h1 hi]

theorem cellOf_init (kinds : List AccKind) (i : Nat) : cellOf (kinds.map Acc.init) i = e0 := by
  unfold cellOf
  rw [List.getElem?_map]
  cases kinds[i]? <;> simp [D_init]

/-! ## 4. stats maps, key by key -/

/-- every slot list of the map is well formed -/
def WFmap (kinds : List AccKind) (M : StatsMap) : Prop :=
  ∀ key slots, lookup M key = some slots → WF kinds slots

/-- the value of slot `i` under `key` (`e0` when the map has no such key) -/
def cell (M : StatsMap) (key : String) (i : Nat) : Den :=
  match lookup M key with
  | some slots => cellOf slots i
  | none => e0

theorem wfmap_nil (kinds : List AccKind) : WFmap kinds [] := by
  intro key slots h
  simp [lookup_nil] at h

theorem cell_nil (key : String) (i : Nat) : cell [] key i = e0 := rfl

theorem lookup_isSome_iff (M : StatsMap) (key : String) : (lookup M key).isSome = true ↔ key ∈ keys M := by
  have := lookup_none_iff M key
  cases h : lookup M key with
  | none => simp [this.mp h]
  | some x =>
    simp only [Option.isSome_some, true_iff]
    apply Classical.byContradiction
    intro hn
    rw [this.mpr hn] at h
    cases h

theorem keys_mergeStep_nodup (acc : StatsMap) (p : String × Accs) (h : (keys acc).Nodup) :
    (keys (mergeStep acc p)).Nodup := by
  unfold mergeStep
  cases hf : acc.find? (·.1 == p.1) with
  | none =>
    have hl : lookup acc p.1 = none := by simp [lookup, hf]
    have hnot := (lookup_none_iff acc p.1).mp hl
    simp only [keys, List.map_append, List.map_cons, List.map_nil] at hnot ⊢
    rw [List.nodup_append]
    refine ⟨h, by simp, ?_⟩
    intro a ha b hb
    simp only [List.mem_singleton] at hb
    subst hb
    intro e; subst e; exact hnot ha
  | some q =>
    have : keys (acc.map fun (x : String × Accs) =>
        if x.1 == p.1 then (x.1, zipMerge x.2 p.2) else (x.1, x.2)) = keys acc := by
      unfold keys
      rw [List.map_map]
      apply List.map_congr_left
      intro x _
      simp only [Function.comp]
      split <;> rfl
    simp only []
    exact this ▸ h

theorem keys_mergeStats_nodup (b : StatsMap) : ∀ a : StatsMap, (keys a).Nodup → (keys (mergeStats a b)).Nodup := by
  induction b with
  | nil => intro a h; simpa [mergeStats] using h
  | cons x xs ih =>
    intro a h
    rw [mergeStats_eq_foldl, List.foldl_cons, ← mergeStats_eq_foldl]
    exact ih _ (keys_mergeStep_nodup a x h)

theorem wfmap_mergeStats {kinds : List AccKind} {a b : StatsMap} (hn : (keys b).Nodup)
    (ha : WFmap kinds a) (hb : WFmap kinds b) : WFmap kinds (mergeStats a b) := by
  intro key slots h
  rw [mergeStats_lookup b a hn key] at h
  cases hlb : lookup b key with
  | none => rw [hlb] at h; exact ha key slots h
  | some s =>
    rw [hlb] at h
    cases hla : lookup a key with
    | none =>
      rw [hla] at h
      simp only [Option.some.injEq] at h
      exact h ▸ hb key s hlb
    | some cur =>
      rw [hla] at h
      simp only [Option.some.injEq] at h
      exact h ▸ wf_zipMerge (ha key cur hla) (hb key s hlb)

theorem cell_mergeStats {kinds : List AccKind} {a b : StatsMap} (hn : (keys b).Nodup)
    (ha : WFmap kinds a) (hb : WFmap kinds b) (key : String) (i : Nat) (hi : i < kinds.length) :
    cell (mergeStats a b) key i = comb kinds[i] (cell a key i) (cell b key i) := by
  unfold cell
  rw [mergeStats_lookup b a hn key]
  cases hlb : lookup b key with
  | none => simp only [comb_e0_right]
  | some s =>
    cases hla : lookup a key with
    | none => simp only [comb_e0_left]
    | some cur => exact cellOf_zipMerge (ha key cur hla) (hb key s hlb) i hi

theorem isSome_mergeStats {a b : StatsMap} (hn : (keys b).Nodup) (key : String) :
    (lookup (mergeStats a b) key).isSome = ((lookup a key).isSome || (lookup b key).isSome) := by
  rw [mergeStats_lookup b a hn key]
  cases lookup b key <;> cases lookup a key <;> rfl

/-! ## 5. `mergeDist`, key by key -/

/-- one step of `mergeDist`: a reply row is applied to the accumulators of its key (fresh ones for a new key) -/
def distStep (kinds : List AccKind) (acc : StatsMap) (p : String × Accs) : StatsMap :=
  if acc.any (·.1 == p.1) then
    acc.map fun (x : String × Accs) =>
      if x.1 == p.1 then
        (x.1, zipMerge (match acc.find? (·.1 == p.1) with
          | some (_, c) => c
          | none => kinds.map Acc.init) p.2)
      else (x.1, x.2)
  else acc ++ [(p.1, zipMerge (match acc.find? (·.1 == p.1) with
          | some (_, c) => c
          | none => kinds.map Acc.init) p.2)]

theorem mergeDist_eq_foldl (kinds : List AccKind) (acc rows : StatsMap) :
    mergeDist kinds acc rows = rows.foldl (distStep kinds) acc := by
  unfold mergeDist
  congr 1

theorem distStep_lookup (kinds : List AccKind) (acc : StatsMap) (key : String) (slots : Accs) (k : String) :
    lookup (distStep kinds acc (key, slots)) k =
      if k = key then some (zipMerge ((lookup acc key).getD (kinds.map Acc.init)) slots)
      else lookup acc k := by
  unfold distStep
  cases hf : acc.find? (·.1 == key) with
  | none =>
    have hl : lookup acc key = none := by simp [lookup, hf]
    have hany : acc.any (·.1 == key) = false := by
      rw [List.find?_eq_none] at hf
      rw [List.any_eq_false]
      exact hf
    simp only [hany, Bool.false_eq_true, if_false, lookup_append_new, hl, Option.getD_none]
    by_cases hk : k = key
    · subst hk; simp [hl]
    · have : ¬ key = k := fun e => hk e.symm
      cases lookup acc k <;> simp [hk, this]
  | some q =>
    have hl : lookup acc key = some q.2 := by simp [lookup, hf]
    have hany : acc.any (·.1 == key) = true := by
      rw [List.any_eq_true]
      exact ⟨q, List.mem_of_find?_eq_some hf, List.find?_some (p := fun x : String × Accs => x.1 == key) hf⟩
    simp only [hany, if_true, hl, Option.getD_some]
    rw [lookup_replace]
    by_cases hk : k = key
    · subst hk; simp [hl]
    · simp [hk]

theorem mergeDist_lookup (kinds : List AccKind) (rows : StatsMap) :
    ∀ (acc : StatsMap), (keys rows).Nodup → ∀ k,
      lookup (mergeDist kinds acc rows) k =
        match lookup rows k with
        | none => lookup acc k
        | some s => some (zipMerge ((lookup acc k).getD (kinds.map Acc.init)) s) := by
  induction rows with
  | nil => intro acc _ k; simp [mergeDist, lookup_nil]
  | cons x xs ih =>
    intro acc hn k
    obtain ⟨key, slots⟩ := x
    simp only [keys, List.map_cons, List.nodup_cons] at hn
    rw [mergeDist_eq_foldl, List.foldl_cons, ← mergeDist_eq_foldl, ih _ hn.2 k, lookup_cons]
    by_cases hk : key = k
    · subst hk
      have : lookup xs key = none := (lookup_none_iff xs key).mpr hn.1
      simp [this, distStep_lookup]
    · have hk' : ¬ k = key := fun e => hk e.symm
      simp only [hk, if_false, distStep_lookup, hk']

theorem keys_distStep_nodup (kinds : List AccKind) (acc : StatsMap) (p : String × Accs)
    (h : (keys acc).Nodup) : (keys (distStep kinds acc p)).Nodup := by
  unfold distStep
  cases hany : acc.any (·.1 == p.1) with
  | false =>
    simp only [Bool.false_eq_true, if_false]
    have hnot : p.1 ∉ keys acc := by
      intro hmem
      obtain ⟨x, hx, hxe⟩ := List.mem_map.mp hmem
      have : acc.any (·.1 == p.1) = true := List.any_eq_true.mpr ⟨x, hx, by simp [hxe]⟩
      rw [hany] at this
      cases this
    simp only [keys, List.map_append, List.map_cons, List.map_nil] at hnot ⊢
    rw [List.nodup_append]
    refine ⟨h, by simp, ?_⟩
    intro a ha b hb
    simp only [List.mem_singleton] at hb
    subst hb
    intro e; subst e; exact hnot ha
  | true =>
    simp only [if_true]
    rw [keys_replace]
    exact h

theorem keys_mergeDist_nodup (kinds : List AccKind) (rows : StatsMap) :
    ∀ acc : StatsMap, (keys acc).Nodup → (keys (mergeDist kinds acc rows)).Nodup := by
  induction rows with
  | nil => intro acc h; simpa [mergeDist] using h
  | cons x xs ih =>
    intro acc h
    rw [mergeDist_eq_foldl, List.foldl_cons, ← mergeDist_eq_foldl]
    exact ih _ (keys_distStep_nodup kinds acc x h)

theorem wfmap_mergeDist {kinds : List AccKind} {acc rows : StatsMap} (hn : (keys rows).Nodup)
    (ha : WFmap kinds acc) (hb : WFmap kinds rows) : WFmap kinds (mergeDist kinds acc rows) := by
  intro key slots h
  rw [mergeDist_lookup kinds rows acc hn key] at h
  cases hlb : lookup rows key with
  | none => rw [hlb] at h; exact ha key slots h
  | some s =>
    rw [hlb] at h
    simp only [Option.some.injEq] at h
    subst h
    refine wf_zipMerge ?_ (hb key s hlb)
    cases hla : lookup acc key with
    | none => exact wf_init kinds
    | some cur => exact ha key cur hla

theorem cell_mergeDist {kinds : List AccKind} {acc rows : StatsMap} (hn : (keys rows).Nodup)
    (ha : WFmap kinds acc) (hb : WFmap kinds rows) (key : String) (i : Nat) (hi : i < kinds.length) :
    cell (mergeDist kinds acc rows) key i = comb kinds[i] (cell acc key i) (cell rows key i) := by
  unfold cell
  rw [mergeDist_lookup kinds rows acc hn key]
  cases hlb : lookup rows key with
  | none => simp only [comb_e0_right]
  | some s =>
    cases hla : lookup acc key with
    | none =>
      simp only [Option.getD_none]
      rw [cellOf_zipMerge (wf_init kinds) (hb key s hlb) i hi, cellOf_init]
    | some cur => exact cellOf_zipMerge (ha key cur hla) (hb key s hlb) i hi

theorem isSome_mergeDist (kinds : List AccKind) {acc rows : StatsMap} (hn : (keys rows).Nodup)
    (key : String) :
    (lookup (mergeDist kinds acc rows) key).isSome = ((lookup acc key).isSome || (lookup rows key).isSome) := by
  rw [mergeDist_lookup kinds rows acc hn key]
  cases lookup rows key <;> cases lookup acc key <;> rfl

/-! ## 6. folding the merges over lists of maps -/

/-- all maps of the list have distinct keys and well-formed slot lists -/
def AllOK (kinds : List AccKind) (Ms : List StatsMap) : Prop :=
  ∀ M ∈ Ms, (keys M).Nodup ∧ WFmap kinds M

theorem fold_mergeStats_spec (kinds : List AccKind) :
    ∀ (Ms : List StatsMap) (acc : StatsMap), AllOK kinds Ms → (keys acc).Nodup → WFmap kinds acc →
      (keys (Ms.foldl mergeStats acc)).Nodup ∧ WFmap kinds (Ms.foldl mergeStats acc) ∧
      (∀ key i (hi : i < kinds.length), cell (Ms.foldl mergeStats acc) key i =
        (Ms.map (cell · key i)).foldl (comb kinds[i]) (cell acc key i)) ∧
      (∀ key, (lookup (Ms.foldl mergeStats acc) key).isSome =
        ((lookup acc key).isSome || Ms.any (fun M => (lookup M key).isSome)))
  | [], acc, _, hn, hw => ⟨hn, hw, fun _ _ _ => rfl, fun _ => by simp⟩
  | M :: Ms, acc, hok, hn, hw => by
    have hM := hok M (by simp)
    have ih := fold_mergeStats_spec kinds Ms (mergeStats acc M)
      (fun M' hM' => hok M' (List.mem_cons_of_mem _ hM'))
      (keys_mergeStats_nodup M acc hn) (wfmap_mergeStats hM.1 hw hM.2)
    refine ⟨ih.1, ih.2.1, ?_, ?_⟩
    · intro key i hi
      rw [List.foldl_cons, ih.2.2.1 key i hi, cell_mergeStats hM.1 hw hM.2 key i hi]
      rfl
    · intro key
      rw [List.foldl_cons, ih.2.2.2 key, isSome_mergeStats hM.1 key, List.any_cons, Bool.or_assoc]

theorem fold_mergeDist_spec (kinds : List AccKind) :
    ∀ (Rs : List StatsMap) (acc : StatsMap), AllOK kinds Rs → (keys acc).Nodup → WFmap kinds acc →
      (keys (Rs.foldl (mergeDist kinds) acc)).Nodup ∧ WFmap kinds (Rs.foldl (mergeDist kinds) acc) ∧
      (∀ key i (hi : i < kinds.length), cell (Rs.foldl (mergeDist kinds) acc) key i =
        (Rs.map (cell · key i)).foldl (comb kinds[i]) (cell acc key i)) ∧
      (∀ key, (lookup (Rs.foldl (mergeDist kinds) acc) key).isSome =
        ((lookup acc key).isSome || Rs.any (fun M => (lookup M key).isSome)))
  | [], acc, _, hn, hw => ⟨hn, hw, fun _ _ _ => rfl, fun _ => by simp⟩
  | M :: Rs, acc, hok, hn, hw => by
    have hM := hok M (by simp)
    have ih := fold_mergeDist_spec kinds Rs (mergeDist kinds acc M)
      (fun M' hM' => hok M' (List.mem_cons_of_mem _ hM'))
      (keys_mergeDist_nodup kinds M acc hn) (wfmap_mergeDist hM.1 hw hM.2)
    refine ⟨ih.1, ih.2.1, ?_, ?_⟩
    · intro key i hi
      rw [List.foldl_cons, ih.2.2.1 key i hi, cell_mergeDist hM.1 hw hM.2 key i hi]
      rfl
    · intro key
      rw [List.foldl_cons, ih.2.2.2 key, isSome_mergeDist kinds hM.1 key, List.any_cons, Bool.or_assoc]

/-- a sum in the monoid may be taken part by part -/
theorem foldl_comb_shift (k : AccKind) (d : Den) (l : List Den) :
    l.foldl (comb k) d = comb k d (l.foldl (comb k) e0) := by
  induction l generalizing d with
  | nil => simp [comb_e0_right]
  | cons x xs ih =>
    simp only [List.foldl_cons]
    rw [ih (comb k d x), ih (comb k e0 x), comb_e0_left, comb_assoc]

theorem foldl_comb_flatten (k : AccKind) (Ls : List (List Den)) :
    Ls.flatten.foldl (comb k) e0 = (Ls.map (fun l => l.foldl (comb k) e0)).foldl (comb k) e0 := by
  suffices h : ∀ d, Ls.flatten.foldl (comb k) d = (Ls.map (fun l => l.foldl (comb k) e0)).foldl (comb k) d
    from h e0
  induction Ls with
  | nil => intro d; rfl
  | cons l Ls ih =>
    intro d
    simp only [List.flatten_cons, List.foldl_append, List.map_cons, List.foldl_cons]
    rw [ih, foldl_comb_shift k d l]

theorem foldl_comb_perm (k : AccKind) {l₁ l₂ : List Den} (h : l₁.Perm l₂) (d : Den) :
    l₁.foldl (comb k) d = l₂.foldl (comb k) d :=
  h.foldl_eq' (fun x _ y _ z => comb_right_comm k z x y) d

/-! ## 7. `statsQuery` and `distStats` with named parts -/

/-- the stats map of one backend (`none`: the process would crash) -/
def gsOf (m : StatsMode) (s : Schema) (ds : Dataset) (t : Table) (req : Request) (b : Backend) :
    Option StatsMap :=
  gatherStats m { schema := s, ds := ds, b := b } t req (req.columns.map t.colWithFallback)

/-- the stats maps of the backends that did not crash -/
def mapsOf (m : StatsMode) (s : Schema) (ds : Dataset) (t : Table) (req : Request) (bs : List Backend) :
    List StatsMap := bs.filterMap (gsOf m s ds t req)

/-- some backend of the list would crash -/
def crashOf (m : StatsMode) (s : Schema) (ds : Dataset) (t : Table) (req : Request) (bs : List Backend) :
    Bool := bs.any fun b => (gsOf m s ds t req b).isNone

/-- the maps of a list of backends merged the way one instance does -/
def mergedOf (m : StatsMode) (s : Schema) (ds : Dataset) (t : Table) (req : Request) (bs : List Backend) :
    StatsMap := (mapsOf m s ds t req bs).foldl mergeStats []

/-- a request without columns always gets a row -/
def fixRows (req : Request) (M : StatsMap) : StatsMap :=
  if req.columns.isEmpty && M.isEmpty then [("", gsInit req)] else M

theorem statsQuery_eq (m : StatsMode) (s : Schema) (ds : Dataset) (t : Table) (req : Request) :
    statsQuery m s ds t req =
      if crashOf m s ds t req (availBackends ds t req) then
        { rows := [], failed := failedOf ds t req, crash := true }
      else
        { rows := fixRows req (mergedOf m s ds t req (availBackends ds t req)),
          failed := failedOf ds t req } := by
  have e1 : crashOf m s ds t req (availBackends ds t req) =
      ((availBackends ds t req).map (gsOf m s ds t req)).any Option.isNone := by
    simp [crashOf, List.any_map, Function.comp_def]
  have e2 : mergedOf m s ds t req (availBackends ds t req) =
      (((availBackends ds t req).map (gsOf m s ds t req)).filterMap id).foldl mergeStats [] := by
    simp [mergedOf, mapsOf, List.filterMap_map]
  rw [e1, e2]
  rfl

theorem selectBackends_congr (ds : Dataset) (t : Table) (req req' : Request)
    (h : req'.backends = req.backends) : selectBackends ds t req' = selectBackends ds t req := by
  simp only [selectBackends, h]

/-- what one node answers to a Stats request -/
theorem statsQuery_sub (m : StatsMode) (s : Schema) (ds : Dataset) (t : Table) (req : Request)
    (sub : List String) (hT : PerBackend t) (hne : sub ≠ []) :
    statsQuery m s ds t { req with backends := sub } =
      if crashOf m s ds t req (subAvail ds t sub) then
        { rows := [], failed := failedOf ds t (subRequestFor req sub), crash := true }
      else
        { rows := fixRows req (mergedOf m s ds t req (subAvail ds t sub)),
          failed := failedOf ds t (subRequestFor req sub) } := by
  have hsel : selectBackends ds t { req with backends := sub } = selectBackends ds t (subRequestFor req sub) :=
    selectBackends_congr ds t _ _ rfl
  have ha : availBackends ds t { req with backends := sub } = subAvail ds t sub := by
    rw [← availBackends_sub ds t req sub hT hne, availBackends, availBackends, hsel]
  have hf : failedOf ds t { req with backends := sub } = failedOf ds t (subRequestFor req sub) := by
    rw [failedOf, failedOf, hsel]
  rw [statsQuery_eq, ha, hf]
  rfl

/-- the answers of the nodes to a Stats request -/
def statParts (m : StatsMode) (s : Schema) (ds : Dataset) (t : Table) (req : Request)
    (shares : List (List String)) : List StatsResult :=
  (nodeSubs req shares).map fun sub => statsQuery m s ds t { req with backends := sub }

theorem distStats_unfold (m : StatsMode) (s : Schema) (ds : Dataset) (t : Table) (req : Request)
    (shares : List (List String)) :
    distStats m s ds t req shares =
      if (statParts m s ds t req shares).any (·.crash) then
        { rows := [], crash := true,
          failed := (selectBackends ds t req).failed ++ (statParts m s ds t req shares).flatMap (·.failed) }
      else
        { rows := fixRows req (((statParts m s ds t req shares).map (·.rows)).foldl
            (mergeDist (kindsOf req)) []),
          failed := (selectBackends ds t req).failed ++ (statParts m s ds t req shares).flatMap (·.failed) } := by
  have hp := filterMap_shares req (fun sub => statsQuery m s ds t { req with backends := sub }) shares
  simp only [distStats, statParts, ← hp, fixRows, gsInit_eq, kindsOf, List.foldl_map]

/-! ## 8. properties of the parts -/

theorem mem_mapsOf {m : StatsMode} {s : Schema} {ds : Dataset} {t : Table} {req : Request}
    {bs : List Backend} {M : StatsMap} (h : M ∈ mapsOf m s ds t req bs) :
    ∃ b, gsOf m s ds t req b = some M := by
  obtain ⟨b, _, hb⟩ := List.mem_filterMap.mp h
  exact ⟨b, hb⟩

theorem allOK_mapsOf (m : StatsMode) (s : Schema) (ds : Dataset) (t : Table) (req : Request)
    (bs : List Backend) : AllOK (kindsOf req) (mapsOf m s ds t req bs) := by
  intro M hM
  obtain ⟨b, hb⟩ := mem_mapsOf hM
  have := gatherStats_wf m _ t req _ M hb
  exact ⟨this.1, this.2.1⟩

/-- without requested columns the only key a backend produces is the empty one -/
theorem mapsOf_key_empty (m : StatsMode) (s : Schema) (ds : Dataset) (t : Table) (req : Request)
    (bs : List Backend) (he : req.columns.isEmpty = true) (M : StatsMap) (hM : M ∈ mapsOf m s ds t req bs)
    (key : String) (h : (lookup M key).isSome = true) : key = "" := by
  obtain ⟨b, hb⟩ := mem_mapsOf hM
  have := (gatherStats_wf m _ t req _ M hb).2.2 (by simp [List.isEmpty_iff.mp he])
  obtain ⟨slots, hs⟩ := Option.isSome_iff_exists.mp h
  exact this key slots hs

theorem mergedOf_spec (m : StatsMode) (s : Schema) (ds : Dataset) (t : Table) (req : Request)
    (bs : List Backend) :
    (keys (mergedOf m s ds t req bs)).Nodup ∧ WFmap (kindsOf req) (mergedOf m s ds t req bs) ∧
    (∀ key i (hi : i < (kindsOf req).length), cell (mergedOf m s ds t req bs) key i =
      ((mapsOf m s ds t req bs).map (cell · key i)).foldl (comb (kindsOf req)[i]) e0) ∧
    (∀ key, (lookup (mergedOf m s ds t req bs) key).isSome =
      (mapsOf m s ds t req bs).any (fun M => (lookup M key).isSome)) := by
  have := fold_mergeStats_spec (kindsOf req) (mapsOf m s ds t req bs) [] (allOK_mapsOf m s ds t req bs)
    (by simp [keys]) (wfmap_nil _)
  refine ⟨this.1, this.2.1, fun key i hi => this.2.2.1 key i hi, fun key => ?_⟩
  rw [mergedOf, this.2.2.2 key]
  simp [lookup_nil]

theorem wf_gsInit (req : Request) : WF (kindsOf req) (gsInit req) := by
  rw [gsInit_eq]; exact wf_init _

theorem fixRows_spec (req : Request) (M : StatsMap) (hn : (keys M).Nodup) (hw : WFmap (kindsOf req) M) :
    (keys (fixRows req M)).Nodup ∧ WFmap (kindsOf req) (fixRows req M) ∧
    (∀ key i, cell (fixRows req M) key i = cell M key i) := by
  unfold fixRows
  split
  · rename_i h
    simp only [Bool.and_eq_true, List.isEmpty_iff] at h
    obtain ⟨_, rfl⟩ := h
    refine ⟨by simp [keys], ?_, ?_⟩
    · intro key slots hl
      rw [lookup_cons] at hl
      split at hl
      · cases hl; exact wf_gsInit req
      · simp [lookup_nil] at hl
    · intro key i
      unfold cell
      rw [lookup_cons]
      by_cases hk : "" = key
      · simp only [hk, if_true, gsInit_eq, cellOf_init, lookup_nil]
      · simp only [hk, if_false, lookup_nil]
  · exact ⟨hn, hw, fun _ _ => rfl⟩

theorem fixRows_isSome_cols (req : Request) (M : StatsMap) (he : req.columns.isEmpty = false) :
    fixRows req M = M := by
  simp [fixRows, he]

theorem fixRows_isSome_nocols (req : Request) (M : StatsMap) (he : req.columns.isEmpty = true)
    (hk : ∀ key, (lookup M key).isSome = true → key = "") (key : String) :
    (lookup (fixRows req M) key).isSome = (key == "") := by
  unfold fixRows
  cases M with
  | nil =>
    simp only [he, List.isEmpty_nil, Bool.and_self, if_true, lookup_cons, lookup_nil]
    by_cases h : key = ""
    · subst h; simp
    · have : ¬ "" = key := fun e => h e.symm
      simp [h, this]
  | cons x M =>
    obtain ⟨k0, a0⟩ := x
    have h0 : k0 = "" := hk k0 (by simp [lookup_cons])
    subst h0
    simp only [List.isEmpty_cons, Bool.and_false, Bool.false_eq_true, if_false]
    by_cases h : key = ""
    · subst h; simp [lookup_cons]
    · have hb : (key == "") = false := by simp [h]
      rw [hb]
      cases hl : (lookup (("", a0) :: M) key).isSome with
      | false => rfl
      | true => exact absurd (hk key hl) h

/-! ## 9. the distributed Stats answer against the single one -/

theorem any_congr_mem {α : Type} {l : List α} {p q : α → Bool} (h : ∀ a ∈ l, p a = q a) :
    l.any p = l.any q := by
  induction l with
  | nil => rfl
  | cons a l ih =>
    rw [List.any_cons, List.any_cons, h a (by simp), ih (fun b hb => h b (List.mem_cons_of_mem _ hb))]

theorem statsQuery_crash (m : StatsMode) (s : Schema) (ds : Dataset) (t : Table) (req : Request) :
    (statsQuery m s ds t req).crash = crashOf m s ds t req (availBackends ds t req) := by
  rw [statsQuery_eq]
  split
  · rename_i h; rw [h]
  · rename_i h; simp only [Bool.not_eq_true] at h; rw [h]

theorem statsQuery_failed (m : StatsMode) (s : Schema) (ds : Dataset) (t : Table) (req : Request) :
    (statsQuery m s ds t req).failed = failedOf ds t req := by
  rw [statsQuery_eq]
  split <;> rfl

theorem statsQuery_rows (m : StatsMode) (s : Schema) (ds : Dataset) (t : Table) (req : Request)
    (h : crashOf m s ds t req (availBackends ds t req) = false) :
    (statsQuery m s ds t req).rows = fixRows req (mergedOf m s ds t req (availBackends ds t req)) := by
  rw [statsQuery_eq, h]
  rfl

theorem part_crash (m : StatsMode) (s : Schema) (ds : Dataset) (t : Table) (req : Request)
    (sub : List String) (hT : PerBackend t) (hne : sub ≠ []) :
    (statsQuery m s ds t { req with backends := sub }).crash = crashOf m s ds t req (subAvail ds t sub) := by
  rw [statsQuery_sub m s ds t req sub hT hne]
  split
  · rename_i h; rw [h]
  · rename_i h; simp only [Bool.not_eq_true] at h; rw [h]

theorem part_failed (m : StatsMode) (s : Schema) (ds : Dataset) (t : Table) (req : Request)
    (sub : List String) (hT : PerBackend t) (hne : sub ≠ []) :
    (statsQuery m s ds t { req with backends := sub }).failed = failedOf ds t (subRequestFor req sub) := by
  rw [statsQuery_sub m s ds t req sub hT hne]
  split <;> rfl

theorem part_rows (m : StatsMode) (s : Schema) (ds : Dataset) (t : Table) (req : Request)
    (sub : List String) (hT : PerBackend t) (hne : sub ≠ [])
    (h : crashOf m s ds t req (subAvail ds t sub) = false) :
    (statsQuery m s ds t { req with backends := sub }).rows =
      fixRows req (mergedOf m s ds t req (subAvail ds t sub)) := by
  rw [statsQuery_sub m s ds t req sub hT hne, h]
  rfl

theorem crashOf_flatMap (m : StatsMode) (s : Schema) (ds : Dataset) (t : Table) (req : Request)
    (subs : List (List String)) :
    crashOf m s ds t req (subs.flatMap (subAvail ds t)) =
      subs.any (fun sub => crashOf m s ds t req (subAvail ds t sub)) := by
  simp only [crashOf, List.any_flatMap]

theorem parts_crash (m : StatsMode) (s : Schema) (ds : Dataset) (t : Table) (req : Request)
    (shares : List (List String)) (hT : PerBackend t) (hp : Partition ds t req shares) :
    (statParts m s ds t req shares).any (·.crash) = crashOf m s ds t req (availBackends ds t req) := by
  rw [statParts, List.any_map]
  have : (nodeSubs req shares).any ((fun x : StatsResult => x.crash) ∘ fun sub =>
        statsQuery m s ds t { req with backends := sub }) =
      (nodeSubs req shares).any (fun sub => crashOf m s ds t req (subAvail ds t sub)) := by
    apply any_congr_mem
    intro sub hsub
    exact part_crash m s ds t req sub hT (ne_nil_of_mem_nodeSubs hsub)
  rw [this, ← crashOf_flatMap]
  exact (avail_perm ds t req shares hT hp).any_eq

/-- the crash flag of the distributed answer is that of the single answer -/
theorem distStats_crash (m : StatsMode) (s : Schema) (ds : Dataset) (t : Table) (req : Request)
    (shares : List (List String)) (hT : PerBackend t) (hp : Partition ds t req shares) :
    (distStats m s ds t req shares).crash = (statsQuery m s ds t req).crash := by
  rw [statsQuery_crash, ← parts_crash m s ds t req shares hT hp, distStats_unfold]
  split
  · rename_i h; rw [h]
  · rename_i h; simp only [Bool.not_eq_true] at h; rw [h]

/-- the failed list of the distributed Stats answer is, up to order, that of the single answer -/
theorem distStats_failed (m : StatsMode) (s : Schema) (ds : Dataset) (t : Table) (req : Request)
    (shares : List (List String)) (hT : PerBackend t) (hp : Partition ds t req shares) :
    (distStats m s ds t req shares).failed.Perm (statsQuery m s ds t req).failed := by
  have e : (distStats m s ds t req shares).failed =
      (selectBackends ds t req).failed ++ (statParts m s ds t req shares).flatMap (·.failed) := by
    rw [distStats_unfold]; split <;> rfl
  rw [e, statsQuery_failed, statParts, List.flatMap_map]
  have e2 : (nodeSubs req shares).flatMap
        (fun sub => (statsQuery m s ds t { req with backends := sub }).failed) =
      (nodeSubs req shares).flatMap (fun sub => failedOf ds t (subRequestFor req sub)) := by
    apply flatMap_congr_mem
    intro sub hsub
    exact part_failed m s ds t req sub hT (ne_nil_of_mem_nodeSubs hsub)
  rw [e2]
  exact failedOf_parts_perm ds t req shares hT hp

/-- the rows the nodes return when none of them crashes -/
def partRows (m : StatsMode) (s : Schema) (ds : Dataset) (t : Table) (req : Request)
    (shares : List (List String)) : List StatsMap :=
  (nodeSubs req shares).map fun sub => fixRows req (mergedOf m s ds t req (subAvail ds t sub))

/-- the rows of the distributed answer when no node crashes -/
def distRows (m : StatsMode) (s : Schema) (ds : Dataset) (t : Table) (req : Request)
    (shares : List (List String)) : StatsMap :=
  fixRows req ((partRows m s ds t req shares).foldl (mergeDist (kindsOf req)) [])

theorem distStats_rows (m : StatsMode) (s : Schema) (ds : Dataset) (t : Table) (req : Request)
    (shares : List (List String)) (hT : PerBackend t) (hp : Partition ds t req shares)
    (h : crashOf m s ds t req (availBackends ds t req) = false) :
    (distStats m s ds t req shares).rows = distRows m s ds t req shares := by
  have hpc := parts_crash m s ds t req shares hT hp
  rw [h] at hpc
  rw [distStats_unfold, hpc]
  simp only [Bool.false_eq_true, if_false, distRows, partRows, statParts, List.map_map]
  congr 2
  apply List.map_congr_left
  intro sub hsub
  simp only [Function.comp]
  refine part_rows m s ds t req sub hT (ne_nil_of_mem_nodeSubs hsub) ?_
  rw [statParts, List.any_map, List.any_eq_false] at hpc
  have := hpc sub hsub
  simp only [Function.comp, Bool.not_eq_true] at this
  rw [part_crash m s ds t req sub hT (ne_nil_of_mem_nodeSubs hsub)] at this
  exact this

theorem mapsOf_flatMap (m : StatsMode) (s : Schema) (ds : Dataset) (t : Table) (req : Request)
    (subs : List (List String)) :
    mapsOf m s ds t req (subs.flatMap (subAvail ds t)) =
      subs.flatMap (fun sub => mapsOf m s ds t req (subAvail ds t sub)) := by
  simp only [mapsOf, List.filterMap_flatMap]

theorem allOK_partRows (m : StatsMode) (s : Schema) (ds : Dataset) (t : Table) (req : Request)
    (shares : List (List String)) : AllOK (kindsOf req) (partRows m s ds t req shares) := by
  intro R hR
  obtain ⟨sub, _, rfl⟩ := List.mem_map.mp hR
  have h1 := mergedOf_spec m s ds t req (subAvail ds t sub)
  have h2 := fixRows_spec req _ h1.1 h1.2.1
  exact ⟨h2.1, h2.2.1⟩

theorem distRows_spec (m : StatsMode) (s : Schema) (ds : Dataset) (t : Table) (req : Request)
    (shares : List (List String)) (hT : PerBackend t) (hp : Partition ds t req shares) :
    (keys (distRows m s ds t req shares)).Nodup ∧ WFmap (kindsOf req) (distRows m s ds t req shares) ∧
    (∀ key i (_ : i < (kindsOf req).length), cell (distRows m s ds t req shares) key i =
      cell (fixRows req (mergedOf m s ds t req (availBackends ds t req))) key i) ∧
    (∀ key, (lookup (distRows m s ds t req shares) key).isSome =
      (lookup (fixRows req (mergedOf m s ds t req (availBackends ds t req))) key).isSome) := by
  have hD := fold_mergeDist_spec (kindsOf req) (partRows m s ds t req shares) []
    (allOK_partRows m s ds t req shares) (by simp [keys]) (wfmap_nil _)
  have hF := fixRows_spec req _ hD.1 hD.2.1
  have hS := mergedOf_spec m s ds t req (availBackends ds t req)
  have hSF := fixRows_spec req _ hS.1 hS.2.1
  have hperm := avail_perm ds t req shares hT hp
  have hmaps : ((nodeSubs req shares).flatMap (fun sub => mapsOf m s ds t req (subAvail ds t sub))).Perm
      (mapsOf m s ds t req (availBackends ds t req)) := by
    rw [← mapsOf_flatMap]
    exact hperm.filterMap _
  refine ⟨hF.1, hF.2.1, ?_, ?_⟩
  · intro key i hi
    rw [distRows, hF.2.2 key i, hD.2.2.1 key i hi, hSF.2.2 key i, hS.2.2.1 key i hi, cell_nil,
      partRows, List.map_map]
    have e : (nodeSubs req shares).map ((fun M : StatsMap => cell M key i) ∘ fun sub =>
          fixRows req (mergedOf m s ds t req (subAvail ds t sub))) =
        ((nodeSubs req shares).map fun sub =>
          (mapsOf m s ds t req (subAvail ds t sub)).map (cell · key i)).map
          (fun l => l.foldl (comb (kindsOf req)[i]) e0) := by
      rw [List.map_map]
      apply List.map_congr_left
      intro sub _
      simp only [Function.comp]
      have h1 := mergedOf_spec m s ds t req (subAvail ds t sub)
      rw [(fixRows_spec req _ h1.1 h1.2.1).2.2 key i, h1.2.2.1 key i hi]
    rw [e, ← foldl_comb_flatten]
    apply foldl_comb_perm
    have := hmaps.map (cell · key i)
    rw [List.map_flatMap, List.flatMap_def] at this
    exact this
  · intro key
    cases he : req.columns.isEmpty with
    | false =>
      rw [distRows, fixRows_isSome_cols req _ he, fixRows_isSome_cols req _ he, hD.2.2.2 key,
        hS.2.2.2 key, lookup_nil, Option.isSome_none, Bool.false_or, partRows, List.any_map,
        ← hmaps.any_eq, List.any_flatMap]
      apply any_congr_mem
      intro sub _
      simp only [Function.comp]
      rw [fixRows_isSome_cols req _ he, (mergedOf_spec m s ds t req (subAvail ds t sub)).2.2.2 key]
    | true =>
      have hpart : ∀ sub, ∀ key,
          (lookup (fixRows req (mergedOf m s ds t req (subAvail ds t sub))) key).isSome = (key == "") := by
        intro sub key
        apply fixRows_isSome_nocols req _ he
        intro k hk
        rw [(mergedOf_spec m s ds t req (subAvail ds t sub)).2.2.2 k, List.any_eq_true] at hk
        obtain ⟨M, hM, hMk⟩ := hk
        exact mapsOf_key_empty m s ds t req _ he M hM k hMk
      rw [distRows, fixRows_isSome_nocols req _ he ?_ key, fixRows_isSome_nocols req _ he ?_ key]
      · intro k hk
        rw [hS.2.2.2 k, List.any_eq_true] at hk
        obtain ⟨M, hM, hMk⟩ := hk
        exact mapsOf_key_empty m s ds t req _ he M hM k hMk
      · intro k hk
        rw [hD.2.2.2 k, lookup_nil, Option.isSome_none, Bool.false_or, partRows, List.any_map,
          List.any_eq_true] at hk
        obtain ⟨sub, _, hsk⟩ := hk
        simp only [Function.comp] at hsk
        rw [hpart sub k] at hsk
        simpa using hsk

theorem lookup_of_mem {M : StatsMap} (hn : (keys M).Nodup) {key : String} {slots : Accs}
    (h : (key, slots) ∈ M) : lookup M key = some slots := by
  induction M with
  | nil => cases h
  | cons x M ih =>
    obtain ⟨k0, a0⟩ := x
    simp only [keys, List.map_cons, List.nodup_cons] at hn
    rw [lookup_cons]
    rcases List.mem_cons.mp h with h | h
    · cases h; simp
    · have : k0 ≠ key := by
        intro e
        subst e
        exact hn.1 (List.mem_map.mpr ⟨(k0, slots), h, rfl⟩)
      simp only [this, if_false]
      exact ih hn.2 h

/-- equal values slot by slot give equal printed values -/
theorem finals_eq {kinds : List AccKind} {s₁ s₂ : Accs} (h₁ : WF kinds s₁) (h₂ : WF kinds s₂)
    (h : ∀ i (_ : i < kinds.length), cellOf s₁ i = cellOf s₂ i) :
    s₁.map Acc.final = s₂.map Acc.final := by
  apply List.ext_getElem
  · simp [h₁.length, h₂.length]
  · intro i hi₁ hi₂
    simp only [List.length_map] at hi₁ hi₂
    simp only [List.getElem_map]
    have hk : i < kinds.length := by rw [← h₁.length]; exact hi₁
    have := h i hk
    rw [cellOf_of_lt _ _ hi₁, cellOf_of_lt _ _ hi₂] at this
    exact final_of_D _ _ ((h₁.kind_at i hi₁ hk).trans (h₂.kind_at i hi₂ hk).symm)
      (h₁.2 _ (List.getElem_mem _)) (h₂.2 _ (List.getElem_mem _)) this

/-- the rows of the distributed Stats answer against those of the single answer: the same keys, and key
    by key the same printed values -/
theorem distStats_rows_spec (m : StatsMode) (s : Schema) (ds : Dataset) (t : Table) (req : Request)
    (shares : List (List String)) (hT : PerBackend t) (hp : Partition ds t req shares) :
    (keys (distStats m s ds t req shares).rows).Perm (keys (statsQuery m s ds t req).rows) ∧
    (keys (distStats m s ds t req shares).rows).Nodup ∧
    ∀ key s₁ s₂, (key, s₁) ∈ (distStats m s ds t req shares).rows →
      (key, s₂) ∈ (statsQuery m s ds t req).rows → s₁.map Acc.final = s₂.map Acc.final := by
  cases hc : crashOf m s ds t req (availBackends ds t req) with
  | true =>
    have h1 : (statsQuery m s ds t req).rows = [] := by
      rw [statsQuery_eq, hc]; rfl
    have h2 : (distStats m s ds t req shares).rows = [] := by
      rw [distStats_unfold, parts_crash m s ds t req shares hT hp, hc]; rfl
    rw [h1, h2]
    exact ⟨List.Perm.refl _, List.nodup_nil, fun _ _ _ h => by cases h⟩
  | false =>
    rw [distStats_rows m s ds t req shares hT hp hc, statsQuery_rows m s ds t req hc]
    obtain ⟨hn, hw, hcell, hsome⟩ := distRows_spec m s ds t req shares hT hp
    have hS := mergedOf_spec m s ds t req (availBackends ds t req)
    have hSF := fixRows_spec req _ hS.1 hS.2.1
    refine ⟨?_, hn, ?_⟩
    · rw [List.perm_ext_iff_of_nodup hn hSF.1]
      intro key
      rw [← lookup_isSome_iff, ← lookup_isSome_iff, hsome key]
    · intro key s₁ s₂ m₁ m₂
      have l₁ := lookup_of_mem hn m₁
      have l₂ := lookup_of_mem hSF.1 m₂
      refine finals_eq (hw key s₁ l₁) (hSF.2.1 key s₂ l₂) ?_
      intro i hi
      have := hcell key i hi
      simp only [cell, l₁, l₂] at this
      exact this

end Lmd.Dist
