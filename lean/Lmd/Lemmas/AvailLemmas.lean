/-
  Lmd.Lemmas.AvailLemmas — helper lemmas for C13Run (availability over whole event sequences).

  Layout:
  * `Ev` — the closure of a peer state under everything one event at time `now` does to the availability
    fields: record a failure, bookkeeping that keeps the update stamp or sets it to `now`, the broken / down
    marks, the syncing mark, `resetErrors` on a peer that holds data, publishing a new set together with
    `resetErrors`, replacing a held set.  Every table refresh, `InitAllTables`, a loop pass (after its idle check)
    and `ResumeFromIdle` are an `Ev`.
  * what `Ev` preserves: the idle flag and query time (`Ev.frame`), the update stamp up to `now` (`Ev.lu`), the
    status / data table (`Good`), the staleness trichotomy (`Tri`).
  * run level lemmas over `C13.run`.
-/
import Lmd.Props.C13
import Lmd.Stats

namespace Lmd.Avail
open Lmd Lmd.PeerL

/-! ## the fields a failure does not touch, one by one -/

theorem fail_frame (w : World) (p : PeerSt) (now : Int) (msg : String) :
    (p.fail w now msg).lastOnline = p.lastOnline ∧ (p.fail w now msg).lastUpdate = p.lastUpdate ∧
      (p.fail w now msg).lastQuery = p.lastQuery ∧ (p.fail w now msg).idling = p.idling ∧
      (p.fail w now msg).sources = p.sources := by
  rw [fail_eq]; split <;> exact ⟨rfl, rfl, rfl, rfl, rfl⟩

theorem core_all {p q : PeerSt} (h : core q = core p) :
    q.status = p.status ∧ q.cache = p.cache ∧ q.lastError = p.lastError ∧ q.idling = p.idling ∧
      q.lastQuery = p.lastQuery ∧ q.sources = p.sources ∧ q.lastOnline = p.lastOnline ∧ q.errorCount = p.errorCount := by
  simp only [core, Prod.mk.injEq] at h
  obtain ⟨a, _, _, d, e, f, g, h1, i, j, _⟩ := h
  exact ⟨d, e, f, i, h1, a, g, j⟩

/-! ## the closure -/

/-- bookkeeping: the availability fields stay, the update stamp stays or becomes `now` -/
def Book (now : Int) (q q' : PeerSt) : Prop :=
  core q' = core q ∧ (q'.lastUpdate = q.lastUpdate ∨ q'.lastUpdate = now)

/-- the peer states reachable within one event at time `now` -/
inductive Ev (w : World) (now : Int) : PeerSt → PeerSt → Prop
  | refl (p : PeerSt) : Ev w now p p
  | fail {p q : PeerSt} (msg : String) : Ev w now p q → Ev w now p (q.fail w now msg)
  | book {p q q' : PeerSt} : Ev w now p q → Book now q q' → Ev w now p q'
  | broken {p q : PeerSt} (msg : String) : Ev w now p q →
      Ev w now p { q with status := .broken, lastError := msg, cache := none }
  | down {p q : PeerSt} (msg : String) : Ev w now p q →
      Ev w now p { q with status := .down, lastError := msg, cache := none }
  | syncing {p q : PeerSt} (msg : String) : Ev w now p q →
      Ev w now p { q with status := .syncing, lastError := msg }
  | recovered {p q : PeerSt} : Ev w now p q → q.cache.isSome → Ev w now p (q.recovered now)
  | publish {p q : PeerSt} (c : Cache) : Ev w now p q →
      Ev w now p (({ q with cache := some c } : PeerSt).recovered now)
  | swap {p q : PeerSt} (c : Cache) : Ev w now p q → q.cache.isSome → Ev w now p { q with cache := some c }

theorem Ev.trans {w : World} {now : Int} {p q r : PeerSt} (h1 : Ev w now p q) (h2 : Ev w now q r) : Ev w now p r := by
  induction h2 with
  | refl => exact h1
  | fail msg _ ih => exact .fail msg ih
  | book _ h ih => exact .book ih h
  | broken msg _ ih => exact .broken msg ih
  | down msg _ ih => exact .down msg ih
  | syncing msg _ ih => exact .syncing msg ih
  | recovered _ h ih => exact .recovered ih h
  | publish c _ ih => exact .publish c ih
  | swap c _ h ih => exact .swap c ih h

theorem Steps.ev {w : World} {now : Int} {p q : PeerSt} (h : Steps w now p q) : Ev w now p q := by
  induction h with
  | refl => exact .refl _
  | fail msg _ ih => exact .fail msg ih
  | resetFlags _ ih => exact .book ih ⟨rfl, .inl rfl⟩

theorem query_ev (w : World) (now : Int) (p : PeerSt) (b : BackendSt) (handled : Bool) :
    Ev w now p (query w now p b handled).1 := Steps.ev (query_steps w now p b handled)

theorem withCache_ev {w : World} {now : Int} {p : PeerSt} {r : DeltaResult} (h : Ev w now p r.p) :
    Ev w now p (withCache r) := by
  unfold withCache
  split
  · rename_i hc; exact .swap _ h hc
  · exact h

/-! ### what `Ev` preserves -/

/-- an event never touches the idle flag, the time of the last client query, or the source list -/
theorem Ev.frame {w : World} {now : Int} {p q : PeerSt} (h : Ev w now p q) :
    q.idling = p.idling ∧ q.lastQuery = p.lastQuery ∧ q.sources = p.sources := by
  induction h with
  | refl => exact ⟨rfl, rfl, rfl⟩
  | @fail q msg _ ih =>
    obtain ⟨_, _, a, b, c⟩ := fail_frame w q now msg
    exact ⟨b.trans ih.1, a.trans ih.2.1, c.trans ih.2.2⟩
  | book _ h ih =>
    obtain ⟨_, _, _, a, b, c, _, _⟩ := core_all h.1
    exact ⟨a.trans ih.1, b.trans ih.2.1, c.trans ih.2.2⟩
  | broken msg _ ih => exact ih
  | down msg _ ih => exact ih
  | syncing msg _ ih => exact ih
  | recovered _ h ih => exact ih
  | publish c _ ih => exact ih
  | swap c _ h ih => exact ih

/-- the update stamp after an event is the old one or `now` -/
theorem Ev.lu {w : World} {now : Int} {p q : PeerSt} (h : Ev w now p q) :
    q.lastUpdate = p.lastUpdate ∨ q.lastUpdate = now := by
  induction h with
  | refl => exact .inl rfl
  | @fail q msg _ ih => rw [(fail_frame w q now msg).2.1]; exact ih
  | book _ h ih =>
    rcases h.2 with h2 | h2
    · rw [h2]; exact ih
    · exact .inr h2
  | broken msg _ ih => exact ih
  | down msg _ ih => exact ih
  | syncing msg _ ih => exact ih
  | recovered _ h ih => exact ih
  | publish c _ ih => exact ih
  | swap c _ h ih => exact ih

/-! ## every table refresh is an `Ev` -/

macro "ev_close" : tactic =>
  `(tactic| first
    | exact Ev.refl _
    | exact query_ev ..
    | exact Ev.book (query_ev ..) ⟨rfl, .inl rfl⟩
    | exact Ev.book (Ev.refl _) ⟨rfl, .inl rfl⟩
    | exact Ev.broken _ (query_ev ..))

theorem updateFullTable_ev (w : World) (now : Int) (p : PeerSt) (b : BackendSt) (c : Cache) (t : String) :
    Ev w now p (updateFullTable w now p b c t).p := by
  unfold updateFullTable
  simp only []
  repeat' split
  all_goals ev_close

theorem updateFullObjects_ev (w : World) (now : Int) (p : PeerSt) (b : BackendSt) (c : Cache) (t : String) :
    Ev w now p (updateFullObjects w now p b c t).p := by
  unfold updateFullObjects
  simp only []
  repeat' split
  all_goals ev_close

theorem plainStep_ev (w : World) (now : Int) (c : Cache) (tname : String) (window : Option (Int × Int))
    (flags0 : Nat) (p : PeerSt) (b : BackendSt) (extra : List Int) (mark : Bool) :
    Ev w now p (plainStep w now c tname window flags0 p b extra mark).p := by
  unfold plainStep
  simp only []
  repeat' split
  all_goals ev_close

theorem deltaTable_ev (w : World) (now : Int) (p : PeerSt) (b : BackendSt) (c : Cache) (t : String)
    (win : Option (Int × Int)) (thr : Int) :
    Ev w now p (deltaTable w now p b c t win thr).p := by
  rw [deltaTable_eq]
  simp only []
  split
  · exact plainStep_ev ..
  · split
    · exact query_ev ..
    · split
      · exact .broken _ (query_ev ..)
      · split <;> exact (query_ev ..).trans (plainStep_ev ..)

theorem entries_ev (w : World) (now : Int) :
    ∀ (ts : List String) (p : PeerSt) (b : BackendSt) (c : Cache),
      Ev w now p (updateDelta.entries w now ts p b c).p
  | [], p, b, c => by unfold updateDelta.entries; exact .refl p
  | t :: ts, p, b, c => by
    unfold updateDelta.entries
    simp only []
    have q1 := query_ev w now p b true
    split
    · exact q1
    · split
      · exact q1.trans (entries_ev w now ts _ _ _)
      · have q2 := q1.trans (query_ev w now (query w now p b).1 (query w now p b).2.1 true)
        split
        · exact q2
        · split
          · split
            · exact q2.trans (query_ev ..)
            · exact (q2.trans (query_ev ..)).trans (entries_ev w now ts _ _ _)
          · exact q2.trans (entries_ev w now ts _ _ _)

theorem winStep_ev (w : World) (now fromT : Int) (p : PeerSt) (b : BackendSt) (c : Cache) (t : String) :
    Ev w now p (winStep w now fromT p b c t).p := by
  unfold winStep
  split <;> exact deltaTable_ev ..

theorem updateDelta_ev (w : World) (now : Int) (p : PeerSt) (b : BackendSt) (c : Cache) (fromT : Int) :
    Ev w now p (updateDelta w now p b c fromT).p := by
  rw [updateDelta_eq]
  simp only []
  have h0 := updateFullTable_ev w now p b c "status"
  generalize updateFullTable w now p b c "status" = r0 at h0 ⊢
  split
  · have h1 := h0.trans (winStep_ev w now fromT r0.p r0.b r0.cache "hosts")
    generalize winStep w now fromT r0.p r0.b r0.cache "hosts" = r1 at h1 ⊢
    split
    · have h2 := h1.trans (winStep_ev w now fromT r1.p r1.b r1.cache "services")
      generalize winStep w now fromT r1.p r1.b r1.cache "services" = r2 at h2 ⊢
      split
      · have h3 := h2.trans (entries_ev w now ["comments", "downtimes"] r2.p r2.b r2.cache)
        generalize updateDelta.entries w now ["comments", "downtimes"] r2.p r2.b r2.cache = r3 at h3 ⊢
        split
        · split
          · exact h3
          · rename_i hc
            refine .book (.recovered h3 ?_) ⟨rfl, .inr rfl⟩
            cases hx : r3.p.cache <;> simp [hx] at hc ⊢
        · exact h3
      · exact h2
    · exact h1
  · exact h0

theorem periodOne_ev (w : World) (now : Int) (name : String) (p : PeerSt) (b : BackendSt) (c : Cache) (t : String) :
    Ev w now p (periodOne w now name p b c t).p := by
  unfold periodOne
  simp only []
  repeat' split
  all_goals ev_close

theorem periods_ev (w : World) (now : Int) :
    ∀ (ns : List String) (p : PeerSt) (b : BackendSt) (c : Cache),
      Ev w now p (updateTimeperiods.periods w now ns p b c).p
  | [], p, b, c => by unfold updateTimeperiods.periods; exact .refl p
  | n :: ns, p, b, c => by
    rw [periods_cons]
    simp only []
    have h1 := periodOne_ev w now n p b c "hosts"
    generalize periodOne w now n p b c "hosts" = r1 at h1 ⊢
    split
    · have h2 := h1.trans (periodOne_ev w now n r1.p r1.b r1.cache "services")
      generalize periodOne w now n r1.p r1.b r1.cache "services" = r2 at h2 ⊢
      split
      · exact h2.trans (periods_ev w now ns _ _ _)
      · exact h2
    · exact h1

theorem updateTimeperiods_ev (w : World) (now : Int) (p : PeerSt) (b : BackendSt) (c : Cache) :
    Ev w now p (updateTimeperiods w now p b c).p := by
  unfold updateTimeperiods
  simp only []
  have h1 := query_ev w now p b true
  split
  · exact h1
  · split
    · exact h1
    · exact h1.trans ((Ev.book (.refl _) ⟨rfl, .inl rfl⟩ :
        Ev w now (query w now p b).1 { (query w now p b).1 with lastTpMinute := (now / 60) % 60 }).trans (periods_ev ..))

theorem updateFullList_ev (w : World) (now : Int) :
    ∀ (ts : List String) (p : PeerSt) (b : BackendSt) (c : Cache), Ev w now p (updateFullList w now ts p b c).p
  | [], p, b, c => by unfold updateFullList; exact .refl p
  | t :: ts, p, b, c => by
    unfold updateFullList
    simp only []
    have h1 : Ev w now p (if t == "timeperiods" then updateTimeperiods w now p b c
      else if t == "hosts" || t == "services" then updateFullObjects w now p b c t
      else updateFullTable w now p b c t).p := by
      split
      · exact updateTimeperiods_ev ..
      · split
        · exact updateFullObjects_ev ..
        · exact updateFullTable_ev ..
    generalize (if t == "timeperiods" then updateTimeperiods w now p b c
      else if t == "hosts" || t == "services" then updateFullObjects w now p b c t
      else updateFullTable w now p b c t) = r at h1 ⊢
    split
    · exact h1.trans (updateFullList_ev w now ts _ _ _)
    · exact h1

/-! ## `InitAllTables` is an `Ev` -/

theorem loop_ev (w : World) (now : Int) :
    ∀ (ts : List String) (p : PeerSt) (b : BackendSt) (c : Cache),
      Ev w now p (initAllTablesRaw.loop w now ts p b c).1
  | [], p, b, c => by unfold initAllTablesRaw.loop; exact .refl p
  | t :: ts, p, b, c => by
    unfold initAllTablesRaw.loop
    simp only []
    have hq := query_ev w now p b true
    generalize query w now p b = q at hq ⊢
    cases he : q.2.2 with
    | some e => simp only []; exact hq
    | none =>
      simp only []
      generalize hp' : (if (t == "timeperiods") = true then
          ({ ({ q.1 with lastUpdate := now, lastFullUpdate := now } : PeerSt) with lastTpMinute := (now / 60) % 60 } : PeerSt)
        else { q.1 with lastUpdate := now, lastFullUpdate := now }) = p'
      have hb : Ev w now q.1 p' := by
        rw [← hp']; split <;> exact .book (.refl _) ⟨rfl, .inr rfl⟩
      exact (hq.trans hb).trans (loop_ev w now ts p' _ _)

theorem availStep_ev (w : World) (now : Int) (p : PeerSt) (b : BackendSt) (flags : Nat) :
    Ev w now p (availStep w now p b flags).1 := by
  unfold availStep
  simp only []
  split
  · exact .refl p
  · split <;> exact query_ev ..

theorem localtimeStep_ev (w : World) (now : Int) (p : PeerSt) (b : BackendSt) :
    Ev w now p (localtimeStep w now p b).1 := by
  unfold localtimeStep
  split
  · exact query_ev ..
  · exact .refl p

theorem syncingStep_not_up (p1 : PeerSt) : (syncingStep p1).status ≠ .up := by
  unfold syncingStep; split
  · simp
  · rename_i hcond
    intro hu; rw [hu] at hcond; simp at hcond

theorem syncingStep_ev (w : World) (now : Int) (p1 : PeerSt) : Ev w now p1 (syncingStep p1) := by
  unfold syncingStep; split
  · exact .syncing _ (.refl _)
  · exact .refl _

/-- the raw rebuild from the peer with its update times stamped -/
theorem initAllTablesRaw_ev0 (w : World) (now : Int) (p : PeerSt) (b : BackendSt) :
    Ev w now (initP0 p now) (initAllTablesRaw w now p b).p := by
  rw [initAllTablesRaw_eq]
  simp only []
  have hq := query_ev w now (initP0 p now) b true
  generalize query w now (initP0 p now) b = q at hq ⊢
  cases he : q.2.2 with
  | some e => simp only []; exact hq
  | none =>
    simp only []
    cases hr : q.2.1.rows "status" with
    | nil => simp only []; exact .down _ hq
    | cons st rest =>
      simp only []
      have ha := availStep_ev w now q.1 q.2.1 (q.1.flags ||| versionFlag w.schema (replyStr st "livestatus_version"))
      generalize availStep w now q.1 q.2.1 (q.1.flags ||| versionFlag w.schema (replyStr st "livestatus_version")) = a at ha ⊢
      have h1 : Ev w now (initP0 p now) (initP1 a st) := (hq.trans ha).trans (.book (.refl _) ⟨rfl, .inl rfl⟩)
      generalize initP1 a st = p1 at h1 ⊢
      have h2 := h1.trans (syncingStep_ev w now p1)
      have hs2 := syncingStep_not_up p1
      generalize syncingStep p1 = p2 at h2 hs2 ⊢
      have l1 := (loop_spec w now (updateTables.drop 1) p2 a.2.1 (cache0 w (st :: rest))).1
      have h3 := h2.trans (loop_ev w now (updateTables.drop 1) p2 a.2.1 (cache0 w (st :: rest)))
      generalize initAllTablesRaw.loop w now (updateTables.drop 1) p2 a.2.1 (cache0 w (st :: rest)) = l at l1 h3 ⊢
      cases hl : l.2.2 with
      | none => simp only []; exact h3
      | some c =>
        simp only []
        have t1 := (localtimeStep_spec w now l.1 l.2.1).1
        have h4 := h3.trans (localtimeStep_ev w now l.1 l.2.1)
        generalize localtimeStep w now l.1 l.2.1 = lt at t1 h4 ⊢
        cases hlt : lt.2.2 with
        | some e => simp only []; exact h4
        | none =>
          simp only []
          have hnu : lt.1.status ≠ .up := fun hu => hs2 ((l1.trans t1).up hu).1
          have hcond : (!(lt.1.status == PeerState.up)) = true := by simp [hnu]
          rw [if_pos hcond]
          exact .publish _ h4

theorem initP0_ev (w : World) (now : Int) (p : PeerSt) : Ev w now p (initP0 p now) :=
  .book (.refl p) ⟨rfl, .inr rfl⟩

theorem initAllTablesRaw_ev (w : World) (now : Int) (p : PeerSt) (b : BackendSt) :
    Ev w now p (initAllTablesRaw w now p b).p := (initP0_ev w now p).trans (initAllTablesRaw_ev0 w now p b)

theorem initAllTables_ev (w : World) (now : Int) (p : PeerSt) (b : BackendSt) :
    Ev w now p (initAllTables w now p b).p := by
  rw [initAllTables_eq]
  split
  · exact .book (initAllTablesRaw_ev w now p b) ⟨rfl, .inl rfl⟩
  · exact initAllTablesRaw_ev w now p b

/-- a rebuild always leaves the update stamp at `now`, whether it succeeds or not -/
theorem initAllTables_lastUpdate_now (w : World) (now : Int) (p : PeerSt) (b : BackendSt) :
    (initAllTables w now p b).p.lastUpdate = now := by
  rw [initAllTables_lastUpdate]
  rcases (initAllTablesRaw_ev0 w now p b).lu with h | h
  · rw [h]; rfl
  · exact h

/-! ## a loop pass is an `Ev` after its idle check -/

theorem finishStep_ran (w : World) (now : Int) (p : PeerSt) (b : BackendSt) (ran : Bool) (err : StepErr) :
    (finishStep w now p b ran err).ran = ran := by
  unfold finishStep; split <;> rfl

theorem finishStep_ev {w : World} {now : Int} {p0 p : PeerSt} {b : BackendSt} {ran : Bool} {err : StepErr}
    (h : Ev w now p0 p) : Ev w now p0 (finishStep w now p b ran err).p := by
  unfold finishStep
  split
  · exact h.trans (initAllTables_ev ..)
  · exact h

theorem handleBroken_ev (w : World) (now : Int) (p : PeerSt) (b : BackendSt) :
    Ev w now p (handleBroken w now p b).p := by
  unfold handleBroken
  simp only []
  have hq := query_ev w now p b true
  repeat' split
  all_goals first | exact hq | exact hq.trans (initAllTables_ev ..)

theorem tpStep_ev {w : World} {now : Int} {p0 p : PeerSt} {b : BackendSt} {c0 : Option Cache} (h : Ev w now p0 p) :
    (∀ res, (tpStep w now p b c0).1 = some res → Ev w now p0 res.p ∧ res.ran = false) ∧
      Ev w now p0 (tpStep w now p b c0).2.1 := by
  unfold tpStep
  split
  · rename_i c
    split
    · simp only []
      have h0 : Ev w now p0 ({ p with lastTpMinute := (now / 60) % 60 } : PeerSt) := .book h ⟨rfl, .inl rfl⟩
      have hr := h0.trans (updateFullList_ev w now ["timeperiods", "hostgroups", "servicegroups"]
        { p with lastTpMinute := (now / 60) % 60 } b c)
      generalize updateFullList w now ["timeperiods", "hostgroups", "servicegroups"] _ b c = r at hr
      split
      · have hl := (withCache_ev hr).trans (localtimeStep_ev w now (withCache r) r.b)
        split
        · exact ⟨(fun res hres => by cases hres; exact ⟨finishStep_ev hl, finishStep_ran ..⟩), hl⟩
        · exact ⟨(fun res hres => by cases hres), hl⟩
      · exact ⟨(fun res hres => by cases hres; exact ⟨finishStep_ev (withCache_ev hr), finishStep_ran ..⟩), hr⟩
    · exact ⟨(fun res hres => by cases hres), h⟩
  · exact ⟨(fun res hres => by cases hres), h⟩

theorem deltaRun_ev {w : World} {now : Int} {p0 p : PeerSt} {b : BackendSt} {c : Cache} {fromT : Int}
    (h : Ev w now p0 p) : Ev w now p0 (deltaRun w now p b c fromT).p :=
  finishStep_ev (withCache_ev (h.trans (updateDelta_ev ..)))

theorem initRun_ev {w : World} {now : Int} {p0 p : PeerSt} {b : BackendSt} (h : Ev w now p0 p) :
    Ev w now p0 (initRun w now p b).p := finishStep_ev (h.trans (initAllTables_ev ..))

theorem upRun_ev {w : World} {now lastUpdate : Int} {p0 p : PeerSt} {b : BackendSt} {c : Cache}
    (h : Ev w now p0 p) : Ev w now p0 (upRun w now lastUpdate p b c).p := by
  unfold upRun
  split
  · simp only []
    have hr := h.trans (updateFullList_ev w now updateTables p b c)
    generalize updateFullList w now updateTables p b c = r at hr
    split
    · split
      · exact finishStep_ev (withCache_ev hr)
      · rename_i hc
        refine finishStep_ev ?_
        have : (withCache r).cache.isSome := by
          rw [withCache_cache_isSome]
          cases hx : r.p.cache
          · simp [hx] at hc
          · rfl
        exact .book (.recovered (withCache_ev hr) this) ⟨rfl, .inr rfl⟩
    · exact finishStep_ev (withCache_ev hr)
  · refine deltaRun_ev ?_
    split
    · exact .book h ⟨rfl, .inl rfl⟩
    · exact h

theorem upRun_ran (w : World) (now lastUpdate : Int) (p : PeerSt) (b : BackendSt) (c : Cache) :
    (upRun w now lastUpdate p b c).ran = true := by
  unfold upRun
  split
  · simp only []
    split
    · split <;> exact finishStep_ran ..
    · exact finishStep_ran ..
  · exact finishStep_ran ..

theorem dispatch_ev {w : World} {now lastUpdate : Int} {s0 : PeerState} {p0 p : PeerSt} {b : BackendSt}
    {c1 : Option Cache} (h : Ev w now p0 p) : Ev w now p0 (dispatch w now lastUpdate s0 p b c1).p := by
  unfold dispatch
  split
  · exact finishStep_ev (h.trans (handleBroken_ev ..))
  · exact initRun_ev h
  · exact initRun_ev h
  · split
    · exact initRun_ev h
    · exact deltaRun_ev h
  · split
    · exact initRun_ev h
    · exact upRun_ev h
  · split
    · exact initRun_ev h
    · exact upRun_ev h

/-- once the run is due, the loop body reports a run whatever the state of the peer -/
theorem dispatch_ran (w : World) (now lastUpdate : Int) (s0 : PeerState) (p : PeerSt) (b : BackendSt)
    (c1 : Option Cache) : (dispatch w now lastUpdate s0 p b c1).ran = true := by
  unfold dispatch
  split
  · exact finishStep_ran ..
  · exact finishStep_ran ..
  · exact finishStep_ran ..
  · split
    · exact finishStep_ran ..
    · exact finishStep_ran ..
  · split
    · exact finishStep_ran ..
    · exact upRun_ran ..
  · split
    · exact finishStep_ran ..
    · exact upRun_ran ..

theorem mainStep_ev {w : World} {now lastUpdate : Int} {s0 : PeerState} {p0 p : PeerSt} {b : BackendSt}
    {c1 : Option Cache} (h : Ev w now p0 p) : Ev w now p0 (mainStep w now lastUpdate s0 p b c1).p := by
  unfold mainStep
  split
  · exact h
  · exact dispatch_ev (p := { p with lastUpdate := now }) (.book h ⟨rfl, .inr rfl⟩)

/-- the run of the loop body happens exactly when it is due -/
theorem mainStep_ran (w : World) (now lastUpdate : Int) (s0 : PeerState) (p : PeerSt) (b : BackendSt)
    (c1 : Option Cache) : (mainStep w now lastUpdate s0 p b c1).ran = true ↔ ¬ now < nextDue w lastUpdate p := by
  unfold mainStep
  split
  · rename_i h; simp [h]
  · rename_i h; simp [h, dispatch_ran]

/-- a run of the loop body leaves the update stamp at `now` -/
theorem mainStep_ran_lastUpdate (w : World) (now lastUpdate : Int) (s0 : PeerState) (p : PeerSt) (b : BackendSt)
    (c1 : Option Cache) (h : (mainStep w now lastUpdate s0 p b c1).ran = true) :
    (mainStep w now lastUpdate s0 p b c1).p.lastUpdate = now := by
  unfold mainStep at h ⊢
  split
  · rename_i hd; rw [if_pos hd] at h; cases h
  · rcases (dispatch_ev (w := w) (now := now) (lastUpdate := lastUpdate) (s0 := s0) (b := b) (c1 := c1)
      (Ev.refl ({ p with lastUpdate := now } : PeerSt))).lu with h1 | h1
    · rw [h1]
    · exact h1

/-- a loop pass, after `updateIdleStatus`, is an event -/
theorem tick_ev (w : World) (now : Int) (p : PeerSt) (b : BackendSt) :
    Ev w now (idleStep w now p) (tick w now p b).p := by
  rw [tick_eq]
  obtain ⟨h1, h2⟩ := tpStep_ev (w := w) (now := now) (b := b) (c0 := p.cache) (Ev.refl (idleStep w now p))
  generalize tpStep w now (idleStep w now p) b p.cache = tp at h1 h2
  obtain ⟨res, p', b', c1⟩ := tp
  cases res with
  | some res => exact (h1 res rfl).1
  | none => exact mainStep_ev h2

/-- a loop pass that reports a run leaves the update stamp at `now` -/
theorem tick_ran_lastUpdate (w : World) (now : Int) (p : PeerSt) (b : BackendSt) (h : (tick w now p b).ran = true) :
    (tick w now p b).p.lastUpdate = now := by
  rw [tick_eq] at h ⊢
  obtain ⟨h1, _⟩ := tpStep_ev (w := w) (now := now) (b := b) (c0 := p.cache) (Ev.refl (idleStep w now p))
  generalize tpStep w now (idleStep w now p) b p.cache = tp at h1 h ⊢
  obtain ⟨res, p', b', c1⟩ := tp
  cases res with
  | some res =>
    simp only [] at h
    rw [(h1 res rfl).2] at h; cases h
  | none => exact mainStep_ran_lastUpdate _ _ _ _ _ _ _ h

theorem idleStep_lastUpdate (w : World) (now : Int) (p : PeerSt) : (idleStep w now p).lastUpdate = p.lastUpdate :=
  (idleStep_fields w now p).2.2.2

/-- a loop pass leaves the update stamp alone or sets it to `now` -/
theorem tick_lastUpdate (w : World) (now : Int) (p : PeerSt) (b : BackendSt) :
    (tick w now p b).p.lastUpdate = p.lastUpdate ∨ (tick w now p b).p.lastUpdate = now := by
  have := (tick_ev w now p b).lu
  rwa [idleStep_lastUpdate] at this

/-- for an idling peer the loop body runs exactly when `IdleInterval` has passed since the last update -/
theorem tick_idle_ran (w : World) (now : Int) (p : PeerSt) (b : BackendSt) (hidle : p.idling = true) :
    (tick w now p b).ran = true ↔ p.lastUpdate + w.cfg.idleInterval ≤ now := by
  have hstep : idleStep w now p = p := by unfold idleStep; simp [hidle]
  have htp : tpStep w now p b p.cache = (none, p, b, p.cache) := by
    unfold tpStep
    cases hc : p.cache with
    | none => rfl
    | some c => simp only []; rw [if_neg (by simp [hidle])]
  rw [tick_eq, hstep, htp]
  simp only []
  rw [mainStep_ran]
  unfold nextDue
  rw [hidle]
  simp only [if_true]
  omega

/-! ## `ResumeFromIdle` -/

/-- the refresh of a woken peer is an event, or — for a peer that is not `Up` with data — only makes the
    next loop pass due -/
theorem resume_ev (w : World) (now : Int) (p : PeerSt) (b : BackendSt) :
    Ev w now p (resume w now p b).1 ∨
      ((resume w now p b).1 = { p with lastUpdate := now - w.cfg.updateInterval } ∧ (resume w now p b).2 = b ∧
        ¬ (p.status = .up ∧ p.cache.isSome)) := by
  unfold resume
  split
  · rename_i c _ _
    left
    simp only []
    have hr := updateFullList_ev w now ["timeperiods"] p b c
    generalize updateFullList w now ["timeperiods"] p b c = r at hr
    split
    · split
      · exact withCache_ev ((withCache_ev hr).trans (updateDelta_ev ..))
      · exact withCache_ev hr
    · exact withCache_ev hr
  · rename_i hne
    right
    refine ⟨rfl, rfl, fun ⟨h1, h2⟩ => ?_⟩
    cases hc : p.cache with
    | none => rw [hc] at h2; cases h2
    | some c => exact hne c h1 hc

/-! ## the status / data table -/

/-- what the status of a peer says about its data: `Up` — data and no error text; `Warning` — data;
    `Down`, `Broken`, `Pending` — no data (`Syncing` says nothing) -/
structure Good (p : PeerSt) : Prop where
  up : p.status = .up → p.cache.isSome ∧ p.lastError = ""
  warning : p.status = .warning → p.cache.isSome
  nodata : (p.status = .down ∨ p.status = .broken ∨ p.status = .pending) → p.cache = none

theorem Good.congr {p q : PeerSt} (h : Good p) (h1 : q.status = p.status) (h2 : q.cache = p.cache)
    (h3 : q.lastError = p.lastError) : Good q :=
  ⟨by rw [h1, h2, h3]; exact h.up, by rw [h1, h2]; exact h.warning, by rw [h1, h2]; exact h.nodata⟩

theorem good_pending {p : PeerSt} (h1 : p.status = .pending) (h2 : p.cache = none) : Good p :=
  ⟨(fun h => by rw [h1] at h; cases h), (fun h => by rw [h1] at h; cases h), fun _ => h2⟩

theorem Good.fail {w : World} {now : Int} {msg : String} {q : PeerSt} (h : Good q) : Good (q.fail w now msg) := by
  refine ⟨fun hu => ?_, fun hw => ?_, fun hn => ?_⟩
  · obtain ⟨h1, h2⟩ := fail_up hu
    have := (h.up h1).1
    rw [h2] at this; cases this
  · rw [fail_status] at hw
    rw [fail_cache]
    split at hw
    · cases hw
    · rename_i hs
      rw [if_neg hs]
      unfold degraded at hw
      cases hst : q.status <;> rw [hst] at hw <;> simp only [] at hw
      all_goals first
        | exact h.warning hst
        | cases hw
        | (cases hc : q.cache
           · rw [hc] at hw; simp at hw
           · rfl)
  · rw [fail_status] at hn
    rw [fail_cache]
    split
    · rfl
    · rename_i hs
      rw [if_neg hs] at hn
      unfold degraded at hn
      cases hst : q.status <;> rw [hst] at hn <;> simp only [] at hn
      all_goals first
        | exact h.nodata (.inl hst)
        | exact h.nodata (.inr (.inl hst))
        | exact h.nodata (.inr (.inr hst))
        | (cases hc : q.cache
           · rfl
           · rw [hc] at hn; simp at hn)
        | (exfalso; rcases hn with hn | hn | hn <;> cases hn)

/-- the status / data table survives every event -/
theorem Ev.good {w : World} {now : Int} {p q : PeerSt} (h : Ev w now p q) (hp : Good p) : Good q := by
  induction h with
  | refl => exact hp
  | fail msg _ ih => exact ih.fail
  | book _ h ih =>
    obtain ⟨a, b, c, _⟩ := core_all h.1
    exact ih.congr a b c
  | broken msg _ ih =>
    exact ⟨(fun h => by cases h), (fun h => by cases h), fun _ => rfl⟩
  | down msg _ ih =>
    exact ⟨(fun h => by cases h), (fun h => by cases h), fun _ => rfl⟩
  | syncing msg _ ih =>
    exact ⟨(fun h => by cases h), (fun h => by cases h), fun h => by rcases h with h | h | h <;> cases h⟩
  | recovered _ h ih =>
    exact ⟨fun _ => ⟨h, rfl⟩, (fun h => by cases h), fun h => by rcases h with h | h | h <;> cases h⟩
  | publish c _ ih =>
    exact ⟨fun _ => ⟨rfl, rfl⟩, (fun h => by cases h), fun h => by rcases h with h | h | h <;> cases h⟩
  | @swap q c _ h ih =>
    refine ⟨fun hu => ⟨rfl, (ih.up hu).2⟩, fun _ => rfl, fun hn => ?_⟩
    have := ih.nodata hn
    rw [this] at h; cases h

/-! ## the staleness trichotomy -/

/-- what one event at time `now` does to the failure counter, the time the backend was last seen and the data:
    nothing recorded (and no data appears), or it ends recovered (counter zero, seen now), or the counter is positive
    — it grew while the last-seen time stayed, or the backend was seen at `now` before the failures — and data is
    held only if the backend was seen within `StaleBackendTimeout` before `now` -/
def Tri (w : World) (now : Int) (p q : PeerSt) : Prop :=
  (q.errorCount = p.errorCount ∧ q.lastOnline = p.lastOnline ∧ (q.cache.isSome → p.cache.isSome)) ∨
  (q.errorCount = 0 ∧ q.lastOnline = now) ∨
  (0 < q.errorCount ∧ ((p.errorCount < q.errorCount ∧ q.lastOnline = p.lastOnline) ∨ q.lastOnline = now) ∧
    (q.cache.isSome → now - w.cfg.staleTimeout ≤ q.lastOnline))

theorem Tri.refl (w : World) (now : Int) (p : PeerSt) : Tri w now p p := .inl ⟨rfl, rfl, id⟩

theorem Tri.same {w : World} {now : Int} {p q q' : PeerSt} (h : Tri w now p q)
    (h1 : q'.errorCount = q.errorCount) (h2 : q'.lastOnline = q.lastOnline) (h3 : q'.cache.isSome → q.cache.isSome) :
    Tri w now p q' := by
  unfold Tri at *
  rw [h1, h2]
  rcases h with ⟨a, b, c⟩ | ⟨a, b⟩ | ⟨a, b, c⟩
  · exact .inl ⟨a, b, fun h => c (h3 h)⟩
  · exact .inr (.inl ⟨a, b⟩)
  · exact .inr (.inr ⟨a, b, fun h => c (h3 h)⟩)

theorem Tri.left {w : World} {now : Int} {p p' q : PeerSt} (h : Tri w now p q)
    (h1 : p.errorCount = p'.errorCount) (h2 : p.lastOnline = p'.lastOnline) (h3 : p.cache.isSome → p'.cache.isSome) :
    Tri w now p' q := by
  unfold Tri at *
  rw [← h1, ← h2]
  rcases h with ⟨a, b, c⟩ | ⟨a, b⟩ | ⟨a, b, c⟩
  · exact .inl ⟨a, b, fun h => h3 (c h)⟩
  · exact .inr (.inl ⟨a, b⟩)
  · exact .inr (.inr ⟨a, b, c⟩)

theorem Ev.tri {w : World} {now : Int} {p q : PeerSt} (h : Ev w now p q) : Tri w now p q := by
  induction h with
  | refl => exact Tri.refl ..
  | @fail q msg _ ih =>
    refine .inr (.inr ⟨by rw [fail_errorCount]; omega, ?_, fun hc => ?_⟩)
    · rw [(fail_frame w q now msg).1, fail_errorCount]
      rcases ih with ⟨a, b, _⟩ | ⟨_, b⟩ | ⟨_, b, _⟩
      · exact .inl ⟨by omega, b⟩
      · exact .inr b
      · rcases b with ⟨b1, b2⟩ | b
        · exact .inl ⟨by omega, b2⟩
        · exact .inr b
    · rw [(fail_frame w q now msg).1]
      rw [fail_cache] at hc
      split at hc
      · cases hc
      · rename_i hs
        unfold staleNow at hs
        simp only [Bool.or_eq_true, decide_eq_true_eq, not_or, Int.not_lt] at hs
        exact hs.1
  | book _ h ih =>
    obtain ⟨_, b, _, _, _, _, g, e⟩ := core_all h.1
    exact ih.same e g (by rw [b]; exact id)
  | broken msg _ ih => exact ih.same rfl rfl (fun h => by cases h)
  | down msg _ ih => exact ih.same rfl rfl (fun h => by cases h)
  | syncing msg _ ih => exact ih.same rfl rfl id
  | recovered _ h ih => exact .inr (.inl ⟨rfl, rfl⟩)
  | publish c _ ih => exact .inr (.inl ⟨rfl, rfl⟩)
  | swap c _ h ih => exact ih.same rfl rfl (fun _ => h)

/-! ## fresh: the state a successful contact leaves -/

/-- `Up`, with data, no error text, seen now, failure counter zero -/
def Fresh (now : Int) (p : PeerSt) : Prop :=
  p.status = .up ∧ p.cache.isSome ∧ p.lastError = "" ∧ p.lastOnline = now ∧ p.errorCount = 0

theorem init_fresh {w : World} {now : Int} {p : PeerSt} {b : BackendSt} (h : (initAllTables w now p b).err = .none) :
    Fresh now (initAllTables w now p b).p := C13.init_success w now p b h

theorem finishStep_fresh {w : World} {now : Int} {p : PeerSt} {b : BackendSt} {ran : Bool} {err : StepErr}
    (h : (finishStep w now p b ran err).err = .none) (hp : err = .none → Fresh now p) :
    Fresh now (finishStep w now p b ran err).p := by
  unfold finishStep at h ⊢
  split
  · rename_i e
    simp only [] at h ⊢
    exact init_fresh h
  · simp only [] at h ⊢
    exact hp h

theorem handleBroken_fresh {w : World} {now : Int} {p : PeerSt} {b : BackendSt}
    (h : (handleBroken w now p b).err = .none) : Fresh now (handleBroken w now p b).p := by
  unfold handleBroken at h ⊢
  simp only [] at h ⊢
  repeat' split at h
  all_goals first
    | cases h
    | (simp only [*]; exact init_fresh h)

theorem withCache_fresh {now : Int} {r : DeltaResult} (h : Fresh now r.p) : Fresh now (withCache r) := by
  obtain ⟨a, b, c, d, e⟩ := h
  unfold withCache
  rw [if_pos b]
  exact ⟨a, rfl, c, d, e⟩

theorem deltaRun_fresh {w : World} {now : Int} {p : PeerSt} {b : BackendSt} {c : Cache} {fromT : Int}
    (h : (deltaRun w now p b c fromT).err = .none) : Fresh now (deltaRun w now p b c fromT).p := by
  unfold deltaRun at h ⊢
  refine finishStep_fresh h (fun he => withCache_fresh ?_)
  obtain ⟨a, b1, c1, d, _, f⟩ := updateDelta_ok he
  exact ⟨a, f, b1, c1, d⟩

theorem initRun_fresh {w : World} {now : Int} {p : PeerSt} {b : BackendSt}
    (h : (initRun w now p b).err = .none) : Fresh now (initRun w now p b).p := by
  unfold initRun at h ⊢
  exact finishStep_fresh h (fun he => init_fresh he)

theorem upRun_fresh {w : World} {now lastUpdate : Int} {p : PeerSt} {b : BackendSt} {c : Cache}
    (h : (upRun w now lastUpdate p b c).err = .none) : Fresh now (upRun w now lastUpdate p b c).p := by
  unfold upRun at h ⊢
  split
  · rename_i hfull
    rw [if_pos hfull] at h
    simp only [] at h ⊢
    generalize updateFullList w now updateTables p b c = r at h ⊢
    split
    · rename_i he
      simp only [he] at h
      split
      · rename_i hc
        rw [if_pos hc] at h
        exact finishStep_fresh h (fun e => by cases e)
      · rename_i hc
        rw [if_neg hc] at h
        refine finishStep_fresh h (fun _ => ⟨rfl, ?_, rfl, rfl, rfl⟩)
        show (withCache r).cache.isSome = true
        rw [withCache_cache_isSome]
        cases hx : r.p.cache
        · simp [hx] at hc
        · rfl
    · rename_i hne
      have h' : (finishStep w now (withCache r) r.b true r.err).err = .none := by
        cases he : r.err
        · exact absurd he (by intro e; exact hne e)
        · simp only [he] at h; exact h
        · simp only [he] at h; exact h
      refine finishStep_fresh h' (fun e => absurd e ?_)
      intro e; exact hne e
  · rename_i hfull
    rw [if_neg hfull] at h
    exact deltaRun_fresh h

theorem dispatch_fresh {w : World} {now lastUpdate : Int} {s0 : PeerState} {p : PeerSt} {b : BackendSt}
    {c1 : Option Cache} (h : (dispatch w now lastUpdate s0 p b c1).err = .none) :
    Fresh now (dispatch w now lastUpdate s0 p b c1).p := by
  unfold dispatch at h ⊢
  split <;> simp only [] at h ⊢
  · exact finishStep_fresh h (fun he => handleBroken_fresh he)
  · exact initRun_fresh h
  · exact initRun_fresh h
  · split <;> simp only [] at h
    · exact initRun_fresh h
    · exact deltaRun_fresh h
  · split <;> simp only [] at h
    · exact initRun_fresh h
    · exact upRun_fresh h
  · split <;> simp only [] at h
    · exact initRun_fresh h
    · exact upRun_fresh h

/-- a loop pass that reports a run and no error leaves the peer `Up`, with data, without error text, seen now -/
theorem tick_fresh {w : World} {now : Int} {p : PeerSt} {b : BackendSt}
    (hr : (tick w now p b).ran = true) (he : (tick w now p b).err = .none) : Fresh now (tick w now p b).p := by
  rw [tick_eq] at hr he ⊢
  obtain ⟨h1, _⟩ := tpStep_ev (w := w) (now := now) (b := b) (c0 := p.cache) (Ev.refl (idleStep w now p))
  generalize tpStep w now (idleStep w now p) b p.cache = tp at h1 hr he ⊢
  obtain ⟨res, p', b', c1⟩ := tp
  cases res with
  | some res =>
    simp only [] at hr
    rw [(h1 res rfl).2] at hr; cases hr
  | none =>
    simp only [] at hr he ⊢
    unfold mainStep at hr he ⊢
    split
    · rename_i hd; rw [if_pos hd] at hr; cases hr
    · rename_i hd; rw [if_neg hd] at he
      exact dispatch_fresh he

/-! ## the idle check -/

theorem idleStep_avail (w : World) (now : Int) (p : PeerSt) :
    (idleStep w now p).status = p.status ∧ (idleStep w now p).cache = p.cache ∧
      (idleStep w now p).lastError = p.lastError ∧ (idleStep w now p).lastOnline = p.lastOnline ∧
      (idleStep w now p).errorCount = p.errorCount ∧ (idleStep w now p).lastQuery = p.lastQuery := by
  unfold idleStep; split <;> exact ⟨rfl, rfl, rfl, rfl, rfl, rfl⟩

/-- for a peer that idles in this pass (it idled before, or the idle check of this pass sets the flag) the loop
    body runs exactly when `IdleInterval` has passed since the last update -/
theorem tick_idlesAt_ran (w : World) (now : Int) (p : PeerSt) (b : BackendSt) (hidle : idlesAt w now p = true) :
    (tick w now p b).ran = true ↔ p.lastUpdate + w.cfg.idleInterval ≤ now := by
  have hi := idleStep_idling w now p
  rw [hidle] at hi
  have hlu := idleStep_lastUpdate w now p
  have hc := (idleStep_fields w now p).2.2.1
  have htp : tpStep w now (idleStep w now p) b p.cache = (none, idleStep w now p, b, p.cache) := by
    unfold tpStep
    cases hc : p.cache with
    | none => rfl
    | some c => simp only []; rw [if_neg (by simp [hi])]
  rw [tick_eq, htp]
  simp only []
  rw [mainStep_ran]
  unfold nextDue
  rw [hi]
  simp only [if_true]
  omega

/-- a pass over a peer that idles in it and does not run leaves the backend untouched; the peer only gets the
    idle flag -/
theorem tick_idlesAt_quiet (w : World) (now : Int) (p : PeerSt) (b : BackendSt) (hidle : idlesAt w now p = true)
    (hr : (tick w now p b).ran = false) : (tick w now p b).b = b ∧ (tick w now p b).p = idleStep w now p := by
  have hdue : now < p.lastUpdate + w.cfg.idleInterval := by
    by_cases h : now < p.lastUpdate + w.cfg.idleInterval
    · exact h
    · have := (tick_idlesAt_ran w now p b hidle).2 (by omega)
      rw [this] at hr; cases hr
  have := C13.no_contact_before_due w now p b (.inl hidle) (by rw [hidle]; exact hdue)
  exact ⟨this.1, this.2.2.2⟩

theorem idlesAt_of_idling {w : World} {now : Int} {p : PeerSt} (h : p.idling = true) : idlesAt w now p = true := by
  unfold idlesAt; simp [h]

/-! ## events -/

open Lmd.C13 (Event step run)

/-- the time stamp of an event -/
def time : Event → Int
  | .init t _ => t
  | .tick t _ => t
  | .query t _ => t

theorem run_nil (w : World) (p : PeerSt) : run w p [] = p := rfl

theorem run_cons (w : World) (p : PeerSt) (e : Event) (es : List Event) : run w p (e :: es) = run w (step w p e) es := rfl

theorem run_append (w : World) (p : PeerSt) (es fs : List Event) : run w p (es ++ fs) = run w (run w p es) fs := by
  unfold run; rw [List.foldl_append]

theorem run_snoc (w : World) (p : PeerSt) (es : List Event) (e : Event) : run w p (es ++ [e]) = step w (run w p es) e := by
  rw [run_append]; rfl

/-- every event keeps the status / data table -/
theorem step_good (w : World) (p : PeerSt) (e : Event) (h : Good p) : Good (step w p e) := by
  cases e with
  | init now b => exact (initAllTables_ev w now p b).good h
  | tick now b =>
    obtain ⟨a, b1, c, _⟩ := idleStep_avail w now p
    exact (tick_ev w now p b).good (h.congr a b1 c)
  | query now b =>
    show Good (clientQuery w now p b).1
    rw [clientQuery_eq]
    split
    · have h0 : Good ({ p with lastQuery := now, idling := false } : PeerSt) := h.congr rfl rfl rfl
      rcases resume_ev w now { p with lastQuery := now, idling := false } b with hr | ⟨hr, _, _⟩
      · exact (hr.good h0).congr rfl rfl rfl
      · simp only [hr]; exact h.congr rfl rfl rfl
    · exact h.congr rfl rfl rfl

/-- every event obeys the staleness trichotomy at its own time -/
theorem step_tri (w : World) (p : PeerSt) (e : Event) : Tri w (time e) p (step w p e) := by
  cases e with
  | init now b => exact (initAllTables_ev w now p b).tri
  | tick now b =>
    obtain ⟨_, b1, _, d, e1, _⟩ := idleStep_avail w now p
    exact (tick_ev w now p b).tri.left e1 d (by rw [b1]; exact id)
  | query now b =>
    show Tri w now p (clientQuery w now p b).1
    rw [clientQuery_eq]
    split
    · rcases resume_ev w now { p with lastQuery := now, idling := false } b with hr | ⟨hr, _, _⟩
      · exact (hr.tri.left (p' := p) rfl rfl id).same rfl rfl id
      · simp only [hr]; exact (Tri.refl w now p).same rfl rfl id
    · exact (Tri.refl w now p).same rfl rfl id

/-- after a rebuild or a loop pass the update stamp is the old one or the time of the event -/
theorem step_lastUpdate (w : World) (p : PeerSt) (e : Event) (hq : ∀ t b, e ≠ .query t b) :
    (step w p e).lastUpdate = p.lastUpdate ∨ (step w p e).lastUpdate = time e := by
  cases e with
  | init now b => exact .inr (initAllTables_lastUpdate_now w now p b)
  | tick now b => exact tick_lastUpdate w now p b
  | query now b => exact absurd rfl (hq now b)

/-! ## the trace of a run -/

/-- what is recorded of one event: its time, its kind, whether the loop body ran (a rebuild always does, a loop
    pass reports it, a client query is not part of the loop), and whether the peer idles in it (for a loop pass:
    after the idle check of this pass) -/
structure Obs where
  time : Int
  isQuery : Bool
  isTick : Bool
  ran : Bool
  idle : Bool
  deriving Repr, DecidableEq

def observe (w : World) (p : PeerSt) : Event → Obs
  | .init t _ => { time := t, isQuery := false, isTick := false, ran := true, idle := p.idling }
  | .tick t b => { time := t, isQuery := false, isTick := true, ran := (tick w t p b).ran, idle := idlesAt w t p }
  | .query t _ => { time := t, isQuery := true, isTick := false, ran := false, idle := p.idling }

/-- the observations of a run, one per event, each made on the state the event finds -/
def trace (w : World) (p : PeerSt) : List Event → List Obs
  | [] => []
  | e :: es => observe w p e :: trace w (step w p e) es

theorem trace_length (w : World) : ∀ (es : List Event) (p : PeerSt), (trace w p es).length = es.length
  | [], _ => rfl
  | e :: es, p => by simp [trace, trace_length w es]

theorem observe_time (w : World) (p : PeerSt) (e : Event) : (observe w p e).time = time e := by
  cases e <;> rfl

/-- the `k`-th observation is made on the state after the first `k` events -/
theorem trace_get (w : World) : ∀ (es : List Event) (p : PeerSt) (k : Nat) (e : Event), es[k]? = some e →
    (trace w p es)[k]? = some (observe w (run w p (es.take k)) e)
  | [], _, _, _, h => by simp at h
  | e0 :: es, p, 0, e, h => by
    simp only [List.getElem?_cons_zero, Option.some.injEq] at h
    subst h; rfl
  | e0 :: es, p, k + 1, e, h => by
    simp only [List.getElem?_cons_succ] at h
    simp only [trace, List.getElem?_cons_succ]
    exact trace_get w es (step w p e0) k e h

/-- once the update stamp is at least `T` and no event is earlier than `T`: as long as no client query intervenes,
    a loop pass that idles and runs comes no earlier than `T + IdleInterval` -/
theorem cadence_after (w : World) (T : Int) :
    ∀ (es : List Event) (p : PeerSt) (j : Nat) (oj : Obs), T ≤ p.lastUpdate → (∀ e ∈ es, T ≤ time e) →
      (trace w p es)[j]? = some oj →
      (∀ k o, k < j → (trace w p es)[k]? = some o → o.isQuery = false) →
      oj.isTick = true → oj.ran = true → oj.idle = true → T + w.cfg.idleInterval ≤ oj.time
  | [], _, _, _, _, _, h, _, _, _, _ => by simp [trace] at h
  | e :: es, p, 0, oj, hT, _, h, _, htick, hran, hidle => by
    simp only [trace, List.getElem?_cons_zero, Option.some.injEq] at h
    subst h
    cases e with
    | init t b => cases htick
    | query t b => cases htick
    | tick t b =>
      have := (tick_idlesAt_ran w t p b hidle).1 hran
      show T + w.cfg.idleInterval ≤ t
      omega
  | e :: es, p, j + 1, oj, hT, hge, h, hnoq, htick, hran, hidle => by
    simp only [trace, List.getElem?_cons_succ] at h
    have h0 : (observe w p e).isQuery = false := hnoq 0 _ (Nat.succ_pos j) (by simp [trace])
    have hne : ∀ t b, e ≠ .query t b := by
      intro t b he; rw [he] at h0; cases h0
    have hlu : T ≤ (step w p e).lastUpdate := by
      rcases step_lastUpdate w p e hne with h1 | h1
      · rw [h1]; exact hT
      · rw [h1]; exact hge e List.mem_cons_self
    refine cadence_after w T es (step w p e) j oj hlu (fun e' he' => hge e' (List.mem_cons_of_mem _ he')) h
      (fun k o hk ho => hnoq (k + 1) o (Nat.succ_lt_succ hk) (by simpa [trace] using ho)) htick hran hidle

/-- the idle cadence over the trace of a run -/
theorem cadence (w : World) :
    ∀ (es : List Event) (p : PeerSt) (i j : Nat) (oi oj : Obs), (es.map time).Pairwise (· ≤ ·) → i < j →
      (trace w p es)[i]? = some oi → (trace w p es)[j]? = some oj →
      (∀ k o, i < k → k < j → (trace w p es)[k]? = some o → o.isQuery = false) →
      oi.ran = true → oj.isTick = true → oj.ran = true → oj.idle = true →
      oi.time + w.cfg.idleInterval ≤ oj.time
  | [], _, _, _, _, _, _, _, h, _, _, _, _, _, _ => by simp [trace] at h
  | e :: es, p, _, 0, _, _, _, hij, _, _, _, _, _, _, _ => by omega
  | e :: es, p, 0, j + 1, oi, oj, hmono, _, hi, hj, hnoq, hri, htick, hran, hidle => by
    simp only [trace, List.getElem?_cons_zero, Option.some.injEq] at hi
    simp only [trace, List.getElem?_cons_succ] at hj
    subst hi
    rw [List.map_cons, List.pairwise_cons] at hmono
    have hge : ∀ e' ∈ es, time e ≤ time e' := fun e' he' => hmono.1 _ (List.mem_map_of_mem he')
    have hlu : (step w p e).lastUpdate = time e := by
      cases e with
      | init t b => exact initAllTables_lastUpdate_now w t p b
      | tick t b => exact tick_ran_lastUpdate w t p b hri
      | query t b => cases hri
    rw [observe_time]
    exact cadence_after w (time e) es (step w p e) j oj (by rw [hlu]; exact Int.le_refl _) hge hj
      (fun k o hk ho => hnoq (k + 1) o (Nat.succ_pos k) (Nat.succ_lt_succ hk) (by simpa [trace] using ho))
      htick hran hidle
  | e :: es, p, i + 1, j + 1, oi, oj, hmono, hij, hi, hj, hnoq, hri, htick, hran, hidle => by
    simp only [trace, List.getElem?_cons_succ] at hi hj
    rw [List.map_cons, List.pairwise_cons] at hmono
    exact cadence w es (step w p e) i j oi oj hmono.2 (Nat.lt_of_succ_lt_succ hij) hi hj
      (fun k o hk1 hk2 ho => hnoq (k + 1) o (Nat.succ_lt_succ hk1) (Nat.succ_lt_succ hk2) (by simpa [trace] using ho))
      hri htick hran hidle

/-! ## bounded staleness over a run -/

/-- the time of the last event during which a failure was recorded that no success has followed: cleared when the
    failure counter is zero after the event, kept when the event changed neither the counter nor the time the
    backend was last seen, else the time of the event -/
def failStamp (F : Option Int) (p p' : PeerSt) (t : Int) : Option Int :=
  if p'.errorCount = 0 then none
  else if p'.errorCount = p.errorCount ∧ p'.lastOnline = p.lastOnline then F
  else some t

/-- a run that carries the failure stamp along -/
def runG (w : World) : PeerSt × Option Int → List Event → PeerSt × Option Int
  | s, [] => s
  | s, e :: es => runG w (step w s.1 e, failStamp s.2 s.1 (step w s.1 e) (time e)) es

theorem runG_fst (w : World) : ∀ (es : List Event) (s : PeerSt × Option Int), (runG w s es).1 = run w s.1 es
  | [], _ => rfl
  | e :: es, s => by rw [runG, runG_fst w es, run_cons]

/-- a peer that holds data while a failure stamp is set was seen within `StaleBackendTimeout` before the stamp -/
def StaleOK (w : World) (s : PeerSt × Option Int) : Prop :=
  ∀ tf, s.2 = some tf → s.1.cache.isSome → tf - w.cfg.staleTimeout ≤ s.1.lastOnline

/-- the stamp is set exactly while the failure counter is positive -/
def StampOK (s : PeerSt × Option Int) : Prop := s.2 = none ↔ s.1.errorCount = 0

theorem stepG_ok (w : World) (s : PeerSt × Option Int) (e : Event) (T : Int) (h1 : StaleOK w s) (h2 : StampOK s)
    (h3 : ∀ tf, s.2 = some tf → tf ≤ T) (ht : T ≤ time e) :
    StaleOK w (step w s.1 e, failStamp s.2 s.1 (step w s.1 e) (time e)) ∧
      StampOK (step w s.1 e, failStamp s.2 s.1 (step w s.1 e) (time e)) ∧
      (∀ tf, failStamp s.2 s.1 (step w s.1 e) (time e) = some tf → tf ≤ time e) := by
  have tri := step_tri w s.1 e
  generalize step w s.1 e = p' at tri ⊢
  refine ⟨fun tf hF hc => ?_, ?_, fun tf hF => ?_⟩
  · simp only [] at hF hc ⊢
    unfold failStamp at hF
    split at hF
    · cases hF
    · rename_i hne
      split at hF
      · rename_i hsame
        rcases tri with ⟨_, b, c⟩ | ⟨a, _⟩ | ⟨_, _, c⟩
        · have := h1 tf hF (c hc)
          rw [b]; exact this
        · exact absurd a hne
        · have := c hc
          have := h3 tf hF
          omega
      · rename_i hdiff
        cases hF
        rcases tri with ⟨a, b, _⟩ | ⟨a, _⟩ | ⟨_, _, c⟩
        · exact absurd ⟨a, b⟩ hdiff
        · exact absurd a hne
        · exact c hc
  · unfold StampOK failStamp
    simp only []
    split
    · rename_i h0; simp [h0]
    · rename_i hne
      split
      · rename_i hsame
        unfold StampOK at h2
        rw [h2, ← hsame.1]
      · simp [hne]
  · unfold failStamp at hF
    split at hF
    · cases hF
    · split at hF
      · exact Int.le_trans (h3 tf hF) ht
      · cases hF; exact Int.le_refl _

theorem runG_ok (w : World) :
    ∀ (es : List Event) (s : PeerSt × Option Int) (T : Int), StaleOK w s → StampOK s → (∀ tf, s.2 = some tf → tf ≤ T) →
      (∀ e ∈ es, T ≤ time e) → (es.map time).Pairwise (· ≤ ·) → StaleOK w (runG w s es) ∧ StampOK (runG w s es)
  | [], s, _, h1, h2, _, _, _ => ⟨h1, h2⟩
  | e :: es, s, T, h1, h2, h3, hge, hmono => by
    rw [List.map_cons, List.pairwise_cons] at hmono
    obtain ⟨a, b, c⟩ := stepG_ok w s e T h1 h2 h3 (hge e List.mem_cons_self)
    exact runG_ok w es _ (time e) a b c (fun e' he' => hmono.1 _ (List.mem_map_of_mem he')) hmono.2

/-! ## a woken peer -/

/-- a peer that does not idle, was queried at `tq > 0` and is looked at no later than `IdleTimeout` after that
    does not start to idle -/
theorem idlesAt_awake {w : World} {now : Int} {p : PeerSt} (h1 : p.idling = false) (h2 : 0 < p.lastQuery)
    (h3 : now ≤ p.lastQuery + w.cfg.idleTimeout) : idlesAt w now p = false := by
  unfold idlesAt
  have a : (p.lastQuery == 0) = false := by simp; omega
  have b : decide (p.lastQuery < now - w.cfg.idleTimeout) = false := by simp; omega
  simp [h1, a, b]

theorem idleStep_of_awake {w : World} {now : Int} {p : PeerSt} (h : idlesAt w now p = false) : idleStep w now p = p := by
  have h1 := idleStep_idling w now p
  unfold idleStep at h1 ⊢
  split
  · rename_i hcond
    rw [if_pos hcond, h] at h1; cases h1
  · rfl

/-- a loop pass over an awake peer without data whose next run is due runs -/
theorem tick_due_nodata (w : World) (now : Int) (p : PeerSt) (b : BackendSt) (hidle : idlesAt w now p = false)
    (hc : p.cache = none) (hdue : p.lastUpdate + w.cfg.updateInterval ≤ now) : (tick w now p b).ran = true := by
  have hidling : p.idling = false := by
    unfold idlesAt at hidle
    cases hi : p.idling
    · rfl
    · rw [hi] at hidle; simp at hidle
  rw [tick_eq, idleStep_of_awake hidle]
  have htp : tpStep w now p b p.cache = (none, p, b, none) := by rw [hc]; rfl
  rw [htp]
  simp only []
  rw [mainStep_ran]
  unfold nextDue
  rw [hidling]
  simp only [Bool.false_eq_true, if_false]
  omega

/-! ## the answer of a client query -/

/-- the backend a client query sees for a peer (as the harness builds it from the peer state) -/
def peerView (id name : String) (p : PeerSt) : Backend :=
  { id := id, name := name, flags := p.flags, state := p.status, err := p.lastError,
    hasData := p.cache.isSome, tables := p.cache.getD [], addr := "" }

theorem peerView_available {id name : String} {p : PeerSt} (hg : Good p) (hu : p.status = .up) (t : Table) :
    backendAvailable (peerView id name p) t = true := by
  unfold backendAvailable peerView
  cases t.virt <;> simp only []
  · exact (hg.up hu).1
  · simp [hu]

/-- the `failed` list of an answer: the unknown backend ids, then the selected backends whose table is not available -/
def failedList (ds : Dataset) (t : Table) (req : Request) : List (String × String) :=
  (selectBackends ds t req).failed ++
    ((selectBackends ds t req).peers.filter (fun b => !backendAvailable b t)).map
      (fun b => (b.id, s!"peer is down: {b.err}"))

theorem dataQuery_failed (m : EvalMode) (s : Schema) (ds : Dataset) (t : Table) (req : Request) :
    (dataQuery m s ds t req).failed = failedList ds t req := by
  unfold dataQuery failedList
  simp only []
  split <;> rfl

theorem statsQuery_failed (m : StatsMode) (s : Schema) (ds : Dataset) (t : Table) (req : Request) :
    (statsQuery m s ds t req).failed = failedList ds t req := by
  unfold statsQuery failedList
  simp only []
  split <;> rfl

theorem selectBackends_peers_sub (ds : Dataset) (t : Table) (req : Request) :
    ∀ b ∈ (selectBackends ds t req).peers, b ∈ ds.backends := by
  intro b hb
  unfold selectBackends at hb
  simp only [] at hb
  split at hb
  · exact List.mem_of_mem_take hb
  · exact (List.mem_filter.1 hb).1

theorem selectBackends_failed_unknown (ds : Dataset) (t : Table) (req : Request) :
    ∀ x ∈ (selectBackends ds t req).failed, ds.backends.any (·.id == x.1) = false := by
  intro x hx
  unfold selectBackends at hx
  simp only [List.mem_map, List.mem_eraseDups, List.mem_filter] at hx
  obtain ⟨i, ⟨_, hi⟩, rfl⟩ := hx
  simpa using hi

/-- a known backend id all of whose backends are available for the table is not listed under `failed` -/
theorem failedList_not (ds : Dataset) (t : Table) (req : Request) (i : String)
    (hknown : ds.backends.any (·.id == i) = true)
    (havail : ∀ b ∈ ds.backends, b.id = i → backendAvailable b t = true) :
    ∀ x ∈ failedList ds t req, x.1 ≠ i := by
  intro x hx hxi
  unfold failedList at hx
  rw [List.mem_append] at hx
  rcases hx with hx | hx
  · have := selectBackends_failed_unknown ds t req x hx
    rw [hxi, hknown] at this; cases this
  · rw [List.mem_map] at hx
    obtain ⟨b, hb, rfl⟩ := hx
    rw [List.mem_filter] at hb
    have := havail b (selectBackends_peers_sub ds t req b hb.1) hxi
    rw [this] at hb
    exact absurd hb.2 (by simp)

/-! ## a client query keeps the peer awake -/

/-- awake, and queried no earlier than `tq` -/
def Awake (tq : Int) (p : PeerSt) : Prop := p.idling = false ∧ tq ≤ p.lastQuery

theorem step_awake (w : World) (tq : Int) (p : PeerSt) (e : Event) (hq : 0 < tq) (h : Awake tq p)
    (h1 : tq ≤ time e) (h2 : time e ≤ tq + w.cfg.idleTimeout) : Awake tq (step w p e) := by
  obtain ⟨a, b⟩ := h
  cases e with
  | init t bk =>
    obtain ⟨f1, f2, _⟩ := (initAllTables_ev w t p bk).frame
    exact ⟨f1.trans a, Int.le_trans b (Int.le_of_eq f2.symm)⟩
  | tick t bk =>
    have h2' : t ≤ tq + w.cfg.idleTimeout := h2
    have hi : idlesAt w t p = false := idlesAt_awake a (by omega) (by omega)
    have hev := tick_ev w t p bk
    rw [idleStep_of_awake hi] at hev
    obtain ⟨f1, f2, _⟩ := hev.frame
    exact ⟨f1.trans a, Int.le_trans b (Int.le_of_eq f2.symm)⟩
  | query t bk =>
    show Awake tq (clientQuery w t p bk).1
    rw [C13.query_awake w t p bk a]
    exact ⟨a, h1⟩

theorem run_awake (w : World) (tq : Int) (hq : 0 < tq) :
    ∀ (es : List Event) (p : PeerSt), Awake tq p → (∀ e ∈ es, tq ≤ time e ∧ time e ≤ tq + w.cfg.idleTimeout) →
      Awake tq (run w p es)
  | [], _, h, _ => h
  | e :: es, p, h, hb => by
    rw [run_cons]
    exact run_awake w tq hq es _ (step_awake w tq p e hq h (hb e List.mem_cons_self).1 (hb e List.mem_cons_self).2)
      (fun e' he' => hb e' (List.mem_cons_of_mem _ he'))

/-- after a client query the peer does not idle and carries the time of the query -/
theorem query_awake_after (w : World) (tq : Int) (p : PeerSt) (b : BackendSt) :
    Awake tq (step w p (.query tq b)) := by
  show Awake tq (clientQuery w tq p b).1
  cases hi : p.idling with
  | true =>
    obtain ⟨a, b1, _⟩ := C13.spinup_first w tq p b hi
    exact ⟨a, by rw [b1]; exact Int.le_refl _⟩
  | false =>
    rw [C13.query_awake w tq p b hi]
    exact ⟨hi, Int.le_refl _⟩

/-- `ResumeFromIdle` on a peer without data only makes the next loop pass due -/
theorem resume_nodata (w : World) (now : Int) (p : PeerSt) (b : BackendSt) (hc : p.cache = none) :
    resume w now p b = ({ p with lastUpdate := now - w.cfg.updateInterval }, b) := by
  unfold resume
  split
  · rename_i c _ hc'
    rw [hc] at hc'; cases hc'
  · rfl

/-- rebuilds and loop passes no earlier than `T` keep the update stamp at or after `T` -/
theorem run_lastUpdate_ge (w : World) (T : Int) :
    ∀ (es : List Event) (p : PeerSt), T ≤ p.lastUpdate → (∀ e ∈ es, T ≤ time e ∧ ∀ t b, e ≠ .query t b) →
      T ≤ (run w p es).lastUpdate
  | [], _, h, _ => h
  | e :: es, p, h, hb => by
    rw [run_cons]
    refine run_lastUpdate_ge w T es _ ?_ (fun e' he' => hb e' (List.mem_cons_of_mem _ he'))
    rcases step_lastUpdate w p e (hb e List.mem_cons_self).2 with h1 | h1
    · rw [h1]; exact h
    · rw [h1]; exact (hb e List.mem_cons_self).1

end Lmd.Avail
